(* R21: lemmas about Model/RoleApi.v *)
From Coq Require Import List NArith Bool Lia.
From DB Require Import Model.RoleApi.
Import ListNotations.
Open Scope N_scope.

Lemma src_guards_all : src_guards = mkGuards true true true true true true true true true true.
Proof. reflexivity. Qed.

Ltac all_cases :=
  repeat match goal with
         | a : api |- _ => destruct a
         | s : hstate |- _ => destruct s
         | b : bool |- _ => destruct b
         | r : role |- _ => destruct r
         end.

Lemma witness_refused_proved : forall st a, a <> Compaction -> api_verdict src_guards Witness st a <> Accepted.
Proof. rewrite src_guards_all. intros st a Ha. all_cases; cbv; congruence. Qed.

Lemma witness_never_enqueues_proved : forall st a, api_enqueues src_guards Witness st a = None.
Proof. rewrite src_guards_all. intros st a. all_cases; reflexivity. Qed.

Lemma witness_never_reaches_lookup_proved : forall st a, api_calls_lookup src_guards Witness st a = false.
Proof. rewrite src_guards_all. intros st a. all_cases; reflexivity. Qed.

Lemma witness_ready_verdict_proved : forall a, api_verdict src_guards Witness HReady a = witness_expected a.
Proof. rewrite src_guards_all. intros a. all_cases; reflexivity. Qed.

Lemma witness_refused_in_every_state_proved : forall st a, a <> Compaction ->
  api_verdict src_guards Witness st a = ErrInvalidOperation \/ api_verdict src_guards Witness st a = Panics \/
  api_verdict src_guards Witness st a = api_verdict src_guards Voter st a.
Proof. rewrite src_guards_all. intros st a Ha. all_cases; cbv; auto; congruence. Qed.

Lemma nonvoting_as_voter_proved : forall g st a, api_verdict g NonVoting st a = api_verdict g Voter st a.
Proof. intros g st a. destruct a; destruct st; reflexivity. Qed.

Lemma nonvoting_served_proved : forall a, args_ok a = true -> a <> Compaction ->
  api_verdict src_guards NonVoting HReady a = Accepted /\ api_enqueues src_guards NonVoting HReady a = table_of a.
Proof. rewrite src_guards_all. intros a Hok Ha. all_cases; cbv in Hok |- *; try discriminate; try congruence; auto. Qed.

Lemma guards_are_what_refuses_proved : forall a, args_ok a = true -> a <> Compaction ->
  api_verdict no_guards Witness HReady a = Accepted.
Proof. intros a Hok Ha. all_cases; cbv in Hok |- *; try discriminate; try congruence; auto. Qed.

(* one guard: the verdict of a witness depends on it *)
Lemma propose_guard_needed_proved :
  api_verdict (mkGuards false true true true true true true true true true) Witness HReady (Propose true) = Accepted.
Proof. reflexivity. Qed.

(* ---- config validation ---- *)
Lemma src_start_all : src_start_replica = start_replica true true true.
Proof. reflexivity. Qed.

Lemma witness_config_refused_proved : forall c, sc_witness c = true ->
  (0 < sc_snapshot_entries c \/ sc_nonvoting c = true) -> src_start_replica c = StartRefused.
Proof.
  rewrite src_start_all. intros c Hw H. unfold start_replica. rewrite Hw. cbn [andb].
  destruct H as [H|H].
  - apply N.ltb_lt in H. rewrite H. reflexivity.
  - rewrite H. rewrite orb_true_r. reflexivity.
Qed.

Lemma running_witness_never_snapshots_proved : forall c, sc_witness c = true ->
  src_start_replica c = Started -> auto_snapshot_possible c = false.
Proof.
  rewrite src_start_all. intros c Hw. unfold start_replica, auto_snapshot_possible. rewrite Hw. cbn [andb].
  destruct (0 <? sc_snapshot_entries c); [discriminate|reflexivity].
Qed.

Lemma other_configs_start_proved : forall c, sc_witness c = false -> src_start_replica c = Started.
Proof. rewrite src_start_all. intros c Hw. unfold start_replica. rewrite Hw. reflexivity. Qed.

(* ---- what a witness persists ---- *)
Lemma metadata_no_payload ents : Forall (fun e => carries_payload e = false) (make_metadata_entries ents).
Proof.
  unfold make_metadata_entries. apply Forall_forall. intros x Hx. apply in_map_iff in Hx.
  destruct Hx as (e & E & _). unfold carries_payload.
  destruct (e_type e =? et_ConfigChangeEntry) eqn:Ec; subst x.
  - rewrite Ec. reflexivity.
  - reflexivity.
Qed.

Lemma store_save_no_payload st ents :
  Forall (fun e => carries_payload e = false) st -> Forall (fun e => carries_payload e = false) ents ->
  Forall (fun e => carries_payload e = false) (store_save st ents).
Proof.
  intros Hs He. unfold store_save. destruct ents as [|e rest]; [exact Hs|].
  apply Forall_app. split; [|exact He].
  apply Forall_forall. intros x Hx. apply filter_In in Hx. destruct Hx as [Hx _].
  rewrite Forall_forall in Hs. apply Hs. exact Hx.
Qed.

Lemma witness_store_from st batches :
  Forall (fun e => carries_payload e = false) st ->
  Forall (fun e => carries_payload e = false) (fold_left witness_receive batches st).
Proof.
  revert st. induction batches as [|b bs IH]; intros st Hs; cbn [fold_left]; [exact Hs|].
  apply IH. unfold witness_receive. apply store_save_no_payload; [exact Hs|apply metadata_no_payload].
Qed.

Lemma witness_persists_no_payload_proved : forall batches,
  Forall (fun e => carries_payload e = false) (witness_store batches) /\ payload_entries (witness_store batches) = 0.
Proof.
  intros batches. assert (H : Forall (fun e => carries_payload e = false) (witness_store batches)).
  { unfold witness_store. apply witness_store_from. constructor. }
  split; [exact H|]. unfold payload_entries.
  replace (filter carries_payload (witness_store batches)) with (@nil entry); [reflexivity|].
  symmetry. induction H as [|x l Hx Hl IH]; [reflexivity|]. cbn [filter]. rewrite Hx. exact IH.
Qed.

(* no payload means: a membership change, or index and term only *)
Lemma no_payload_means e : carries_payload e = false ->
  e_type e = et_ConfigChangeEntry \/
  (e_type e = et_MetadataEntry /\ e_cmd e = [] /\ e_key e = 0 /\ e_client e = 0 /\ e_series e = 0 /\ e_resp e = 0).
Proof.
  unfold carries_payload. intros H. apply andb_false_iff in H. destruct H as [H|H].
  - left. apply negb_false_iff in H. apply N.eqb_eq. exact H.
  - right. apply negb_false_iff in H.
    apply andb_true_iff in H. destruct H as [H H6].
    apply andb_true_iff in H. destruct H as [H H5].
    apply andb_true_iff in H. destruct H as [H H4].
    apply andb_true_iff in H. destruct H as [H H3].
    apply andb_true_iff in H. destruct H as [H1 H2].
    apply N.eqb_eq in H1, H3, H4, H5, H6.
    destruct (e_cmd e); [|discriminate]. auto 10.
Qed.

Lemma witness_snapshot_has_no_file_proved : forall s,
  ss_has_file (make_witness_snapshot s) = false /\ ss_witness (make_witness_snapshot s) = true /\
  ss_dummy (make_witness_snapshot s) = false /\ ss_index (make_witness_snapshot s) = ss_index s /\
  ss_term (make_witness_snapshot s) = ss_term s.
Proof. intros s. destruct s. repeat split; reflexivity. Qed.
