(* C10 — the KV call trace of one SaveRaftState: reads, then at most one CommitWriteBatch. *)
From Coq Require Import List NArith Bool Lia.
From DB Require Import Base.Bytes Gen.GenC09 Gen.GenC10 Model.LogStoreSpec Model.KV
  Model.LogDBPlain Model.LogDBBatched Model.LogDBFaulty Proofs.LogDBFaulty.
Import ListNotations.
Open Scope N_scope.

Definition read_only (l : list kvcall) : Prop := Forall (fun c => is_write c = false) l.

(* between s and s' only read calls were made (the trace is newest first) *)
Definition reads (s s' : fstate) : Prop :=
  exists l, f_trace s' = l ++ f_trace s /\ read_only l.

Lemma reads_refl : forall s, reads s s.
Proof. intros s. exists []. split; [reflexivity|constructor]. Qed.

Lemma reads_trans : forall a b c, reads a b -> reads b c -> reads a c.
Proof.
  intros a b c (l1 & E1 & R1) (l2 & E2 & R2). exists (l2 ++ l1). split.
  - rewrite E2, E1. now rewrite app_assoc.
  - apply Forall_app. split; assumption.
Qed.

Lemma rd_reads : forall A c (v : A) s r s', is_write c = false -> rd c v s = (r, s') -> reads s s'.
Proof.
  intros A c v s r s' Hc H. unfold rd in H. inversion H; subst. exists [c]. split; [reflexivity|].
  constructor; [exact Hc|constructor].
Qed.

Ltac inv H := inversion H; subst; clear H.

Lemma save_snapshot_wb_f_reads : forall m n ss s r s',
  save_snapshot_wb_f m n ss s = (r, s') -> reads s s'.
Proof.
  intros m n ss s r s' H. unfold save_snapshot_wb_f in H. destruct (ss_emptyb ss).
  - inv H. apply reads_refl.
  - eapply rd_reads; [|exact H]. reflexivity.
Qed.

Lemma save_head_f_reads : forall m c u s r s', save_head_f m c u s = (r, s') -> reads s s'.
Proof.
  intros m c u s r s' H. unfold save_head_f in H. cbv zeta in H.
  destruct (head_state c u) as [c1 w1]. destruct (ss_emptyb (u_ss u)); [inv H; apply reads_refl|].
  destruct (cs_try_save_snapshot c1 (u_node u) (ss_index (u_ss u))) as [c2 ok]. destruct ok.
  - destruct (negb match u_ents u with [] => true | _ :: _ => false end
              && (last_index (u_ents u) <? ss_index (u_ss u))); [inv H; apply reads_refl|].
    destruct (save_snapshot_wb_f m (u_node u) (u_ss u) s) as [[[w2|]| |] s1] eqn:E;
      apply save_snapshot_wb_f_reads in E; inv H; exact E.
  - inv H. apply reads_refl.
Qed.

Lemma save_heads_f_reads : forall m us c s r s', save_heads_f m c us s = (r, s') -> reads s s'.
Proof.
  intros m us. induction us as [|u t IH]; intros c s r s' H; cbn [save_heads_f] in H.
  - inv H. apply reads_refl.
  - destruct (save_head_f m c u s) as [[[c1 w1]| |c0|] s1] eqn:E; apply save_head_f_reads in E;
      try (inv H; exact E).
    destruct (save_heads_f m c1 t s1) as [[[c2 w2]| |c0|] s2] eqn:E2; apply IH in E2;
      inv H; eapply reads_trans; eauto.
Qed.

Lemma b_merged_first_f_reads : forall f2 m cn n eb s r s',
  b_merged_first_f f2 m cn n eb s = (r, s') -> reads s s'.
Proof.
  intros f2 m cn n eb s r s' H. unfold b_merged_first_f in H.
  destruct eb as [|e0 eb']; [inv H; apply reads_refl|].
  destruct (e_index e0 mod bsz =? 0); [inv H; apply reads_refl|].
  assert (FD : forall r s',
    match rd (CGet (KBatch n (batch_id (e_index e0)))) (get_batch_from_db m n (batch_id (e_index e0))) s with
    | (CVal None, s1) => (CVal None, s1)
    | (CVal (Some None), s1) => (CVal (Some (e0 :: eb')), s1)
    | (CVal (Some (Some lb)), s1) => (CVal (merge_first_batch (e0 :: eb') lb), s1)
    | (CIOErr, s1) => if f2 then (CIOErr, s1) else (CVal (Some (e0 :: eb')), s1)
    | (CCrash, s1) => (CCrash, s1)
    end = (r, s') -> reads s s').
  { intros r0 s0 H0.
    destruct (rd (CGet (KBatch n (batch_id (e_index e0)))) (get_batch_from_db m n (batch_id (e_index e0))) s)
      as [[[[lb|]|]| |] s1] eqn:E; (eapply rd_reads in E; [|reflexivity]);
      try destruct f2; inv H0; exact E. }
  destruct (c_batch cn) as [[|l0 lr]|].
  - inv H. apply reads_refl.
  - destruct (batch_id (e_index e0) <? batch_id (e_index l0)); [now apply FD in H|inv H; apply reads_refl].
  - now apply FD in H.
Qed.

Lemma record_groups_f_reads : forall f2 m n fid lid gs cn s r s',
  record_groups_f f2 m n fid lid cn gs s = (r, s') -> reads s s'.
Proof.
  intros f2 m n fid lid gs. induction gs as [|g rest IH]; intros cn s r s' H; cbn [record_groups_f] in H.
  - inv H. apply reads_refl.
  - destruct g as [|e0 g']; [now apply IH in H|].
    destruct (fid =? batch_id (e_index e0)).
    + destruct (b_merged_first_f f2 m cn n (e0 :: g') s) as [[[meb|]| |] s1] eqn:E;
        apply b_merged_first_f_reads in E; try (inv H; exact E).
      destruct (record_groups_f f2 m n fid lid _ rest s1) as [[[[cn2 w]|]| |] s2] eqn:E2;
        apply IH in E2; inv H; eapply reads_trans; eauto.
    + destruct (record_groups_f f2 m n fid lid _ rest s) as [[[[cn2 w]|]| |] s2] eqn:E2;
        apply IH in E2; inv H; exact E2.
Qed.

Lemma b_record_f_reads : forall f2 m c n es s r s', b_record_f f2 m c n es s = (r, s') -> reads s s'.
Proof.
  intros f2 m c n es s r s' H. unfold b_record_f in H. destruct es as [|e0 es']; [inv H; apply reads_refl|].
  destruct (record_groups_f f2 m n _ _ (c n) _ s) as [[[[cn w]|]| |] s1] eqn:E;
    apply record_groups_f_reads in E; inv H; exact E.
Qed.

Lemma b_save_tail_f_reads : forall f2 m c u s r s', b_save_tail_f f2 m c u s = (r, s') -> reads s s'.
Proof.
  intros f2 m c u s r s' H. unfold b_save_tail_f in H. destruct (u_ents u) as [|e0 es']; [inv H; apply reads_refl|].
  destruct (b_record_f f2 m c (u_node u) (e0 :: es') s) as [[[[[c1 w] mi]|]| |] s1] eqn:E;
    apply b_record_f_reads in E; try destruct (0 <? mi); inv H; exact E.
Qed.

Lemma b_save_tails_f_reads : forall f2 m us c s r s', b_save_tails_f f2 m c us s = (r, s') -> reads s s'.
Proof.
  intros f2 m us. induction us as [|u t IH]; intros c s r s' H; cbn [b_save_tails_f] in H.
  - inv H. apply reads_refl.
  - destruct (b_save_tail_f f2 m c u s) as [[[c1 w1]| |c0|] s1] eqn:E; apply b_save_tail_f_reads in E;
      try (inv H; exact E).
    destruct (b_save_tails_f f2 m c1 t s1) as [[[c2 w2]| |c0|] s2] eqn:E2; apply IH in E2;
      inv H; eapply reads_trans; eauto.
Qed.

Lemma save_tails_f_reads : forall b f2 m c us s r s', save_tails_f b f2 m c us s = (r, s') -> reads s s'.
Proof.
  intros b f2 m c us s r s' H. unfold save_tails_f in H. destruct b.
  - now apply b_save_tails_f_reads in H.
  - inv H. apply reads_refl.
Qed.

(* what one SaveRaftState does to the KV store *)
Definition one_batch (d d' : fdb) (r : fres) : Prop :=
  exists rds, read_only rds /\
    ((f_trace (d_st d') = rds ++ f_trace (d_st d) /\ d_kv d' = d_kv d) \/
     (exists w, w <> [] /\ f_trace (d_st d') = CCommit w :: rds ++ f_trace (d_st d) /\
                (d_kv d' = d_kv d \/ d_kv d' = kv_commit (d_kv d) w) /\
                (r = FOk -> d_kv d' = kv_commit (d_kv d) w))).

Lemma commit_f_one : forall d c w s r d' rds,
  read_only rds -> f_trace s = rds ++ f_trace (d_st d) ->
  commit_f d c w s = (r, d') -> one_batch d d' r.
Proof.
  intros d c w s r d' rds HR HT H. unfold commit_f in H. exists rds. split; [exact HR|].
  destruct w as [|o w'].
  - inv H. left. cbn. auto.
  - right. exists (o :: w'). split; [discriminate|].
    unfold wr in H. destruct (firing s) as [[| |]|]; inv H; cbn [d_st d_kv tick f_trace];
      rewrite HT; (split; [reflexivity|]); (split; [auto|]); cbn; intros; try discriminate; auto.
Qed.

Theorem save_is_one_batch_trace : forall b f1 f2 d us r d',
  f_save_raft_state b f1 f2 d us = (r, d') -> one_batch d d' r.
Proof.
  intros b f1 f2 d us r d' H. unfold f_save_raft_state in H.
  assert (NOW : forall s1 (c : cache) r0, reads (d_st d) s1 ->
            one_batch d (mkFD (d_kv d) c s1) r0).
  { intros s1 c r0 (l & E & R). exists l. split; [exact R|]. left. cbn. auto. }
  destruct (save_heads_f (d_kv d) (d_cache d) us (d_st d)) as [[[c1 w1]| |c|] s1] eqn:EH;
    apply save_heads_f_reads in EH; try (inv H; now apply NOW).
  destruct (save_tails_f b f2 (d_kv d) c1 us s1) as [[[c2 w2]| |c|] s2] eqn:ET;
    apply save_tails_f_reads in ET;
    try (inv H; apply NOW; eapply reads_trans; eauto).
  destruct (reads_trans _ _ _ EH ET) as (l & E & R).
  eapply commit_f_one; eauto.
Qed.
