(* L2: ReadIndex never returns a stale index (stage 1 voter set).
   A read that a quorum confirmed carries an index >= every commit index any node had
   when the read was requested. *)
From DB Require Import Model.RaftNet Model.RaftNetRead Proofs.RaftNetLists Proofs.RaftNetElection
  Proofs.RaftNetLog Proofs.RaftNetCommitDefs Proofs.RaftNetCommit Proofs.RaftNetSafety.

Definition lc' (n : net) (lc : nat -> nat) (l : label) : nat -> nat :=
  match l with
  | LAdvanceCommit i k => updg lc (term (nodes n i)) k
  | _ => lc
  end.

(* c is bounded by what some leader of a term <= tmax committed by counting *)
Definition cbound (lc : nat -> nat) (tmax c : nat) : Prop :=
  c = 0 \/ exists t', t' <= tmax /\ c <= lc t'.

Lemma cbound_le lc tmax c c' : cbound lc tmax c -> c' <= c -> cbound lc tmax c'.
Proof. intros [->|(t' & Ht & Hc)] H; [left; lia | right; exists t'; split; lia]. Qed.

Lemma cbound_mono lc lc2 tmax tmax' c :
  cbound lc tmax c -> (forall t, lc t <= lc2 t) -> tmax <= tmax' -> cbound lc2 tmax' c.
Proof.
  intros [->|(t' & Ht & Hc)] Hl Hm; [now left|]. right. exists t'. specialize (Hl t'). split; lia.
Qed.

Lemma cbound_max lc tmax a b : cbound lc tmax a -> cbound lc tmax b -> cbound lc tmax (Nat.max a b).
Proof. intros Ha Hb. destruct (Nat.max_spec a b) as [[_ ->]|[_ ->]]; assumption. Qed.

Section ReadProofs.
  Variable V : list id.
  Hypothesis V_nodup : NoDup V.

  Notation inv := (inv V).
  Notation step := (step V).
  Notation stepR := (stepR V).
  Notation stepsR := (stepsR V).
  Notation reachableR := (reachableR V).
  Notation committed := (committed V).

  Definition K1 (n : net) lc := forall t, lc t = 0 \/ (lead n t <> None /\ committed n t (lc t)).
  Definition K2 (n : net) lc := forall i, role (nodes n i) = Leader -> lc (term (nodes n i)) <= commit (nodes n i).
  Definition K3 (n : net) lc := forall j, cbound lc (term (nodes n j)) (hcommit (nodes n j)).
  Definition K4 (n : net) lc := forall t ldr prev pt ents c,
    In (AE t ldr prev pt ents c) (msgs n) -> cbound lc t c.
  Definition K5 (n : net) lc := forall t ldr to c, In (HB t ldr to c) (msgs n) -> cbound lc t c.

  Record invK0 (n : net) (lc : nat -> nat) : Prop := {
    k_0 : inv n; k_1 : K1 n lc; k_2 : K2 n lc; k_3 : K3 n lc; k_4 : K4 n lc; k_5 : K5 n lc
  }.

  Lemma invK0_init : invK0 (init) (fun _ => 0).
  Proof.
    constructor; [apply inv_init | | | | |]; red; simpl; intros; try contradiction; auto; now left.
  Qed.

  Lemma lc'_mono n lc l n' : invK0 n lc -> step n l n' -> forall t, lc t <= lc' n lc l t.
  Proof.
    intros HK Hstep t. destruct l; simpl; auto.
    unfold updg. destruct (Nat.eqb_spec t (term (nodes n i))) as [->|]; [|lia].
    inversion Hstep; subst; repeat match goal with x := _ |- _ => subst x end.
    match goal with Hr : role _ = Leader |- _ => pose proof (k_2 n lc HK i Hr) end. lia.
  Qed.

  Lemma invK0_step n lc l n' : invK0 n lc -> step n l n' -> invK0 n' (lc' n lc l).
  Proof.
    intros HK Hstep. pose proof (k_0 n lc HK) as Hinv.
    pose proof (lc'_mono n lc l n' HK Hstep) as Hmono.
    pose proof (inv_fresh V V_nodup n l n' Hinv Hstep) as Hf.
    destruct Hinv as [H1 Hq H2 H3a H3b] eqn:Einv. pose proof (k_0 n lc HK) as Hinv'.
    pose proof (step_gext V n l n' H1 H2 Hf Hstep) as Hg.
    assert (Hterm := fun j => step_term_mono V n l n' j Hstep).
    constructor.
    - eapply inv_step; eauto.
    - (* K1 *)
      intros t.
      assert (Hold : lc t = 0 \/ (lead n' t <> None /\ committed n' t (lc t))).
      { destruct (k_1 n lc HK t) as [E|(Hl & Hc)]; [now left | right].
        split; [now apply (lead_gext n n') | now apply (committed_gext V n n')]. }
      destruct l; simpl; auto.
      unfold updg. destruct (Nat.eqb_spec t (term (nodes n i))) as [->|]; [|exact Hold].
      right. destruct (advance_commit_committed V V_nodup n i k n' Hinv' Hstep) as (Hc & _).
      split; [|now apply (committed_gext V n n')].
      inversion Hstep; subst. apply (lead_gext n _ _ Hg).
      rewrite (i_leader n H1 i) by assumption. discriminate.
    - (* K2 *)
      intros j. pose proof (k_2 n lc HK j) as Hold. pose proof (k_1 n lc HK) as HK1.
      inv_step Hstep; cbn [lc']; simp_upd; intros Hr; auto; try discriminate.
      + (* BecomeLeader: the term had no leader, so nothing was committed in it *)
        match goal with |- lc ?T <= _ =>
          destruct (HK1 T) as [E|(Hl & _)]; [lia|]; exfalso; apply Hl; apply Hf; reflexivity end.
      + (* AdvanceCommit by j *) rewrite updg_eq. lia.
      + (* AdvanceCommit by another leader *)
        unfold updg.
        match goal with |- context [?a =? ?b] => destruct (Nat.eqb_spec a b) as [E|] end; auto.
        exfalso. pose proof (i_leader n H1 j Hr) as A.
        match goal with Hi : role (nodes n ?i0) = Leader, Hne : j <> ?i0 |- _ =>
          pose proof (i_leader n H1 i0 Hi) as B end.
        rewrite E in A. congruence.
    - (* K3 *)
      intros j.
      assert (Hold : cbound (lc' n lc l) (term (nodes n' j)) (hcommit (nodes n j))).
      { eapply cbound_mono; [apply (k_3 n lc HK j) | exact Hmono | apply Hterm]. }
      pose proof (k_4 n lc HK) as HK4. pose proof (k_5 n lc HK) as HK5.
      destruct (i_commit_bounds n H3a j) as (Hcb & _).
      clear Hterm. inv_step Hstep; cbn [lc'] in *; simp_upd; auto.
      + (* HandleAE *)
        match goal with Hae : In (AE _ _ _ _ _ _) _ |- _ => pose proof (HK4 _ _ _ _ _ _ Hae) as Hc end.
        apply cbound_max; [exact Hold|].
        apply cbound_max; [eapply cbound_le; [exact Hold | lia]|].
        eapply cbound_le; [exact Hc | lia].
      + (* AdvanceCommit *)
        apply cbound_max; [exact Hold|]. right.
        match goal with |- exists _, _ <= term (nodes n ?k0) /\ _ => exists (term (nodes n k0)) end.
        split; [lia|]. rewrite updg_eq. lia.
      + (* HandleHB *)
        match goal with Hhb : In (HB _ _ _ _) _ |- _ => pose proof (HK5 _ _ _ _ Hhb) as Hc end.
        apply cbound_max; [exact Hold|].
        apply cbound_max; [eapply cbound_le; [exact Hold | lia] | exact Hc].
    - (* K4 *)
      intros t ldr prev pt ents c Hin.
      assert (Hn : In (AE t ldr prev pt ents c) (msgs n) \/ cbound lc t c).
      { pose proof (k_3 n lc HK ldr) as HK3.
        inv_step Hstep; msg_cases Hin; auto. right.
        destruct (i_commit_bounds n H3a ldr) as (Hcb & _).
        eapply cbound_le; [exact HK3 | lia]. }
      destruct Hn as [Ho|Hc]; [apply (k_4 n lc HK) in Ho|];
        eapply cbound_mono; eauto.
    - (* K5 *)
      intros t ldr to c Hin.
      assert (Hn : In (HB t ldr to c) (msgs n) \/ cbound lc t c).
      { pose proof (k_3 n lc HK ldr) as HK3.
        inv_step Hstep; msg_cases Hin; auto. right.
        destruct (i_commit_bounds n H3a ldr) as (Hcb & _).
        eapply cbound_le; [exact HK3 | lia]. }
      destruct Hn as [Ho|Hc]; [apply (k_5 n lc HK) in Ho|];
        eapply cbound_mono; eauto.
  Qed.

  (* ---- the read records ---- *)

  Definition read_ok (n : net) (r : readrec) : Prop :=
    invK0 (r_snap r) (r_snapl r) /\ gext (r_snap r) n /\
    role (nodes (r_snap r) (r_ldr r)) = Leader /\
    term (nodes (r_snap r) (r_ldr r)) = r_term r /\
    term_at (log (nodes (r_snap r) (r_ldr r))) (commit (nodes (r_snap r) (r_ldr r))) = r_term r /\
    r_index r = commit (nodes (r_snap r) (r_ldr r)).

  Definition K6 (s : netR) := forall r, In r (reads s) -> read_ok (baseR s) r.
  Definition K7 (s : netR) := forall t w ctx, In (t, w, ctx) (hbrs s) ->
    forall r, In r (reads s) -> r_ctx r = ctx ->
      r_term r = t /\ forall T c vl, In (Vote T w c vl) (msgs (r_snap r)) -> T <= t.
  Definition K8 (s : netR) := forall t w ctx, In (t, w, ctx) (hbrs s) ->
    exists r, In r (reads s) /\ r_ctx r = ctx.
  Definition K9 (s : netR) := forall r r', In r (reads s) -> In r' (reads s) ->
    r_ctx r = r_ctx r' -> r = r'.
  (* commit indexes only grow from a request to now, and from an older request to a
     newer one (the list is newest first) *)
  Definition K10 (s : netR) := forall r j, In r (reads s) ->
    hcommit (nodes (r_snap r) j) <= hcommit (nodes (baseR s) j).
  Definition K11 (s : netR) := forall pre r post j r', reads s = pre ++ r :: post -> In r' post ->
    hcommit (nodes (r_snap r') j) <= hcommit (nodes (r_snap r) j).

  Record invR (s : netR) : Prop := {
    r_0 : invK0 (baseR s) (lcommit s); r_6 : K6 s; r_7 : K7 s; r_8 : K8 s; r_9 : K9 s;
    r_10 : K10 s; r_11 : K11 s
  }.

  Lemma invR_init : invR (initR).
  Proof.
    constructor; [apply invK0_init | | | | | |]; red; simpl; intros; try contradiction.
    destruct pre; discriminate.
  Qed.

  Lemma invR_step s l s' : invR s -> stepR s l s' -> invR s'.
  Proof.
    intros [HK H6 H7 H8 H9 H10 H11] Hstep.
    inversion Hstep; subst; repeat match goal with x := _ |- _ => subst x end.
    - (* a base step *)
      pose proof (k_0 _ _ HK) as Hinv.
      assert (Hg : gext (baseR s) b').
      { pose proof (inv_fresh V V_nodup _ _ _ Hinv H) as Hf.
        destruct Hinv as [A1 Aq A2 A3a A3b]. eapply step_gext; eauto. }
      constructor; cbn [baseR lcommit reads hbrs]; auto.
      + change (lcommit' s l0) with (lc' (baseR s) (lcommit s) l0). now apply invK0_step.
      + intros r Hr. destruct (H6 r Hr) as (A & B & C). split; [exact A|]. split; [|exact C].
        eapply gext_trans; eauto.
      + intros r j Hr. cbn [baseR reads] in *. specialize (H10 r j Hr).
        destruct (hcommit_step V _ _ _ j Hinv H) as (Hm & _). lia.
    - (* a read request *)
      pose proof (k_0 _ _ HK) as Hinv. destruct Hinv as [A1 Aq A2 A3a A3b].
      constructor; cbn [baseR lcommit reads hbrs]; auto.
      + intros r [<-|Hr]; [|now apply H6].
        unfold read_ok; cbn [r_snap r_snapl r_ldr r_term r_index].
        split; [exact HK|]. split; [apply gext_refl|]. repeat split; auto.
      + intros t w ctx0 [Heq|Hin] r [<-|Hr] Hctx; cbn [r_ctx r_term r_snap] in *.
        * injection Heq as <- <- <-. split; [reflexivity|]. intros T c vl Hv.
          apply (i_vote_le _ A1 _ _ _ _ Hv).
        * injection Heq as <- <- <-. exfalso. eapply H1; eauto.
        * exfalso. destruct (H8 _ _ _ Hin) as (r0 & Hr0 & E0). eapply H1; eauto. congruence.
        * eapply H7; eauto.
      + intros t w ctx0 [Heq|Hin].
        * injection Heq as <- <- <-. eexists. split; [now left | reflexivity].
        * destruct (H8 _ _ _ Hin) as (r0 & Hr0 & E0). exists r0. split; [now right | exact E0].
      + intros r r' [<-|Hr] [<-|Hr'] E; cbn [r_ctx] in *; auto.
        * exfalso. eapply H1; eauto.
        * exfalso. eapply H1; eauto.
      + intros r j [<-|Hr]; cbn [r_snap baseR]; [lia | now apply H10].
      + intros pre r post j r' Hsplit Hr'. destruct pre as [|r0 pre]; simpl in Hsplit.
        * injection Hsplit as <- <-. cbn [r_snap]. now apply H10.
        * injection Hsplit as _ Hsplit. eapply H11; eauto.
    - (* a confirmation *)
      pose proof (k_0 _ _ HK) as Hinv. destruct Hinv as [A1 Aq A2 A3a A3b].
      constructor; cbn [baseR lcommit reads hbrs]; auto.
      + intros t0 w0 ctx0 [Heq|Hin] r Hr Hctx; [|eapply H7; eauto].
        injection Heq as <- <- <-.
        destruct H as (r1 & Hr1 & E1 & T1).
        assert (r = r1) by (apply H9; auto; congruence). subst r1.
        split; [exact T1|].
        intros T c vl Hv. destruct (H6 r Hr) as (_ & (Hincl & _) & _).
        pose proof (i_vote_le _ A1 _ _ _ _ (Hincl _ Hv)). lia.
      + intros t0 w0 ctx0 [Heq|Hin]; [|eauto].
        injection Heq as <- <- <-. destruct H as (r1 & Hr1 & E1 & _). eauto.
  Qed.

  Lemma invR_steps s ls s' : invR s -> stepsR s ls s' -> invR s'.
  Proof. intros Hi Hs. induction Hs; [assumption|]. apply IHHs. eapply invR_step; eauto. Qed.

  Lemma invR_reachable s : reachableR s -> invR s.
  Proof. intros (ls & Hs). eapply invR_steps; [apply invR_init | exact Hs]. Qed.

  (* ---- the theorem ---- *)

  Theorem read_index_not_stale s r j :
    reachableR s -> In r (reads s) -> confirmed V s r ->
    hcommit (nodes (r_snap r) j) <= r_index r.
  Proof.
    intros Hr Hin (Q & HQi & HQn & HQl & HQw).
    destruct (invR_reachable s Hr) as [HK H6 H7 H8 H9 _ _].
    destruct (H6 r Hin) as (HK0 & Hg & Hrole & Hterm & Hown & Hidx).
    set (n0 := r_snap r) in *. set (l0 := r_snapl r) in *. set (i := r_ldr r) in *.
    set (t := r_term r) in *.
    pose proof (k_0 _ _ HK0) as Hinv0. destruct Hinv0 as [A1 Aq A2 A3a A3b] eqn:Einv0.
    destruct (k_3 _ _ HK0 j) as [E|(t' & Ht' & Hc)]; [lia|].
    destruct (Nat.eq_dec (l0 t') 0) as [E0|E0]; [lia|].
    destruct (k_1 _ _ HK0 t') as [E|(Hl' & Hcm)]; [contradiction|].
    rewrite Hidx.
    destruct (Nat.lt_trichotomy t' t) as [Hlt|[->|Hgt]].
    - (* committed in an earlier term: it lies before the leader's own committed entry *)
      pose proof (i_leader n0 A1 i Hrole) as Hli. rewrite Hterm in Hli.
      assert (Hlt_lead : lead n0 t <> None) by (rewrite Hli; discriminate).
      pose proof (leader_completeness1 V n0 A2 A3b t t' (l0 t') Hcm Hlt Hlt_lead) as Hag.
      pose proof (i_leader_log n0 A2 i Hrole) as Hll. rewrite Hterm in Hll. rewrite Hll in Hag.
      destruct Hcm as (Hk' & Hterm' & _).
      assert (Hk'len : l0 t' <= length (log (nodes n0 i))).
      { apply agree_sym in Hag. eapply agree_len; [exact Hag | lia]. }
      assert (Et' : term_at (log (nodes n0 i)) (l0 t') = t').
      { rewrite (agree_term_at _ (l0 t') _ _ Hag) by lia. exact Hterm'. }
      assert (Ht1 : 1 <= t).
      { pose proof (i_role_term n0 A1 i). rewrite Hterm in H. apply H. congruence. }
      assert (Hcr : 1 <= commit (nodes n0 i) <= length (log (nodes n0 i)))
        by (apply term_at_in_range; lia).
      pose proof (log_ok_sorted n0 _ (i_llog_sorted n0 A2) (i_log_ok n0 A2 i)) as Hsorted.
      destruct (Nat.le_gt_cases (l0 t') (commit (nodes n0 i))) as [Hle|Hgt']; [lia|].
      pose proof (Hsorted (commit (nodes n0 i)) (l0 t') ltac:(lia) Hk'len). lia.
    - pose proof (k_2 _ _ HK0 i Hrole) as H2'. rewrite Hterm in H2'. lia.
    - exfalso. destruct (lead n0 t') as [c'|] eqn:El; [|congruence].
      destruct (Aq t' c' El) as (Q' & (I' & N' & L') & HQ'w).
      destruct (quorum_intersect V Q' Q I' HQi N' HQn L' HQl) as (w & Hw1 & Hw2).
      destruct (HQ'w w Hw1) as (vl & Hv).
      destruct (H7 _ _ _ (HQw w Hw2) r Hin eq_refl) as (_ & Hvotes).
      pose proof (Hvotes _ _ _ Hv). fold t in H. lia.
  Qed.

  Corollary read_index_covers_commits s r j :
    reachableR s -> In r (reads s) -> confirmed V s r ->
    commit (nodes (r_snap r) j) <= r_index r.
  Proof.
    intros Hr Hin Hc. pose proof (read_index_not_stale s r j Hr Hin Hc).
    destruct (invR_reachable s Hr) as [HK H6 _ _ _ _ _].
    destruct (H6 r Hin) as (HK0 & _).
    pose proof (k_0 _ _ HK0) as Hinv0. destruct Hinv0 as [_ _ _ A3a _].
    destruct (i_commit_bounds _ A3a j). lia.
  Qed.

  (* readIndex.confirm releases every OLDER pending read together with the confirmed one,
     at the confirmed read's index: that index also covers what was committed when the
     older reads were requested *)
  Theorem read_index_covers_older_reads s pre r post r' j :
    reachableR s -> reads s = pre ++ r :: post -> In r' post -> confirmed V s r ->
    hcommit (nodes (r_snap r') j) <= r_index r.
  Proof.
    intros Hr Hsplit Hr' Hc.
    assert (Hin : In r (reads s)) by (rewrite Hsplit; apply in_or_app; right; now left).
    pose proof (read_index_not_stale s r j Hr Hin Hc).
    pose proof (r_11 s (invR_reachable s Hr) pre r post j r' Hsplit Hr'). lia.
  Qed.

  (* ---- executable side ---- *)

  Theorem step_fnR_sound s l s' : step_fnR V s l = Some s' -> stepR s l s'.
  Proof.
    destruct l; cbn [step_fnR]; intros H.
    - destruct (step_fn V (baseR s) l) as [b'|] eqn:E; [|discriminate].
      injection H as <-. apply SRBase. now apply step_fn_sound.
    - match type of H with (if ?c then _ else _) = _ => destruct c eqn:Hc; [|discriminate] end.
      injection H as <-. apply andb_prop in Hc. destruct Hc as [Hc Hfresh].
      apply andb_prop in Hc. destruct Hc as [Hr Ht]. apply Nat.eqb_eq in Ht.
      apply SRRequest; auto using role_eqb_eq.
      intros r Hin E. rewrite forallb_forall in Hfresh. specialize (Hfresh r Hin).
      apply negb_true_iff in Hfresh. apply Nat.eqb_neq in Hfresh. contradiction.
    - match type of H with (if ?c then _ else _) = _ => destruct c eqn:Hc; [|discriminate] end.
      injection H as <-. apply andb_prop in Hc. destruct Hc as [Hex Ht]. apply Nat.eqb_eq in Ht.
      apply SRRespond; [|exact Ht].
      apply existsb_exists in Hex. destruct Hex as (r & Hin & Hb).
      apply andb_prop in Hb. destruct Hb as [A B]. apply Nat.eqb_eq in A, B. eauto.
  Qed.

  Theorem runR_sound ls : forall s s', runR V s ls = Some s' -> stepsR s ls s'.
  Proof.
    induction ls as [|l ls IH]; simpl; intros s s' H.
    - injection H as <-. constructor.
    - destruct (step_fnR V s l) as [s1|] eqn:E; [|discriminate].
      econstructor; [apply step_fnR_sound; exact E | apply IH; exact H].
  Qed.

  Corollary runR_reachable ls s : runR V (initR) ls = Some s -> reachableR s.
  Proof. intros H. exists ls. now apply runR_sound. Qed.

  Theorem confirmed_b_sound s r : confirmed_b V s r = true -> confirmed V s r.
  Proof.
    unfold confirmed_b. intros H. apply Nat.leb_le in H.
    destruct (filter_quorum V _ V_nodup H) as (Q & (HI & HN & HL) & Hf).
    exists Q. repeat split; auto. intros w Hw. specialize (Hf w Hw).
    apply existsb_exists in Hf. destruct Hf as ([[t0 w0] c0] & Hin & He). simpl in He.
    apply andb_prop in He. destruct He as [He E3]. apply andb_prop in He. destruct He as [E1 E2].
    apply Nat.eqb_eq in E1, E2, E3. now subst.
  Qed.

End ReadProofs.
