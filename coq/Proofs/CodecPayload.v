(* payload_roundtrip: GetPayload (GetEncoded ct cmd) = cmd, for the compression
   contract  decompress (compress x) = Some x  and the snappy block property that a
   block starts with the uvarint of the uncompressed length. *)
From DB Require Import Base.Bytes Model.CodecPayload Model.CodecUpdate Proofs.Bytes Proofs.CodecUpdate.
From Coq Require Import ZifyN ZifyNat ZifyBool.
Open Scope N_scope.

Lemma uvarint_std_read : forall i shift acc d,
  uvarint_std i shift acc d =
  match read_uvarint i shift acc d with Some (x, _) => Some x | None => None end.
Proof.
  induction i as [|i IH]; intros shift acc d; destruct d as [|b r]; cbn [uvarint_std read_uvarint]; try reflexivity.
  - destruct (b <? 128); [|reflexivity]. destruct ((0 =? 0)%nat && (1 <? b)); reflexivity.
  - destruct (b <? 128).
    + destruct ((S i =? 0)%nat && (1 <? b)); reflexivity.
    + apply IH.
Qed.

Section PayloadProofs.
  Variable compress : bytes -> bytes.
  Variable decompress : bytes -> option bytes.
  Hypothesis decompress_compress : forall x, decompress (compress x) = Some x.
  (* snappy block format: the block begins with uvarint(len(src)) *)
  Hypothesis compress_header : forall x, exists rest, compress x = uvarint (nlen x) ++ rest.

  Lemma payload_roundtrip_proved ct cmd enc :
    cmd <> [] -> nlen cmd < 2 ^ 64 ->
    get_encoded compress ct cmd = Some enc ->
    get_decoded decompress enc = POk cmd.
  Proof.
    intros Hne Hlen. unfold get_encoded. destruct cmd as [|c cmd]; [contradiction|].
    intros H. injection H as <-. destruct ct; cbn [ee_header get_decoded].
    - reflexivity.
    - change (2 / 16) with 0. change (2 / 2 mod 8) with 1. change (2 mod 2) with 0.
      cbn [N.eqb negb Pos.eqb]. change (1 =? 0) with false. change (1 =? 1) with true. cbv iota.
      destruct (compress_header (c :: cmd)) as [rest E]. rewrite E.
      rewrite uvarint_std_read. fold (std_uvarint (uvarint (nlen (c :: cmd)) ++ rest)).
      rewrite std_uvarint_enc by exact Hlen.
      destruct (N.eqb_spec (nlen (c :: cmd)) 0) as [F|_]; [unfold nlen in F; simpl in F; lia|].
      rewrite <- E, decompress_compress, N.eqb_refl. reflexivity.
  Qed.

  (* the uncompressed form never exceeds its advertised size len(cmd)+1 *)
  Lemma payload_plain_size cmd enc :
    get_encoded compress NoCompression cmd = Some enc -> nlen enc = nlen cmd + 1.
  Proof.
    unfold get_encoded. destruct cmd as [|c cmd]; [discriminate|].
    intros H. injection H as <-. cbn [ee_header]. unfold nlen. simpl length. lia.
  Qed.
End PayloadProofs.
