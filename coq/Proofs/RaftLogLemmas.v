(* C02, local half: the commit rule (quorum of match indexes, current term only), the
   follower append rule (never touches the committed prefix) and the apply hand-out. *)
From DB Require Import Model.RaftCore.
From Coq Require Import Arith ZifyN ZifyNat ZifyBool Lia.
Open Scope N_scope.

(* ---- the sorted match array ---- *)
Definition count_ge (q : N) (l : list N) : nat := length (filter (fun x => q <=? x) l).

Lemma count_ge_insert q x l : count_ge q (insert_sorted x l) = count_ge q (x :: l).
Proof.
  induction l as [|y l IH]; [reflexivity|]. cbn [insert_sorted].
  destruct (x <=? y); [reflexivity|].
  unfold count_ge in *. cbn [filter] in *. destruct (q <=? y); destruct (q <=? x); cbn [length] in *; lia.
Qed.

Lemma count_ge_sort q l : count_ge q (sort_n l) = count_ge q l.
Proof.
  induction l as [|x l IH]; [reflexivity|]. cbn [sort_n fold_right].
  change (fold_right insert_sorted [] l) with (sort_n l). rewrite count_ge_insert.
  unfold count_ge in *. cbn [filter]. destruct (q <=? x); cbn [length]; lia.
Qed.

Lemma sort_length l : length (sort_n l) = length l.
Proof.
  assert (H : forall x l, length (insert_sorted x l) = S (length l)).
  { intros x l0. induction l0 as [|y l0 IH]; [reflexivity|]. cbn [insert_sorted].
    destruct (x <=? y); cbn [length]; [reflexivity|]. rewrite IH. reflexivity. }
  induction l as [|x l IH]; [reflexivity|]. cbn [sort_n fold_right].
  change (fold_right insert_sorted [] l) with (sort_n l). rewrite H, IH. reflexivity.
Qed.

Definition sorted (l : list N) : Prop := forall i j, (i <= j < length l)%nat -> nth i l 0 <= nth j l 0.

Lemma sorted_cons x l : sorted l -> (forall y, In y l -> x <= y) -> sorted (x :: l).
Proof.
  intros Hs Hx i j [Hij Hj]. destruct i as [|i], j as [|j]; cbn [nth]; try lia.
  - apply Hx. apply nth_In. cbn [length] in Hj. lia.
  - apply Hs. cbn [length] in Hj. lia.
Qed.
Lemma sorted_tail x l : sorted (x :: l) -> sorted l.
Proof. intros H i j Hij. apply (H (S i) (S j)). cbn [length]. lia. Qed.
Lemma sorted_head x l y : sorted (x :: l) -> In y l -> x <= y.
Proof.
  intros H Hin. apply (In_nth _ _ 0) in Hin. destruct Hin as (k & Hk & E).
  rewrite <- E. apply (H 0%nat (S k)). cbn [length]. lia.
Qed.

Lemma insert_sorted_in x l y : In y (insert_sorted x l) <-> y = x \/ In y l.
Proof.
  induction l as [|z l IH]; cbn [insert_sorted In]; [intuition congruence|].
  destruct (x <=? z); cbn [In]; [intuition congruence|]. rewrite IH. intuition congruence.
Qed.

Lemma insert_sorted_sorted x l : sorted l -> sorted (insert_sorted x l).
Proof.
  induction l as [|z l IH]; intros Hs; cbn [insert_sorted].
  - apply sorted_cons; [exact Hs|intros y []].
  - destruct (N.leb_spec x z) as [Hle|Hgt].
    + apply sorted_cons; [exact Hs|]. intros y [E|Hy]; [subst; exact Hle|].
      pose proof (sorted_head _ _ _ Hs Hy). lia.
    + apply sorted_cons; [apply IH; eapply sorted_tail; exact Hs|].
      intros y Hy. apply insert_sorted_in in Hy. destruct Hy as [E|Hy]; [subst; lia|].
      apply (sorted_head _ _ _ Hs Hy).
Qed.

Lemma sort_sorted l : sorted (sort_n l).
Proof.
  induction l as [|x l IH]; [intros i j [_ H]; simpl in H; lia|].
  cbn [sort_n fold_right]. apply insert_sorted_sorted. exact IH.
Qed.

(* in a sorted list at least (length - i) elements are >= the i-th *)
Lemma sorted_count_ge l (i : nat) : sorted l -> (i < length l)%nat -> (length l - i <= count_ge (nth i l 0%N) l)%nat.
Proof.
  revert i. induction l as [|x l IH]; intros i Hs Hi; [cbn [length] in Hi; lia|].
  destruct i as [|i].
  - cbn [nth]. unfold count_ge. cbn [filter]. rewrite N.leb_refl. cbn [length].
    assert (E : filter (fun y => x <=? y) l = l).
    { assert (Hall : forall y, In y l -> (x <=? y) = true)
        by (intros y Hy; apply N.leb_le; apply (sorted_head _ _ _ Hs Hy)).
      clear -Hall. induction l as [|z l IHl]; [reflexivity|]. cbn [filter].
      rewrite (Hall z (or_introl eq_refl)). f_equal. apply IHl. intros y Hy. apply Hall. right. exact Hy. }
    rewrite E. lia.
  - cbn [nth length] in *. specialize (IH i (sorted_tail _ _ Hs) ltac:(lia)).
    unfold count_ge in *. cbn [filter]. destruct (_ <=? x); cbn [length]; lia.
Qed.

Definition voting_matches (r : raft) : list N :=
  map (fun kv => rm_match (snd kv)) (r_remotes r) ++ map (fun kv => rm_match (snd kv)) (r_witnesses r).

Lemma voting_matches_length r : N.of_nat (length (voting_matches r)) = num_voting r.
Proof. unfold voting_matches, num_voting, gen_numVotingMembers, nlen. rewrite app_length, !map_length. lia. Qed.

(* tryCommit: whenever the leader advances its commit index, the new value is the term-checked
   match index that at least a quorum of the voting members (voters + witnesses; never a
   non-voting member) have reached, and the entry there is of the leader's current term *)
Theorem try_commit_quorum_proved r :
  0 < num_voting r ->
  snd (try_commit r) = true ->
  let c := l_committed (r_log (fst (try_commit r))) in
  l_committed (r_log r) < c /\
  log_term (r_log r) c = r_term r /\
  (N.to_nat (quorum r) <= count_ge c (voting_matches r))%nat.
Proof.
  intros Hnv. unfold try_commit. destruct (negb (is_leader r)); [simpl; discriminate|].
  set (ms := sort_n _). set (i := N.to_nat (num_voting r - quorum r)).
  assert (Hlen : length ms = length (voting_matches r)) by (unfold ms; apply sort_length).
  assert (Hq : quorum r <= num_voting r /\ 0 < quorum r).
  { unfold quorum, gen_quorum. split; [|lia]. destruct (N.eq_dec (num_voting r) 1) as [E|E]; [rewrite E; simpl; lia|].
    pose proof (N.div_mod (num_voting r) 2). assert (num_voting r mod 2 < 2) by (apply N.mod_lt; lia). lia. }
  assert (Hi : (i < length ms)%nat).
  { rewrite Hlen. pose proof (voting_matches_length r). unfold i. lia. }
  unfold log_try_commit.
  destruct (N.leb_spec (nth i ms 0) (l_committed (r_log r))) as [Hle|Hgt]; [simpl; discriminate|].
  destruct (N.eqb_spec (log_term (r_log r) (nth i ms 0)) (r_term r)) as [Et|Et]; [|simpl; discriminate].
  unfold log_commit_to. destruct (N.leb_spec (nth i ms 0) (l_committed (r_log r))); [lia|].
  destruct (log_last (r_log r) <? nth i ms 0); [simpl; discriminate|].
  cbn [fst snd r_log set l_committed]. intros _.
  change (l_committed (r_log r <| l_committed := nth i ms 0 |>)) with (nth i ms 0).
  split; [lia|]. split; [exact Et|].
  pose proof (sorted_count_ge ms i (sort_sorted _) Hi) as Hc.
  assert (Hcs : count_ge (nth i ms 0) ms = count_ge (nth i ms 0) (voting_matches r))
    by (unfold ms at 2; apply count_ge_sort).
  rewrite Hcs in Hc.
  pose proof (voting_matches_length r) as Hvl.
  assert (Ei : i = N.to_nat (num_voting r - quorum r)) by reflexivity. clearbody i.
  rewrite Hlen in Hc. destruct Hq as [Hq1 Hq2]. lia.
Qed.

(* ---- follower append never touches the committed prefix ---- *)
Definition wf_log (l : rlog) : Prop :=
  (forall k e, nth_error (l_ents l) k = Some e -> e_index e = l_marker l + 1 + N.of_nat k) /\
  l_marker l <= l_committed l <= log_last l.


Lemma nth_error_firstn_lt {A} (l : list A) : forall n k, (k < n)%nat -> nth_error (firstn n l) k = nth_error l k.
Proof.
  induction l as [|a l IH]; intros n k H; [destruct n; destruct k; reflexivity|].
  destruct n as [|n]; [lia|]. destruct k as [|k]; [reflexivity|]. cbn. apply IH. lia.
Qed.

Lemma append_raw_fields l e es :
  l_marker (log_append_raw l (e :: es)) = l_marker l /\
  l_committed (log_append_raw l (e :: es)) = l_committed l /\
  l_ents (log_append_raw l (e :: es)) = firstn (N.to_nat (e_index e - log_first l)) (l_ents l) ++ e :: es.
Proof. repeat split; reflexivity. Qed.

Lemma ent_at_append_raw l e es i :
  log_first l <= e_index e -> e_index e <= log_last l + 1 -> i < e_index e ->
  ent_at (log_append_raw l (e :: es)) i = ent_at l i.
Proof.
  intros Hf Hl Hi. unfold ent_at.
  destruct (append_raw_fields l e es) as (Em & _ & Ee). rewrite Em, Ee.
  destruct (i <=? l_marker l) eqn:E; [reflexivity|]. apply N.leb_gt in E.
  unfold log_first, log_last, nlen in *.
  rewrite nth_error_app1 by (rewrite firstn_length; lia).
  apply nth_error_firstn_lt; lia.
Qed.

Lemma log_append_keeps l ents l' i :
  l_marker l <= l_committed l ->
  log_append l ents = Some l' -> i <= l_committed l ->
  ent_at l' i = ent_at l i /\ l_committed l' = l_committed l /\ l_marker l' = l_marker l.
Proof.
  intros Hwf Ha Hi. unfold log_append in Ha. destruct ents as [|e es]; [inversion Ha; subst; auto|].
  destruct (N.leb_spec (e_index e) (l_committed l)) as [H1|H1]; [discriminate|].
  destruct (N.ltb_spec (log_last l + 1) (e_index e)) as [H2|H2]; [discriminate|].
  inversion Ha. subst l'. split; [|split; reflexivity].
  apply ent_at_append_raw; unfold log_first; lia.
Qed.

(* handleReplicateMessage / tryAppend: whatever the message contains, entries at or below the
   commit index are never removed or replaced (the Go code panics instead: outcome None) *)
Theorem follower_append_keeps_committed_proved l idx ents l' i :
  l_marker l <= l_committed l ->
  log_try_append l idx ents = Some l' -> i <= l_committed l ->
  ent_at l' i = ent_at l i /\ l_committed l' = l_committed l.
Proof.
  intros Hwf Ha Hi. unfold log_try_append in Ha.
  destruct (conflict_index l ents =? 0); [inversion Ha; subst; auto|].
  destruct (conflict_index l ents <=? l_committed l); [discriminate|].
  destruct (log_append_keeps _ _ _ i Hwf Ha Hi) as (H1 & H2 & _). auto.
Qed.

(* commitTo never lowers the commit index; restore only moves it forward *)
Lemma log_commit_to_monotone l i l' : log_commit_to l i = Some l' ->
  l_committed l <= l_committed l' /\ l_ents l' = l_ents l /\ l_marker l' = l_marker l.
Proof.
  unfold log_commit_to. destruct (N.leb_spec i (l_committed l)); [intros E; inversion E; subst; repeat split; lia|].
  destruct (log_last l <? i); [discriminate|]. intros E. inversion E. subst.
  change (l_committed (l <| l_committed := i |>)) with i.
  change (l_ents (l <| l_committed := i |>)) with (l_ents l).
  change (l_marker (l <| l_committed := i |>)) with (l_marker l). repeat split; lia.
Qed.

Lemma log_append_committed l ents l' : log_append l ents = Some l' -> l_committed l' = l_committed l.
Proof.
  unfold log_append. destruct ents as [|e es]; [intros E; injection E as <-; reflexivity|].
  destruct (_ <=? _); [discriminate|]. destruct (_ <? _); [discriminate|].
  intros E. injection E as <-. apply (append_raw_fields l e es).
Qed.
Lemma log_try_append_committed l idx ents l' : log_try_append l idx ents = Some l' -> l_committed l' = l_committed l.
Proof.
  unfold log_try_append. destruct (_ =? 0); [intros E; injection E as <-; reflexivity|].
  destruct (_ <=? _); [discriminate|]. apply log_append_committed.
Qed.

Theorem replicate_commit_rule_proved r m :
  r_panic (handle_replicate_message r m) = false -> r_panic r = false ->
  l_committed (r_log r) <= l_committed (r_log (handle_replicate_message r m)).
Proof.
  unfold handle_replicate_message. cbv zeta.
  assert (Hs : forall (x : raft) mm, l_committed (r_log (send x mm)) = l_committed (r_log x)).
  { intros x mm. unfold send. destruct (finalize_term _ _); reflexivity. }
  destruct (_ <? _); [rewrite Hs; lia|].
  destruct (match_term _ _ _); [|rewrite Hs; lia].
  destruct (log_try_append (r_log r) (m_logindex m) (m_entries m)) as [l1|] eqn:E1; [|cbn; intros H1 H2; congruence].
  destruct (log_commit_to l1 _) as [l2|] eqn:E2; [|cbn; intros H1 H2; congruence].
  intros _ _. rewrite Hs.
  change (r_log (r <| r_log := l2 |>)) with l2.
  apply log_commit_to_monotone in E2. destruct E2 as (E2 & _).
  apply log_try_append_committed in E1. lia.
Qed.

(* ---- the apply hand-out: only committed, not yet processed entries, in index order ---- *)
Lemma nth_error_skipn {A} (l : list A) n k : nth_error (skipn n l) k = nth_error l (n + k).
Proof. revert l. induction n as [|n IH]; intros l; [reflexivity|]. destruct l; [destruct k; reflexivity|]. apply IH. Qed.

Theorem entries_to_apply_range_proved l :
  wf_log l ->
  forall k e, nth_error (entries_to_apply l) k = Some e ->
    e_index e = N.max (l_processed l + 1) (log_first l) + N.of_nat k /\
    l_processed l < e_index e <= l_committed l.
Proof.
  intros [Hidx Hc] k e Hk. unfold entries_to_apply in Hk.
  set (fna := N.max (l_processed l + 1) (log_first l)) in *.
  destruct (N.ltb_spec fna (l_committed l + 1)) as [Hlt|Hge]; [|destruct k; discriminate].
  unfold log_entries_range in Hk.
  assert (Hkn : (k < N.to_nat (l_committed l + 1 - fna))%nat).
  { destruct (Nat.ltb_spec k (N.to_nat (l_committed l + 1 - fna))) as [H|H]; [exact H|].
    rewrite (proj2 (nth_error_None _ _)) in Hk; [discriminate|]. rewrite firstn_length. lia. }
  rewrite nth_error_firstn_lt in Hk by exact Hkn. rewrite nth_error_skipn in Hk.
  apply Hidx in Hk. unfold log_first in *.
  pose proof (N.max_spec (l_processed l + 1) (l_marker l + 1)) as Hm. fold fna in Hm. clearbody fna.
  split; lia.
Qed.

(* ---- log queries ---- *)
(* a log query answers with committed entries only: the range [low, min(high, committed+1)) of
   the log, or ErrCompacted, and reports first index and committed+1 *)
Theorem log_query_committed_only_proved r m fi la err ents :
  r_log_query r = None ->
  r_log_query (handle_log_query r m) = Some (fi, la, err, ents) ->
  fi = log_first (r_log r) /\ la = l_committed (r_log r) + 1 /\
  (err = true -> ents = []) /\
  (err = false -> ents = [] \/
     (log_first (r_log r) <= m_from m <= l_committed (r_log r) /\
      ents = log_entries_range (r_log r) (m_from m) (N.min (m_to m) (l_committed (r_log r) + 1)))).
Proof.
  intros Hn. unfold handle_log_query. rewrite Hn. cbv zeta.
  destruct ((m_from m <? log_first (r_log r)) || (l_committed (r_log r) <? m_from m)) eqn:E1;
    [|destruct (m_from m =? N.min (m_to m) (l_committed (r_log r) + 1)) eqn:E2;
      [|destruct (N.min (m_to m) (l_committed (r_log r) + 1) <? m_from m) eqn:E3;
        [unfold panic; cbn [r_log_query set]; rewrite Hn; discriminate|destruct (_ && _) eqn:E4]]];
    cbn [r_log_query set]; intros H; injection H as <- <- <- <-; repeat split; try reflexivity;
    intros He; try discriminate; try solve [left; reflexivity].
  right. split; [lia|reflexivity].
Qed.
