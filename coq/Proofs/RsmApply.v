(* Proofs/RsmApply.v — lemmas about Model/RsmApply.v (C08). *)
From DB Require Import Base.Bytes Gen.GenC05 Gen.GenC08 Model.RsmApply.
From DB Require Model.Session Model.Membership Proofs.Session.
From Coq Require Import ZifyN ZifyNat ZifyBool.
Ltac Zify.zify_post_hook ::= Z.div_mod_to_equations.
Open Scope N_scope.

(* ====================================================================== *)
(* PART 2 — compaction bookkeeping                                          *)
(* ====================================================================== *)

(* every branch of node.getCompactionIndex: the value is positive and at most
   the snapshot index; which value it is, per branch *)
Lemma get_compaction_index_spec_proved : forall oh q index v,
  get_compaction_index oh q index = Some v ->
  0 < v /\ v <= index /\
  ((q_override q = true /\ 0 < q_cindex q /\ v = q_cindex q /\ v < index) \/
   (q_override q = true /\ q_cindex q = 0 /\ v = index - q_overhead q) \/
   (q_override q = false /\ v = index - oh)).
Proof.
  intros oh q index v H. unfold get_compaction_index in H.
  destruct (q_override q) eqn:Eo.
  - destruct (0 <? q_cindex q) eqn:Ec.
    + destruct (q_cindex q <? index) eqn:Ei; inversion H; subst. lia.
    + destruct (q_overhead q <? index) eqn:Ei; inversion H; subst. lia.
  - destruct (oh <? index) eqn:Ei; inversion H; subst. lia.
Qed.

(* overhead 0: the whole log up to the snapshot index goes *)
Lemma compaction_overhead_zero_proved : forall q index,
  0 < index -> q_override q = false -> get_compaction_index 0 q index = Some index.
Proof.
  intros q index P E. unfold get_compaction_index. rewrite E.
  destruct (0 <? index) eqn:Ei; [f_equal; lia | lia].
Qed.

(* the code as it stood: a user requested index of 2^64-1 is handed on although
   it is far above the snapshot index *)
Lemma compaction_index_wrap_refuted_proved :
  exists q index v, index < 2 ^ 64 /\ q_cindex q < 2 ^ 64 /\
    get_compaction_index_wrapping 0 q index = Some v /\ index < v.
Proof.
  exists (mkReq false true 0 (2 ^ 64 - 1)), 100, (2 ^ 64 - 1).
  repeat split; vm_compute; reflexivity.
Qed.

(* below 2^64-1 the two agree: the repair changes nothing else *)
Lemma compaction_index_wrapping_agrees_proved : forall oh q index,
  q_cindex q < 2 ^ 64 - 1 ->
  get_compaction_index_wrapping oh q index = get_compaction_index oh q index.
Proof.
  intros oh q index H. unfold get_compaction_index_wrapping, get_compaction_index.
  destruct (q_override q); [|reflexivity].
  destruct (0 <? q_cindex q); [|reflexivity].
  rewrite N.mod_small by lia.
  destruct (q_cindex q + 1 <=? index) eqn:A, (q_cindex q <? index) eqn:B; try reflexivity; lia.
Qed.

Definition covered (recorded : list N) (v : N) : Prop :=
  0 < v /\ exists r, In r recorded /\ v <= r.

Definition ninv (st : nstate) : Prop :=
  (n_lr_snapshot st = 0 \/ In (n_lr_snapshot st) (n_recorded st)) /\
  (n_compact_to st = 0 \/ covered (n_recorded st) (n_compact_to st)) /\
  Forall (fun p => covered (snd p) (fst p) /\ incl (snd p) (n_recorded st)) (n_removed st).

Lemma covered_mono : forall l l' v, incl l l' -> covered l v -> covered l' v.
Proof. intros l l' v I [P (r & Hr & Hle)]. split; auto. exists r. split; auto. Qed.

Lemma removed_mono : forall (l l' : list N) (rm : list (N * list N)),
  incl l l' ->
  Forall (fun p => covered (snd p) (fst p) /\ incl (snd p) l) rm ->
  Forall (fun p => covered (snd p) (fst p) /\ incl (snd p) l') rm.
Proof.
  intros l l' rm I H. eapply Forall_impl; [|exact H]. intros p [A B]. split; auto.
  eapply incl_tran; eauto.
Qed.

Lemma list_max_in : forall l, l <> [] -> In (list_max l) l.
Proof.
  induction l as [|x r IH]; intros H; [congruence|].
  cbn [list_max]. destruct r as [|y r'].
  - cbn. left. lia.
  - assert (In (list_max (y :: r')) (y :: r')) by (apply IH; congruence).
    destruct (N.max_spec x (list_max (y :: r'))) as [[_ E]|[_ E]]; rewrite E.
    + right. exact H0.
    + left. reflexivity.
Qed.

Lemma list_max_nil_or_in : forall l, list_max l = 0 \/ In (list_max l) l.
Proof. intros [|x r]; [left; reflexivity | right; apply list_max_in; congruence]. Qed.

Lemma compact_log_inv : forall oh q index st,
  ninv st -> In index (n_recorded st) -> ninv (compact_log oh q index st).
Proof.
  intros oh q index st (A & B & C) Hin. unfold compact_log.
  destruct (get_compaction_index oh q index) as [v|] eqn:E; [|repeat split; auto].
  apply get_compaction_index_spec_proved in E. destruct E as (P & L & _).
  repeat split; cbn [n_lr_snapshot n_recorded n_compact_to n_removed]; auto.
  right. split; auto. exists index. auto.
Qed.

Lemma compact_log_fields : forall oh q index st,
  n_recorded (compact_log oh q index st) = n_recorded st /\
  n_lr_snapshot (compact_log oh q index st) = n_lr_snapshot st /\
  n_ss_index (compact_log oh q index st) = n_ss_index st /\
  n_removed (compact_log oh q index st) = n_removed st.
Proof. intros. unfold compact_log. destruct (get_compaction_index oh q index); repeat split. Qed.

Lemma nstep_inv : forall oh st op, ninv st -> ninv (nstep oh st op).
Proof.
  intros oh st op I. destruct op as [q applied o cok | index | ok init | | ]; cbn [nstep].
  - destruct (negb (q_exported q) && (applied <=? n_ss_index st)); [exact I|].
    destruct o as [index|]; [|exact I].
    destruct cok; cbn [negb]; [|exact I].
    destruct (q_exported q) eqn:Ex; [exact I|].
    cbn [n_lr_snapshot n_recorded n_ss_index n_compact_to n_removed].
    destruct I as (A & B & C).
    assert (I1 : ninv (mkN (index :: n_recorded st) (n_lr_snapshot st) (n_ss_index st) (n_compact_to st) (n_removed st))).
    { repeat split; cbn [n_lr_snapshot n_recorded n_compact_to n_removed].
      - destruct A; [left|right; right]; auto.
      - destruct B; [left; auto|right]. eapply covered_mono; [|eauto]. apply incl_tl, incl_refl.
      - eapply removed_mono; [|eauto]. apply incl_tl, incl_refl. }
    destruct (index <=? n_lr_snapshot st) eqn:Le; [exact I1|].
    set (st2 := mkN (index :: n_recorded st) index (n_ss_index st) (n_compact_to st) (n_removed st)).
    assert (I2 : ninv st2).
    { destruct I1 as (A1 & B1 & C1). repeat split; cbn [n_lr_snapshot n_recorded n_compact_to n_removed st2]; auto.
      right. left. reflexivity. }
    pose proof (compact_log_inv oh q index st2 I2) as I3.
    assert (Hin : In index (n_recorded st2)) by (left; reflexivity). specialize (I3 Hin).
    destruct I3 as (A3 & B3 & C3). repeat split; cbn [n_lr_snapshot n_recorded n_compact_to n_removed]; auto.
  - destruct (index =? 0) eqn:Z; [exact I|].
    destruct I as (A & B & C).
    repeat split; cbn [n_lr_snapshot n_recorded n_compact_to n_removed].
    + right. destruct (index <=? n_lr_snapshot st) eqn:Le.
      * destruct A as [A|A]; [lia|]. right. exact A.
      * left. reflexivity.
    + destruct B; [left; auto|right]. eapply covered_mono; [|eauto]. apply incl_tl, incl_refl.
    + eapply removed_mono; [|eauto]. apply incl_tl, incl_refl.
  - set (done := ok && negb (n_lr_snapshot st =? 0)).
    assert (I1 : ninv (if done then compact_log oh default_req (n_lr_snapshot st) st else st)).
    { destruct done eqn:D; [|exact I]. apply compact_log_inv; auto.
      destruct I as (A & _). destruct A as [A|A]; auto.
      subst done. apply andb_prop in D. destruct D as [_ D]. rewrite A in D. discriminate. }
    destruct init; [|exact I1].
    destruct I1 as (A1 & B1 & C1). repeat split; cbn [n_lr_snapshot n_recorded n_compact_to n_removed]; auto.
  - destruct I as (A & B & C).
    repeat split; cbn [n_lr_snapshot n_recorded n_compact_to n_removed]; auto.
    destruct (list_max_nil_or_in (n_recorded st)); auto.
  - destruct (0 <? n_compact_to st) eqn:P; [|exact I].
    destruct I as (A & B & C).
    repeat split; cbn [n_lr_snapshot n_recorded n_compact_to n_removed]; auto.
    constructor; auto. cbn [fst snd]. split; [|apply incl_refl].
    destruct B as [B|B]; [lia|exact B].
Qed.

Lemma ninit_inv : ninv ninit.
Proof. repeat split; cbn; auto. Qed.

Lemma nrun_inv : forall oh ops st, ninv st -> ninv (nrun oh st ops).
Proof.
  intros oh ops. unfold nrun. induction ops as [|op r IH]; intros st I; cbn [fold_left]; auto.
  apply IH, nstep_inv, I.
Qed.

(* every value handed to LogReader.Compact / ILogDB.RemoveEntriesTo, in every run
   of the node bookkeeping (any interleaving of saves with any request, received
   snapshots, recoveries, restarts and removeLog calls), is positive and at most
   the index of a snapshot whose record was ALREADY in the log store at that
   moment — and still is at the end of the run *)
Lemma compaction_below_recorded_snapshot_proved : forall oh ops,
  Forall (fun p : N * list N =>
            0 < fst p /\
            (exists r, In r (snd p) /\ fst p <= r) /\
            incl (snd p) (n_recorded (nrun oh ninit ops)))
         (n_removed (nrun oh ninit ops)).
Proof.
  intros oh ops. destruct (nrun_inv oh ops ninit ninit_inv) as (_ & _ & C).
  eapply Forall_impl; [|exact C]. intros p [[P E] I]. auto.
Qed.

(* records are never taken back by the bookkeeping *)
Lemma recorded_grow_only_proved : forall oh st op, incl (n_recorded st) (n_recorded (nstep oh st op)).
Proof.
  intros oh st op. destruct op as [q applied o cok | index | ok init | | ]; cbn [nstep].
  - destruct (negb (q_exported q) && (applied <=? n_ss_index st)); [apply incl_refl|].
    destruct o as [ix|]; [|apply incl_refl]. destruct cok; cbn [negb]; [|apply incl_refl].
    destruct (q_exported q); [apply incl_refl|]. cbn [n_lr_snapshot n_recorded].
    destruct (ix <=? n_lr_snapshot st); cbn [n_recorded]; [apply incl_tl, incl_refl|].
    unfold compact_log. destruct (get_compaction_index oh q ix); cbn; apply incl_tl, incl_refl.
  - destruct (index =? 0); [apply incl_refl|]. cbn. apply incl_tl, incl_refl.
  - destruct (ok && negb (n_lr_snapshot st =? 0)).
    + destruct (compact_log_fields oh default_req (n_lr_snapshot st) st) as (E & _).
      destruct init; cbn [n_recorded]; rewrite E; apply incl_refl.
    + destruct init; cbn [n_recorded]; apply incl_refl.
  - cbn. apply incl_refl.
  - destruct (0 <? n_compact_to st); cbn; apply incl_refl.
Qed.

(* the comparisons / call orders the model is written from, as they stand in the
   source on this run (Gen/GenC08.v): a change of any of them breaks this lemma *)
Lemma source_tie_proved :
  src_eta_old_le = true /\ src_eta_hole_gt = true /\ src_eta_skip = true /\
  src_set_applied_next = true /\ src_set_applied_term = true /\
  src_in_init_le = true /\ src_set_od_init_le = true /\ src_set_od_le = true /\
  src_recover_required_init = true /\ src_recover_required = true /\ src_partial_check_init = true /\
  src_recover_out_of_date_ge = true /\ src_recover_partial = true /\ src_status_same_index = true /\
  src_ssmeta_fields = true /\ src_apply_restores = true /\ src_dummy_rule = true /\
  src_compaction_user_index = true /\ src_compaction_user_index_set = true /\
  src_compaction_user_overhead = true /\ src_compaction_overhead = true /\
  src_dosave_order = true /\ src_commit_order = true /\ src_recover_order = true /\
  src_remove_log_order = true /\ src_save_raft_state_before_process_snapshot = true /\
  src_snapshot_update_not_fast_applied = true /\
  src_can_stream_guard = true /\ src_ready_to_stream = true /\ src_concurrent_save_syncs = true /\
  src_membership_get_copies = true /\ src_send_snapshot_decision = true /\
  src_stream_task_outcome = true /\ src_chunk_sync_cond = true /\ src_batch_payload_own_buffer = true.
Proof. repeat split; reflexivity. Qed.

(* ====================================================================== *)
(* PART 1 — the apply path                                                  *)
(* ====================================================================== *)

Section RsmProofs.
Context {S result : Type}.
Variable sm_update : S -> bytes -> S * result.
Variable norm : Membership.addr -> Membership.addr.

Notation state := (@state S result).
Notation event := (@event result).
Notation apply_entry := (@apply_entry S result sm_update norm).
Notation apply_app := (@apply_app S result sm_update).
Notation apply_cc := (@apply_cc S result norm).
Notation run_entries := (@run_entries S result sm_update norm).
Notation apply_task := (@apply_task S result sm_update norm).
Notation run_tasks := (@run_tasks S result sm_update norm).
Notation sess_inv := (@Proofs.Session.inv S result).

(* ---- vocabulary --------------------------------------------------------- *)

(* the log: entry number i (from 1) has index base + i *)
Fixpoint contiguous (base : N) (es : list (@entry)) : Prop :=
  match es with
  | [] => True
  | e :: r => en_index e = base + 1 /\ contiguous (base + 1) r
  end.

(* raft terms: at least 1, never decreasing along the log *)
Fixpoint terms_ok (t : N) (es : list (@entry)) : Prop :=
  match es with
  | [] => True
  | e :: r => 0 < en_term e /\ t <= en_term e /\ terms_ok (en_term e) r
  end.

(* between two tasks lastApplied equals (index, term) *)
Definition synced (st : state) : Prop :=
  r_last_index st = r_index st /\ r_last_term st = r_term st.

Definition sync (st : state) : state := with_last st (r_index st) (r_term st).

(* the session table invariant of C05 + a usable capacity *)
Definition tab_ok (st : state) : Prop :=
  sess_inv (Session.mkState (r_tab st) (r_sm st)) /\ 0 < Session.t_cap (r_tab st).

Definition map_state {A} (f : state -> state) (r : res (state * A)) : res (state * A) :=
  match r with Ok (s, a) => Ok (f s, a) | Err e => Err e end.

(* ---- the fields the entry path does not read ----------------------------- *)

Ltac crunch :=
  repeat (cbn -[N.add N.eqb N.ltb N.leb N.sub N.of_nat];
          match goal with
          | |- context [if ?b then _ else _] => destruct b eqn:?
          | |- context [match ?x with _ => _ end] => destruct x eqn:?
          end);
  cbn -[N.add N.eqb N.ltb N.leb N.sub N.of_nat]; try reflexivity.

Lemma apply_entry_with_last : forall cfg st e i t,
  apply_entry cfg (with_last st i t) e = map_state (fun s => with_last s i t) (apply_entry cfg st e).
Proof.
  intros cfg [sm tab mem idx tm li lt odi od ssi] e i t.
  unfold RsmApply.apply_entry, RsmApply.apply_app, RsmApply.apply_cc, set_applied, set_on_disk_index,
    entry_in_init_disk_sm, bind, with_last, with_applied, with_sess, with_mem, with_od, map_state.
  cbn [r_sm r_tab r_mem r_index r_term r_last_index r_last_term r_od_init r_od r_ss_index].
  destruct (en_body e) as [se|c].
  - destruct (is_update_kind (Session.classify se) && (if c_ondisk cfg then en_index e <=? odi else false)).
    + crunch.
    + destruct (Session.step sm_update (Session.mkState tab sm) se) as [sst o]. destruct o; crunch.
  - destruct (Membership.handle norm (c_ordered cfg) mem c (en_index e)); crunch.
Qed.

Lemma apply_entry_with_ss_index : forall cfg st e i,
  apply_entry cfg (with_ss_index st i) e = map_state (fun s => with_ss_index s i) (apply_entry cfg st e).
Proof.
  intros cfg [sm tab mem idx tm li lt odi od ssi] e i.
  unfold RsmApply.apply_entry, RsmApply.apply_app, RsmApply.apply_cc, set_applied, set_on_disk_index,
    entry_in_init_disk_sm, bind, with_ss_index, with_applied, with_sess, with_mem, with_od, map_state.
  cbn [r_sm r_tab r_mem r_index r_term r_last_index r_last_term r_od_init r_od r_ss_index].
  destruct (en_body e) as [se|c].
  - destruct (is_update_kind (Session.classify se) && (if c_ondisk cfg then en_index e <=? odi else false)).
    + crunch.
    + destruct (Session.step sm_update (Session.mkState tab sm) se) as [sst o]. destruct o; crunch.
  - destruct (Membership.handle norm (c_ordered cfg) mem c (en_index e)); crunch.
Qed.

Lemma run_entries_with_last : forall cfg es st i t,
  run_entries cfg (with_last st i t) es = map_state (fun s => with_last s i t) (run_entries cfg st es).
Proof.
  induction es as [|e r IH]; intros st i t; [reflexivity|].
  cbn [RsmApply.run_entries]. rewrite apply_entry_with_last.
  destruct (apply_entry cfg st e) as [[s1 ev]|x]; cbn [map_state bind fst snd]; [|reflexivity].
  rewrite IH. destruct (run_entries cfg s1 r) as [[s2 evs]|x]; reflexivity.
Qed.

Lemma run_entries_with_ss_index : forall cfg es st i,
  run_entries cfg (with_ss_index st i) es = map_state (fun s => with_ss_index s i) (run_entries cfg st es).
Proof.
  induction es as [|e r IH]; intros st i; [reflexivity|].
  cbn [RsmApply.run_entries]. rewrite apply_entry_with_ss_index.
  destruct (apply_entry cfg st e) as [[s1 ev]|x]; cbn [map_state bind fst snd]; [|reflexivity].
  rewrite IH. destruct (run_entries cfg s1 r) as [[s2 evs]|x]; reflexivity.
Qed.

(* ---- what one entry does to the bookkeeping ------------------------------- *)

Lemma set_applied_ok : forall (st st' : state) i t,
  set_applied st i t = Ok st' ->
  i = r_index st + 1 /\ r_term st <= t /\ st' = with_applied st i t.
Proof.
  intros st st' i t. unfold set_applied.
  destruct (negb (r_index st + 1 =? i)) eqn:A; [discriminate|].
  destruct (t <? r_term st) eqn:B; [discriminate|]. intros H; inversion H; subst.
  repeat split; lia.
Qed.

Lemma step_cap : forall (sst : @Session.state S result) se,
  Session.t_cap (Session.st_tab (fst (Session.step sm_update sst se))) = Session.t_cap (Session.st_tab sst).
Proof.
  intros [t sm] e. unfold Session.step. cbn [Session.st_tab Session.st_sm].
  destruct (Session.classify e); cbn; auto.
  - unfold Session.register, Session.lru_get, Session.lru_add. cbn [Session.s_client Session.new_session].
    destruct (Session.lru_find (Session.e_client e) (Session.t_list t)) as [[? ?]|]; cbn; auto.
  - unfold Session.unregister, Session.lru_get, Session.lru_del.
    destruct (Session.lru_find (Session.e_client e) (Session.t_list t)) as [[? ?]|] eqn:F; cbn; auto.
    destruct (Proofs.Session.lru_find_some _ _ _ _ F) as (? & ? & _ & _ & <- & _). now rewrite N.eqb_refl.
  - destruct (sm_update sm (Session.e_cmd e)); auto.
  - unfold Session.update_session, Session.lru_get. cbn [Session.st_tab Session.st_sm].
    destruct (Session.lru_find (Session.e_client e) (Session.t_list t)) as [[? ?]|]; cbn; auto.
    destruct (Session.has_responded _ _); cbn; auto.
    destruct (Session.hist_get _ _); cbn; auto.
    destruct (sm_update sm (Session.e_cmd e)). destruct (Session.add_response _ _ _); cbn; auto.
Qed.

Ltac splits := repeat match goal with |- _ /\ _ => split end.
Ltac fin := repeat split; auto; try lia; try (left; lia).

(* the shape of a successful entry *)
Lemma apply_entry_shape : forall cfg (st st' : state) e ev,
  apply_entry cfg st e = Ok (st', ev) ->
  en_index e = r_index st + 1 /\ r_term st <= en_term e /\
  r_index st' = en_index e /\ r_term st' = en_term e /\
  r_last_index st' = r_last_index st /\ r_last_term st' = r_last_term st /\
  r_od_init st' = r_od_init st /\ r_ss_index st' = r_ss_index st /\
  (c_ondisk cfg = false -> r_od st' = r_od st) /\
  (r_od st <= r_od st' \/ c_ondisk cfg = false) /\
  ((r_tab st' = r_tab st /\ r_sm st' = r_sm st) \/
   exists se, en_body e = BApp se /\
     Session.mkState (r_tab st') (r_sm st') =
       fst (Session.step sm_update (Session.mkState (r_tab st) (r_sm st)) se)).
Proof.
  intros cfg st st' e ev. unfold RsmApply.apply_entry.
  destruct (en_body e) as [se|c] eqn:B.
  - unfold RsmApply.apply_app.
    destruct (is_update_kind (Session.classify se) && entry_in_init_disk_sm cfg st (en_index e)).
    + unfold bind. destruct (set_applied st (en_index e) (en_term e)) as [s1|] eqn:A; [|discriminate].
      intros H; inversion H; subst. apply set_applied_ok in A. destruct A as (A1 & A2 & ->).
      destruct st; cbn in *. fin.
    + destruct (Session.step sm_update (Session.mkState (r_tab st) (r_sm st)) se) as [sst o] eqn:St.
      assert (G : forall s1, bind (if called_user_sm o then set_on_disk_index cfg (with_sess st (Session.st_tab sst) (Session.st_sm sst)) (en_index e) (en_index e)
                                   else Ok (with_sess st (Session.st_tab sst) (Session.st_sm sst)))
                    (fun st2 => bind (set_applied st2 (en_index e) (en_term e)) (fun st3 => Ok (st3, EvApp o))) = Ok (s1, ev) ->
                  en_index e = r_index st + 1 /\ r_term st <= en_term e /\
                  r_index s1 = en_index e /\ r_term s1 = en_term e /\
                  r_last_index s1 = r_last_index st /\ r_last_term s1 = r_last_term st /\
                  r_od_init s1 = r_od_init st /\ r_ss_index s1 = r_ss_index st /\
                  (c_ondisk cfg = false -> r_od s1 = r_od st) /\
                  (r_od st <= r_od s1 \/ c_ondisk cfg = false) /\
                  r_tab s1 = Session.st_tab sst /\ r_sm s1 = Session.st_sm sst).
      { intros s1. unfold bind.
        destruct (called_user_sm o).
        - unfold set_on_disk_index. destruct (negb (c_ondisk cfg)) eqn:OD.
          + destruct (set_applied _ _ _) as [s3|] eqn:A; [|discriminate]. intros H; inversion H; subst.
            apply set_applied_ok in A. destruct A as (A1 & A2 & ->). destruct st; cbn in *.
            fin; try (right; destruct (c_ondisk cfg); auto; discriminate).
          + destruct (en_index e <? en_index e); [discriminate|].
            cbn [with_sess r_od_init r_od].
            destruct (en_index e <=? r_od_init st) eqn:X1; [discriminate|].
            destruct (en_index e <=? r_od st) eqn:X2; [discriminate|].
            destruct (set_applied _ _ _) as [s3|] eqn:A; [|discriminate]. intros H; inversion H; subst.
            apply set_applied_ok in A. destruct A as (A1 & A2 & ->). destruct st; cbn in *.
            fin; try (intros F; rewrite F in OD; discriminate).
        - destruct (set_applied _ _ _) as [s3|] eqn:A; [|discriminate]. intros H; inversion H; subst.
          apply set_applied_ok in A. destruct A as (A1 & A2 & ->). destruct st; cbn in *.
          fin. }
      intros H.
      assert (H' : bind (if called_user_sm o then set_on_disk_index cfg (with_sess st (Session.st_tab sst) (Session.st_sm sst)) (en_index e) (en_index e)
                         else Ok (with_sess st (Session.st_tab sst) (Session.st_sm sst)))
                    (fun st2 => bind (set_applied st2 (en_index e) (en_term e)) (fun st3 => Ok (st3, EvApp o))) = Ok (st', ev)).
      { destruct o; try exact H. discriminate. }
      apply G in H'. destruct H' as (a & b & c & d & f & g & h & i & j & k & l & m).
      repeat split; auto. right. exists se. split; auto. rewrite St. cbn [fst].
      rewrite l, m. destruct sst; reflexivity.
  - unfold RsmApply.apply_cc. destruct (Membership.handle norm (c_ordered cfg) (r_mem st) c (en_index e)) as [m'|r|t];
      unfold bind; try discriminate.
    + destruct (set_applied _ _ _) as [s3|] eqn:A; [|discriminate]. intros H; inversion H; subst.
      apply set_applied_ok in A. destruct A as (A1 & A2 & ->). destruct st; cbn in *.
      fin.
    + destruct (set_applied _ _ _) as [s3|] eqn:A; [|discriminate]. intros H; inversion H; subst.
      apply set_applied_ok in A. destruct A as (A1 & A2 & ->). destruct st; cbn in *.
      fin.
Qed.

Lemma apply_entry_tab_ok : forall cfg (st st' : state) e ev,
  apply_entry cfg st e = Ok (st', ev) -> tab_ok st -> tab_ok st'.
Proof.
  intros cfg st st' e ev H [I C]. apply apply_entry_shape in H.
  destruct H as (_ & _ & _ & _ & _ & _ & _ & _ & _ & _ & [[E1 E2]|(se & _ & E)]).
  - unfold tab_ok. rewrite E1, E2. split; auto.
  - unfold tab_ok. rewrite E. split.
    + apply Proofs.Session.step_inv. exact I.
    + pose proof (step_cap (Session.mkState (r_tab st) (r_sm st)) se) as K.
      rewrite <- E in K. cbn [Session.st_tab] in K. rewrite K. exact C.
Qed.

(* ---- runs ----------------------------------------------------------------- *)

Definition run_sync cfg (st : state) es : res (state * list event) :=
  match run_entries cfg st es with Ok (s, evs) => Ok (sync s, evs) | Err e => Err e end.

Lemma run_entries_app : forall cfg a b (st : state),
  run_entries cfg st (a ++ b) =
  bind (run_entries cfg st a) (fun p =>
    bind (run_entries cfg (fst p) b) (fun q => Ok (fst q, snd p ++ snd q))).
Proof.
  induction a as [|e r IH]; intros b st.
  - cbn. destruct (run_entries cfg st b) as [[s evs]|x]; reflexivity.
  - cbn [app RsmApply.run_entries]. destruct (apply_entry cfg st e) as [[s1 ev]|x]; cbn [bind fst snd]; [|reflexivity].
    rewrite IH. destruct (run_entries cfg s1 r) as [[s2 evs]|x]; cbn [bind fst snd]; [|reflexivity].
    destruct (run_entries cfg s2 b) as [[s3 evs']|x]; reflexivity.
Qed.

Fixpoint terms_mono (t : N) (es : list (@entry)) : Prop :=
  match es with
  | [] => True
  | e :: r => t <= en_term e /\ terms_mono (en_term e) r
  end.

Lemma run_entries_shape : forall cfg es (st st' : state) evs,
  run_entries cfg st es = Ok (st', evs) ->
  contiguous (r_index st) es /\ terms_mono (r_term st) es /\
  r_index st' = r_index st + nlen es /\ r_term st <= r_term st' /\
  r_last_index st' = r_last_index st /\ r_last_term st' = r_last_term st /\
  r_od_init st' = r_od_init st /\ r_ss_index st' = r_ss_index st /\
  (c_ondisk cfg = false -> r_od st' = r_od st) /\
  (tab_ok st -> tab_ok st') /\ length evs = length es.
Proof.
  induction es as [|e r IH]; intros st st' evs H.
  - cbn in H. inversion H; subst. unfold nlen. cbn [contiguous terms_mono length]. splits; auto; lia.
  - cbn [RsmApply.run_entries] in H.
    destruct (apply_entry cfg st e) as [[s1 ev]|x] eqn:A; cbn [bind fst snd] in H; [|discriminate].
    destruct (run_entries cfg s1 r) as [[s2 evs2]|x] eqn:R; cbn [bind fst snd] in H; [|discriminate].
    inversion H; subst. pose proof (apply_entry_tab_ok _ _ _ _ _ A) as T.
    apply apply_entry_shape in A. destruct A as (a1 & a2 & a3 & a4 & a5 & a6 & a7 & a8 & a9 & _).
    apply IH in R. destruct R as (b1 & b2 & b3 & b4 & b5 & b6 & b7 & b8 & b9 & b10 & b11).
    unfold nlen in *. cbn [contiguous terms_mono length].
    rewrite a3, a1 in b1. rewrite a4 in b2.
    splits; auto; try lia; try (intros F; rewrite b9, a9; auto); try (cbn; lia).
Qed.

Lemma sync_id : forall st : state, synced st -> sync st = st.
Proof. intros [] [A B]. cbn in *. subst. reflexivity. Qed.

Lemma sync_synced : forall st : state, synced (sync st).
Proof. intros []. split; reflexivity. Qed.

Lemma check_batch_ok : forall cfg r (s1 st' : state) evs,
  run_entries cfg s1 r = Ok (st', evs) ->
  Forall (fun e => 0 < en_term e) r ->
  check_batch (r_index s1) (r_term s1) r = Ok (r_index st', r_term st').
Proof.
  induction r as [|e r IH]; intros s1 st' evs H F.
  - cbn in H. inversion H; subst. reflexivity.
  - cbn [RsmApply.run_entries] in H.
    destruct (apply_entry cfg s1 e) as [[s2 ev]|x] eqn:A; cbn [bind fst snd] in H; [|discriminate].
    destruct (run_entries cfg s2 r) as [[s3 evs3]|x] eqn:R; cbn [bind fst snd] in H; [|discriminate].
    inversion H; subst. inversion F; subst.
    apply apply_entry_shape in A. destruct A as (a1 & a2 & a3 & a4 & _).
    cbn [check_batch].
    destruct ((en_index e =? 0) || (en_term e =? 0)) eqn:Z; [lia|].
    destruct (negb (en_index e =? r_index s1 + 1)) eqn:G; [lia|].
    destruct (en_term e <? r_term s1) eqn:T; [lia|].
    rewrite <- a3, <- a4. eapply IH; eauto.
Qed.

Lemma set_last_applied_ok : forall cfg es (st st' : state) evs,
  run_entries cfg st es = Ok (st', evs) -> synced st ->
  Forall (fun e => 0 < en_term e) es ->
  set_last_applied st' es = Ok (sync st').
Proof.
  intros cfg [|e r] st st' evs H [S1 S2] F.
  - cbn in H. inversion H; subst. cbn. f_equal. symmetry. apply sync_id. split; auto.
  - pose proof (run_entries_shape _ _ _ _ _ H) as (_ & _ & _ & _ & L1 & L2 & _).
    cbn [RsmApply.run_entries] in H.
    destruct (apply_entry cfg st e) as [[s2 ev]|x] eqn:A; cbn [bind fst snd] in H; [|discriminate].
    destruct (run_entries cfg s2 r) as [[s3 evs3]|x] eqn:R; cbn [bind fst snd] in H; [|discriminate].
    inversion H; subst. inversion F; subst.
    pose proof (check_batch_ok _ _ _ _ _ R H3) as CB.
    apply apply_entry_shape in A. destruct A as (a1 & a2 & a3 & a4 & _).
    rewrite a3, a4 in CB.
    unfold set_last_applied.
    destruct ((en_index e =? 0) || (en_term e =? 0)) eqn:Z; [lia|].
    rewrite CB. cbn [bind fst snd].
    destruct (negb (r_last_index st' + 1 =? en_index e)) eqn:G; [lia|].
    destruct (en_term e <? r_last_term st') eqn:T; [lia|].
    reflexivity.
Qed.

Lemma contiguous_last : forall es base f,
  contiguous base (f :: es) -> en_index (last (f :: es) f) = base + nlen (f :: es).
Proof.
  induction es as [|e r IH]; intros base f [A B].
  - unfold nlen. cbn. lia.
  - destruct B as [B1 B2].
    change (last (f :: e :: r) f) with (last (e :: r) f).
    assert (L : last (e :: r) f = last (e :: r) e).
    { clear. revert e. induction r as [|x r IH]; intros e; [reflexivity|].
      change (last (e :: x :: r) f) with (last (x :: r) f).
      change (last (e :: x :: r) e) with (last (x :: r) e).
      rewrite IH. symmetry. destruct r; [reflexivity|]. 
      change (last (x :: e0 :: r) e) with (last (e0 :: r) e).
      change (last (x :: e0 :: r) x) with (last (e0 :: r) x).
      clear. revert e0. induction r as [|y r IH]; intros e0; [reflexivity|].
      change (last (e0 :: y :: r) e) with (last (y :: r) e).
      change (last (e0 :: y :: r) x) with (last (y :: r) x). apply IH. }
    rewrite L, (IH (base + 1) e); [|split; auto].
    unfold nlen. cbn [length]. lia.
Qed.

Lemma contiguous_skipn : forall n base es,
  contiguous base es -> contiguous (base + N.of_nat (min n (length es))) (skipn n es).
Proof.
  induction n as [|n IH]; intros base es C.
  - cbn [skipn min]. replace (base + N.of_nat 0) with base by lia. exact C.
  - destruct es as [|e r]; cbn [skipn length min].
    + exact I.
    + destruct C as [C1 C2]. apply IH in C2.
      replace (base + N.of_nat (Datatypes.S (min n (length r)))) with (base + 1 + N.of_nat (min n (length r))) by lia.
      exact C2.
Qed.

Lemma contiguous_firstn : forall n base es, contiguous base es -> contiguous base (firstn n es).
Proof.
  induction n as [|n IH]; intros base es C; [exact I|].
  destruct es as [|e r]; [exact I|]. destruct C as [C1 C2]. cbn. split; auto.
Qed.

Lemma contiguous_app : forall a b base,
  contiguous base (a ++ b) <-> contiguous base a /\ contiguous (base + nlen a) b.
Proof.
  induction a as [|e r IH]; intros b base; unfold nlen in *; cbn [app contiguous length].
  - rewrite N.add_0_r. tauto.
  - rewrite IH. replace (base + 1 + N.of_nat (length r)) with (base + N.of_nat (Datatypes.S (length r))) by lia. tauto.
Qed.

Lemma forall_skipn : forall {A} (P : A -> Prop) n l, Forall P l -> Forall P (skipn n l).
Proof.
  induction n as [|n IH]; intros l F; [exact F|]. destruct l; [constructor|]. inversion F; subst. cbn. auto.
Qed.

Lemma forall_firstn : forall {A} (P : A -> Prop) n l, Forall P l -> Forall P (firstn n l).
Proof.
  induction n as [|n IH]; intros l F; [constructor|]. destruct l; [constructor|]. inversion F; subst. cbn. auto.
Qed.

(* pb.EntriesToApply on a gap-free batch that starts at or below the next index:
   the already applied prefix is dropped, the hole panic is not reached *)
Lemma entries_to_apply_contiguous : forall t base a,
  contiguous base t -> base <= a ->
  entries_to_apply t a = Ok (skipn (N.to_nat (a - base)) t).
Proof.
  intros t base a C LE. destruct t as [|f r]; [now rewrite skipn_nil|].
  unfold entries_to_apply. rewrite (contiguous_last r base f C).
  destruct C as [C1 C2]. rewrite C1.
  destruct (base + nlen (f :: r) <=? a) eqn:Old.
  - rewrite skipn_all2; [reflexivity|]. unfold nlen in Old. lia.
  - destruct (a + 1 <? base + 1) eqn:Hole; [lia|].
    replace (a + 1 - (base + 1)) with (a - base) by lia.
    destruct (a - base <? nlen (f :: r)) eqn:K; [reflexivity|]. unfold nlen in *. lia.
Qed.

(* one task = the not yet applied part of its batch, entry by entry *)
Lemma apply_task_eq : forall cfg t base (st : state),
  contiguous base t -> base <= r_index st ->
  Forall (fun e => 0 < en_term e) t -> synced st ->
  apply_task cfg st t = run_sync cfg st (skipn (N.to_nat (r_index st - base)) t).
Proof.
  intros cfg t base st C LE F SY. unfold RsmApply.apply_task, run_sync.
  rewrite (entries_to_apply_contiguous t base (r_index st) C LE). cbn [bind].
  set (es := skipn (N.to_nat (r_index st - base)) t).
  destruct (run_entries cfg st es) as [[s evs]|x] eqn:R; cbn [bind fst snd]; [|reflexivity].
  rewrite (set_last_applied_ok cfg es st s evs R SY); [reflexivity|].
  apply forall_skipn, F.
Qed.

(* ---- deliveries ------------------------------------------------------------ *)

(* How raft hands a log [es] to the apply path: a sequence of tasks, each a
   segment of the log that starts at or below the first entry the replica has
   not applied yet (re-delivery of applied entries is allowed: restart,
   snapshot recovery), of any length. [pos] = number of entries applied. *)
Inductive delivery (es : list (@entry)) : nat -> list (list (@entry)) -> nat -> Prop :=
| d_nil : forall pos, delivery es pos [] pos
| d_cons : forall pos start len ts final,
    (start <= pos)%nat ->
    delivery es (Nat.max pos (Nat.min (start + len) (length es))) ts final ->
    delivery es pos (firstn len (skipn start es) :: ts) final.

Lemma delivery_bounds : forall es pos ts final,
  delivery es pos ts final -> (pos <= length es)%nat -> (pos <= final <= length es)%nat.
Proof.
  intros es pos ts final D. induction D as [pos|pos start len ts final Hs D IH]; intros L; [lia|].
  assert (Nat.max pos (Nat.min (start + len) (length es)) <= length es)%nat by lia.
  specialize (IH H). lia.
Qed.

Lemma skipn_skipn : forall {A} (x y : nat) (l : list A), skipn x (skipn y l) = skipn (x + y) l.
Proof.
  intros A x y. revert x. induction y as [|y IH]; intros x l.
  - now rewrite Nat.add_0_r.
  - destruct l as [|a l]; [now rewrite !skipn_nil|].
    replace (x + Datatypes.S y)%nat with (Datatypes.S (x + y)) by lia. cbn [skipn]. apply IH.
Qed.

Lemma firstn_add : forall {A} (n m : nat) (l : list A),
  firstn (n + m) l = firstn n l ++ firstn m (skipn n l).
Proof.
  intros A n. induction n as [|n IH]; intros m l; [reflexivity|].
  destruct l as [|a l]; [now rewrite !firstn_nil|]. cbn. f_equal. apply IH.
Qed.

Lemma segment_rest : forall {A} (es : list A) start len pos,
  (start <= pos <= length es)%nat ->
  skipn (pos - start) (firstn len (skipn start es)) =
  firstn (Nat.max pos (Nat.min (start + len) (length es)) - pos) (skipn pos es).
Proof.
  intros A es start len pos [H1 H2].
  rewrite skipn_firstn_comm, skipn_skipn.
  replace (pos - start + start)%nat with pos by lia.
  destruct (Nat.le_gt_cases (start + len) (length es)) as [L|L].
  - f_equal. lia.
  - rewrite (firstn_all2 (n := (len - (pos - start))%nat)); [|rewrite skipn_length; lia].
    rewrite (firstn_all2 (n := (Nat.max pos (Nat.min (start + len) (length es)) - pos)%nat)); [reflexivity|].
    rewrite skipn_length. lia.
Qed.

Lemma firstn_split_at : forall {A} (es : list A) pos pos' final,
  (pos <= pos' <= final)%nat ->
  firstn (final - pos) (skipn pos es) =
  firstn (pos' - pos) (skipn pos es) ++ firstn (final - pos') (skipn pos' es).
Proof.
  intros A es pos pos' final [H1 H2].
  replace (final - pos)%nat with ((pos' - pos) + (final - pos'))%nat by lia.
  rewrite firstn_add. f_equal. rewrite skipn_skipn. f_equal. f_equal. lia.
Qed.

Lemma sync_with_last : forall (s : state) i t, sync (with_last s i t) = sync s.
Proof. intros []; reflexivity. Qed.

Lemma run_sync_app : forall cfg a b (st : state),
  run_sync cfg st (a ++ b) =
  bind (run_sync cfg st a) (fun p =>
    bind (run_sync cfg (fst p) b) (fun q => Ok (fst q, snd p ++ snd q))).
Proof.
  intros cfg a b st. unfold run_sync. rewrite run_entries_app.
  destruct (run_entries cfg st a) as [[s1 ev1]|x]; cbn [bind fst snd]; [|reflexivity].
  unfold sync at 2. rewrite run_entries_with_last.
  destruct (run_entries cfg s1 b) as [[s2 ev2]|x]; cbn [bind fst snd map_state]; [|reflexivity].
  rewrite sync_with_last. reflexivity.
Qed.

(* THE BATCHING LEMMA: however the log is cut into tasks and however much of it
   is delivered again, the apply path does exactly what applying the not yet
   applied entries one by one does — same state, same reports, same panic *)
Lemma run_tasks_delivery : forall cfg es,
  contiguous 0 es -> Forall (fun e => 0 < en_term e) es ->
  forall pos ts final, delivery es pos ts final ->
  forall st : state, synced st -> r_index st = N.of_nat pos -> (pos <= length es)%nat ->
  run_tasks cfg st ts = run_sync cfg st (firstn (final - pos) (skipn pos es)).
Proof.
  intros cfg es C F pos ts final D.
  induction D as [pos|pos start len ts final Hs D IH]; intros st SY IX L.
  - rewrite Nat.sub_diag. cbn. unfold run_sync. cbn. now rewrite sync_id.
  - set (pos' := Nat.max pos (Nat.min (start + len) (length es))) in *.
    assert (B : (pos' <= final <= length es)%nat) by (apply (delivery_bounds _ _ _ _ D); lia).
    assert (P : (pos <= pos')%nat) by lia.
    cbn [RsmApply.run_tasks].
    assert (CT : contiguous (N.of_nat start) (firstn len (skipn start es))).
    { apply contiguous_firstn. pose proof (contiguous_skipn start 0 es C) as K.
      replace (Nat.min start (length es)) with start in K by lia. exact K. }
    rewrite (apply_task_eq cfg _ (N.of_nat start) st CT); auto; [|lia|apply forall_firstn, forall_skipn, F].
    rewrite IX. replace (N.to_nat (N.of_nat pos - N.of_nat start)) with (pos - start)%nat by lia.
    rewrite segment_rest by lia. fold pos'.
    rewrite (firstn_split_at es pos pos' final) by lia.
    rewrite run_sync_app.
    destruct (run_sync cfg st (firstn (pos' - pos) (skipn pos es))) as [[s1 ev1]|x] eqn:R1; cbn [bind fst snd]; [|reflexivity].
    unfold run_sync in R1.
    destruct (run_entries cfg st (firstn (pos' - pos) (skipn pos es))) as [[s1' ev1']|x] eqn:R1'; [|discriminate].
    inversion R1; subst s1 ev1.
    apply run_entries_shape in R1'. destruct R1' as (_ & _ & I1 & _).
    rewrite (IH (sync s1')); [reflexivity|apply sync_synced| |lia].
    replace (r_index (sync s1')) with (r_index s1') by (destruct s1'; reflexivity). rewrite I1, IX. unfold nlen.
    rewrite firstn_length, skipn_length. lia.
Qed.

(* two replicas that are handed the same log, cut into tasks and re-delivered
   in whatever way, end in the same state with the same reports (or hit the
   same panic) *)
Lemma apply_is_function_of_log_proved : forall cfg es cap (s0 : S) ts1 ts2,
  contiguous 0 es -> Forall (fun e => 0 < en_term e) es ->
  delivery es 0 ts1 (length es) -> delivery es 0 ts2 (length es) ->
  run_tasks cfg (init_state cap s0) ts1 = run_tasks cfg (init_state cap s0) ts2 /\
  run_tasks cfg (init_state cap s0) ts1 = run_sync cfg (init_state cap s0) es.
Proof.
  intros cfg es cap s0 ts1 ts2 C F D1 D2.
  assert (SY : synced (init_state cap s0)) by (split; reflexivity).
  rewrite (run_tasks_delivery cfg es C F 0 ts1 _ D1 _ SY eq_refl) by lia.
  rewrite (run_tasks_delivery cfg es C F 0 ts2 _ D2 _ SY eq_refl) by lia.
  rewrite Nat.sub_0_r, firstn_all. cbn [skipn]. split; reflexivity.
Qed.

(* ---- which panics are reachable -------------------------------------------- *)

Lemma apply_entry_err : forall cfg (st : state) e x,
  apply_entry cfg st e = Err x ->
  en_index e = r_index st + 1 -> r_term st <= en_term e ->
  x = ENotManaged \/ x = ECC \/ x = ESession \/ (x = EOnDisk /\ c_ondisk cfg = true).
Proof.
  intros cfg st e x H IX TM.
  assert (SA : forall s : state, r_index s = r_index st -> r_term s = r_term st ->
               exists s', set_applied s (en_index e) (en_term e) = Ok s').
  { intros s E1 E2. unfold set_applied. rewrite E1, E2.
    destruct (negb (r_index st + 1 =? en_index e)) eqn:A; [lia|].
    destruct (en_term e <? r_term st) eqn:B; [lia|]. eauto. }
  unfold RsmApply.apply_entry in H. destruct (en_body e) as [se|c].
  - unfold RsmApply.apply_app in H.
    destruct (is_update_kind (Session.classify se) && entry_in_init_disk_sm cfg st (en_index e)).
    + destruct (SA st eq_refl eq_refl) as [s' E]. rewrite E in H. discriminate.
    + destruct (Session.step sm_update (Session.mkState (r_tab st) (r_sm st)) se) as [sst o].
      assert (G : bind (if called_user_sm o then set_on_disk_index cfg (with_sess st (Session.st_tab sst) (Session.st_sm sst)) (en_index e) (en_index e)
                        else Ok (with_sess st (Session.st_tab sst) (Session.st_sm sst)))
                    (fun st2 => bind (set_applied st2 (en_index e) (en_term e)) (fun st3 => Ok (st3, EvApp o))) = Err x ->
                  x = EOnDisk /\ c_ondisk cfg = true).
      { unfold bind. destruct (called_user_sm o).
        - unfold set_on_disk_index. destruct (c_ondisk cfg) eqn:OD; cbn [negb].
          + destruct (en_index e <? en_index e); [intros K; inversion K; auto|].
            destruct (en_index e <=? r_od_init _); [intros K; inversion K; auto|].
            destruct (en_index e <=? r_od _); [intros K; inversion K; auto|].
            destruct (SA (with_od (with_sess st (Session.st_tab sst) (Session.st_sm sst)) (en_index e))) as [s' E];
              [destruct st; reflexivity|destruct st; reflexivity|]. rewrite E. discriminate.
          + destruct (SA (with_sess st (Session.st_tab sst) (Session.st_sm sst))) as [s' E];
              [destruct st; reflexivity|destruct st; reflexivity|]. rewrite E. discriminate.
        - destruct (SA (with_sess st (Session.st_tab sst) (Session.st_sm sst))) as [s' E];
              [destruct st; reflexivity|destruct st; reflexivity|]. rewrite E. discriminate. }
      destruct o; try (apply G in H; tauto).
      inversion H. destruct (Session.classify se); auto.
  - unfold RsmApply.apply_cc in H.
    destruct (Membership.handle norm (c_ordered cfg) (r_mem st) c (en_index e)).
    + destruct (SA (with_mem st m)) as [s' E]; [destruct st; reflexivity|destruct st; reflexivity|].
      rewrite E in H. discriminate.
    + destruct (SA st eq_refl eq_refl) as [s' E]. rewrite E in H. discriminate.
    + inversion H. auto.
Qed.

Lemma run_entries_err : forall cfg es (st : state) x,
  run_entries cfg st es = Err x ->
  contiguous (r_index st) es -> terms_mono (r_term st) es ->
  x = ENotManaged \/ x = ECC \/ x = ESession \/ (x = EOnDisk /\ c_ondisk cfg = true).
Proof.
  induction es as [|e r IH]; intros st x H C T; [discriminate|].
  destruct C as [C1 C2]. destruct T as [T1 T2].
  cbn [RsmApply.run_entries] in H.
  destruct (apply_entry cfg st e) as [[s1 ev]|y] eqn:A; cbn [bind fst snd] in H.
  - destruct (run_entries cfg s1 r) as [[s2 evs]|y] eqn:R; cbn [bind] in H; [discriminate|].
    inversion H; subst. apply apply_entry_shape in A. destruct A as (_ & _ & a3 & a4 & _).
    eapply IH; eauto; [rewrite a3, C1; exact C2 | rewrite a4; exact T2].
  - inversion H; subst. eapply apply_entry_err; eauto.
Qed.

Lemma terms_ok_mono : forall es t, terms_ok t es -> terms_mono t es /\ Forall (fun e => 0 < en_term e) es.
Proof.
  induction es as [|e r IH]; intros t H; [split; [exact I|constructor]|].
  destruct H as (H1 & H2 & H3). destruct (IH _ H3). split; [split; auto|constructor; auto].
Qed.

(* GAP FREEDOM: from a gap-free log (indexes 1, 2, 3, ... and raft's terms), under
   every delivery schedule, the apply path never reaches the hole panic of
   EntriesToApply nor the index / term / batch assertions of setApplied and
   setLastApplied; what is left are a malformed entry (proposals are validated
   when they are made), the membership assertions (C07) and, for an on-disk
   state machine, the on-disk index assertions. When it does not stop, the
   applied index is exactly the number of entries delivered and every entry was
   reported once. *)
Lemma apply_gap_free_proved : forall cfg es cap (s0 : S) ts final,
  contiguous 0 es -> terms_ok 0 es -> delivery es 0 ts final ->
  match run_tasks cfg (init_state cap s0) ts with
  | Err x => x = ENotManaged \/ x = ECC \/ x = ESession \/ (x = EOnDisk /\ c_ondisk cfg = true)
  | Ok (st, evs) => r_index st = N.of_nat final /\ r_last_index st = N.of_nat final /\ length evs = final
  end.
Proof.
  intros cfg es cap s0 ts final C T D.
  destruct (terms_ok_mono _ _ T) as [TM F].
  assert (SY : synced (init_state cap s0)) by (split; reflexivity).
  rewrite (run_tasks_delivery cfg es C F 0 ts _ D _ SY eq_refl) by lia.
  pose proof (delivery_bounds _ _ _ _ D) as B. rewrite Nat.sub_0_r. cbn [skipn].
  unfold run_sync. destruct (run_entries cfg (init_state cap s0) (firstn final es)) as [[s evs]|x] eqn:R.
  - apply run_entries_shape in R. destruct R as (_ & _ & I1 & _ & _ & _ & _ & _ & _ & _ & L).
    unfold nlen in I1. rewrite firstn_length in *.
    change (r_index (init_state cap s0)) with 0 in I1.
    destruct s; unfold sync, with_last; cbn in *. lia.
  - eapply run_entries_err; eauto.
    + change (r_index (init_state cap s0)) with 0. apply contiguous_firstn, C.
    + change (r_term (init_state cap s0)) with 0. clear -TM. revert es TM. generalize 0 at 1 2.
      induction final as [|n IH]; intros t es TM; [exact I|].
      destruct es as [|e r]; [exact I|]. destruct TM. cbn. split; auto.
Qed.

(* ---- snapshot and recover ---------------------------------------------------- *)

Variable sm_save : S -> bytes.
Variable sm_recover : bytes -> option S.
Hypothesis sm_roundtrip : forall s, sm_recover (sm_save s) = Some s.

Notation snapshot := (@snapshot S result sm_save).
Notation prepare := (@prepare S result).
Notation finish_save := (@finish_save S result sm_save).
Notation image_of := (@image_of S result sm_save).
Notation recover := (@recover S result sm_recover).
Notation image := (@image result).

Lemma obs_sync : forall st : state, obs (sync st) = obs st.
Proof. intros []; reflexivity. Qed.
Lemma obs_with_last : forall (st : state) i t, obs (with_last st i t) = obs st.
Proof. intros []; reflexivity. Qed.
Lemma obs_with_ss_index : forall (st : state) i, obs (with_ss_index st i) = obs st.
Proof. intros []; reflexivity. Qed.

(* the metadata getSSMeta captures for state [st] *)
Definition meta_of (k : sskind) (st : state) : @meta S result :=
  mkMeta (r_index st) (r_term st) (r_mem st) (r_od st)
         (Session.t_cap (r_tab st), rev (Session.t_list (r_tab st))) k (r_sm st).

Definition not_out_of_date (cfg : config) (k : sskind) (st : state) : Prop :=
  c_ondisk cfg = true \/ k = SSExported \/ r_last_index st = 0 \/ r_last_index st <> r_ss_index st.

(* prepare: succeeds, captures exactly (index, term, membership, onDiskIndex,
   the session table least-recently-used first, the user state) and leaves the
   replica untouched (the save walk goes through Get, yet restores the LRU order) *)
Lemma prepare_ok : forall cfg k (st : state),
  tab_ok st -> Membership.m_is_empty (r_mem st) = false ->
  r_ss_index st <= r_last_index st -> not_out_of_date cfg k st ->
  prepare cfg k st = Ok (Prepared (meta_of k st) st).
Proof.
  intros cfg k st [[[ND LE] _] CAP] ME SI NO. unfold RsmApply.prepare.
  destruct (r_last_index st <? r_ss_index st) eqn:A; [lia|].
  assert (B : negb (c_ondisk cfg) && negb (match k with SSExported => true | _ => false end)
              && (0 <? r_last_index st) && (r_last_index st =? r_ss_index st) = false).
  { destruct NO as [NO|[NO|[NO|NO]]].
    - rewrite NO. reflexivity.
    - rewrite NO. cbn. now rewrite andb_false_r.
    - rewrite NO. cbn. now rewrite !andb_false_r.
    - destruct (r_last_index st =? r_ss_index st) eqn:E; [lia|]. now rewrite andb_false_r. }
  rewrite B, ME. cbn [Session.st_tab] in ND.
  rewrite (Proofs.Session.save_preserves_order_proved (r_tab st) ND).
  unfold meta_of, Membership.m_get. do 3 f_equal. destruct st; reflexivity.
Qed.

Definition after_save (k : sskind) (st : state) (i : N) : state :=
  match k with SSStreaming => st | _ => with_ss_index st i end.

Lemma snapshot_ok : forall cfg k (st : state),
  tab_ok st -> Membership.m_is_empty (r_mem st) = false ->
  r_ss_index st <= r_last_index st -> not_out_of_date cfg k st ->
  snapshot cfg k st = Ok (Snap (image_of cfg (meta_of k st)) (after_save k st (r_index st))).
Proof.
  intros cfg k st T ME SI NO. unfold RsmApply.snapshot. rewrite prepare_ok by auto.
  cbn [bind]. unfold RsmApply.finish_save, after_save. cbn [mt_kind meta_of mt_index]. reflexivity.
Qed.

(* CONCURRENT SNAPSHOT: everything that goes into the image is fixed by
   prepare(); whatever the replica applies between prepare() and the end of the
   save (any entries, any number of tasks) the image is the one an atomic
   snapshot at the prepare point produces *)
Lemma snapshot_concurrent_image_proved : forall cfg k (st st_later : state) m st1,
  prepare cfg k st = Ok (Prepared m st1) ->
  fst (finish_save cfg m st_later) = fst (finish_save cfg m st1) /\
  snapshot cfg k st = Ok (Snap (fst (finish_save cfg m st1)) (snd (finish_save cfg m st1))).
Proof.
  intros cfg k st st_later m st1 P. split; [reflexivity|].
  unfold RsmApply.snapshot. rewrite P. cbn [bind]. destruct (finish_save cfg m st1); reflexivity.
Qed.

(* a regular / concurrent state machine recovering from a full image: whatever
   the receiving replica held, it now holds the snapshot's content *)
Lemma recover_full : forall cfg init k (st_k st0 : state),
  c_ondisk cfg = false -> k <> SSStreaming -> tab_ok st_k ->
  r_last_index st0 < r_index st_k ->
  recover cfg init st0 (image_of cfg (meta_of k st_k)) =
  Ok (Recovered (mkSt (r_sm st_k) (r_tab st_k) (r_mem st_k) (r_index st_k) (r_term st_k)
                      (r_index st_k) (r_term st_k) (r_od_init st0) (r_od st0) (r_ss_index st0))).
Proof.
  intros cfg init k st_k st0 OD K [[[ND LE] _] CAP] LT.
  assert (IM : image_of cfg (meta_of k st_k) =
               mkImg (r_index st_k) (r_term st_k) (r_mem st_k) (r_od st_k)
                     (Session.t_cap (r_tab st_k), rev (Session.t_list (r_tab st_k)))
                     (Some (sm_save (r_sm st_k))) false false false false).
  { unfold RsmApply.image_of, meta_of. cbn [mt_kind mt_index mt_term mt_mem mt_od mt_sessions mt_ctx].
    destruct k; try congruence; rewrite ?OD; reflexivity. }
  rewrite IM. unfold RsmApply.recover.
  cbn [i_index i_witness i_dummy i_shrunk i_od i_imported orb].
  destruct (r_index st_k <=? r_last_index st0) eqn:A; [lia|].
  rewrite OD. cbn [andb negb orb]. rewrite andb_false_r. cbn [negb].
  unfold load. cbn [i_sessions i_data].
  cbn [Session.st_tab] in ND, LE.
  destruct (Proofs.Session.load_save_id_proved (r_tab st_k) _ _ ND LE CAP
              (Proofs.Session.save_preserves_order_proved (r_tab st_k) ND)) as [_ L].
  rewrite L, sm_roundtrip. cbn [bind]. unfold apply_snapshot, Membership.m_set.
  cbn [i_mem i_index i_term]. destruct st0; reflexivity.
Qed.

(* ---- the cut theorem ----------------------------------------------------------- *)

Lemma run_entries_prefix : forall cfg es k (st st_f : state) evs_f,
  run_entries cfg st es = Ok (st_f, evs_f) ->
  exists st_k evs_k evs_r,
    run_entries cfg st (firstn k es) = Ok (st_k, evs_k) /\
    run_entries cfg st_k (skipn k es) = Ok (st_f, evs_r) /\ evs_f = evs_k ++ evs_r.
Proof.
  intros cfg es k st st_f evs_f H. rewrite <- (firstn_skipn k es) in H at 1.
  rewrite run_entries_app in H.
  destruct (run_entries cfg st (firstn k es)) as [[s1 e1]|x] eqn:A; cbn [bind fst snd] in H; [|discriminate].
  destruct (run_entries cfg s1 (skipn k es)) as [[s2 e2]|x] eqn:B; cbn [bind fst snd] in H; [|discriminate].
  inversion H; subst. exists s1, e1, e2. auto.
Qed.

Lemma init_tab_ok : forall cap (s0 : S), 0 < cap -> tab_ok (init_state cap s0).
Proof.
  intros cap s0 P. split; [|exact P].
  exact (Proofs.Session.init_inv sm_update cap s0).
Qed.

Lemma tab_ok_irrelevant : forall (a b : state), r_tab a = r_tab b -> tab_ok a -> tab_ok b.
Proof. intros a b E [[W H] C]. unfold tab_ok, Proofs.Session.inv in *. cbn [Session.st_tab] in *. rewrite <- E. auto. Qed.

(* a replica that continues from state [st_k] — possibly with another
   snapshotIndex and with lastApplied brought up to date — under any delivery
   schedule of the rest of the log (with any overlap) *)
Lemma continue_from : forall cfg es k (st_k st_f : state) evs_r ssi ts,
  contiguous 0 es -> Forall (fun e => 0 < en_term e) es -> (k <= length es)%nat ->
  r_index st_k = N.of_nat k ->
  run_entries cfg st_k (skipn k es) = Ok (st_f, evs_r) ->
  delivery es k ts (length es) ->
  run_tasks cfg (with_ss_index (sync st_k) ssi) ts = Ok (sync (with_ss_index (sync st_f) ssi), evs_r).
Proof.
  intros cfg es k st_k st_f evs_r ssi ts C F L IX R D.
  rewrite (run_tasks_delivery cfg es C F k ts _ D);
    [|destruct st_k; split; reflexivity|destruct st_k; exact IX|exact L].
  rewrite firstn_all2 by (rewrite skipn_length; lia).
  unfold run_sync. rewrite run_entries_with_ss_index. unfold sync at 1. rewrite run_entries_with_last, R.
  cbn [map_state]. do 2 f_equal; try (destruct st_f; reflexivity).
Qed.

Lemma cutter_fields : forall (s : state) i,
  let c := with_ss_index (sync s) i in
  r_sm c = r_sm s /\ r_tab c = r_tab s /\ r_mem c = r_mem s /\ r_index c = r_index s /\ r_term c = r_term s /\
  r_last_index c = r_index s /\ r_last_term c = r_term s /\ r_od_init c = r_od_init s /\ r_od c = r_od s /\
  r_ss_index c = i.
Proof. intros [] i. cbn. repeat split. Qed.

(* SNAPSHOT + LOG SUFFIX = FULL LOG, regular and concurrent state machines.
   [es] any log (indexes 1.., positive terms), the uninterrupted replica applies
   it completely; [k] any cut with a non-empty membership; the cut replica
   (whatever snapshots it took before: [ssi]) saves a snapshot of kind regular or
   exported at [k]; ANY replica that is behind [k] — a fresh one (restart, any
   factory state [s0'], any default session capacity [cap']) or a running one
   that lags at [j] < [k] (InstallSnapshot from the leader) — recovers from it and
   is then handed the rest of the log under ANY delivery schedule that starts at
   or below [k] (overlap). It ends with the same user data, session table (LRU
   order included), membership, applied index and term as the uninterrupted
   replica, and reports the same result for every entry after the cut. *)
Lemma snapshot_cut_equiv_proved : forall cfg cap (s0 : S) es k st_f evs_f,
  c_ondisk cfg = false -> 0 < cap ->
  contiguous 0 es -> Forall (fun e => 0 < en_term e) es ->
  run_entries cfg (init_state cap s0) es = Ok (st_f, evs_f) ->
  (0 < k <= length es)%nat ->
  exists st_k evs_k evs_r,
    run_entries cfg (init_state cap s0) (firstn k es) = Ok (st_k, evs_k) /\ evs_f = evs_k ++ evs_r /\
    forall kind ssi,
      kind <> SSStreaming -> Membership.m_is_empty (r_mem st_k) = false ->
      ssi <= r_index st_k -> (kind = SSExported \/ ssi <> r_index st_k) ->
      let cutter := with_ss_index (sync st_k) ssi in
      exists img,
        snapshot cfg kind cutter = Ok (Snap img (with_ss_index (sync st_k) (r_index st_k))) /\
        i_index img = N.of_nat k /\
        forall (init : bool) (st0 : state) ts,
          r_last_index st0 < N.of_nat k -> r_od_init st0 = 0 -> r_od st0 = 0 ->
          delivery es k ts (length es) ->
          exists st_r st_f',
            recover cfg init st0 img = Ok (Recovered st_r) /\ obs st_r = obs st_k /\
            run_tasks cfg st_r ts = Ok (st_f', evs_r) /\ obs st_f' = obs st_f.
Proof.
  intros cfg cap s0 es k st_f evs_f OD CAP C F RUN [K1 K2].
  destruct (run_entries_prefix cfg es k _ _ _ RUN) as (st_k & evs_k & evs_r & R1 & R2 & E).
  exists st_k, evs_k, evs_r. split; [exact R1|]. split; [exact E|].
  intros kind ssi KS ME SI NO cutter.
  pose proof (run_entries_shape _ _ _ _ _ R1) as (_ & _ & IX & _ & _ & _ & ODI & _ & ODX & TAB & _).
  specialize (TAB (init_tab_ok cap s0 CAP)). specialize (ODX OD).
  change (r_index (init_state cap s0)) with 0 in IX. unfold nlen in IX. rewrite firstn_length in IX.
  replace (Nat.min k (length es)) with k in IX by lia. rewrite N.add_0_l in IX.
  change (r_od_init (init_state cap s0)) with 0 in ODI. change (r_od (init_state cap s0)) with 0 in ODX.
  destruct (cutter_fields st_k ssi) as (c1 & c2 & c3 & c4 & c5 & c6 & c7 & c8 & c9 & c10). fold cutter in c1, c2, c3, c4, c5, c6, c7, c8, c9, c10.
  assert (TC : tab_ok cutter) by (eapply tab_ok_irrelevant; [|exact TAB]; now rewrite c2).
  exists (image_of cfg (meta_of kind cutter)). split; [|split].
  - rewrite snapshot_ok; [|exact TC|now rewrite c3|rewrite c10, c6; exact SI|].
    + do 2 f_equal. unfold after_save. rewrite c4. destruct kind; try congruence; subst cutter; destruct st_k; reflexivity.
    + unfold not_out_of_date. destruct NO as [NO|NO]; [auto|]. right. right. right. rewrite c6, c10. intros X. apply NO. now symmetry.
  - unfold RsmApply.image_of, meta_of. cbn [mt_kind]. destruct kind; try congruence; rewrite ?OD; cbn [i_index mt_index]; now rewrite c4.
  - intros init st0 ts LT Z1 Z2 D.
    rewrite (recover_full cfg init kind cutter st0 OD KS TC) by (rewrite c4; lia).
    set (st_r := mkSt (r_sm cutter) (r_tab cutter) (r_mem cutter) (r_index cutter) (r_term cutter)
                      (r_index cutter) (r_term cutter) (r_od_init st0) (r_od st0) (r_ss_index st0)).
    assert (SR : st_r = with_ss_index (sync st_k) (r_ss_index st0)).
    { subst st_r. rewrite c1, c2, c3, c4, c5, Z1, Z2. clear -ODI ODX. destruct st_k; cbn in *. subst. reflexivity. }
    exists st_r, (sync (with_ss_index (sync st_f) (r_ss_index st0))).
    split; [reflexivity|]. split; [rewrite SR, obs_with_ss_index, obs_sync; reflexivity|].
    split.
    + rewrite SR. eapply continue_from; eauto; lia.
    + now rewrite obs_sync, obs_with_ss_index, obs_sync.
Qed.

(* ---- on-disk state machines -------------------------------------------------- *)

(* what reaches an IOnDiskStateMachine: NoOP-session proposals, empty entries,
   config changes (nodehost.go refuses every other session on it) *)
Definition ondisk_entry (e : @entry) : Prop :=
  match en_body e with
  | BCC _ => True
  | BApp se => Session.classify se = Session.KNoop \/ Session.classify se = Session.KNoopSession
  end.

(* everything but onDiskInitIndex and the bookkeeping the entry path never reads *)
Definition core_eq (a b : state) : Prop :=
  r_sm a = r_sm b /\ r_tab a = r_tab b /\ r_mem a = r_mem b /\ r_index a = r_index b /\
  r_term a = r_term b /\ r_od a = r_od b.

Definition rel_res (r1 r2 : res (state * event)) : Prop :=
  match r1, r2 with
  | Ok (a, ev), Ok (b, ev') => core_eq a b /\ ev = ev'
  | Err x, Err y => x = y
  | _, _ => False
  end.

(* above both init indexes the init index does not matter *)
Lemma apply_entry_above_init : forall cfg (a b : state) e,
  core_eq a b -> r_od_init a < en_index e -> r_od_init b < en_index e ->
  rel_res (apply_entry cfg a e) (apply_entry cfg b e).
Proof.
  intros cfg [sm tab mem idx tm li lt odi od ssi] [sm' tab' mem' idx' tm' li' lt' odi' od' ssi'] e
    (E1 & E2 & E3 & E4 & E5 & E6) L1 L2.
  cbn in E1, E2, E3, E4, E5, E6, L1, L2. subst sm' tab' mem' idx' tm' od'.
  assert (X1 : en_index e <=? odi = false) by lia. assert (X2 : en_index e <=? odi' = false) by lia.
  unfold rel_res, core_eq, RsmApply.apply_entry, RsmApply.apply_app, RsmApply.apply_cc, set_applied, set_on_disk_index,
    entry_in_init_disk_sm, bind, with_applied, with_sess, with_mem, with_od.
  cbn [r_sm r_tab r_mem r_index r_term r_last_index r_last_term r_od_init r_od r_ss_index].
  rewrite X1, X2.
  destruct (en_body e) as [se|c].
  - replace (if c_ondisk cfg then false else false) with false by (destruct (c_ondisk cfg); reflexivity).
    rewrite andb_false_r.
    destruct (Session.step sm_update (Session.mkState tab sm) se) as [sst o]. destruct o; crunch; repeat split.
  - destruct (Membership.handle norm (c_ordered cfg) mem c (en_index e)); crunch; repeat split.
Qed.

Lemma run_entries_above_init : forall cfg es (a b : state),
  core_eq a b -> r_od_init a <= r_index a -> r_od_init b <= r_index b ->
  contiguous (r_index a) es ->
  match run_entries cfg a es, run_entries cfg b es with
  | Ok (a', evs), Ok (b', evs') => core_eq a' b' /\ evs = evs' /\ r_od_init a' = r_od_init a /\ r_od_init b' = r_od_init b
  | Err x, Err y => x = y
  | _, _ => False
  end.
Proof.
  induction es as [|e r IH]; intros a b CE La Lb C.
  - cbn. auto.
  - destruct C as [C1 C2]. cbn [RsmApply.run_entries].
    assert (EI : r_index a = r_index b) by (destruct CE as (_ & _ & _ & EI & _); exact EI).
    pose proof (apply_entry_above_init cfg a b e CE) as R.
    assert (G1 : r_od_init a < en_index e) by lia. assert (G2 : r_od_init b < en_index e) by lia.
    specialize (R G1 G2). unfold rel_res in R.
    destruct (apply_entry cfg a e) as [[a1 ev]|x] eqn:A; destruct (apply_entry cfg b e) as [[b1 ev']|y] eqn:B;
      try contradiction; cbn [bind fst snd]; [|exact R].
    destruct R as [CE1 ->].
    pose proof (apply_entry_shape _ _ _ _ _ A) as (_ & _ & a_i1 & _ & _ & _ & a_odi & _).
    pose proof (apply_entry_shape _ _ _ _ _ B) as (_ & _ & b_i1 & _ & _ & _ & b_odi & _).
    assert (La1 : r_od_init a1 <= r_index a1) by (rewrite a_odi, a_i1; lia).
    assert (Lb1 : r_od_init b1 <= r_index b1) by (rewrite b_odi, b_i1; lia).
    assert (Ca1 : contiguous (r_index a1) r) by (rewrite a_i1, C1; exact C2).
    specialize (IH a1 b1 CE1 La1 Lb1 Ca1).
    destruct (run_entries cfg a1 r) as [[a2 evs]|x]; destruct (run_entries cfg b1 r) as [[b2 evs']|y]; cbn [bind fst snd]; auto.
    destruct IH as (? & -> & I1 & I2). rewrite I1, I2, a_odi, b_odi. auto.
Qed.

Ltac dis := let H := fresh in intros H; discriminate H.

Definition mit_eq (a b : state) : Prop :=
  r_mem a = r_mem b /\ r_index a = r_index b /\ r_term a = r_term b /\ r_tab a = r_tab b.

(* at or below the index returned by Open a proposal is a no-op for the user
   state machine, while membership changes and the applied position advance
   exactly as on a replica that applies it *)
Lemma apply_entry_in_init : forall cfg (a b a' : state) e ev,
  c_ondisk cfg = true -> ondisk_entry e -> mit_eq a b -> en_index e <= r_od_init b ->
  apply_entry cfg a e = Ok (a', ev) ->
  exists b' ev', apply_entry cfg b e = Ok (b', ev') /\ mit_eq a' b' /\
    r_sm b' = r_sm b /\ r_od b' = r_od b /\ r_od_init b' = r_od_init b /\ r_tab a' = r_tab a.
Proof.
  intros cfg [sm tab mem idx tm li lt odi od ssi] [sm' tab' mem' idx' tm' li' lt' odi' od' ssi'] a' e ev
    OD OE (E1 & E2 & E3 & E4) LE.
  cbn in E1, E2, E3, E4, LE. subst mem' idx' tm' tab'.
  assert (X : en_index e <=? odi' = true) by lia.
  unfold mit_eq, ondisk_entry, RsmApply.apply_entry, RsmApply.apply_app, RsmApply.apply_cc, set_applied, set_on_disk_index,
    entry_in_init_disk_sm, bind, with_applied, with_sess, with_mem, with_od in *.
  cbn [r_sm r_tab r_mem r_index r_term r_last_index r_last_term r_od_init r_od r_ss_index].
  rewrite OD, X. cbn [negb].
  destruct (en_body e) as [se|c].
  - unfold Session.step. cbn [Session.st_tab Session.st_sm]. destruct OE as [K|K]; rewrite K;
      cbn -[N.add N.eqb N.ltb N.leb].
    + destruct (negb (idx + 1 =? en_index e)); [dis|]. destruct (en_term e <? tm); [dis|].
      intros H; inversion H; subst. do 2 eexists. split; [reflexivity|]. cbn. repeat split.
    + destruct (sm_update sm (Session.e_cmd se)) as [smx r]. cbn -[N.add N.eqb N.ltb N.leb].
      destruct (en_index e <=? odi).
      { destruct (negb (idx + 1 =? en_index e)); [dis|]. destruct (en_term e <? tm); [dis|].
        intros H; inversion H; subst. do 2 eexists. split; [reflexivity|]. cbn. repeat split. }
      destruct (en_index e <? en_index e); [dis|].
      destruct (en_index e <=? od); [dis|]. cbn -[N.add N.eqb N.ltb N.leb].
      destruct (negb (idx + 1 =? en_index e)); [dis|]. destruct (en_term e <? tm); [dis|].
      intros H; inversion H; subst. do 2 eexists. split; [reflexivity|]. cbn. repeat split.
  - destruct (Membership.handle norm (c_ordered cfg) mem c (en_index e)); try dis; cbn [r_index r_term];
      (destruct (negb (idx + 1 =? en_index e)); [dis|]); (destruct (en_term e <? tm); [dis|]);
      intros H; inversion H; subst; do 2 eexists; (split; [reflexivity|]); cbn; repeat split.
Qed.

Lemma forall_inv_cons : forall {A} (P : A -> Prop) x l, Forall P (x :: l) -> P x /\ Forall P l.
Proof. intros A P x l H. inversion H; auto. Qed.

Lemma run_entries_in_init : forall cfg es (a b a' : state) evs,
  c_ondisk cfg = true -> Forall ondisk_entry es -> mit_eq a b ->
  r_index a + nlen es <= r_od_init b ->
  run_entries cfg a es = Ok (a', evs) ->
  exists b' evs', run_entries cfg b es = Ok (b', evs') /\ mit_eq a' b' /\
    r_sm b' = r_sm b /\ r_od b' = r_od b /\ r_od_init b' = r_od_init b /\ r_tab a' = r_tab a.
Proof.
  induction es as [|e r IH]; intros a b a' evs OD F M LE H.
  - cbn in H. inversion H; subst. exists b, []. cbn. repeat split; auto; apply M.
  - apply forall_inv_cons in F. destruct F as [F1 F2]. cbn [RsmApply.run_entries] in *.
    destruct (apply_entry cfg a e) as [[a1 ev]|x] eqn:A; cbn [bind fst snd] in H; [|discriminate].
    destruct (run_entries cfg a1 r) as [[a2 evs2]|x] eqn:R; cbn [bind fst snd] in H; [|discriminate].
    inversion H; subst.
    pose proof (apply_entry_shape _ _ _ _ _ A) as (a_ix & _ & a_i1 & _).
    unfold nlen in LE. cbn [length] in LE.
    destruct (apply_entry_in_init cfg a b a1 e ev OD F1 M) as (b1 & ev' & B & M1 & S1 & O1 & I1 & T1); [lia|exact A|].
    rewrite B. cbn [bind fst snd].
    destruct (IH a1 b1 a' evs2 OD F2 M1) as (b2 & evs' & B2 & M2 & S2 & O2 & I2 & T2); [unfold nlen; rewrite I1; lia|exact R|].
    rewrite B2. cbn [bind fst snd]. do 2 eexists. split; [reflexivity|].
    repeat split; try apply M2; congruence.
Qed.

(* on an on-disk replica onDiskIndex only moves when the user state machine is
   called; if it did not move over a stretch of the log, nothing was applied to
   the user state machine there *)
Lemma apply_entry_od : forall cfg (st st' : state) e ev,
  c_ondisk cfg = true -> apply_entry cfg st e = Ok (st', ev) ->
  (r_sm st' = r_sm st /\ r_od st' = r_od st) \/ r_od st' = en_index e.
Proof.
  intros cfg [sm tab mem idx tm li lt odi od ssi] st' e ev OD.
  unfold RsmApply.apply_entry, RsmApply.apply_app, RsmApply.apply_cc, set_applied, set_on_disk_index,
    entry_in_init_disk_sm, bind, with_applied, with_sess, with_mem, with_od.
  cbn [r_sm r_tab r_mem r_index r_term r_last_index r_last_term r_od_init r_od r_ss_index].
  rewrite OD. cbn [negb].
  destruct (en_body e) as [se|c].
  - destruct (is_update_kind (Session.classify se) && (en_index e <=? odi)).
    + destruct (negb (idx + 1 =? en_index e)); [dis|]. destruct (en_term e <? tm); [dis|].
      intros H; inversion H; subst. left. split; reflexivity.
    + destruct (Session.step sm_update (Session.mkState tab sm) se) as [sst o] eqn:St.
      pose proof (Proofs.Session.sm_touched_only_when_applied_proved sm_update _ _ _ _ St) as T.
      destruct o; cbn [called_user_sm r_index r_term]; try dis;
        try (destruct (negb (idx + 1 =? en_index e)); [dis|]; destruct (en_term e <? tm); [dis|];
             intros H; inversion H; subst; left; cbn;
             destruct T as [(T1 & _)|(r0 & T1 & _)]; [cbn in T1; split; [exact T1|reflexivity]|discriminate T1]).
      destruct (en_index e <? en_index e); [dis|]. destruct (en_index e <=? odi); [dis|].
      destruct (en_index e <=? od); [dis|]. cbn [r_index r_term].
      destruct (negb (idx + 1 =? en_index e)); [dis|]. destruct (en_term e <? tm); [dis|].
      intros H; inversion H; subst. right. reflexivity.
  - destruct (Membership.handle norm (c_ordered cfg) mem c (en_index e)); try dis; cbn [r_index r_term];
      (destruct (negb (idx + 1 =? en_index e)); [dis|]); (destruct (en_term e <? tm); [dis|]);
      intros H; inversion H; subst; left; split; reflexivity.
Qed.

Lemma run_entries_od : forall cfg es (st st' : state) evs,
  c_ondisk cfg = true -> run_entries cfg st es = Ok (st', evs) -> r_od st <= r_index st ->
  r_od st <= r_od st' /\ r_od st' <= r_index st' /\ (r_od st' = r_od st -> r_sm st' = r_sm st).
Proof.
  induction es as [|e r IH]; intros st st' evs OD H LE.
  - cbn in H. inversion H; subst. repeat split; auto; lia.
  - cbn [RsmApply.run_entries] in H.
    destruct (apply_entry cfg st e) as [[s1 ev]|x] eqn:A; cbn [bind fst snd] in H; [|discriminate].
    destruct (run_entries cfg s1 r) as [[s2 evs2]|x] eqn:R; cbn [bind fst snd] in H; [|discriminate].
    inversion H; subst.
    pose proof (apply_entry_shape _ _ _ _ _ A) as (a_ix & _ & a_i1 & _).
    destruct (apply_entry_od _ _ _ _ _ OD A) as [[E1 E2]|E].
    + destruct (IH s1 st' evs2 OD R) as (I1 & I2 & I3); [lia|].
      repeat split; try lia. intros Q. rewrite I3, E1; auto. lia.
    + destruct (IH s1 st' evs2 OD R) as (I1 & I2 & I3); [lia|].
      repeat split; try lia.
Qed.

(* ---- streaming from an on-disk replica ------------------------------------------ *)

(* onDiskIndex never runs ahead of both the applied position and the index the
   state machine was opened at *)
Definition od_bounded (st : state) : Prop := r_od st <= N.max (r_index st) (r_od_init st).

Lemma apply_entry_od_bounded : forall cfg (st st' : state) e ev,
  c_ondisk cfg = true -> apply_entry cfg st e = Ok (st', ev) -> od_bounded st -> od_bounded st'.
Proof.
  intros cfg st st' e ev OD A B. unfold od_bounded in *.
  pose proof (apply_entry_shape _ _ _ _ _ A) as (a1 & _ & a3 & _ & _ & _ & a7 & _).
  destruct (apply_entry_od _ _ _ _ _ OD A) as [[_ E]|E]; rewrite a7; lia.
Qed.

Lemma run_entries_od_bounded : forall cfg es (st st' : state) evs,
  c_ondisk cfg = true -> run_entries cfg st es = Ok (st', evs) -> od_bounded st -> od_bounded st'.
Proof.
  induction es as [|e r IH]; intros st st' evs OD H B.
  - cbn in H. inversion H; subst. exact B.
  - cbn [RsmApply.run_entries] in H.
    destruct (apply_entry cfg st e) as [[s1 ev]|x] eqn:A; cbn [bind fst snd] in H; [|discriminate].
    destruct (run_entries cfg s1 r) as [[s2 evs2]|x] eqn:R; cbn [bind fst snd] in H; [|discriminate].
    inversion H; subst. eapply IH; eauto. eapply apply_entry_od_bounded; eauto.
Qed.

Lemma recover_od_bounded : forall cfg (st0 st_r : state) img,
  c_ondisk cfg = true -> r_od st0 <= r_od_init st0 -> i_od img <= i_index img ->
  recover cfg true st0 img = Ok (Recovered st_r) -> od_bounded st_r.
Proof.
  intros cfg [sm tab mem idx tm li lt odi od ssi] st_r img OD B W.
  unfold RsmApply.recover, load, apply_snapshot, od_bounded, bind, with_last, with_applied, with_mem, with_od, with_od_init, with_sess.
  cbn [r_sm r_tab r_mem r_index r_term r_last_index r_last_term r_od_init r_od r_ss_index] in *.
  rewrite OD. cbn [negb andb].
  destruct (i_index img <=? li); [dis|].
  destruct (i_witness img || i_dummy img) eqn:P; cbn [negb andb orb].
  - destruct (odi <? i_od img); [dis|]. intros H; inversion H; subst. cbn. lia.
  - destruct (i_shrunk img); cbn [orb].
    + destruct (odi <? i_od img); [dis|]. intros H; inversion H; subst. cbn. lia.
    + destruct (i_imported img || (odi <? i_od img)) eqn:RQ.
      * destruct (negb (i_imported img && true) && ((i_od img <=? odi) || (i_od img <=? od))); [dis|].
        destruct (Session.load (i_sessions img)); [|dis].
        destruct (i_data img); [|dis]. destruct (sm_recover b); [|dis].
        destruct (i_imported img && true); intros H; inversion H; subst; cbn; lia.
      * intros H; inversion H; subst. cbn. lia.
Qed.

(* A STREAMED SNAPSHOT NEVER CARRIES DATA NEWER THAN ITS INDEX. An on-disk
   replica restarted with its state machine opened at D, recovered from whatever
   snapshot it had recorded and then handed any part of its log, accepts a
   Stream task (node.canStream -> ReadyToStream) only in states where the image
   it would produce has OnDiskIndex <= Index: the follower that installs it never
   re-applies an entry the data already contains. (While the replica is still
   replaying below D the request is refused and raft retries.) *)
Lemma stream_image_not_ahead_proved : forall cfg cap (s : S) D img (st_r st : state) es evs m st1,
  c_ondisk cfg = true -> i_od img <= i_index img ->
  recover cfg true (open_ondisk (init_state cap s) D) img = Ok (Recovered st_r) ->
  run_entries cfg st_r es = Ok (st, evs) ->
  ready_to_stream cfg (sync st) = true ->
  prepare cfg SSStreaming (sync st) = Ok (Prepared m st1) ->
  mt_od m <= mt_index m /\ i_od (image_of cfg m) <= i_index (image_of cfg m).
Proof.
  intros cfg cap s D img st_r st es evs m st1 OD W REC RUN RDY PRE.
  assert (B0 : od_bounded st_r).
  { eapply recover_od_bounded; eauto. unfold open_ondisk, init_state, with_od, with_od_init. cbn. lia. }
  pose proof (run_entries_od_bounded cfg es st_r st evs OD RUN B0) as B.
  unfold ready_to_stream in RDY. rewrite OD in RDY.
  assert (G : r_od st <= r_index st).
  { unfold od_bounded in B. destruct st; unfold sync, with_last in RDY; cbn in *. lia. }
  unfold RsmApply.prepare in PRE.
  destruct (r_last_index (sync st) <? r_ss_index (sync st)); [discriminate|].
  destruct (negb (c_ondisk cfg) && negb false && (0 <? r_last_index (sync st)) && (r_last_index (sync st) =? r_ss_index (sync st))); [discriminate|].
  destruct (Membership.m_is_empty (r_mem (sync st))); [discriminate|].
  destruct (Session.save (r_tab (sync st))) as [[sv tab']|]; [|discriminate].
  inversion PRE; subst. unfold RsmApply.image_of. cbn [mt_kind mt_od mt_index i_od i_index].
  destruct st; cbn in *. split; exact G.
Qed.

Lemma apply_entry_ondisk_tab : forall cfg (st st' : state) e ev,
  ondisk_entry e -> apply_entry cfg st e = Ok (st', ev) -> r_tab st' = r_tab st.
Proof.
  intros cfg st st' e ev OE H. apply apply_entry_shape in H.
  destruct H as (_ & _ & _ & _ & _ & _ & _ & _ & _ & _ & [[E _]|(se & B & E)]); [exact E|].
  unfold ondisk_entry in OE. rewrite B in OE.
  unfold Session.step in E. cbn [Session.st_tab Session.st_sm] in E.
  destruct OE as [K|K]; rewrite K in E.
  - cbn in E. inversion E; reflexivity.
  - destruct (sm_update (r_sm st) (Session.e_cmd se)). cbn in E. inversion E; reflexivity.
Qed.

Lemma run_entries_ondisk_tab : forall cfg es (st st' : state) evs,
  Forall ondisk_entry es -> run_entries cfg st es = Ok (st', evs) -> r_tab st' = r_tab st.
Proof.
  induction es as [|e r IH]; intros st st' evs F H.
  - cbn in H. inversion H; reflexivity.
  - apply forall_inv_cons in F. destruct F as [F1 F2]. cbn [RsmApply.run_entries] in H.
    destruct (apply_entry cfg st e) as [[s1 ev]|x] eqn:A; cbn [bind fst snd] in H; [|discriminate].
    destruct (run_entries cfg s1 r) as [[s2 evs2]|x] eqn:R; cbn [bind fst snd] in H; [|discriminate].
    inversion H; subst. rewrite (IH _ _ _ F2 R). eapply apply_entry_ondisk_tab; eauto.
Qed.

(* run over a middle segment, from the run over the whole *)
Lemma run_entries_middle : forall cfg es p q (st st_p st_q : state) ep eq,
  (p <= q)%nat ->
  run_entries cfg st (firstn p es) = Ok (st_p, ep) ->
  run_entries cfg st (firstn q es) = Ok (st_q, eq) ->
  exists em, run_entries cfg st_p (firstn (q - p) (skipn p es)) = Ok (st_q, em).
Proof.
  intros cfg es p q st st_p st_q ep eq L P Q.
  assert (E : firstn q es = firstn p es ++ firstn (q - p) (skipn p es)).
  { replace q with (p + (q - p))%nat at 1 by lia. apply firstn_add. }
  rewrite E, run_entries_app, P in Q. cbn [bind fst snd] in Q.
  destruct (run_entries cfg st_p (firstn (q - p) (skipn p es))) as [[s em]|x]; cbn [bind fst snd] in Q; [|discriminate].
  inversion Q; subst. eauto.
Qed.

Lemma obs_core_eq : forall a b : state, core_eq a b -> obs a = obs b /\ r_od a = r_od b.
Proof.
  intros [] [] (E1 & E2 & E3 & E4 & E5 & E6). cbn in *. subst. split; reflexivity.
Qed.

(* SNAPSHOT + LOG SUFFIX = FULL LOG, on-disk state machines. The snapshot of a
   running on-disk replica is a dummy (membership, index, term, OnDiskIndex; no
   user data); the user data comes back from the state machine's own disk, which
   holds the state after some entry [pD] it applied (Open returns that index);
   Sync before the snapshot guarantees OnDiskIndex(snapshot) <= pD. After the
   restart, entries at or below pD are no-ops for the user state machine while
   config changes are still applied; from pD on everything is applied. The
   restarted replica ends with the same user data, (empty) session table,
   membership, applied index, term and onDiskIndex as the uninterrupted one. *)
Lemma snapshot_cut_equiv_ondisk_proved : forall cfg cap (s0 : S) es k pD st_f evs_f,
  c_ondisk cfg = true -> 0 < cap ->
  contiguous 0 es -> Forall (fun e => 0 < en_term e) es -> Forall ondisk_entry es ->
  run_entries cfg (init_state cap s0) es = Ok (st_f, evs_f) ->
  (0 < k <= length es)%nat -> (pD <= length es)%nat ->
  exists st_k evs_k st_D evs_D,
    run_entries cfg (init_state cap s0) (firstn k es) = Ok (st_k, evs_k) /\
    run_entries cfg (init_state cap s0) (firstn pD es) = Ok (st_D, evs_D) /\
    forall ssi ts,
      Membership.m_is_empty (r_mem st_k) = false -> ssi <= r_index st_k ->
      r_od st_D = N.of_nat pD -> r_od st_k <= N.of_nat pD ->
      delivery es k ts (length es) ->
      exists img st_r st_f' evs',
        snapshot cfg SSRegular (with_ss_index (sync st_k) ssi) =
          Ok (Snap img (with_ss_index (sync st_k) (r_index st_k))) /\
        i_dummy img = true /\ i_data img = None /\
        recover cfg true (open_ondisk (init_state cap (r_sm st_D)) (N.of_nat pD)) img = Ok (Recovered st_r) /\
        run_tasks cfg st_r ts = Ok (st_f', evs') /\ obs st_f' = obs st_f /\ r_od st_f' = r_od st_f.
Proof.
  intros cfg cap s0 es k pD st_f evs_f OD CAP C F OE RUN [K1 K2] PD.
  destruct (run_entries_prefix cfg es k _ _ _ RUN) as (st_k & evs_k & evs_rk & Rk & Rk2 & Ek).
  destruct (run_entries_prefix cfg es pD _ _ _ RUN) as (st_D & evs_D & evs_rD & RD & RD2 & ED).
  exists st_k, evs_k, st_D, evs_D. split; [exact Rk|]. split; [exact RD|].
  intros ssi ts ME SI HD HK D.
  pose proof (run_entries_shape _ _ _ _ _ Rk) as (_ & _ & IXk & _ & _ & _ & ODIk & _ & _ & TABk & _).
  pose proof (run_entries_shape _ _ _ _ _ RD) as (_ & _ & IXD & _ & _ & _ & ODID & _ & _ & _ & _).
  specialize (TABk (init_tab_ok cap s0 CAP)).
  change (r_index (init_state cap s0)) with 0 in IXk, IXD. unfold nlen in IXk, IXD. rewrite firstn_length in IXk, IXD.
  replace (Nat.min k (length es)) with k in IXk by lia. replace (Nat.min pD (length es)) with pD in IXD by lia.
  rewrite N.add_0_l in IXk, IXD.
  change (r_od_init (init_state cap s0)) with 0 in ODIk, ODID.
  pose proof (run_entries_ondisk_tab cfg _ _ _ _ (forall_firstn _ k _ OE) Rk) as TBk.
  pose proof (run_entries_ondisk_tab cfg _ _ _ _ (forall_firstn _ pD _ OE) RD) as TBD.
  change (r_tab (init_state cap s0)) with (@Session.empty_table result cap) in TBk, TBD.
  set (cutter := with_ss_index (sync st_k) ssi).
  destruct (cutter_fields st_k ssi) as (c1 & c2 & c3 & c4 & c5 & c6 & c7 & c8 & c9 & c10).
  fold cutter in c1, c2, c3, c4, c5, c6, c7, c8, c9, c10.
  assert (TC : tab_ok cutter) by (eapply tab_ok_irrelevant; [|exact TABk]; now rewrite c2).
  set (img := image_of cfg (meta_of SSRegular cutter)).
  assert (IM : img = mkImg (r_index st_k) (r_term st_k) (r_mem st_k) (r_od st_k)
                       (Session.t_cap (r_tab st_k), rev (Session.t_list (r_tab st_k))) None true false false false).
  { subst img. unfold RsmApply.image_of, meta_of. cbn [mt_kind mt_index mt_term mt_mem mt_od mt_sessions].
    rewrite OD, c2, c3, c4, c5, c9. reflexivity. }
  set (st_r := mkSt (r_sm st_D) (@Session.empty_table result cap) (r_mem st_k) (r_index st_k) (r_term st_k)
                    (r_index st_k) (r_term st_k) (N.of_nat pD) (N.of_nat pD) 0).
  assert (REC : recover cfg true (open_ondisk (init_state cap (r_sm st_D)) (N.of_nat pD)) img = Ok (Recovered st_r)).
  { rewrite IM. unfold RsmApply.recover, open_ondisk, init_state, with_od, with_od_init.
    cbn [i_index i_witness i_dummy i_shrunk i_od i_imported orb r_last_index r_od_init r_od r_sm r_tab r_mem r_index r_term r_last_term r_ss_index].
    destruct (r_index st_k <=? 0) eqn:A; [lia|]. rewrite OD. cbn [andb negb orb].
    destruct (N.of_nat pD <? r_od st_k) eqn:B; [lia|]. reflexivity. }
  assert (SYr : synced st_r) by (split; reflexivity).
  assert (IXr : r_index st_r = N.of_nat k) by exact IXk.
  (* the rest of the log, entry by entry, on the restarted replica *)
  assert (MAIN : exists st_f'' evs'', run_entries cfg st_r (skipn k es) = Ok (st_f'', evs'') /\ core_eq st_f st_f'').
  { destruct (Nat.le_gt_cases pD k) as [LE|GT].
    - (* the disk is not ahead of the snapshot *)
      destruct (run_entries_middle cfg es pD k _ _ _ _ _ LE RD Rk) as (em & MID).
      destruct (run_entries_od cfg _ _ _ _ OD MID) as (M1 & M2 & M3); [lia|].
      assert (EQod : r_od st_k = r_od st_D) by lia. specialize (M3 EQod).
      assert (CE : core_eq st_k st_r).
      { unfold core_eq. subst st_r. cbn.
        refine (conj M3 (conj TBk (conj eq_refl (conj eq_refl (conj eq_refl _))))). lia. }
      pose proof (run_entries_above_init cfg (skipn k es) st_k st_r CE) as R.
      rewrite Rk2 in R.
      destruct (run_entries cfg st_r (skipn k es)) as [[b' evs']|y].
      + destruct R as (R1 & _); [lia|subst st_r; cbn; lia| |eauto].
        rewrite IXk. pose proof (contiguous_skipn k 0 es C) as K. replace (Nat.min k (length es)) with k in K by lia. exact K.
      + exfalso. apply R; [lia|subst st_r; cbn; lia|].
        rewrite IXk. pose proof (contiguous_skipn k 0 es C) as K. replace (Nat.min k (length es)) with k in K by lia. exact K.
    - (* the disk is ahead: entries k+1 .. pD are no-ops for the user state machine *)
      assert (LE : (k <= pD)%nat) by lia.
      destruct (run_entries_middle cfg es k pD _ _ _ _ _ LE Rk RD) as (em & MID).
      assert (ME0 : mit_eq st_k st_r) by (subst st_r; unfold mit_eq; cbn; repeat split; auto).
      destruct (run_entries_in_init cfg _ st_k st_r st_D em OD
                  (forall_firstn _ (pD - k) _ (forall_skipn _ k _ OE)) ME0) as (vD & evD & RV & MV & SV & OV & IV & _); [|exact MID|].
      { subst st_r. cbn [r_od_init]. unfold nlen. rewrite firstn_length, skipn_length. lia. }
      assert (CE : core_eq st_D vD).
      { destruct MV as (m1 & m2 & m3 & m4). unfold core_eq.
        refine (conj _ (conj m4 (conj m1 (conj m2 (conj m3 _))))).
        - rewrite SV. reflexivity.
        - rewrite OV. subst st_r. cbn. exact HD. }
      pose proof (run_entries_above_init cfg (skipn pD es) st_D vD CE) as R.
      rewrite RD2 in R.
      assert (SPLIT : skipn k es = firstn (pD - k) (skipn k es) ++ skipn pD es).
      { rewrite <- (firstn_skipn (pD - k) (skipn k es)) at 1. f_equal. rewrite skipn_skipn. f_equal. lia. }
      rewrite SPLIT, run_entries_app, RV. cbn [bind fst snd].
      assert (CT : contiguous (r_index st_D) (skipn pD es)).
      { rewrite IXD. pose proof (contiguous_skipn pD 0 es C) as K. replace (Nat.min pD (length es)) with pD in K by lia. exact K. }
      assert (G2 : r_od_init vD <= r_index vD).
      { rewrite IV. destruct MV as (_ & m2 & _). rewrite <- m2, IXD. subst st_r. cbn. lia. }
      destruct (run_entries cfg vD (skipn pD es)) as [[b' evs']|y].
      + destruct R as (R1 & _); [lia|exact G2|exact CT|]. cbn [bind fst snd]. eauto.
      + exfalso. apply R; [lia|exact G2|exact CT]. }
  destruct MAIN as (st_f'' & evs'' & RF & CF).
  exists img, st_r, (sync st_f''), evs''.
  split; [|split; [|split; [|split; [|split]]]].
  - subst img. rewrite snapshot_ok; [|exact TC|now rewrite c3|rewrite c10, c6; exact SI|left; exact OD].
    do 2 f_equal; try (unfold after_save; rewrite c4; subst cutter; destruct st_k; reflexivity).
  - rewrite IM. reflexivity.
  - rewrite IM. reflexivity.
  - exact REC.
  - rewrite (run_tasks_delivery cfg es C F k ts _ D st_r SYr IXr) by lia.
    rewrite firstn_all2 by (rewrite skipn_length; lia). unfold run_sync. rewrite RF. reflexivity.
  - destruct (obs_core_eq _ _ CF) as [O1 O2]. rewrite obs_sync. split; [now symmetry|].
    replace (r_od (sync st_f'')) with (r_od st_f'') by (destruct st_f''; reflexivity). now symmetry.
Qed.

End RsmProofs.
