(* Proofs/RsmApply.v — lemmas about Model/RsmApply.v (C08). *)
From DB Require Import Base.Bytes Gen.GenC05 Gen.GenC08 Model.RsmApply.
From DB Require Model.Session Model.Membership Proofs.Session.
From Coq Require Import ZifyN ZifyNat ZifyBool.
Ltac Zify.zify_post_hook ::= Z.div_mod_to_equations.
Open Scope N_scope.

(* ====================================================================== *)
(* PART 2 — compaction bookkeeping                                          *)
(* ====================================================================== *)

(* every branch of node.getCompactionIndex: the value is positive and at most
   the snapshot index; which value it is, per branch *)
Lemma get_compaction_index_spec_proved : forall oh q index v,
  get_compaction_index oh q index = Some v ->
  0 < v /\ v <= index /\
  ((q_override q = true /\ 0 < q_cindex q /\ v = q_cindex q /\ v < index) \/
   (q_override q = true /\ q_cindex q = 0 /\ v = index - q_overhead q) \/
   (q_override q = false /\ v = index - oh)).
Proof.
  intros oh q index v H. unfold get_compaction_index in H.
  destruct (q_override q) eqn:Eo.
  - destruct (0 <? q_cindex q) eqn:Ec.
    + destruct (q_cindex q <? index) eqn:Ei; inversion H; subst. lia.
    + destruct (q_overhead q <? index) eqn:Ei; inversion H; subst. lia.
  - destruct (oh <? index) eqn:Ei; inversion H; subst. lia.
Qed.

(* overhead 0: the whole log up to the snapshot index goes *)
Lemma compaction_overhead_zero_proved : forall q index,
  0 < index -> q_override q = false -> get_compaction_index 0 q index = Some index.
Proof.
  intros q index P E. unfold get_compaction_index. rewrite E.
  destruct (0 <? index) eqn:Ei; [f_equal; lia | lia].
Qed.

(* the code as it stood: a user requested index of 2^64-1 is handed on although
   it is far above the snapshot index *)
Lemma compaction_index_wrap_refuted_proved :
  exists q index v, index < 2 ^ 64 /\ q_cindex q < 2 ^ 64 /\
    get_compaction_index_wrapping 0 q index = Some v /\ index < v.
Proof.
  exists (mkReq false true 0 (2 ^ 64 - 1)), 100, (2 ^ 64 - 1).
  repeat split; vm_compute; reflexivity.
Qed.

(* below 2^64-1 the two agree: the repair changes nothing else *)
Lemma compaction_index_wrapping_agrees_proved : forall oh q index,
  q_cindex q < 2 ^ 64 - 1 ->
  get_compaction_index_wrapping oh q index = get_compaction_index oh q index.
Proof.
  intros oh q index H. unfold get_compaction_index_wrapping, get_compaction_index.
  destruct (q_override q); [|reflexivity].
  destruct (0 <? q_cindex q); [|reflexivity].
  rewrite N.mod_small by lia.
  destruct (q_cindex q + 1 <=? index) eqn:A, (q_cindex q <? index) eqn:B; try reflexivity; lia.
Qed.

Definition covered (recorded : list N) (v : N) : Prop :=
  0 < v /\ exists r, In r recorded /\ v <= r.

Definition ninv (st : nstate) : Prop :=
  (n_lr_snapshot st = 0 \/ In (n_lr_snapshot st) (n_recorded st)) /\
  (n_compact_to st = 0 \/ covered (n_recorded st) (n_compact_to st)) /\
  Forall (fun p => covered (snd p) (fst p) /\ incl (snd p) (n_recorded st)) (n_removed st).

Lemma covered_mono : forall l l' v, incl l l' -> covered l v -> covered l' v.
Proof. intros l l' v I [P (r & Hr & Hle)]. split; auto. exists r. split; auto. Qed.

Lemma removed_mono : forall (l l' : list N) (rm : list (N * list N)),
  incl l l' ->
  Forall (fun p => covered (snd p) (fst p) /\ incl (snd p) l) rm ->
  Forall (fun p => covered (snd p) (fst p) /\ incl (snd p) l') rm.
Proof.
  intros l l' rm I H. eapply Forall_impl; [|exact H]. intros p [A B]. split; auto.
  eapply incl_tran; eauto.
Qed.

Lemma list_max_in : forall l, l <> [] -> In (list_max l) l.
Proof.
  induction l as [|x r IH]; intros H; [congruence|].
  cbn [list_max]. destruct r as [|y r'].
  - cbn. left. lia.
  - assert (In (list_max (y :: r')) (y :: r')) by (apply IH; congruence).
    destruct (N.max_spec x (list_max (y :: r'))) as [[_ E]|[_ E]]; rewrite E.
    + right. exact H0.
    + left. reflexivity.
Qed.

Lemma list_max_nil_or_in : forall l, list_max l = 0 \/ In (list_max l) l.
Proof. intros [|x r]; [left; reflexivity | right; apply list_max_in; congruence]. Qed.

Lemma compact_log_inv : forall oh q index st,
  ninv st -> In index (n_recorded st) -> ninv (compact_log oh q index st).
Proof.
  intros oh q index st (A & B & C) Hin. unfold compact_log.
  destruct (get_compaction_index oh q index) as [v|] eqn:E; [|repeat split; auto].
  apply get_compaction_index_spec_proved in E. destruct E as (P & L & _).
  repeat split; cbn [n_lr_snapshot n_recorded n_compact_to n_removed]; auto.
  right. split; auto. exists index. auto.
Qed.

Lemma compact_log_fields : forall oh q index st,
  n_recorded (compact_log oh q index st) = n_recorded st /\
  n_lr_snapshot (compact_log oh q index st) = n_lr_snapshot st /\
  n_ss_index (compact_log oh q index st) = n_ss_index st /\
  n_removed (compact_log oh q index st) = n_removed st.
Proof. intros. unfold compact_log. destruct (get_compaction_index oh q index); repeat split. Qed.

Lemma nstep_inv : forall oh st op, ninv st -> ninv (nstep oh st op).
Proof.
  intros oh st op I. destruct op as [q applied o cok | index | ok init | | ]; cbn [nstep].
  - destruct (negb (q_exported q) && (applied <=? n_ss_index st)); [exact I|].
    destruct o as [index|]; [|exact I].
    destruct cok; cbn [negb]; [|exact I].
    destruct (q_exported q) eqn:Ex; [exact I|].
    cbn [n_lr_snapshot n_recorded n_ss_index n_compact_to n_removed].
    destruct I as (A & B & C).
    assert (I1 : ninv (mkN (index :: n_recorded st) (n_lr_snapshot st) (n_ss_index st) (n_compact_to st) (n_removed st))).
    { repeat split; cbn [n_lr_snapshot n_recorded n_compact_to n_removed].
      - destruct A; [left|right; right]; auto.
      - destruct B; [left; auto|right]. eapply covered_mono; [|eauto]. apply incl_tl, incl_refl.
      - eapply removed_mono; [|eauto]. apply incl_tl, incl_refl. }
    destruct (index <=? n_lr_snapshot st) eqn:Le; [exact I1|].
    set (st2 := mkN (index :: n_recorded st) index (n_ss_index st) (n_compact_to st) (n_removed st)).
    assert (I2 : ninv st2).
    { destruct I1 as (A1 & B1 & C1). repeat split; cbn [n_lr_snapshot n_recorded n_compact_to n_removed st2]; auto.
      right. left. reflexivity. }
    pose proof (compact_log_inv oh q index st2 I2) as I3.
    assert (Hin : In index (n_recorded st2)) by (left; reflexivity). specialize (I3 Hin).
    destruct I3 as (A3 & B3 & C3). repeat split; cbn [n_lr_snapshot n_recorded n_compact_to n_removed]; auto.
  - destruct (index =? 0) eqn:Z; [exact I|].
    destruct I as (A & B & C).
    repeat split; cbn [n_lr_snapshot n_recorded n_compact_to n_removed].
    + right. destruct (index <=? n_lr_snapshot st) eqn:Le.
      * destruct A as [A|A]; [lia|]. right. exact A.
      * left. reflexivity.
    + destruct B; [left; auto|right]. eapply covered_mono; [|eauto]. apply incl_tl, incl_refl.
    + eapply removed_mono; [|eauto]. apply incl_tl, incl_refl.
  - set (done := ok && negb (n_lr_snapshot st =? 0)).
    assert (I1 : ninv (if done then compact_log oh default_req (n_lr_snapshot st) st else st)).
    { destruct done eqn:D; [|exact I]. apply compact_log_inv; auto.
      destruct I as (A & _). destruct A as [A|A]; auto.
      subst done. apply andb_prop in D. destruct D as [_ D]. rewrite A in D. discriminate. }
    destruct init; [|exact I1].
    destruct I1 as (A1 & B1 & C1). repeat split; cbn [n_lr_snapshot n_recorded n_compact_to n_removed]; auto.
  - destruct I as (A & B & C).
    repeat split; cbn [n_lr_snapshot n_recorded n_compact_to n_removed]; auto.
    destruct (list_max_nil_or_in (n_recorded st)); auto.
  - destruct (0 <? n_compact_to st) eqn:P; [|exact I].
    destruct I as (A & B & C).
    repeat split; cbn [n_lr_snapshot n_recorded n_compact_to n_removed]; auto.
    constructor; auto. cbn [fst snd]. split; [|apply incl_refl].
    destruct B as [B|B]; [lia|exact B].
Qed.

Lemma ninit_inv : ninv ninit.
Proof. repeat split; cbn; auto. Qed.

Lemma nrun_inv : forall oh ops st, ninv st -> ninv (nrun oh st ops).
Proof.
  intros oh ops. unfold nrun. induction ops as [|op r IH]; intros st I; cbn [fold_left]; auto.
  apply IH, nstep_inv, I.
Qed.

(* every value handed to LogReader.Compact / ILogDB.RemoveEntriesTo, in every run
   of the node bookkeeping (any interleaving of saves with any request, received
   snapshots, recoveries, restarts and removeLog calls), is positive and at most
   the index of a snapshot whose record was ALREADY in the log store at that
   moment — and still is at the end of the run *)
Lemma compaction_below_recorded_snapshot_proved : forall oh ops,
  Forall (fun p : N * list N =>
            0 < fst p /\
            (exists r, In r (snd p) /\ fst p <= r) /\
            incl (snd p) (n_recorded (nrun oh ninit ops)))
         (n_removed (nrun oh ninit ops)).
Proof.
  intros oh ops. destruct (nrun_inv oh ops ninit ninit_inv) as (_ & _ & C).
  eapply Forall_impl; [|exact C]. intros p [[P E] I]. auto.
Qed.

(* records are never taken back by the bookkeeping *)
Lemma recorded_grow_only_proved : forall oh st op, incl (n_recorded st) (n_recorded (nstep oh st op)).
Proof.
  intros oh st op. destruct op as [q applied o cok | index | ok init | | ]; cbn [nstep].
  - destruct (negb (q_exported q) && (applied <=? n_ss_index st)); [apply incl_refl|].
    destruct o as [ix|]; [|apply incl_refl]. destruct cok; cbn [negb]; [|apply incl_refl].
    destruct (q_exported q); [apply incl_refl|]. cbn [n_lr_snapshot n_recorded].
    destruct (ix <=? n_lr_snapshot st); cbn [n_recorded]; [apply incl_tl, incl_refl|].
    unfold compact_log. destruct (get_compaction_index oh q ix); cbn; apply incl_tl, incl_refl.
  - destruct (index =? 0); [apply incl_refl|]. cbn. apply incl_tl, incl_refl.
  - destruct (ok && negb (n_lr_snapshot st =? 0)).
    + destruct (compact_log_fields oh default_req (n_lr_snapshot st) st) as (E & _).
      destruct init; cbn [n_recorded]; rewrite E; apply incl_refl.
    + destruct init; cbn [n_recorded]; apply incl_refl.
  - cbn. apply incl_refl.
  - destruct (0 <? n_compact_to st); cbn; apply incl_refl.
Qed.

(* the comparisons / call orders the model is written from, as they stand in the
   source on this run (Gen/GenC08.v): a change of any of them breaks this lemma *)
Lemma source_tie_proved :
  src_eta_old_le = true /\ src_eta_hole_gt = true /\ src_eta_skip = true /\
  src_set_applied_next = true /\ src_set_applied_term = true /\
  src_in_init_le = true /\ src_set_od_init_le = true /\ src_set_od_le = true /\
  src_recover_required_init = true /\ src_recover_required = true /\ src_partial_check_init = true /\
  src_recover_out_of_date_ge = true /\ src_recover_partial = true /\ src_status_same_index = true /\
  src_ssmeta_fields = true /\ src_apply_restores = true /\ src_dummy_rule = true /\
  src_compaction_user_index = true /\ src_compaction_user_index_set = true /\
  src_compaction_user_overhead = true /\ src_compaction_overhead = true /\
  src_dosave_order = true /\ src_commit_order = true /\ src_recover_order = true /\
  src_remove_log_order = true /\ src_save_raft_state_before_process_snapshot = true /\
  src_snapshot_update_not_fast_applied = true.
Proof. repeat split; reflexivity. Qed.
