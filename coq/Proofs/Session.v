(* Proofs/Session.v — lemmas about Model/Session.v (client sessions, C05). *)
From DB Require Import Base.Bytes Gen.GenC05 Model.Session.
From Coq Require Import Permutation.
From Coq Require Import ZifyN ZifyNat ZifyBool.
Ltac Zify.zify_post_hook ::= Z.div_mod_to_equations.
Open Scope N_scope.

Section SessionProofs.
Context {S result : Type}.
Variable sm_update : S -> bytes -> S * result.

Notation session := (@session result).
Notation table := (@table result).
Notation state := (@state S result).
Notation outcome := (@outcome result).
Notation step := (step sm_update).
Notation run := (run sm_update).
Notation run_state := (run_state sm_update).

(* ---------------------------------------------------------------- *)
(* vocabulary used by the theorems                                   *)

Definition ids (l : list session) : list N := map s_client l.

(* the session a client id maps to (first match = the store lookup) *)
Definition find_session (c : N) (l : list session) : option session :=
  match lru_find c l with Some (s, _) => Some s | None => None end.

Definition lookup (c : N) (st : state) : option session :=
  find_session c (t_list (st_tab st)).

Definition hist_above (s : session) : Prop :=
  Forall (fun p => s_responded s < fst p) (s_history s).

Definition wf_table (t : table) : Prop :=
  NoDup (ids (t_list t)) /\ N.of_nat (length (t_list t)) <= t_cap t.

Definition inv (st : state) : Prop :=
  wf_table (st_tab st) /\ Forall hist_above (t_list (st_tab st)).

(* ---------------------------------------------------------------- *)
(* lru_find                                                          *)

Lemma lru_find_none : forall c (l : list session),
  lru_find c l = None <-> ~ In c (ids l).
Proof.
  induction l as [|s r IH]; cbn.
  - split; auto.
  - destruct (s_client s =? c) eqn:E.
    + apply N.eqb_eq in E. split; [discriminate|]. intros H. exfalso. apply H. now left.
    + apply N.eqb_neq in E. destruct (lru_find c r) as [[x r']|] eqn:F.
      * split; [discriminate|]. intros H. exfalso.
        destruct IH as [_ IH2]. assert (G : Some (x, r') = None) by (apply IH2; intros HI; apply H; now right).
        discriminate.
      * split; auto. intros _ [H|H]; [congruence|]. now apply IH.
Qed.

Lemma lru_find_some : forall c (l : list session) s r,
  lru_find c l = Some (s, r) ->
  exists l1 l2, l = l1 ++ s :: l2 /\ r = l1 ++ l2 /\ s_client s = c /\ ~ In c (ids l1).
Proof.
  induction l as [|x t IH]; cbn; intros s r H; [discriminate|].
  destruct (s_client x =? c) eqn:E.
  - apply N.eqb_eq in E. inversion H; subst. exists [], r. cbn. auto.
  - apply N.eqb_neq in E. destruct (lru_find c t) as [[y r']|] eqn:F; [|discriminate].
    inversion H; subst. destruct (IH _ _ eq_refl) as (l1 & l2 & -> & -> & Hc & Hn).
    exists (x :: l1), l2. cbn. repeat split; auto. intros [G|G]; auto.
Qed.

Lemma lru_find_split : forall c (l1 l2 : list session) s,
  s_client s = c -> ~ In c (ids l1) ->
  lru_find c (l1 ++ s :: l2) = Some (s, l1 ++ l2).
Proof.
  induction l1 as [|x t IH]; cbn; intros l2 s Hc Hn.
  - apply N.eqb_eq in Hc. now rewrite Hc.
  - destruct (s_client x =? c) eqn:E.
    + apply N.eqb_eq in E. exfalso. apply Hn. now left.
    + rewrite IH; auto.
Qed.

Lemma lru_find_head : forall (s : session) r, lru_find (s_client s) (s :: r) = Some (s, r).
Proof. intros. cbn. now rewrite N.eqb_refl. Qed.

Lemma find_session_none : forall c l, find_session c l = None <-> ~ In c (ids l).
Proof.
  intros. unfold find_session. rewrite <- lru_find_none.
  destruct (lru_find c l) as [[? ?]|]; split; congruence.
Qed.

Lemma find_session_client : forall c l s, find_session c l = Some s -> s_client s = c.
Proof.
  unfold find_session. intros c l s H. destruct (lru_find c l) as [[x r]|] eqn:F; [|discriminate].
  inversion H; subst. destruct (lru_find_some _ _ _ _ F) as (? & ? & _ & _ & ? & _). auto.
Qed.

Lemma find_session_in : forall c l s, find_session c l = Some s -> In s l.
Proof.
  unfold find_session. intros c l s H. destruct (lru_find c l) as [[x r]|] eqn:F; [|discriminate].
  inversion H; subst. destruct (lru_find_some _ _ _ _ F) as (l1 & l2 & -> & _).
  apply in_or_app. right. now left.
Qed.

Lemma find_session_cons : forall c (x : session) l,
  find_session c (x :: l) = if s_client x =? c then Some x else find_session c l.
Proof.
  intros. unfold find_session. cbn. destruct (s_client x =? c); auto.
  destruct (lru_find c l) as [[? ?]|]; auto.
Qed.

Lemma find_session_app_notin : forall c l1 l2,
  ~ In c (ids l1) -> find_session c (l1 ++ l2) = find_session c l2.
Proof.
  induction l1 as [|x t IH]; cbn; intros l2 H; auto.
  rewrite find_session_cons. destruct (s_client x =? c) eqn:E.
  - apply N.eqb_eq in E. exfalso. apply H. now left.
  - apply IH. intros G. apply H. now right.
Qed.

Lemma find_session_app_in : forall c l1 l2 s,
  find_session c l1 = Some s -> find_session c (l1 ++ l2) = Some s.
Proof.
  induction l1 as [|x t IH]; cbn; intros l2 s H; [discriminate|].
  rewrite find_session_cons in *. destruct (s_client x =? c); auto.
Qed.

(* moving the found element to the front does not change any lookup, provided
   ids are unique *)
Lemma ids_app : forall l1 l2 : list session, ids (l1 ++ l2) = ids l1 ++ ids l2.
Proof. intros. unfold ids. apply map_app. Qed.

Lemma nodup_move_front : forall (l1 l2 : list session) s,
  NoDup (ids (l1 ++ s :: l2)) -> NoDup (ids (s :: l1 ++ l2)).
Proof.
  intros. unfold ids in *. rewrite map_app in H. cbn in *. rewrite map_app.
  eapply Permutation_NoDup; [|exact H].
  symmetry. apply Permutation_middle.
Qed.

Lemma nodup_remove_mid : forall (l1 l2 : list session) s,
  NoDup (ids (l1 ++ s :: l2)) -> NoDup (ids (l1 ++ l2)) /\ ~ In (s_client s) (ids (l1 ++ l2)).
Proof.
  intros. apply nodup_move_front in H. cbn in H. inversion H; subst. auto.
Qed.

Lemma find_session_move_front : forall d (l1 l2 : list session) s,
  NoDup (ids (l1 ++ s :: l2)) ->
  find_session d (s :: l1 ++ l2) = find_session d (l1 ++ s :: l2).
Proof.
  intros d l1 l2 s ND. rewrite find_session_cons.
  destruct (s_client s =? d) eqn:E.
  - apply N.eqb_eq in E. destruct (nodup_remove_mid _ _ _ ND) as [_ Hn].
    rewrite ids_app in Hn. rewrite find_session_app_notin.
    + rewrite find_session_cons. apply N.eqb_eq in E. now rewrite E.
    + intros G. apply Hn. apply in_or_app. left. now rewrite E.
  - clear ND. induction l1 as [|x t IH]; cbn.
    + rewrite find_session_cons. now rewrite E.
    + rewrite !find_session_cons. destruct (s_client x =? d); auto.
Qed.

(* ---------------------------------------------------------------- *)
(* takeN                                                             *)

Lemma takeN_length : forall {A} (l : list A) n, N.of_nat (length (takeN n l)) <= n.
Proof.
  induction l as [|x r IH]; cbn; intros n; [lia|].
  destruct (n =? 0) eqn:E; cbn; [lia|].
  apply N.eqb_neq in E. specialize (IH (N.pred n)). lia.
Qed.

Lemma takeN_all : forall {A} (l : list A) n, N.of_nat (length l) <= n -> takeN n l = l.
Proof.
  induction l as [|x r IH]; cbn; intros n H; auto.
  destruct (n =? 0) eqn:E.
  - apply N.eqb_eq in E. lia.
  - f_equal. apply IH. lia.
Qed.

Lemma takeN_prefix : forall {A} (l : list A) n, exists t, l = takeN n l ++ t.
Proof.
  induction l as [|x r IH]; cbn; intros n.
  - exists []. auto.
  - destruct (n =? 0).
    + exists (x :: r). auto.
    + destruct (IH (N.pred n)) as [t Ht]. exists t. cbn. now rewrite <- Ht.
Qed.

Lemma nodup_app_l : forall {A} (a b : list A), NoDup (a ++ b) -> NoDup a.
Proof.
  induction a as [|x r IH]; cbn; intros b H; [constructor|].
  inversion H; subst. constructor.
  - intros G. apply H2. apply in_or_app. now left.
  - eapply IH; eauto.
Qed.

Lemma takeN_nodup_ids : forall (l : list session) n, NoDup (ids l) -> NoDup (ids (takeN n l)).
Proof.
  intros l n H. destruct (takeN_prefix l n) as [t Ht]. rewrite Ht in H.
  rewrite ids_app in H. eapply nodup_app_l; eauto.
Qed.

Lemma takeN_forall : forall {A} (P : A -> Prop) (l : list A) n, Forall P l -> Forall P (takeN n l).
Proof.
  intros A P l n H. destruct (takeN_prefix l n) as [t Ht]. rewrite Ht in H.
  apply Forall_app in H. tauto.
Qed.

Lemma find_session_takeN : forall c (l : list session) n s,
  find_session c (takeN n l) = Some s -> find_session c l = Some s.
Proof.
  intros c l n s H. destruct (takeN_prefix l n) as [t Ht]. rewrite Ht.
  now apply find_session_app_in.
Qed.

(* ---------------------------------------------------------------- *)
(* session history                                                   *)

Lemma hist_get_in : forall k (h : list (N * result)) r, hist_get k h = Some r -> In (k, r) h.
Proof.
  induction h as [|[k' r'] t IH]; cbn; intros r H; [discriminate|].
  destruct (k' =? k) eqn:E.
  - apply N.eqb_eq in E. inversion H; subst. now left.
  - right. auto.
Qed.

Lemma hist_get_filter : forall k (f : N * result -> bool) (h : list (N * result)),
  (forall r, f (k, r) = true) -> hist_get k (filter f h) = hist_get k h.
Proof.
  induction h as [|[k' r'] t IH]; cbn; intros Hf; auto.
  destruct (f (k', r')) eqn:F; cbn.
  - destruct (k' =? k); auto.
  - destruct (k' =? k) eqn:E; auto. apply N.eqb_eq in E. subst. rewrite Hf in F. discriminate.
Qed.

Lemma hist_get_filter_none : forall k (f : N * result -> bool) (h : list (N * result)),
  hist_get k h = None -> hist_get k (filter f h) = None.
Proof.
  induction h as [|[k' r'] t IH]; cbn; intros H; auto.
  destruct (k' =? k) eqn:E; [discriminate|].
  destruct (f (k', r')); cbn; auto. rewrite E. auto.
Qed.

(* the canonical meaning of clearTo: watermark := max, drop everything <= to *)
Definition clear_to_spec (s : session) (to : N) : session :=
  if to <=? s_responded s then s
  else mkSession (s_client s) to (hist_clear to (s_history s)).

Lemma hist_del_clear_above : forall to w (h : list (N * result)),
  Forall (fun p => w < fst p) h -> to = w + 1 -> hist_del to h = hist_clear to h.
Proof.
  intros to w h H ->. unfold hist_del, hist_clear. induction H as [|[k r] t Hk Ht IH]; cbn; auto.
  cbn in Hk. rewrite IH.
  destruct (k =? w + 1) eqn:E1; destruct (w + 1 <? k) eqn:E2; cbn; auto; lia.
Qed.

Lemma clear_to_exact : forall (s : session) to, hist_above s -> clear_to s to = clear_to_spec s to.
Proof.
  intros s to H. unfold clear_to, clear_to_spec.
  destruct (to <=? s_responded s); auto.
  destruct (to =? s_responded s + 1) eqn:E; auto.
  apply N.eqb_eq in E. f_equal. eapply hist_del_clear_above; eauto.
Qed.

Lemma clear_to_client : forall (s : session) to, s_client (clear_to s to) = s_client s.
Proof.
  intros. unfold clear_to. destruct (to <=? s_responded s); auto.
  destruct (to =? s_responded s + 1); auto.
Qed.

Lemma clear_to_responded : forall (s : session) to,
  s_responded (clear_to s to) = N.max (s_responded s) to.
Proof.
  intros. unfold clear_to. destruct (to <=? s_responded s) eqn:E; [lia|].
  destruct (to =? s_responded s + 1); cbn; lia.
Qed.

Lemma clear_to_above : forall (s : session) to, hist_above s -> hist_above (clear_to s to).
Proof.
  intros s to H. rewrite clear_to_exact by auto. unfold clear_to_spec.
  destruct (to <=? s_responded s); auto.
  unfold hist_above, hist_clear. cbn. apply Forall_forall. intros p Hp.
  apply filter_In in Hp. destruct Hp as [_ Hp]. lia.
Qed.

(* a cached response above the new watermark survives clearTo *)
Lemma clear_to_keeps : forall (s : session) to k r,
  hist_get k (s_history s) = Some r -> to < k ->
  hist_get k (s_history (clear_to s to)) = Some r.
Proof.
  intros s to k r H Hk. unfold clear_to.
  destruct (to <=? s_responded s); auto.
  destruct (to =? s_responded s + 1); cbn.
  - unfold hist_del. rewrite hist_get_filter; auto. intros. cbn. lia.
  - unfold hist_clear. rewrite hist_get_filter; auto. intros. cbn. lia.
Qed.

(* whatever was answered or cached stays answered-or-cached *)
Lemma clear_to_covered : forall (s : session) to k,
  hist_above s ->
  (k <= s_responded s \/ hist_get k (s_history s) <> None) ->
  (k <= s_responded (clear_to s to) \/ hist_get k (s_history (clear_to s to)) <> None).
Proof.
  intros s to k Ha [H|H].
  - left. rewrite clear_to_responded. lia.
  - destruct (k <=? N.max (s_responded s) to) eqn:E.
    + left. rewrite clear_to_responded. lia.
    + right. destruct (hist_get k (s_history s)) as [r|] eqn:G; [|congruence].
      rewrite (clear_to_keeps s to k r G) by lia. discriminate.
Qed.

Lemma clear_to_none : forall (s : session) to k,
  hist_get k (s_history s) = None -> hist_get k (s_history (clear_to s to)) = None.
Proof.
  intros s to k H. unfold clear_to.
  destruct (to <=? s_responded s); auto.
  destruct (to =? s_responded s + 1); cbn; now apply hist_get_filter_none.
Qed.

(* ---------------------------------------------------------------- *)
(* table operations preserve the invariant                           *)

Lemma lru_get_spec : forall c (t : table) s t',
  lru_get c t = Some (s, t') ->
  exists l1 l2, t_list t = l1 ++ s :: l2 /\ t' = mkTable (t_cap t) (s :: l1 ++ l2) /\
                s_client s = c /\ ~ In c (ids l1).
Proof.
  unfold lru_get. intros c t s t' H. destruct (lru_find c (t_list t)) as [[x r]|] eqn:F; [|discriminate].
  inversion H; subst. destruct (lru_find_some _ _ _ _ F) as (l1 & l2 & E1 & -> & Hc & Hn).
  exists l1, l2. auto.
Qed.

Lemma lru_get_none : forall c (t : table), lru_get c t = None <-> find_session c (t_list t) = None.
Proof.
  intros. unfold lru_get, find_session. destruct (lru_find c (t_list t)) as [[? ?]|]; split; congruence.
Qed.

Lemma lru_get_find : forall c (t : table) s t',
  lru_get c t = Some (s, t') -> find_session c (t_list t) = Some s.
Proof.
  unfold lru_get, find_session. intros c t s t' H.
  destruct (lru_find c (t_list t)) as [[x r]|]; [|discriminate]. now inversion H.
Qed.

Lemma length_move : forall {A} (l1 l2 : list A) s, length (s :: l1 ++ l2) = length (l1 ++ s :: l2).
Proof. intros. cbn. rewrite !app_length. cbn. lia. Qed.

Lemma wf_get : forall c (t : table) s t',
  wf_table t -> lru_get c t = Some (s, t') -> wf_table t'.
Proof.
  intros c t s t' [ND LE] H. destruct (lru_get_spec _ _ _ _ H) as (l1 & l2 & E & -> & _ & _).
  rewrite E in *. split; cbn [t_list t_cap].
  - now apply nodup_move_front.
  - rewrite length_move. auto.
Qed.

Lemma forall_get : forall (P : session -> Prop) c (t : table) s t',
  Forall P (t_list t) -> lru_get c t = Some (s, t') -> Forall P (t_list t') /\ P s.
Proof.
  intros P c t s t' HF H. destruct (lru_get_spec _ _ _ _ H) as (l1 & l2 & E & -> & _ & _).
  rewrite E in HF. apply Forall_app in HF. destruct HF as [H1 H2]. inversion H2; subst.
  split; auto. cbn. constructor; auto. apply Forall_app. auto.
Qed.

Lemma wf_add_new : forall c (t : table),
  wf_table t -> find_session c (t_list t) = None -> wf_table (lru_add (new_session c) t).
Proof.
  intros c t [ND LE] H. unfold lru_add. cbn [s_client new_session].
  unfold find_session in H. destruct (lru_find c (t_list t)) as [[? ?]|] eqn:F; [discriminate|].
  split; cbn [t_list t_cap].
  - apply takeN_nodup_ids. cbn. constructor; auto. now apply lru_find_none.
  - apply takeN_length.
Qed.

Lemma set_front_cons : forall (s x : session) l cap,
  set_front s (mkTable cap (x :: l)) = mkTable cap (s :: l).
Proof. reflexivity. Qed.

Lemma step_inv : forall st e, inv st -> inv (fst (step st e)).
Proof.
  intros [t sm] e [WF HA]. unfold Session.step. cbn [st_tab st_sm] in *.
  destruct (classify e); cbn [fst]; try (split; assumption).
  - (* register *)
    unfold register. destruct (lru_get (e_client e) t) as [[s t']|] eqn:G; cbn [fst st_tab].
    + split; [eapply wf_get; eauto|]. eapply forall_get in G; eauto. tauto.
    + split.
      * apply wf_add_new; auto. now apply lru_get_none.
      * unfold lru_add. cbn [s_client new_session]. apply lru_get_none in G.
        unfold find_session in G. destruct (lru_find (e_client e) (t_list t)) as [[? ?]|]; [discriminate|].
        cbn [t_list]. apply takeN_forall. constructor; auto. constructor.
  - (* unregister *)
    unfold unregister. destruct (lru_get (e_client e) t) as [[s t']|] eqn:G; cbn [fst st_tab]; [|split; auto].
    destruct (lru_get_spec _ _ _ _ G) as (l1 & l2 & E & -> & Hc & Hn).
    unfold lru_del. cbn [t_list t_cap]. rewrite <- Hc, lru_find_head. destruct WF as [ND LE]. rewrite E in *.
    split; [split|]; cbn [t_list t_cap st_tab].
    + apply nodup_remove_mid in ND. tauto.
    + rewrite app_length in *. cbn in LE. lia.
    + apply Forall_app in HA. destruct HA as [H1 H2]. inversion H2; subst. apply Forall_app. auto.
  - (* noop session *)
    destruct (sm_update sm (e_cmd e)). cbn. split; auto.
  - (* update *)
    unfold update_session. cbn [st_tab st_sm].
    destruct (lru_get (e_client e) t) as [[s0 t1]|] eqn:G; [|cbn; split; auto].
    pose proof (wf_get _ _ _ _ WF G) as WF1.
    destruct (forall_get _ _ _ _ _ HA G) as [HA1 Hs0].
    destruct (lru_get_spec _ _ _ _ G) as (l1 & l2 & E & -> & Hc & Hn).
    assert (K : forall s' sm0, s_client s' = s_client s0 -> hist_above s' ->
                inv (mkState (set_front s' (mkTable (t_cap t) (s0 :: l1 ++ l2))) sm0)).
    { intros s' sm0 Hc' Ha'. rewrite set_front_cons. destruct WF1 as [ND LE]. cbn [t_list t_cap] in *.
      split; [split|]; cbn [st_tab t_list t_cap]; auto.
      - cbn in *. now rewrite Hc'.
      - inversion HA1; subst. constructor; auto. }
    pose proof (clear_to_above s0 (e_responded e) Hs0) as Ha1.
    pose proof (clear_to_client s0 (e_responded e)) as Hc1.
    destruct (has_responded (clear_to s0 (e_responded e)) (e_series e)) eqn:HR; cbn [fst]; [apply K; auto|].
    destruct (hist_get (e_series e) (s_history (clear_to s0 (e_responded e)))) eqn:HG; cbn [fst]; [apply K; auto|].
    destruct (sm_update sm (e_cmd e)) as [sm' r].
    unfold add_response. rewrite HG. cbn [fst].
    apply K; auto.
    unfold hist_above. cbn. constructor; auto. cbn. unfold has_responded in HR. lia.
Qed.

Lemma run_state_cons : forall st e es, run_state st (e :: es) = run_state (fst (step st e)) es.
Proof.
  intros. unfold Session.run_state. cbn. destruct (step st e) as [st1 o]. cbn.
  destruct (run st1 es). reflexivity.
Qed.

Lemma run_state_nil : forall st, run_state st [] = st.
Proof. reflexivity. Qed.

Lemma run_inv : forall es st, inv st -> inv (run_state st es).
Proof.
  induction es as [|e r IH]; intros st H; [exact H|].
  rewrite run_state_cons. apply IH. now apply step_inv.
Qed.

Lemma init_inv : forall cap (s0 : S), inv (init_state cap s0).
Proof.
  intros. split; [split|]; cbn; [constructor|lia|constructor].
Qed.

(* every cached series id lies above the acknowledged watermark, in every
   reachable state; hence clearTo's `to == RespondedUpTo+1` shortcut is exact *)
Lemma history_above_watermark_proved : forall cap (s0 : S) es s,
  In s (t_list (st_tab (run_state (init_state cap s0) es))) ->
  (forall k r, In (k, r) (s_history s) -> s_responded s < k) /\ (forall to, clear_to s to = clear_to_spec s to).
Proof.
  intros cap s0 es s H. destruct (run_inv es _ (init_inv cap s0)) as [_ HA].
  rewrite Forall_forall in HA. specialize (HA _ H). split.
  - intros k r Hk. unfold hist_above in HA. rewrite Forall_forall in HA. apply (HA _ Hk).
  - intros. now apply clear_to_exact.
Qed.

(* the table never holds two sessions of one client and never exceeds its capacity *)
Lemma table_wf_reachable_proved : forall cap (s0 : S) es,
  let t := st_tab (run_state (init_state cap s0) es) in
  NoDup (ids (t_list t)) /\ N.of_nat (length (t_list t)) <= t_cap t /\ t_cap t = cap.
Proof.
  intros cap s0 es t. destruct (run_inv es _ (init_inv cap s0)) as [[ND LE] _].
  repeat split; auto. subst t. clear ND LE.
  assert (G : forall es st, t_cap (st_tab (run_state st es)) = t_cap (st_tab st)).
  { clear. induction es as [|e r IH]; intros st; auto. rewrite run_state_cons, IH.
    destruct st as [t sm]. unfold Session.step. cbn [st_tab st_sm].
    destruct (classify e); cbn; auto.
    - unfold register, lru_get, lru_add. cbn [s_client new_session].
      destruct (lru_find (e_client e) (t_list t)) as [[? ?]|]; cbn; auto.
    - unfold unregister, lru_get, lru_del.
      destruct (lru_find (e_client e) (t_list t)) as [[? ?]|] eqn:F; cbn; auto.
      destruct (lru_find_some _ _ _ _ F) as (? & ? & _ & _ & <- & _). now rewrite N.eqb_refl.
    - destruct (sm_update sm (e_cmd e)); auto.
    - unfold update_session, lru_get. cbn [st_tab st_sm].
      destruct (lru_find (e_client e) (t_list t)) as [[? ?]|]; cbn; auto.
      destruct (has_responded _ _); cbn; auto.
      destruct (hist_get _ _); cbn; auto.
      destruct (sm_update sm (e_cmd e)). destruct (add_response _ _ _); cbn; auto. }
  apply G.
Qed.

(* a proposal of a client that has no session: Rejected, nothing changes *)
Lemma unknown_session_rejected_untouched_proved : forall st e,
  classify e = KUpdate -> lookup (e_client e) st = None ->
  step st e = (st, ORejected).
Proof.
  intros st e K H. unfold Session.step. rewrite K. unfold update_session.
  apply lru_get_none in H. now rewrite H.
Qed.

(* the user state machine is invoked exactly at OApplied outcomes, with the
   entry's command, and the reported result is the one it returned; session
   managed entries never hit an internal assertion *)
Lemma sm_touched_only_when_applied_proved : forall st e st' o,
  step st e = (st', o) ->
  (st_sm st' = st_sm st /\ (forall r, o <> OApplied r) /\ (o = OPanic -> classify e = KBadUnmanaged)) \/
  (exists r, o = OApplied r /\ sm_update (st_sm st) (e_cmd e) = (st_sm st', r) /\ (classify e = KUpdate \/ classify e = KNoopSession)).
Proof.
  intros [t sm] e st' o. unfold Session.step. cbn [st_tab st_sm].
  destruct (classify e) eqn:K.
  - intros H; inversion H; subst. left. repeat split; auto; discriminate.
  - intros H; inversion H; subst. left. repeat split; auto; discriminate.
  - destruct (register (e_client e) t) as [t' o'] eqn:R. intros H; inversion H; subst. left.
    unfold register in R. destruct (lru_get (e_client e) t) as [[? ?]|]; inversion R; subst;
      repeat split; auto; discriminate.
  - destruct (unregister (e_client e) t) as [t' o'] eqn:R. intros H; inversion H; subst. left.
    unfold unregister in R. destruct (lru_get (e_client e) t) as [[? ?]|]; inversion R; subst;
      repeat split; auto; discriminate.
  - destruct (sm_update sm (e_cmd e)) as [sm' r] eqn:U. intros H; inversion H; subst. right.
    exists r. auto.
  - unfold update_session. cbn [st_tab st_sm].
    destruct (lru_get (e_client e) t) as [[s0 t1]|].
    2:{ intros H; inversion H; subst. left. repeat split; auto; discriminate. }
    destruct (has_responded _ _).
    { intros H; inversion H; subst. left. repeat split; auto; discriminate. }
    destruct (hist_get _ _) eqn:HG.
    { intros H; inversion H; subst. left. repeat split; auto; discriminate. }
    destruct (sm_update sm (e_cmd e)) as [sm' r] eqn:U. unfold add_response. rewrite HG.
    intros H; inversion H; subst. right. exists r. auto.
Qed.

End SessionProofs.
