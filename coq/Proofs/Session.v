(* Proofs/Session.v — lemmas about Model/Session.v (client sessions, C05). *)
From DB Require Import Base.Bytes Gen.GenC05 Model.Session.
From Coq Require Import Permutation.
From Coq Require Import ZifyN ZifyNat ZifyBool.
Ltac Zify.zify_post_hook ::= Z.div_mod_to_equations.
Open Scope N_scope.

Section SessionProofs.
Context {S result : Type}.
Variable sm_update : S -> bytes -> S * result.

Notation session := (@session result).
Notation table := (@table result).
Notation state := (@state S result).
Notation outcome := (@outcome result).
Notation step := (step sm_update).
Notation run := (run sm_update).
Notation run_state := (run_state sm_update).
Notation init_state := (@Session.init_state S result).

(* ---------------------------------------------------------------- *)
(* vocabulary used by the theorems                                   *)

Definition ids (l : list session) : list N := map s_client l.

(* the session a client id maps to (first match = the store lookup) *)
Definition find_session (c : N) (l : list session) : option session :=
  match lru_find c l with Some (s, _) => Some s | None => None end.

Definition lookup (c : N) (st : state) : option session :=
  find_session c (t_list (st_tab st)).

Definition hist_above (s : session) : Prop :=
  Forall (fun p => s_responded s < fst p) (s_history s).

Definition wf_table (t : table) : Prop :=
  NoDup (ids (t_list t)) /\ N.of_nat (length (t_list t)) <= t_cap t.

Definition inv (st : state) : Prop :=
  wf_table (st_tab st) /\ Forall hist_above (t_list (st_tab st)).

(* ---------------------------------------------------------------- *)
(* lru_find                                                          *)

Lemma lru_find_none : forall c (l : list session),
  lru_find c l = None <-> ~ In c (ids l).
Proof.
  induction l as [|s r IH]; cbn.
  - split; auto.
  - destruct (s_client s =? c) eqn:E.
    + apply N.eqb_eq in E. split; [discriminate|]. intros H. exfalso. apply H. now left.
    + apply N.eqb_neq in E. destruct (lru_find c r) as [[x r']|] eqn:F.
      * split; [discriminate|]. intros H. exfalso.
        destruct IH as [_ IH2]. assert (G : Some (x, r') = None) by (apply IH2; intros HI; apply H; now right).
        discriminate.
      * split; auto. intros _ [H|H]; [congruence|]. now apply IH.
Qed.

Lemma lru_find_some : forall c (l : list session) s r,
  lru_find c l = Some (s, r) ->
  exists l1 l2, l = l1 ++ s :: l2 /\ r = l1 ++ l2 /\ s_client s = c /\ ~ In c (ids l1).
Proof.
  induction l as [|x t IH]; cbn; intros s r H; [discriminate|].
  destruct (s_client x =? c) eqn:E.
  - apply N.eqb_eq in E. inversion H; subst. exists [], r. cbn. auto.
  - apply N.eqb_neq in E. destruct (lru_find c t) as [[y r']|] eqn:F; [|discriminate].
    inversion H; subst. destruct (IH _ _ eq_refl) as (l1 & l2 & -> & -> & Hc & Hn).
    exists (x :: l1), l2. cbn. repeat split; auto. intros [G|G]; auto.
Qed.

Lemma lru_find_split : forall c (l1 l2 : list session) s,
  s_client s = c -> ~ In c (ids l1) ->
  lru_find c (l1 ++ s :: l2) = Some (s, l1 ++ l2).
Proof.
  induction l1 as [|x t IH]; cbn; intros l2 s Hc Hn.
  - apply N.eqb_eq in Hc. now rewrite Hc.
  - destruct (s_client x =? c) eqn:E.
    + apply N.eqb_eq in E. exfalso. apply Hn. now left.
    + rewrite IH; auto.
Qed.

Lemma lru_find_head : forall (s : session) r, lru_find (s_client s) (s :: r) = Some (s, r).
Proof. intros. cbn. now rewrite N.eqb_refl. Qed.

Lemma find_session_none : forall c l, find_session c l = None <-> ~ In c (ids l).
Proof.
  intros. unfold find_session. rewrite <- lru_find_none.
  destruct (lru_find c l) as [[? ?]|]; split; congruence.
Qed.

Lemma find_session_client : forall c l s, find_session c l = Some s -> s_client s = c.
Proof.
  unfold find_session. intros c l s H. destruct (lru_find c l) as [[x r]|] eqn:F; [|discriminate].
  inversion H; subst. destruct (lru_find_some _ _ _ _ F) as (? & ? & _ & _ & ? & _). auto.
Qed.

Lemma find_session_in : forall c l s, find_session c l = Some s -> In s l.
Proof.
  unfold find_session. intros c l s H. destruct (lru_find c l) as [[x r]|] eqn:F; [|discriminate].
  inversion H; subst. destruct (lru_find_some _ _ _ _ F) as (l1 & l2 & -> & _).
  apply in_or_app. right. now left.
Qed.

Lemma find_session_cons : forall c (x : session) l,
  find_session c (x :: l) = if s_client x =? c then Some x else find_session c l.
Proof.
  intros. unfold find_session. cbn. destruct (s_client x =? c); auto.
  destruct (lru_find c l) as [[? ?]|]; auto.
Qed.

Lemma find_session_app_notin : forall c l1 l2,
  ~ In c (ids l1) -> find_session c (l1 ++ l2) = find_session c l2.
Proof.
  induction l1 as [|x t IH]; cbn; intros l2 H; auto.
  rewrite find_session_cons. destruct (s_client x =? c) eqn:E.
  - apply N.eqb_eq in E. exfalso. apply H. now left.
  - apply IH. intros G. apply H. now right.
Qed.

Lemma find_session_app_in : forall c l1 l2 s,
  find_session c l1 = Some s -> find_session c (l1 ++ l2) = Some s.
Proof.
  induction l1 as [|x t IH]; cbn; intros l2 s H; [discriminate|].
  rewrite find_session_cons in *. destruct (s_client x =? c); auto.
Qed.

(* moving the found element to the front does not change any lookup, provided
   ids are unique *)
Lemma ids_app : forall l1 l2 : list session, ids (l1 ++ l2) = ids l1 ++ ids l2.
Proof. intros. unfold ids. apply map_app. Qed.

Lemma nodup_move_front : forall (l1 l2 : list session) s,
  NoDup (ids (l1 ++ s :: l2)) -> NoDup (ids (s :: l1 ++ l2)).
Proof.
  intros. unfold ids in *. rewrite map_app in H. cbn in *. rewrite map_app.
  eapply Permutation_NoDup; [|exact H].
  symmetry. apply Permutation_middle.
Qed.

Lemma nodup_remove_mid : forall (l1 l2 : list session) s,
  NoDup (ids (l1 ++ s :: l2)) -> NoDup (ids (l1 ++ l2)) /\ ~ In (s_client s) (ids (l1 ++ l2)).
Proof.
  intros. apply nodup_move_front in H. cbn in H. inversion H; subst. auto.
Qed.

Lemma find_session_move_front : forall d (l1 l2 : list session) s,
  NoDup (ids (l1 ++ s :: l2)) ->
  find_session d (s :: l1 ++ l2) = find_session d (l1 ++ s :: l2).
Proof.
  intros d l1 l2 s ND. rewrite find_session_cons.
  destruct (s_client s =? d) eqn:E.
  - apply N.eqb_eq in E. destruct (nodup_remove_mid _ _ _ ND) as [_ Hn].
    rewrite ids_app in Hn. rewrite find_session_app_notin.
    + rewrite find_session_cons. apply N.eqb_eq in E. now rewrite E.
    + intros G. apply Hn. apply in_or_app. left. now rewrite E.
  - clear ND. induction l1 as [|x t IH]; cbn.
    + rewrite find_session_cons. now rewrite E.
    + rewrite !find_session_cons. destruct (s_client x =? d); auto.
Qed.

(* ---------------------------------------------------------------- *)
(* takeN                                                             *)

Lemma takeN_length : forall {A} (l : list A) n, N.of_nat (length (takeN n l)) <= n.
Proof.
  induction l as [|x r IH]; cbn; intros n; [lia|].
  destruct (n =? 0) eqn:E; cbn; [lia|].
  apply N.eqb_neq in E. specialize (IH (N.pred n)). lia.
Qed.

Lemma takeN_all : forall {A} (l : list A) n, N.of_nat (length l) <= n -> takeN n l = l.
Proof.
  induction l as [|x r IH]; cbn; intros n H; auto.
  destruct (n =? 0) eqn:E.
  - apply N.eqb_eq in E. lia.
  - f_equal. apply IH. lia.
Qed.

Lemma takeN_prefix : forall {A} (l : list A) n, exists t, l = takeN n l ++ t.
Proof.
  induction l as [|x r IH]; cbn; intros n.
  - exists []. auto.
  - destruct (n =? 0).
    + exists (x :: r). auto.
    + destruct (IH (N.pred n)) as [t Ht]. exists t. cbn. now rewrite <- Ht.
Qed.

Lemma nodup_app_l : forall {A} (a b : list A), NoDup (a ++ b) -> NoDup a.
Proof.
  induction a as [|x r IH]; cbn; intros b H; [constructor|].
  inversion H; subst. constructor.
  - intros G. apply H2. apply in_or_app. now left.
  - eapply IH; eauto.
Qed.

Lemma takeN_nodup_ids : forall (l : list session) n, NoDup (ids l) -> NoDup (ids (takeN n l)).
Proof.
  intros l n H. destruct (takeN_prefix l n) as [t Ht]. rewrite Ht in H.
  rewrite ids_app in H. eapply nodup_app_l; eauto.
Qed.

Lemma takeN_forall : forall {A} (P : A -> Prop) (l : list A) n, Forall P l -> Forall P (takeN n l).
Proof.
  intros A P l n H. destruct (takeN_prefix l n) as [t Ht]. rewrite Ht in H.
  apply Forall_app in H. tauto.
Qed.

Lemma find_session_takeN : forall c (l : list session) n s,
  find_session c (takeN n l) = Some s -> find_session c l = Some s.
Proof.
  intros c l n s H. destruct (takeN_prefix l n) as [t Ht]. rewrite Ht.
  now apply find_session_app_in.
Qed.

(* ---------------------------------------------------------------- *)
(* session history                                                   *)

Lemma hist_get_in : forall k (h : list (N * result)) r, hist_get k h = Some r -> In (k, r) h.
Proof.
  induction h as [|[k' r'] t IH]; cbn; intros r H; [discriminate|].
  destruct (k' =? k) eqn:E.
  - apply N.eqb_eq in E. inversion H; subst. now left.
  - right. auto.
Qed.

Lemma hist_get_filter : forall k (f : N * result -> bool) (h : list (N * result)),
  (forall r, f (k, r) = true) -> hist_get k (filter f h) = hist_get k h.
Proof.
  induction h as [|[k' r'] t IH]; cbn; intros Hf; auto.
  destruct (f (k', r')) eqn:F; cbn.
  - destruct (k' =? k); auto.
  - destruct (k' =? k) eqn:E; auto. apply N.eqb_eq in E. subst. rewrite Hf in F. discriminate.
Qed.

Lemma hist_get_filter_none : forall k (f : N * result -> bool) (h : list (N * result)),
  hist_get k h = None -> hist_get k (filter f h) = None.
Proof.
  induction h as [|[k' r'] t IH]; cbn; intros H; auto.
  destruct (k' =? k) eqn:E; [discriminate|].
  destruct (f (k', r')); cbn; auto. rewrite E. auto.
Qed.

(* the canonical meaning of clearTo: watermark := max, drop everything <= to *)
Definition clear_to_spec (s : session) (to : N) : session :=
  if to <=? s_responded s then s
  else mkSession (s_client s) to (hist_clear to (s_history s)).

Lemma hist_del_clear_above : forall to w (h : list (N * result)),
  Forall (fun p => w < fst p) h -> to = w + 1 -> hist_del to h = hist_clear to h.
Proof.
  intros to w h H ->. unfold hist_del, hist_clear. induction H as [|[k r] t Hk Ht IH]; cbn; auto.
  cbn in Hk. rewrite IH.
  destruct (k =? w + 1) eqn:E1; destruct (w + 1 <? k) eqn:E2; cbn; auto; lia.
Qed.

Lemma clear_to_exact : forall (s : session) to, hist_above s -> clear_to s to = clear_to_spec s to.
Proof.
  intros s to H. unfold clear_to, clear_to_spec.
  destruct (to <=? s_responded s); auto.
  destruct (to =? s_responded s + 1) eqn:E; auto.
  apply N.eqb_eq in E. f_equal. eapply hist_del_clear_above; eauto.
Qed.

Lemma clear_to_client : forall (s : session) to, s_client (clear_to s to) = s_client s.
Proof.
  intros. unfold clear_to. destruct (to <=? s_responded s); auto.
  destruct (to =? s_responded s + 1); auto.
Qed.

Lemma clear_to_responded : forall (s : session) to,
  s_responded (clear_to s to) = N.max (s_responded s) to.
Proof.
  intros. unfold clear_to. destruct (to <=? s_responded s) eqn:E; [lia|].
  destruct (to =? s_responded s + 1); cbn; lia.
Qed.

Lemma clear_to_above : forall (s : session) to, hist_above s -> hist_above (clear_to s to).
Proof.
  intros s to H. rewrite clear_to_exact by auto. unfold clear_to_spec.
  destruct (to <=? s_responded s); auto.
  unfold hist_above, hist_clear. cbn. apply Forall_forall. intros p Hp.
  apply filter_In in Hp. destruct Hp as [_ Hp]. lia.
Qed.

(* a cached response above the new watermark survives clearTo *)
Lemma clear_to_keeps : forall (s : session) to k r,
  hist_get k (s_history s) = Some r -> to < k ->
  hist_get k (s_history (clear_to s to)) = Some r.
Proof.
  intros s to k r H Hk. unfold clear_to.
  destruct (to <=? s_responded s); auto.
  destruct (to =? s_responded s + 1); cbn.
  - unfold hist_del. rewrite hist_get_filter; auto. intros. cbn. lia.
  - unfold hist_clear. rewrite hist_get_filter; auto. intros. cbn. lia.
Qed.

(* whatever was answered or cached stays answered-or-cached *)
Lemma clear_to_covered : forall (s : session) to k,
  hist_above s ->
  (k <= s_responded s \/ hist_get k (s_history s) <> None) ->
  (k <= s_responded (clear_to s to) \/ hist_get k (s_history (clear_to s to)) <> None).
Proof.
  intros s to k Ha [H|H].
  - left. rewrite clear_to_responded. lia.
  - destruct (k <=? N.max (s_responded s) to) eqn:E.
    + left. rewrite clear_to_responded. lia.
    + right. destruct (hist_get k (s_history s)) as [r|] eqn:G; [|congruence].
      rewrite (clear_to_keeps s to k r G) by lia. discriminate.
Qed.

Lemma clear_to_none : forall (s : session) to k,
  hist_get k (s_history s) = None -> hist_get k (s_history (clear_to s to)) = None.
Proof.
  intros s to k H. unfold clear_to.
  destruct (to <=? s_responded s); auto.
  destruct (to =? s_responded s + 1); cbn; now apply hist_get_filter_none.
Qed.

(* ---------------------------------------------------------------- *)
(* table operations preserve the invariant                           *)

Lemma lru_get_spec : forall c (t : table) s t',
  lru_get c t = Some (s, t') ->
  exists l1 l2, t_list t = l1 ++ s :: l2 /\ t' = mkTable (t_cap t) (s :: l1 ++ l2) /\
                s_client s = c /\ ~ In c (ids l1).
Proof.
  unfold lru_get. intros c t s t' H. destruct (lru_find c (t_list t)) as [[x r]|] eqn:F; [|discriminate].
  inversion H; subst. destruct (lru_find_some _ _ _ _ F) as (l1 & l2 & E1 & -> & Hc & Hn).
  exists l1, l2. auto.
Qed.

Lemma lru_get_none : forall c (t : table), lru_get c t = None <-> find_session c (t_list t) = None.
Proof.
  intros. unfold lru_get, find_session. destruct (lru_find c (t_list t)) as [[? ?]|]; split; congruence.
Qed.

Lemma lru_get_find : forall c (t : table) s t',
  lru_get c t = Some (s, t') -> find_session c (t_list t) = Some s.
Proof.
  unfold lru_get, find_session. intros c t s t' H.
  destruct (lru_find c (t_list t)) as [[x r]|]; [|discriminate]. now inversion H.
Qed.

Lemma length_move : forall {A} (l1 l2 : list A) s, length (s :: l1 ++ l2) = length (l1 ++ s :: l2).
Proof. intros. cbn. rewrite !app_length. cbn. lia. Qed.

Lemma wf_get : forall c (t : table) s t',
  wf_table t -> lru_get c t = Some (s, t') -> wf_table t'.
Proof.
  intros c t s t' [ND LE] H. destruct (lru_get_spec _ _ _ _ H) as (l1 & l2 & E & -> & _ & _).
  rewrite E in *. split; cbn [t_list t_cap].
  - now apply nodup_move_front.
  - rewrite length_move. auto.
Qed.

Lemma forall_get : forall (P : session -> Prop) c (t : table) s t',
  Forall P (t_list t) -> lru_get c t = Some (s, t') -> Forall P (t_list t') /\ P s.
Proof.
  intros P c t s t' HF H. destruct (lru_get_spec _ _ _ _ H) as (l1 & l2 & E & -> & _ & _).
  rewrite E in HF. apply Forall_app in HF. destruct HF as [H1 H2]. inversion H2; subst.
  split; auto. cbn. constructor; auto. apply Forall_app. auto.
Qed.

Lemma wf_add_new : forall c (t : table),
  wf_table t -> find_session c (t_list t) = None -> wf_table (lru_add (new_session c) t).
Proof.
  intros c t [ND LE] H. unfold lru_add. cbn [s_client new_session].
  unfold find_session in H. destruct (lru_find c (t_list t)) as [[? ?]|] eqn:F; [discriminate|].
  split; cbn [t_list t_cap].
  - apply takeN_nodup_ids. cbn. constructor; auto. now apply lru_find_none.
  - apply takeN_length.
Qed.

Lemma set_front_cons : forall (s x : session) l cap,
  set_front s (mkTable cap (x :: l)) = mkTable cap (s :: l).
Proof. reflexivity. Qed.

Lemma step_inv : forall st e, inv st -> inv (fst (step st e)).
Proof.
  intros [t sm] e [WF HA]. unfold Session.step. cbn [st_tab st_sm] in *.
  destruct (classify e); cbn [fst]; try (split; assumption).
  - (* register *)
    unfold register. destruct (lru_get (e_client e) t) as [[s t']|] eqn:G; cbn [fst st_tab].
    + split; [eapply wf_get; eauto|]. eapply forall_get in G; eauto. tauto.
    + split.
      * apply wf_add_new; auto. now apply lru_get_none.
      * unfold lru_add. cbn [s_client new_session]. apply lru_get_none in G.
        unfold find_session in G. destruct (lru_find (e_client e) (t_list t)) as [[? ?]|]; [discriminate|].
        cbn [t_list]. apply takeN_forall. constructor; auto. constructor.
  - (* unregister *)
    unfold unregister. destruct (lru_get (e_client e) t) as [[s t']|] eqn:G; cbn [fst st_tab]; [|split; auto].
    destruct (lru_get_spec _ _ _ _ G) as (l1 & l2 & E & -> & Hc & Hn).
    unfold lru_del. cbn [t_list t_cap]. rewrite <- Hc, lru_find_head. destruct WF as [ND LE]. rewrite E in *.
    split; [split|]; cbn [t_list t_cap st_tab].
    + apply nodup_remove_mid in ND. tauto.
    + rewrite app_length in *. cbn in LE. lia.
    + apply Forall_app in HA. destruct HA as [H1 H2]. inversion H2; subst. apply Forall_app. auto.
  - (* noop session *)
    destruct (sm_update sm (e_cmd e)). cbn. split; auto.
  - (* update *)
    unfold update_session. cbn [st_tab st_sm].
    destruct (lru_get (e_client e) t) as [[s0 t1]|] eqn:G; [|cbn; split; auto].
    pose proof (wf_get _ _ _ _ WF G) as WF1.
    destruct (forall_get _ _ _ _ _ HA G) as [HA1 Hs0].
    destruct (lru_get_spec _ _ _ _ G) as (l1 & l2 & E & -> & Hc & Hn).
    assert (K : forall s' sm0, s_client s' = s_client s0 -> hist_above s' ->
                inv (mkState (set_front s' (mkTable (t_cap t) (s0 :: l1 ++ l2))) sm0)).
    { intros s' sm0 Hc' Ha'. rewrite set_front_cons. destruct WF1 as [ND LE]. cbn [t_list t_cap] in *.
      split; [split|]; cbn [st_tab t_list t_cap]; auto.
      - cbn in *. now rewrite Hc'.
      - inversion HA1; subst. constructor; auto. }
    pose proof (clear_to_above s0 (e_responded e) Hs0) as Ha1.
    pose proof (clear_to_client s0 (e_responded e)) as Hc1.
    destruct (has_responded (clear_to s0 (e_responded e)) (e_series e)) eqn:HR; cbn [fst]; [apply K; auto|].
    destruct (hist_get (e_series e) (s_history (clear_to s0 (e_responded e)))) eqn:HG; cbn [fst]; [apply K; auto|].
    destruct (sm_update sm (e_cmd e)) as [sm' r].
    unfold add_response. rewrite HG. cbn [fst].
    apply K; auto.
    unfold hist_above. cbn. constructor; auto. cbn. unfold has_responded in HR. lia.
Qed.

Lemma run_state_cons : forall st e es, run_state st (e :: es) = run_state (fst (step st e)) es.
Proof.
  intros. unfold Session.run_state. cbn. destruct (step st e) as [st1 o]. cbn.
  destruct (run st1 es). reflexivity.
Qed.

Lemma run_state_nil : forall st, run_state st [] = st.
Proof. reflexivity. Qed.

Lemma run_inv : forall es st, inv st -> inv (run_state st es).
Proof.
  induction es as [|e r IH]; intros st H; [exact H|].
  rewrite run_state_cons. apply IH. now apply step_inv.
Qed.

Lemma init_inv : forall cap (s0 : S), inv (init_state cap s0).
Proof.
  intros. split; [split|]; cbn; [constructor|lia|constructor].
Qed.

Lemma inv_reachable_proved : forall cap (s0 : S) es, inv (run_state (init_state cap s0) es).
Proof. intros. apply run_inv, init_inv. Qed.

(* every cached series id lies above the acknowledged watermark, in every
   reachable state; hence clearTo's `to == RespondedUpTo+1` shortcut is exact *)
Lemma history_above_watermark_proved : forall cap (s0 : S) es s,
  In s (t_list (st_tab (run_state (init_state cap s0) es))) ->
  (forall k r, In (k, r) (s_history s) -> s_responded s < k) /\ (forall to, clear_to s to = clear_to_spec s to).
Proof.
  intros cap s0 es s H. destruct (run_inv es _ (init_inv cap s0)) as [_ HA].
  rewrite Forall_forall in HA. specialize (HA _ H). split.
  - intros k r Hk. unfold hist_above in HA. rewrite Forall_forall in HA. apply (HA _ Hk).
  - intros. now apply clear_to_exact.
Qed.

(* the table never holds two sessions of one client and never exceeds its capacity *)
Lemma table_wf_reachable_proved : forall cap (s0 : S) es,
  let t := st_tab (run_state (init_state cap s0) es) in
  NoDup (ids (t_list t)) /\ N.of_nat (length (t_list t)) <= t_cap t /\ t_cap t = cap.
Proof.
  intros cap s0 es t. destruct (run_inv es _ (init_inv cap s0)) as [[ND LE] _].
  repeat split; auto. subst t. clear ND LE.
  assert (G : forall es st, t_cap (st_tab (run_state st es)) = t_cap (st_tab st)).
  { clear. induction es as [|e r IH]; intros st; auto. rewrite run_state_cons, IH.
    destruct st as [t sm]. unfold Session.step. cbn [st_tab st_sm].
    destruct (classify e); cbn; auto.
    - unfold register, lru_get, lru_add. cbn [s_client new_session].
      destruct (lru_find (e_client e) (t_list t)) as [[? ?]|]; cbn; auto.
    - unfold unregister, lru_get, lru_del.
      destruct (lru_find (e_client e) (t_list t)) as [[? ?]|] eqn:F; cbn; auto.
      destruct (lru_find_some _ _ _ _ F) as (? & ? & _ & _ & <- & _). now rewrite N.eqb_refl.
    - destruct (sm_update sm (e_cmd e)); auto.
    - unfold update_session, lru_get. cbn [st_tab st_sm].
      destruct (lru_find (e_client e) (t_list t)) as [[? ?]|]; cbn; auto.
      destruct (has_responded _ _); cbn; auto.
      destruct (hist_get _ _); cbn; auto.
      destruct (sm_update sm (e_cmd e)). destruct (add_response _ _ _); cbn; auto. }
  apply G.
Qed.

(* a proposal of a client that has no session: Rejected, nothing changes *)
Lemma unknown_session_rejected_untouched_proved : forall st e,
  classify e = KUpdate -> lookup (e_client e) st = None ->
  step st e = (st, ORejected).
Proof.
  intros st e K H. unfold Session.step. rewrite K. unfold update_session.
  apply lru_get_none in H. now rewrite H.
Qed.

(* the user state machine is invoked exactly at OApplied outcomes, with the
   entry's command, and the reported result is the one it returned; session
   managed entries never hit an internal assertion *)
Lemma sm_touched_only_when_applied_proved : forall st e st' o,
  step st e = (st', o) ->
  (st_sm st' = st_sm st /\ (forall r, o <> OApplied r) /\ (o = OPanic -> classify e = KBadUnmanaged)) \/
  (exists r, o = OApplied r /\ sm_update (st_sm st) (e_cmd e) = (st_sm st', r) /\ (classify e = KUpdate \/ classify e = KNoopSession)).
Proof.
  intros [t sm] e st' o. unfold Session.step. cbn [st_tab st_sm].
  destruct (classify e) eqn:K.
  - intros H; inversion H; subst. left. repeat split; auto; discriminate.
  - intros H; inversion H; subst. left. repeat split; auto; discriminate.
  - destruct (register (e_client e) t) as [t' o'] eqn:R. intros H; inversion H; subst. left.
    unfold register in R. destruct (lru_get (e_client e) t) as [[? ?]|]; inversion R; subst;
      repeat split; auto; discriminate.
  - destruct (unregister (e_client e) t) as [t' o'] eqn:R. intros H; inversion H; subst. left.
    unfold unregister in R. destruct (lru_get (e_client e) t) as [[? ?]|]; inversion R; subst;
      repeat split; auto; discriminate.
  - destruct (sm_update sm (e_cmd e)) as [sm' r] eqn:U. intros H; inversion H; subst. right.
    exists r. auto.
  - unfold update_session. cbn [st_tab st_sm].
    destruct (lru_get (e_client e) t) as [[s0 t1]|].
    2:{ intros H; inversion H; subst. left. repeat split; auto; discriminate. }
    destruct (has_responded _ _).
    { intros H; inversion H; subst. left. repeat split; auto; discriminate. }
    destruct (hist_get _ _) eqn:HG.
    { intros H; inversion H; subst. left. repeat split; auto; discriminate. }
    destruct (sm_update sm (e_cmd e)) as [sm' r] eqn:U. unfold add_response. rewrite HG.
    intros H; inversion H; subst. right. exists r. auto.
Qed.

(* ---------------------------------------------------------------- *)
(* save / load                                                       *)

Lemma nodup_ids_rotate : forall (a b : list session) x,
  NoDup (ids ((a ++ [x]) ++ b)) -> NoDup (ids (a ++ x :: b)).
Proof. intros a b x H. now rewrite <- app_assoc in H. Qed.

Lemma save_walk_gen : forall (a b out : list session),
  NoDup (ids (a ++ b)) ->
  save_walk (map s_client (rev a)) (b ++ a) out = Some (out ++ rev a, a ++ b).
Proof.
  induction a as [|x a' IH] using rev_ind; intros b out ND.
  - cbn. now rewrite !app_nil_r.
  - rewrite rev_app_distr. cbn [rev app map save_walk].
    rewrite <- app_assoc in ND. cbn [app] in ND.
    assert (F : lru_find (s_client x) (b ++ a' ++ [x]) = Some (x, b ++ a')).
    { rewrite app_assoc. replace (b ++ a') with ((b ++ a') ++ []) at 2 by apply app_nil_r.
      apply lru_find_split; auto.
      apply nodup_remove_mid in ND. destruct ND as [_ Hn]. rewrite ids_app in *.
      intros G. apply Hn. apply in_app_or in G. apply in_or_app. tauto. }
    rewrite F. specialize (IH (x :: b) (out ++ [x])). cbn [app] in IH. rewrite IH; auto.
    now rewrite <- !app_assoc.
Qed.

(* saving walks the table through Get, yet leaves its order exactly as it was,
   and writes the sessions least-recently-used first *)
Lemma save_preserves_order_proved : forall (t : table),
  NoDup (ids (t_list t)) ->
  save t = Some ((t_cap t, rev (t_list t)), t).
Proof.
  intros [cap l] ND. unfold save. cbn [t_list t_cap] in *.
  pose proof (save_walk_gen l [] [] ) as H. cbn [app] in H. rewrite app_nil_r in H.
  rewrite H; auto.
Qed.

Lemma load_gen : forall cap (a b : list session),
  NoDup (ids (a ++ b)) -> N.of_nat (length (a ++ b)) <= cap ->
  fold_left (fun t s => lru_add s t) (rev a) (mkTable cap b) = mkTable cap (a ++ b).
Proof.
  induction a as [|x a' IH] using rev_ind; intros b ND LE; [reflexivity|].
  rewrite rev_app_distr. cbn [rev app fold_left].
  rewrite <- app_assoc in ND, LE. cbn [app] in ND, LE.
  assert (A : lru_add x (mkTable cap b) = mkTable cap (x :: b)).
  { unfold lru_add. cbn [t_list t_cap].
    assert (Fn : lru_find (s_client x) b = None).
    { apply lru_find_none. apply nodup_remove_mid in ND. destruct ND as [_ Hn].
      rewrite ids_app in Hn. intros G. apply Hn. apply in_or_app. now right. }
    rewrite Fn. f_equal. apply takeN_all. rewrite app_length in LE. cbn in *. lia. }
  rewrite A, IH; auto. now rewrite <- app_assoc.
Qed.

(* loading what save wrote rebuilds the same table: same sessions, same LRU
   order (hence the same future eviction victims), same capacity *)
Lemma load_save_id_proved : forall (t : table) sv t',
  NoDup (ids (t_list t)) -> N.of_nat (length (t_list t)) <= t_cap t -> 0 < t_cap t ->
  save t = Some (sv, t') -> t' = t /\ load sv = Some t.
Proof.
  intros [cap l] sv t' ND LE POS H. rewrite save_preserves_order_proved in H by auto.
  inversion H; subst. split; auto. unfold load. cbn [fst snd t_cap t_list] in *.
  destruct (cap =? 0) eqn:E; [lia|]. f_equal. unfold empty_table.
  pose proof (load_gen cap l []) as G. rewrite app_nil_r in G. apply G; auto.
Qed.

(* ---------------------------------------------------------------- *)
(* at most once                                                      *)

(* Ghost instrumentation (specification only; the model has no such state):
   a user-SM invocation caused by a session-managed proposal is tagged with
   (client id, registration epoch of that client, series id), where the epoch
   counts the successful registrations of that client id so far. *)
Definition tag : Type := (N * nat * N)%type.

Definition bump (ep : N -> nat) (c : N) : N -> nat :=
  fun x => if x =? c then Datatypes.S (ep x) else ep x.

Fixpoint tagged_calls (ep : N -> nat) (st : state) (es : list entry) : list tag :=
  match es with
  | [] => []
  | e :: r =>
    let (st', o) := step st e in
    match o with
    | ORegistered c => tagged_calls (bump ep c) st' r
    | OApplied _ =>
      match classify e with
      | KUpdate => (e_client e, ep (e_client e), e_series e) :: tagged_calls ep st' r
      | _ => tagged_calls ep st' r
      end
    | _ => tagged_calls ep st' r
    end
  end.

Definition sm_calls_tagged (cap : N) (s0 : S) (es : list entry) : list tag :=
  tagged_calls (fun _ => 0%nat) (init_state cap s0) es.

Definition covered (s : session) (k : N) : Prop :=
  k <= s_responded s \/ hist_get k (s_history s) <> None.

Definition ginv (st : state) (ep : N -> nat) (tr : list tag) : Prop :=
  (forall c e k, In (c, e, k) tr -> (e <= ep c)%nat) /\
  (forall s, In s (t_list (st_tab st)) ->
     forall k, In (s_client s, ep (s_client s), k) tr -> covered s k).

Lemma ginv_same_elems : forall (st st' : state) ep tr,
  (forall s, In s (t_list (st_tab st')) -> In s (t_list (st_tab st))) ->
  ginv st ep tr -> ginv st' ep tr.
Proof. intros st st' ep tr H [A B]. split; auto. Qed.

Lemma in_ids : forall (s : session) l, In s l -> In (s_client s) (ids l).
Proof. intros. unfold ids. now apply in_map. Qed.

Definition step_ginv_post (e : entry) (o : outcome) (st' : state) ep tr : Prop :=
  match o with
  | ORegistered c => ginv st' (bump ep c) tr
  | OApplied _ =>
    match classify e with
    | KUpdate => ~ In (e_client e, ep (e_client e), e_series e) tr /\
                 ginv st' ep ((e_client e, ep (e_client e), e_series e) :: tr)
    | _ => ginv st' ep tr
    end
  | _ => ginv st' ep tr
  end.

Lemma step_ginv : forall st e st' o ep tr,
  inv st -> ginv st ep tr -> step st e = (st', o) -> step_ginv_post e o st' ep tr.
Proof.
  intros [t sm] e st' o ep tr [[ND LE] HA] GI. unfold Session.step. cbn [st_tab st_sm] in *.
  destruct (classify e) eqn:K.
  - intros H; inversion H; subst. exact GI.
  - intros H; inversion H; subst. exact GI.
  - (* register *)
    unfold register. destruct (lru_get (e_client e) t) as [[s t']|] eqn:G; intros H; inversion H; subst; cbn.
    + eapply ginv_same_elems; [|exact GI]. cbn [st_tab].
      destruct (lru_get_spec _ _ _ _ G) as (l1 & l2 & E & -> & _ & _). rewrite E. cbn [t_list].
      intros x [Hx|Hx]; [subst; apply in_or_app; right; now left|].
      apply in_app_or in Hx. apply in_or_app. destruct Hx; [now left|right; now right].
    + apply lru_get_none in G. pose proof G as G'. apply find_session_none in G'.
      destruct GI as [A B]. split.
      * intros c e0 k Hin. specialize (A _ _ _ Hin). unfold bump. destruct (c =? e_client e); lia.
      * cbn [st_tab]. unfold lru_add. cbn [s_client new_session]. unfold find_session in G.
        destruct (lru_find (e_client e) (t_list t)) as [[? ?]|]; [discriminate|]. cbn [t_list].
        intros s Hs k Hk. destruct (takeN_prefix (new_session (e_client e) :: t_list t) (t_cap t)) as [tl Ht].
        assert (Hs' : In s (new_session (e_client e) :: t_list t)) by (rewrite Ht; apply in_or_app; now left).
        destruct Hs' as [<-|Hs'].
        -- cbn [s_client new_session] in Hk. unfold bump in Hk. rewrite N.eqb_refl in Hk.
           specialize (A _ _ _ Hk). lia.
        -- assert (s_client s <> e_client e) by (intros Q; apply G'; rewrite <- Q; now apply in_ids).
           unfold bump in Hk. destruct (s_client s =? e_client e) eqn:Q; [apply N.eqb_eq in Q; congruence|].
           eapply B; eauto.
  - (* unregister *)
    unfold unregister. destruct (lru_get (e_client e) t) as [[s t']|] eqn:G; intros H; inversion H; subst; cbn; [|exact GI].
    eapply ginv_same_elems; [|exact GI]. cbn [st_tab].
    destruct (lru_get_spec _ _ _ _ G) as (l1 & l2 & E & -> & Hc & _). rewrite E.
    unfold lru_del. cbn [t_list t_cap]. rewrite <- Hc, lru_find_head. cbn [t_list].
    intros x Hx. apply in_app_or in Hx. apply in_or_app. destruct Hx; [now left|right; now right].
  - (* noop session *)
    destruct (sm_update sm (e_cmd e)) as [sm' r]. intros H; inversion H; subst. cbn. rewrite K. exact GI.
  - (* update *)
    unfold update_session. cbn [st_tab st_sm].
    destruct (lru_get (e_client e) t) as [[s0 t1]|] eqn:G; [|intros H; inversion H; subst; exact GI].
    destruct (lru_get_spec _ _ _ _ G) as (l1 & l2 & E & -> & Hc & Hn).
    rewrite E in ND, HA. destruct GI as [A B]. cbn [st_tab] in B. rewrite E in B.
    assert (Hs0 : hist_above s0) by (apply Forall_app in HA; destruct HA as [_ HA]; now inversion HA).
    assert (B0 : forall k, In (e_client e, ep (e_client e), k) tr -> covered s0 k).
    { intros k Hk. apply (B s0); [apply in_or_app; right; now left| now rewrite Hc]. }
    assert (Bo : forall s, In s (l1 ++ l2) -> s_client s <> e_client e /\
                   forall k, In (s_client s, ep (s_client s), k) tr -> covered s k).
    { intros s Hs. split.
      - apply nodup_remove_mid in ND. destruct ND as [_ Hnn]. intros Q. apply Hnn. rewrite Hc, <- Q. now apply in_ids.
      - apply B. apply in_app_or in Hs. apply in_or_app. destruct Hs; [now left|right; now right]. }
    set (s1 := clear_to s0 (e_responded e)) in *.
    assert (B1 : forall k, covered s0 k -> covered s1 k) by (intros; now apply clear_to_covered).
    assert (Hc1 : s_client s1 = e_client e) by (subst s1; now rewrite clear_to_client).
    (* outcomes that leave tr unchanged: the front becomes s1 *)
    assert (KEEP : forall sm0, ginv (mkState (set_front s1 (mkTable (t_cap t) (s0 :: l1 ++ l2))) sm0) ep tr).
    { intros sm0. rewrite set_front_cons. split; auto. cbn [st_tab t_list].
      intros s [<-|Hs] k Hk.
      - rewrite Hc1 in Hk. auto.
      - destruct (Bo s Hs) as [_ Q]. auto. }
    destruct (has_responded s1 (e_series e)) eqn:HR; [intros H; inversion H; subst; apply KEEP|].
    destruct (hist_get (e_series e) (s_history s1)) eqn:HG; [intros H; inversion H; subst; apply KEEP|].
    destruct (sm_update sm (e_cmd e)) as [sm' r]. unfold add_response. rewrite HG.
    intros H; inversion H; subst. unfold step_ginv_post. rewrite K. split.
    + intros Hin. destruct (B1 _ (B0 _ Hin)) as [Q|Q].
      * unfold has_responded in HR. lia.
      * congruence.
    + rewrite set_front_cons. split.
      * intros c e0 k [Q|Q]; [inversion Q; subst; lia|eauto].
      * cbn [st_tab t_list s_client].
        intros s [<-|Hs] k Hk; cbn [s_client s_responded s_history] in *.
        -- rewrite Hc1 in Hk. destruct Hk as [Q|Q].
           ++ inversion Q; subst. right. cbn. rewrite N.eqb_refl. discriminate.
           ++ destruct (B1 _ (B0 _ Q)) as [W|W]; [now left|right].
              cbn [s_history hist_get]. destruct (e_series e =? k); [discriminate|exact W].
        -- destruct (Bo s Hs) as [Q1 Q2]. destruct Hk as [Q|Q]; [inversion Q; congruence|auto].
Qed.

Lemma tagged_calls_fresh : forall es st ep tr,
  inv st -> ginv st ep tr ->
  NoDup (tagged_calls ep st es) /\ (forall x, In x (tagged_calls ep st es) -> ~ In x tr).
Proof.
  induction es as [|e r IH]; intros st ep tr I GI; [split; [constructor|intros ? []]|].
  cbn [tagged_calls]. destruct (step st e) as [st' o] eqn:ST.
  pose proof (step_ginv _ _ _ _ _ _ I GI ST) as P.
  assert (I' : inv st') by (replace st' with (fst (step st e)) by (now rewrite ST); now apply step_inv).
  unfold step_ginv_post in P.
  destruct o; try (apply IH; assumption).
  destruct (classify e); try (apply IH; assumption).
  destruct P as [Fr GI']. destruct (IH st' ep _ I' GI') as [N1 N2]. split.
  - constructor; auto. intros Q. apply (N2 _ Q). now left.
  - intros x [<-|Q]; auto. intros W. apply (N2 _ Q). now right.
Qed.

(* over ALL entry streams (any clients, any duplicates, any special ids, any
   capacity): no (client, registration epoch, series id) reaches the user state
   machine twice *)
Lemma at_most_once_proved : forall cap (s0 : S) es, NoDup (sm_calls_tagged cap s0 es).
Proof.
  intros. unfold sm_calls_tagged.
  apply (tagged_calls_fresh es (init_state cap s0) (fun _ => 0%nat) []).
  - apply init_inv.
  - split; [intros ? ? ? []|]. cbn. intros ? [].
Qed.

(* the tagged calls are exactly the OApplied outcomes of session-managed
   proposals: the trace has one tag per such outcome, in order *)
Lemma tagged_calls_complete_proved : forall es st ep,
  length (tagged_calls ep st es) =
  length (filter (fun p => match snd p, classify (fst p) with OApplied _, KUpdate => true | _, _ => false end)
                 (combine es (snd (run st es)))).
Proof.
  induction es as [|e r IH]; intros st ep; [reflexivity|].
  cbn [tagged_calls Session.run]. destruct (step st e) as [st' o] eqn:ST.
  destruct (run st' r) as [st2 os] eqn:R. cbn [snd combine filter fst].
  assert (Q : forall ep', length (tagged_calls ep' st' r) =
     length (filter (fun p => match snd p, classify (fst p) with OApplied _, KUpdate => true | _, _ => false end)
                 (combine r os))) by (intros; rewrite IH, R; reflexivity).
  destruct o; auto. destruct (classify e); cbn; auto.
Qed.

(* ---------------------------------------------------------------- *)
(* how one step changes the session of a client that stays registered *)

Lemma find_session_skip : forall c (x : session) l1 l2,
  s_client x <> c -> find_session c (l1 ++ x :: l2) = find_session c (l1 ++ l2).
Proof.
  induction l1 as [|y t IH]; cbn; intros l2 H.
  - rewrite find_session_cons. destruct (s_client x =? c) eqn:E; auto. apply N.eqb_eq in E. congruence.
  - rewrite !find_session_cons. destruct (s_client y =? c); auto.
Qed.

Definition push_response (s : session) (k : N) (r : result) : session :=
  mkSession (s_client s) (s_responded s) ((k, r) :: s_history s).

Lemma session_step : forall st e c s,
  inv st -> lookup c st = Some s -> lookup c (fst (step st e)) <> None ->
  exists s', lookup c (fst (step st e)) = Some s' /\
    (s' = s \/
     (classify e = KUpdate /\ e_client e = c /\
      let s1 := clear_to s (e_responded e) in
      (s' = s1 \/
       exists r, s' = push_response s1 (e_series e) r /\
                 has_responded s1 (e_series e) = false /\ hist_get (e_series e) (s_history s1) = None))).
Proof.
  intros [t sm] e c s [[ND LE] HA] L. unfold lookup, Session.step in *. cbn [st_tab st_sm] in *.
  destruct (classify e) eqn:K; cbn [fst st_tab]; intros P; try (exists s; split; auto; fail).
  - (* register *)
    revert P. unfold register. destruct (lru_get (e_client e) t) as [[sd t']|] eqn:G; cbn [fst st_tab]; intros P.
    + destruct (lru_get_spec _ _ _ _ G) as (l1 & l2 & E & -> & _ & _). rewrite E in *. cbn [t_list] in *.
      exists s. split; auto. rewrite find_session_move_front; auto.
    + apply lru_get_none in G. revert P. unfold lru_add. cbn [s_client new_session].
      pose proof G as G'. unfold find_session in G'.
      destruct (lru_find (e_client e) (t_list t)) as [[? ?]|]; [discriminate|]. cbn [t_list]. intros P.
      destruct (find_session c (takeN (t_cap t) (new_session (e_client e) :: t_list t))) as [s'|] eqn:F; [|congruence].
      exists s'. split; auto. left. apply find_session_takeN in F. rewrite find_session_cons in F.
      cbn [s_client new_session] in F. destruct (e_client e =? c) eqn:Q.
      * apply N.eqb_eq in Q. subst. congruence.
      * congruence.
  - (* unregister *)
    revert P. unfold unregister. destruct (lru_get (e_client e) t) as [[sd t']|] eqn:G; cbn [fst st_tab]; intros P;
      [|exists s; split; auto].
    destruct (lru_get_spec _ _ _ _ G) as (l1 & l2 & E & -> & Hc & _). rewrite E in *.
    revert P. unfold lru_del. cbn [t_list t_cap]. rewrite <- Hc, lru_find_head. cbn [t_list]. intros P.
    destruct (N.eq_dec (s_client sd) c) as [Q|Q].
    + exfalso. apply P. apply find_session_none. apply nodup_remove_mid in ND. rewrite <- Q. tauto.
    + exists s. split; auto. now rewrite <- (find_session_skip c sd l1 l2 Q).
  - (* noop session *)
    destruct (sm_update sm (e_cmd e)). cbn in *. exists s. auto.
  - (* update *)
    revert P. unfold update_session. cbn [st_tab st_sm].
    destruct (lru_get (e_client e) t) as [[s0 t1]|] eqn:G; cbn [fst st_tab]; intros P; [|exists s; split; auto].
    pose proof (lru_get_find _ _ _ _ G) as F0.
    destruct (lru_get_spec _ _ _ _ G) as (l1 & l2 & E & -> & Hc & _). rewrite E in *.
    assert (OTHER : e_client e <> c -> forall s'' (sm0 : S), s_client s'' = e_client e ->
              find_session c (t_list (st_tab (mkState (set_front s'' (mkTable (t_cap t) (s0 :: l1 ++ l2))) sm0))) = Some s).
    { intros Q s'' sm0 Hc''. rewrite set_front_cons. cbn [st_tab t_list]. rewrite find_session_cons.
      destruct (s_client s'' =? c) eqn:W; [apply N.eqb_eq in W; congruence|].
      rewrite <- (find_session_skip c s0 l1 l2); auto. congruence. }
    pose proof (clear_to_client s0 (e_responded e)) as Hc1.
    destruct (N.eq_dec (e_client e) c) as [Q|Q].
    + (* the client's own proposal *)
      assert (s0 = s) by congruence. subst s0.
      assert (HEAD : forall s'' (sm0 : S), s_client s'' = c ->
                find_session c (t_list (st_tab (mkState (set_front s'' (mkTable (t_cap t) (s :: l1 ++ l2))) sm0))) = Some s'').
      { intros s'' sm0 Hc''. rewrite set_front_cons. cbn [st_tab t_list]. rewrite find_session_cons.
        apply N.eqb_eq in Hc''. now rewrite Hc''. }
      destruct (has_responded (clear_to s (e_responded e)) (e_series e)) eqn:HR; cbn [fst].
      { eexists. split; [apply HEAD; congruence|]. right. repeat split; auto. }
      destruct (hist_get (e_series e) (s_history (clear_to s (e_responded e)))) eqn:HG; cbn [fst].
      { eexists. split; [apply HEAD; congruence|]. right. repeat split; auto. }
      destruct (sm_update sm (e_cmd e)) as [sm' r]. unfold add_response. rewrite HG. cbn [fst].
      eexists. split; [apply HEAD; cbn; congruence|]. right. repeat split; auto. right. exists r. auto.
    + destruct (has_responded (clear_to s0 (e_responded e)) (e_series e)); cbn [fst].
      { exists s. split; auto. apply OTHER; auto. congruence. }
      destruct (hist_get (e_series e) (s_history (clear_to s0 (e_responded e)))) eqn:HG; cbn [fst].
      { exists s. split; auto. apply OTHER; auto. congruence. }
      destruct (sm_update sm (e_cmd e)) as [sm' r]. unfold add_response. rewrite HG. cbn [fst].
      exists s. split; auto. apply OTHER; auto. cbn. congruence.
Qed.

(* the session of client c is present after every entry of es *)
Fixpoint present_along (c : N) (st : state) (es : list entry) : Prop :=
  match es with
  | [] => True
  | e :: r => lookup c (fst (step st e)) <> None /\ present_along c (fst (step st e)) r
  end.

Definition cached (c k : N) (r : result) (st : state) : Prop :=
  exists s, lookup c st = Some s /\ hist_get k (s_history s) = Some r /\ s_responded s < k.

Definition acked (c k : N) (st : state) : Prop :=
  exists s, lookup c st = Some s /\ k <= s_responded s.

Lemma cached_along : forall es st c k r,
  inv st -> cached c k r st -> present_along c st es ->
  Forall (fun x => classify x = KUpdate -> e_client x = c -> e_responded x < k) es ->
  cached c k r (run_state st es).
Proof.
  induction es as [|e t IH]; intros st c k r I C P F; [exact C|].
  rewrite run_state_cons. destruct P as [P1 P2]. inversion F as [|? ? F1 F2]; subst.
  apply IH; auto; [now apply step_inv|].
  destruct C as (s & L & HG & HR).
  destruct (session_step st e c s I L P1) as (s' & L' & [->|(K & Hc & D)]).
  - exists s. auto.
  - specialize (F1 K Hc). cbn zeta in D. destruct D as [->|(r' & -> & HR' & HG')].
    + exists (clear_to s (e_responded e)). split; auto. split.
      * apply clear_to_keeps; auto.
      * rewrite clear_to_responded. lia.
    + eexists. split; [exact L'|]. unfold push_response. cbn [s_history s_responded hist_get]. split.
      * destruct (e_series e =? k) eqn:Q.
        -- apply N.eqb_eq in Q. subst k. rewrite (clear_to_keeps s (e_responded e) (e_series e) r HG F1) in HG'. discriminate.
        -- apply clear_to_keeps; auto.
      * rewrite clear_to_responded. lia.
Qed.

Lemma acked_along : forall es st c k,
  inv st -> acked c k st -> present_along c st es -> acked c k (run_state st es).
Proof.
  induction es as [|e t IH]; intros st c k I A P; [exact A|].
  rewrite run_state_cons. destruct P as [P1 P2].
  apply IH; auto; [now apply step_inv|].
  destruct A as (s & L & HR).
  destruct (session_step st e c s I L P1) as (s' & L' & [->|(K & Hc & D)]).
  - exists s. auto.
  - cbn zeta in D. destruct D as [->|(r' & -> & _ & _)]; eexists; (split; [exact L'|]);
      unfold push_response; cbn [s_responded]; rewrite clear_to_responded; lia.
Qed.

Lemma lookup_lru_get : forall c (st : state) s, lookup c st = Some s ->
  exists t1, lru_get c (st_tab st) = Some (s, t1).
Proof.
  unfold lookup, find_session, lru_get. intros c st s H.
  destruct (lru_find c (t_list (st_tab st))) as [[x r]|]; [|discriminate]. inversion H; subst. eauto.
Qed.

(* a retry of a proposal that was applied with result r gets r again from the
   session cache and the user state machine is not invoked — for as long as the
   session stays registered and the client has not acknowledged that series id *)
Lemma retry_returns_cached_proved : forall st e r st1 es e',
  inv st -> classify e = KUpdate -> step st e = (st1, OApplied r) ->
  present_along (e_client e) st1 es ->
  Forall (fun x => classify x = KUpdate -> e_client x = e_client e -> e_responded x < e_series e) es ->
  classify e' = KUpdate -> e_client e' = e_client e -> e_series e' = e_series e ->
  e_responded e' < e_series e ->
  exists st', step (run_state st1 es) e' = (st', OCached r) /\ st_sm st' = st_sm (run_state st1 es).
Proof.
  intros st e r st1 es e' I K ST P F K' Hc' Hs' Hr'.
  assert (I1 : inv st1) by (replace st1 with (fst (step st e)) by (now rewrite ST); now apply step_inv).
  assert (C1 : cached (e_client e) (e_series e) r st1).
  { revert ST. destruct st as [t sm]. unfold Session.step. rewrite K. unfold update_session. cbn [st_tab st_sm].
    destruct (lru_get (e_client e) t) as [[s0 t1]|] eqn:G; [|discriminate].
    destruct (lru_get_spec _ _ _ _ G) as (l1 & l2 & E & -> & Hc & _).
    destruct (has_responded (clear_to s0 (e_responded e)) (e_series e)) eqn:HR; [discriminate|].
    destruct (hist_get (e_series e) (s_history (clear_to s0 (e_responded e)))) eqn:HG; [discriminate|].
    destruct (sm_update sm (e_cmd e)) as [sm' r']. unfold add_response. rewrite HG. intros H; inversion H; subst.
    eexists. unfold lookup. rewrite set_front_cons. cbn [st_tab t_list]. rewrite find_session_cons.
    cbn [s_client]. rewrite clear_to_client. apply N.eqb_eq in Hc. rewrite Hc. split; [reflexivity|].
    cbn [s_history s_responded hist_get]. rewrite N.eqb_refl. split; auto. unfold has_responded in HR. lia. }
  pose proof (cached_along es st1 _ _ _ I1 C1 P F) as (s & L & HG & HR).
  destruct (run_state st1 es) as [t2 sm2] eqn:R2.
  unfold Session.step. rewrite K'. unfold update_session. cbn [st_tab st_sm].
  rewrite <- Hc' in L. destruct (lookup_lru_get _ _ _ L) as [t1 G]. cbn [st_tab] in G. rewrite G.
  assert (HR2 : has_responded (clear_to s (e_responded e')) (e_series e') = false).
  { unfold has_responded. rewrite clear_to_responded. lia. }
  rewrite HR2. rewrite Hs'. rewrite (clear_to_keeps s (e_responded e') (e_series e) r HG Hr').
  eexists. split; reflexivity.
Qed.

(* every proposal records its RespondedTo in the session *)
Lemma acknowledgement_recorded_proved : forall st e,
  inv st -> classify e = KUpdate -> lookup (e_client e) st <> None ->
  acked (e_client e) (e_responded e) (fst (step st e)).
Proof.
  intros [t sm] e I K P. unfold Session.step. rewrite K. unfold update_session. cbn [st_tab st_sm].
  destruct (lookup (e_client e) (mkState t sm)) as [s|] eqn:L; [|congruence].
  destruct (lookup_lru_get _ _ _ L) as [t1 G]. cbn [st_tab] in G. rewrite G.
  destruct (lru_get_spec _ _ _ _ G) as (l1 & l2 & E & -> & Hc & _).
  assert (HEAD : forall s'' (sm0 : S), s_client s'' = e_client e ->
            lookup (e_client e) (mkState (set_front s'' (mkTable (t_cap t) (s :: l1 ++ l2))) sm0) = Some s'').
  { intros s'' sm0 Hc''. unfold lookup. rewrite set_front_cons. cbn [st_tab t_list]. rewrite find_session_cons.
    apply N.eqb_eq in Hc''. now rewrite Hc''. }
  pose proof (clear_to_client s (e_responded e)) as Hc1.
  assert (R1 : e_responded e <= s_responded (clear_to s (e_responded e))) by (rewrite clear_to_responded; lia).
  destruct (has_responded (clear_to s (e_responded e)) (e_series e)); cbn [fst].
  { eexists. split; [apply HEAD; congruence|auto]. }
  destruct (hist_get (e_series e) (s_history (clear_to s (e_responded e)))) eqn:HG; cbn [fst].
  { eexists. split; [apply HEAD; congruence|auto]. }
  destruct (sm_update sm (e_cmd e)) as [sm' r]. unfold add_response. rewrite HG. cbn [fst].
  eexists. split; [apply HEAD; cbn; congruence|auto].
Qed.

(* once the session has recorded an acknowledgement >= k, any (late) duplicate
   with series id <= k is ignored: no result is reported and the user state
   machine is untouched — for as long as the session stays registered *)
Lemma acknowledged_duplicate_ignored_proved : forall st c k es e,
  inv st -> acked c k st -> present_along c st es ->
  classify e = KUpdate -> e_client e = c -> e_series e <= k ->
  exists st', step (run_state st es) e = (st', OIgnored) /\ st_sm st' = st_sm (run_state st es).
Proof.
  intros st c k es e I A P K Hc Hs.
  destruct (acked_along es st c k I A P) as (s & L & HR).
  destruct (run_state st es) as [t2 sm2].
  unfold Session.step. rewrite K. unfold update_session. cbn [st_tab st_sm].
  rewrite <- Hc in L. destruct (lookup_lru_get _ _ _ L) as [t1 G]. cbn [st_tab] in G. rewrite G.
  assert (HR2 : has_responded (clear_to s (e_responded e)) (e_series e) = true).
  { unfold has_responded. rewrite clear_to_responded. lia. }
  rewrite HR2. eexists. split; reflexivity.
Qed.

(* eviction: registering a new client in a full table drops the least recently
   used session; that client's proposals are rejected from then on *)
Lemma takeN_app_exact : forall {A} (a b : list A) n, N.of_nat (length a) = n -> takeN n (a ++ b) = a.
Proof.
  induction a as [|x r IH]; cbn; intros b n H.
  - destruct b; auto. cbn. subst. reflexivity.
  - destruct (n =? 0) eqn:E; [lia|]. f_equal. apply IH. lia.
Qed.

Lemma evicted_session_rejected_proved : forall st e l v,
  inv st -> t_list (st_tab st) = l ++ [v] ->
  N.of_nat (length (l ++ [v])) = t_cap (st_tab st) ->
  classify e = KRegister -> lookup (e_client e) st = None ->
  exists st1, step st e = (st1, ORegistered (e_client e)) /\
    t_list (st_tab st1) = new_session (e_client e) :: l /\
    lookup (s_client v) st1 = None /\
    forall e', classify e' = KUpdate -> e_client e' = s_client v -> step st1 e' = (st1, ORejected).
Proof.
  intros [t sm] e l v [[ND LE] HA] E FULL K L. cbn [st_tab] in *.
  unfold Session.step. rewrite K. cbn [st_tab st_sm]. unfold register.
  pose proof L as L'. unfold lookup in L'. cbn [st_tab] in L'. apply lru_get_none in L'. rewrite L'.
  eexists. split; [reflexivity|].
  assert (T : t_list (lru_add (new_session (e_client e)) t) = new_session (e_client e) :: l).
  { unfold lru_add. cbn [s_client new_session]. apply lru_get_none in L'. unfold find_session in L'.
    destruct (lru_find (e_client e) (t_list t)) as [[? ?]|]; [discriminate|]. cbn [t_list].
    rewrite E. change (new_session (e_client e) :: l ++ [v]) with ((new_session (e_client e) :: l) ++ [v]).
    apply takeN_app_exact. rewrite app_length in FULL. cbn in *. lia. }
  assert (V : lookup (s_client v) (mkState (lru_add (new_session (e_client e)) t) sm) = None).
  { unfold lookup. cbn [st_tab]. rewrite T. apply find_session_none. cbn. intros [Q|Q].
    - apply find_session_none in L. apply L. cbn [st_tab]. rewrite E, Q, ids_app. apply in_or_app. right. now left.
    - rewrite E, ids_app in ND. cbn in ND. apply NoDup_remove_2 in ND. apply ND. rewrite app_nil_r. exact Q. }
  split; [exact T|]. split; [exact V|].
  intros e' K' Hc'. apply unknown_session_rejected_untouched_proved; auto. now rewrite Hc'.
Qed.

(* ---------------------------------------------------------------- *)
(* snapshot / restart                                                *)

Variable sm_save : S -> bytes.
Variable sm_recover : bytes -> option S.
Hypothesis sm_roundtrip : forall s, sm_recover (sm_save s) = Some s.

Lemma snapshot_restore_id : forall (st : state),
  inv st -> 0 < t_cap (st_tab st) ->
  exists sn, snapshot sm_save st = Some (sn, st) /\ restore sm_recover sn = Some st.
Proof.
  intros [t sm] [[ND LE] _] POS. cbn [st_tab] in *.
  unfold snapshot, restore. cbn [st_tab st_sm].
  rewrite save_preserves_order_proved by auto.
  eexists. split; [reflexivity|]. cbn [fst snd].
  destruct (load_save_id_proved t _ _ ND LE POS (save_preserves_order_proved t ND)) as [_ L].
  rewrite L, sm_roundtrip. reflexivity.
Qed.

(* snapshot at any cut point + restart from it + the rest of the log
   = the uninterrupted run: same results, same final table (LRU order included),
   same user state *)
Lemma snapshot_cut_equiv_sessions_proved : forall cap (s0 : S) es1 es2,
  0 < cap ->
  let st1 := run_state (init_state cap s0) es1 in
  exists sn, snapshot sm_save st1 = Some (sn, st1) /\
  exists st1', restore sm_recover sn = Some st1' /\
               run st1' es2 = run st1 es2 /\
               run (init_state cap s0) (es1 ++ es2) =
                 (fst (run st1' es2), snd (run (init_state cap s0) es1) ++ snd (run st1' es2)).
Proof.
  intros cap s0 es1 es2 POS st1.
  destruct (snapshot_restore_id st1) as (sn & H1 & H2).
  - apply run_inv, init_inv.
  - destruct (table_wf_reachable_proved cap s0 es1) as (_ & _ & E). subst st1. rewrite E. auto.
  - exists sn. split; auto. exists st1. repeat split; auto.
    subst st1. clear. generalize (init_state cap s0). induction es1 as [|e r IH]; intros st.
    + cbn. destruct (run st es2); auto.
    + cbn [app Session.run]. rewrite run_state_cons. destruct (step st e) as [sta o]. cbn [fst].
      rewrite IH. destruct (run sta r). cbn. reflexivity.
Qed.

(* installing a snapshot on a live replica: the previous table (whatever it
   holds) has no influence on the result *)
Lemma load_replaces_table_proved : forall (t1 t2 : table) sv,
  load_into t1 sv = load_into t2 sv /\ load_into t1 sv = load sv.
Proof. intros. split; reflexivity. Qed.

(* ... so the replica ends in exactly the state the image was taken from:
   sessions unregistered or evicted in the image's range do not survive,
   LRU order and capacity are the image's *)
Lemma install_replaces_state_proved : forall (st_old st1 : state),
  inv st1 -> 0 < t_cap (st_tab st1) ->
  exists sn, snapshot sm_save st1 = Some (sn, st1) /\ install sm_recover st_old sn = Some st1.
Proof.
  intros st_old st1 I POS. destruct (snapshot_restore_id st1 I POS) as (sn & H1 & H2).
  exists sn. split; auto.
Qed.

(* a lagging replica (applied es0) that installs the image of a replica that
   applied es0 ++ es1 and then applies es2 is indistinguishable, from then on,
   from one that applied everything *)
Lemma lagging_replica_catches_up_proved : forall cap (s0 : S) es0 es1 es2,
  0 < cap ->
  let lag := run_state (init_state cap s0) es0 in
  let lead := run_state (init_state cap s0) (es0 ++ es1) in
  exists sn, snapshot sm_save lead = Some (sn, lead) /\
  exists st', install sm_recover lag sn = Some st' /\ st' = lead /\
              fst (run st' es2) = run_state (init_state cap s0) ((es0 ++ es1) ++ es2) /\
              snd (run st' es2) = snd (run lead es2).
Proof.
  intros cap s0 es0 es1 es2 POS lag lead.
  destruct (install_replaces_state_proved lag lead) as (sn & H1 & H2).
  - apply run_inv, init_inv.
  - destruct (table_wf_reachable_proved cap s0 (es0 ++ es1)) as (_ & _ & E). subst lead. rewrite E. auto.
  - exists sn. split; auto. exists lead. repeat split; auto.
    subst lead. generalize (init_state cap s0). generalize (es0 ++ es1). clear.
    induction l as [|e r IH]; intros st; [reflexivity|].
    cbn [app]. rewrite !run_state_cons. apply IH.
Qed.

(* a replica that takes a snapshot after es1, restarts from it and applies es2 *)
Definition restart_run (cap : N) (s0 : S) (es1 es2 : list entry) : option (state * list outcome) :=
  match snapshot sm_save (run_state (init_state cap s0) es1) with
  | Some (sn, _) =>
    match restore sm_recover sn with
    | Some st' => Some (fst (run st' es2), snd (run (init_state cap s0) es1) ++ snd (run st' es2))
    | None => None
    end
  | None => None
  end.

(* ... is indistinguishable from a replica that never restarted; hence replicas
   that snapshot/restart at different points of the same log agree on every
   result, on the session table and on the user state *)
Lemma replicas_agree_proved : forall cap (s0 : S) es1 es2 es1' es2',
  0 < cap -> es1 ++ es2 = es1' ++ es2' ->
  restart_run cap s0 es1 es2 = Some (run (init_state cap s0) (es1 ++ es2)) /\
  restart_run cap s0 es1 es2 = restart_run cap s0 es1' es2'.
Proof.
  assert (A : forall cap s0 es1 es2, 0 < cap ->
              restart_run cap s0 es1 es2 = Some (run (init_state cap s0) (es1 ++ es2))).
  { intros cap s0 es1 es2 POS. unfold restart_run.
    destruct (snapshot_cut_equiv_sessions_proved cap s0 es1 es2 POS) as (sn & H1 & st1' & H2 & _ & H4).
    rewrite H1, H2, H4. reflexivity. }
  intros cap s0 es1 es2 es1' es2' POS E. split; [now apply A|].
  rewrite !A by auto. now rewrite E.
Qed.

End SessionProofs.

(* the comparison operators of Session.hasResponded / clearTo and of the LRU's
   ShouldEvict, re-read from the source on every run (Gen/GenC05.v), are the ones
   the model is written with; a change of any of them breaks this lemma *)
Lemma source_tie_proved :
  src_has_responded_le = true /\ src_clear_to_guard_le = true /\ src_clear_to_shortcut_eq = true /\
  src_clear_to_loop_le = true /\ src_evict_when_gt = true /\
  src_concurrent_save_steps = true /\ src_sessions_saved_in_meta = true /\
  not_session_managed_client_id = 0 /\ noop_series_id = 0 /\ series_id_first_proposal = 1 /\
  series_id_for_register = 2 ^ 64 - 2 /\ series_id_for_unregister = 2 ^ 64 - 1 /\
  0 < lru_max_session_count.
Proof. repeat split; reflexivity. Qed.
