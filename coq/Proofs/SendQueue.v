From DB Require Import Model.SendQueue.
From Coq Require Import Permutation Lia.
Open Scope N_scope.

Definition sq_inv (s : sq) : Prop :=
  (sq_registered s = true -> sq_worker s = true) /\ (sq_registered s = false -> sq_queue s = []) /\
  (sq_worker s = true -> sq_registered s = true).

Lemma sq_step_inv s o : sq_inv s -> sq_inv (sq_step true s o).
Proof.
  unfold sq_inv. intros (H1 & H2 & H3).
  destruct o as [id| | |]; cbn [sq_step];
    destruct (sq_registered s) eqn:Er; destruct (sq_worker s) eqn:Ew; destruct (sq_queue s) as [|m rest] eqn:Eq;
    cbn [andb negb sq_registered sq_worker sq_queue]; rewrite ?Er, ?Ew, ?Eq;
    repeat split; intros; try reflexivity; try discriminate; try tauto;
    try (specialize (H1 eq_refl); discriminate); try (specialize (H2 eq_refl); discriminate);
    try (specialize (H3 eq_refl); discriminate).
Qed.

Lemma sq_run_inv ops : forall s, sq_inv s -> sq_inv (fold_left (sq_step true) ops s).
Proof. induction ops as [|o ops IH]; intros s H; cbn [fold_left]; [exact H|]. apply IH. apply sq_step_inv. exact H. Qed.

Lemma sq_init_inv : sq_inv sq_init.
Proof. unfold sq_inv, sq_init. cbn. repeat split; intros; try reflexivity; discriminate. Qed.

Theorem never_orphaned_proved ops : orphaned (sq_run true ops) = false.
Proof.
  destruct (sq_run_inv ops sq_init sq_init_inv) as (H1 & _ & _). unfold sq_run, orphaned.
  destruct (sq_registered (fold_left (sq_step true) ops sq_init)) eqn:E; [|reflexivity].
  rewrite (H1 eq_refl). reflexivity.
Qed.

(* a queued message always has a live consumer *)
Theorem queued_has_consumer_proved ops :
  sq_queue (sq_run true ops) <> [] -> sq_worker (sq_run true ops) = true.
Proof.
  destruct (sq_run_inv ops sq_init sq_init_inv) as (H1 & H2 & _). unfold sq_run in *. intros Hq.
  destruct (sq_registered (fold_left (sq_step true) ops sq_init)) eqn:E; [apply H1; reflexivity|].
  exfalso. apply Hq. apply H2. reflexivity.
Qed.

(* accepted = delivered + lost(with an Unreachable report) + still queued, in order *)
Fixpoint sent (ops : list sqop) : list N :=
  match ops with
  | [] => []
  | SSend id :: t => id :: sent t
  | _ :: t => sent t
  end.

Lemma step_conserve s o :
  sq_inv s ->
  Permutation (sq_delivered (sq_step true s o) ++ sq_lost (sq_step true s o) ++ sq_queue (sq_step true s o))
              (sq_delivered s ++ sq_lost s ++ sq_queue s ++ match o with SSend id => [id] | _ => [] end).
Proof.
  intros (H1 & H2 & H3).
  destruct o as [id| | |]; cbn [sq_step];
    destruct (sq_registered s) eqn:Er; destruct (sq_worker s) eqn:Ew; destruct (sq_queue s) as [|m rest] eqn:Eq;
    cbn [andb negb sq_delivered sq_lost sq_queue]; rewrite ?Eq, ?app_nil_r; cbn [app];
    try apply Permutation_refl;
    try (specialize (H2 eq_refl); discriminate); try (specialize (H3 eq_refl); discriminate).
  - (* deliver *) rewrite <- app_assoc. apply Permutation_app_head. cbn [app].
    apply (Permutation_middle (sq_lost s) rest m).
Qed.

Theorem accepted_accounted_proved : forall ops,
  Permutation (sq_delivered (sq_run true ops) ++ sq_lost (sq_run true ops) ++ sq_queue (sq_run true ops)) (sent ops).
Proof.
  intros ops. unfold sq_run.
  assert (G : forall ops s, sq_inv s ->
    Permutation (sq_delivered (fold_left (sq_step true) ops s) ++ sq_lost (fold_left (sq_step true) ops s) ++ sq_queue (fold_left (sq_step true) ops s))
                (sq_delivered s ++ sq_lost s ++ sq_queue s ++ sent ops)).
  { clear ops. induction ops as [|o ops IH]; intros s Hi; cbn [fold_left sent].
    - rewrite app_nil_r. apply Permutation_refl.
    - eapply Permutation_trans; [apply IH; apply sq_step_inv; exact Hi|].
      pose proof (step_conserve s o Hi) as Hs.
      rewrite !app_assoc. rewrite !app_assoc in Hs.
      destruct o as [id| | |]; cbn [sent].
      + eapply Permutation_trans; [apply Permutation_app_tail; exact Hs|].
        rewrite <- !app_assoc. cbn [app]. apply Permutation_refl.
      + rewrite app_nil_r in Hs. apply Permutation_app_tail. exact Hs.
      + rewrite app_nil_r in Hs. apply Permutation_app_tail. exact Hs.
      + rewrite app_nil_r in Hs. apply Permutation_app_tail. exact Hs. }
  specialize (G ops sq_init sq_init_inv). cbn [sq_init sq_delivered sq_lost sq_queue app] in G. exact G.
Qed.

(* without the unconditional unregistration a graceful (idle) exit leaves an orphaned queue:
   later sends are accepted and never delivered, and nothing is reported *)
Theorem idle_exit_orphans_refuted :
  exists ops, orphaned (sq_run false ops) = true /\
    forall more, let s := fold_left (sq_step false) (map SSend more ++ [SDeliver; SDeliver]) (sq_run false ops) in
      sq_delivered s = sq_delivered (sq_run false ops) /\ sq_unreachable s = 0.
Proof.
  exists [SSend 1; SDeliver; SIdle]. split; [reflexivity|]. intros more. cbn [sq_run fold_left sq_step sq_init sq_registered sq_worker sq_queue andb negb sq_delivered sq_lost sq_unreachable].
  set (s0 := mkSQ true false [] ([] ++ [1]) [] 0).
  assert (G : forall more s, sq_registered s = true -> sq_worker s = false ->
     sq_registered (fold_left (sq_step false) (map SSend more) s) = true /\
     sq_worker (fold_left (sq_step false) (map SSend more) s) = false /\
     sq_delivered (fold_left (sq_step false) (map SSend more) s) = sq_delivered s /\
     sq_unreachable (fold_left (sq_step false) (map SSend more) s) = sq_unreachable s).
  { clear. induction more as [|m more IH]; intros s Hr Hw; cbn [map fold_left]; [tauto|].
    cbn [sq_step]. rewrite Hr.
    destruct (IH (mkSQ true (sq_worker s) (sq_queue s ++ [m]) (sq_delivered s) (sq_lost s) (sq_unreachable s)) eq_refl Hw) as (A & B & C & D).
    repeat split; assumption. }
  destruct (G more s0 eq_refl eq_refl) as (A & B & C & D).
  cbv zeta. rewrite fold_left_app.
  set (s1 := fold_left (sq_step false) (map SSend more) s0) in *.
  assert (E : forall x, sq_worker x = false -> sq_step false x SDeliver = x).
  { intros x Hx. cbn [sq_step]. rewrite Hx. reflexivity. }
  cbn [fold_left]. rewrite (E s1 B), (E s1 B). split; [exact C|exact D].
Qed.
