(* L2 stage 3 support: quorums of neighbouring configurations intersect; counting
   config change entries in a log. *)
From DB Require Import Model.RaftNet Model.RaftNetCfg Proofs.RaftNetLists.

(* ---------------------------------------------------------------- *)
(* quorums of two configurations always intersect *)

Definition qnear (C C' : list id) : Prop :=
  forall Q Q', is_quorum C Q -> is_quorum C' Q' -> exists x, In x Q /\ In x Q'.

Lemma qnear_refl C : qnear C C.
Proof.
  intros Q Q' (I1 & N1 & L1) (I2 & N2 & L2). now apply (quorum_intersect C).
Qed.

Lemma qnear_sym C C' : qnear C C' -> qnear C' C.
Proof.
  intros H Q Q' HQ HQ'. destruct (H Q' Q HQ' HQ) as (x & Hx & Hx'). now exists x.
Qed.

(* C' has exactly one voter more than C *)
Lemma qnear_grow C C' :
  NoDup C' -> incl C C' -> length C' = S (length C) -> qnear C C'.
Proof.
  intros ND Hi Hl Q Q' (I1 & N1 & L1) (I2 & N2 & L2).
  destruct (common_or_disjoint Q Q') as [H|Hd]; [exact H|]. exfalso.
  assert (HN : NoDup (Q ++ Q')) by (now apply NoDup_app_disjoint).
  assert (HI : incl (Q ++ Q') C').
  { apply incl_app; [|exact I2]. intros x Hx. apply Hi. now apply I1. }
  pose proof (NoDup_incl_length HN HI) as Hlen. rewrite app_length in Hlen.
  unfold quorum in *. rewrite Hl in *.
  pose proof (Nat.div_mod (length C) 2 ltac:(lia)) as D1.
  pose proof (Nat.mod_upper_bound (length C) 2 ltac:(lia)).
  pose proof (Nat.div_mod (S (length C)) 2 ltac:(lia)) as D2.
  pose proof (Nat.mod_upper_bound (S (length C)) 2 ltac:(lia)).
  lia.
Qed.

(* adding one voter, removing one voter *)
Theorem quorum_intersect_adjacent (C : list id) (x : id) :
  NoDup C -> ~ In x C -> qnear C (x :: C) /\ qnear (x :: C) C.
Proof.
  intros ND Hx.
  assert (H : qnear C (x :: C)).
  { apply qnear_grow; [now constructor | intros y Hy; now right | reflexivity]. }
  split; [exact H | now apply qnear_sym].
Qed.

(* ---------------------------------------------------------------- *)
(* counting config change entries *)

Lemma firstn_S_snoc {A} (l : list A) b e :
  nth_error l b = Some e -> firstn (S b) l = firstn b l ++ [e].
Proof.
  revert b. induction l as [|a l IH]; intros [|b] H; simpl in *; try discriminate.
  - injection H as ->. reflexivity.
  - f_equal. now apply IH.
Qed.

Lemma firstn_S_out {A} (l : list A) b :
  nth_error l b = None -> firstn (S b) l = firstn b l.
Proof.
  intros H. apply nth_error_None in H. rewrite !firstn_all2 by lia. reflexivity.
Qed.

Lemma skipn_add {A} b : forall a (l : list A), skipn a (skipn b l) = skipn (b + a) l.
Proof.
  induction b as [|b IH]; intros a l; [reflexivity|].
  destruct l; simpl; [now rewrite skipn_nil | apply IH].
Qed.

Section Ccs.
  Variable is_cc : entry -> bool.
  Notation ccs := (ccs is_cc).

  Lemma ccs_out l c : length l <= c -> ccs l c = 0.
  Proof. intros H. unfold RaftNetCfg.ccs. now rewrite skipn_all2. Qed.

  Lemma ccs_snoc l e c :
    c <= length l -> ccs (l ++ [e]) c = ccs l c + (if is_cc e then 1 else 0).
  Proof.
    intros H. unfold RaftNetCfg.ccs. rewrite skipn_app.
    replace (c - length l) with 0 by lia. simpl.
    rewrite filter_app, app_length. simpl. destruct (is_cc e); simpl; lia.
  Qed.

  Lemma ccs_app_r l r c : ccs l c <= ccs (l ++ r) c.
  Proof.
    unfold RaftNetCfg.ccs. rewrite skipn_app, filter_app, app_length. lia.
  Qed.

  Lemma ccs_anti l c c' : c <= c' -> ccs l c' <= ccs l c.
  Proof.
    intros H. unfold RaftNetCfg.ccs.
    replace c' with (c + (c' - c)) by lia. rewrite <- skipn_add.
    set (r := skipn c l).
    rewrite <- (firstn_skipn (c' - c) r) at 2. rewrite filter_app, app_length.
    rewrite Nat.add_comm. lia.
  Qed.

  Lemma ccs_firstn_mono l m m' c : m <= m' -> ccs (firstn m l) c <= ccs (firstn m' l) c.
  Proof.
    intros H.
    assert (E : firstn m' l = firstn m l ++ skipn m (firstn m' l)).
    { rewrite <- (firstn_skipn m (firstn m' l)) at 1. f_equal.
      rewrite firstn_firstn. now replace (Nat.min m m') with m by lia. }
    rewrite E. apply ccs_app_r.
  Qed.

  Lemma ccs_firstn_le l m c : ccs (firstn m l) c <= ccs l c.
  Proof.
    rewrite <- (firstn_skipn m l) at 2. apply ccs_app_r.
  Qed.

  Lemma ccs_agree l l' m c : agree m l l' -> ccs (firstn m l) c = ccs (firstn m l') c.
  Proof. unfold agree. now intros ->. Qed.

  Lemma ccs_firstn_S l b c e :
    c <= b -> nth_error l b = Some e ->
    ccs (firstn (S b) l) c = ccs (firstn b l) c + (if is_cc e then 1 else 0).
  Proof.
    intros Hc He. rewrite (firstn_S_snoc l b e He). apply ccs_snoc.
    rewrite firstn_length. assert (b < length l) by (apply nth_error_Some; congruence). lia.
  Qed.

  (* the position of the second config change above a *)
  Lemma second_cc l a : forall b,
    2 <= ccs (firstn b l) a ->
    exists p, a < p <= b /\ 2 <= ccs (firstn p l) a /\ ccs (firstn (p - 1) l) a <= 1.
  Proof.
    induction b as [|b IH]; intros H.
    - simpl in H. unfold RaftNetCfg.ccs in H. rewrite skipn_nil in H. simpl in H. lia.
    - destruct (Nat.le_gt_cases 2 (ccs (firstn b l) a)) as [Hb|Hb].
      + destruct (IH Hb) as (p & Hp & H2 & H1). exists p. repeat split; try lia; assumption.
      + exists (S b).
        assert (a < S b).
        { destruct (Nat.le_gt_cases (S b) a); [|lia].
          rewrite ccs_out in H; [lia|]. rewrite firstn_length. lia. }
        replace (S b - 1) with b by lia. repeat split; try lia; assumption.
  Qed.

  Variable cfg_of : list entry -> list id.
  Hypothesis cfg_noncc : forall l e, is_cc e = false -> cfg_of (l ++ [e]) = cfg_of l.
  Hypothesis cfg_step_near : forall l e, qnear (cfg_of l) (cfg_of (l ++ [e])).

  Lemma cfg_same l a : forall b,
    a <= b -> ccs (firstn b l) a = 0 -> cfg_of (firstn b l) = cfg_of (firstn a l).
  Proof.
    induction b as [|b IH]; intros Hab H0.
    - now replace a with 0 by lia.
    - destruct (Nat.eq_dec a (S b)) as [->|Hne]; [reflexivity|].
      destruct (nth_error l b) as [e|] eqn:He.
      + rewrite (ccs_firstn_S l b a e) in H0 by (lia || assumption).
        destruct (is_cc e) eqn:Ecc; [lia|].
        rewrite (firstn_S_snoc l b e He), cfg_noncc by assumption. apply IH; lia.
      + rewrite (firstn_S_out l b He) in *. apply IH; [lia | assumption].
  Qed.

  (* prefixes with at most one config change between them have intersecting quorums *)
  Lemma cfg_near l a : forall b,
    a <= b -> ccs (firstn b l) a <= 1 -> qnear (cfg_of (firstn a l)) (cfg_of (firstn b l)).
  Proof.
    induction b as [|b IH]; intros Hab H1.
    - replace a with 0 by lia. apply qnear_refl.
    - destruct (Nat.eq_dec a (S b)) as [->|Hne]; [apply qnear_refl|].
      destruct (nth_error l b) as [e|] eqn:He.
      + rewrite (ccs_firstn_S l b a e) in H1 by (lia || assumption).
        rewrite (firstn_S_snoc l b e He).
        destruct (is_cc e) eqn:Ecc.
        * rewrite <- (cfg_same l a b) by lia. apply cfg_step_near.
        * rewrite cfg_noncc by assumption. apply IH; lia.
      + rewrite (firstn_S_out l b He) in *. apply IH; [lia | assumption].
  Qed.

End Ccs.
