(* Lemmas about Model/BlockFile.v: the writer's closed form, the reader, bit flips, the
   streaming validator. *)
From DB Require Import Base.Bytes Base.CRC32 Gen.GenC14 Model.SnapshotHeader Model.BlockFile
  Proofs.Bytes Proofs.CRC32.
From Coq Require Import ZifyN ZifyNat ZifyBool.
Ltac Zify.zify_post_hook ::= Z.div_mod_to_equations.
Open Scope N_scope.

(* regenerated constants the proofs depend on *)
Lemma csz_eq : csz = 4%nat. Proof. reflexivity. Qed.
Lemma tsz_eq : tsz = 16%nat. Proof. reflexivity. Qed.
Lemma hsz_eq : hsz = 1024%nat. Proof. reflexivity. Qed.
Lemma checksum_size_eq : checksum_size = 4. Proof. reflexivity. Qed.
Lemma tail_size_eq : tail_size = 16. Proof. reflexivity. Qed.
Lemma magic_length : length block_magic = 8%nat. Proof. reflexivity. Qed.
Lemma magic_wf : wf_bytes block_magic.
Proof. unfold block_magic. repeat constructor. Qed.

Lemma crc_bytes_length l : length (crc_bytes l) = 4%nat.
Proof. unfold crc_bytes. apply be_length. Qed.
Lemma crc_bytes_wf l : wf_bytes (crc_bytes l).
Proof. unfold crc_bytes. apply be_wf. Qed.

Lemma bytes_eqb_eq a : forall b, bytes_eqb a b = true <-> a = b.
Proof.
  induction a as [|x a IH]; intros [|y b]; cbn [bytes_eqb]; split; intros H; try discriminate; auto.
  - apply andb_true_iff in H as [H1 H2]. apply N.eqb_eq in H1. apply IH in H2. subst. reflexivity.
  - inversion H; subst. rewrite N.eqb_refl. cbn. apply IH. reflexivity.
Qed.
Lemma bytes_eqb_refl a : bytes_eqb a a = true.
Proof. apply bytes_eqb_eq. reflexivity. Qed.

(* ------------------------------------------------------------------ *)
(* chunking                                                             *)

Lemma chunks_fuel n : (0 < n)%nat -> forall f1 f2 l,
  (length l <= f1)%nat -> (length l <= f2)%nat -> chunks f1 n l = chunks f2 n l.
Proof.
  intros Hn. induction f1 as [|f1 IH]; intros f2 l H1 H2.
  - destruct l; [|cbn in H1; lia]. destruct f2; reflexivity.
  - destruct l as [|x l]; [destruct f2; reflexivity|].
    destruct f2 as [|f2]; [cbn in H2; lia|].
    cbn [chunks]. f_equal. apply IH.
    + rewrite skipn_length. cbn [length] in *. lia.
    + rewrite skipn_length. cbn [length] in *. lia.
Qed.

Lemma blocks_nil bs : blocks bs [] = [].
Proof. reflexivity. Qed.

Lemma blocks_cons bs b q : (0 < bs)%nat -> length b = bs ->
  blocks bs (b ++ q) = b :: blocks bs q.
Proof.
  intros Hbs Hb. unfold blocks.
  destruct (b ++ q) as [|x l] eqn:E.
  - destruct b; [cbn in Hb; lia|discriminate].
  - rewrite <- E. assert (HL : length (b ++ q) = S (length l)) by (rewrite E; reflexivity).
    rewrite HL. cbn [chunks]. rewrite E. rewrite <- E.
    rewrite <- Hb, firstn_app, Nat.sub_diag, firstn_all, firstn_O, app_nil_r.
    rewrite skipn_app, Nat.sub_diag, skipn_all, skipn_O. cbn [app]. f_equal.
    apply chunks_fuel; [lia| |lia]. rewrite app_length in HL. lia.
Qed.

Lemma blocks_last bs r : (0 < length r <= bs)%nat -> blocks bs r = [r].
Proof.
  intros Hr. unfold blocks. destruct r as [|x r]; [cbn in Hr; lia|].
  cbn [length] in Hr. cbn [length chunks]. rewrite firstn_all2 by (cbn [length]; lia).
  rewrite skipn_all2 by (cbn [length]; lia). destruct (length r); reflexivity.
Qed.

Definition last_block (r : bytes) : list bytes := match r with [] => [] | _ => [r] end.

Lemma blocks_spec bs F : (0 < bs)%nat -> Forall (fun b => length b = bs) F ->
  forall r, (length r < bs)%nat -> blocks bs (concat F ++ r) = F ++ last_block r.
Proof.
  intros Hbs HF. induction HF as [|b F Hb HF IH]; intros r Hr.
  - cbn [concat app]. destruct r as [|x r]; [reflexivity|]. apply blocks_last. cbn [length] in *. lia.
  - cbn [concat]. rewrite <- app_assoc, blocks_cons by assumption. rewrite IH by assumption. reflexivity.
Qed.

(* ------------------------------------------------------------------ *)
(* the writer                                                           *)

Definition outs (F : list bytes) : list (bytes * bytes) := map (fun b => (b, crc_bytes b)) F.
Definition crcs (F : list bytes) : bytes := concat (map crc_bytes F).

Definition bw_inv (bs : nat) (F : list bytes) (r : bytes) (fl : bool) : bw :=
  mkBW r (bs * length F + length r) (bs * (length F + 1)) (nlen (enc_blocks F)) (crcs F) (outs F) fl.

Lemma enc_blocks_app F G : enc_blocks (F ++ G) = enc_blocks F ++ enc_blocks G.
Proof. unfold enc_blocks. rewrite map_app, concat_app. reflexivity. Qed.
Lemma enc_blocks_one b : enc_blocks [b] = b ++ crc_bytes b.
Proof. unfold enc_blocks, enc_block. cbn. rewrite app_nil_r. reflexivity. Qed.
Lemma crcs_app F G : crcs (F ++ G) = crcs F ++ crcs G.
Proof. unfold crcs. rewrite map_app, concat_app. reflexivity. Qed.
Lemma outs_app F G : outs (F ++ G) = outs F ++ outs G.
Proof. unfold outs. apply map_app. Qed.
Lemma out_bytes_outs F : out_bytes (outs F) = enc_blocks F.
Proof. unfold out_bytes, outs, enc_blocks. rewrite map_map. reflexivity. Qed.
Lemma out_bytes_app a b : out_bytes (a ++ b) = out_bytes a ++ out_bytes b.
Proof. unfold out_bytes. rewrite map_app, concat_app. reflexivity. Qed.

Lemma nlen_app {A} (a b : list A) : nlen (a ++ b) = nlen a + nlen b.
Proof. unfold nlen. rewrite app_length. lia. Qed.

Lemma bw_write_loop_step fuel bs st D : D <> [] ->
  bw_write_loop (S fuel) bs st D =
    let l := Nat.min (bw_next st - bw_written st) (length D) in
    let blk := bw_block st ++ firstn l D in
    let w := (bw_written st + l)%nat in
    let st1 := mkBW blk w (bw_next st) (bw_total st) (bw_fh st) (bw_out st) (bw_flushed st) in
    let st2 := if (w =? bw_next st)%nat
               then bw_emit st1 blk (crc_bytes blk) (bw_total st + N.of_nat (length blk) + checksum_size)
                            (bw_next st + bs)%nat [] (bw_flushed st)
               else st1 in
    bw_write_loop fuel bs st2 (skipn l D).
Proof. destruct D; [congruence|reflexivity]. Qed.

Lemma step_inv fuel bs F r fl D : D <> [] -> (length r < bs)%nat ->
  bw_write_loop (S fuel) bs (bw_inv bs F r fl) D =
    let l := Nat.min (bs - length r) (length D) in
    if (length r + l =? bs)%nat
    then bw_write_loop fuel bs (bw_inv bs (F ++ [r ++ firstn l D]) [] fl) (skipn l D)
    else bw_write_loop fuel bs (bw_inv bs F (r ++ firstn l D) fl) (skipn l D).
Proof.
  intros HD Hr. rewrite bw_write_loop_step by exact HD. cbv zeta.
  unfold bw_inv. cbn [bw_next bw_written bw_block bw_total bw_fh bw_out bw_flushed].
  replace (bs * (length F + 1) - (bs * length F + length r))%nat with (bs - length r)%nat by nia.
  remember (Nat.min (bs - length r) (length D)) as l eqn:El.
  assert (Hfl : length (firstn l D) = l) by (rewrite firstn_length; lia).
  destruct (Nat.eqb_spec (length r + l) bs) as [Heq|Hne].
  - replace (bs * length F + length r + l =? bs * (length F + 1))%nat with true
      by (symmetry; apply Nat.eqb_eq; nia).
    f_equal. unfold bw_emit. cbn [bw_written bw_fh bw_out length].
    rewrite !app_length. cbn [length]. rewrite enc_blocks_app, enc_blocks_one, crcs_app, outs_app.
    rewrite !nlen_app. unfold crcs at 2, outs at 2. cbn [map concat]. rewrite ?app_nil_r.
    f_equal; try nia.
    unfold nlen. rewrite crc_bytes_length, checksum_size_eq, Hfl. lia.
  - replace (bs * length F + length r + l =? bs * (length F + 1))%nat with false
      by (symmetry; apply Nat.eqb_neq; nia).
    f_equal. f_equal. rewrite app_length, Hfl. lia.
Qed.

Lemma bw_write_loop_inv bs : (0 < bs)%nat -> forall fuel d F r fl,
  (length d < fuel)%nat -> Forall (fun b => length b = bs) F -> (length r < bs)%nat ->
  exists F' r', bw_write_loop fuel bs (bw_inv bs F r fl) d = bw_inv bs F' r' fl /\
    Forall (fun b => length b = bs) F' /\ (length r' < bs)%nat /\
    concat F' ++ r' = (concat F ++ r) ++ d.
Proof.
  intros Hbs. induction fuel as [|fuel IH]; intros d F r fl Hf HF Hr; [lia|].
  destruct d as [|x d].
  - exists F, r. cbn [bw_write_loop]. rewrite app_nil_r. auto.
  - remember (x :: d) as D eqn:ED.
    assert (HD : (0 < length D)%nat) by (subst D; cbn; lia).
    rewrite step_inv by (try (subst D; discriminate); exact Hr). cbv zeta.
    remember (Nat.min (bs - length r) (length D)) as l eqn:El.
    assert (Hl1 : (0 < l <= length D)%nat) by lia.
    assert (Hfl : length (firstn l D) = l) by (rewrite firstn_length; lia).
    destruct (Nat.eqb_spec (length r + l) bs) as [Heq|Hne].
    + assert (Hblk : length (r ++ firstn l D) = bs) by (rewrite app_length, Hfl; nia).
      destruct (IH (skipn l D) (F ++ [r ++ firstn l D]) [] fl) as (F' & r' & E & HF' & Hr' & Hc).
      * rewrite skipn_length. lia.
      * apply Forall_app; split; [exact HF|constructor; [exact Hblk|constructor]].
      * cbn; lia.
      * exists F', r'. split; [exact E|split; [exact HF'|split; [exact Hr'|]]].
        rewrite Hc. rewrite concat_app. cbn [concat]. rewrite !app_nil_r, <- !app_assoc.
        f_equal. f_equal. apply firstn_skipn.
    + assert (Hld : l = length D) by nia.
      exists F, (r ++ firstn l D).
      rewrite Hld, firstn_all, skipn_all.
      destruct fuel; [cbn in Hf; lia|]. cbn [bw_write_loop].
      split; [reflexivity|split; [exact HF|split]].
      * rewrite app_length. nia.
      * rewrite <- !app_assoc. reflexivity.
Qed.

Definition wfold (bs : nat) (segs : list bytes) (o : option bw) : option bw :=
  fold_left (fun o s => match o with Some st => bw_write bs st s | None => None end) segs o.
Lemma bw_write_all_wfold bs segs : bw_write_all bs segs = wfold bs segs (Some (bw_init bs)).
Proof. reflexivity. Qed.

(* the state after writing segments whose concatenation is p *)
Lemma bw_write_all_inv bs : (0 < bs)%nat -> forall segs F r,
  Forall (fun b => length b = bs) F -> (length r < bs)%nat ->
  exists F' r',
    wfold bs segs (Some (bw_inv bs F r false)) = Some (bw_inv bs F' r' false) /\
    Forall (fun b => length b = bs) F' /\ (length r' < bs)%nat /\
    concat F' ++ r' = (concat F ++ r) ++ concat segs.
Proof.
  intros Hbs. induction segs as [|s segs IH]; intros F r HF Hr.
  - exists F, r. cbn. rewrite app_nil_r. auto.
  - unfold wfold. cbn [fold_left]. fold (wfold bs segs). unfold bw_write. cbn [bw_inv bw_flushed].
    destruct (bw_write_loop_inv bs Hbs (S (length s)) s F r false) as (F1 & r1 & E & HF1 & Hr1 & Hc1); auto.
    fold (bw_inv bs F r false). rewrite E.
    destruct (IH F1 r1 HF1 Hr1) as (F' & r' & E' & HF' & Hr' & Hc').
    exists F', r'. split; [exact E'|split; [exact HF'|split; [exact Hr'|]]].
    rewrite Hc', Hc1. cbn [concat]. rewrite <- !app_assoc. reflexivity.
Qed.

Lemma bw_init_inv bs : bw_init bs = bw_inv bs [] [] false.
Proof. unfold bw_init, bw_inv. cbn. f_equal; lia. Qed.

Theorem v2_body_closed_form bs segs : (0 < bs)%nat ->
  v2_body_of bs segs = Some (file_body bs (concat segs), payload_checksum bs (concat segs)).
Proof.
  intros Hbs. unfold v2_body_of. rewrite bw_write_all_wfold, bw_init_inv.
  destruct (bw_write_all_inv bs Hbs segs [] []) as (F & r & E & HF & Hr & Hc); [constructor|cbn; lia|].
  match goal with |- match ?x with _ => _ end = _ =>
    replace x with (Some (bw_inv bs F r false)) by (symmetry; exact E) end.
  cbn [concat app] in Hc.
  assert (HB : blocks bs (concat segs) = F ++ last_block r).
  { rewrite <- Hc. apply blocks_spec; assumption. }
  unfold file_body, payload_checksum. rewrite HB.
  unfold bw_close, bw_inv. cbn [bw_flushed bw_block].
  destruct r as [|x r].
  - cbn [last_block]. rewrite app_nil_r.
    unfold bw_emit, bw_payload_checksum. cbn [bw_total bw_next bw_block bw_written bw_fh bw_out].
    rewrite out_bytes_app, out_bytes_outs, app_nil_r. unfold out_bytes. cbn [map concat fst snd].
    rewrite !app_nil_r. reflexivity.
  - cbn [last_block].
    unfold bw_emit, bw_payload_checksum. cbn [bw_total bw_next bw_block bw_written bw_fh bw_out].
    rewrite !out_bytes_app, out_bytes_outs. unfold out_bytes. cbn [map concat fst snd].
    rewrite !app_nil_r. rewrite enc_blocks_app, enc_blocks_one.
    unfold crcs. rewrite map_app, concat_app. cbn [map concat]. rewrite !app_nil_r, <- !app_assoc.
    assert (Hn : nlen (enc_blocks F ++ (x :: r) ++ crc_bytes (x :: r)) =
                 nlen (enc_blocks F) + N.of_nat (length (x :: r)) + checksum_size).
    { rewrite !nlen_app. unfold nlen. rewrite crc_bytes_length, checksum_size_eq. lia. }
    unfold file_tail. rewrite Hn. reflexivity.
Qed.

Theorem write_depends_only_on_concat_proved bs segs1 segs2 : (0 < bs)%nat ->
  concat segs1 = concat segs2 -> v2_body_of bs segs1 = v2_body_of bs segs2.
Proof. intros Hbs H. rewrite !v2_body_closed_form by exact Hbs. rewrite H. reflexivity. Qed.

(* ------------------------------------------------------------------ *)
(* the reader                                                           *)

Lemma validate_block_enc b : (0 < length b)%nat -> validate_block (enc_block b) = true.
Proof.
  intros Hb. unfold validate_block, enc_block. rewrite app_length, crc_bytes_length, csz_eq.
  destruct (Nat.leb_spec (length b + 4) 4); [lia|].
  replace (length b + 4 - 4)%nat with (length b) by lia.
  rewrite skipn_app, Nat.sub_diag, skipn_all, skipn_O, firstn_app, Nat.sub_diag, firstn_all, firstn_O, app_nil_r.
  cbn [app]. apply bytes_eqb_refl.
Qed.

Lemma enc_block_length b : length (enc_block b) = (length b + 4)%nat.
Proof. unfold enc_block. rewrite app_length, crc_bytes_length. reflexivity. Qed.

(* [rep bs rest av bad]: the unread part [rest] of the block region consists of valid
   blocks carrying the bytes [av], followed by EOF (bad = false) or by a block that does
   not validate (bad = true) *)
Inductive rep (bs : nat) : bytes -> bytes -> bool -> Prop :=
| rep_end : rep bs [] [] false
| rep_last b : (0 < length b <= bs)%nat -> rep bs (enc_block b) b false
| rep_bad tl : tl <> [] -> validate_block (firstn (csz + bs) tl) = false -> rep bs tl [] true
| rep_cons b rest av bad : (0 < length b)%nat -> length b = bs -> rep bs rest av bad ->
    rep bs (enc_block b ++ rest) (b ++ av) bad.

Definition ct0 := checksum_crc32ieee.

Lemma read_block_cons bs b rest : (0 < length b)%nat -> length b = bs ->
  read_block bs ct0 (enc_block b ++ rest) = BlkOk (mkBR rest b).
Proof.
  intros Hb Hl. unfold read_block.
  destruct (enc_block b ++ rest) eqn:E.
  { apply (f_equal (@length N)) in E. rewrite app_length, enc_block_length in E. cbn in E. lia. }
  rewrite <- E. unfold ct0. rewrite N.eqb_refl. cbn [negb].
  assert (HL : (csz + bs)%nat = length (enc_block b)) by (rewrite enc_block_length, csz_eq; lia).
  rewrite HL, firstn_app, Nat.sub_diag, firstn_all, firstn_O, app_nil_r.
  rewrite skipn_app, Nat.sub_diag, skipn_all, skipn_O. cbn [app].
  rewrite validate_block_enc by exact Hb. f_equal. f_equal.
  rewrite enc_block_length, csz_eq. replace (length b + 4 - 4)%nat with (length b) by lia.
  unfold enc_block. rewrite firstn_app, Nat.sub_diag, firstn_all, firstn_O, app_nil_r. reflexivity.
Qed.

Lemma read_block_last bs b : (0 < length b <= bs)%nat ->
  read_block bs ct0 (enc_block b) = BlkOk (mkBR [] b).
Proof.
  intros Hb. unfold read_block.
  destruct (enc_block b) eqn:E.
  { apply (f_equal (@length N)) in E. rewrite enc_block_length in E. cbn in E. lia. }
  rewrite <- E. unfold ct0. rewrite N.eqb_refl. cbn [negb].
  rewrite firstn_all2 by (rewrite enc_block_length, csz_eq; lia).
  rewrite skipn_all2 by (rewrite enc_block_length, csz_eq; lia).
  rewrite validate_block_enc by lia. f_equal. f_equal.
  rewrite enc_block_length, csz_eq. replace (length b + 4 - 4)%nat with (length b) by lia.
  unfold enc_block. rewrite firstn_app, Nat.sub_diag, firstn_all, firstn_O, app_nil_r. reflexivity.
Qed.

Lemma read_block_bad bs tl : tl <> [] -> validate_block (firstn (csz + bs) tl) = false ->
  read_block bs ct0 tl = BlkPanic.
Proof.
  intros Hne Hv. unfold read_block. destruct tl; [congruence|].
  unfold ct0. rewrite N.eqb_refl. cbn [negb]. rewrite Hv. reflexivity.
Qed.

(* what one Read does to the part beyond the current block *)
Lemma br_read_loop_spec bs rest av bad : rep bs rest av bad ->
  forall fuel acc want, (0 < want <= fuel)%nat ->
  exists st' res, br_read_loop fuel bs ct0 rest acc want = (st', res) /\
    (if (want <=? length av)%nat
     then res = RData (acc ++ firstn want av) /\
          exists av', rep bs (br_rest st') av' bad /\ br_block st' ++ av' = skipn want av
     else if bad then res = RPanic
     else res = REof (acc ++ av) /\ st' = mkBR [] []).
Proof.
  induction 1 as [|b Hb|tl Hne Hv|b rest av bad Hb0 Hb Hrep IH]; intros fuel acc want Hw;
    (destruct fuel as [|fuel]; [lia|]); (destruct want as [|want']; [lia|]); cbn [br_read_loop].
  - (* end *)
    cbn [read_block length]. destruct (Nat.leb_spec (S want') 0); [lia|].
    eexists _, _. split; [reflexivity|]. rewrite app_nil_r. split; reflexivity.
  - (* last block *)
    rewrite read_block_last by exact Hb. cbn [br_block br_rest].
    destruct (Nat.leb_spec (S want') (length b)) as [Hle|Hgt].
    + rewrite Nat.min_l by lia. rewrite Nat.sub_diag.
      eexists _, _. split; [reflexivity|]. split; [reflexivity|].
      exists []. cbn [br_rest br_block]. split; [constructor|apply app_nil_r].
    + rewrite Nat.min_r by lia.
      destruct (S want' - length b)%nat as [|w'] eqn:Ew; [lia|].
      destruct fuel as [|fuel]; [lia|]. cbn [br_read_loop read_block].
      eexists _, _. split; [reflexivity|]. split; reflexivity.
  - (* bad block *)
    rewrite read_block_bad by assumption. cbn [length]. destruct (Nat.leb_spec (S want') 0); [lia|].
    eexists _, _. split; reflexivity.
  - (* full block, more follows *)
    rewrite read_block_cons by assumption. cbn [br_block br_rest].
    rewrite app_length.
    destruct (Nat.leb_spec (S want') (length b)) as [Hle|Hgt].
    + rewrite Nat.min_l by lia. rewrite Nat.sub_diag.
      destruct (Nat.leb_spec (S want') (length b + length av)); [|lia].
      eexists _, _. split; [reflexivity|]. split.
      * rewrite firstn_app. replace (S want' - length b)%nat with 0%nat by lia.
        rewrite firstn_O, app_nil_r. reflexivity.
      * exists av. cbn [br_rest br_block]. split; [exact Hrep|].
        rewrite skipn_app. replace (S want' - length b)%nat with 0%nat by lia. reflexivity.
    + rewrite Nat.min_r by lia.
      destruct (S want' - length b)%nat as [|w'] eqn:Ew; [lia|].
      destruct (IH fuel (acc ++ b) (S w')) as (st' & res & E & Hs); [lia|].
      exists st', res. split; [exact E|].
      destruct (Nat.leb_spec (S w') (length av)) as [Hle2|Hgt2].
      * destruct (Nat.leb_spec (S want') (length b + length av)); [|lia].
        destruct Hs as [Hres (av' & Hrep' & Hav')]. split.
        -- rewrite Hres, <- app_assoc. f_equal. rewrite firstn_app, (firstn_all2 b) by lia.
           rewrite <- Ew. reflexivity.
        -- exists av'. split; [exact Hrep'|]. rewrite Hav', skipn_app, (skipn_all2 b) by lia.
           rewrite <- Ew. reflexivity.
      * destruct (Nat.leb_spec (S want') (length b + length av)); [lia|].
        destruct bad; [exact Hs|]. destruct Hs as [Hres Hst]. split; [|exact Hst].
        rewrite Hres, <- app_assoc. reflexivity.
Qed.

Definition srep (bs : nat) (st : br) (avail : bytes) (bad : bool) : Prop :=
  exists av, rep bs (br_rest st) av bad /\ avail = br_block st ++ av.

Lemma br_read_spec bs st avail bad want : srep bs st avail bad ->
  exists st' res, br_read bs ct0 st want = (st', res) /\
    (if (want <=? length avail)%nat
     then res = RData (firstn want avail) /\ srep bs st' (skipn want avail) bad
     else if bad then res = RPanic
     else res = REof avail /\ srep bs st' [] false).
Proof.
  intros (av & Hrep & ->). unfold br_read. rewrite app_length.
  destruct (Nat.leb_spec want (length (br_block st))) as [Hle|Hgt].
  - eexists _, _. split; [reflexivity|].
    destruct (Nat.leb_spec want (length (br_block st) + length av)); [|lia]. split.
    + rewrite firstn_app. replace (want - length (br_block st))%nat with 0%nat by lia.
      rewrite firstn_O, app_nil_r. reflexivity.
    + exists av. cbn [br_rest br_block]. split; [exact Hrep|].
      rewrite skipn_app. replace (want - length (br_block st))%nat with 0%nat by lia. reflexivity.
  - destruct (br_read_loop_spec bs _ _ _ Hrep (S want) (br_block st) (want - length (br_block st)))
      as (st' & res & E & Hs); [lia|].
    exists st', res. split; [exact E|].
    destruct (Nat.leb_spec (want - length (br_block st)) (length av)) as [Hle2|Hgt2].
    + destruct (Nat.leb_spec want (length (br_block st) + length av)); [|lia].
      destruct Hs as [Hres (av' & Hrep' & Hav')]. split.
      * rewrite Hres, firstn_app, (firstn_all2 (br_block st)) by lia. reflexivity.
      * exists av'. split; [exact Hrep'|]. rewrite Hav', skipn_app, (skipn_all2 (br_block st)) by lia.
        reflexivity.
    + destruct (Nat.leb_spec want (length (br_block st) + length av)); [lia|].
      destruct bad; [exact Hs|]. destruct Hs as [Hres ->]. split; [exact Hres|].
      exists []. cbn. split; [constructor|reflexivity].
Qed.

Definition v2sr (b : br) : sreader := mkSR ss_v2 checksum_crc32ieee None b [].

Lemma sr_reads_spec bs reads : forall st avail bad, srep bs st avail bad ->
  fst (sr_reads bs (v2sr st) reads) = spec_reads avail bad reads.
Proof.
  induction reads as [|n reads IH]; intros st avail bad Hs; [reflexivity|].
  cbn [sr_reads spec_reads]. unfold sr_read.
  change (sr_ver (v2sr st) =? ss_v2) with true. cbv iota.
  change (sr_ct (v2sr st)) with ct0. change (sr_br (v2sr st)) with st.
  change (sr_ver (v2sr st)) with ss_v2. change (sr_pcrc (v2sr st)) with (@None bytes).
  change (sr_seen (v2sr st)) with (@nil N).
  destruct (br_read_spec bs st avail bad n Hs) as (st' & res & E & Hres).
  rewrite E.
  destruct (Nat.leb_spec n (length avail)) as [Hle|Hgt].
  - destruct Hres as [-> Hs']. change (mkSR ss_v2 ct0 None st' []) with (v2sr st').
    destruct (sr_reads bs (v2sr st') reads) as [o fin] eqn:E2. cbn [fst].
    f_equal. rewrite <- (IH st' _ _ Hs'), E2. reflexivity.
  - destruct bad.
    + subst res. reflexivity.
    + destruct Hres as [-> Hs']. change (mkSR ss_v2 ct0 None st' []) with (v2sr st').
      destruct (sr_reads bs (v2sr st') reads) as [o fin] eqn:E2. cbn [fst].
      f_equal. rewrite <- (IH st' _ _ Hs'), E2. reflexivity.
Qed.

(* every payload splits into full blocks and a remainder *)
Lemma split_blocks bs p : (0 < bs)%nat ->
  exists (F : list bytes) (r : bytes),
    Forall (fun b => length b = bs) F /\ (length r < bs)%nat /\ concat F ++ r = p.
Proof.
  intros Hbs.
  destruct (bw_write_loop_inv bs Hbs (S (length p)) p [] [] false) as (F & r & _ & HF & Hr & Hc);
    [lia|constructor|cbn; lia|].
  exists F, r. auto.
Qed.

Lemma rep_blocks bs F : (0 < bs)%nat -> Forall (fun b => length b = bs) F ->
  forall r, (length r < bs)%nat -> rep bs (enc_blocks (F ++ last_block r)) (concat F ++ r) false.
Proof.
  intros Hbs HF. induction HF as [|b F Hb HF IH]; intros r Hr.
  - cbn [app concat]. destruct r as [|x r].
    + cbn. constructor.
    + cbn [last_block]. rewrite enc_blocks_one. apply (rep_last bs (x :: r)). cbn [length] in *. lia.
  - cbn [app concat]. unfold enc_blocks. cbn [map concat]. fold (enc_blocks (F ++ last_block r)).
    rewrite <- app_assoc. apply rep_cons; [lia|exact Hb|apply IH; exact Hr].
Qed.

Lemma file_tail_length t : length (file_tail t) = 16%nat.
Proof. unfold file_tail. rewrite app_length, le_length, magic_length. reflexivity. Qed.

Lemma v2_reader_file_body bs p :
  v2_reader (file_body bs p) = v2sr (mkBR (enc_blocks (blocks bs p)) []).
Proof.
  unfold v2_reader, v2sr, file_body. f_equal. f_equal.
  rewrite app_length, file_tail_length, tsz_eq.
  replace (length (enc_blocks (blocks bs p)) + 16 - 16)%nat with (length (enc_blocks (blocks bs p))) by lia.
  rewrite firstn_app, Nat.sub_diag, firstn_all, firstn_O, app_nil_r. reflexivity.
Qed.

Theorem read_write_roundtrip_proved bs p reads : (0 < bs)%nat ->
  fst (sr_reads bs (v2_reader (file_body bs p)) reads) = spec_reads p false reads.
Proof.
  intros Hbs. rewrite v2_reader_file_body.
  destruct (split_blocks bs p Hbs) as (F & r & HF & Hr & Hc).
  apply sr_reads_spec. exists p. cbn [br_rest br_block app]. split; [|reflexivity].
  rewrite <- Hc at 1. rewrite blocks_spec by assumption. rewrite <- Hc. apply rep_blocks; assumption.
Qed.

(* ------------------------------------------------------------------ *)
(* single bit flips                                                     *)

Lemma flip_bit_length l i : length (flip_bit l i) = length l.
Proof.
  unfold flip_bit. rewrite app_length, firstn_length.
  destruct (skipn (i / 8) l) as [|b r] eqn:E.
  - apply (f_equal (@length N)) in E. rewrite skipn_length in E. cbn [length] in *. lia.
  - apply (f_equal (@length N)) in E. rewrite skipn_length in E. cbn [length] in *. lia.
Qed.

Lemma flip_bit_app_l a b i : (i / 8 < length a)%nat -> flip_bit (a ++ b) i = flip_bit a i ++ b.
Proof.
  intros H. unfold flip_bit. rewrite firstn_app, skipn_app.
  replace (i / 8 - length a)%nat with 0%nat by lia. rewrite firstn_O, skipn_O, app_nil_r.
  destruct (skipn (i / 8) a) as [|x r] eqn:E.
  - apply (f_equal (@length N)) in E. rewrite skipn_length in E. cbn [length] in E. lia.
  - cbn [app]. rewrite <- app_assoc. reflexivity.
Qed.

Lemma flip_bit_app_r a b i : (length a <= i / 8)%nat ->
  flip_bit (a ++ b) i = a ++ flip_bit b (i - 8 * length a).
Proof.
  intros H. unfold flip_bit. rewrite firstn_app, skipn_app.
  rewrite firstn_all2, skipn_all2 by lia. cbn [app].
  replace ((i - 8 * length a) / 8)%nat with (i / 8 - length a)%nat.
  2:{ replace i with ((i - 8 * length a) + length a * 8)%nat at 1 by lia.
      rewrite Nat.div_add by lia. lia. }
  replace ((i - 8 * length a) mod 8)%nat with (i mod 8)%nat.
  2:{ replace i with ((i - 8 * length a) + length a * 8)%nat at 1 by lia.
      rewrite Nat.mod_add by lia. reflexivity. }
  rewrite <- app_assoc. reflexivity.
Qed.

Lemma flip_bit_inside l i : (i / 8 < length l)%nat ->
  exists pre x post, l = pre ++ x :: post /\
    flip_bit l i = pre ++ N.lxor x (2 ^ N.of_nat (i mod 8)) :: post.
Proof.
  intros H. unfold flip_bit. destruct (skipn (i / 8) l) as [|x r] eqn:E.
  - apply (f_equal (@length N)) in E. rewrite skipn_length in E. cbn [length] in E. lia.
  - exists (firstn (i / 8) l), x, r. split; [|reflexivity].
    rewrite <- E. symmetry. apply firstn_skipn.
Qed.

Lemma mod8_lt i : N.of_nat (i mod 8) < 8.
Proof. pose proof (Nat.mod_upper_bound i 8). lia. Qed.

Lemma crc_bytes_inj a b : wf_bytes a -> wf_bytes b -> crc_bytes a = crc_bytes b -> crc32 a = crc32 b.
Proof.
  intros Ha Hb H. unfold crc_bytes in H.
  rewrite <- (be_dec_be 4 (crc32 a)), <- (be_dec_be 4 (crc32 b)), H; [reflexivity| |];
    change (256 ^ N.of_nat 4) with (2 ^ 32); apply crc32_lt; assumption.
Qed.

Lemma wf_bytes_app a b : wf_bytes (a ++ b) <-> wf_bytes a /\ wf_bytes b.
Proof. apply Forall_app. Qed.

Lemma validate_block_flip b i : wf_bytes b -> (i / 8 < length (enc_block b))%nat ->
  validate_block (flip_bit (enc_block b) i) = false.
Proof.
  intros Hw Hi. unfold validate_block. rewrite flip_bit_length, enc_block_length, csz_eq.
  destruct (Nat.leb_spec (length b + 4) 4) as [|Hb]; [reflexivity|].
  replace (length b + 4 - 4)%nat with (length b) by lia.
  unfold enc_block in *. rewrite app_length, crc_bytes_length in Hi.
  apply not_true_is_false. intros Heq. apply bytes_eqb_eq in Heq.
  destruct (Nat.lt_ge_cases (i / 8) (length b)) as [Hin|Hout].
  - (* data bit *)
    rewrite flip_bit_app_l in Heq by exact Hin.
    assert (HL : length (flip_bit b i) = length b) by apply flip_bit_length.
    rewrite skipn_app, firstn_app, <- HL, Nat.sub_diag, skipn_all, skipn_O, firstn_all, firstn_O, app_nil_r in Heq.
    cbn [app] in Heq.
    destruct (flip_bit_inside b i Hin) as (pre & x & post & Eb & Ef).
    rewrite Ef in Heq. rewrite Eb in Heq at 1.
    rewrite Eb in Hw. apply wf_bytes_app in Hw as [Hpre Hw]. inversion Hw as [|? ? Hx Hpost]; subst.
    pose proof (lxor_pow2_byte x _ Hx (mod8_lt i)) as Hx'.
    apply crc_bytes_inj in Heq.
    + revert Heq. apply crc32_single_byte_detected; auto.
      intros E. symmetry in E. exact (lxor_pow2_neq _ _ E).
    + apply wf_bytes_app. split; [exact Hpre|constructor; assumption].
    + apply wf_bytes_app. split; [exact Hpre|constructor; assumption].
  - (* checksum bit *)
    rewrite flip_bit_app_r in Heq by exact Hout.
    rewrite skipn_app, firstn_app, Nat.sub_diag, skipn_all, skipn_O, firstn_all, firstn_O, app_nil_r in Heq.
    cbn [app] in Heq.
    assert (Hin : ((i - 8 * length b) / 8 < length (crc_bytes b))%nat).
    { rewrite crc_bytes_length.
      replace i with ((i - 8 * length b) + length b * 8)%nat in Hi at 1 by lia.
      rewrite Nat.div_add in Hi by lia. lia. }
    destruct (flip_bit_inside _ _ Hin) as (pre & x & post & Eb & Ef).
    rewrite Ef in Heq. rewrite Eb in Heq.
    apply app_inv_head in Heq. inversion Heq as [E]. exact (lxor_pow2_neq _ _ E).
Qed.

Lemma rep_flip bs rest av bad : rep bs rest av bad -> bad = false -> wf_bytes av ->
  forall i, (i / 8 < length rest)%nat ->
  exists av1 av2, av = av1 ++ av2 /\ rep bs (flip_bit rest i) av1 true.
Proof.
  induction 1 as [|b Hb|tl Hne Hv|b rest av bad Hb0 Hb Hrep IH]; intros Hbad Hw i Hi.
  - cbn in Hi. lia.
  - exists [], b. split; [reflexivity|]. apply rep_bad.
    + intros E. apply (f_equal (@length N)) in E. rewrite flip_bit_length, enc_block_length in E. cbn in E. lia.
    + rewrite firstn_all2 by (rewrite flip_bit_length, enc_block_length, csz_eq; lia).
      apply validate_block_flip; assumption.
  - discriminate.
  - apply wf_bytes_app in Hw as [Hwb Hwav].
    destruct (Nat.lt_ge_cases (i / 8) (length (enc_block b))) as [Hin|Hout].
    + exists [], (b ++ av). split; [reflexivity|]. rewrite flip_bit_app_l by exact Hin. apply rep_bad.
      * intros E. apply (f_equal (@length N)) in E.
        rewrite app_length, flip_bit_length, enc_block_length in E. cbn in E. lia.
      * assert (HL : (csz + bs)%nat = length (flip_bit (enc_block b) i))
          by (rewrite flip_bit_length, enc_block_length, csz_eq; lia).
        rewrite HL, firstn_app, Nat.sub_diag, firstn_all, firstn_O, app_nil_r.
        apply validate_block_flip; assumption.
    + rewrite flip_bit_app_r by exact Hout.
      destruct (IH Hbad Hwav (i - 8 * length (enc_block b))%nat) as (av1 & av2 & Eav & Hrep').
      * rewrite app_length in Hi.
        replace i with ((i - 8 * length (enc_block b)) + length (enc_block b) * 8)%nat in Hi at 1 by lia.
        rewrite Nat.div_add in Hi by lia. lia.
      * exists (b ++ av1), av2. split; [rewrite Eav, app_assoc; reflexivity|].
        apply rep_cons; assumption.
Qed.

Lemma agree_cons x t' t : agree_until_panic t' t -> agree_until_panic (x :: t') (x :: t).
Proof.
  intros [->|(k & ->)]; [left; reflexivity|]. right. exists (S k). reflexivity.
Qed.

Lemma spec_reads_agree reads : forall av1 av2,
  agree_until_panic (spec_reads av1 true reads) (spec_reads (av1 ++ av2) false reads).
Proof.
  induction reads as [|n reads IH]; intros av1 av2; [left; reflexivity|].
  cbn [spec_reads]. rewrite app_length.
  destruct (Nat.leb_spec n (length av1)) as [Hle|Hgt].
  - destruct (Nat.leb_spec n (length av1 + length av2)); [|lia].
    rewrite firstn_app, skipn_app. replace (n - length av1)%nat with 0%nat by lia.
    rewrite firstn_O, skipn_O, app_nil_r. apply agree_cons, IH.
  - right. exists 0%nat. reflexivity.
Qed.

Theorem single_bit_flip_body_proved bs p reads i : (0 < bs)%nat -> wf_bytes p ->
  agree_until_panic
    (fst (sr_reads bs (v2_reader (flip_bit (file_body bs p) i)) reads))
    (fst (sr_reads bs (v2_reader (file_body bs p)) reads)).
Proof.
  intros Hbs Hw. rewrite (read_write_roundtrip_proved bs p reads Hbs).
  destruct (split_blocks bs p Hbs) as (F & r & HF & Hr & Hc).
  assert (Hrep : rep bs (enc_blocks (blocks bs p)) p false).
  { rewrite <- Hc at 1. rewrite blocks_spec by assumption. rewrite <- Hc. apply rep_blocks; assumption. }
  unfold file_body. set (E := enc_blocks (blocks bs p)) in *.
  destruct (Nat.lt_ge_cases (i / 8) (length E)) as [Hin|Hout].
  - rewrite flip_bit_app_l by exact Hin.
    destruct (rep_flip bs E p false Hrep eq_refl Hw i Hin) as (av1 & av2 & Ep & Hrep').
    replace (v2_reader (flip_bit E i ++ file_tail (nlen E))) with (v2sr (mkBR (flip_bit E i) [])).
    2:{ unfold v2_reader, v2sr. f_equal. f_equal.
        rewrite app_length, file_tail_length, tsz_eq.
        replace (length (flip_bit E i) + 16 - 16)%nat with (length (flip_bit E i)) by lia.
        rewrite firstn_app, Nat.sub_diag, firstn_all, firstn_O, app_nil_r. reflexivity. }
    rewrite (sr_reads_spec bs reads _ av1 true).
    + rewrite Ep. apply spec_reads_agree.
    + exists av1. cbn [br_rest br_block app]. split; [exact Hrep'|reflexivity].
  - left. rewrite flip_bit_app_r by exact Hout.
    replace (v2_reader (E ++ flip_bit (file_tail (nlen E)) (i - 8 * length E))) with (v2sr (mkBR E [])).
    2:{ unfold v2_reader, v2sr. f_equal. f_equal.
        rewrite app_length, flip_bit_length, file_tail_length, tsz_eq.
        replace (length E + 16 - 16)%nat with (length E) by lia.
        rewrite firstn_app, Nat.sub_diag, firstn_all, firstn_O, app_nil_r. reflexivity. }
    apply sr_reads_spec. exists p. cbn [br_rest br_block app]. split; [exact Hrep|reflexivity].
Qed.

(* ------------------------------------------------------------------ *)
(* recorded size                                                        *)

Lemma enc_blocks_length_full bs F : Forall (fun b => length b = bs) F ->
  length (enc_blocks F) = ((bs + 4) * length F)%nat.
Proof.
  induction 1 as [|b F Hb HF IH]; [cbn; lia|].
  unfold enc_blocks in *. cbn [map concat length]. rewrite app_length, enc_block_length, IH. lia.
Qed.

Lemma concat_length_full bs (F : list bytes) : Forall (fun b => length b = bs) F ->
  length (concat F) = (bs * length F)%nat.
Proof.
  induction 1 as [|b F Hb HF IH]; [cbn; lia|]. cbn [concat length]. rewrite app_length, IH. lia.
Qed.

Theorem recorded_size_proved bs p : (0 < bs)%nat ->
  nlen (file_body bs p) = v2_payload_size (N.of_nat bs) (nlen p).
Proof.
  intros Hbs. destruct (split_blocks bs p Hbs) as (F & r & HF & Hr & Hc).
  unfold file_body, v2_payload_size. rewrite nlen_app. unfold nlen at 2.
  rewrite file_tail_length, tail_size_eq, checksum_size_eq.
  rewrite <- Hc at 1. rewrite blocks_spec by assumption. rewrite enc_blocks_app.
  unfold nlen. rewrite app_length, (enc_blocks_length_full bs F HF).
  rewrite <- Hc, app_length, (concat_length_full bs F HF).
  unfold bytes in *.
  replace ((bs + 4) * length F)%nat with (bs * length F + 4 * length F)%nat by lia.
  set (m := (bs * length F)%nat) in *.
  destruct r as [|x r].
  - cbn [last_block enc_blocks map concat length].
    replace ((N.of_nat (m + 0) + N.of_nat bs - 1) / N.of_nat bs) with (N.of_nat (length F)).
    + lia.
    + apply N.div_unique with (N.of_nat bs - 1); unfold m; nia.
  - cbn [last_block]. rewrite enc_blocks_one, app_length, crc_bytes_length.
    replace ((N.of_nat (m + length (x :: r)) + N.of_nat bs - 1) / N.of_nat bs)
      with (N.of_nat (length F) + 1).
    + lia.
    + apply N.div_unique with (N.of_nat (length (x :: r)) - 1); cbn [length] in *; unfold m; nia.
Qed.

(* ------------------------------------------------------------------ *)
(* shrunk snapshots                                                     *)

Theorem shrunk_body_reads_proved bs : (0 < bs)%nat ->
  fst (sr_reads bs (v2_reader (file_body bs empty_lru_session)) [16%nat; 1%nat]) =
  [OData empty_lru_session; OEof []].
Proof. intros Hbs. rewrite read_write_roundtrip_proved by exact Hbs. reflexivity. Qed.

(* ------------------------------------------------------------------ *)
(* the streaming validator: chunking independence and acceptance        *)

Lemma vv_check_fuel bs : forall f1 f2 l, (length l < f1)%nat -> (length l < f2)%nat ->
  vv_check f1 bs l = vv_check f2 bs l.
Proof.
  induction f1 as [|f1 IH]; intros f2 l H1 H2; [lia|].
  destruct f2 as [|f2]; [lia|]. cbn [vv_check].
  destruct (Nat.ltb_spec (csz + bs) (length l)) as [Hlt|Hge]; [|reflexivity].
  f_equal. apply IH; rewrite skipn_length; rewrite csz_eq in *; lia.
Qed.

Lemma vv_check_cons bs B rest f : length B = (csz + bs)%nat -> (length rest < f)%nat ->
  vv_check (S f) bs (B ++ rest) = validate_block B && vv_check f bs rest.
Proof.
  intros HB Hf. cbn [vv_check]. rewrite app_length, HB.
  destruct rest as [|x rest].
  - cbn [length]. rewrite Nat.add_0_r, Nat.ltb_irrefl, app_nil_r.
    rewrite csz_eq. cbn [Nat.add Nat.eqb orb].
    destruct f as [|f]; [cbn in Hf; lia|]. cbn [vv_check length].
    rewrite csz_eq. cbn [Nat.add Nat.ltb Nat.leb Nat.eqb orb]. rewrite andb_true_r. reflexivity.
  - destruct (Nat.ltb_spec (csz + bs) (csz + bs + length (x :: rest))) as [_|H]; [|cbn [length] in H; lia].
    rewrite <- HB, firstn_app, Nat.sub_diag, firstn_all, firstn_O, app_nil_r.
    rewrite skipn_app, Nat.sub_diag, skipn_all, skipn_O. reflexivity.
Qed.

(* one step of AddChunk's loop does not change what Validate will say later *)
Lemma vv_validate_drain_step bs B R Z T : (12 <= bs)%nat ->
  length B = (csz + bs)%nat -> (csz + bs <= length R)%nat ->
  vv_validate bs (mkV2V (B ++ R ++ Z) T) = validate_block B && vv_validate bs (mkV2V (R ++ Z) T).
Proof.
  intros Hbs HB HR. unfold vv_validate. cbn [vv_block vv_total].
  rewrite !app_length, HB, tsz_eq, csz_eq in *.
  destruct (Nat.ltb_spec (4 + bs + (length R + length Z)) 16) as [|_]; [lia|].
  destruct (Nat.ltb_spec (length R + length Z) 16) as [|_]; [lia|].
  set (n' := (length R + length Z - 16)%nat).
  replace (4 + bs + (length R + length Z) - 16)%nat with (length B + n')%nat by (unfold n'; lia).
  rewrite (skipn_app (length B + n')), (skipn_all2 B) by lia. cbn [app].
  replace (length B + n' - length B)%nat with n' by lia.
  destruct (bytes_eqb (skipn 8 (skipn n' (R ++ Z))) block_magic); cbn [negb];
    [|rewrite andb_false_r; reflexivity].
  destruct (le_dec (firstn 8 (skipn n' (R ++ Z))) =? (T + 2 ^ 64 - tail_size) mod 2 ^ 64); cbn [negb];
    [|rewrite andb_false_r; reflexivity].
  rewrite firstn_app, (firstn_all2 B) by lia.
  replace (length B + n' - length B)%nat with n' by lia.
  assert (Hl : length (firstn n' (R ++ Z)) = n').
  { rewrite firstn_length, app_length. unfold n'. lia. }
  rewrite app_length, Hl.
  change (S (length B + n')) with (S (length B + n')).
  rewrite (vv_check_cons bs B (firstn n' (R ++ Z)) (length B + n')) by (rewrite ?csz_eq; lia).
  f_equal. apply vv_check_fuel; lia.
Qed.

Lemma vv_drain_spec bs : (12 <= bs)%nat -> forall fuel blk Z T,
  let '(blk', ok) := vv_drain fuel bs blk in
  if ok then vv_validate bs (mkV2V (blk' ++ Z) T) = vv_validate bs (mkV2V (blk ++ Z) T)
  else vv_validate bs (mkV2V (blk ++ Z) T) = false.
Proof.
  intros Hbs. induction fuel as [|fuel IH]; intros blk Z T; [reflexivity|].
  cbn [vv_drain].
  destruct (Nat.leb_spec (csz + bs) (length (skipn (csz + bs) blk))) as [Hle|Hgt]; [|reflexivity].
  assert (Hlen : (csz + bs <= length blk)%nat).
  { rewrite skipn_length in Hle. rewrite csz_eq in *. lia. }
  assert (HB : length (firstn (csz + bs) blk) = (csz + bs)%nat) by (rewrite firstn_length; lia).
  pose proof (vv_validate_drain_step bs _ _ Z T Hbs HB Hle) as Hstep.
  rewrite app_assoc, firstn_skipn in Hstep.
  destruct (validate_block (firstn (csz + bs) blk)) eqn:Hv.
  - specialize (IH (skipn (csz + bs) blk) Z T).
    destruct (vv_drain fuel bs (skipn (csz + bs) blk)) as [blk' ok].
    rewrite Hstep. cbn [andb]. exact IH.
  - rewrite Hstep. reflexivity.
Qed.

(* for EVERY chunking: running the validator over the chunks = Validate on the whole *)
Theorem vv_run_chunking_independent bs chunks : (12 <= bs)%nat -> forall Y T,
  vv_run bs (mkV2V Y T) chunks =
  vv_validate bs (mkV2V (Y ++ concat chunks) (T + nlen (concat chunks))).
Proof.
  intros Hbs. induction chunks as [|c chunks IH]; intros Y T.
  - cbn [vv_run concat]. rewrite app_nil_r. unfold nlen. cbn [length]. rewrite N.add_0_r. reflexivity.
  - cbn [vv_run concat]. unfold vv_add. cbn [vv_block vv_total].
    pose proof (vv_drain_spec bs Hbs (length (Y ++ c)) (Y ++ c) (concat chunks)
                  (T + nlen c + nlen (concat chunks))) as Hd.
    destruct (vv_drain (length (Y ++ c)) bs (Y ++ c)) as [blk' ok].
    rewrite nlen_app, N.add_assoc, app_assoc.
    destruct ok.
    + rewrite IH. exact Hd.
    + symmetry. exact Hd.
Qed.

Lemma vv_check_enc_blocks bs F : Forall (fun b => length b = bs) F -> (0 < bs)%nat ->
  forall r, (length r < bs)%nat -> forall f, (length (enc_blocks (F ++ last_block r)) < f)%nat ->
  vv_check f bs (enc_blocks (F ++ last_block r)) = true.
Proof.
  intros HF Hbs. induction HF as [|b F Hb HF IH]; intros r Hr f Hf.
  - cbn [app]. destruct r as [|x r].
    + destruct f; [cbn in Hf; lia|]. reflexivity.
    + cbn [last_block] in *. rewrite enc_blocks_one in *. fold (enc_block (x :: r)) in *.
      destruct f; [lia|]. cbn [vv_check]. rewrite enc_block_length in *. rewrite csz_eq.
      destruct (Nat.ltb_spec (4 + bs) (length (x :: r) + 4)) as [H|_]; [cbn [length] in *; lia|].
      rewrite validate_block_enc by (cbn [length]; lia). apply orb_true_r.
  - cbn [app] in *. unfold enc_blocks in *. cbn [map concat] in *. fold (enc_blocks (F ++ last_block r)) in *.
    rewrite app_length, enc_block_length in Hf.
    destruct f; [lia|].
    rewrite vv_check_cons; [|rewrite enc_block_length, csz_eq; lia|unfold enc_blocks in *; lia].
    rewrite validate_block_enc by lia. cbn [andb]. apply IH; [exact Hr|unfold enc_blocks in *; lia].
Qed.

Lemma vv_validate_file_body bs p : (0 < bs)%nat -> nlen (file_body bs p) < 2 ^ 64 ->
  vv_validate bs (mkV2V (file_body bs p) (nlen (file_body bs p))) = true.
Proof.
  intros Hbs Hlt. destruct (split_blocks bs p Hbs) as (F & r & HF & Hr & Hc).
  unfold vv_validate. cbn [vv_block vv_total]. unfold file_body in *.
  set (E := enc_blocks (blocks bs p)) in *.
  rewrite app_length, file_tail_length, tsz_eq.
  destruct (Nat.ltb_spec (length E + 16) 16) as [|_]; [lia|].
  replace (length E + 16 - 16)%nat with (length E) by lia.
  assert (Hsk : skipn (length E) (E ++ file_tail (nlen E)) = file_tail (nlen E)).
  { rewrite skipn_app, Nat.sub_diag, skipn_all. reflexivity. }
  assert (Hfi : firstn (length E) (E ++ file_tail (nlen E)) = E).
  { rewrite firstn_app, Nat.sub_diag, firstn_all, firstn_O, app_nil_r. reflexivity. }
  rewrite Hsk, Hfi. unfold file_tail.
  assert (H8 : length (le 8 (nlen E)) = 8%nat) by apply le_length.
  rewrite <- H8 at 1. rewrite skipn_app, Nat.sub_diag, skipn_all, skipn_O. cbn [app].
  rewrite bytes_eqb_refl. cbn [negb].
  rewrite <- H8 at 1. rewrite firstn_app, Nat.sub_diag, firstn_all, firstn_O, app_nil_r.
  rewrite nlen_app in *. unfold nlen at 2 in Hlt. unfold nlen at 3.
  rewrite app_length, le_length, magic_length in *. rewrite tail_size_eq.
  rewrite le_dec_le by (change (256 ^ N.of_nat 8) with (2 ^ 64); lia).
  replace ((nlen E + N.of_nat (8 + 8) + 2 ^ 64 - 16) mod 2 ^ 64) with (nlen E).
  2:{ replace (nlen E + N.of_nat (8 + 8) + 2 ^ 64 - 16) with (nlen E + 1 * 2 ^ 64) by lia.
      rewrite N.mod_add by lia. symmetry. apply N.mod_small. lia. }
  rewrite N.eqb_refl. cbn [negb].
  unfold E. rewrite <- Hc. rewrite blocks_spec by assumption.
  apply vv_check_enc_blocks; auto.
Qed.

(* the validator accepts exactly... at least everything the writer produces, for EVERY
   way of cutting the block region into chunks *)
Theorem validator_accepts_writer_output_proved bs p chunks : (12 <= bs)%nat ->
  nlen (file_body bs p) < 2 ^ 64 -> concat chunks = file_body bs p ->
  vv_run bs (mkV2V [] 0) chunks = true.
Proof.
  intros Hbs Hlt Hc. rewrite vv_run_chunking_independent by exact Hbs.
  cbn [app]. rewrite N.add_0_l, Hc. apply vv_validate_file_body; [lia|exact Hlt].
Qed.

(* SnapshotValidator once the header chunk selected the v2 validator: chunk ids > 0 *)
Theorem sv_run_v2_proved bs chunks : forall s id, id <> 0 ->
  sv_run bs (V2 s) id chunks = if vv_run bs s chunks then Accept else Reject.
Proof.
  induction chunks as [|c chunks IH]; intros s id Hid.
  - reflexivity.
  - cbn [sv_run vv_run]. unfold sv_add. destruct (N.eqb_spec id 0) as [|_]; [contradiction|].
    destruct (vv_add bs s c) as [s' ok]. destruct ok; [|reflexivity].
    apply IH. lia.
Qed.

(* ------------------------------------------------------------------ *)
(* pb.Snapshot.Validate                                                 *)

Definition pv_exact (f : pv_file) : Prop :=
  let '(haspath, recorded, actual) := f in
  haspath = true /\ recorded <> 0 /\ actual = Some recorded.

Theorem snapshot_validate_exact_proved l : panic_on_size_mismatch = true ->
  snapshot_validate l = PvTrue -> l <> [] /\ Forall pv_exact l.
Proof.
  intros Hp H. destruct l as [|f0 l0]; [discriminate|]. split; [discriminate|].
  unfold snapshot_validate in H. remember (f0 :: l0) as l eqn:E. clear E f0 l0.
  induction l as [|[[hp rc] act] l IH]; [constructor|].
  cbn [pv_validate pv_check] in H.
  destruct hp; cbn [negb orb] in H; [|discriminate].
  destruct (N.eqb_spec rc 0) as [|Hrc]; [discriminate|].
  destruct act as [a|]; [|discriminate].
  destruct (N.eqb_spec rc a) as [->|Hne].
  - constructor; [cbn; auto|apply IH; exact H].
  - rewrite Hp in H. discriminate.
Qed.
