(* Lemmas about Model/BlockFile.v: the writer's closed form, the reader, bit flips, the
   streaming validator. *)
From DB Require Import Base.Bytes Base.CRC32 Gen.GenC14 Model.SnapshotHeader Model.BlockFile
  Proofs.Bytes Proofs.CRC32.
From Coq Require Import ZifyN ZifyNat ZifyBool.
Ltac Zify.zify_post_hook ::= Z.div_mod_to_equations.
Open Scope N_scope.

(* regenerated constants the proofs depend on *)
Lemma csz_eq : csz = 4%nat. Proof. reflexivity. Qed.
Lemma tsz_eq : tsz = 16%nat. Proof. reflexivity. Qed.
Lemma hsz_eq : hsz = 1024%nat. Proof. reflexivity. Qed.
Lemma checksum_size_eq : checksum_size = 4. Proof. reflexivity. Qed.
Lemma tail_size_eq : tail_size = 16. Proof. reflexivity. Qed.
Lemma magic_length : length block_magic = 8%nat. Proof. reflexivity. Qed.
Lemma magic_wf : wf_bytes block_magic.
Proof. unfold block_magic. repeat constructor. Qed.

Lemma crc_bytes_length l : length (crc_bytes l) = 4%nat.
Proof. unfold crc_bytes. apply be_length. Qed.
Lemma crc_bytes_wf l : wf_bytes (crc_bytes l).
Proof. unfold crc_bytes. apply be_wf. Qed.

Lemma bytes_eqb_eq a : forall b, bytes_eqb a b = true <-> a = b.
Proof.
  induction a as [|x a IH]; intros [|y b]; cbn [bytes_eqb]; split; intros H; try discriminate; auto.
  - apply andb_true_iff in H as [H1 H2]. apply N.eqb_eq in H1. apply IH in H2. subst. reflexivity.
  - inversion H; subst. rewrite N.eqb_refl. cbn. apply IH. reflexivity.
Qed.
Lemma bytes_eqb_refl a : bytes_eqb a a = true.
Proof. apply bytes_eqb_eq. reflexivity. Qed.

(* ------------------------------------------------------------------ *)
(* chunking                                                             *)

Lemma chunks_fuel n : (0 < n)%nat -> forall f1 f2 l,
  (length l <= f1)%nat -> (length l <= f2)%nat -> chunks f1 n l = chunks f2 n l.
Proof.
  intros Hn. induction f1 as [|f1 IH]; intros f2 l H1 H2.
  - destruct l; [|cbn in H1; lia]. destruct f2; reflexivity.
  - destruct l as [|x l]; [destruct f2; reflexivity|].
    destruct f2 as [|f2]; [cbn in H2; lia|].
    cbn [chunks]. f_equal. apply IH.
    + rewrite skipn_length. cbn [length] in *. lia.
    + rewrite skipn_length. cbn [length] in *. lia.
Qed.

Lemma blocks_nil bs : blocks bs [] = [].
Proof. reflexivity. Qed.

Lemma blocks_cons bs b q : (0 < bs)%nat -> length b = bs ->
  blocks bs (b ++ q) = b :: blocks bs q.
Proof.
  intros Hbs Hb. unfold blocks.
  destruct (b ++ q) as [|x l] eqn:E.
  - destruct b; [cbn in Hb; lia|discriminate].
  - rewrite <- E. assert (HL : length (b ++ q) = S (length l)) by (rewrite E; reflexivity).
    rewrite HL. cbn [chunks]. rewrite E. rewrite <- E.
    rewrite <- Hb, firstn_app, Nat.sub_diag, firstn_all, firstn_O, app_nil_r.
    rewrite skipn_app, Nat.sub_diag, skipn_all, skipn_O. cbn [app]. f_equal.
    apply chunks_fuel; [lia| |lia]. rewrite app_length in HL. lia.
Qed.

Lemma blocks_last bs r : (0 < length r <= bs)%nat -> blocks bs r = [r].
Proof.
  intros Hr. unfold blocks. destruct r as [|x r]; [cbn in Hr; lia|].
  cbn [length] in Hr. cbn [length chunks]. rewrite firstn_all2 by (cbn [length]; lia).
  rewrite skipn_all2 by (cbn [length]; lia). destruct (length r); reflexivity.
Qed.

Definition last_block (r : bytes) : list bytes := match r with [] => [] | _ => [r] end.

Lemma blocks_spec bs F : (0 < bs)%nat -> Forall (fun b => length b = bs) F ->
  forall r, (length r < bs)%nat -> blocks bs (concat F ++ r) = F ++ last_block r.
Proof.
  intros Hbs HF. induction HF as [|b F Hb HF IH]; intros r Hr.
  - cbn [concat app]. destruct r as [|x r]; [reflexivity|]. apply blocks_last. cbn [length] in *. lia.
  - cbn [concat]. rewrite <- app_assoc, blocks_cons by assumption. rewrite IH by assumption. reflexivity.
Qed.

(* ------------------------------------------------------------------ *)
(* the writer                                                           *)

Definition outs (F : list bytes) : list (bytes * bytes) := map (fun b => (b, crc_bytes b)) F.
Definition crcs (F : list bytes) : bytes := concat (map crc_bytes F).

Definition bw_inv (bs : nat) (F : list bytes) (r : bytes) (fl : bool) : bw :=
  mkBW r (bs * length F + length r) (bs * (length F + 1)) (nlen (enc_blocks F)) (crcs F) (outs F) fl.

Lemma enc_blocks_app F G : enc_blocks (F ++ G) = enc_blocks F ++ enc_blocks G.
Proof. unfold enc_blocks. rewrite map_app, concat_app. reflexivity. Qed.
Lemma enc_blocks_one b : enc_blocks [b] = b ++ crc_bytes b.
Proof. unfold enc_blocks, enc_block. cbn. rewrite app_nil_r. reflexivity. Qed.
Lemma crcs_app F G : crcs (F ++ G) = crcs F ++ crcs G.
Proof. unfold crcs. rewrite map_app, concat_app. reflexivity. Qed.
Lemma outs_app F G : outs (F ++ G) = outs F ++ outs G.
Proof. unfold outs. apply map_app. Qed.
Lemma out_bytes_outs F : out_bytes (outs F) = enc_blocks F.
Proof. unfold out_bytes, outs, enc_blocks. rewrite map_map. reflexivity. Qed.
Lemma out_bytes_app a b : out_bytes (a ++ b) = out_bytes a ++ out_bytes b.
Proof. unfold out_bytes. rewrite map_app, concat_app. reflexivity. Qed.

Lemma nlen_app {A} (a b : list A) : nlen (a ++ b) = nlen a + nlen b.
Proof. unfold nlen. rewrite app_length. lia. Qed.

Lemma bw_write_loop_step fuel bs st D : D <> [] ->
  bw_write_loop (S fuel) bs st D =
    let l := Nat.min (bw_next st - bw_written st) (length D) in
    let blk := bw_block st ++ firstn l D in
    let w := (bw_written st + l)%nat in
    let st1 := mkBW blk w (bw_next st) (bw_total st) (bw_fh st) (bw_out st) (bw_flushed st) in
    let st2 := if (w =? bw_next st)%nat
               then bw_emit st1 blk (crc_bytes blk) (bw_total st + N.of_nat (length blk) + checksum_size)
                            (bw_next st + bs)%nat [] (bw_flushed st)
               else st1 in
    bw_write_loop fuel bs st2 (skipn l D).
Proof. destruct D; [congruence|reflexivity]. Qed.

Lemma step_inv fuel bs F r fl D : D <> [] -> (length r < bs)%nat ->
  bw_write_loop (S fuel) bs (bw_inv bs F r fl) D =
    let l := Nat.min (bs - length r) (length D) in
    if (length r + l =? bs)%nat
    then bw_write_loop fuel bs (bw_inv bs (F ++ [r ++ firstn l D]) [] fl) (skipn l D)
    else bw_write_loop fuel bs (bw_inv bs F (r ++ firstn l D) fl) (skipn l D).
Proof.
  intros HD Hr. rewrite bw_write_loop_step by exact HD. cbv zeta.
  unfold bw_inv. cbn [bw_next bw_written bw_block bw_total bw_fh bw_out bw_flushed].
  replace (bs * (length F + 1) - (bs * length F + length r))%nat with (bs - length r)%nat by nia.
  remember (Nat.min (bs - length r) (length D)) as l eqn:El.
  assert (Hfl : length (firstn l D) = l) by (rewrite firstn_length; lia).
  destruct (Nat.eqb_spec (length r + l) bs) as [Heq|Hne].
  - replace (bs * length F + length r + l =? bs * (length F + 1))%nat with true
      by (symmetry; apply Nat.eqb_eq; nia).
    f_equal. unfold bw_emit. cbn [bw_written bw_fh bw_out length].
    rewrite !app_length. cbn [length]. rewrite enc_blocks_app, enc_blocks_one, crcs_app, outs_app.
    rewrite !nlen_app. unfold crcs at 2, outs at 2. cbn [map concat]. rewrite ?app_nil_r.
    f_equal; try nia.
    unfold nlen. rewrite crc_bytes_length, checksum_size_eq, Hfl. lia.
  - replace (bs * length F + length r + l =? bs * (length F + 1))%nat with false
      by (symmetry; apply Nat.eqb_neq; nia).
    f_equal. f_equal. rewrite app_length, Hfl. lia.
Qed.

Lemma bw_write_loop_inv bs : (0 < bs)%nat -> forall fuel d F r fl,
  (length d < fuel)%nat -> Forall (fun b => length b = bs) F -> (length r < bs)%nat ->
  exists F' r', bw_write_loop fuel bs (bw_inv bs F r fl) d = bw_inv bs F' r' fl /\
    Forall (fun b => length b = bs) F' /\ (length r' < bs)%nat /\
    concat F' ++ r' = (concat F ++ r) ++ d.
Proof.
  intros Hbs. induction fuel as [|fuel IH]; intros d F r fl Hf HF Hr; [lia|].
  destruct d as [|x d].
  - exists F, r. cbn [bw_write_loop]. rewrite app_nil_r. auto.
  - remember (x :: d) as D eqn:ED.
    assert (HD : (0 < length D)%nat) by (subst D; cbn; lia).
    rewrite step_inv by (try (subst D; discriminate); exact Hr). cbv zeta.
    remember (Nat.min (bs - length r) (length D)) as l eqn:El.
    assert (Hl1 : (0 < l <= length D)%nat) by lia.
    assert (Hfl : length (firstn l D) = l) by (rewrite firstn_length; lia).
    destruct (Nat.eqb_spec (length r + l) bs) as [Heq|Hne].
    + assert (Hblk : length (r ++ firstn l D) = bs) by (rewrite app_length, Hfl; nia).
      destruct (IH (skipn l D) (F ++ [r ++ firstn l D]) [] fl) as (F' & r' & E & HF' & Hr' & Hc).
      * rewrite skipn_length. lia.
      * apply Forall_app; split; [exact HF|constructor; [exact Hblk|constructor]].
      * cbn; lia.
      * exists F', r'. split; [exact E|split; [exact HF'|split; [exact Hr'|]]].
        rewrite Hc. rewrite concat_app. cbn [concat]. rewrite !app_nil_r, <- !app_assoc.
        f_equal. f_equal. apply firstn_skipn.
    + assert (Hld : l = length D) by nia.
      exists F, (r ++ firstn l D).
      rewrite Hld, firstn_all, skipn_all.
      destruct fuel; [cbn in Hf; lia|]. cbn [bw_write_loop].
      split; [reflexivity|split; [exact HF|split]].
      * rewrite app_length. nia.
      * rewrite <- !app_assoc. reflexivity.
Qed.

Definition wfold (bs : nat) (segs : list bytes) (o : option bw) : option bw :=
  fold_left (fun o s => match o with Some st => bw_write bs st s | None => None end) segs o.
Lemma bw_write_all_wfold bs segs : bw_write_all bs segs = wfold bs segs (Some (bw_init bs)).
Proof. reflexivity. Qed.

(* the state after writing segments whose concatenation is p *)
Lemma bw_write_all_inv bs : (0 < bs)%nat -> forall segs F r,
  Forall (fun b => length b = bs) F -> (length r < bs)%nat ->
  exists F' r',
    wfold bs segs (Some (bw_inv bs F r false)) = Some (bw_inv bs F' r' false) /\
    Forall (fun b => length b = bs) F' /\ (length r' < bs)%nat /\
    concat F' ++ r' = (concat F ++ r) ++ concat segs.
Proof.
  intros Hbs. induction segs as [|s segs IH]; intros F r HF Hr.
  - exists F, r. cbn. rewrite app_nil_r. auto.
  - unfold wfold. cbn [fold_left]. fold (wfold bs segs). unfold bw_write. cbn [bw_inv bw_flushed].
    destruct (bw_write_loop_inv bs Hbs (S (length s)) s F r false) as (F1 & r1 & E & HF1 & Hr1 & Hc1); auto.
    fold (bw_inv bs F r false). rewrite E.
    destruct (IH F1 r1 HF1 Hr1) as (F' & r' & E' & HF' & Hr' & Hc').
    exists F', r'. split; [exact E'|split; [exact HF'|split; [exact Hr'|]]].
    rewrite Hc', Hc1. cbn [concat]. rewrite <- !app_assoc. reflexivity.
Qed.

Lemma bw_init_inv bs : bw_init bs = bw_inv bs [] [] false.
Proof. unfold bw_init, bw_inv. cbn. f_equal; lia. Qed.

Theorem v2_body_closed_form bs segs : (0 < bs)%nat ->
  v2_body_of bs segs = Some (file_body bs (concat segs), payload_checksum bs (concat segs)).
Proof.
  intros Hbs. unfold v2_body_of. rewrite bw_write_all_wfold, bw_init_inv.
  destruct (bw_write_all_inv bs Hbs segs [] []) as (F & r & E & HF & Hr & Hc); [constructor|cbn; lia|].
  match goal with |- match ?x with _ => _ end = _ =>
    replace x with (Some (bw_inv bs F r false)) by (symmetry; exact E) end.
  cbn [concat app] in Hc.
  assert (HB : blocks bs (concat segs) = F ++ last_block r).
  { rewrite <- Hc. apply blocks_spec; assumption. }
  unfold file_body, payload_checksum. rewrite HB.
  unfold bw_close, bw_inv. cbn [bw_flushed bw_block].
  destruct r as [|x r].
  - cbn [last_block]. rewrite app_nil_r.
    unfold bw_emit, bw_payload_checksum. cbn [bw_total bw_next bw_block bw_written bw_fh bw_out].
    rewrite out_bytes_app, out_bytes_outs, app_nil_r. unfold out_bytes. cbn [map concat fst snd].
    rewrite !app_nil_r. reflexivity.
  - cbn [last_block].
    unfold bw_emit, bw_payload_checksum. cbn [bw_total bw_next bw_block bw_written bw_fh bw_out].
    rewrite !out_bytes_app, out_bytes_outs. unfold out_bytes. cbn [map concat fst snd].
    rewrite !app_nil_r. rewrite enc_blocks_app, enc_blocks_one.
    unfold crcs. rewrite map_app, concat_app. cbn [map concat]. rewrite !app_nil_r, <- !app_assoc.
    assert (Hn : nlen (enc_blocks F ++ (x :: r) ++ crc_bytes (x :: r)) =
                 nlen (enc_blocks F) + N.of_nat (length (x :: r)) + checksum_size).
    { rewrite !nlen_app. unfold nlen. rewrite crc_bytes_length, checksum_size_eq. lia. }
    unfold file_tail. rewrite Hn. reflexivity.
Qed.

Theorem write_depends_only_on_concat_proved bs segs1 segs2 : (0 < bs)%nat ->
  concat segs1 = concat segs2 -> v2_body_of bs segs1 = v2_body_of bs segs2.
Proof. intros Hbs H. rewrite !v2_body_closed_form by exact Hbs. rewrite H. reflexivity. Qed.
