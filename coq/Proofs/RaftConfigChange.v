(* C07, raft side (local): at most one config change is admitted while one is pending, the
   flag is set by becoming leader with an uncommitted change in the log, and no campaign is
   started while committed entries are unapplied. *)
From DB Require Import Model.RaftCore Proofs.RaftStep.
From Coq Require Import Arith ZifyN ZifyNat ZifyBool Lia.
Open Scope N_scope.

Definition is_cc (e : entry) : bool := e_type e =? et_ConfigChangeEntry.

(* handleLeaderPropose's scan: what comes out holds at most one config change when none was
   pending, none when one was pending; the flag is set iff a change was seen or was pending *)
Lemma count_cc_app a b : count_cc (a ++ b) = count_cc a + count_cc b.
Proof. unfold count_cc, nlen. rewrite filter_app, app_length. lia. Qed.

Lemma count_cc_cons e l : count_cc (e :: l) = (if is_cc e then 1 else 0) + count_cc l.
Proof. unfold count_cc, nlen, is_cc. cbn [filter]. destruct (e_type e =? et_ConfigChangeEntry); cbn [length]; lia. Qed.

Definition noop_entry := mkEnt 0 0 et_ApplicationEntry 0 0 0 0 [].
Lemma noop_not_cc : is_cc noop_entry = false.
Proof. reflexivity. Qed.

(* what the scan hands to appendEntries, as a function of the pending flag *)
Fixpoint scan_out (p : bool) (ents : list entry) : list entry :=
  match ents with
  | [] => []
  | e :: rest => if is_cc e then (if p then noop_entry else e) :: scan_out true rest
                 else e :: scan_out p rest
  end.

Lemma propose_scan_out : forall ents r acc,
  snd (propose_scan r ents acc) = rev acc ++ scan_out (r_pending_cc r) ents /\
  r_pending_cc (fst (propose_scan r ents acc)) = r_pending_cc r || existsb is_cc ents.
Proof.
  induction ents as [|e rest IH]; intros r acc; cbn [propose_scan scan_out existsb].
  - cbn [fst snd]. rewrite app_nil_r, orb_false_r. split; reflexivity.
  - fold (is_cc e). destruct (is_cc e) eqn:Ec.
    + destruct (r_pending_cc r) eqn:Ep.
      * destruct (IH (r <| r_dropped_entries := r_dropped_entries r ++ [e] |> <| r_pending_cc := true |>)
                     (noop_entry :: acc)) as [I1 I2].
        change (r_pending_cc (r <| r_dropped_entries := r_dropped_entries r ++ [e] |> <| r_pending_cc := true |>)) with true in I1, I2.
        unfold noop_entry in *. rewrite I1, I2. cbn [rev]. rewrite <- app_assoc. split; reflexivity.
      * destruct (IH (r <| r_pending_cc := true |>) (e :: acc)) as [I1 I2].
        change (r_pending_cc (r <| r_pending_cc := true |>)) with true in I1, I2.
        rewrite I1, I2. cbn [rev]. rewrite <- app_assoc. split; reflexivity.
    + destruct (IH r (e :: acc)) as [I1 I2]. rewrite I1, I2. cbn [rev]. rewrite <- app_assoc. split; reflexivity.
Qed.

Lemma scan_out_count : forall ents p,
  count_cc (scan_out p ents) <= (if p then 0 else 1).
Proof.
  induction ents as [|e rest IH]; intros p; cbn [scan_out].
  - unfold count_cc, nlen. simpl. destruct p; lia.
  - destruct (is_cc e) eqn:Ec.
    + specialize (IH true). cbv iota in IH. destruct p; rewrite count_cc_cons.
      * rewrite noop_not_cc. lia.
      * rewrite Ec. lia.
    + specialize (IH p). rewrite count_cc_cons, Ec. lia.
Qed.

(* handleLeaderPropose admits at most one membership change, and none while one is pending;
   afterwards the flag is set iff one was pending or one was proposed *)
Theorem propose_admits_one_cc_proved r ents :
  count_cc (snd (propose_scan r ents [])) <= (if r_pending_cc r then 0 else 1) /\
  r_pending_cc (fst (propose_scan r ents [])) = r_pending_cc r || existsb is_cc ents.
Proof.
  destruct (propose_scan_out ents r []) as [H1 H2]. rewrite H1, H2. cbn [rev app].
  split; [apply scan_out_count|reflexivity].
Qed.

(* no campaign while a committed entry is unapplied (a membership change may be among them) *)
Theorem no_campaign_with_unapplied_proved r m :
  is_leader r = false -> r_applied r < l_committed (r_log r) -> handle_node_election r m = r.
Proof.
  intros Hl Ha. unfold handle_node_election. rewrite Hl.
  unfold has_config_change_to_apply, gen_hasConfigChangeToApply.
  destruct (N.ltb_spec (r_applied r) (l_committed (r_log r))); [reflexivity|lia].
Qed.

(* applying (or rejecting) a change clears the flag; nothing else in the membership path sets it *)
Theorem apply_clears_pending_proved r m :
  r_panic (handle_node_config_change r m) = false ->
  m_hinthigh m = cc_AddNonVoting \/ m_hinthigh m = cc_AddWitness \/ m_reject m = true ->
  r_pending_cc (handle_node_config_change r m) = false.
Proof.
  intros Hp Hk. unfold handle_node_config_change in *. destruct (m_reject m) eqn:Er; [reflexivity|].
  cbv zeta in *. destruct Hk as [Hk|[Hk|Hk]]; [| |discriminate]; rewrite Hk in *.
  - change (cc_AddNonVoting =? cc_AddNode) with false in *. change (cc_AddNonVoting =? cc_RemoveNode) with false in *.
    change (cc_AddNonVoting =? cc_AddNonVoting) with true in *. cbv iota in *.
    unfold add_nonvoting in *. cbv zeta in *. destruct (_ && _); [simpl in Hp; discriminate|].
    destruct (amem _ _); reflexivity.
  - change (cc_AddWitness =? cc_AddNode) with false in *. change (cc_AddWitness =? cc_RemoveNode) with false in *.
    change (cc_AddWitness =? cc_AddNonVoting) with false in *. change (cc_AddWitness =? cc_AddWitness) with true in *.
    cbv iota in *. unfold add_witness in *. cbv zeta in *. destruct (_ && _); [simpl in Hp; discriminate|].
    destruct (amem _ _); reflexivity.
Qed.
