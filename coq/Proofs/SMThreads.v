(* C11 — invariants of the interleaving model Model/SMThreads.v.
   Everything is proved for an ARBITRARY configuration [c] satisfying boolean
   table conditions; Props/C11.v instantiates [c] with the configuration
   generated from the source and discharges the conditions by computation. *)
From Coq Require Import NArith List Bool String Arith Lia.
From DB Require Import Gen.GenC11 Model.SMThreads.
Import ListNotations.
Open Scope nat_scope.

(* ---------- lists ---------- *)
Lemma upd_length {A} i (v : A) l : List.length (upd i v l) = List.length l.
Proof. revert i; induction l; destruct i; simpl; auto. Qed.

Lemma nth_upd {A} i j (v d : A) l :
  nth j (upd i v l) d = if (i =? j) && (i <? List.length l) then v else nth j l d.
Proof.
  revert i j; induction l; intros i j; simpl.
  - destruct i, j; simpl; auto. rewrite andb_false_r; auto.
  - destruct i, j; simpl; auto. rewrite IHl.
    replace (S i <? S (List.length l)) with (i <? List.length l); auto.
Qed.

Lemma others_ok_spec f m i l :
  f idle_thread = LNone ->
  others_ok f m (Some i) l = true ->
  forall j, j <> i -> compat m (f (nth j l idle_thread)) = true.
Proof.
  intros Hf.
  assert (HN : forall l, others_ok f m None l = true -> forall j, compat m (f (nth j l idle_thread)) = true).
  { induction l0; simpl; intros H j.
    - destruct j; rewrite Hf; destruct m; auto.
    - apply andb_prop in H; destruct H. destruct j; auto. }
  revert i; induction l; simpl; intros i H j Hj.
  - destruct j; rewrite Hf; destruct m; auto.
  - destruct i.
    + destruct j; [congruence|]. apply HN; auto.
    + apply andb_prop in H; destruct H as [H1 H2]. destruct j; auto.
      simpl. apply IHl with (i := i); auto.
Qed.

Lemma compat_sym a b : compat a b = compat b a.
Proof. destruct a, b; auto. Qed.
Lemma compat_none_r a : compat a LNone = true.
Proof. destruct a; auto. Qed.

Definition is_busy (t : thread) : bool := match t_busy t with None => false | Some _ => true end.
Definition busy_count (l : list thread) : nat := List.length (filter is_busy l).
Definition b2n (b : bool) : nat := if b then 1 else 0.

Lemma busy_count_upd i v l :
  i < List.length l ->
  busy_count (upd i v l) + b2n (is_busy (nth i l idle_thread)) = busy_count l + b2n (is_busy v).
Proof.
  unfold busy_count. revert i; induction l; simpl; intros i H; [lia|].
  destruct i; simpl.
  - destruct (is_busy v), (is_busy a); simpl; lia.
  - assert (H' : i < List.length l) by lia. specialize (IHl i H').
    destruct (is_busy a); simpl; lia.
Qed.

Lemma busy_count_zero l : busy_count l = 0 -> forall j, is_busy (nth j l idle_thread) = false.
Proof.
  unfold busy_count. induction l; simpl; intros H j.
  - destruct j; auto.
  - destruct (is_busy a) eqn:E; simpl in H; [lia|]. destruct j; auto.
Qed.

Lemma root_sites_in c r s : In s (root_sites c r) -> In s (c_sites c) /\ s_root s = r.
Proof.
  unfold root_sites. rewrite filter_In. intros [H1 H2]. apply andb_prop in H2. destruct H2 as [H2 _].
  apply String.eqb_eq in H2. auto.
Qed.

(* ---------- the invariant ---------- *)
Definition allowed (c : cfg) (r : role) (b : option jobkind) : list site :=
  match r, b with
  | RApply, _ => apply_sites c
  | RClose, _ => close_sites c
  | RSnap, Some j => job_sites c j
  | RSnap, None => []
  | RReader, _ => reader_sites c
  end.

Definition ph_le3 (p : phase) : bool := match p with P0 | P1 | P2 | P3 => true | _ => false end.
Definition ph_45 (p : phase) : bool := match p with P4 | P5 => true | _ => false end.
Definition ph_234 (p : phase) : bool := match p with P2 | P3 | P4 => true | _ => false end.

Definition closing (st : state) : Prop :=
  close_ready st = true \/ is_idle (getT st 1) = false \/ closed st = true.

Definition running_stream (t : thread) : bool :=
  match t_busy t with Some JStream => negb (is_idle t) | _ => false end.

Record inv (c : cfg) (st : state) : Prop := {
  i_len : 2 <= List.length (thr st);
  i_job : forall i, Forall (fun s => In s (allowed c (role_of c i) (t_busy (getT st i)))) (t_job (getT st i));
  i_busy_role : forall i, is_busy (getT st i) = true -> role_of c i = RSnap;
  i_lockS : forall i j, i <> j -> compat (holdsS (getT st i)) (holdsS (getT st j)) = true;
  i_lockD : forall i j, i <> j -> compat (holdsD (getT st i)) (holdsD (getT st j)) = true;
  i_cnt : cnt st = b2n (negb (stopped st)) + b2n (ref_eqb (ap_ref st) Loaded)
                   + b2n (ref_eqb (pool_ref st) Loaded) + busy_count (thr st);
  i_ap : is_idle (getT st 0) = false \/ ap_chk st = true -> ap_ref st = Loaded;
  i_ap_seen : c_load_atomic_engine c = true -> ap_ref st <> Seen;
  i_pool_seen : c_load_atomic_pool c = true -> pool_ref st <> Seen;
  i_pool : pool_chk st = true -> pool_ref st = Loaded;
  i_closing : closing st ->
      stopped st = true /\ is_idle (getT st 0) = true /\ ap_chk st = false
      /\ pool_chk st = false /\ busy_count (thr st) = 0
      /\ (c_load_atomic_engine c = true -> ap_ref st <> Loaded)
      /\ (c_load_atomic_pool c = true -> pool_ref st <> Loaded);
  i_closer : let t := getT st 1 in
      match t_job t with
      | [] => closed st = destroyed st
      | s :: _ =>
        if ph_le3 (t_ph t) then closed st = false /\ destroyed st = false
        else if ph_45 (t_ph t) then closed st = true /\ destroyed st = false
        else closed st = true /\ destroyed st = true
      end;
  i_nclose : nclose st = b2n (closed st);
  i_chk : forall i s r, t_job (getT st i) = s :: r -> s_chk_de s = true -> s_dmu s <> LNone ->
      match t_ph (getT st i) with P3 | P4 => destroyed st = false | _ => True end;
  i_stream1 : forall i, running_stream (getT st i) = true -> ss_streaming st = true /\ stream_done st = false;
  i_stream2 : forall i j, i <> j -> running_stream (getT st i) = true -> running_stream (getT st j) = true -> False;
  i_stream3 : stream_done st = true -> ss_streaming st = true;
  i_closer_job : t_job (getT st 1) = [] \/ t_job (getT st 1) = close_sites c;
  i_admit : forall i j a b, i <> j -> t_busy (getT st i) = Some a -> t_busy (getT st j) = Some b ->
      job_conflict a b = false;
  i_pend : pend st JStream = true ->
      ss_streaming st = true /\ stream_done st = false /\ forall i, running_stream (getT st i) = false
}.

(* table conditions *)
Definition table_ok (c : cfg) : bool :=
  table_core_ok c && close_locked c
  && forallb (fun s => meth_eqb (s_meth s) MClose) (close_sites c)
  && (List.length (close_sites c) <=? 1)
  && forallb (fun s => negb (meth_eqb (s_meth s) MClose) || String.eqb (s_root s) "Close") (c_sites c)
  && forallb (fun s => negb (core (s_meth s)) && negb (plain_excl (s_meth s))) (reader_sites c)
  && forallb (fun s => negb (meth_eqb (s_meth s) MPrepare)) (apply_sites c)
  && (c_load_atomic_pool c || c_pool_rechecks c)
  && (c_load_atomic_engine c || c_apply_checks_stopped c)
  && c_pool_stop_before_unload c && c_sched_checks_loaded c && c_stream_checks_flag c
  && pool_blocks_ok c
  && c_book_atomic c && c_close_checks_destroyed c
  && forallb (fun s => negb (meth_eqb (s_meth s) MUpdate) || String.eqb (s_root s) "Handle") (c_sites c).

Section Proofs.
Variable c : cfg.
Hypothesis Htab : table_ok c = true.

Lemma tab_parts :
  table_core_ok c = true /\ close_locked c = true
  /\ forallb (fun s => meth_eqb (s_meth s) MClose) (close_sites c) = true
  /\ (List.length (close_sites c) <=? 1) = true
  /\ forallb (fun s => negb (meth_eqb (s_meth s) MClose) || String.eqb (s_root s) "Close") (c_sites c) = true
  /\ forallb (fun s => negb (core (s_meth s)) && negb (plain_excl (s_meth s))) (reader_sites c) = true
  /\ forallb (fun s => negb (meth_eqb (s_meth s) MPrepare)) (apply_sites c) = true
  /\ (c_load_atomic_pool c || c_pool_rechecks c) = true
  /\ (c_load_atomic_engine c || c_apply_checks_stopped c) = true.
Proof.
  pose proof Htab as H. unfold table_ok in H. do 7 (apply andb_prop in H; destruct H as [H _]).
  repeat (apply andb_prop in H; destruct H as [H ?]). tauto.
Qed.

Lemma tab_stop : c_pool_stop_before_unload c = true /\ c_sched_checks_loaded c = true /\ c_stream_checks_flag c = true.
Proof.
  pose proof Htab as H. unfold table_ok in H. do 4 (apply andb_prop in H; destruct H as [H _]).
  do 2 (apply andb_prop in H; destruct H as [H ?]).
  apply andb_prop in H. tauto.
Qed.

Lemma tab_book :
  c_book_atomic c = true
  /\ forallb (fun s => negb (meth_eqb (s_meth s) MUpdate) || String.eqb (s_root s) "Handle") (c_sites c) = true.
Proof.
  pose proof Htab as H. unfold table_ok in H. apply andb_prop in H. destruct H as [H ?].
  do 2 (apply andb_prop in H; destruct H as [H ?]). tauto.
Qed.

Lemma tab_closechk : c_close_checks_destroyed c = true.
Proof.
  pose proof Htab as H. unfold table_ok in H. do 2 (apply andb_prop in H; destruct H as [H ?]). auto.
Qed.

Lemma tab_blocks a b : admit_conflict c a b = job_conflict a b.
Proof.
  pose proof Htab as H. unfold table_ok in H. do 3 (apply andb_prop in H; destruct H as [H _]).
  apply andb_prop in H. destruct H as [_ H].
  unfold pool_blocks_ok in H. rewrite forallb_forall in H.
  assert (Ha : In a all_jobkinds) by (destruct a; simpl; auto).
  assert (Hb : In b all_jobkinds) by (destruct b; simpl; auto).
  specialize (H a Ha). rewrite forallb_forall in H. specialize (H b Hb). apply Bool.eqb_prop in H. exact H.
Qed.

Lemma getT_set_thr st l j : getT (set_thr st l) j = nth j l idle_thread.
Proof. reflexivity. Qed.

Lemma getT_upd st i v j :
  nth j (upd i v (thr st)) idle_thread = if (i =? j) && (i <? List.length (thr st)) then v else getT st j.
Proof. unfold getT. apply nth_upd. Qed.

Lemma idle_holds : holdsS idle_thread = LNone /\ holdsD idle_thread = LNone.
Proof. split; reflexivity. Qed.

(* sites never write destroyed unless they belong to the Close root *)
Lemma nonclose_site_plain s :
  In s (c_sites c) -> s_root s <> "Close"%string ->
  s_post s = false /\ s_meth s <> MSetDestroyed /\ s_meth s <> MClose.
Proof.
  intros Hin Hr. destruct tab_parts as (_ & Hcl & _ & _ & Hcr & _).
  unfold close_locked in Hcl. apply andb_prop in Hcl. destruct Hcl as [Hcl H3]. apply andb_prop in Hcl. destruct Hcl as [_ H2].
  rewrite forallb_forall in H2, H3, Hcr. specialize (H2 s Hin). specialize (H3 s Hin). specialize (Hcr s Hin).
  assert (Hne : String.eqb (s_root s) "Close" = false) by (apply String.eqb_neq; auto).
  rewrite Hne in *. repeat split.
  - destruct (s_post s); simpl in H3; congruence.
  - intro E. rewrite E in H2. congruence.
  - intro E. rewrite E in Hcr. simpl in Hcr. congruence.
Qed.

Lemma allowed_root r b s :
  In s (allowed c r b) ->
  In s (c_sites c) /\
  match r with
  | RClose => s_root s = "Close"%string
  | _ => s_root s <> "Close"%string
  end.
Proof.
  destruct r; simpl.
  - unfold apply_sites. intros H. apply root_sites_in in H. destruct H as [H1 H2]. split; auto. rewrite H2. discriminate.
  - unfold close_sites. intros H. apply root_sites_in in H. tauto.
  - destruct b as [j|]; [|simpl; tauto]. unfold job_sites.
    intros H. destruct j; repeat (apply in_app_or in H; destruct H as [H|H]);
      try (destruct (is_disk (c_kind c)); [|simpl in H; tauto]);
      apply root_sites_in in H; destruct H as [H1 H2]; split; auto; rewrite H2; discriminate.
  - unfold reader_sites. intros H. apply in_app_or in H. destruct H as [H|H];
      apply root_sites_in in H; destruct H as [H1 H2]; split; auto; rewrite H2; discriminate.
Qed.

Lemma close_site_shape s :
  In s (close_sites c) -> s_meth s = MClose /\ s_post s = true /\ s_dmu s = LWrite.
Proof.
  intros Hin. destruct tab_parts as (_ & Hcl & Hm & _).
  unfold close_locked in Hcl. apply andb_prop in Hcl. destruct Hcl as [Hcl _]. apply andb_prop in Hcl. destruct Hcl as [H1 _].
  rewrite forallb_forall in H1, Hm. specialize (H1 s Hin). specialize (Hm s Hin).
  destruct (s_meth s); simpl in Hm; try congruence.
  apply andb_prop in H1. destruct H1 as [Hp Hd]. destruct (s_dmu s); try congruence. auto.
Qed.

Lemma close_sites_short : close_sites c = [] \/ exists s, close_sites c = [s].
Proof.
  destruct tab_parts as (_ & _ & _ & Hl & _). apply Nat.leb_le in Hl.
  destruct (close_sites c) as [|s [|s' r]]; simpl in Hl; auto; [right; eauto | lia].
Qed.

(* ---------- initial state ---------- *)
Lemma nth_repeat_idle n j : nth j (repeat idle_thread n) idle_thread = idle_thread.
Proof. revert j; induction n; destruct j; simpl; auto. Qed.

Lemma busy_count_repeat n : busy_count (repeat idle_thread n) = 0.
Proof. unfold busy_count. induction n; simpl; auto. Qed.

Lemma inv_init n : 2 <= n -> inv c (init n).
Proof.
  intros Hn.
  constructor; unfold getT; simpl; intros; try rewrite !nth_repeat_idle in *; simpl in *; auto;
    try congruence; try discriminate.
  - rewrite repeat_length; auto.
  - rewrite busy_count_repeat. reflexivity.
  - destruct H; discriminate.
  - unfold closing in H. unfold getT in H. simpl in H. rewrite nth_repeat_idle in H. simpl in H.
    destruct H as [H|[H|H]]; discriminate.
Qed.

(* ---------- generic preservation for a change of one thread ---------- *)
(* facts about a state that do not mention the thread list *)
Definition same_glob (st st' : state) : Prop :=
  destroyed st' = destroyed st /\ closed st' = closed st /\ nclose st' = nclose st /\ stopped st' = stopped st
  /\ cnt st' = cnt st /\ ap_ref st' = ap_ref st /\ ap_chk st' = ap_chk st /\ pool_ref st' = pool_ref st
  /\ close_ready st' = close_ready st /\ ss_streaming st' = ss_streaming st /\ stream_done st' = stream_done st.

Lemma lock_upd (f : thread -> lmode) st i t' :
  f idle_thread = LNone ->
  (forall a b, a <> b -> compat (f (getT st a)) (f (getT st b)) = true) ->
  (f t' = f (getT st i) \/ f t' = LNone \/ forall j, j <> i -> compat (f t') (f (getT st j)) = true) ->
  forall a b, a <> b ->
    compat (f (nth a (upd i t' (thr st)) idle_thread)) (f (nth b (upd i t' (thr st)) idle_thread)) = true.
Proof.
  intros Hf HL Ht a b Hab. rewrite !getT_upd.
  destruct (i <? List.length (thr st)) eqn:El; [|rewrite !andb_false_r; auto].
  rewrite !andb_true_r.
  destruct (Nat.eqb_spec i a) as [Ea|Ea]; destruct (Nat.eqb_spec i b) as [Eb|Eb].
  - congruence.
  - destruct Ht as [Ht|[Ht|Ht]].
    + rewrite Ht. subst. auto.
    + rewrite Ht. reflexivity.
    + apply Ht. auto.
  - rewrite compat_sym. destruct Ht as [Ht|[Ht|Ht]].
    + rewrite Ht. subst. auto.
    + rewrite Ht. reflexivity.
    + apply Ht. auto.
  - auto.
Qed.

Ltac inv_destruct H :=
  destruct H as [Hlen Hjob Hbr HlS HlD Hcnt Hap Hapseen Hpseen Hpool Hclosing Hcloser Hncl Hchk Hs1 Hs2 Hs3 Hcj Hadm Hpend].

Lemma ref_eqb_eq a b : ref_eqb a b = true <-> a = b.
Proof. destruct a, b; simpl; split; intros; congruence. Qed.

Ltac refs :=
  repeat match goal with
  | H : ref_eqb _ _ = true |- _ => apply ref_eqb_eq in H
  | H : negb _ = true |- _ => apply negb_true_iff in H
  | H : _ && _ = true |- _ => apply andb_prop in H; destruct H
  end.

(* actions that leave the thread list alone *)
Lemma closing_same_thr st st' :
  thr st' = thr st -> closed st' = closed st -> close_ready st' = close_ready st -> closing st' -> closing st.
Proof. unfold closing, getT. intros -> -> -> H. exact H. Qed.


(* the counter reaching 0 puts the state into the closing regime *)
Lemma zero_closing st :
  inv c st ->
  forall stp apr pr l,
  0 = b2n (negb stp) + b2n (ref_eqb apr Loaded) + b2n (ref_eqb pr Loaded) + busy_count l ->
  stp = true /\ apr <> Loaded /\ pr <> Loaded /\ busy_count l = 0.
Proof.
  intros _ stp apr pr l H.
  destruct stp; simpl in H; try lia.
  destruct (ref_eqb apr Loaded) eqn:Ea; simpl in H; try lia.
  destruct (ref_eqb pr Loaded) eqn:Ep; simpl in H; try lia.
  repeat split; auto; intro X; subst; discriminate.
Qed.

Lemma ap_quiet st : inv c st -> ap_ref st <> Loaded -> is_idle (getT st 0) = true /\ ap_chk st = false.
Proof.
  intros H Hne. inv_destruct H. destruct (is_idle (getT st 0)) eqn:E1; destruct (ap_chk st) eqn:E2; auto;
    exfalso; apply Hne; apply Hap; auto.
Qed.

Lemma pool_quiet st : inv c st -> pool_ref st <> Loaded -> pool_chk st = false.
Proof.
  intros H Hne. inv_destruct H. destruct (pool_chk st) eqn:E; auto. exfalso. apply Hne. auto.
Qed.

Lemma inv_stop st st' : inv c st -> step c st AStop = Some st' -> inv c st'.
Proof.
  intros H Hs. simpl in Hs. destruct (stopped st) eqn:Est; [discriminate|]. inversion Hs; subst st'; clear Hs.
  pose proof (ap_quiet st H) as Hq. pose proof (zero_closing st H) as Hz.
  inv_destruct H. rewrite Est in Hcnt. simpl in Hcnt.
  constructor; unfold getT in *; simpl; auto.
  - rewrite Hcnt. simpl. lia.
  - intros Hc. unfold closing, getT in Hc; simpl in Hc.
    assert (Hcase : closing st \/ pred (cnt st) = 0).
    { destruct Hc as [Hc|[Hc|Hc]]; unfold closing, getT; auto.
      apply orb_prop in Hc. destruct Hc as [Hc|Hc]; auto. apply Nat.eqb_eq in Hc. auto. }
    destruct Hcase as [Hc'|Hz0].
    + specialize (Hclosing Hc'). rewrite Est in Hclosing. destruct Hclosing; discriminate.
    + rewrite Hcnt in Hz0. simpl in Hz0.
      destruct (Hz true (ap_ref st) (pool_ref st) (thr st)) as (_ & Ha & Hp & Hb); [simpl; lia|].
      destruct (Hq Ha). repeat split; auto.
      destruct (pool_chk st) eqn:Epc; auto. exfalso. apply Hp. auto.
Qed.

Lemma inv_nothr st st' :
  inv c st -> thr st' = thr st -> destroyed st' = destroyed st -> closed st' = closed st -> nclose st' = nclose st ->
  (ss_streaming st' = ss_streaming st /\ stream_done st' = stream_done st
   \/ (forall i, running_stream (getT st i) = false)) ->
  (stream_done st' = true -> ss_streaming st' = true) ->
  (cnt st' = b2n (negb (stopped st')) + b2n (ref_eqb (ap_ref st') Loaded)
                   + b2n (ref_eqb (pool_ref st') Loaded) + busy_count (thr st)) ->
  (is_idle (getT st 0) = false \/ ap_chk st' = true -> ap_ref st' = Loaded) ->
  (c_load_atomic_engine c = true -> ap_ref st' <> Seen) ->
  (c_load_atomic_pool c = true -> pool_ref st' <> Seen) ->
  (pool_chk st' = true -> pool_ref st' = Loaded) ->
  (closing st' -> stopped st' = true /\ is_idle (getT st 0) = true /\ ap_chk st' = false
      /\ pool_chk st' = false /\ busy_count (thr st) = 0
      /\ (c_load_atomic_engine c = true -> ap_ref st' <> Loaded)
      /\ (c_load_atomic_pool c = true -> pool_ref st' <> Loaded)) ->
  (pend st' JStream = true ->
      ss_streaming st' = true /\ stream_done st' = false /\ forall i, running_stream (getT st i) = false) ->
  inv c st'.
Proof.
  intros H Et Ed Ec En Hss Hs3' Hc Ha Has Hps Hpl Hcl Hpd. inv_destruct H.
  constructor; unfold getT in *; rewrite ?Et, ?Ed, ?Ec, ?En; auto.
  intros i Hr. destruct Hss as [[E1 E2]|Hno]; [rewrite E1, E2; apply (Hs1 i Hr)|]. rewrite Hno in Hr. discriminate.
Qed.

Lemma closing_mono st st' :
  thr st' = thr st -> closed st' = closed st -> close_ready st' = close_ready st -> closing st' -> closing st.
Proof. unfold closing, getT. intros -> -> -> H. exact H. Qed.

Lemma inv_apload st st' : inv c st -> step c st AApLoad = Some st' -> inv c st'.
Proof.
  intros H Hs. simpl in Hs. destruct (negb (stopped st) && ref_eqb (ap_ref st) NotLoaded) eqn:G; [|discriminate].
  apply andb_prop in G; destruct G as [G1 G2]; apply negb_true_iff in G1; apply ref_eqb_eq in G2.
  inversion Hs; subst st'; clear Hs. pose proof H as Hinv. inv_destruct H.
  assert (Hnc : ~ closing st). { intro X. apply Hclosing in X. destruct X as [X _]. congruence. }
  assert (Hidle : is_idle (getT st 0) = true /\ ap_chk st = false).
  { apply ap_quiet; auto. congruence. }
  destruct Hidle as [Hi1 Hi2].
  destruct (c_load_atomic_engine c) eqn:Eat; apply (inv_nothr st _ Hinv); simpl; auto; try congruence;
    try solve [rewrite Hcnt, G2; simpl; lia];
    try solve [intro X; exfalso; apply Hnc; revert X; apply closing_mono; auto];
    try solve [intros [X|X]; congruence].
Qed.

Lemma inv_apincr st st' : inv c st -> step c st AApIncr = Some st' -> inv c st'.
Proof.
  intros H Hs. simpl in Hs. destruct (ref_eqb (ap_ref st) Seen) eqn:G; [|discriminate].
  apply ref_eqb_eq in G.
  inversion Hs; subst st'; clear Hs. pose proof (ap_quiet st H) as Hq. pose proof H as Hinv. inv_destruct H.
  destruct Hq as [Hq1 Hq2]; [congruence|].
  assert (Eat : c_load_atomic_engine c = false).
  { destruct (c_load_atomic_engine c) eqn:E; auto. exfalso. apply Hapseen; auto. }
  apply (inv_nothr st _ Hinv); simpl; auto; try congruence;
    try solve [rewrite Hcnt, G; simpl; lia];
    try solve [intros X; apply (closing_mono st) in X; auto; apply Hclosing in X;
               destruct X as (X1 & X2 & X3 & X4 & X5 & X6 & X7); repeat split; auto; congruence].
Qed.

Lemma inv_apcheck st st' : inv c st -> step c st AApCheck = Some st' -> inv c st'.
Proof.
  intros H Hs. simpl in Hs. destruct (ref_eqb (ap_ref st) Loaded && is_idle (getT st 0)) eqn:G; [|discriminate].
  apply andb_prop in G; destruct G as [G1 G2]; apply ref_eqb_eq in G1.
  inversion Hs; subst st'; clear Hs.
  destruct tab_parts as (_ & _ & _ & _ & _ & _ & _ & _ & Hor).
  pose proof H as Hinv. inv_destruct H.
  apply (inv_nothr st _ Hinv); simpl; auto; try congruence;
    try solve [rewrite Hcnt, G1; reflexivity].
  intros X. apply (closing_mono st) in X; auto. apply Hclosing in X.
  destruct X as (X1 & X2 & X3 & X4 & X5 & X6 & X7). repeat split; auto.
  - destruct (c_apply_checks_stopped c) eqn:E; [rewrite X1; reflexivity|].
    rewrite orb_false_r in Hor. exfalso. apply (X6 Hor). auto.
  - intro Y. exfalso. apply (X6 Y). auto.
Qed.

Lemma offload_closing st st0 :
  inv c st -> thr st0 = thr st -> closed st0 = closed st -> close_ready st0 = close_ready st ->
  closing (offload st0) -> closing st \/ pred (cnt st0) = 0.
Proof.
  intros _ Et Ec Er Hc. unfold closing, getT in *. simpl in Hc. rewrite Et, Ec, Er in Hc.
  destruct Hc as [Hc|[Hc|Hc]]; auto.
  apply orb_prop in Hc. destruct Hc as [Hc|Hc]; auto. apply Nat.eqb_eq in Hc. auto.
Qed.

Lemma inv_apoffload st st' : inv c st -> step c st AApOffload = Some st' -> inv c st'.
Proof.
  intros H Hs. simpl in Hs.
  destruct (stopped st && ref_eqb (ap_ref st) Loaded && is_idle (getT st 0)) eqn:G; [|discriminate].
  apply andb_prop in G; destruct G as [G G3]; apply andb_prop in G; destruct G as [G1 G2]; apply ref_eqb_eq in G2.
  inversion Hs; subst st'; clear Hs. pose proof (zero_closing st H) as Hz. pose proof (pool_quiet st H) as Hpq.
  pose proof (offload_closing st (set_ap st Gone false) H eq_refl eq_refl eq_refl) as Hoc.
  pose proof H as Hinv. inv_destruct H.
  apply (inv_nothr st _ Hinv); simpl; auto; try congruence;
    try solve [rewrite Hcnt, G2; simpl; lia];
    try solve [intros [X|X]; congruence].
  intros X. apply Hoc in X. destruct X as [X|X].
  - apply Hclosing in X. destruct X as (X1 & X2 & X3 & X4 & X5 & X6 & X7). repeat split; auto; congruence.
  - simpl in X. rewrite Hcnt, G2 in X. simpl in X.
    destruct (Hz (stopped st) Gone (pool_ref st) (thr st)) as (Y1 & _ & Y3 & Y4); [simpl; lia|].
    specialize (Hpq Y3). repeat split; auto; congruence.
Qed.

Lemma no_running_if_done st : inv c st -> stream_done st = true -> forall i, running_stream (getT st i) = false.
Proof.
  intros H Hd i. destruct (running_stream (getT st i)) eqn:E; auto.
  inv_destruct H. apply Hs1 in E. destruct E. congruence.
Qed.

Lemma inv_apclear st st' : inv c st -> step c st AApClearStream = Some st' -> inv c st'.
Proof.
  intros H Hs. simpl in Hs. destruct (ss_streaming st && stream_done st) eqn:G; [|discriminate].
  apply andb_prop in G; destruct G as [G1 G2].
  inversion Hs; subst st'; clear Hs. pose proof (no_running_if_done st H G2) as Hn. pose proof H as Hinv. inv_destruct H.
  apply (inv_nothr st _ Hinv); simpl; auto;
    try solve [intros X; apply (closing_mono st) in X; auto];
    try solve [intros X; apply Hpend in X; destruct X as (_ & X & _); congruence].
Qed.

Lemma inv_poolload st st' : inv c st -> step c st APoolLoad = Some st' -> inv c st'.
Proof.
  intros H Hs. simpl in Hs. destruct (negb (stopped st) && ref_eqb (pool_ref st) NotLoaded) eqn:G; [|discriminate].
  apply andb_prop in G; destruct G as [G1 G2]; apply negb_true_iff in G1; apply ref_eqb_eq in G2.
  inversion Hs; subst st'; clear Hs.
  pose proof H as Hinv. inv_destruct H.
  assert (Hnc : ~ closing st). { intro X. apply Hclosing in X. destruct X as [X _]. congruence. }
  destruct (c_load_atomic_pool c) eqn:Eat; apply (inv_nothr st _ Hinv); simpl; auto; try congruence;
    try solve [rewrite Hcnt, G2; simpl; lia];
    try solve [intro X; exfalso; apply Hnc; revert X; apply closing_mono; auto].
Qed.

Lemma inv_poolincr st st' : inv c st -> step c st APoolIncr = Some st' -> inv c st'.
Proof.
  intros H Hs. simpl in Hs. destruct (ref_eqb (pool_ref st) Seen) eqn:G; [|discriminate].
  apply ref_eqb_eq in G.
  inversion Hs; subst st'; clear Hs. pose proof H as Hinv. inv_destruct H.
  assert (Eat : c_load_atomic_pool c = false).
  { destruct (c_load_atomic_pool c) eqn:E; auto. exfalso. apply Hpseen; auto. }
  apply (inv_nothr st _ Hinv); simpl; auto; try congruence;
    try solve [rewrite Hcnt, G; simpl; lia];
    try solve [intros X; apply (closing_mono st) in X; auto; apply Hclosing in X;
               destruct X as (X1 & X2 & X3 & X4 & X5 & X6 & X7); repeat split; auto; congruence].
Qed.

Lemma inv_poolcheck st st' : inv c st -> step c st APoolCheck = Some st' -> inv c st'.
Proof.
  intros H Hs. simpl in Hs. destruct (ref_eqb (pool_ref st) Loaded) eqn:G; [|discriminate].
  apply ref_eqb_eq in G.
  inversion Hs; subst st'; clear Hs.
  destruct tab_parts as (_ & _ & _ & _ & _ & _ & _ & Hor & _).
  pose proof H as Hinv. inv_destruct H.
  apply (inv_nothr st _ Hinv); simpl; auto; try congruence;
    try solve [rewrite Hcnt, G; reflexivity].
  intros X. apply (closing_mono st) in X; auto. apply Hclosing in X.
  destruct X as (X1 & X2 & X3 & X4 & X5 & X6 & X7). repeat split; auto.
  - destruct (c_pool_rechecks c) eqn:E; [rewrite X1; reflexivity|].
    rewrite orb_false_r in Hor. exfalso. apply (X7 Hor). auto.
  - intro Y. exfalso. apply (X7 Y). auto.
Qed.

Lemma inv_pooloffload st st' : inv c st -> step c st APoolOffload = Some st' -> inv c st'.
Proof.
  intros H Hs. simpl in Hs.
  destruct (stopped st && ref_eqb (pool_ref st) Loaded) eqn:G; [|discriminate].
  apply andb_prop in G; destruct G as [G1 G2]; apply ref_eqb_eq in G2.
  inversion Hs; subst st'; clear Hs. pose proof (zero_closing st H) as Hz. pose proof (ap_quiet st H) as Hq.
  pose proof (offload_closing st (set_pool st Gone) H eq_refl eq_refl eq_refl) as Hoc.
  pose proof H as Hinv. inv_destruct H.
  apply (inv_nothr st _ Hinv); simpl; auto; try congruence;
    try solve [rewrite Hcnt, G2; simpl; lia].
  intros X. apply Hoc in X. destruct X as [X|X].
  - apply Hclosing in X. destruct X as (X1 & X2 & X3 & X4 & X5 & X6 & X7). repeat split; auto; congruence.
  - simpl in X. rewrite Hcnt, G2 in X. simpl in X.
    destruct (Hz (stopped st) (ap_ref st) Gone (thr st)) as (Y1 & Y2 & _ & Y4); [simpl; lia|].
    destruct (Hq Y2). repeat split; auto; congruence.
Qed.

(* ---------- actions that replace one thread ---------- *)
Lemma getT_beyond st i : List.length (thr st) <= i -> getT st i = idle_thread.
Proof. intros. unfold getT. apply nth_overflow. auto. Qed.

Lemma nonidle_lt st i : is_idle (getT st i) = false -> i < List.length (thr st).
Proof.
  intros H. destruct (Nat.lt_ge_cases i (List.length (thr st))); auto.
  rewrite getT_beyond in H; auto. discriminate.
Qed.

Lemma not_busy_role st i : inv c st -> role_of c i <> RSnap -> is_busy (getT st i) = false.
Proof.
  intros H Hr. inv_destruct H. destruct (is_busy (getT st i)) eqn:E; auto. exfalso. apply Hr. auto.
Qed.

Lemma nthU st i v k :
  i < List.length (thr st) ->
  nth k (upd i v (thr st)) idle_thread = if i =? k then v else getT st k.
Proof.
  intros Hl. rewrite getT_upd. apply Nat.ltb_lt in Hl. rewrite Hl, andb_true_r. reflexivity.
Qed.

Ltac ucase i k := destruct (Nat.eqb_spec i k) as [?E|?E]; [first [subst k | subst i | idtac]|].

Lemma holds_P0 j b : holdsS (mkThr j P0 b) = LNone /\ holdsD (mkThr j P0 b) = LNone.
Proof. destruct j; split; reflexivity. Qed.

(* starting a fresh job [t'] (phase P0, holds nothing) on an idle, non-snapshot thread *)
Lemma inv_start st i job st' :
  inv c st -> i < List.length (thr st) -> is_idle (getT st i) = true -> role_of c i <> RSnap ->
  Forall (fun s => In s (allowed c (role_of c i) None)) job ->
  (i = 1 -> job = close_sites c /\ destroyed st = false) ->
  (i = 0 -> ap_chk st = true) ->
  thr st' = upd i (mkThr job P0 None) (thr st) ->
  destroyed st' = destroyed st -> closed st' = closed st -> nclose st' = nclose st -> stopped st' = stopped st ->
  cnt st' = cnt st -> ap_ref st' = ap_ref st -> ap_chk st' = ap_chk st -> pool_ref st' = pool_ref st ->
  pool_chk st' = pool_chk st ->
  (close_ready st' = true -> close_ready st = true) -> (i = 1 \/ close_ready st' = close_ready st) ->
  ss_streaming st' = ss_streaming st -> stream_done st' = stream_done st -> pend st' = pend st ->
  (i = 1 -> closing st) ->
  inv c st'.
Proof.
  intros H Hl Hidle Hrole Hjob0 H1 H0 Et Ed Ec En Es Ecn Ear Eac Epr Epc Ecr Ecr2 Ess Esd Epd Hcl1.
  pose proof (not_busy_role st i H Hrole) as Hnb. pose proof H as Hinv. inv_destruct H.
  assert (Hcl : closing st' -> closing st).
  { unfold closing, getT. rewrite Et, Ec. intros [X|[X|X]]; auto.
    rewrite nthU in X; auto. ucase i 1; [apply Hcl1; auto|]. right; left. exact X. }
  constructor; unfold getT; rewrite ?Et, ?Ed, ?Ec, ?En, ?Es, ?Ecn, ?Ear, ?Eac, ?Epr, ?Epc, ?Ess, ?Esd, ?Epd.
  - rewrite upd_length. auto.
  - intros k. rewrite nthU; auto. ucase i k; simpl; auto.
  - intros k. rewrite nthU; auto. ucase i k; simpl; auto; discriminate.
  - apply lock_upd; auto. right; left. apply holds_P0.
  - apply lock_upd; auto. right; left. apply holds_P0.
  - assert (X := busy_count_upd i (mkThr job P0 None) (thr st) Hl). fold (getT st i) in X. rewrite Hnb in X.
    simpl in X. rewrite Hcnt. lia.
  - rewrite nthU; auto. ucase i 0; simpl; auto; intros _; apply Hap; auto.
  - auto.
  - auto.
  - auto.
  - intros X. specialize (Hclosing (Hcl X)). destruct Hclosing as (X1 & X2 & X3 & X4 & X5 & X6 & X7).
    assert (Y := busy_count_upd i (mkThr job P0 None) (thr st) Hl). fold (getT st i) in Y. rewrite Hnb in Y. simpl in Y.
    repeat split; auto; try lia.
    rewrite nthU; auto. ucase i 0; simpl; auto; specialize (H0 eq_refl); congruence.
  - rewrite nthU; auto. ucase i 1; simpl; [|apply Hcloser].
    destruct (H1 eq_refl) as [Hj Hd]. subst job.
    assert (Y : closed st = destroyed st).
    { pose proof Hcloser as Z. simpl in Z. unfold is_idle in Hidle. destruct (t_job (getT st 1)); [exact Z|discriminate]. }
    destruct (close_sites c); simpl; [exact Y|]. split; congruence.
  - auto.
  - intros k s r. rewrite nthU; auto. ucase i k; simpl; auto; apply Hchk.
  - intros k. rewrite nthU; auto. ucase i k; simpl; [discriminate|apply Hs1].
  - intros k1 k2 Hne. rewrite !nthU; auto. ucase i k1; ucase i k2; simpl; try discriminate; try congruence; apply Hs2; auto.
  - auto.
  - rewrite nthU; auto. ucase i 1; simpl; auto; destruct (H1 eq_refl); auto.
  - intros k1 k2 a b Hne. rewrite !nthU; auto. ucase i k1; ucase i k2; simpl; try discriminate; try congruence; apply Hadm; auto.
  - intros X. destruct (Hpend X) as (A & B & C). repeat split; auto.
    intros k. rewrite nthU; auto. ucase i k; [reflexivity|apply C].
Qed.

Lemma inv_apstart st n st' : inv c st -> step c st (AApStart n) = Some st' -> inv c st'.
Proof.
  intros H Hs. simpl in Hs.
  destruct (ap_chk st && is_idle (getT st 0) && (c_book_atomic c || negb (dirty st))) eqn:G; [|discriminate].
  apply andb_prop in G; destruct G as [G _]. apply andb_prop in G; destruct G as [G1 G2].
  destruct (nth_error (apply_sites c) n) as [s|] eqn:En; [|discriminate]. inversion Hs; subst st'; clear Hs.
  assert (Hl : 0 < List.length (thr st)) by (inv_destruct H; lia).
  eapply (inv_start st 0 [s]); eauto; simpl; auto; try discriminate;
    try solve [constructor; auto; simpl; eapply nth_error_In; eauto];
    try solve [intros X; discriminate].
Qed.

Lemma inv_readerstart st r n st' : inv c st -> step c st (AReaderStart r n) = Some st' -> inv c st'.
Proof.
  intros H Hs. simpl in Hs. destruct (role_of c r) eqn:Er; try discriminate.
  destruct (is_idle (getT st r) && (r <? List.length (thr st))) eqn:G; [|discriminate].
  apply andb_prop in G; destruct G as [G1 G2]. apply Nat.ltb_lt in G2.
  destruct (nth_error (reader_sites c) n) as [s|] eqn:En; [|discriminate]. inversion Hs; subst st'; clear Hs.
  assert (r <> 0 /\ r <> 1). { split; intro; subst; discriminate. }
  eapply (inv_start st r [s]); eauto; simpl; auto; try congruence; try tauto;
    try solve [constructor; auto; rewrite Er; simpl; eapply nth_error_In; eauto].
Qed.

Lemma inv_closestart st st' : inv c st -> step c st ACloseStart = Some st' -> inv c st'.
Proof.
  intros H Hs. simpl in Hs. destruct (close_ready st && is_idle (getT st 1)) eqn:G; [|discriminate].
  apply andb_prop in G; destruct G as [G1 G2]. rewrite tab_closechk in Hs. simpl in Hs.
  destruct (destroyed st) eqn:Ed; inversion Hs; subst st'; clear Hs.
  - pose proof H as Hinv. inv_destruct H.
    apply (inv_nothr st _ Hinv); simpl; auto.
    intros X. apply Hclosing. unfold closing in *. simpl in X. unfold getT in *. simpl in X. destruct X as [X|[X|X]]; auto; discriminate.
  - assert (Hl : 1 < List.length (thr st)) by (inv_destruct H; lia).
    eapply (inv_start st 1 (close_sites c)); eauto; simpl; auto; try discriminate;
      try solve [apply Forall_forall; auto];
      try solve [intros X; discriminate];
      try solve [intros _; left; auto].
Qed.

Lemma job_conflict_sym a b : job_conflict a b = job_conflict b a.
Proof. destruct a, b; reflexivity. Qed.

Lemma pool_admits_spec j l k b :
  pool_admits c j l = true -> t_busy (nth k l idle_thread) = Some b -> job_conflict j b = false.
Proof.
  unfold pool_admits. intros H Hb. rewrite <- tab_blocks. rewrite forallb_forall in H.
  destruct (Nat.lt_ge_cases k (List.length l)) as [Hl|Hl].
  - specialize (H (nth k l idle_thread) (nth_In l idle_thread Hl)). rewrite Hb in H.
    apply negb_true_iff in H. exact H.
  - rewrite nth_overflow in Hb; auto. discriminate.
Qed.

Lemma running_needs_busy t : running_stream t = true -> t_busy t = Some JStream /\ is_idle t = false.
Proof.
  unfold running_stream. destruct (t_busy t) as [[]|]; try discriminate. intros H. apply negb_true_iff in H. auto.
Qed.

Lemma inv_schedule st w j st' : inv c st -> step c st (ASchedule w j) = Some st' -> inv c st'.
Proof.
  intros H Hs. simpl in Hs. destruct (role_of c w) eqn:Er; try discriminate.
  destruct tab_stop as (_ & Hsc & _). rewrite Hsc in Hs. simpl in Hs. rewrite orb_false_r in Hs.
  match type of Hs with (if ?g then _ else _) = _ => destruct g eqn:G; [|discriminate] end.
  repeat (apply andb_prop in G; let X := fresh "G" in destruct G as [G X]).
  apply Nat.ltb_lt in G3.
  assert (Hnb : t_busy (getT st w) = None) by (destruct (t_busy (getT st w)); [discriminate|auto]).
  assert (w <> 0 /\ w <> 1) as [Hw0 Hw1]. { split; intro; subst; discriminate. }
  pose proof H as Hinv. inv_destruct H.
  assert (Hnc : ~ closing st). { intro X. apply Hclosing in X. destruct X as (_ & _ & _ & X & _). congruence. }
  assert (Hbc := busy_count_upd w (mkThr (job_sites c j) P0 (Some j)) (thr st) G3).
  fold (getT st w) in Hbc. unfold is_busy in Hbc at 1. rewrite Hnb in Hbc. simpl in Hbc.
  assert (Hstr : j = JStream -> ss_streaming st = true /\ stream_done st = false /\ forall i, running_stream (getT st i) = false).
  { intros ->. apply Hpend. exact G. }
  inversion Hs; subst st'; clear Hs.
  assert (Hcl : closing (mkState (upd w (mkThr (job_sites c j) P0 (Some j)) (thr st)) (destroyed st) (closed st) (nclose st)
                    (stopped st) (S (cnt st)) (ap_ref st) (ap_chk st) (pool_ref st) (pool_chk st) (close_ready st)
                    (ss_streaming st) (stream_done st) (fun k => negb (jk_eqb k j) && pend st k)
                    (dirty st) (snap_bad st)) -> False).
  { intro X. apply Hnc. unfold closing, getT in *. simpl in X. rewrite nthU in X; auto.
    ucase w 1; [congruence|]. exact X. }
  constructor; unfold getT; simpl.
  - rewrite upd_length. auto.
  - intros k. rewrite nthU; auto. ucase w k; simpl; auto. rewrite Er. simpl. apply Forall_forall. auto.
  - intros k. rewrite nthU; auto. ucase w k; simpl; auto.
  - apply lock_upd; auto. right; left. apply holds_P0.
  - apply lock_upd; auto. right; left. apply holds_P0.
  - rewrite Hcnt. lia.
  - rewrite nthU; auto. ucase w 0; [congruence|]. exact Hap.
  - auto.
  - auto.
  - auto.
  - intro X. exfalso. auto.
  - rewrite nthU; auto. ucase w 1; [congruence|]. exact Hcloser.
  - auto.
  - intros k s r. rewrite nthU; auto. ucase w k; simpl; auto. apply Hchk.
  - intros k. rewrite nthU; auto. ucase w k; [|apply Hs1].
    unfold running_stream. simpl. destruct j; try discriminate. intros _. destruct (Hstr eq_refl) as (A & B & _). auto.
  - intros k1 k2 Hne. rewrite !nthU; auto. ucase w k1; ucase w k2; try congruence.
    + unfold running_stream at 1. simpl. destruct j; try discriminate. intros _ X.
      destruct (Hstr eq_refl) as (_ & _ & C). rewrite C in X. discriminate.
    + unfold running_stream at 2. simpl. destruct j; try discriminate. intros X _.
      destruct (Hstr eq_refl) as (_ & _ & C). rewrite C in X. discriminate.
    + apply Hs2; auto.
  - auto.
  - rewrite nthU; auto. ucase w 1; [congruence|]. exact Hcj.
  - intros k1 k2 a b Hne. rewrite !nthU; auto. ucase w k1; ucase w k2; try congruence; simpl.
    + intros X Y. inversion X; subst a. eapply pool_admits_spec; eauto.
    + intros X Y. inversion Y; subst b. rewrite job_conflict_sym. eapply pool_admits_spec; eauto.
    + apply Hadm; auto.
  - destruct j; simpl; try discriminate; intros X; destruct (Hpend X) as (A & B & C); repeat split; auto;
      intros k; rewrite nthU; auto; (ucase w k; [reflexivity|apply C]).
Qed.

Lemma inv_dispatch st j st' : inv c st -> step c st (ADispatch j) = Some st' -> inv c st'.
Proof.
  intros H Hs. simpl in Hs. destruct tab_stop as (_ & _ & Hsf). rewrite Hsf in Hs. simpl in Hs.
  match type of Hs with (if ?g then _ else _) = _ => destruct g eqn:G; [|discriminate] end.
  repeat (apply andb_prop in G; let X := fresh "G" in destruct G as [G X]).
  inversion Hs; subst st'; clear Hs. pose proof H as Hinv. inv_destruct H.
  assert (Hnc : ~ closing st). { intro X. apply Hclosing in X. destruct X as (_ & _ & X & _). congruence. }
  assert (Hno : j = JStream -> ss_streaming st = false /\ stream_done st = false /\ forall i, running_stream (getT st i) = false).
  { intros ->. apply negb_true_iff in G0. repeat split; auto.
    - destruct (stream_done st) eqn:E; auto. specialize (Hs3 eq_refl). congruence.
    - intros i. destruct (running_stream (getT st i)) eqn:E; auto. destruct (Hs1 i E). congruence. }
  apply (inv_nothr st _ Hinv); simpl; auto;
    try solve [destruct j; auto; right; apply Hno; auto];
    try solve [intros X; destruct j; auto];
    try solve [intro X; exfalso; apply Hnc; revert X; apply closing_mono; auto];
    try solve [destruct j; simpl; auto; intros _; destruct (Hno eq_refl) as (A & B & C); auto].
Qed.

Lemma inv_discard st j st' : inv c st -> step c st (ADiscard j) = Some st' -> inv c st'.
Proof.
  intros H Hs. simpl in Hs.
  match type of Hs with (if ?g then _ else _) = _ => destruct g eqn:G; [|discriminate] end.
  inversion Hs; subst st'; clear Hs. pose proof H as Hinv. inv_destruct H.
  apply (inv_nothr st _ Hinv); simpl; auto;
    try solve [intros X; apply (closing_mono st) in X; auto];
    try solve [intros X; apply andb_prop in X; destruct X as [_ X]; auto].
Qed.

Lemma inv_completed st w st' : inv c st -> step c st (ACompleted w) = Some st' -> inv c st'.
Proof.
  intros H Hs. simpl in Hs. destruct (role_of c w) eqn:Er; try discriminate.
  destruct (t_busy (getT st w)) as [jb|] eqn:Eb; try discriminate.
  destruct (is_idle (getT st w)) eqn:Ei; [|discriminate].
  inversion Hs; subst st'; clear Hs.
  assert (w <> 0 /\ w <> 1) as [Hw0 Hw1]. { split; intro; subst; discriminate. }
  assert (Hl : w < List.length (thr st)).
  { destruct (Nat.lt_ge_cases w (List.length (thr st))); auto. rewrite getT_beyond in Eb; auto. discriminate. }
  pose proof (zero_closing st H) as Hz. pose proof (ap_quiet st H) as Hq.
  pose proof H as Hinv. inv_destruct H.
  assert (Hbc := busy_count_upd w idle_thread (thr st) Hl).
  fold (getT st w) in Hbc. unfold is_busy in Hbc at 1. rewrite Eb in Hbc. simpl in Hbc.
  constructor; unfold getT; simpl.
  - rewrite upd_length. auto.
  - intros k. rewrite nthU; auto. ucase w k; simpl; auto.
  - intros k. rewrite nthU; auto. ucase w k; simpl; auto; discriminate.
  - apply lock_upd; auto; right; left; reflexivity.
  - apply lock_upd; auto; right; left; reflexivity.
  - rewrite Hcnt. lia.
  - rewrite nthU; auto. ucase w 0; [congruence|]. exact Hap.
  - auto.
  - auto.
  - auto.
  - intros X.
    assert (Hcase : closing st \/ pred (cnt st) = 0).
    { unfold closing, getT in *. simpl in X. rewrite nthU in X; auto. destruct (Nat.eqb_spec w 1); [congruence|].
      destruct X as [X|[X|X]]; auto. apply orb_prop in X. destruct X as [X|X]; auto. apply Nat.eqb_eq in X. auto. }
    rewrite nthU; auto. destruct (Nat.eqb_spec w 0); [congruence|].
    destruct Hcase as [Y|Y].
    + apply Hclosing in Y. destruct Y as (X1 & X2 & X3 & X4 & X5 & X6 & X7). repeat split; auto. lia.
    + rewrite Hcnt in Y.
      destruct (Hz (stopped st) (ap_ref st) (pool_ref st) (upd w idle_thread (thr st))) as (Y1 & Y2 & Y3 & Y4); [lia|].
      destruct (Hq Y2). pose proof (pool_quiet st Hinv Y3). repeat split; auto.
  - rewrite nthU; auto. ucase w 1; [congruence|]. exact Hcloser.
  - auto.
  - intros k s r. rewrite nthU; auto. ucase w k; simpl; [discriminate|apply Hchk].
  - intros k. rewrite nthU; auto. ucase w k; [discriminate|apply Hs1].
  - intros k1 k2 Hne. rewrite !nthU; auto. ucase w k1; ucase w k2; try congruence; try discriminate. apply Hs2; auto.
  - auto.
  - rewrite nthU; auto. ucase w 1; [congruence|]. exact Hcj.
  - intros k1 k2 a b Hne. rewrite !nthU; auto. ucase w k1; ucase w k2; try congruence; try discriminate. apply Hadm; auto.
  - intros X. destruct (Hpend X) as (A & B & C). repeat split; auto.
    intros k. rewrite nthU; auto. ucase w k; [reflexivity|apply C].
Qed.

(* pool shutdown: all references of the pool are dropped at once *)
Lemma clear_busy_idle : clear_busy idle_thread = idle_thread.
Proof. reflexivity. Qed.

Lemma clear_busy_facts t :
  t_job (clear_busy t) = t_job t /\ t_ph (clear_busy t) = t_ph t /\ t_busy (clear_busy t) = None
  /\ holdsS (clear_busy t) = holdsS t /\ holdsD (clear_busy t) = holdsD t
  /\ is_idle (clear_busy t) = is_idle t /\ (is_busy t = false -> clear_busy t = t).
Proof.
  unfold clear_busy, is_busy_t, is_busy. destruct (t_busy t) eqn:E; simpl; repeat split; auto; discriminate.
Qed.

Lemma nth_clear st k : nth k (map clear_busy (thr st)) idle_thread = clear_busy (getT st k).
Proof. unfold getT. rewrite <- clear_busy_idle at 1. apply map_nth. Qed.

Lemma busy_count_clear l : busy_count (map clear_busy l) = 0.
Proof.
  unfold busy_count. induction l; simpl; auto.
  destruct (clear_busy_facts a) as (_ & _ & Hb & _). unfold is_busy at 1. rewrite Hb. exact IHl.
Qed.

Lemma inv_poolshutdown st st' : inv c st -> step c st APoolShutdown = Some st' -> inv c st'.
Proof.
  intros H Hs. simpl in Hs. destruct tab_stop as (Hts & _). rewrite Hts in Hs. simpl in Hs.
  match type of Hs with (if ?g then _ else _) = _ => destruct g eqn:G; [|discriminate] end.
  apply andb_prop in G. destruct G as [G1 G2]. apply negb_true_iff in G1.
  inversion Hs; subst st'; clear Hs.
  pose proof (ap_quiet st H) as Hq. pose proof H as Hinv. inv_destruct H.
  assert (Hidle : forall k, is_busy (getT st k) = true -> is_idle (getT st k) = true).
  { intros k Hk. destruct (Nat.lt_ge_cases k (List.length (thr st))) as [Hlt|Hge].
    - rewrite forallb_forall in G2. specialize (G2 (getT st k) (nth_In _ _ Hlt)).
      change (is_busy_t (getT st k)) with (is_busy (getT st k)) in G2. rewrite Hk in G2. exact G2.
    - rewrite getT_beyond; auto. }
  assert (Hsame : forall k, t_job (clear_busy (getT st k)) = t_job (getT st k)
                        /\ t_ph (clear_busy (getT st k)) = t_ph (getT st k)).
  { intros k. destruct (clear_busy_facts (getT st k)) as (A & B & _). auto. }
  assert (Hnb : forall k, role_of c k <> RSnap -> clear_busy (getT st k) = getT st k).
  { intros k Hr. apply clear_busy_facts. apply (not_busy_role st k Hinv Hr). }
  assert (H0 : clear_busy (getT st 0) = getT st 0) by (apply Hnb; discriminate).
  assert (H1 : clear_busy (getT st 1) = getT st 1) by (apply Hnb; discriminate).
  change (count_busy (thr st)) with (busy_count (thr st)) in *.
  set (dec := (if ref_eqb (pool_ref st) Loaded then 1 else 0) + busy_count (thr st)).
  assert (Hcnt' : cnt st - dec = b2n (negb (stopped st)) + b2n (ref_eqb (ap_ref st) Loaded)).
  { unfold dec. rewrite Hcnt. destruct (ref_eqb (pool_ref st) Loaded); simpl; lia. }
  assert (HT1 : forall st2, thr st2 = map clear_busy (thr st) -> getT st2 1 = getT st 1).
  { intros st2 E. unfold getT at 1. rewrite E, nth_clear. exact H1. }
  constructor; unfold getT; simpl; rewrite ?nth_clear, ?H0, ?H1.
  - rewrite map_length. auto.
  - intros k. rewrite nth_clear. destruct (clear_busy_facts (getT st k)) as (A & B & C & _ & _ & _ & D).
    destruct (is_busy (getT st k)) eqn:Eb.
    + rewrite A. specialize (Hidle k Eb). unfold is_idle in Hidle. destruct (t_job (getT st k)); [constructor|discriminate].
    + rewrite (D eq_refl). apply Hjob.
  - intros k. rewrite nth_clear. unfold is_busy. destruct (clear_busy_facts (getT st k)) as (_ & _ & C & _). rewrite C. discriminate.
  - intros a b Hab. rewrite !nth_clear. destruct (clear_busy_facts (getT st a)) as (_ & _ & _ & A & _).
    destruct (clear_busy_facts (getT st b)) as (_ & _ & _ & B & _). rewrite A, B. auto.
  - intros a b Hab. rewrite !nth_clear. destruct (clear_busy_facts (getT st a)) as (_ & _ & _ & _ & A & _).
    destruct (clear_busy_facts (getT st b)) as (_ & _ & _ & _ & B & _). rewrite A, B. auto.
  - rewrite busy_count_clear. fold dec. rewrite Hcnt'. simpl. lia.
  - exact Hap.
  - auto.
  - intros _. discriminate.
  - intros X. discriminate.
  - intros X. rewrite busy_count_clear.
    assert (Hcase : closing st \/ cnt st - dec = 0).
    { unfold closing in *. unfold getT in X at 1. simpl in X. rewrite nth_clear, H1 in X. destruct X as [X|[X|X]]; auto.
      apply orb_prop in X. destruct X as [X|X]; auto. apply andb_prop in X. destruct X as [_ X].
      apply Nat.eqb_eq in X. fold dec in X. auto. }
    destruct Hcase as [Y|Y].
    + apply Hclosing in Y. destruct Y as (X1 & X2 & X3 & X4 & X5 & X6 & X7). repeat split; auto. intros _. discriminate.
    + rewrite Hcnt' in Y. destruct (stopped st) eqn:Es; simpl in Y; [|lia].
      destruct (ref_eqb (ap_ref st) Loaded) eqn:Ea; simpl in Y; [lia|].
      assert (Hna : ap_ref st <> Loaded) by (intro Z; rewrite Z in Ea; discriminate).
      destruct (Hq Hna). repeat split; auto. intros _. discriminate.
  - exact Hcloser.
  - auto.
  - intros k s r. rewrite nth_clear. intros Hj. destruct (Hsame k) as [A B]. rewrite A in Hj. rewrite B. eapply Hchk; eauto.
  - intros k. rewrite nth_clear. unfold running_stream. destruct (clear_busy_facts (getT st k)) as (_ & _ & C & _). rewrite C. discriminate.
  - intros a b _. rewrite !nth_clear. unfold running_stream at 1. destruct (clear_busy_facts (getT st a)) as (_ & _ & C & _). rewrite C. discriminate.
  - auto.
  - exact Hcj.
  - intros a b x y _. rewrite !nth_clear. intros X. destruct (clear_busy_facts (getT st a)) as (_ & _ & C & _). rewrite C in X. discriminate.
  - intros X. destruct (Hpend X) as (A & B & _). repeat split; auto.
    intros k. rewrite nth_clear. unfold running_stream. destruct (clear_busy_facts (getT st k)) as (_ & _ & C & _). rewrite C. reflexivity.
Qed.

(* ---------- one phase step of a thread ---------- *)
Definition closer_pred (t : thread) (cl de : bool) : Prop :=
  match t_job t with
  | [] => cl = de
  | s :: _ =>
    if ph_le3 (t_ph t) then cl = false /\ de = false
    else if ph_45 (t_ph t) then cl = true /\ de = false
    else cl = true /\ de = true
  end.

Lemma inv_thr_gen st i s rest t' st' :
  inv c st -> i < List.length (thr st) -> t_job (getT st i) = s :: rest ->
  thr st' = upd i t' (thr st) -> t_busy t' = t_busy (getT st i) ->
  (t_job t' = s :: rest \/ t_job t' = [s] \/ t_job t' = rest) ->
  (holdsS t' = holdsS (getT st i) \/ holdsS t' = LNone \/ forall j, j <> i -> compat (holdsS t') (holdsS (getT st j)) = true) ->
  (holdsD t' = holdsD (getT st i) \/ holdsD t' = LNone \/ forall j, j <> i -> compat (holdsD t') (holdsD (getT st j)) = true) ->
  stopped st' = stopped st -> cnt st' = cnt st -> ap_ref st' = ap_ref st -> ap_chk st' = ap_chk st ->
  pool_ref st' = pool_ref st -> pool_chk st' = pool_chk st -> close_ready st' = close_ready st ->
  pend st' = pend st ->
  (i = 1 -> closer_pred t' (closed st') (destroyed st')) ->
  (i <> 1 -> closed st' = closed st /\ destroyed st' = destroyed st) ->
  nclose st' = b2n (closed st') ->
  (forall s0 r0, t_job t' = s0 :: r0 -> s_chk_de s0 = true -> s_dmu s0 <> LNone ->
      match t_ph t' with P3 | P4 => destroyed st' = false | _ => True end) ->
  (destroyed st' = destroyed st \/ (destroyed st' = true /\ holdsD t' = LWrite)) ->
  ((running_stream t' = running_stream (getT st i) /\ ss_streaming st' = ss_streaming st /\ stream_done st' = stream_done st)
   \/ (running_stream (getT st i) = true /\ running_stream t' = false /\ ss_streaming st' = ss_streaming st /\ stream_done st' = true)) ->
  inv c st'.
Proof.
  intros H Hl Hjb Et Eb Hj' HS HD Es Ecn Ear Eac Epr Epc Ecr Epd Hclo Hnclo Hn Hchk' Hde Hstr.
  pose proof H as Hinv. inv_destruct H.
  assert (Hidle : is_idle (getT st i) = false) by (unfold is_idle; rewrite Hjb; auto).
  assert (HlS' : forall a b, a <> b ->
     compat (holdsS (nth a (upd i t' (thr st)) idle_thread)) (holdsS (nth b (upd i t' (thr st)) idle_thread)) = true)
    by (apply lock_upd; auto).
  assert (HlD' : forall a b, a <> b ->
     compat (holdsD (nth a (upd i t' (thr st)) idle_thread)) (holdsD (nth b (upd i t' (thr st)) idle_thread)) = true)
    by (apply lock_upd; auto).
  assert (Hbc := busy_count_upd i t' (thr st) Hl). fold (getT st i) in Hbc. unfold is_busy in Hbc. rewrite Eb in Hbc.
  assert (Hbc' : busy_count (upd i t' (thr st)) = busy_count (thr st)) by lia. clear Hbc.
  assert (Hcl : closing st' -> closing st).
  { unfold closing, getT. rewrite Et, Ecr. rewrite nthU; auto. ucase i 1.
    - intros _. right; left. exact Hidle.
    - destruct (Hnclo E) as [E1 E2]. rewrite E1. auto. }
  constructor; unfold getT; rewrite ?Et, ?Es, ?Ecn, ?Ear, ?Eac, ?Epr, ?Epc, ?Epd.
  - rewrite upd_length. auto.
  - intros k. rewrite nthU; auto. ucase i k; [|apply Hjob]. rewrite Eb.
    specialize (Hjob i). rewrite Hjb in Hjob. destruct Hj' as [X|[X|X]]; rewrite X; auto.
    + inversion Hjob; subst. constructor; auto.
    + inversion Hjob; subst. auto.
  - intros k. rewrite nthU; auto. ucase i k; [|apply Hbr]. unfold is_busy. rewrite Eb. apply Hbr.
  - exact HlS'.
  - exact HlD'.
  - rewrite Hbc'. exact Hcnt.
  - rewrite nthU; auto. ucase i 0; [|exact Hap]. intros X. apply Hap. destruct X; auto.
  - auto.
  - auto.
  - auto.
  - intros X. specialize (Hclosing (Hcl X)). destruct Hclosing as (X1 & X2 & X3 & X4 & X5 & X6 & X7).
    rewrite Hbc'. repeat split; auto. rewrite nthU; auto. ucase i 0; auto. congruence.
  - rewrite nthU; auto. ucase i 1; [apply Hclo; auto|]. destruct (Hnclo E) as [E1 E2]. rewrite E1, E2. exact Hcloser.
  - exact Hn.
  - intros k s0 r0. rewrite nthU; auto. ucase i k; [apply Hchk'|].
    intros Hj0 Hc0 Hd0. specialize (Hchk k s0 r0 Hj0 Hc0 Hd0).
    destruct Hde as [Hde|[Hde1 Hde2]]; [rewrite Hde; exact Hchk|].
    destruct (t_ph (getT st k)) eqn:Ep; auto;
      (specialize (HlD' i k E); rewrite !nthU in HlD'; auto; rewrite Nat.eqb_refl in HlD';
       destruct (Nat.eqb_spec i k); [congruence|]; rewrite Hde2 in HlD';
       unfold holdsD in HlD'; rewrite Hj0, Ep in HlD'; simpl in HlD'; destruct (s_dmu s0); simpl in HlD'; congruence).
  - intros k. rewrite nthU; auto. ucase i k.
    + intros X. destruct Hstr as [(R1 & R2 & R3)|(R1 & R2 & R3 & R4)]; [|congruence].
      rewrite R2, R3. apply (Hs1 i). congruence.
    + intros X. destruct Hstr as [(R1 & R2 & R3)|(R1 & R2 & R3 & R4)]; [rewrite R2, R3; apply (Hs1 k X)|].
      exfalso. apply (Hs2 i k); auto.
  - intros k1 k2 Hne. rewrite !nthU; auto. ucase i k1; ucase i k2; try congruence.
    + intros X Y. destruct Hstr as [(R1 & R2 & R3)|(R1 & R2 & R3 & R4)]; [|congruence]. apply (Hs2 i k2); auto. congruence.
    + intros X Y. destruct Hstr as [(R1 & R2 & R3)|(R1 & R2 & R3 & R4)]; [|congruence]. apply (Hs2 k1 i); auto. congruence.
    + apply Hs2; auto.
  - destruct Hstr as [(R1 & R2 & R3)|(R1 & R2 & R3 & R4)]; [rewrite R2, R3; exact Hs3|].
    intros _. rewrite R3. apply (Hs1 i R1).
  - rewrite nthU; auto. ucase i 1; [|exact Hcj].
    rewrite Hjb in Hcj. destruct Hcj as [X|X]; [discriminate|].
    destruct close_sites_short as [Y|[s1 Y]]; rewrite Y in X; [discriminate|]. inversion X; subst.
    destruct Hj' as [Z|[Z|Z]]; rewrite Z; auto.
  - intros k1 k2 a b Hne. rewrite !nthU; auto. ucase i k1; ucase i k2; try congruence; rewrite ?Eb; apply Hadm; auto.
  - intros X. destruct (Hpend X) as (A & B & C).
    destruct Hstr as [(R1 & R2 & R3)|(R1 & R2 & R3 & R4)]; [|rewrite C in R1; discriminate].
    rewrite R2, R3. repeat split; auto. intros k. rewrite nthU; auto. ucase i k; [rewrite R1; apply C|apply C].
Qed.

Lemma role_close_iff i : role_of c i = RClose <-> i = 1.
Proof.
  unfold role_of. destruct i as [|[|k]]; split; intros; try discriminate; auto.
  destruct (k <? c_nsnap c); discriminate.
Qed.

Lemma site_facts st i s rest :
  inv c st -> t_job (getT st i) = s :: rest ->
  (i <> 1 -> s_post s = false /\ s_meth s <> MSetDestroyed /\ s_meth s <> MClose)
  /\ (i = 1 -> s_meth s = MClose /\ s_post s = true /\ s_dmu s = LWrite /\ rest = []).
Proof.
  intros H Hjb. inv_destruct H. specialize (Hjob i). rewrite Hjb in Hjob. inversion Hjob; subst.
  apply allowed_root in H1. destruct H1 as [Hin Hroot]. split; intros Hi.
  - apply nonclose_site_plain; auto. destruct (role_of c i) eqn:Er; auto.
    exfalso. apply Hi. apply role_close_iff. auto.
  - subst i. rewrite Hjb in Hcj. destruct Hcj as [X|X]; [discriminate|].
    destruct close_sites_short as [Y|[s1 Y]]; rewrite Y in X; [discriminate|]. inversion X; subst.
    assert (Z : In s1 (close_sites c)) by (rewrite Y; left; auto).
    apply close_site_shape in Z. tauto.
Qed.

Lemma running_same b j1 j2 p1 p2 :
  (j1 = [] <-> j2 = []) -> running_stream (mkThr j1 p1 b) = running_stream (mkThr j2 p2 b).
Proof.
  intros H. unfold running_stream, is_idle. simpl. destruct b as [[]|]; auto.
  destruct j1, j2; auto; exfalso; destruct H as [H1 H2]; [specialize (H1 eq_refl)|specialize (H2 eq_refl)]; discriminate.
Qed.

Lemma thread_eta t : t = mkThr (t_job t) (t_ph t) (t_busy t).
Proof. destruct t; reflexivity. Qed.

Lemma inv_thr st i st' : inv c st -> thr_step c st i = Some st' -> inv c st'.
Proof.
  intros H Hs. unfold thr_step in Hs.
  destruct (t_job (getT st i)) as [|s rest] eqn:Hjb; [discriminate|].
  assert (Hl : i < List.length (thr st)) by (apply nonidle_lt; unfold is_idle; rewrite Hjb; auto).
  destruct (site_facts st i s rest H Hjb) as [Hn1 Hi1].
  pose proof H as Hinv. inv_destruct H.
  assert (Hrun : forall p, running_stream (mkThr (s :: rest) p (t_busy (getT st i))) = running_stream (getT st i)).
  { intros p. rewrite (thread_eta (getT st i)) at 2. rewrite Hjb. apply running_same. tauto. }
  assert (HhS : holdsS (getT st i) = if holds_s (t_ph (getT st i)) then s_smu s else LNone)
    by (unfold holdsS; rewrite Hjb; auto).
  assert (HhD : holdsD (getT st i) = if holds_d (t_ph (getT st i)) then s_dmu s else LNone)
    by (unfold holdsD; rewrite Hjb; auto).
  assert (Hclo1 : i = 1 -> closer_pred (getT st i) (closed st) (destroyed st)).
  { intros ->. exact Hcloser. }
  unfold closer_pred in Hclo1. rewrite Hjb in Hclo1.
  destruct (t_ph (getT st i)) eqn:Hph; simpl in HhS, HhD, Hclo1.
  - (* P0: acquire S *)
    destruct (others_ok holdsS (s_smu s) (Some i) (thr st)) eqn:G; [|discriminate]. inversion Hs; subst st'; clear Hs.
    eapply (inv_thr_gen st i s rest (mkThr (s :: rest) P1 (t_busy (getT st i)))); eauto; simpl; auto;
      try solve [right; right; intros j Hj; unfold holdsS at 1; simpl; eapply others_ok_spec in G; eauto];
      try solve [right; left; reflexivity];
      try solve [intros _ _ _ _; exact I];
      try solve [left; rewrite Hrun; auto].
  - (* P1: acquire D *)
    destruct (others_ok holdsD (s_dmu s) (Some i) (thr st)) eqn:G; [|discriminate]. inversion Hs; subst st'; clear Hs.
    eapply (inv_thr_gen st i s rest (mkThr (s :: rest) P2 (t_busy (getT st i)))); eauto; simpl; auto;
      try solve [right; right; intros j Hj; unfold holdsD at 1; simpl; eapply others_ok_spec in G; eauto];
      try solve [intros _ _ _ _; exact I];
      try solve [left; rewrite Hrun; auto].
  - (* P2: test destroyed *)
    destruct (s_chk_de s && destroyed st) eqn:G; inversion Hs; subst st'; clear Hs.
    + apply andb_prop in G. destruct G as [G1 G2].
      eapply (inv_thr_gen st i s rest (mkThr [s] P6 (t_busy (getT st i)))); eauto; simpl; auto;
        try solve [intros Hi; destruct (Hclo1 Hi); congruence];
        try solve [intros _ _ _ _; exact I];
        try solve [left; split; auto; rewrite <- (Hrun P6); apply running_same; split; discriminate].
    + eapply (inv_thr_gen st i s rest (mkThr (s :: rest) P3 (t_busy (getT st i)))); eauto; simpl; auto;
        try solve [intros s0 r0 X Hc _; inversion X; subst; rewrite Hc in G; simpl in G; exact G];
        try solve [left; rewrite Hrun; auto].
  - (* P3: enter *)
    assert (Hchk3 : forall s0 r0, s :: rest = s0 :: r0 -> s_chk_de s0 = true -> s_dmu s0 <> LNone -> destroyed st = false).
    { intros s0 r0 X Hc Hd. inversion X; subst. specialize (Hchk i s0 r0 Hjb Hc Hd). rewrite Hph in Hchk. exact Hchk. }
    destruct (Nat.eq_dec i 1) as [Ei|Ei].
    + destruct (Hi1 Ei) as (Hm & Hp & Hd & Hr). rewrite Hm in Hs. inversion Hs; subst st'; clear Hs.
      destruct (Hclo1 Ei) as [Hc1 Hc2].
      eapply (inv_thr_gen st i s rest (mkThr (s :: rest) P4 (t_busy (getT st i)))); eauto; simpl; auto;
        try solve [intros X; congruence];
        try solve [intros _; unfold closer_pred; simpl; split; congruence];
        try solve [rewrite Hncl, Hc1; reflexivity];
        try solve [left; rewrite Hrun; auto].
    + destruct (Hn1 Ei) as (Hp & Hm1 & Hm2).
      assert (Hst : st' = set_thr st (upd i (mkThr (s :: rest) P4 (t_busy (getT st i))) (thr st))).
      { destruct (s_meth s); try congruence. }
      subst st'. clear Hs.
      eapply (inv_thr_gen st i s rest (mkThr (s :: rest) P4 (t_busy (getT st i)))); eauto; simpl; auto;
        try solve [intros X; congruence];
        try solve [left; rewrite Hrun; auto].
  - (* P4: return *)
    inversion Hs; subst st'; clear Hs.
    eapply (inv_thr_gen st i s rest (mkThr (s :: rest) P5 (t_busy (getT st i)))); eauto; simpl; auto;
      try solve [intros _ _ _ _; exact I];
      try solve [left; rewrite Hrun; auto].
  - (* P5: post write *)
    destruct (Nat.eq_dec i 1) as [Ei|Ei].
    + destruct (Hi1 Ei) as (Hm & Hp & Hd & Hr). rewrite Hp in Hs. inversion Hs; subst st'; clear Hs.
      destruct (Hclo1 Ei) as [Hc1 Hc2].
      eapply (inv_thr_gen st i s rest (mkThr (s :: rest) P6 (t_busy (getT st i)))); eauto; simpl; auto;
        try solve [intros X; congruence];
        try solve [intros _; unfold closer_pred; simpl; split; congruence];
        try solve [intros _ _ _ _; exact I];
        try solve [right; split; auto];
        try solve [left; rewrite Hrun; auto].
    + destruct (Hn1 Ei) as (Hp & Hm1 & Hm2). rewrite Hp in Hs. inversion Hs; subst st'; clear Hs.
      eapply (inv_thr_gen st i s rest (mkThr (s :: rest) P6 (t_busy (getT st i)))); eauto; simpl; auto;
        try solve [intros X; congruence];
        try solve [intros _ _ _ _; exact I];
        try solve [left; rewrite Hrun; auto].
  - (* P6: release, next site *)
    assert (Hcl6 : i = 1 -> closer_pred (mkThr rest P0 (t_busy (getT st i))) (closed st) (destroyed st)).
    { intros Ei. destruct (Hi1 Ei) as (_ & _ & _ & Hr). subst rest. destruct (Hclo1 Ei). unfold closer_pred. simpl. congruence. }
    destruct rest as [|s2 rest2].
    + destruct (t_busy (getT st i)) as [[]|] eqn:Eb; inversion Hs; subst st'; clear Hs;
        eapply (inv_thr_gen st i s [] (mkThr [] P0 _)); eauto; simpl; auto;
          try solve [right; left; reflexivity]; try solve [intros _ _ _ _; exact I];
          try solve [left; rewrite (thread_eta (getT st i)); rewrite Hjb, Eb; auto];
          try solve [right; rewrite (thread_eta (getT st i)); rewrite Hjb, Eb; auto].
    + assert (Hst : st' = set_thr st (upd i (mkThr (s2 :: rest2) P0 (t_busy (getT st i))) (thr st))).
      { destruct (t_busy (getT st i)) as [[]|]; congruence. }
      subst st'. clear Hs.
      eapply (inv_thr_gen st i s (s2 :: rest2) (mkThr (s2 :: rest2) P0 _)); eauto; simpl; auto;
        try solve [right; left; reflexivity];
        try solve [intros _ _ _ _; exact I];
        try solve [left; split; auto; rewrite <- (Hrun P0); apply running_same; split; discriminate].
Qed.

(* the ghost fields are not mentioned by the invariant *)
Lemma inv_ghost st d b : inv c st -> inv c (set_ghost st d b).
Proof. intros H. inv_destruct H. constructor; auto. Qed.

Lemma inv_ghost_step st i st1 : inv c st1 -> inv c (ghost_step c st i st1).
Proof.
  intros H. unfold ghost_step. destruct (t_job (getT st i)); auto.
  destruct (t_ph (getT st i)); auto; apply inv_ghost; auto.
Qed.

Theorem inv_step st a st' : inv c st -> step c st a = Some st' -> inv c st'.
Proof.
  destruct a; intros H Hs.
  - eapply inv_stop; eauto.
  - eapply inv_apload; eauto.
  - eapply inv_apincr; eauto.
  - eapply inv_apcheck; eauto.
  - eapply inv_apstart; eauto.
  - eapply inv_apoffload; eauto.
  - eapply inv_apclear; eauto.
  - simpl in Hs. destruct (negb (c_book_atomic c) && dirty st && is_idle (getT st 0)); [|discriminate].
    inversion Hs; subst. apply inv_ghost; auto.
  - eapply inv_poolload; eauto.
  - eapply inv_poolincr; eauto.
  - eapply inv_poolcheck; eauto.
  - eapply inv_pooloffload; eauto.
  - eapply inv_poolshutdown; eauto.
  - eapply inv_dispatch; eauto.
  - eapply inv_discard; eauto.
  - eapply inv_schedule; eauto.
  - eapply inv_completed; eauto.
  - eapply inv_readerstart; eauto.
  - eapply inv_closestart; eauto.
  - simpl in Hs. destruct (thr_step c st i) as [st1|] eqn:E; [|discriminate]. inversion Hs; subst.
    apply inv_ghost_step. eapply inv_thr; eauto.
Qed.

(* ---------- the ghost invariant: a snapshot image is never labelled while dirty ---------- *)
Definition ginv (st : state) : Prop :=
  (dirty st = true -> exists s r, t_job (getT st 0) = s :: r /\ s_meth s = MUpdate /\ ph_45 (t_ph (getT st 0)) = true)
  /\ snap_bad st = false.

Lemma role_apply_0 i : role_of c i = RApply -> i = 0.
Proof. destruct i as [|[|k]]; simpl; auto; try discriminate. destruct (k <? c_nsnap c); discriminate. Qed.

Lemma update_site_is_apply st i s r :
  inv c st -> t_job (getT st i) = s :: r -> s_meth s = MUpdate -> i = 0.
Proof.
  intros H Hjb Hm. inv_destruct H. specialize (Hjob i). rewrite Hjb in Hjob. inversion Hjob; subst.
  pose proof H1 as Hal. apply allowed_root in H1. destruct H1 as [Hin _].
  destruct tab_book as [_ Hu]. rewrite forallb_forall in Hu. specialize (Hu s Hin). rewrite Hm in Hu. simpl in Hu.
  apply String.eqb_eq in Hu.
  apply role_apply_0. destruct (role_of c i) eqn:Er; auto; exfalso; simpl in Hal.
  - unfold close_sites in Hal. apply root_sites_in in Hal. destruct Hal as [_ X]. rewrite Hu in X. discriminate.
  - destruct (t_busy (getT st i)) as [j|]; [|contradiction]. unfold job_sites in Hal.
    destruct j; repeat (apply in_app_or in Hal; destruct Hal as [Hal|Hal]);
      try (destruct (is_disk (c_kind c)); [|simpl in Hal; contradiction]);
      apply root_sites_in in Hal; destruct Hal as [_ X]; rewrite Hu in X; discriminate.
  - unfold reader_sites in Hal. apply in_app_or in Hal. destruct Hal as [Hal|Hal];
      apply root_sites_in in Hal; destruct Hal as [_ X]; rewrite Hu in X; discriminate.
Qed.

(* what a phase step does to the thread list *)
Lemma thr_step_eff st i st1 :
  thr_step c st i = Some st1 ->
  exists s rest, t_job (getT st i) = s :: rest
  /\ (forall j, j <> i -> getT st1 j = getT st j)
  /\ dirty st1 = dirty st /\ snap_bad st1 = snap_bad st
  /\ match t_ph (getT st i) with
     | P3 => t_job (getT st1 i) = s :: rest /\ t_ph (getT st1 i) = P4
     | P4 => t_job (getT st1 i) = s :: rest /\ t_ph (getT st1 i) = P5
     | _ => ph_45 (t_ph (getT st1 i)) = false
     end.
Proof.
  intros Hs. unfold thr_step in Hs.
  destruct (t_job (getT st i)) as [|s rest] eqn:Hjb; [discriminate|].
  assert (Hl : i < List.length (thr st)) by (apply nonidle_lt; unfold is_idle; rewrite Hjb; auto).
  exists s, rest. split; auto.
  assert (Hoth : forall t' j, j <> i -> nth j (upd i t' (thr st)) idle_thread = nth j (thr st) idle_thread).
  { intros t' j Hj. rewrite nthU; auto. destruct (Nat.eqb_spec i j); [congruence|reflexivity]. }
  assert (Hself : forall t', nth i (upd i t' (thr st)) idle_thread = t').
  { intros t'. rewrite nthU; auto. rewrite Nat.eqb_refl. auto. }
  Ltac eff_fin Hoth Hself :=
    unfold getT; simpl; repeat split; auto; try (intros; apply Hoth; auto); rewrite ?Hself; auto.
  destruct (t_ph (getT st i)) eqn:Hph.
  - destruct (others_ok holdsS (s_smu s) (Some i) (thr st)); [|discriminate]. inversion Hs; subst; clear Hs.
    eff_fin Hoth Hself.
  - destruct (others_ok holdsD (s_dmu s) (Some i) (thr st)); [|discriminate]. inversion Hs; subst; clear Hs.
    eff_fin Hoth Hself.
  - destruct (s_chk_de s && destroyed st); inversion Hs; subst; clear Hs; eff_fin Hoth Hself.
  - destruct (s_meth s); inversion Hs; subst; clear Hs; eff_fin Hoth Hself.
  - inversion Hs; subst; clear Hs. eff_fin Hoth Hself.
  - destruct (s_post s); inversion Hs; subst; clear Hs; eff_fin Hoth Hself.
  - destruct rest as [|s2 r2]; [destruct (t_busy (getT st i)) as [[]|]|destruct (t_busy (getT st i)) as [[]|]];
      inversion Hs; subst; clear Hs; eff_fin Hoth Hself.
Qed.

Lemma ginv_thr st i st1 :
  inv c st -> ginv st -> thr_step c st i = Some st1 -> ginv (ghost_step c st i st1).
Proof.
  intros Hinv [G1 G2] Hs.
  destruct (thr_step_eff st i st1 Hs) as (s & rest & Hjb & Hoth & Hd & Hb & Heff).
  destruct tab_book as [Hat _].
  assert (HT0 : i <> 0 -> getT st1 0 = getT st 0) by (intros X; apply Hoth; auto).
  (* the old witness, when thread i is not the apply worker *)
  assert (Hkeep : forall stx, getT stx 0 = getT st 0 -> dirty st = true ->
             exists s0 r0, t_job (getT stx 0) = s0 :: r0 /\ s_meth s0 = MUpdate /\ ph_45 (t_ph (getT stx 0)) = true).
  { intros stx E Hdy. rewrite E. auto. }
  unfold ghost_step. rewrite Hjb.
  destruct (t_ph (getT st i)) eqn:Hph;
    try (split; [rewrite Hd|rewrite Hb; exact G2]; intros Hdy;
         destruct (Nat.eq_dec i 0) as [E0|E0];
         [ subst i; destruct (G1 Hdy) as (s0 & r0 & A & B & C); rewrite Hph in C; discriminate
         | apply Hkeep; auto ]).
  - (* P3: enter *)
    destruct Heff as [Hj1 Hp1]. unfold ginv, set_ghost, getT; simpl. fold (getT st1 0). split.
    + intros Hdy. apply orb_prop in Hdy. destruct Hdy as [Hdy|Hu].
      * destruct (Nat.eq_dec i 0) as [E0|E0].
        -- subst i. destruct (G1 Hdy) as (s0 & r0 & A & B & C). rewrite Hph in C. discriminate.
        -- rewrite (HT0 E0). auto.
      * assert (Hm : s_meth s = MUpdate) by (destruct (s_meth s); simpl in Hu; try discriminate; auto).
        assert (E0 : i = 0) by (eapply update_site_is_apply; eauto). subst i.
        exists s, rest. rewrite Hj1, Hp1. auto.
    + rewrite G2. simpl. destruct (dirty st) eqn:Hdy; [|apply andb_false_r].
      destruct (label_site s) eqn:Hlab; auto. exfalso.
      destruct (G1 eq_refl) as (s0 & r0 & A & B & C).
      assert (E0 : i <> 0). { intro; subst i. rewrite Hph in C. discriminate. }
      (* the apply worker holds S exclusively, the labelling thread holds it at least shared *)
      pose proof Hinv as Hinv'. inv_destruct Hinv'.
      assert (Hin0 : In s0 (c_sites c)).
      { specialize (Hjob 0). rewrite A in Hjob. inversion Hjob; subst. apply allowed_root in H1. tauto. }
      assert (HinS : In s (c_sites c)).
      { specialize (Hjob i). rewrite Hjb in Hjob. inversion Hjob; subst. apply allowed_root in H1. tauto. }
      destruct tab_parts as (Hcore & _). unfold table_core_ok in Hcore. rewrite forallb_forall in Hcore.
      pose proof (Hcore s0 Hin0) as Hc0. pose proof (Hcore s HinS) as HcS. unfold site_ok_core in Hc0, HcS.
      rewrite B in Hc0.
      specialize (HlS i 0 E0). unfold holdsS in HlS. rewrite Hjb, A, Hph in HlS. simpl in HlS.
      assert (Hh0 : holds_s (t_ph (getT st 0)) = true) by (destruct (t_ph (getT st 0)); simpl in C; try discriminate; auto).
      rewrite Hh0 in HlS.
      unfold label_site in Hlab.
      destruct (s_smu s0); try discriminate.
      destruct (s_meth s); simpl in Hlab; try discriminate; destruct (s_smu s); simpl in *; try discriminate.
  - (* P4: return *)
    destruct Heff as [Hj1 Hp1]. split; [rewrite Hd|rewrite Hb; exact G2]. intros Hdy.
    destruct (Nat.eq_dec i 0) as [E0|E0]; [|apply Hkeep; auto].
    subst i. destruct (G1 Hdy) as (s0 & r0 & A & B & C). rewrite Hjb in A. inversion A; subst s0 r0.
    exists s, rest. rewrite Hj1, Hp1. auto.
  - (* P5: post *)
    unfold ginv, set_ghost, getT; simpl. fold (getT st1 0). split; [|exact G2].
    intros Hdy. apply andb_prop in Hdy. destruct Hdy as [Hdy Hn]. apply negb_true_iff in Hn.
    destruct (Nat.eq_dec i 0) as [E0|E0]; [|rewrite (HT0 E0); auto].
    subst i. destruct (G1 Hdy) as (s0 & r0 & A & B & C). rewrite Hjb in A. inversion A; subst s0 r0.
    rewrite B, Hat in Hn. discriminate.
Qed.

Lemma ginv_step st a st' : inv c st -> ginv st -> step c st a = Some st' -> ginv st'.
Proof.
  intros Hinv Hg Hs.
  assert (Hsame : getT st' 0 = getT st 0 -> dirty st' = dirty st -> snap_bad st' = snap_bad st -> ginv st').
  { intros E1 E2 E3. destruct Hg as [G1 G2]. unfold ginv. rewrite E1, E2, E3. auto. }
  assert (Hn0 : forall w t', role_of c w <> RApply -> nth 0 (upd w t' (thr st)) idle_thread = getT st 0).
  { intros w t' Hr. destruct w; [exfalso; apply Hr; reflexivity|]. unfold getT. destruct (thr st); reflexivity. }
  destruct a; simpl in Hs.
  - destruct (stopped st); [discriminate|]. inversion Hs; subst. apply Hsame; reflexivity.
  - destruct (negb (stopped st) && ref_eqb (ap_ref st) NotLoaded); [|discriminate].
    inversion Hs; subst. destruct (c_load_atomic_engine c); apply Hsame; reflexivity.
  - destruct (ref_eqb (ap_ref st) Seen); [|discriminate]. inversion Hs; subst. apply Hsame; reflexivity.
  - destruct (ref_eqb (ap_ref st) Loaded && is_idle (getT st 0)); [|discriminate]. inversion Hs; subst. apply Hsame; reflexivity.
  - (* AApStart: the apply worker was idle, so nothing is dirty *)
    destruct (ap_chk st && is_idle (getT st 0) && (c_book_atomic c || negb (dirty st))) eqn:G; [|discriminate].
    apply andb_prop in G. destruct G as [G _]. apply andb_prop in G. destruct G as [_ Gi].
    destruct (nth_error (apply_sites c) n); [|discriminate]. inversion Hs; subst.
    destruct Hg as [G1 G2]. split; simpl; auto. intros Hdy. destruct (G1 Hdy) as (s0 & r0 & A & _).
    unfold is_idle in Gi. rewrite A in Gi. discriminate.
  - destruct (stopped st && ref_eqb (ap_ref st) Loaded && is_idle (getT st 0)); [|discriminate]. inversion Hs; subst. apply Hsame; reflexivity.
  - destruct (ss_streaming st && stream_done st); [|discriminate]. inversion Hs; subst. apply Hsame; reflexivity.
  - destruct (negb (c_book_atomic c) && dirty st && is_idle (getT st 0)); [|discriminate]. inversion Hs; subst.
    destruct Hg as [G1 G2]. split; simpl; auto. discriminate.
  - destruct (negb (stopped st) && ref_eqb (pool_ref st) NotLoaded); [|discriminate].
    inversion Hs; subst. destruct (c_load_atomic_pool c); apply Hsame; reflexivity.
  - destruct (ref_eqb (pool_ref st) Seen); [|discriminate]. inversion Hs; subst. apply Hsame; reflexivity.
  - destruct (ref_eqb (pool_ref st) Loaded); [|discriminate]. inversion Hs; subst. apply Hsame; reflexivity.
  - destruct (stopped st && ref_eqb (pool_ref st) Loaded); [|discriminate]. inversion Hs; subst. apply Hsame; reflexivity.
  - match type of Hs with (if ?g then _ else _) = _ => destruct g; [|discriminate] end. inversion Hs; subst.
    apply Hsame; try reflexivity. unfold getT at 1. simpl. rewrite nth_clear.
    apply clear_busy_facts. apply (not_busy_role st 0 Hinv). discriminate.
  - match type of Hs with (if ?g then _ else _) = _ => destruct g; [|discriminate] end. inversion Hs; subst. apply Hsame; reflexivity.
  - match type of Hs with (if ?g then _ else _) = _ => destruct g; [|discriminate] end. inversion Hs; subst. apply Hsame; reflexivity.
  - destruct (role_of c w) eqn:Er; try discriminate.
    match type of Hs with (if ?g then _ else _) = _ => destruct g; [|discriminate] end. inversion Hs; subst.
    apply Hsame; try reflexivity. unfold getT at 1. simpl. apply Hn0. rewrite Er. discriminate.
  - destruct (role_of c w) eqn:Er; try discriminate. destruct (t_busy (getT st w)); try discriminate.
    destruct (is_idle (getT st w)); [|discriminate]. inversion Hs; subst.
    apply Hsame; try reflexivity. unfold getT at 1. simpl. apply Hn0. rewrite Er. discriminate.
  - destruct (role_of c r) eqn:Er; try discriminate.
    destruct (is_idle (getT st r) && (r <? List.length (thr st))); [|discriminate].
    destruct (nth_error (reader_sites c) n); [|discriminate]. inversion Hs; subst.
    apply Hsame; try reflexivity. unfold getT at 1. simpl. apply Hn0. rewrite Er. discriminate.
  - destruct (close_ready st && is_idle (getT st 1)); [|discriminate].
    destruct (c_close_checks_destroyed c && destroyed st); inversion Hs; subst; apply Hsame; try reflexivity.
    unfold getT at 1. simpl. apply (Hn0 1). discriminate.
  - destruct (thr_step c st i) as [st1|] eqn:E; [|discriminate]. inversion Hs; subst. eapply ginv_thr; eauto.
Qed.

Lemma ginv_run l : forall st, inv c st -> ginv st -> ginv (run c st l).
Proof.
  induction l; simpl; intros st H Hg; auto. unfold step'.
  destruct (step c st a) eqn:E; [|apply IHl; auto].
  apply IHl; [eapply inv_step; eauto | eapply ginv_step; eauto].
Qed.

Lemma inv_run l : forall st, inv c st -> inv c (run c st l).
Proof.
  induction l; simpl; intros st H; auto. apply IHl. unfold step'.
  destruct (step c st a) eqn:E; auto. eapply inv_step; eauto.
Qed.

(* ---------- consequences ---------- *)
Lemma in_call_inv st i m :
  inv c st -> in_call (getT st i) = Some m ->
  exists s r, t_job (getT st i) = s :: r /\ t_ph (getT st i) = P4 /\ m = s_meth s
              /\ In s (allowed c (role_of c i) (t_busy (getT st i))) /\ In s (c_sites c).
Proof.
  intros H Hc. inv_destruct H. unfold in_call in Hc.
  destruct (t_job (getT st i)) as [|s r] eqn:Hjb; [discriminate|].
  destruct (t_ph (getT st i)) eqn:Hph; try discriminate. inversion Hc; subst.
  specialize (Hjob i). rewrite Hjb in Hjob. inversion Hjob; subst.
  exists s, r. repeat split; auto. apply allowed_root in H1. tauto.
Qed.

Lemma closing_quiet st i :
  inv c st -> closing st -> role_of c i = RApply \/ role_of c i = RSnap -> is_idle (getT st i) = true.
Proof.
  intros H Hc Hr. pose proof H as Hinv. inv_destruct H. destruct (Hclosing Hc) as (X1 & X2 & X3 & X4 & X5 & X6 & X7).
  destruct Hr as [Hr|Hr].
  - destruct i as [|[|k]]; simpl in Hr; try discriminate; auto. destruct (k <? c_nsnap c); discriminate.
  - pose proof (busy_count_zero _ X5 i) as Hb. fold (getT st i) in Hb.
    specialize (Hjob i). rewrite Hr in Hjob. unfold is_busy in Hb.
    destruct (t_busy (getT st i)); [discriminate|]. simpl in Hjob.
    unfold is_idle. destruct (t_job (getT st i)); auto. inversion Hjob; subst. contradiction.
Qed.

Lemma in_call_not_idle t m : in_call t = Some m -> is_idle t = false.
Proof. unfold in_call, is_idle. destruct (t_job t); [discriminate|auto]. Qed.

Lemma reader_meth s : In s (reader_sites c) -> core (s_meth s) = false /\ plain_excl (s_meth s) = false.
Proof.
  intros Hin. destruct tab_parts as (_ & _ & _ & _ & _ & Hr & _). rewrite forallb_forall in Hr.
  specialize (Hr s Hin). apply andb_prop in Hr. destruct Hr as [H1 H2].
  apply negb_true_iff in H1. apply negb_true_iff in H2. auto.
Qed.

Lemma close_call_is_closer st i :
  inv c st -> in_call (getT st i) = Some MClose -> i = 1.
Proof.
  intros H Hc. destruct (in_call_inv st i MClose H Hc) as (s & r & Hjb & Hph & Hm & Hal & Hin).
  destruct (Nat.eq_dec i 1); auto. exfalso.
  destruct (site_facts st i s r H Hjb) as [Hn1 _]. destruct (Hn1 n) as (_ & _ & X). congruence.
Qed.

Lemma core_site_lock s : In s (c_sites c) -> core (s_meth s) = true -> s_meth s <> MClose ->
  (s_meth s = MPrepare /\ s_smu s <> LNone) \/ s_smu s = LWrite.
Proof.
  intros Hin Hc Hn. destruct tab_parts as (Hcore & _). unfold table_core_ok in Hcore. rewrite forallb_forall in Hcore.
  specialize (Hcore s Hin). unfold site_ok_core in Hcore.
  destruct (s_meth s); simpl in Hc; try discriminate; try congruence;
    destruct (s_smu s); try discriminate; auto; left; split; auto; discriminate.
Qed.

Lemma holdsS_in_call t s r : t_job t = s :: r -> t_ph t = P4 -> holdsS t = s_smu s /\ holdsD t = s_dmu s.
Proof. intros Hj Hp. unfold holdsS, holdsD. rewrite Hj, Hp. auto. Qed.

Lemma one_running_snap st i j :
  inv c st -> i <> j -> role_of c i = RSnap -> role_of c j = RSnap ->
  is_idle (getT st i) = false -> is_idle (getT st j) = false -> False.
Proof.
  intros H Hne Hri Hrj Hi Hj. inv_destruct H.
  assert (Hb : forall k, role_of c k = RSnap -> is_idle (getT st k) = false -> exists b, t_busy (getT st k) = Some b).
  { intros k Hr Hk. specialize (Hjob k). rewrite Hr in Hjob. destruct (t_busy (getT st k)); eauto.
    simpl in Hjob. unfold is_idle in Hk. destruct (t_job (getT st k)); [discriminate|]. inversion Hjob; subst. contradiction. }
  destruct (Hb i Hri Hi) as [a Ha]. destruct (Hb j Hrj Hj) as [b Hb'].
  pose proof (Hadm i j a b Hne Ha Hb') as Hc. destruct a, b; try discriminate.
  apply (Hs2 i j Hne); unfold running_stream; rewrite ?Ha, ?Hb', ?Hi, ?Hj; auto.
Qed.

Theorem exclusive_core_inv st i j m1 m2 :
  inv c st -> i <> j ->
  in_call (getT st i) = Some m1 -> in_call (getT st j) = Some m2 ->
  core m1 = true -> core m2 = true -> False.
Proof.
  intros H Hne H1 H2 Hc1 Hc2.
  destruct (in_call_inv st i m1 H H1) as (s1 & r1 & Hj1 & Hp1 & Hm1 & Hal1 & Hin1).
  destruct (in_call_inv st j m2 H H2) as (s2 & r2 & Hj2 & Hp2 & Hm2 & Hal2 & Hin2).
  pose proof (in_call_not_idle _ _ H1) as Hni1. pose proof (in_call_not_idle _ _ H2) as Hni2.
  (* readers never run core methods *)
  assert (Hrole : forall k m s, role_of c k = RReader -> In s (allowed c (role_of c k) (t_busy (getT st k))) ->
                   m = s_meth s -> core m = true -> False).
  { intros k m s Hr Hal -> Hc. rewrite Hr in Hal. simpl in Hal. apply reader_meth in Hal. destruct Hal. congruence. }
  (* the closer excludes every engine thread *)
  assert (Hclo : forall k, k <> 1 -> is_idle (getT st 1) = false -> is_idle (getT st k) = false ->
                  role_of c k = RReader).
  { intros k Hk1 Hc Hk. destruct (role_of c k) eqn:Er; auto; exfalso.
    - rewrite (closing_quiet st k H) in Hk; [discriminate| right; left; auto | left; auto].
    - apply role_close_iff in Er. auto.
    - rewrite (closing_quiet st k H) in Hk; [discriminate| right; left; auto | right; auto]. }
  destruct (Nat.eq_dec i 1) as [Ei|Ei]; [subst i|].
  { apply (Hrole j m2 s2); auto. }
  destruct (Nat.eq_dec j 1) as [Ej|Ej]; [subst j|].
  { apply (Hrole i m1 s1); auto. }
  (* neither is the closer: neither method is Close *)
  assert (Hnc1 : s_meth s1 <> MClose).
  { intro X. apply Ei. apply (close_call_is_closer st); auto. congruence. }
  assert (Hnc2 : s_meth s2 <> MClose).
  { intro X. apply Ej. apply (close_call_is_closer st); auto. congruence. }
  destruct (holdsS_in_call _ _ _ Hj1 Hp1) as [HS1 _]. destruct (holdsS_in_call _ _ _ Hj2 Hp2) as [HS2 _].
  pose proof H as Hinv. inv_destruct H. specialize (HlS i j Hne). rewrite HS1, HS2 in HlS.
  subst m1 m2.
  destruct (core_site_lock s1 Hin1 Hc1 Hnc1) as [[Hp1' Hl1]|Hl1];
  destruct (core_site_lock s2 Hin2 Hc2 Hnc2) as [[Hp2' Hl2]|Hl2];
    try (rewrite ?Hl1, ?Hl2 in HlS; destruct (s_smu s1), (s_smu s2); simpl in HlS; congruence).
  (* both PrepareSnapshot: both are snapshot workers, and only one runs *)
  assert (Hsn : forall k s, In s (allowed c (role_of c k) (t_busy (getT st k))) -> s_meth s = MPrepare ->
                 k <> 1 -> role_of c k = RSnap).
  { intros k s Hal Hm Hk. destruct (role_of c k) eqn:Er; auto; exfalso.
    - simpl in Hal. destruct tab_parts as (_ & _ & _ & _ & _ & _ & Hap' & _). rewrite forallb_forall in Hap'.
      specialize (Hap' s Hal). rewrite Hm in Hap'. discriminate.
    - apply role_close_iff in Er. auto.
    - simpl in Hal. apply reader_meth in Hal. rewrite Hm in Hal. destruct Hal; discriminate. }
  apply (one_running_snap st i j Hinv Hne); eauto.
Qed.

Theorem none_after_close_inv st i m :
  inv c st -> closed st = true -> in_call (getT st i) = Some m -> core m = true ->
  i = 1 /\ m = MClose /\ nclose st = 1.
Proof.
  intros H Hcl Hc Hcore.
  destruct (in_call_inv st i m H Hc) as (s & r & Hjb & Hph & Hm & Hal & Hin).
  pose proof (in_call_not_idle _ _ Hc) as Hni.
  assert (Hi : i = 1).
  { destruct (Nat.eq_dec i 1); auto. exfalso. destruct (role_of c i) eqn:Er.
    - rewrite (closing_quiet st i H) in Hni; [discriminate| right; right; auto | left; auto].
    - apply role_close_iff in Er. auto.
    - rewrite (closing_quiet st i H) in Hni; [discriminate| right; right; auto | right; auto].
    - simpl in Hal. apply reader_meth in Hal. destruct Hal. congruence. }
  subst i. destruct (site_facts st 1 s r H Hjb) as [_ H1]. destruct (H1 eq_refl) as (X & _).
  inv_destruct H. rewrite Hncl, Hcl. repeat split; auto. congruence.
Qed.

Theorem nclose_le_1 st : inv c st -> nclose st <= 1.
Proof. intros H. inv_destruct H. rewrite Hncl. destruct (closed st); simpl; lia. Qed.

(* ---- the plain (non-concurrent) state machine ---- *)
Section Plain.
Hypothesis Hplain : plain_reader_ok c = true.

Lemma plain_parts :
  forallb (fun s => s_chk_de s && negb (compat LWrite (s_smu s)) && negb (compat LWrite (s_dmu s))) (reader_sites c) = true
  /\ forallb (fun s => match s_meth s with
                       | MSave => negb (compat LWrite (s_smu s))
                       | MLookup | MNALookup => false
                       | _ => true end)
       (job_sites c JSave ++ job_sites c JRecover ++ job_sites c JRecoverInit ++ apply_sites c) = true.
Proof. unfold plain_reader_ok in Hplain. apply andb_prop in Hplain. exact Hplain. Qed.

Hypothesis Hkind : c_kind c = Plain.

Lemma not_compat_W m : negb (compat LWrite m) = true -> m <> LNone.
Proof. destruct m; simpl; intros; congruence. Qed.

(* a thread of the plain state machine inside Lookup / NALookup / SaveSnapshot holds S at least shared *)
Lemma plain_rw_holds st i m s r :
  inv c st -> t_job (getT st i) = s :: r -> In s (allowed c (role_of c i) (t_busy (getT st i))) ->
  m = s_meth s -> plain_rw m = true -> i <> 1 ->
  s_smu s <> LNone /\ (role_of c i = RReader -> s_chk_de s = true /\ s_dmu s <> LNone).
Proof.
  intros H Hjb Hal Hm Hrw Hi. destruct plain_parts as [Hr Hs]. rewrite forallb_forall in Hr, Hs.
  destruct (role_of c i) eqn:Er; simpl in Hal.
  - split; [|discriminate]. specialize (Hs s). rewrite !in_app_iff in Hs. specialize (Hs (or_intror (or_intror (or_intror Hal)))).
    subst m. destruct (s_meth s); simpl in Hrw; try discriminate. apply not_compat_W; auto.
  - exfalso. apply role_close_iff in Er. auto.
  - split; [|discriminate]. destruct (t_busy (getT st i)) as [jb|]; [|contradiction].
    assert (X : In s (job_sites c JSave ++ job_sites c JRecover ++ job_sites c JRecoverInit ++ apply_sites c)).
    { rewrite !in_app_iff. destruct jb; auto. unfold job_sites in Hal. rewrite Hkind in Hal. simpl in Hal. contradiction. }
    specialize (Hs s X). subst m. destruct (s_meth s); simpl in Hrw; try discriminate. apply not_compat_W; auto.
  - specialize (Hr s Hal). apply andb_prop in Hr. destruct Hr as [Hr H3]. apply andb_prop in Hr. destruct Hr as [H1 H2].
    split; [apply not_compat_W; auto|]. intros _. split; auto. apply not_compat_W; auto.
Qed.

Lemma closer_in_section st :
  inv c st -> closed st = true -> destroyed st = false -> holdsD (getT st 1) = LWrite.
Proof.
  intros H Hc Hd. pose proof H as Hinv. inv_destruct H. simpl in Hcloser.
  destruct (t_job (getT st 1)) as [|s r] eqn:Hjb; [congruence|].
  destruct (site_facts st 1 s r Hinv Hjb) as [_ H1]. destruct (H1 eq_refl) as (_ & _ & Hw & _).
  unfold holdsD. rewrite Hjb.
  destruct (t_ph (getT st 1)); simpl in *; auto; destruct Hcloser; congruence.
Qed.

Theorem plain_exclusive_inv st i j m1 m2 :
  inv c st -> i <> j ->
  in_call (getT st i) = Some m1 -> in_call (getT st j) = Some m2 ->
  plain_rw m1 = true -> plain_excl m2 = true -> False.
Proof.
  intros H Hne H1 H2 Hc1 Hc2.
  destruct (in_call_inv st i m1 H H1) as (s1 & r1 & Hj1 & Hp1 & Hm1 & Hal1 & Hin1).
  destruct (in_call_inv st j m2 H H2) as (s2 & r2 & Hj2 & Hp2 & Hm2 & Hal2 & Hin2).
  pose proof (in_call_not_idle _ _ H1) as Hni1. pose proof (in_call_not_idle _ _ H2) as Hni2.
  destruct (holdsS_in_call _ _ _ Hj1 Hp1) as [HS1 HD1]. destruct (holdsS_in_call _ _ _ Hj2 Hp2) as [HS2 HD2].
  assert (Hi1 : i <> 1).
  { intro. subst i. destruct (site_facts st 1 s1 r1 H Hj1) as [_ X]. destruct (X eq_refl) as (Y & _).
    subst m1. rewrite Y in Hc1. discriminate. }
  destruct (plain_rw_holds st i m1 s1 r1 H Hj1 Hal1 Hm1 Hc1 Hi1) as [Hsm1 Hrd].
  pose proof H as Hinv. inv_destruct H.
  destruct (Nat.eq_dec j 1) as [Ej|Ej].
  - subst j. destruct (site_facts st 1 s2 r2 Hinv Hj2) as [_ X]. destruct (X eq_refl) as (_ & _ & Hw & _).
    destruct (role_of c i) eqn:Er.
    + rewrite (closing_quiet st i Hinv) in Hni1; [discriminate| right; left; auto | left; auto].
    + apply role_close_iff in Er. auto.
    + rewrite (closing_quiet st i Hinv) in Hni1; [discriminate| right; left; auto | right; auto].
    + destruct (Hrd eq_refl) as [_ Hd]. specialize (HlD i 1 Hne). rewrite HD1, HD2, Hw in HlD.
      destruct (s_dmu s1); simpl in HlD; congruence.
  - assert (Hm2c : s_meth s2 <> MClose).
    { intro X. apply Ej. apply (close_call_is_closer st); auto. congruence. }
    assert (Hcore : core (s_meth s2) = true) by (subst m2; destruct (s_meth s2); simpl in *; congruence).
    destruct (core_site_lock s2 Hin2 Hcore Hm2c) as [[X _]|Hw].
    + subst m2. rewrite X in Hc2. discriminate.
    + specialize (HlS i j Hne). rewrite HS1, HS2, Hw in HlS. destruct (s_smu s1); simpl in HlS; congruence.
Qed.

Theorem plain_none_after_close_inv st i m :
  inv c st -> closed st = true -> in_call (getT st i) = Some m -> plain_rw m = true -> False.
Proof.
  intros H Hcl H1 Hc1.
  destruct (in_call_inv st i m H H1) as (s1 & r1 & Hj1 & Hp1 & Hm1 & Hal1 & Hin1).
  pose proof (in_call_not_idle _ _ H1) as Hni1.
  destruct (holdsS_in_call _ _ _ Hj1 Hp1) as [HS1 HD1].
  assert (Hi1 : i <> 1).
  { intro. subst i. destruct (site_facts st 1 s1 r1 H Hj1) as [_ X]. destruct (X eq_refl) as (Y & _).
    subst m. rewrite Y in Hc1. discriminate. }
  destruct (plain_rw_holds st i m s1 r1 H Hj1 Hal1 Hm1 Hc1 Hi1) as [Hsm1 Hrd].
  destruct (role_of c i) eqn:Er.
  - rewrite (closing_quiet st i H) in Hni1; [discriminate| right; right; auto | left; auto].
  - apply role_close_iff in Er. auto.
  - rewrite (closing_quiet st i H) in Hni1; [discriminate| right; right; auto | right; auto].
  - destruct (Hrd eq_refl) as [Hck Hd].
    pose proof H as Hinv. inv_destruct H.
    specialize (Hchk i s1 r1 Hj1 Hck Hd). rewrite Hp1 in Hchk.
    pose proof (closer_in_section st Hinv Hcl Hchk) as Hw.
    specialize (HlD i 1 Hi1). rewrite HD1, Hw in HlD. destruct (s_dmu s1); simpl in HlD; congruence.
Qed.

End Plain.
End Proofs.

(* ---------- the configuration generated from the source ---------- *)
Lemma gen_table_ok k nsnap : table_ok (gen_cfg k nsnap) = true.
Proof. destruct k; vm_compute; reflexivity. Qed.

Lemma gen_plain_ok nsnap : plain_reader_ok (gen_cfg Plain nsnap) = true.
Proof. vm_compute; reflexivity. Qed.

Lemma gen_inv k nsnap n sched : 2 <= n -> inv (gen_cfg k nsnap) (run (gen_cfg k nsnap) (init n) sched).
Proof. intros Hn. apply inv_run; [apply gen_table_ok|]. apply inv_init; auto. Qed.

Theorem exclusive_core_proved :
  forall k nsnap n sched i j m1 m2, 2 <= n -> i <> j ->
  let st := run (gen_cfg k nsnap) (init n) sched in
  in_call (getT st i) = Some m1 -> in_call (getT st j) = Some m2 ->
  core m1 = true -> core m2 = true -> False.
Proof.
  intros k nsnap n sched i j m1 m2 Hn Hne st. eapply exclusive_core_inv; eauto.
  - apply gen_table_ok.
  - apply gen_inv; auto.
Qed.

Theorem none_after_close_proved :
  forall k nsnap n sched i m, 2 <= n ->
  let st := run (gen_cfg k nsnap) (init n) sched in
  (nclose st <= 1)%nat /\
  (closed st = true -> in_call (getT st i) = Some m -> core m = true -> i = 1%nat /\ m = MClose).
Proof.
  intros k nsnap n sched i m Hn st. split.
  - eapply nclose_le_1. apply gen_inv; auto.
  - intros Hc Hi Hm. destruct (none_after_close_inv (gen_cfg k nsnap) (gen_table_ok k nsnap) st i m) as (A & B & _); auto.
    apply gen_inv; auto.
Qed.

Theorem plain_sm_lookup_save_exclusive_proved :
  forall nsnap n sched i j m1 m2, 2 <= n -> i <> j ->
  let st := run (gen_cfg Plain nsnap) (init n) sched in
  in_call (getT st i) = Some m1 -> in_call (getT st j) = Some m2 ->
  plain_rw m1 = true -> plain_excl m2 = true -> False.
Proof.
  intros nsnap n sched i j m1 m2 Hn Hne st.
  eapply (plain_exclusive_inv (gen_cfg Plain nsnap) (gen_table_ok Plain nsnap) (gen_plain_ok nsnap) eq_refl); eauto.
  apply gen_inv; auto.
Qed.

Theorem plain_sm_nothing_after_close_proved :
  forall nsnap n sched i m, 2 <= n ->
  let st := run (gen_cfg Plain nsnap) (init n) sched in
  closed st = true -> in_call (getT st i) = Some m -> plain_rw m = true -> False.
Proof.
  intros nsnap n sched i m Hn st.
  eapply (plain_none_after_close_inv (gen_cfg Plain nsnap) (gen_table_ok Plain nsnap) (gen_plain_ok nsnap) eq_refl); eauto.
  apply gen_inv; auto.
Qed.

(* ---------- the defect F4: NativeSM.Close without the mutex (the source before the fix) ---------- *)
Definition close_rows_before_fix : list (string * string * (N * N) * (bool * bool) * (N * N) * (N * N)) :=
  [("Close"%string, "Close"%string, (0, 0)%N, (false, false), (0, 0)%N, (0, 0)%N);
   ("Close"%string, "SetDestroyed"%string, (0, 0)%N, (false, false), (0, 0)%N, (0, 0)%N)].
Definition table_before_fix :=
  close_rows_before_fix
  ++ filter (fun r => match r with (root, _, _, _, _, _) => negb (String.eqb root "Close") end) lock_table.
Definition cfg_before_fix (k : kind) (nsnap : nat) : cfg :=
  mkCfg (sites_of_table table_before_fix) k nsnap engine_load_inside_foreach pool_load_inside_foreach
        apply_checks_stopped pool_rechecks_before_schedule pool_stops_workers_before_unload
        sched_checks_node_loaded can_stream_checks_streaming
        close_worker_checks_destroyed apply_bookkeeping_in_update_section pool_blocks.

(* NodeHost stops the shard, the close worker is inside the user Close, a client
   holding a completed ReadIndex reads locally: Lookup runs beside (and after the
   start of) Close *)
Definition f4_schedule : list action :=
  [AStop; ACloseStart; AThr 1; AThr 1; AThr 1; AThr 1;
   AReaderStart 3 0; AThr 3; AThr 3; AThr 3; AThr 3].

Theorem lookup_close_overlap_refuted_proved :
  exists sched,
    let st := run (cfg_before_fix Plain 1) (init 4) sched in
    overlap plain_rw plain_excl st = true
    /\ calls st = [(1%nat, MClose); (3%nat, MLookup)] /\ closed st = true.
Proof. exists f4_schedule. vm_compute. repeat split; reflexivity. Qed.

(* the same schedule on the generated (current) table: the reader is blocked by the
   mutex Close holds *)
Lemma f4_schedule_now : calls (run (gen_cfg Plain 1) (init 4) f4_schedule) = [(1%nat, MClose)].
Proof. vm_compute. reflexivity. Qed.

(* ---------- the order of the pool's shutdown calls matters ---------- *)
(* the generated configuration with unloadNodes() BEFORE workerStopper.Stop() *)
Definition cfg_unload_first (k : kind) (nsnap : nat) : cfg :=
  mkCfg gen_sites k nsnap engine_load_inside_foreach pool_load_inside_foreach
        apply_checks_stopped pool_rechecks_before_schedule false
        sched_checks_node_loaded can_stream_checks_streaming
        close_worker_checks_destroyed apply_bookkeeping_in_update_section pool_blocks.

(* a save job is inside SaveSnapshot (resp. a recover job inside RecoverFromSnapshot),
   NodeHost.Close stops the node and the pool drops the busy reference without
   waiting: the counter reaches 0 and the close worker enters Close *)
Definition unload_first_schedule (j : jobkind) (steps : nat) : list action :=
  [AApLoad; AApIncr; AApCheck; ADispatch j; APoolLoad; APoolIncr; APoolCheck; ASchedule 2 j] ++ repeat (AThr 2) steps
  ++ [AStop; AApOffload; APoolShutdown; ACloseStart; AThr 1; AThr 1; AThr 1; AThr 1].

Theorem unload_before_stop_refuted_proved :
  (let st := run (cfg_unload_first Plain 1) (init 4) (unload_first_schedule JSave 4) in
   calls st = [(1%nat, MClose); (2%nat, MSave)] /\ overlap plain_rw plain_excl st = true)
  /\ (let st := run (cfg_unload_first Conc 1) (init 4) (unload_first_schedule JRecover 4) in
      calls st = [(1%nat, MClose); (2%nat, MRecover)] /\ overlap core core st = true)
  /\ (* with the generated order the same schedules never reach Close *)
     calls (run (gen_cfg Plain 1) (init 4) (unload_first_schedule JSave 4)) = [(2%nat, MSave)]
  /\ calls (run (gen_cfg Conc 1) (init 4) (unload_first_schedule JRecover 4)) = [(2%nat, MRecover)].
Proof. vm_compute. repeat split; reflexivity. Qed.

(* ---------- the two pool / node rules about waiting and streaming jobs ---------- *)
Definition cfg_flip (k : kind) (nsnap : nat) (sched_check stream_flag : bool) : cfg :=
  mkCfg gen_sites k nsnap engine_load_inside_foreach pool_load_inside_foreach
        apply_checks_stopped pool_rechecks_before_schedule pool_stops_workers_before_unload
        sched_check stream_flag close_worker_checks_destroyed apply_bookkeeping_in_update_section pool_blocks.

(* a save request waits in the pool, the replica is stopped and closed, then a worker
   becomes free: without the test of scheduleWorker the job runs on the closed state machine *)
Definition stale_job_schedule : list action :=
  [AApLoad; AApIncr; AApCheck; ADispatch JSave; APoolLoad; APoolIncr;
   AStop; AApOffload; APoolOffload; ACloseStart] ++ repeat (AThr 1) 7
  ++ [ASchedule 2 JSave; AThr 2; AThr 2; AThr 2; AThr 2].

(* two stream requests for the same on-disk state machine: without the streaming test of
   canStream the second one is dispatched while the first is inside PrepareSnapshot *)
Definition two_streams_schedule : list action :=
  [AApLoad; AApIncr; AApCheck; APoolLoad; APoolIncr; APoolCheck;
   ADispatch JStream; ASchedule 2 JStream; AThr 2; AThr 2; AThr 2; AThr 2;
   ADispatch JStream; ASchedule 3 JStream; AThr 3; AThr 3; AThr 3; AThr 3].

Theorem pool_rules_needed_proved :
  (let st := run (cfg_flip Conc 1 false true) (init 4) stale_job_schedule in
   closed st = true /\ destroyed st = true /\ calls st = [(2%nat, MPrepare)])
  /\ calls (run (gen_cfg Conc 1) (init 4) stale_job_schedule) = []
  /\ (let st := run (cfg_flip Disk 2 true false) (init 5) two_streams_schedule in
      calls st = [(2%nat, MPrepare); (3%nat, MPrepare)] /\ overlap core core st = true)
  /\ calls (run (gen_cfg Disk 2) (init 5) two_streams_schedule) = [(2%nat, MPrepare)].
Proof. vm_compute. repeat split; reflexivity. Qed.

(* ---------- the pool's admission rule ---------- *)
(* the generated configuration with a save job that is only kept waiting by an ongoing
   save / recover (not by an ongoing stream) *)
Definition cfg_save_beside_stream (k : kind) (nsnap : nat) : cfg :=
  mkCfg gen_sites k nsnap engine_load_inside_foreach pool_load_inside_foreach
        apply_checks_stopped pool_rechecks_before_schedule pool_stops_workers_before_unload
        sched_checks_node_loaded can_stream_checks_streaming close_worker_checks_destroyed
        apply_bookkeeping_in_update_section
        [("Recover", ["saving"; "recovering"; "streaming"]); ("Save", ["saving"; "recovering"]);
         ("Stream", ["saving"; "recovering"])]%string.

Definition stream_then_save_schedule : list action :=
  [AApLoad; AApIncr; AApCheck; APoolLoad; APoolIncr; APoolCheck;
   ADispatch JStream; ASchedule 2 JStream; AThr 2; AThr 2; AThr 2; AThr 2;
   ADispatch JSave; ASchedule 3 JSave; AThr 3; AThr 3; AThr 3; AThr 3].

Theorem pool_admission_needed_proved :
  (let st := run (cfg_save_beside_stream Disk 2) (init 5) stream_then_save_schedule in
   calls st = [(2%nat, MPrepare); (3%nat, MPrepare)] /\ overlap core core st = true)
  /\ calls (run (gen_cfg Disk 2) (init 5) stream_then_save_schedule) = [(2%nat, MPrepare)].
Proof. vm_compute. repeat split; reflexivity. Qed.

(* ---------- snapshot images are labelled consistently ---------- *)
Theorem snapshot_label_consistent_proved :
  forall k nsnap n sched, 2 <= n -> snap_bad (run (gen_cfg k nsnap) (init n) sched) = false.
Proof.
  intros k nsnap n sched Hn.
  assert (G : ginv (run (gen_cfg k nsnap) (init n) sched)).
  { apply ginv_run; [apply gen_table_ok | apply inv_init; auto |].
    split; simpl; auto. discriminate. }
  apply G.
Qed.

(* the generated configuration with the index bookkeeping done after the mutex was released *)
Definition cfg_book_late (k : kind) (nsnap : nat) : cfg :=
  mkCfg gen_sites k nsnap engine_load_inside_foreach pool_load_inside_foreach
        apply_checks_stopped pool_rechecks_before_schedule pool_stops_workers_before_unload
        sched_checks_node_loaded can_stream_checks_streaming close_worker_checks_destroyed false pool_blocks.

(* the apply worker finished Update and released the mutex, the bookkeeping is still to come;
   a save job takes its image now *)
Definition late_book_schedule : list action :=
  [AApLoad; AApIncr; AApCheck; ADispatch JSave; APoolLoad; APoolIncr; APoolCheck; ASchedule 2 JSave;
   AApStart 1] ++ repeat (AThr 0) 7 ++ [AThr 2; AThr 2; AThr 2; AThr 2].

Theorem bookkeeping_section_needed_proved :
  snap_bad (run (cfg_book_late Conc 1) (init 4) late_book_schedule) = true
  /\ calls (run (cfg_book_late Conc 1) (init 4) late_book_schedule) = [(2%nat, MPrepare)]
  /\ snap_bad (run (gen_cfg Conc 1) (init 4) late_book_schedule) = false.
Proof. vm_compute. repeat split; reflexivity. Qed.

(* ---------- the close worker's destroyed test ---------- *)
Definition cfg_close_twice (k : kind) (nsnap : nat) : cfg :=
  mkCfg gen_sites k nsnap engine_load_inside_foreach pool_load_inside_foreach
        apply_checks_stopped pool_rechecks_before_schedule pool_stops_workers_before_unload
        sched_checks_node_loaded can_stream_checks_streaming false
        apply_bookkeeping_in_update_section pool_blocks.

(* a worker saw the node before StopShard and counts itself in afterwards: the counter
   reaches zero twice and the node is handed to the close pool twice *)
Definition late_load_schedule : list action :=
  [AApLoad; AStop; ACloseStart] ++ repeat (AThr 1) 7 ++ [AApIncr; AApOffload; ACloseStart; AThr 1; AThr 1; AThr 1; AThr 1].

Theorem close_destroyed_test_needed_proved :
  nclose (run (cfg_close_twice Plain 1) (init 4) late_load_schedule) = 2
  /\ nclose (run (gen_cfg Plain 1) (init 4) late_load_schedule) = 1.
Proof. vm_compute. split; reflexivity. Qed.

