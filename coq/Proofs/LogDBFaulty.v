(* C10 — proofs about the log db over a failing / crashing KV store (Model/LogDBFaulty.v). *)
From Coq Require Import List NArith Bool Lia.
From Coq Require Import ZifyN ZifyNat ZifyBool.
From DB Require Import Base.Bytes Gen.GenC09 Gen.GenC10 Model.LogStoreSpec Model.KV
  Model.LogDBPlain Model.LogDBBatched Model.LogDBFaulty.
Import ListNotations.
Open Scope N_scope.

(* ---------- the oracle ---------- *)

(* between s and s' no call was hit by the fault *)
Definition quiet (s s' : fstate) : Prop :=
  f_fault s' = f_fault s /\ f_calls s <= f_calls s' /\
  forall n ft, f_fault s = Some (n, ft) -> ~ (f_calls s <= n < f_calls s').

Lemma quiet_refl : forall s, quiet s s.
Proof. intros s. repeat split; try lia. Qed.

Lemma quiet_trans : forall a b c, quiet a b -> quiet b c -> quiet a c.
Proof.
  intros a b c (F1 & L1 & Q1) (F2 & L2 & Q2). repeat split; try congruence; try lia.
  intros n ft H. specialize (Q1 n ft H). rewrite F1 in Q2. specialize (Q2 n ft H). lia.
Qed.

Lemma quiet_tick : forall c s, firing s = None -> quiet s (tick c s).
Proof.
  intros c s H. unfold quiet, tick; cbn. repeat split; try lia.
  intros n ft E. unfold firing in H. rewrite E in H.
  destruct (f_calls s =? n) eqn:Q; [discriminate|]. apply N.eqb_neq in Q. lia.
Qed.

Lemma rd_cases : forall A c (v : A) s,
  (rd c v s = (CVal v, tick c s) /\ firing s = None) \/
  (rd c v s = (CIOErr, tick c s) /\ firing s = Some FtErr) \/
  (rd c v s = (CCrash, tick c s) /\ exists ft, firing s = Some ft /\ ft <> FtErr).
Proof.
  intros. unfold rd. destruct (firing s) as [[| |]|]; auto.
  - right; right. split; eauto. eexists; split; eauto. discriminate.
  - right; right. split; eauto. eexists; split; eauto. discriminate.
Qed.

Lemma rd_ok : forall A c (v x : A) s s', rd c v s = (CVal x, s') -> x = v /\ quiet s s'.
Proof.
  intros A c v x s s' H.
  destruct (rd_cases A c v s) as [[E F]|[[E F]|[E F]]]; rewrite E in H; inversion H; subst.
  split; auto. now apply quiet_tick.
Qed.

Lemma wr_cases : forall c m m' s,
  (wr c m m' s = (WOk, m', tick c s) /\ firing s = None) \/
  (wr c m m' s = (WIOErr, m, tick c s)) \/
  (wr c m m' s = (WCrash, m, tick c s)) \/
  (wr c m m' s = (WCrash, m', tick c s)).
Proof. intros. unfold wr. destruct (firing s) as [[| |]|]; auto. Qed.

(* ---------- the staging loops: a successful result is the fault-free one ---------- *)

Lemma save_snapshot_wb_f_ok : forall m n ss s x s',
  save_snapshot_wb_f m n ss s = (CVal x, s') -> x = save_snapshot_wb m n ss /\ quiet s s'.
Proof.
  intros m n ss s x s' H. unfold save_snapshot_wb_f in H.
  destruct (ss_emptyb ss) eqn:E.
  - inversion H; subst. split; [|apply quiet_refl]. unfold save_snapshot_wb. now rewrite E.
  - now apply rd_ok in H.
Qed.

Lemma save_head_unfold : forall m c u,
  save_head m c u =
  let n := u_node u in
  let '(c1, w1) := head_state c u in
  if ss_emptyb (u_ss u) then Some (c1, w1)
  else
    let (c2, ok) := cs_try_save_snapshot c1 n (ss_index (u_ss u)) in
    if ok then
      if negb (match u_ents u with [] => true | _ => false end)
         && (last_index (u_ents u) <? ss_index (u_ss u))
      then None
      else match save_snapshot_wb m n (u_ss u) with
           | None => None
           | Some w2 =>
             Some (cs_set_max_index c2 n (ss_index (u_ss u)),
                   w1 ++ w2 ++ [WPut (KMaxIndex n) (VMax (ss_index (u_ss u)))])
           end
    else Some (c2, w1).
Proof. intros. unfold save_head, head_state. reflexivity. Qed.

Lemma save_head_f_ok : forall m c u s x s',
  save_head_f m c u s = (HOk x, s') -> save_head m c u = Some x /\ quiet s s'.
Proof.
  intros m c u s x s' H. rewrite save_head_unfold. unfold save_head_f in H. cbv zeta in *.
  destruct (head_state c u) as [c1 w1].
  destruct (ss_emptyb (u_ss u)).
  { inversion H; subst. split; auto. apply quiet_refl. }
  destruct (cs_try_save_snapshot c1 (u_node u) (ss_index (u_ss u))) as [c2 ok].
  destruct ok.
  - destruct (negb match u_ents u with [] => true | _ :: _ => false end
              && (last_index (u_ents u) <? ss_index (u_ss u))); [discriminate|].
    destruct (save_snapshot_wb_f m (u_node u) (u_ss u) s) as [[[w2|]| |] s1] eqn:E; try discriminate.
    inversion H; subst. apply save_snapshot_wb_f_ok in E. destruct E as [E Q]. rewrite <- E. auto.
  - inversion H; subst. split; auto. apply quiet_refl.
Qed.

Lemma save_heads_f_ok : forall m us c s x s',
  save_heads_f m c us s = (HOk x, s') -> save_heads m c us = Some x /\ quiet s s'.
Proof.
  intros m us. induction us as [|u t IH]; intros c s x s' H; cbn [save_heads_f save_heads] in *.
  - inversion H; subst. split; auto. apply quiet_refl.
  - destruct (save_head_f m c u s) as [[[c1 w1]| | |] s1] eqn:E; try discriminate.
    apply save_head_f_ok in E. destruct E as [E Q1]. rewrite E.
    destruct (save_heads_f m c1 t s1) as [[[c2 w2]| | |] s2] eqn:E2; try discriminate.
    apply IH in E2. destruct E2 as [E2 Q2]. rewrite E2. inversion H; subst.
    split; auto. eapply quiet_trans; eauto.
Qed.

(* batched format, repaired treatment of the read error *)
Lemma b_merged_first_f_ok : forall m cn n eb s x s',
  b_merged_first_f true m cn n eb s = (CVal x, s') -> x = b_merged_first m cn n eb /\ quiet s s'.
Proof.
  intros m cn n eb s x s' H. unfold b_merged_first_f in H. unfold b_merged_first.
  destruct eb as [|e0 eb']. { inversion H; subst. split; auto. apply quiet_refl. }
  destruct (e_index e0 mod bsz =? 0). { inversion H; subst. split; auto. apply quiet_refl. }
  assert (FD : forall x s',
    match rd (CGet (KBatch n (batch_id (e_index e0)))) (get_batch_from_db m n (batch_id (e_index e0))) s with
    | (CVal None, s1) => (CVal None, s1)
    | (CVal (Some None), s1) => (CVal (Some (e0 :: eb')), s1)
    | (CVal (Some (Some lb)), s1) => (CVal (merge_first_batch (e0 :: eb') lb), s1)
    | (CIOErr, s1) => (CIOErr, s1)
    | (CCrash, s1) => (CCrash, s1)
    end = (CVal x, s') ->
    x = match get_batch_from_db m n (batch_id (e_index e0)) with
        | None => None
        | Some None => Some (e0 :: eb')
        | Some (Some lb) => merge_first_batch (e0 :: eb') lb
        end /\ quiet s s').
  { intros x0 s0 H0.
    destruct (rd (CGet (KBatch n (batch_id (e_index e0)))) (get_batch_from_db m n (batch_id (e_index e0))) s)
      as [[v| |] s1] eqn:E; try discriminate.
    apply rd_ok in E. destruct E as [E Q]. subst v.
    destruct (get_batch_from_db m n (batch_id (e_index e0))) as [[lb|]|]; inversion H0; subst; auto. }
  destruct (c_batch cn) as [[|l0 lr]|].
  - inversion H; subst. split; auto. apply quiet_refl.
  - destruct (batch_id (e_index e0) <? batch_id (e_index l0)).
    + now apply FD.
    + inversion H; subst. split; auto. apply quiet_refl.
  - now apply FD.
Qed.

Lemma record_groups_f_ok : forall m n fid lid gs cn s x s',
  record_groups_f true m n fid lid cn gs s = (CVal x, s') ->
  x = record_groups m n fid lid cn gs /\ quiet s s'.
Proof.
  intros m n fid lid gs. induction gs as [|g rest IH]; intros cn s x s' H;
    cbn [record_groups_f record_groups] in *.
  - inversion H; subst. split; auto. apply quiet_refl.
  - destruct g as [|e0 g']. { now apply IH. }
    destruct (fid =? batch_id (e_index e0)).
    + destruct (b_merged_first_f true m cn n (e0 :: g') s) as [[[meb|]| |] s1] eqn:E; try discriminate.
      * apply b_merged_first_f_ok in E. destruct E as [E Q1]. rewrite <- E.
        destruct (record_groups_f true m n fid lid _ rest s1) as [[[[cn2 w]|]| |] s2] eqn:E2;
          try discriminate.
        -- apply IH in E2. destruct E2 as [E2 Q2]. rewrite <- E2. inversion H; subst.
           split; auto. eapply quiet_trans; eauto.
        -- apply IH in E2. destruct E2 as [E2 Q2]. rewrite <- E2. inversion H; subst.
           split; auto. eapply quiet_trans; eauto.
      * apply b_merged_first_f_ok in E. destruct E as [E Q1]. rewrite <- E.
        inversion H; subst. split; auto.
    + destruct (record_groups_f true m n fid lid _ rest s) as [[[[cn2 w]|]| |] s2] eqn:E2;
        try discriminate.
      * apply IH in E2. destruct E2 as [E2 Q2]. rewrite <- E2. inversion H; subst. split; auto.
      * apply IH in E2. destruct E2 as [E2 Q2]. rewrite <- E2. inversion H; subst. split; auto.
Qed.

Lemma b_record_f_ok : forall m c n es s x s',
  b_record_f true m c n es s = (CVal x, s') -> x = b_record m c n es /\ quiet s s'.
Proof.
  intros m c n es s x s' H. unfold b_record_f in H. unfold b_record.
  destruct es as [|e0 es']. { inversion H; subst. split; auto. apply quiet_refl. }
  destruct (record_groups_f true m n _ _ (c n) _ s) as [[[[cn w]|]| |] s1] eqn:E; try discriminate;
    apply record_groups_f_ok in E; destruct E as [E Q]; rewrite <- E; inversion H; subst; auto.
Qed.

Lemma b_save_tail_f_ok : forall m c u s x s',
  b_save_tail_f true m c u s = (HOk x, s') -> b_save_tail m c u = Some x /\ quiet s s'.
Proof.
  intros m c u s x s' H. unfold b_save_tail_f in H. unfold b_save_tail.
  destruct (u_ents u) as [|e0 es']. { inversion H; subst. split; auto. apply quiet_refl. }
  destruct (b_record_f true m c (u_node u) (e0 :: es') s) as [[[[[c1 w] mi]|]| |] s1] eqn:E; try discriminate.
  apply b_record_f_ok in E. destruct E as [E Q]. rewrite <- E.
  destruct (0 <? mi); inversion H; subst; auto.
Qed.

Lemma b_save_tails_f_ok : forall m us c s x s',
  b_save_tails_f true m c us s = (HOk x, s') -> b_save_tails m c us = Some x /\ quiet s s'.
Proof.
  intros m us. induction us as [|u t IH]; intros c s x s' H; cbn [b_save_tails_f b_save_tails] in *.
  - inversion H; subst. split; auto. apply quiet_refl.
  - destruct (b_save_tail_f true m c u s) as [[[c1 w1]| | |] s1] eqn:E; try discriminate.
    apply b_save_tail_f_ok in E. destruct E as [E Q1]. rewrite E.
    destruct (b_save_tails_f true m c1 t s1) as [[[c2 w2]| | |] s2] eqn:E2; try discriminate.
    apply IH in E2. destruct E2 as [E2 Q2]. rewrite E2. inversion H; subst.
    split; auto. eapply quiet_trans; eauto.
Qed.

(* ---------- one operation ---------- *)

(* the fault-free save of both formats *)
Definition ref_save (batched : bool) (d : pdb) (us : list update) : option pdb :=
  if batched then b_save_raft_state d us else p_save_raft_state d us.

(* the possible outcomes of an operation of the REPAIRED code, whatever the fault:
   - it did not succeed and the durable map is untouched, or
   - the durable map is the one of the complete fault-free operation (and if it reports
     success the cache is the fault-free one too and no call was hit by the fault), or
   - (RemoveNodeData only) it did not succeed and its write batch is in, its range delete is not *)
Definition outcome (batched : bool) (d : fdb) (o : op) (r : fres) (d' : fdb) : Prop :=
  (r <> FOk /\ d_kv d' = d_kv d) \/
  (exists p', ref_step batched (pdb_of d) o = Some p' /\ d_kv d' = p_kv p' /\
              (r = FOk -> d_cache d' = p_cache p' /\ quiet (d_st d) (d_st d'))) \/
  (r <> FOk /\ exists n l, o = ORemNode n /\ list_snapshots (d_kv d) n = Some l /\
                           d_kv d' = kv_commit (d_kv d) (remove_node_wb n l)).

Lemma fres_of_ok : forall r, fres_of r = FOk -> r = WOk.
Proof. destruct r; cbn; congruence. Qed.

Lemma commit_f_cases : forall d c w s r d',
  commit_f d c w s = (r, d') ->
  (r <> FOk /\ d_kv d' = d_kv d) \/
  (d_kv d' = kv_commit (d_kv d) w /\ (r = FOk -> d_cache d' = c /\ quiet s (d_st d'))).
Proof.
  intros d c w s r d' H. unfold commit_f in H. destruct w as [|o w'].
  - inversion H; subst. right. cbn. split; auto. intros _. split; auto. apply quiet_refl.
  - destruct (wr_cases (CCommit (o :: w')) (d_kv d) (kv_commit (d_kv d) (o :: w')) s)
      as [[E F]|[E|[E|E]]]; rewrite E in H; inversion H; subst; cbn.
    + right. split; auto. intros _. split; auto. now apply quiet_tick.
    + left. split; auto. discriminate.
    + left. split; auto. discriminate.
    + right. split; auto. discriminate.
Qed.

Lemma save_raft_state_outcome : forall b d us r d',
  f_save_raft_state b true true d us = (r, d') -> outcome b d (OSave us) r d'.
Proof.
  intros b d us r d' H. unfold f_save_raft_state in H.
  destruct (save_heads_f (d_kv d) (d_cache d) us (d_st d)) as [[[c1 w1]| |c|] s1] eqn:EH;
    try (inversion H; subst; left; split; [discriminate|reflexivity]).
  apply save_heads_f_ok in EH. destruct EH as [EH Q1].
  unfold save_tails_f in H. destruct b.
  - destruct (b_save_tails_f true (d_kv d) c1 us s1) as [[[c2 w2]| |c|] s2] eqn:ET;
      try (inversion H; subst; left; split; [discriminate|reflexivity]).
    apply b_save_tails_f_ok in ET. destruct ET as [ET Q2].
    apply commit_f_cases in H. destruct H as [[N K]|[K S]]; [left; auto|].
    right; left. cbn [ref_step batched_step]. unfold b_save_raft_state, pdb_of. cbn [p_kv p_cache].
    rewrite EH, ET. eexists. split; [reflexivity|]. cbn [p_kv p_cache]. split; auto.
    intros R. destruct (S R) as [C Q3]. split; auto.
    eapply quiet_trans; [exact Q1|]. eapply quiet_trans; eauto.
  - destruct (save_tails plain_record c1 us) as [c2 w2] eqn:ET.
    apply commit_f_cases in H. destruct H as [[N K]|[K S]]; [left; auto|].
    right; left. cbn [ref_step plain_step]. unfold p_save_raft_state, save_wb, pdb_of. cbn [p_kv p_cache].
    rewrite EH, ET. eexists. split; [reflexivity|]. cbn [p_kv p_cache]. split; auto.
    intros R. destruct (S R) as [C Q3]. split; auto. eapply quiet_trans; eauto.
Qed.

Lemma save_snapshots_wb_f_ok : forall m us c s x s',
  save_snapshots_wb_f m c us s = (HOk x, s') -> save_snapshots_wb m c us = Some x /\ quiet s s'.
Proof.
  intros m us. induction us as [|u t IH]; intros c s x s' H;
    cbn [save_snapshots_wb_f save_snapshots_wb] in *.
  - inversion H; subst. split; auto. apply quiet_refl.
  - destruct (ss_emptyb (u_ss u)). { now apply IH. }
    destruct (cs_try_save_snapshot c (u_node u) (ss_index (u_ss u))) as [c1 ok]. destruct ok.
    + destruct (save_snapshot_wb_f m (u_node u) (u_ss u) s) as [[[w1|]| |] s1] eqn:E; try discriminate.
      apply save_snapshot_wb_f_ok in E. destruct E as [E Q1]. rewrite <- E.
      destruct (save_snapshots_wb_f m c1 t s1) as [[[c2 w2]| | |] s2] eqn:E2; try discriminate.
      apply IH in E2. destruct E2 as [E2 Q2]. rewrite E2. inversion H; subst.
      split; auto. eapply quiet_trans; eauto.
    + now apply IH.
Qed.

Lemma save_snapshots_outcome : forall b d n ss r d',
  f_save_snapshots true d [mk_snap_update n ss] = (r, d') -> outcome b d (OSnap n ss) r d'.
Proof.
  intros b d n ss r d' H. unfold f_save_snapshots in H.
  destruct (save_snapshots_wb_f (d_kv d) (d_cache d) [mk_snap_update n ss] (d_st d))
    as [[[c1 w1]| |c|] s1] eqn:EH;
    try (inversion H; subst; left; split; [discriminate|reflexivity]).
  apply save_snapshots_wb_f_ok in EH. destruct EH as [EH Q1].
  apply commit_f_cases in H. destruct H as [[N K]|[K S]]; [left; auto|].
  right; left. exists (mkDB (kv_commit (d_kv d) w1) c1).
  split.
  - destruct b; cbn [ref_step plain_step batched_step]; unfold p_save_snapshots, pdb_of;
      cbn [p_kv p_cache]; now rewrite EH.
  - cbn [p_kv p_cache]. split; auto. intros R. destruct (S R) as [C Q3]. split; auto.
    eapply quiet_trans; eauto.
Qed.

Lemma wr_step : forall c m m' s c0 r d',
  (let '(r0, m0, s1) := wr c m m' s in (fres_of r0, mkFD m0 c0 s1)) = (r, d') ->
  d_cache d' = c0 /\
  ((r <> FOk /\ d_kv d' = m) \/ (d_kv d' = m' /\ (r = FOk -> quiet s (d_st d')))).
Proof.
  intros c m m' s c0 r d' H.
  destruct (wr_cases c m m' s) as [[E F]|[E|[E|E]]]; rewrite E in H; inversion H; subst; cbn; split; auto.
  - right. split; auto. intros _. now apply quiet_tick.
  - left. split; auto. discriminate.
  - left. split; auto. discriminate.
  - right. split; auto. discriminate.
Qed.

Lemma remove_entries_to_cases : forall b d n idx r d',
  f_remove_entries_to b d n idx = (r, d') ->
  d_cache d' = d_cache d /\
  ((r <> FOk /\ d_kv d' = d_kv d) \/
   (d_kv d' = p_kv (if b then b_remove_entries_to (pdb_of d) n idx else p_remove_entries_to (pdb_of d) n idx)
    /\ (r = FOk -> quiet (d_st d) (d_st d')))).
Proof.
  intros b d n idx r d' H. unfold f_remove_entries_to in H. destruct b.
  - unfold b_remove_entries_to. destruct ((batch_id idx =? 0) || (batch_id idx =? 1)).
    + inversion H; subst. split; auto. right. split; auto. intros _. apply quiet_refl.
    + apply wr_step in H. exact H.
  - apply wr_step in H. exact H.
Qed.

Lemma remove_entries_to_outcome : forall b d n idx r d',
  f_remove_entries_to b d n idx = (r, d') -> outcome b d (ORemTo n idx) r d'.
Proof.
  intros b d n idx r d' H. apply remove_entries_to_cases in H. destruct H as [C [[N K]|[K Q]]].
  - left; auto.
  - right; left. destruct b; cbn [ref_step plain_step batched_step]; eexists; (split; [reflexivity|]);
      split; auto; intros R; split; auto; rewrite C; try reflexivity.
    unfold b_remove_entries_to, pdb_of. destruct ((batch_id idx =? 0) || (batch_id idx =? 1)); reflexivity.
Qed.

Lemma list_snapshots_f_cases : forall m n s,
  (list_snapshots_f m n s = (CVal (list_snapshots m n), tick (iter_snapshots n) s) /\ firing s = None) \/
  (list_snapshots_f m n s = (CIOErr, tick (iter_snapshots n) s)) \/
  (list_snapshots_f m n s = (CCrash, tick (iter_snapshots n) s)).
Proof.
  intros. unfold list_snapshots_f.
  destruct (rd_cases _ (iter_snapshots n) (list_snapshots m n) s) as [[E F]|[[E F]|[E F]]]; auto.
Qed.

Lemma remove_node_data_outcome : forall b d n r d',
  f_remove_node_data b d n = (r, d') -> outcome b d (ORemNode n) r d'.
Proof.
  intros b d n r d' H. unfold f_remove_node_data in H.
  destruct (list_snapshots_f_cases (d_kv d) n (d_st d)) as [[E F]|[E|E]]; rewrite E in H;
    try (inversion H; subst; left; split; [discriminate|reflexivity]).
  destruct (list_snapshots (d_kv d) n) as [l|] eqn:EL;
    [|inversion H; subst; left; split; [discriminate|reflexivity]].
  set (w := remove_node_wb n l) in *.
  destruct (wr_cases (CCommit w) (d_kv d) (kv_commit (d_kv d) w) (tick (iter_snapshots n) (d_st d)))
    as [[E2 F2]|[E2|[E2|E2]]]; rewrite E2 in H.
  - apply remove_entries_to_cases in H. cbn [d_kv d_cache d_st] in H. destruct H as [C [[N K]|[K Q]]].
    + right; right. split; auto. exists n, l. auto.
    + right; left.
      exists (if b then b_remove_entries_to (mkDB (kv_commit (d_kv d) w)
                          (cs_remove_node_data (cs_set_max_index (d_cache d) n 0) n)) n u64max
              else p_remove_entries_to (mkDB (kv_commit (d_kv d) w)
                          (cs_remove_node_data (cs_set_max_index (d_cache d) n 0) n)) n u64max).
      split.
      * destruct b; cbn [ref_step plain_step batched_step];
          unfold p_remove_node_data, b_remove_node_data, pdb_of; cbn [p_kv p_cache]; now rewrite EL.
      * split; [exact K|]. intros R. split.
        -- rewrite C. destruct b; [|reflexivity]. unfold b_remove_entries_to.
           destruct ((batch_id u64max =? 0) || (batch_id u64max =? 1)); reflexivity.
        -- eapply quiet_trans; [apply quiet_tick; exact F|].
           eapply quiet_trans; [apply quiet_tick; exact F2|]. now apply Q.
  - inversion H; subst. left. split; [discriminate|reflexivity].
  - inversion H; subst. left. split; [discriminate|reflexivity].
  - inversion H; subst. right; right. split; [discriminate|]. exists n, l. auto.
Qed.

Lemma import_snapshot_cases : forall d n ss r d',
  f_import_snapshot d n ss = (r, d') ->
  (r <> FOk /\ d_kv d' = d_kv d) \/
  (exists p', p_import_snapshot (pdb_of d) n ss = Some p' /\ d_kv d' = p_kv p' /\
              (r = FOk -> d_cache d' = p_cache p' /\ quiet (d_st d) (d_st d'))).
Proof.
  intros d n ss r d' H. unfold f_import_snapshot in H.
  destruct (list_snapshots_f_cases (d_kv d) n (d_st d)) as [[E F]|[E|E]]; rewrite E in H;
    try (inversion H; subst; left; split; [discriminate|reflexivity]).
  destruct (list_snapshots (d_kv d) n) as [l|] eqn:EL;
    [|inversion H; subst; left; split; [discriminate|reflexivity]].
  destruct (save_snapshot_wb_f (d_kv d) n ss (tick (iter_snapshots n) (d_st d))) as [[[w2|]| |] s2] eqn:E2;
    try (inversion H; subst; left; split; [discriminate|reflexivity]).
  apply save_snapshot_wb_f_ok in E2. destruct E2 as [E2 Q2].
  apply wr_step in H. destruct H as [C [[N K]|[K Q]]]; [left; auto|].
  right. unfold p_import_snapshot, pdb_of; cbn [p_kv p_cache]. rewrite EL, <- E2.
  eexists. split; [reflexivity|]. cbn [p_kv p_cache]. split; [exact K|].
  intros R. split; auto. eapply quiet_trans; [apply quiet_tick; exact F|].
  eapply quiet_trans; [exact Q2|]. now apply Q.
Qed.

Lemma step_outcome : forall b d o r d', f_step b all_fixed d o = (r, d') -> outcome b d o r d'.
Proof.
  intros b d o r d' H. destruct o; cbn [f_step all_fixed fl_save fl_snap fl_batch] in H.
  - now apply save_raft_state_outcome.
  - now apply save_snapshots_outcome.
  - now apply remove_entries_to_outcome.
  - now apply remove_node_data_outcome.
  - destruct (f_import_snapshot (f_reopen d) n ss) as [r0 d0] eqn:E.
    apply import_snapshot_cases in E.
    assert (PR : pdb_of (f_reopen d) = p_reopen (pdb_of d)) by reflexivity.
    destruct E as [[N K]|(p' & EP & K & S)].
    + left. destruct r0; inversion H; subst; try congruence; split; auto; discriminate.
    + right; left. exists (p_reopen p'). rewrite PR in EP. split.
      * destruct b; cbn [ref_step plain_step batched_step]; rewrite EP; reflexivity.
      * destruct r0; inversion H; subst; cbn [f_reopen d_kv d_cache d_st p_reopen p_kv p_cache];
          split; auto; try discriminate.
        intros _. split; auto. now apply S.
  - inversion H; subst. right; left. exists (p_reopen (pdb_of d)). split.
    + destruct b; reflexivity.
    + cbn. split; auto. intros _. split; auto. apply quiet_refl.
Qed.

(* success means: exactly the fault-free operation, and no call was hit by the fault *)
Lemma step_ok : forall b d o d', f_step b all_fixed d o = (FOk, d') ->
  ref_step b (pdb_of d) o = Some (pdb_of d') /\ quiet (d_st d) (d_st d').
Proof.
  intros b d o d' H. apply step_outcome in H. destruct H as [[N _]|[(p' & E & K & S)|[N _]]];
    try congruence.
  destruct (S eq_refl) as [C Q]. split; auto. rewrite E. f_equal.
  destruct p'; unfold pdb_of; cbn in *; congruence.
Qed.

(* ---------- runs ---------- *)

Definition ref_fold (b : bool) (p : option pdb) (ops : list op) : option pdb :=
  fold_left (fun d o => match d with Some d => ref_step b d o | None => None end) ops p.

Lemma ref_fold_none : forall b ops, ref_fold b None ops = None.
Proof. induction ops; cbn; auto. Qed.

Lemma ref_fold_app : forall b ops1 ops2 p, ref_fold b p (ops1 ++ ops2) = ref_fold b (ref_fold b p ops1) ops2.
Proof. intros. unfold ref_fold. apply fold_left_app. Qed.

(* the state of the durable map after a run that was stopped by a fault *)
Inductive crash_state (b : bool) (p : pdb) (inflight : option op) (m : kv) : Prop :=
| cs_acked : m = p_kv p -> crash_state b p inflight m
| cs_inflight : forall o p', inflight = Some o -> ref_step b p o = Some p' -> m = p_kv p' ->
    crash_state b p inflight m
| cs_remnode_mid : forall n l, inflight = Some (ORemNode n) -> list_snapshots (p_kv p) n = Some l ->
    m = kv_commit (p_kv p) (remove_node_wb n l) -> crash_state b p inflight m.

Lemma run_crash_atomic : forall b ops d k r d',
  f_run b all_fixed d ops = (k, r, d') ->
  exists p, ref_fold b (Some (pdb_of d)) (firstn k ops) = Some p /\
    ((r = FOk /\ k = length ops /\ pdb_of d' = p /\ quiet (d_st d) (d_st d')) \/
     (r <> FOk /\ (k < length ops)%nat /\ crash_state b p (nth_error ops k) (d_kv d'))).
Proof.
  intros b ops. induction ops as [|o t IH]; intros d k r d' H; cbn [f_run] in H.
  - inversion H; subst. exists (pdb_of d'). split; [reflexivity|]. left.
    split; [reflexivity|]. split; [reflexivity|]. split; [reflexivity|apply quiet_refl].
  - destruct (f_step b all_fixed d o) as [r0 d0] eqn:E.
    assert (NOK : r0 <> FOk -> (k, r, d') = (O, r0, d0) ->
      exists p, ref_fold b (Some (pdb_of d)) (firstn k (o :: t)) = Some p /\
        ((r = FOk /\ k = length (o :: t) /\ pdb_of d' = p /\ quiet (d_st d) (d_st d')) \/
         (r <> FOk /\ (k < length (o :: t))%nat /\ crash_state b p (nth_error (o :: t) k) (d_kv d')))).
    { intros N X. inversion X; subst. exists (pdb_of d). split; [reflexivity|]. right.
      split; auto. split; [cbn; lia|]. cbn [nth_error].
      apply step_outcome in E. destruct E as [[_ K]|[(p' & EP & K & _)|[_ (n & l & EO & EL & K)]]].
      - apply cs_acked. exact K.
      - eapply cs_inflight; eauto.
      - subst o. eapply cs_remnode_mid; eauto. }
    destruct r0; try (apply NOK; [discriminate|exact (eq_sym H)]).
    destruct (f_run b all_fixed d0 t) as [[k1 r1] d1] eqn:E1. inversion H; subst.
    apply step_ok in E. destruct E as [ES Q0].
    apply IH in E1. destruct E1 as (p & EP & C).
    exists p. split.
    + cbn [firstn]. unfold ref_fold in *. cbn [fold_left]. now rewrite ES.
    + destruct C as [(R & K & PD & Q)|(R & K & CS)].
      * left. split; [exact R|]. split; [cbn; lia|]. split; [exact PD|]. eapply quiet_trans; eauto.
      * right. split; auto. split; [cbn; lia|]. exact CS.
Qed.

(* ---------- the theorems of Props/C10.v ---------- *)

Definition fired (s s' : fstate) (n : N) : Prop := f_calls s <= n < f_calls s'.

(* if any KV call of an operation fails, the operation does not return success *)
Theorem error_never_success_proved : forall b d o r d' n,
  f_fault (d_st d) = Some (n, FtErr) ->
  f_step b all_fixed d o = (r, d') ->
  fired (d_st d) (d_st d') n -> r <> FOk.
Proof.
  intros b d o r d' n HF H HN R. subst r. apply step_ok in H. destruct H as [_ (_ & _ & Q)].
  exact (Q n FtErr HF HN).
Qed.

(* success = the whole operation is in the durable map (and the cache is the fault-free one) *)
Theorem success_is_persisted_proved : forall b d o d',
  f_step b all_fixed d o = (FOk, d') -> ref_step b (pdb_of d) o = Some (pdb_of d').
Proof. intros b d o d' H. now apply step_ok in H. Qed.

Theorem crash_atomic_kv_proved : forall b ft ops k r d',
  f_run b all_fixed (fdb_init ft) ops = (k, r, d') ->
  exists p, ref_run b (firstn k ops) = Some p /\
    ((r = FOk /\ k = length ops /\ recovered d' = p_reopen p) \/
     (r <> FOk /\ (k < length ops)%nat /\ crash_state b p (nth_error ops k) (d_kv d'))).
Proof.
  intros b ft ops k r d' H. apply run_crash_atomic in H. destruct H as (p & EP & C).
  exists p. split; [exact EP|]. destruct C as [(R & K & PD & _)|C]; auto.
  left. split; [exact R|]. split; [exact K|]. unfold recovered, p_reopen. subst p. reflexivity.
Qed.

(* ---------- the code before the repairs: the statement is refuted ---------- *)

Definition w_node : nid := (1, 1).
Definition w_ent (i : N) : entry := mkEnt i 1 i 8.

(* F1: one update carrying a hard state, a snapshot record and an entry; the IterateValue
   that lists the old snapshot records (KV call 0) fails *)
Definition f1_update : update := mkUp w_node (mkSt 1 1 0) (mkSs 5 1 9) [mkEnt 6 1 6 8].
Definition f1_db : fdb := fdb_init (Some (0, FtErr)).

Lemma error_never_success_refuted_f1_proved :
  exists d us n p',
    let res := f_save_raft_state false false true d us in
    f_fault (d_st d) = Some (n, FtErr) /\
    fired (d_st d) (d_st (snd res)) n /\
    fst res = FOk /\ d_kv (snd res) = d_kv d /\
    p_save_raft_state (pdb_of d) us = Some p' /\ p_kv p' <> d_kv d.
Proof.
  exists f1_db, [f1_update], 0. eexists. cbv zeta.
  split; [reflexivity|]. split; [vm_compute; split; [discriminate|reflexivity]|].
  split; [vm_compute; reflexivity|]. split; [vm_compute; reflexivity|].
  split; [vm_compute; reflexivity|]. vm_compute. discriminate.
Qed.

(* the same for SaveSnapshots *)
Lemma error_never_success_refuted_f1_snapshots_proved :
  exists d n ss p',
    let res := f_save_snapshots false d [mk_snap_update n ss] in
    f_fault (d_st d) = Some (0, FtErr) /\
    fired (d_st d) (d_st (snd res)) 0 /\
    fst res = FOk /\ d_kv (snd res) = d_kv d /\
    p_save_snapshots (pdb_of d) [mk_snap_update n ss] = Some p' /\ p_kv p' <> d_kv d.
Proof.
  exists f1_db, w_node, (mkSs 5 1 9). eexists. cbv zeta.
  split; [reflexivity|]. split; [vm_compute; split; [discriminate|reflexivity]|].
  split; [vm_compute; reflexivity|]. split; [vm_compute; reflexivity|].
  split; [vm_compute; reflexivity|]. vm_compute. discriminate.
Qed.

(* F2 (batched format): entries 1..3 are saved, the store is reopened, entries 4..5 are
   saved; the GetValue that loads the stored batch (KV call 2) fails and is taken for "no
   such batch": all three saves report success and entries 1..3 are gone *)
Definition f2_ops : list op :=
  [OSave [mkUp w_node (mkSt 1 1 0) (mkSs 0 0 0) [w_ent 1; w_ent 2; w_ent 3]];
   OReopen;
   OSave [mkUp w_node (mkSt 1 1 0) (mkSs 0 0 0) [w_ent 4; w_ent 5]]].

Lemma error_never_success_refuted_f2_proved :
  exists ops n p,
    let res := f_run true (mkFl true true false) (fdb_init (Some (n, FtErr))) ops in
    snd (fst res) = FOk /\ fst (fst res) = length ops /\ n < f_calls (d_st (snd res)) /\
    ref_run true ops = Some p /\
    b_iterate p w_node 1 6 (2 ^ 62) = RIter [w_ent 1; w_ent 2; w_ent 3; w_ent 4; w_ent 5] 680 /\
    b_iterate (recovered (snd res)) w_node 1 6 (2 ^ 62) = RIter [] 0.
Proof.
  exists f2_ops, 2. eexists. cbv zeta.
  split; [vm_compute; reflexivity|]. split; [vm_compute; reflexivity|].
  split; [vm_compute; reflexivity|]. split; [vm_compute; reflexivity|].
  split; vm_compute; reflexivity.
Qed.

(* non-vacuity: with the repaired code the same inputs fail *)
Example f1_repaired : fst (f_save_raft_state false true true f1_db [f1_update]) = FErr.
Proof. vm_compute. reflexivity. Qed.
Example f2_repaired :
  fst (fst (f_run true all_fixed (fdb_init (Some (2, FtErr))) f2_ops)) = 2%nat /\
  snd (fst (f_run true all_fixed (fdb_init (Some (2, FtErr))) f2_ops)) = FErr.
Proof. vm_compute. split; reflexivity. Qed.
