(* Proofs/SessionSource.v — tie G for C05: who may refresh the LRU order of the
   session table. Model/Session.v makes the table a function of the applied
   entries only; in the Go code that holds because the order-refreshing lookups
   (OrderedCache.Get via getSessionLocked/getSession) are reachable only from
   the apply path (StateMachine.update / registerSession / unregisterSession) and
   from the save walk, which Proofs/Session.v proves order-preserving
   (save_preserves_order). The caller lists are re-read from internal/rsm on
   every run (Gen/GenC05.v); a new caller — e.g. an accessor used by the client
   API that looks a session up outside the log — changes them and breaks this
   lemma. *)
From Coq Require Import List String.
From DB Require Import Gen.GenC05.
Import ListNotations.
Open Scope string_scope.

Definition expected_refresh_callers : list string * list string * list string * list string :=
  ( (* call OrderedCache.Get / getSessionLocked *)
    ["lrusession.getSession"; "lrusession.getSessionLocked"; "lrusession.save"],
    (* call lrusession.getSession *)
    ["SessionManager.ClientRegistered"; "SessionManager.RegisterClientID"; "SessionManager.UnregisterClientID"],
    (* call SessionManager.ClientRegistered / RegisterClientID / UnregisterClientID: the apply path *)
    ["StateMachine.registerSession"; "StateMachine.unregisterSession"; "StateMachine.update"],
    (* reach the (order-preserving) save walk *)
    ["SessionManager.GetSessionHash"; "SessionManager.SaveSessions"; "StateMachine.GetSessionHash"; "StateMachine.getSSMeta"] ).

Lemma lru_refresh_only_on_apply_path_proved :
  (src_lru_get_callers, src_get_session_callers, src_session_lookup_callers, src_session_save_callers)
  = expected_refresh_callers.
Proof. reflexivity. Qed.
