(* L2, part 4: the global safety theorems over all reachable states, and the
   soundness of the executable step function. *)
From DB Require Import Model.RaftNet Proofs.RaftNetLists Proofs.RaftNetElection Proofs.RaftNetLog
  Proofs.RaftNetCommitDefs Proofs.RaftNetCommit.

Lemma agree_nth k (a b : list entry) j : agree k a b -> j < k -> nth_error a j = nth_error b j.
Proof.
  unfold agree. revert a b j. induction k as [|k IH]; intros a b j H Hj; [lia|].
  destruct a as [|x a], b as [|y b]; simpl in H; try discriminate; [reflexivity|].
  injection H as -> H. destruct j; [reflexivity|]. simpl. apply IH; [exact H | lia].
Qed.

Section Safety.
  Variable V : list id.
  Hypothesis V_nodup : NoDup V.

  Notation inv := (inv V).
  Notation step := (step V).
  Notation steps := (steps V).
  Notation reachable := (reachable V).
  Notation committed := (committed V).

  (* ---- ghost extension along runs ---- *)

  Lemma gext_refl n : gext n n.
  Proof.
    repeat split; auto using incl_refl. intros t. exists []. now rewrite app_nil_r.
  Qed.

  Lemma gext_trans a b c : gext a b -> gext b c -> gext a c.
  Proof.
    intros (A1 & A2 & A3 & A4) (B1 & B2 & B3 & B4). repeat split.
    - eapply incl_tran; eauto.
    - auto.
    - intros t. destruct (A3 t) as (e1 & E1). destruct (B3 t) as (e2 & E2).
      exists (e1 ++ e2). now rewrite E2, E1, app_assoc.
    - intros t Ht. rewrite B4, A4; auto.
      destruct (lead a t) eqn:E; [|congruence]. rewrite (A2 _ _ E). discriminate.
  Qed.

  Lemma steps_gext n ls n' : inv n -> steps n ls n' -> gext n n'.
  Proof.
    intros Hi Hs. induction Hs; [apply gext_refl|].
    eapply gext_trans; [|apply IHHs; eapply inv_step; eauto].
    pose proof (inv_fresh V V_nodup n l n1 Hi H) as Hf.
    destruct Hi as [H1 Hq H2 H3a H3b]. eapply step_gext; eauto.
  Qed.

  Lemma steps_reachable n ls n' : reachable n -> steps n ls n' -> reachable n'.
  Proof.
    intros (l0 & H0) Hs. exists (l0 ++ ls).
    induction H0; simpl; [assumption|]. econstructor; eauto.
  Qed.

  (* ---- (3) leader completeness ---- *)

  (* state form: what is committed in term t is in the log of every leader of a later term *)
  Theorem leader_completeness n t k i :
    reachable n -> committed n t k ->
    role (nodes n i) = Leader -> t < term (nodes n i) ->
    firstn k (log (nodes n i)) = firstn k (llog n t).
  Proof.
    intros Hr Hcm Hrole Hlt. destruct (inv_reachable V V_nodup n Hr) as [H1 Hq H2 H3a H3b].
    rewrite <- (i_leader_log n H2 i Hrole).
    apply (leader_completeness1 V n H2 H3b _ t k Hcm Hlt).
    rewrite (i_leader n H1 i Hrole). discriminate.
  Qed.

  (* what AdvanceCommit establishes *)
  Lemma advance_commit_committed n i k n1 :
    inv n -> step n (LAdvanceCommit i k) n1 ->
    committed n (term (nodes n i)) k /\ llog n (term (nodes n i)) = log (nodes n i).
  Proof.
    intros [H1 Hq H2 H3a H3b] Hstep. inv_step Hstep.
    match goal with Hr : role _ = Leader |- _ => pose proof (i_leader_log n H2 i Hr) as Hll end.
    assert (1 <= term (nodes n i)) by (apply (i_role_term n H1); congruence).
    assert (1 <= k <= length (log (nodes n i))) by (apply term_at_in_range; lia).
    split; [|exact Hll]. unfold RaftNetCommitDefs.committed. rewrite Hll.
    split; [assumption|]. split; [assumption|]. now apply count_ack_quorum.
  Qed.

  (* event form: an entry committed by AdvanceCommit in term t at index k is, with its
     whole prefix, in the log of every leader of every later term, in every later state *)
  Theorem leader_completeness_trace n i k n1 ls n2 j :
    reachable n -> step n (LAdvanceCommit i k) n1 -> steps n1 ls n2 ->
    role (nodes n2 j) = Leader -> term (nodes n i) < term (nodes n2 j) ->
    firstn k (log (nodes n2 j)) = firstn k (log (nodes n i)).
  Proof.
    intros Hr Hstep Hs Hrole Hlt.
    pose proof (inv_reachable V V_nodup n Hr) as Hi.
    destruct (advance_commit_committed n i k n1 Hi Hstep) as (Hcm & Hll).
    assert (Hss : steps n (LAdvanceCommit i k :: ls) n2) by (econstructor; eauto).
    pose proof (steps_gext n _ n2 Hi Hss) as Hg.
    pose proof (committed_gext V n n2 _ _ Hg Hcm) as Hcm2.
    rewrite (leader_completeness n2 _ k j (steps_reachable n _ n2 Hr Hss) Hcm2 Hrole Hlt).
    rewrite <- Hll. destruct Hcm as (Hk & _).
    apply (agree_gext_l n n2 k _ _ Hg); [lia | apply agree_refl].
  Qed.

  (* ---- (4) state machine safety ---- *)

  Theorem state_machine_safety n a b k :
    reachable n -> k <= commit (nodes n a) -> k <= commit (nodes n b) ->
    firstn k (log (nodes n a)) = firstn k (log (nodes n b)).
  Proof.
    intros Hr Ha Hb. destruct (inv_reachable V V_nodup n Hr) as [H1 Hq H2 H3a H3b].
    destruct (i_commit_bounds n H3a a) as (Hca & _).
    destruct (i_commit_bounds n H3a b) as (Hcb & _).
    eapply (cprefix_agree2 V n _ _ _ _ _ _ k H2 H3b (i_hcommit V n H3b a) (i_hcommit V n H3b b)); lia.
  Qed.

  Corollary state_machine_safety_entry n a b k j :
    reachable n -> k <= commit (nodes n a) -> k <= commit (nodes n b) -> 1 <= j <= k ->
    nth_error (log (nodes n a)) (j - 1) = nth_error (log (nodes n b)) (j - 1).
  Proof.
    intros Hr Ha Hb Hj. eapply (agree_nth k); [eapply state_machine_safety; eauto | lia].
  Qed.

  (* committed entries exist *)
  Theorem commit_in_range n i :
    reachable n -> commit (nodes n i) <= length (log (nodes n i)).
  Proof.
    intros Hr. destruct (inv_reachable V V_nodup n Hr) as [H1 Hq H2 H3a H3b].
    destruct (i_commit_bounds n H3a i). lia.
  Qed.

  (* ---- (5) committed entries are never replaced ---- *)

  Lemma hcommit_step n l n' i :
    inv n -> step n l n' ->
    hcommit (nodes n i) <= hcommit (nodes n' i) /\
    agree (hcommit (nodes n i)) (log (nodes n' i)) (log (nodes n i)).
  Proof.
    intros [H1 Hq H2 H3a H3b] Hstep. split.
    - inv_step Hstep; simp_upd; lia.
    - destruct (i_commit_bounds n H3a i) as (_ & Hb).
      destruct (step_log_cases V n l n' i Hstep)
        as [(e & ->)|[(T & ldr & prev & pt & ents & lc & Hae & HT & HT' & Hpt & Hta)
                     |(m & -> & Hm & _)]].
      + now apply agree_app_l.
      + subst T pt.
        now destruct (handle_ae_hcommit n i ldr prev ents lc _ H2 (agl_fixed V n H2 H3a H3b) Hae Hta).
      + now apply agree_firstn.
  Qed.

  Lemma hcommit_steps n ls n' i :
    inv n -> steps n ls n' ->
    hcommit (nodes n i) <= hcommit (nodes n' i) /\
    agree (hcommit (nodes n i)) (log (nodes n' i)) (log (nodes n i)).
  Proof.
    intros Hi Hs. induction Hs; [split; [lia | apply agree_refl]|].
    destruct (hcommit_step n l n1 i Hi H) as (Ha & Hb).
    destruct (IHHs (inv_step V V_nodup n l n1 Hi H)) as (Hc & Hd).
    split; [lia|]. eapply agree_trans; [eapply agree_le; [exact Hd | exact Ha] | exact Hb].
  Qed.

  Theorem committed_never_replaced n ls n' i k :
    reachable n -> steps n ls n' -> k <= commit (nodes n i) ->
    firstn k (log (nodes n' i)) = firstn k (log (nodes n i)).
  Proof.
    intros Hr Hs Hk. pose proof (inv_reachable V V_nodup n Hr) as Hi.
    destruct (hcommit_steps n ls n' i Hi Hs) as (_ & Hag).
    destruct Hi as [H1 Hq H2 H3a H3b]. destruct (i_commit_bounds n H3a i) as (Hc & _).
    eapply agree_le; [exact Hag | lia].
  Qed.

  Corollary committed_entry_never_replaced n ls n' i k :
    reachable n -> steps n ls n' -> 1 <= k <= commit (nodes n i) ->
    nth_error (log (nodes n' i)) (k - 1) = nth_error (log (nodes n i)) (k - 1).
  Proof.
    intros Hr Hs Hk. eapply (agree_nth k); [eapply committed_never_replaced; eauto; lia | lia].
  Qed.

  (* ---- the two panics of the code (model deviation D7) are unreachable ---- *)

  Theorem append_never_conflicts_with_committed n j t ldr prev pt ents lc :
    reachable n -> In (AE t ldr prev pt ents lc) (msgs n) ->
    t = term (nodes n j) -> term_at (log (nodes n j)) prev = pt ->
    try_append (log (nodes n j)) (commit (nodes n j)) prev ents <> None.
  Proof.
    intros Hr Hae -> Hpt. destruct (inv_reachable V V_nodup n Hr) as [H1 Hq H2 H3a H3b].
    unfold try_append.
    destruct (first_conflict (log (nodes n j)) (S prev) ents) as [ci|] eqn:Hfc; [|discriminate].
    destruct (Nat.ltb_spec (commit (nodes n j)) ci) as [|Hge]; [discriminate|]. exfalso.
    destruct (ae_view n _ _ _ _ _ _ _ H2 Hae (i_log_ok n H2 j) Hpt) as (Hprev & Hview & Hents).
    assert (Hpos : forall e, In e ents -> 1 <= eterm e) by (intros e He; apply Hents; exact He).
    assert (LM : lmatch (log (nodes n j)) (firstn prev (log (nodes n j)) ++ ents)).
    { rewrite Hview. eapply log_ok_lmatch; [apply (i_log_ok n H2)|].
      apply log_ok_firstn. apply (i_llog_ok n H2). }
    destruct (first_conflict_some (log (nodes n j)) prev ents ci Hprev Hpos LM Hfc) as (Hci & _ & Hne & _).
    destruct (i_ae n H2 _ _ _ _ _ _ Hae) as (Hlead & Hlen & _).
    destruct (agl_fixed V n H2 H3a H3b j _ eq_refl Hlead) as (Hag & _).
    destruct (i_commit_bounds n H3a j) as (Hc & _).
    apply Hne. rewrite Hview.
    rewrite (agree_term_at _ ci _ _ Hag) by lia.
    symmetry. apply term_at_firstn. lia.
  Qed.

  Theorem heartbeat_commit_in_range n j t ldr c :
    reachable n -> In (HB t ldr j c) (msgs n) -> t = term (nodes n j) ->
    c <= length (log (nodes n j)).
  Proof.
    intros Hr Hhb ->. destruct (inv_reachable V V_nodup n Hr) as [H1 Hq H2 H3a H3b].
    destruct (i_hb V n H3b _ _ _ _ Hhb) as [->|(Hack & _)]; [lia|].
    pose proof (acked_len n _ _ _ (i_ack_le n H3a) Hack) as Hl.
    destruct (i_ack_node n H3a _ _ _ Hack) as [Hag|(U & HU & _)]; [|lia].
    apply agree_sym in Hag. eapply agree_len; eauto.
  Qed.

  (* ---- executable side ---- *)

  Lemma entry_eqb_eq a b : entry_eqb a b = true -> a = b.
  Proof.
    destruct a, b. unfold entry_eqb. simpl. intros H. apply andb_prop in H. destruct H as [H1 H2].
    apply Nat.eqb_eq in H1, H2. now subst.
  Qed.

  Lemma ents_eqb_eq a : forall b, ents_eqb a b = true -> a = b.
  Proof.
    induction a as [|x a IH]; intros [|y b]; simpl; try discriminate; auto.
    intros H. apply andb_prop in H. destruct H as [H1 H2].
    apply entry_eqb_eq in H1. apply IH in H2. now subst.
  Qed.

  Ltac split_andb :=
    repeat match goal with
    | H : _ && _ = true |- _ => apply andb_prop in H; destruct H
    | H : (_ =? _) = true |- _ => apply Nat.eqb_eq in H
    | H : (_ <=? _) = true |- _ => apply Nat.leb_le in H
    | H : (_ <? _) = true |- _ => apply Nat.ltb_lt in H
    | H : ents_eqb _ _ = true |- _ => apply ents_eqb_eq in H
    end.

  Lemma msg_eqb_eq a b : msg_eqb a b = true -> a = b.
  Proof.
    destruct a, b; simpl; try discriminate; intros H; split_andb; now subst.
  Qed.

  Lemma in_soup_In m ms : in_soup m ms = true -> In m ms.
  Proof.
    unfold in_soup. intros H. apply existsb_exists in H. destruct H as (x & Hx & He).
    apply msg_eqb_eq in He. now subst.
  Qed.

  Lemma role_eqb_eq a b : role_eqb a b = true -> a = b.
  Proof. destruct a, b; simpl; congruence. Qed.

  Lemma vote_free_spec v c : vote_free v c = true -> v = None \/ v = Some c.
  Proof.
    destruct v as [c'|]; simpl; [|now left]. intros H. apply Nat.eqb_eq in H. right. now subst.
  Qed.

  Theorem step_fn_sound n l n' : step_fn V n l = Some n' -> step n l n'.
  Proof.
    destruct l; cbn [step_fn]; intros H.
    - injection H as <-. apply SATimeout.
    - destruct (Nat.ltb_spec (term (nodes n i)) t); [|discriminate].
      injection H as <-. now apply SAHigherTerm.
    - injection H as <-. apply SAStepDown.
    - match type of H with (if ?c then _ else _) = _ => destruct c eqn:Hc; [|discriminate] end.
      injection H as <-. split_andb.
      apply SAHandleRV; auto using in_soup_In, vote_free_spec.
    - match type of H with (if ?c then _ else _) = _ => destruct c eqn:Hc; [|discriminate] end.
      injection H as <-. split_andb. apply SABecomeLeader; auto using role_eqb_eq.
    - match type of H with (if ?c then _ else _) = _ => destruct c eqn:Hc; [|discriminate] end.
      injection H as <-. apply SAPropose; auto using role_eqb_eq.
    - match type of H with (if ?c then _ else _) = _ => destruct c eqn:Hc; [|discriminate] end.
      injection H as <-. split_andb. apply SASendAE; auto using role_eqb_eq.
    - match type of H with (if ?c then _ else _) = _ => destruct c eqn:Hc; [|discriminate] end.
      split_andb.
      destruct (Nat.ltb_spec prev (commit (nodes n j))).
      + injection H as <-. apply SAHandleAEStale; auto using in_soup_In.
      + destruct (Nat.eqb_spec (term_at (log (nodes n j)) prev) pt); [|discriminate].
        destruct (try_append (log (nodes n j)) (commit (nodes n j)) prev ents) eqn:Hta;
          [|discriminate].
        injection H as <-. apply SAHandleAE; auto using in_soup_In.
    - match type of H with (if ?c then _ else _) = _ => destruct c eqn:Hc; [|discriminate] end.
      injection H as <-. split_andb. apply SAAdvanceCommit; auto using role_eqb_eq.
    - match type of H with (if ?c then _ else _) = _ => destruct c eqn:Hc; [|discriminate] end.
      injection H as <-. split_andb. apply SASendHB; auto using role_eqb_eq.
      match goal with Ho : _ || _ = true |- _ =>
        apply orb_true_iff in Ho; destruct Ho as [Ho|Ho];
        [left; now apply Nat.eqb_eq in Ho | now right] end.
    - match type of H with (if ?c then _ else _) = _ => destruct c eqn:Hc; [|discriminate] end.
      injection H as <-. split_andb. apply SAHandleHB; auto using in_soup_In.
    - match type of H with (if ?c then _ else _) = _ => destruct c eqn:Hc; [|discriminate] end.
      injection H as <-. apply SASelfAck; auto using role_eqb_eq.
    - match type of H with (if ?c then _ else _) = _ => destruct c eqn:Hc; [|discriminate] end.
      injection H as <-. split_andb. now apply SARestart.
  Qed.

  Theorem run_sound ls : forall n n', run V n ls = Some n' -> steps n ls n'.
  Proof.
    induction ls as [|l ls IH]; simpl; intros n n' H.
    - injection H as <-. constructor.
    - destruct (step_fn V n l) as [n1|] eqn:E; [|discriminate].
      econstructor; [apply step_fn_sound; exact E | apply IH; exact H].
  Qed.

  Corollary run_reachable ls n : run V (init) ls = Some n -> reachable n.
  Proof. intros H. exists ls. now apply run_sound. Qed.

  (* checker form: if step_ok accepts, a real step leads to a state that is observably
     equal to the recorded one on the listed ids *)
  Theorem step_ok_sound ids n l n' :
    step_ok V ids n l n' = true ->
    exists n1, step n l n1 /\ nodes_obs_eqb ids n1 n' = true.
  Proof.
    unfold step_ok. destruct (step_fn V n l) as [n1|] eqn:E; [|discriminate].
    intros H. exists n1. split; [now apply step_fn_sound | exact H].
  Qed.

  Lemma node_obs_eqb_eq a b :
    node_obs_eqb a b = true ->
    term a = term b /\ voted a = voted b /\ role a = role b /\ log a = log b /\ commit a = commit b.
  Proof.
    unfold node_obs_eqb. intros H. split_andb.
    repeat split; auto using role_eqb_eq.
    destruct (voted a), (voted b); try discriminate; auto.
    match goal with H : (_ =? _) = true |- _ => apply Nat.eqb_eq in H; now subst end.
  Qed.

  Theorem nodes_obs_eqb_eq ids a b i :
    nodes_obs_eqb ids a b = true -> In i ids ->
    term (nodes a i) = term (nodes b i) /\ voted (nodes a i) = voted (nodes b i) /\
    role (nodes a i) = role (nodes b i) /\ log (nodes a i) = log (nodes b i) /\
    commit (nodes a i) = commit (nodes b i).
  Proof.
    unfold nodes_obs_eqb. intros H Hi. rewrite forallb_forall in H.
    apply node_obs_eqb_eq. now apply H.
  Qed.

End Safety.
