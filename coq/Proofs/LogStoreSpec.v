(* Lemmas about the C09 spec (Model/LogStoreSpec.v). *)
From Coq Require Import List NArith Bool Lia.
From DB Require Import Base.Bytes Gen.GenC09 Model.LogStoreSpec.
Import ListNotations.
Open Scope N_scope.

(* es holds exactly the indexes i, i+1, ... in order *)
Fixpoint contig (i : N) (es : list entry) : Prop :=
  match es with [] => True | e :: t => e_index e = i /\ contig (i + 1) t end.

Lemma take_size_prefix : forall es maxsz size,
  exists rest, es = fst (take_size maxsz size es) ++ rest.
Proof.
  induction es as [|e t IH]; intros maxsz size; cbn [take_size].
  - exists []. reflexivity.
  - destruct (maxsz <? size + esize e) eqn:E.
    + exists t. reflexivity.
    + specialize (IH maxsz (size + esize e)).
      destruct (take_size maxsz (size + esize e) t) as [r sz] eqn:T.
      destruct IH as [rest H]. cbn [fst] in *. exists rest. cbn. now rewrite <- H.
Qed.
