(* Lemmas about the Tan Update record model (Model/CodecUpdate.v). *)
From DB Require Import Base.Bytes Model.CodecEntry Model.CodecProto Model.CodecUpdate
  Proofs.Bytes Proofs.CodecEntry Proofs.CodecProto.
From Coq Require Import ZifyN ZifyNat ZifyBool.
Ltac Zify.zify_post_hook ::= Z.div_mod_to_equations.
Open Scope N_scope.

(* binary.ReadUvarint reads back binary.PutUvarint *)
Lemma read_uvarint_enc : forall f x shift acc r,
  x < 2 * 128 ^ N.of_nat f ->
  read_uvarint f shift acc (uvarint_fuel f x ++ r) = Some (acc + x * 2 ^ shift, r).
Proof.
  induction f as [|f IH]; intros x shift acc r Hx.
  - change (2 * 128 ^ N.of_nat 0) with 2 in Hx.
    cbn [uvarint_fuel app read_uvarint]. rewrite N.mod_small by lia.
    destruct (N.ltb_spec x 128) as [_|F]; [|lia].
    cbn [Nat.eqb andb]. destruct (N.ltb_spec 1 x) as [F|_]; [lia|]. reflexivity.
  - cbn [uvarint_fuel]. destruct (N.ltb_spec x 128) as [Hlt|Hge].
    + cbn [app read_uvarint]. destruct (N.ltb_spec x 128) as [_|F]; [|lia].
      cbn [Nat.eqb andb]. reflexivity.
    + cbn [app read_uvarint].
      destruct (N.ltb_spec (x mod 128 + 128) 128) as [F|_]; [lia|].
      assert (Hm : (x mod 128 + 128) mod 128 = x mod 128).
      { rewrite N.add_mod by lia. rewrite N.mod_same by lia.
        rewrite N.add_0_r. rewrite !N.mod_mod by lia. reflexivity. }
      rewrite Hm. rewrite IH.
      * f_equal. f_equal. rewrite pow_split. pose proof (N.div_mod x 128). nia.
      * rewrite Nat2N.inj_succ, N.pow_succ_r' in Hx. apply N.div_lt_upper_bound; lia.
Qed.

Lemma std_uvarint_enc x r : x < 2 ^ 64 -> std_uvarint (uvarint x ++ r) = Some (x, r).
Proof.
  intros H. unfold std_uvarint, uvarint. rewrite read_uvarint_enc.
  - f_equal. f_equal. change (2 ^ 0) with 1. lia.
  - change (2 * 128 ^ N.of_nat 9) with (2 ^ 64). exact H.
Qed.

Lemma le32_length x : length (le32 x) = 4%nat.
Proof. unfold le32. apply le_length. Qed.

Lemma rd_le32_enc x r : x < 2 ^ 32 -> rd_le32 (le32 x ++ r) = Some (x, r).
Proof.
  intros H. unfold rd_le32. rewrite app_length, le32_length.
  cbn [Nat.ltb Nat.leb plus].
  rewrite firstn_app_exact, skipn_app_exact by (rewrite le32_length; reflexivity).
  unfold le32. rewrite N.mod_small by exact H. rewrite le_dec_le; [reflexivity|].
  change (256 ^ N.of_nat 4) with (2 ^ 32). exact H.
Qed.

Lemma rd_framed_enc b r : nlen b < 2 ^ 32 -> rd_framed (framed b ++ r) = Some (b, r).
Proof.
  intros H. unfold rd_framed, framed. rewrite <- app_assoc. rewrite rd_le32_enc by exact H.
  destruct (N.ltb_spec (nlen (b ++ r)) (nlen b)) as [F|_]; [rewrite nlen_app in F; lia|].
  assert (E : N.to_nat (nlen b) = length b) by (unfold nlen; lia).
  rewrite E, firstn_app_exact, skipn_app_exact by reflexivity. reflexivity.
Qed.

Lemma entry_decode_exact_enc e : wf_entry e -> entry_decode_exact (encode e) = Some e.
Proof. intros H. unfold entry_decode_exact. rewrite entry_roundtrip_proved by exact H. reflexivity. Qed.

Lemma rd_entries_enc : forall es acc fuel rest,
  Forall wf_entry es -> Forall (fun e => size e < 2 ^ 32) es -> (length es <= fuel)%nat ->
  rd_entries fuel (nlen es) (flat_map (fun e => framed (encode e)) es ++ rest) acc =
  Some (Some (acc ++ es, rest)).
Proof.
  induction es as [|e es IH]; intros acc fuel rest Hw Hs Hf.
  - destruct fuel; cbn; rewrite app_nil_r; reflexivity.
  - inversion Hw as [|? ? Hw1 Hw2]; inversion Hs as [|? ? Hs1 Hs2]; subst.
    destruct fuel as [|fuel]; [simpl in Hf; lia|].
    cbn [rd_entries flat_map]. rewrite nlen_cons.
    destruct (N.eqb_spec (1 + nlen es) 0) as [F|_]; [lia|].
    rewrite <- app_assoc. rewrite rd_framed_enc by (rewrite entry_size_exact_proved; exact Hs1).
    rewrite entry_decode_exact_enc by exact Hw1.
    replace (1 + nlen es - 1) with (nlen es) by lia.
    rewrite IH by (try assumption; simpl in Hf; lia).
    rewrite <- app_assoc. reflexivity.
Qed.

Lemma is_empty_state_true s : is_empty_state s = true -> s = state_zero.
Proof.
  unfold is_empty_state. destruct s as [a b c]. cbn. intros H.
  apply andb_true_iff in H as [H H3]. apply andb_true_iff in H as [H1 H2].
  apply N.eqb_eq in H1, H2, H3. subst. reflexivity.
Qed.

Lemma framed_entries_length es : (length es <= length (flat_map (fun e => framed (encode e)) es))%nat.
Proof.
  induction es as [|e es IH]; [simpl; lia|].
  cbn [flat_map]. rewrite app_length. unfold framed at 1. rewrite app_length, le32_length. simpl. lia.
Qed.

Lemma state_size_le_33 s : state_size s <= 33.
Proof.
  unfold state_size, szv. pose proof (sov_le_10 (st_term s)). pose proof (sov_le_10 (st_vote s)).
  pose proof (sov_le_10 (st_commit s)). lia.
Qed.

Lemma update_roundtrip_proved u : wf_update u -> update_decode (update_encode u) = UOk u.
Proof.
  intros (Hs & Hr & Hst & Hes & Hn & Hsz & Hsn & Hsnsz & Hidx).
  unfold update_decode, update_encode.
  rewrite std_uvarint_enc by exact Hs. rewrite std_uvarint_enc by exact Hr.
  set (tail := (if is_empty_snapshot (u_snapshot u) then [0]
                else 1 :: framed (sn_encode (u_snapshot u)))).
  assert (Hent : forall st, 
    match rd_le32 (le32 (nlen (u_entries u)) ++ flat_map (fun e => framed (encode e)) (u_entries u) ++ tail) with
    | None => UPanic
    | Some (count, r5) =>
      match rd_entries (S (length r5)) count r5 [] with
      | None => UPanic | Some None => UErr
      | Some (Some (es, r6)) =>
        match r6 with [] => UPanic | sflag :: r7 =>
        if sflag =? 1 then
          match rd_framed r7 with
          | None => UPanic
          | Some (b, _) => match sn_decode b with
                           | None => UErr
                           | Some sn => UOk (mkUpdate (u_shard u) (u_replica u) st es sn)
                           end
          end
        else UOk (mkUpdate (u_shard u) (u_replica u) st es sn_zero)
        end
      end
    end = UOk (mkUpdate (u_shard u) (u_replica u) st (u_entries u) (u_snapshot u))).
  { intros st. rewrite rd_le32_enc by exact Hn.
    rewrite rd_entries_enc; try assumption.
    2:{ rewrite app_length. pose proof (framed_entries_length (u_entries u)). lia. }
    cbn [app]. subst tail.
    destruct (is_empty_snapshot (u_snapshot u)) eqn:E.
    - change (0 =? 1) with false. cbv iota.
      unfold is_empty_snapshot in E. apply N.eqb_eq in E. rewrite (Hidx E). reflexivity.
    - change (1 =? 1) with true. cbv iota.
      rewrite <- (app_nil_r (framed _)).
      rewrite rd_framed_enc by (rewrite sn_size_exact_proved; exact Hsnsz).
      rewrite sn_roundtrip_proved by exact Hsn. reflexivity. }
  destruct (is_empty_state (u_state u)) eqn:E.
  - cbn [app]. change (0 =? 0) with true. cbv iota.
    rewrite Hent. apply is_empty_state_true in E. destruct u; cbn in *. subst. reflexivity.
  - cbn [app]. change (1 =? 0) with false. cbv iota.
    rewrite rd_framed_enc.
    2:{ rewrite state_size_exact_proved. pose proof (state_size_le_33 (u_state u)).
        change (2 ^ 32) with 4294967296. lia. }
    rewrite state_roundtrip_proved by exact Hst.
    rewrite Hent. destruct u; reflexivity.
Qed.

(* ---------- size bound ---------- *)
Lemma entry_size_le_71 e : wf_entry e -> size e <= 71 + nlen (e_cmd e).
Proof.
  intros [(_ & _ & Hty & _ & _ & _ & _ & _ & Hcl) _]. unfold size.
  pose proof (size64_le (e_term e)). pose proof (size64_le (e_index e)).
  pose proof (size64_le (e_key e)). pose proof (size64_le (e_client e)).
  pose proof (size64_le (e_series e)). pose proof (size64_le (e_responded e)).
  pose proof (size_type_le _ Hty). pose proof (size_cmd_le _ Hcl). lia.
Qed.

Lemma nlen_le32 x : nlen (le32 x) = 4.
Proof. unfold nlen. rewrite le32_length. reflexivity. Qed.

Lemma nlen_framed b : nlen (framed b) = 4 + nlen b.
Proof. unfold framed. rewrite nlen_app, nlen_le32. reflexivity. Qed.

Lemma framed_entries_nlen es : Forall wf_entry es ->
  nlen (flat_map (fun e => framed (encode e)) es) + 53 * nlen es <= entry_slice_size es.
Proof.
  induction 1 as [|e es He _ IH]; [cbn; lia|].
  cbn [flat_map]. rewrite nlen_app, nlen_framed, nlen_cons, entry_size_exact_proved.
  unfold entry_slice_size in *. cbn [sum_map fold_right]. fold (sum_map size_upper_limit es).
  pose proof (entry_size_le_71 e He). unfold size_upper_limit at 1.
  change entry_non_cmd_fields_size with 128. lia.
Qed.

(* the 22 byte head of SizeUpperLimit is smaller than the worst-case head
   (2 x 10 byte uvarint + 3 flags/counters of 1+4+4+1+4 bytes = 34); the bound holds
   because State.SizeUpperLimit (56) over-estimates the State block (at most 33) and
   every entry is over-estimated by at least 53 bytes *)
Lemma update_size_le_upper_proved u : wf_update u ->
  nlen (update_encode u) <= update_size_upper u.
Proof.
  intros (Hs & Hr & Hst & Hes & Hn & Hsz & Hsn & Hsnsz & Hidx).
  unfold update_encode, update_size_upper.
  rewrite !nlen_app, !nlen_uvarint_sov, nlen_le32.
  pose proof (sov_le_10 (u_shard u)). pose proof (sov_le_10 (u_replica u)).
  pose proof (framed_entries_nlen (u_entries u) Hes).
  pose proof (state_size_le_33 (u_state u)).
  change update_upper_head with 22. change state_size_upper with 56.
  change update_upper_nosnapshot with 48.
  assert (A : nlen (if is_empty_state (u_state u) then [0] else 1 :: framed (state_encode (u_state u))) <= 38).
  { destruct (is_empty_state (u_state u)); [cbn; lia|].
    rewrite nlen_cons, nlen_framed, state_size_exact_proved. lia. }
  destruct (is_empty_snapshot (u_snapshot u)).
  - change (nlen [0]) with 1. lia.
  - rewrite nlen_cons, nlen_framed, sn_size_exact_proved. lia.
Qed.
