(* Proofs/Linearizability.v — lemmas behind Props/C01.v *)
From Coq Require Import List NArith Arith Bool Lia.
From DB Require Import Gen.GenC01 Model.Linearizability.
Import ListNotations.
Local Open Scope nat_scope.

(* ---- small list facts ------------------------------------------------------ *)

Lemma memN_In : forall x l, memN x l = true <-> In x l.
Proof.
  intros x l. unfold memN. rewrite existsb_exists. split.
  - intros [y [Hy He]]. apply N.eqb_eq in He. subst. exact Hy.
  - intros H. exists x. split; [exact H | apply N.eqb_refl].
Qed.

Lemma memN_false : forall x l, memN x l = false <-> ~ In x l.
Proof.
  intros x l. rewrite <- memN_In. destruct (memN x l); split; intros; congruence.
Qed.

Lemma nodupb_NoDup : forall l, nodupb l = true <-> NoDup l.
Proof.
  induction l as [|x t IH]; cbn.
  - split; [constructor | reflexivity].
  - rewrite andb_true_iff, negb_true_iff, memN_false, IH. split.
    + intros [Hn Ht]. constructor; assumption.
    + intros Hnd. inversion Hnd; subst. split; assumption.
Qed.

Lemma res_eqb_eq : forall a b, res_eqb a b = true <-> a = b.
Proof.
  intros [a1 a2] [b1 b2]. unfold res_eqb. cbn. rewrite andb_true_iff, !N.eqb_eq. split.
  - intros [-> ->]. reflexivity.
  - intros H. inversion H. split; reflexivity.
Qed.

Lemma assoc_res_In : forall id l r, assoc_res id l = Some r -> In (id, r) l.
Proof.
  induction l as [|[i r'] t IH]; cbn; intros r H; [discriminate|].
  destruct (N.eqb i id) eqn:E.
  - apply N.eqb_eq in E. inversion H; subst. left. reflexivity.
  - right. apply IH. exact H.
Qed.

(* ---- positions -------------------------------------------------------------- *)

Lemma shift_Some : forall A (x : option (nat * A)) n a,
  shift x = Some (n, a) -> exists n', n = S n' /\ x = Some (n', a).
Proof.
  intros A [[n' a']|] n a H; cbn in H; [|discriminate].
  inversion H; subst. exists n'. split; reflexivity.
Qed.

Lemma find_inv_nth : forall h id i o, find_inv h id = Some (i, o) -> nth_error h i = Some (Inv id o).
Proof.
  induction h as [|e t IH]; cbn; intros id i o H; [discriminate|].
  destruct e as [i0 o0|i0 oc0].
  - destruct (N.eqb i0 id) eqn:E.
    + apply N.eqb_eq in E. inversion H; subst. reflexivity.
    + apply shift_Some in H. destruct H as [n' [-> H]]. cbn. apply IH. exact H.
  - apply shift_Some in H. destruct H as [n' [-> H]]. cbn. apply IH. exact H.
Qed.

Lemma find_resp_nth : forall h id j oc, find_resp h id = Some (j, oc) -> nth_error h j = Some (Resp id oc).
Proof.
  induction h as [|e t IH]; cbn; intros id j oc H; [discriminate|].
  destruct e as [i0 o0|i0 oc0].
  - apply shift_Some in H. destruct H as [n' [-> H]]. cbn. apply IH. exact H.
  - destruct (N.eqb i0 id) eqn:E.
    + apply N.eqb_eq in E. inversion H; subst. reflexivity.
    + apply shift_Some in H. destruct H as [n' [-> H]]. cbn. apply IH. exact H.
Qed.

Lemma find_comp_nth : forall h id j r, find_comp h id = Some (j, r) -> nth_error h j = Some (Resp id (Completed r)).
Proof.
  intros h id j r H. unfold find_comp in H.
  destruct (find_resp h id) as [[j' oc]|] eqn:E; [|discriminate].
  destruct oc; try discriminate. inversion H; subst.
  apply find_resp_nth. exact E.
Qed.

Lemma find_comp_In : forall h id j r, find_comp h id = Some (j, r) -> In (Resp id (Completed r)) h.
Proof.
  intros h id j r H. apply find_comp_nth in H. eapply nth_error_In. exact H.
Qed.

(* ---- well-formedness -------------------------------------------------------- *)

Lemma resp_after_inv_sound : forall h seen,
  resp_after_inv seen h = true ->
  forall h1 id oc h2, h = h1 ++ Resp id oc :: h2 -> In id (inv_ids h1) \/ In id seen.
Proof.
  induction h as [|e t IH]; intros seen H h1 id oc h2 E.
  - destruct h1; discriminate.
  - destruct h1 as [|e1 h1'].
    + cbn in E. inversion E; subst. cbn in H.
      apply andb_true_iff in H. destruct H as [Hm _].
      right. apply memN_In. exact Hm.
    + cbn in E. inversion E; subst. destruct e1 as [i0 o0|i0 oc0]; cbn in H.
      * specialize (IH (i0 :: seen) H h1' id oc h2 eq_refl).
        destruct IH as [IH|IH].
        -- left. cbn. right. exact IH.
        -- destruct IH as [IH|IH].
           ++ left. cbn. left. exact IH.
           ++ right. exact IH.
      * apply andb_true_iff in H. destruct H as [_ H].
        specialize (IH seen H h1' id oc h2 eq_refl). cbn. exact IH.
Qed.

Lemma wf_histb_sound : forall h, wf_histb h = true -> wf_hist h.
Proof.
  intros h H. unfold wf_histb in H.
  apply andb_true_iff in H. destruct H as [H H3].
  apply andb_true_iff in H. destruct H as [H1 H2].
  split; [|split].
  - apply nodupb_NoDup. exact H1.
  - apply nodupb_NoDup. exact H2.
  - intros h1 id oc h2 E.
    destruct (resp_after_inv_sound h [] H3 h1 id oc h2 E) as [Hi|[]]. exact Hi.
Qed.

(* ---- effect points from the greedy check ------------------------------------ *)

Definition pts_ok (h : history) (lin : list opid) (pt : list nat) : Prop :=
  length pt = length lin /\
  (forall x id p, nth_error lin x = Some id -> nth_error pt x = Some p ->
      exists i o, find_inv h id = Some (i, o) /\ i < p) /\
  (forall x id p j r, nth_error lin x = Some id -> nth_error pt x = Some p ->
      find_comp h id = Some (j, r) -> p <= j) /\
  (forall x y p q, x < y -> nth_error pt x = Some p -> nth_error pt y = Some q -> p <= q).

Lemma prec_ok_pts : forall h lin m,
  prec_ok h m lin = true ->
  exists pt, pts_ok h lin pt /\ (forall x p, nth_error pt x = Some p -> m < p).
Proof.
  intros h. induction lin as [|id t IH]; intros m H.
  - exists []. split.
    + split; [reflexivity|]. split; [|split].
      * intros x id p Hx. destruct x; discriminate.
      * intros x id p j r Hx. destruct x; discriminate.
      * intros x y p q _ Hx. destruct x; discriminate.
    + intros x p Hx. destruct x; discriminate.
  - cbn in H. destruct (find_inv h id) as [[i o]|] eqn:Ei; [|discriminate].
    assert (Ht : prec_ok h (Nat.max m i) t = true).
    { destruct (find_comp h id) as [[j r]|]; [|exact H].
      apply andb_true_iff in H. apply H. }
    destruct (IH _ Ht) as [pt [[Hlen [H1 [H2 H3]]] Hlow]].
    exists (S (Nat.max m i) :: pt). split.
    + split; [cbn; rewrite Hlen; reflexivity|]. split; [|split].
      * intros x id' p Hx Hp. destruct x as [|x].
        -- cbn in Hx, Hp. inversion Hx; inversion Hp; subst.
           exists i, o. split; [exact Ei|lia].
        -- cbn in Hx, Hp. eapply H1; eassumption.
      * intros x id' p j r Hx Hp Hc. destruct x as [|x].
        -- cbn in Hx, Hp. inversion Hx; inversion Hp; subst.
           rewrite Hc in H. apply andb_true_iff in H. destruct H as [H _].
           apply Nat.ltb_lt in H. lia.
        -- cbn in Hx, Hp. eapply H2; eassumption.
      * intros x y p q Hxy Hp Hq. destruct y as [|y]; [lia|].
        cbn in Hq. destruct x as [|x].
        -- cbn in Hp. inversion Hp; subst. apply Hlow in Hq. lia.
        -- cbn in Hp. eapply (H3 x y); try eassumption. lia.
    + intros x p Hp. destruct x as [|x].
      * cbn in Hp. inversion Hp; subst. lia.
      * cbn in Hp. apply Hlow in Hp. lia.
Qed.

(* ---- soundness of the certificate checker ----------------------------------- *)

Lemma check_witness_linearizes : forall h order,
  check_witness h order = true -> wf_hist h /\ linearizes h order.
Proof.
  intros h order H. unfold check_witness in H.
  apply andb_true_iff in H. destruct H as [H Hres].
  apply andb_true_iff in H. destruct H as [H Hprec].
  apply andb_true_iff in H. destruct H as [H Hrefu].
  apply andb_true_iff in H. destruct H as [Hwf Hnd].
  split; [apply wf_histb_sound; exact Hwf|].
  unfold completed_ok in Hres. rewrite forallb_forall in Hres.
  split; [apply nodupb_NoDup; exact Hnd|].
  split.
  { intros id j r Hc. apply find_comp_In in Hc. apply Hres in Hc.
    apply andb_true_iff in Hc. destruct Hc as [Hm _]. apply memN_In. exact Hm. }
  split.
  { intros id Hin. rewrite forallb_forall in Hrefu. apply Hrefu in Hin.
    apply negb_true_iff in Hin. exact Hin. }
  split.
  { destruct (prec_ok_pts h order 0 Hprec) as [pt [[Hlen [H1 [H2 H3]]] _]].
    exists pt. split; [exact Hlen|]. split; [exact H1|]. split; [exact H2|exact H3]. }
  intros id j r Hc. apply find_comp_In in Hc. apply Hres in Hc.
  apply andb_true_iff in Hc. destruct Hc as [_ Hr].
  destruct (assoc_res id (lin_results h kv_init order)) as [r'|] eqn:Ea; [|discriminate].
  apply res_eqb_eq in Hr. subst r'. apply assoc_res_In. exact Ea.
Qed.

Lemma check_witness_sound_proved : forall h order,
  check_witness h order = true -> linearizable_hist h.
Proof.
  intros h order H. apply check_witness_linearizes in H. destruct H as [Hwf Hl].
  split; [exact Hwf|]. exists order. exact Hl.
Qed.
