(* Proofs/Linearizability.v — lemmas behind Props/C01.v *)
From Coq Require Import List NArith Arith Bool Lia.
From DB Require Import Gen.GenC01 Model.Linearizability.
Import ListNotations.
Local Open Scope nat_scope.

(* ---- small list facts ------------------------------------------------------ *)

Lemma memN_In : forall x l, memN x l = true <-> In x l.
Proof.
  intros x l. unfold memN. rewrite existsb_exists. split.
  - intros [y [Hy He]]. apply N.eqb_eq in He. subst. exact Hy.
  - intros H. exists x. split; [exact H | apply N.eqb_refl].
Qed.

Lemma memN_false : forall x l, memN x l = false <-> ~ In x l.
Proof.
  intros x l. rewrite <- memN_In. destruct (memN x l); split; intros; congruence.
Qed.

Lemma nodupb_NoDup : forall l, nodupb l = true <-> NoDup l.
Proof.
  induction l as [|x t IH]; cbn.
  - split; [constructor | reflexivity].
  - rewrite andb_true_iff, negb_true_iff, memN_false, IH. split.
    + intros [Hn Ht]. constructor; assumption.
    + intros Hnd. inversion Hnd; subst. split; assumption.
Qed.

Lemma res_eqb_eq : forall a b, res_eqb a b = true <-> a = b.
Proof.
  intros [a1 a2] [b1 b2]. unfold res_eqb. cbn. rewrite andb_true_iff, !N.eqb_eq. split.
  - intros [-> ->]. reflexivity.
  - intros H. inversion H. split; reflexivity.
Qed.

Lemma assoc_res_In : forall id l r, assoc_res id l = Some r -> In (id, r) l.
Proof.
  induction l as [|[i r'] t IH]; cbn; intros r H; [discriminate|].
  destruct (N.eqb i id) eqn:E.
  - apply N.eqb_eq in E. inversion H; subst. left. reflexivity.
  - right. apply IH. exact H.
Qed.

(* ---- positions -------------------------------------------------------------- *)

Lemma shift_Some : forall A (x : option (nat * A)) n a,
  shift x = Some (n, a) -> exists n', n = S n' /\ x = Some (n', a).
Proof.
  intros A [[n' a']|] n a H; cbn in H; [|discriminate].
  inversion H; subst. exists n'. split; reflexivity.
Qed.

Lemma find_inv_nth : forall h id i o, find_inv h id = Some (i, o) -> nth_error h i = Some (Inv id o).
Proof.
  induction h as [|e t IH]; cbn; intros id i o H; [discriminate|].
  destruct e as [i0 o0|i0 oc0].
  - destruct (N.eqb i0 id) eqn:E.
    + apply N.eqb_eq in E. inversion H; subst. reflexivity.
    + apply shift_Some in H. destruct H as [n' [-> H]]. cbn. apply IH. exact H.
  - apply shift_Some in H. destruct H as [n' [-> H]]. cbn. apply IH. exact H.
Qed.

Lemma find_resp_nth : forall h id j oc, find_resp h id = Some (j, oc) -> nth_error h j = Some (Resp id oc).
Proof.
  induction h as [|e t IH]; cbn; intros id j oc H; [discriminate|].
  destruct e as [i0 o0|i0 oc0].
  - apply shift_Some in H. destruct H as [n' [-> H]]. cbn. apply IH. exact H.
  - destruct (N.eqb i0 id) eqn:E.
    + apply N.eqb_eq in E. inversion H; subst. reflexivity.
    + apply shift_Some in H. destruct H as [n' [-> H]]. cbn. apply IH. exact H.
Qed.

Lemma find_comp_nth : forall h id j r, find_comp h id = Some (j, r) -> nth_error h j = Some (Resp id (Completed r)).
Proof.
  intros h id j r H. unfold find_comp in H.
  destruct (find_resp h id) as [[j' oc]|] eqn:E; [|discriminate].
  destruct oc; try discriminate. inversion H; subst.
  apply find_resp_nth. exact E.
Qed.

Lemma find_comp_In : forall h id j r, find_comp h id = Some (j, r) -> In (Resp id (Completed r)) h.
Proof.
  intros h id j r H. apply find_comp_nth in H. eapply nth_error_In. exact H.
Qed.

(* ---- well-formedness -------------------------------------------------------- *)

Lemma resp_after_inv_sound : forall h seen,
  resp_after_inv seen h = true ->
  forall h1 id oc h2, h = h1 ++ Resp id oc :: h2 -> In id (inv_ids h1) \/ In id seen.
Proof.
  induction h as [|e t IH]; intros seen H h1 id oc h2 E.
  - destruct h1; discriminate.
  - destruct h1 as [|e1 h1'].
    + cbn in E. inversion E; subst. cbn in H.
      apply andb_true_iff in H. destruct H as [Hm _].
      right. apply memN_In. exact Hm.
    + cbn in E. inversion E; subst. destruct e1 as [i0 o0|i0 oc0]; cbn in H.
      * specialize (IH (i0 :: seen) H h1' id oc h2 eq_refl).
        destruct IH as [IH|IH].
        -- left. cbn. right. exact IH.
        -- destruct IH as [IH|IH].
           ++ left. cbn. left. exact IH.
           ++ right. exact IH.
      * apply andb_true_iff in H. destruct H as [_ H].
        specialize (IH seen H h1' id oc h2 eq_refl). cbn. exact IH.
Qed.

Lemma wf_histb_sound : forall h, wf_histb h = true -> wf_hist h.
Proof.
  intros h H. unfold wf_histb in H.
  apply andb_true_iff in H. destruct H as [H H3].
  apply andb_true_iff in H. destruct H as [H1 H2].
  split; [|split].
  - apply nodupb_NoDup. exact H1.
  - apply nodupb_NoDup. exact H2.
  - intros h1 id oc h2 E.
    destruct (resp_after_inv_sound h [] H3 h1 id oc h2 E) as [Hi|[]]. exact Hi.
Qed.

(* ---- effect points from the greedy check ------------------------------------ *)

Lemma prec_ok_pts : forall h lin m,
  prec_ok h m lin = true ->
  exists pt, pts_ok h lin pt /\ (forall x p, nth_error pt x = Some p -> m < p).
Proof.
  intros h. induction lin as [|id t IH]; intros m H.
  - exists []. split.
    + split; [reflexivity|]. split; [|split].
      * intros x id p Hx. destruct x; discriminate.
      * intros x id p j r Hx. destruct x; discriminate.
      * intros x y p q _ Hx. destruct x; discriminate.
    + intros x p Hx. destruct x; discriminate.
  - cbn in H. destruct (find_inv h id) as [[i o]|] eqn:Ei; [|discriminate].
    assert (Ht : prec_ok h (Nat.max m i) t = true).
    { destruct (find_comp h id) as [[j r]|]; [|exact H].
      apply andb_true_iff in H. apply H. }
    destruct (IH _ Ht) as [pt [[Hlen [H1 [H2 H3]]] Hlow]].
    exists (S (Nat.max m i) :: pt). split.
    + split; [cbn; rewrite Hlen; reflexivity|]. split; [|split].
      * intros x id' p Hx Hp. destruct x as [|x].
        -- cbn in Hx, Hp. inversion Hx; inversion Hp; subst.
           exists i, o. split; [exact Ei|lia].
        -- cbn in Hx, Hp. eapply H1; eassumption.
      * intros x id' p j r Hx Hp Hc. destruct x as [|x].
        -- cbn in Hx, Hp. inversion Hx; inversion Hp; subst.
           rewrite Hc in H. apply andb_true_iff in H. destruct H as [H _].
           apply Nat.ltb_lt in H. lia.
        -- cbn in Hx, Hp. eapply H2; eassumption.
      * intros x y p q Hxy Hp Hq. destruct y as [|y]; [lia|].
        cbn in Hq. destruct x as [|x].
        -- cbn in Hp. inversion Hp; subst. apply Hlow in Hq. lia.
        -- cbn in Hp. eapply (H3 x y); try eassumption. lia.
    + intros x p Hp. destruct x as [|x].
      * cbn in Hp. inversion Hp; subst. lia.
      * cbn in Hp. apply Hlow in Hp. lia.
Qed.

(* ---- soundness of the certificate checker ----------------------------------- *)

Lemma check_witness_linearizes : forall h order,
  check_witness h order = true -> wf_hist h /\ linearizes h order.
Proof.
  intros h order H. unfold check_witness in H.
  apply andb_true_iff in H. destruct H as [H Hres].
  apply andb_true_iff in H. destruct H as [H Hprec].
  apply andb_true_iff in H. destruct H as [H Hrefu].
  apply andb_true_iff in H. destruct H as [Hwf Hnd].
  split; [apply wf_histb_sound; exact Hwf|].
  unfold completed_ok in Hres. rewrite forallb_forall in Hres.
  split; [apply nodupb_NoDup; exact Hnd|].
  split.
  { intros id j r Hc. apply find_comp_In in Hc. apply Hres in Hc.
    apply andb_true_iff in Hc. destruct Hc as [Hm _]. apply memN_In. exact Hm. }
  split.
  { intros id Hin. rewrite forallb_forall in Hrefu. apply Hrefu in Hin.
    apply negb_true_iff in Hin. exact Hin. }
  split.
  { destruct (prec_ok_pts h order 0 Hprec) as [pt [[Hlen [H1 [H2 H3]]] _]].
    exists pt. split; [exact Hlen|]. split; [exact H1|]. split; [exact H2|exact H3]. }
  intros id j r Hc. apply find_comp_In in Hc. apply Hres in Hc.
  apply andb_true_iff in Hc. destruct Hc as [_ Hr].
  destruct (assoc_res id (lin_results h kv_init order)) as [r'|] eqn:Ea; [|discriminate].
  apply res_eqb_eq in Hr. subst r'. apply assoc_res_In. exact Ea.
Qed.

Lemma check_witness_sound_proved : forall h order,
  check_witness h order = true -> linearizable_hist h.
Proof.
  intros h order H. apply check_witness_linearizes in H. destruct H as [Hwf Hl].
  split; [exact Hwf|]. exists order. exact Hl.
Qed.

(* ========================================================================== *)
(* Composition: the replicated log (with each read placed after the prefix it
   observed) is a linearization, given the protocol-level properties.          *)
(* ========================================================================== *)

(* ---- generic list facts ---------------------------------------------------- *)

Lemma FOP_impl_In : forall (A : Type) (R R' : A -> A -> Prop) l,
  ForallOrdPairs R l ->
  (forall a b, In a l -> In b l -> R a b -> R' a b) ->
  ForallOrdPairs R' l.
Proof.
  intros A R R' l H. induction H as [|a l Ha Hl IH]; intros Himp.
  - constructor.
  - constructor.
    + rewrite Forall_forall in *. intros b Hb. apply Himp; [left; reflexivity|right; exact Hb|].
      apply Ha. exact Hb.
    + apply IH. intros x y Hx Hy. apply Himp; right; assumption.
Qed.

Lemma FOP_filter : forall (A : Type) (R : A -> A -> Prop) f l,
  ForallOrdPairs R l -> ForallOrdPairs R (filter f l).
Proof.
  intros A R f l H. induction H as [|a l Ha Hl IH]; cbn.
  - constructor.
  - destruct (f a); [|exact IH]. constructor; [|exact IH].
    rewrite Forall_forall in *. intros b Hb. apply filter_In in Hb. apply Ha. apply Hb.
Qed.

Lemma FOP_app : forall (A : Type) (R : A -> A -> Prop) l1 l2,
  ForallOrdPairs R l1 -> ForallOrdPairs R l2 ->
  (forall a b, In a l1 -> In b l2 -> R a b) ->
  ForallOrdPairs R (l1 ++ l2).
Proof.
  intros A R l1 l2 H1 H2. induction H1 as [|a l Ha Hl IH]; intros Hc; cbn.
  - exact H2.
  - constructor.
    + rewrite Forall_forall in *. intros b Hb. apply in_app_or in Hb. destruct Hb as [Hb|Hb].
      * apply Ha. exact Hb.
      * apply Hc; [left; reflexivity|exact Hb].
    + apply IH. intros x y Hx Hy. apply Hc; [right; exact Hx|exact Hy].
Qed.

Lemma NoDup_app_intro : forall (A : Type) (l1 l2 : list A),
  NoDup l1 -> NoDup l2 -> (forall a, In a l1 -> ~ In a l2) -> NoDup (l1 ++ l2).
Proof.
  intros A l1 l2 H1 H2. induction H1 as [|a l Ha Hl IH]; intros Hd; cbn.
  - exact H2.
  - constructor.
    + intros Hin. apply in_app_or in Hin. destruct Hin as [Hin|Hin]; [exact (Ha Hin)|].
      apply (Hd a); [left; reflexivity|exact Hin].
    + apply IH. intros x Hx. apply Hd. right. exact Hx.
Qed.

Lemma NoDup_filter_keep : forall (A : Type) (f : A -> bool) l, NoDup l -> NoDup (filter f l).
Proof.
  intros A f l H. induction H as [|a l Ha Hl IH]; cbn; [constructor|].
  destruct (f a); [|exact IH]. constructor; [|exact IH].
  intros Hin. apply filter_In in Hin. apply Ha. apply Hin.
Qed.

Lemma nth_error_app_len : forall (A : Type) (pre : list A) x t,
  nth_error (pre ++ x :: t) (length pre) = Some x.
Proof.
  intros A pre x t. rewrite nth_error_app2 by lia. rewrite Nat.sub_diag. reflexivity.
Qed.

(* ---- more about positions ---------------------------------------------------- *)

Lemma In_inv_ids_find : forall h1 rest id,
  In id (inv_ids h1) -> exists i o, find_inv (h1 ++ rest) id = Some (i, o) /\ i < length h1.
Proof.
  induction h1 as [|e t IH]; intros rest id Hin; [destruct Hin|].
  destruct e as [i0 o0|i0 oc0]; cbn in Hin |- *.
  - destruct (N.eqb i0 id) eqn:E.
    + exists 0, o0. split; [reflexivity|lia].
    + destruct Hin as [Hin|Hin]; [apply N.eqb_neq in E; contradiction|].
      destruct (IH rest id Hin) as [i [o [Hf Hlt]]]. exists (S i), o. rewrite Hf. cbn. split; [reflexivity|lia].
  - destruct (IH rest id Hin) as [i [o [Hf Hlt]]]. exists (S i), o. rewrite Hf. cbn. split; [reflexivity|lia].
Qed.

Lemma find_resp_split : forall h id j oc,
  find_resp h id = Some (j, oc) -> exists h1 h2, h = h1 ++ Resp id oc :: h2 /\ length h1 = j.
Proof.
  induction h as [|e t IH]; cbn; intros id j oc H; [discriminate|].
  destruct e as [i0 o0|i0 oc0].
  - apply shift_Some in H. destruct H as [n' [-> H]].
    destruct (IH _ _ _ H) as [h1 [h2 [E L]]]. exists (Inv i0 o0 :: h1), h2. subst. split; reflexivity.
  - destruct (N.eqb i0 id) eqn:E.
    + apply N.eqb_eq in E. inversion H; subst. exists [], t. split; reflexivity.
    + apply shift_Some in H. destruct H as [n' [-> H]].
      destruct (IH _ _ _ H) as [h1 [h2 [E' L]]]. exists (Resp i0 oc0 :: h1), h2. subst. split; reflexivity.
Qed.

Lemma find_comp_resp : forall h id j r, find_comp h id = Some (j, r) -> find_resp h id = Some (j, Completed r).
Proof.
  intros h id j r H. unfold find_comp in H.
  destruct (find_resp h id) as [[j' oc]|]; [|discriminate].
  destruct oc; try discriminate. inversion H; subst. reflexivity.
Qed.

Lemma wf_inv_before_comp : forall h id j r,
  wf_hist h -> find_comp h id = Some (j, r) ->
  exists i o, find_inv h id = Some (i, o) /\ i < j.
Proof.
  intros h id j r [_ [_ Hw]] Hc. apply find_comp_resp in Hc.
  destruct (find_resp_split _ _ _ _ Hc) as [h1 [h2 [E L]]].
  specialize (Hw h1 id (Completed r) h2 E).
  destruct (In_inv_ids_find h1 (Resp id (Completed r) :: h2) id Hw) as [i [o [Hf Hlt]]].
  exists i, o. rewrite E. split; [exact Hf|lia].
Qed.

Lemma inv_ids_find_some : forall h id, In id (inv_ids h) -> exists i o, find_inv h id = Some (i, o).
Proof.
  intros h id Hin. destruct (In_inv_ids_find h [] id Hin) as [i [o [Hf _]]].
  rewrite app_nil_r in Hf. exists i, o. exact Hf.
Qed.

Lemma inv_pos_cons_other : forall e t b,
  In b (inv_ids t) -> (forall o, e <> Inv b o) -> inv_pos (e :: t) b = S (inv_pos t b).
Proof.
  intros e t b Hin Hne. destruct (inv_ids_find_some t b Hin) as [i [o Hf]].
  unfold inv_pos. cbn. destruct e as [i0 o0|i0 oc0].
  - destruct (N.eqb i0 b) eqn:E.
    + apply N.eqb_eq in E. subst. exfalso. apply (Hne o0). reflexivity.
    + rewrite Hf. reflexivity.
  - rewrite Hf. reflexivity.
Qed.

Lemma inv_ids_sorted : forall h,
  NoDup (inv_ids h) -> ForallOrdPairs (fun a b => inv_pos h a < inv_pos h b) (inv_ids h).
Proof.
  induction h as [|e t IH]; intros Hnd; cbn; [constructor|].
  destruct e as [i0 o0|i0 oc0]; cbn in Hnd.
  - inversion Hnd as [|x l Hni Hnd']; subst. constructor.
    + rewrite Forall_forall. intros b Hb.
      assert (Hb' : inv_pos (Inv i0 o0 :: t) b = S (inv_pos t b)).
      { apply inv_pos_cons_other; [exact Hb|]. intros o E. inversion E; subst. contradiction. }
      rewrite Hb'. unfold inv_pos at 1. cbn. rewrite N.eqb_refl. lia.
    + apply FOP_impl_In with (R := fun a b => inv_pos t a < inv_pos t b); [apply IH; exact Hnd'|].
      intros a b Ha Hb Hlt.
      rewrite !inv_pos_cons_other; try assumption; try lia.
      * intros o E. inversion E; subst. contradiction.
      * intros o E. inversion E; subst. contradiction.
  - apply FOP_impl_In with (R := fun a b => inv_pos t a < inv_pos t b); [apply IH; exact Hnd|].
    intros a b Ha Hb Hlt.
    rewrite !inv_pos_cons_other; try assumption; try lia.
    + intros o E. discriminate.
    + intros o E. discriminate.
Qed.

(* ---- greedy check from pairwise precedence ----------------------------------- *)

Definition precedes_ok (h : history) (a b : opid) : Prop :=
  forall j r, find_comp h b = Some (j, r) -> inv_pos h a < j.

Lemma prec_ok_of_pairs : forall h lin m,
  (forall a, In a lin -> exists i o, find_inv h a = Some (i, o)) ->
  (forall b j r, In b lin -> find_comp h b = Some (j, r) -> m < j) ->
  (forall a, In a lin -> precedes_ok h a a) ->
  ForallOrdPairs (precedes_ok h) lin ->
  prec_ok h m lin = true.
Proof.
  intros h. induction lin as [|a t IH]; intros m Hinv Hm Hself Hfop; [reflexivity|].
  cbn. destruct (Hinv a (or_introl eq_refl)) as [i [o Hf]]. rewrite Hf.
  inversion Hfop as [|x l Ha Ht]; subst.
  assert (Hpos : inv_pos h a = i) by (unfold inv_pos; rewrite Hf; reflexivity).
  assert (Hrest : prec_ok h (Nat.max m i) t = true).
  { apply IH.
    - intros x Hx. apply Hinv. right. exact Hx.
    - intros b j r Hb Hc. rewrite Forall_forall in Ha.
      specialize (Ha b Hb j r Hc). specialize (Hm b j r (or_intror Hb) Hc). lia.
    - intros x Hx. apply Hself. right. exact Hx.
    - exact Ht. }
  destruct (find_comp h a) as [[j r]|] eqn:Hc; [|exact Hrest].
  rewrite Hrest, andb_true_r. apply Nat.ltb_lt.
  specialize (Hm a j r (or_introl eq_refl) Hc).
  specialize (Hself a (or_introl eq_refl) j r Hc). lia.
Qed.

(* every linearization order passes the greedy check: the checker is complete *)
Lemma pts_prec_ok : forall h lin pt m,
  pts_ok h lin pt ->
  (forall x p, nth_error pt x = Some p -> m < p) ->
  prec_ok h m lin = true.
Proof.
  intros h. induction lin as [|a t IH]; intros pt m Hp Hlow; [reflexivity|].
  destruct Hp as [Hlen [H1 [H2 H3]]].
  destruct pt as [|p pt']; [discriminate|].
  cbn. destruct (H1 0 a p eq_refl eq_refl) as [i [o [Hf Hip]]]. rewrite Hf.
  assert (Hmp : m < p) by (apply (Hlow 0); reflexivity).
  assert (Hrest : prec_ok h (Nat.max m i) t = true).
  { apply IH with (pt := pt').
    - split; [cbn in Hlen; lia|]. split; [|split].
      + intros x id q Hx Hq. apply (H1 (S x) id q); assumption.
      + intros x id q j r Hx Hq. apply (H2 (S x) id q j r); assumption.
      + intros x y q q' Hxy Hq Hq'. apply (H3 (S x) (S y) q q'); [lia|assumption|assumption].
    - intros x q Hq. specialize (H3 0 (S x) p q (Nat.lt_0_succ x) eq_refl Hq). lia. }
  destruct (find_comp h a) as [[j r]|] eqn:Hc; [|exact Hrest].
  rewrite Hrest, andb_true_r. apply Nat.ltb_lt.
  specialize (H2 0 a p j r eq_refl eq_refl Hc). lia.
Qed.

(* ---- facts about op_of / is_read / is_write ---------------------------------- *)

Lemma is_read_op : forall h x, is_read h x = true -> exists k, op_of h x = Some (OpRead k).
Proof.
  intros h x H. unfold is_read in H. destruct (op_of h x) as [[k v|k]|]; try discriminate.
  exists k. reflexivity.
Qed.

Lemma is_write_op : forall h x, is_write h x = true -> exists k v, op_of h x = Some (OpWrite k v).
Proof.
  intros h x H. unfold is_write in H. destruct (op_of h x) as [[k v|k]|]; try discriminate.
  exists k, v. reflexivity.
Qed.

Lemma op_of_find : forall h x o, op_of h x = Some o -> exists i, find_inv h x = Some (i, o).
Proof.
  intros h x o H. unfold op_of in H. destruct (find_inv h x) as [[i o']|]; [|discriminate].
  inversion H; subst. exists i. reflexivity.
Qed.

Lemma read_not_write : forall h x, is_read h x = true -> is_write h x = true -> False.
Proof.
  intros h x Hr Hw. destruct (is_read_op _ _ Hr) as [k E]. destruct (is_write_op _ _ Hw) as [k' [v E']].
  rewrite E in E'. discriminate.
Qed.

Lemma completed_reads_spec : forall h x,
  In x (completed_reads h) <-> In x (inv_ids h) /\ is_read h x = true /\ is_completed h x = true.
Proof.
  intros h x. unfold completed_reads. rewrite filter_In, andb_true_iff. tauto.
Qed.

Lemma reads_at_spec : forall cr obs k x, In x (reads_at cr obs k) <-> In x cr /\ obs x = k.
Proof.
  intros cr obs k x. unfold reads_at. rewrite filter_In, Nat.eqb_eq. tauto.
Qed.

(* ---- running the specification over reads ------------------------------------ *)

Lemma lin_reads_app : forall h rs l s,
  (forall x, In x rs -> is_read h x = true) ->
  lin_state h s (rs ++ l) = lin_state h s l /\
  (forall p, In p (lin_results h s l) -> In p (lin_results h s (rs ++ l))) /\
  (forall x k, In x rs -> op_of h x = Some (OpRead k) -> In (x, kv_get s k) (lin_results h s (rs ++ l))).
Proof.
  intros h. induction rs as [|x rs IH]; intros l s Hr.
  - cbn. split; [reflexivity|]. split; [tauto|]. intros x k [].
  - destruct (is_read_op h x (Hr x (or_introl eq_refl))) as [k Hk].
    destruct (IH l s (fun y Hy => Hr y (or_intror Hy))) as [I1 [I2 I3]].
    cbn. rewrite Hk. cbn. split; [exact I1|]. split.
    + intros p Hp. right. apply I2. exact Hp.
    + intros y k' [Hy|Hy] Hk'.
      * subst y. rewrite Hk in Hk'. inversion Hk'; subst. left. reflexivity.
      * right. apply I3; assumption.
Qed.

Lemma lin_results_cons_tail : forall h s w l p,
  (match op_of h w with
   | Some o => In p (lin_results h (fst (kv_step s o)) l)
   | None => In p (lin_results h s l)
   end) -> In p (lin_results h s (w :: l)).
Proof.
  intros h s w l p H. cbn. destruct (op_of h w); [right|]; exact H.
Qed.

Section Weave.
Variable h : history.
Variable rds : nat -> list opid.
Hypothesis rds_reads : forall k x, In x (rds k) -> is_read h x = true.

Lemma weave_In_log : forall t k x, In x t -> In x (weave_from rds k t).
Proof.
  induction t as [|w t IH]; intros k x Hin; [destruct Hin|].
  cbn. apply in_or_app. right. destruct Hin as [->|Hin]; [left; reflexivity|].
  right. apply IH. exact Hin.
Qed.

Lemma weave_In_read : forall t k k' x,
  k <= k' -> k' <= k + length t -> In x (rds k') -> In x (weave_from rds k t).
Proof.
  induction t as [|w t IH]; intros k k' x H1 H2 Hin; cbn in *.
  - replace k with k' by lia. exact Hin.
  - apply in_or_app. destruct (Nat.eq_dec k k') as [->|Hne]; [left; exact Hin|].
    right. right. apply (IH (S k) k'); [lia|lia|exact Hin].
Qed.

Lemma weave_In_inv : forall t k x,
  In x (weave_from rds k t) -> In x t \/ exists k', k <= k' /\ k' <= k + length t /\ In x (rds k').
Proof.
  induction t as [|w t IH]; intros k x Hin; cbn in Hin.
  - right. exists k. cbn. split; [lia|]. split; [lia|exact Hin].
  - apply in_app_or in Hin. destruct Hin as [Hin|[->|Hin]].
    + right. exists k. split; [lia|]. split; [lia|exact Hin].
    + left. left. reflexivity.
    + destruct (IH _ _ Hin) as [Ht|[k' [A [B C]]]].
      * left. right. exact Ht.
      * right. exists k'. cbn. split; [lia|]. split; [lia|exact C].
Qed.

Lemma weave_results : forall t k s,
  lin_state h s (weave_from rds k t) = lin_state h s t /\
  (forall p, In p (lin_results h s t) -> In p (lin_results h s (weave_from rds k t))) /\
  (forall k' x key, k <= k' -> k' <= k + length t -> In x (rds k') -> op_of h x = Some (OpRead key) ->
      In (x, kv_get (lin_state h s (firstn (k' - k) t)) key) (lin_results h s (weave_from rds k t))).
Proof.
  induction t as [|w t IH]; intros k s.
  - cbn [weave_from].
    destruct (lin_reads_app h (rds k) [] s (rds_reads k)) as [A [B C]].
    rewrite app_nil_r in *. split; [exact A|]. split; [exact B|].
    intros k' x key H1 H2 Hin Hop. cbn in H2. replace k' with k in * by lia.
    rewrite firstn_nil. cbn. apply C; assumption.
  - cbn [weave_from].
    destruct (lin_reads_app h (rds k) (w :: weave_from rds (S k) t) s (rds_reads k)) as [A [B C]].
    split; [|split].
    + rewrite A. cbn. destruct (op_of h w) as [o|].
      * apply (IH (S k)).
      * apply (IH (S k)).
    + intros p Hp. apply B. cbn in Hp |- *. destruct (op_of h w) as [o|].
      * destruct Hp as [Hp|Hp]; [left; exact Hp|]. right. apply (IH (S k)). exact Hp.
      * apply (IH (S k)). exact Hp.
    + intros k' x key H1 H2 Hin Hop. cbn in H2.
      destruct (Nat.eq_dec k k') as [E|Hne].
      * subst k'. rewrite Nat.sub_diag. cbn. apply C; assumption.
      * apply B. replace (k' - k) with (S (k' - S k)) by lia.
        apply lin_results_cons_tail. cbn [firstn lin_state].
        destruct (op_of h w) as [o|].
        -- apply (IH (S k)); [lia|lia|exact Hin|exact Hop].
        -- apply (IH (S k)); [lia|lia|exact Hin|exact Hop].
Qed.

End Weave.

Lemma find_inv_In_ids : forall h id i o, find_inv h id = Some (i, o) -> In id (inv_ids h).
Proof.
  induction h as [|e t IH]; cbn; intros id i o H; [discriminate|].
  destruct e as [i0 o0|i0 oc0].
  - destruct (N.eqb i0 id) eqn:E.
    + apply N.eqb_eq in E. left. exact E.
    + apply shift_Some in H. destruct H as [n' [_ H]]. right. eapply IH. exact H.
  - apply shift_Some in H. destruct H as [n' [_ H]]. eapply IH. exact H.
Qed.

Section FromLog.
Variable h : history.
Variable log : list opid.
Variable obs : opid -> nat.
Variable cmt : nat -> nat.
Hypothesis Hwf : wf_hist h.
Hypothesis H05 : C05_at_most_once h log.
Hypothesis H02 : C02_state_machine_safety h log obs cmt.
Hypothesis H03 : C03_leader_completeness h log cmt.
Hypothesis H12 : C12_completed_after_local_apply h log cmt.
Hypothesis H06 : C06_read_index_not_stale h obs cmt.

Let rds := reads_at (completed_reads h) obs.

Lemma rds_spec : forall k x,
  In x (rds k) <-> In x (inv_ids h) /\ is_read h x = true /\ is_completed h x = true /\ obs x = k.
Proof.
  intros k x. unfold rds. rewrite reads_at_spec, completed_reads_spec. tauto.
Qed.

Lemma rds_reads : forall k x, In x (rds k) -> is_read h x = true.
Proof. intros k x H. apply rds_spec in H. tauto. Qed.

Lemma rds_completed : forall k x, In x (rds k) -> exists j r, find_comp h x = Some (j, r).
Proof.
  intros k x H. apply rds_spec in H. destruct H as [_ [_ [Hc _]]].
  unfold is_completed in Hc. destruct (find_comp h x) as [[j r]|]; [|discriminate].
  exists j, r. reflexivity.
Qed.

Lemma cmt_mono : forall p q, p <= q -> cmt p <= cmt q.
Proof. destruct H02 as [M _]. exact M. Qed.

Lemma P_from_cmt : forall a b k,
  cmt (inv_pos h a) <= k ->
  (forall j r, find_comp h b = Some (j, r) -> S k <= cmt j) ->
  precedes_ok h a b.
Proof.
  intros a b k Ha Hb j r Hc. specialize (Hb j r Hc).
  destruct (le_lt_dec j (inv_pos h a)) as [Hle|Hlt]; [|exact Hlt].
  pose proof (cmt_mono _ _ Hle). lia.
Qed.

Lemma read_lo : forall x k, In x (rds k) -> cmt (inv_pos h x) <= k.
Proof.
  intros x k Hin. destruct (rds_completed k x Hin) as [j [r Hc]].
  apply rds_spec in Hin. destruct Hin as [_ [Hr [_ Ho]]].
  destruct (H06 x j r Hc Hr) as [A _]. lia.
Qed.

Lemma read_hi : forall x k j r, In x (rds k) -> find_comp h x = Some (j, r) -> k <= cmt j.
Proof.
  intros x k j r Hin Hc. apply rds_spec in Hin. destruct Hin as [_ [Hr [_ Ho]]].
  destruct (H06 x j r Hc Hr) as [_ B]. lia.
Qed.

Lemma write_hi : forall w idx j r,
  nth_error log idx = Some w -> find_comp h w = Some (j, r) -> S idx <= cmt j.
Proof.
  intros w idx j r Hn Hc. destruct H05 as [Hnd Hw]. destruct H12 as [Hap _].
  assert (Hin : In w log) by (eapply nth_error_In; exact Hn).
  destruct (Hap w j r Hc (Hw w Hin)) as [idx' [Hn' Hlt]].
  assert (idx = idx').
  { rewrite NoDup_nth_error in Hnd. apply Hnd.
    - apply nth_error_Some. rewrite Hn. discriminate.
    - rewrite Hn, Hn'. reflexivity. }
  subst. lia.
Qed.

Lemma weave_hi : forall t pre k,
  log = pre ++ t -> length pre = k ->
  forall b, In b (weave_from rds k t) ->
  forall j r, find_comp h b = Some (j, r) -> k <= cmt j.
Proof.
  induction t as [|w t IH]; intros pre k E L b Hb j r Hc; cbn in Hb.
  - eapply read_hi; eassumption.
  - apply in_app_or in Hb. destruct Hb as [Hb|[<-|Hb]].
    + eapply read_hi; eassumption.
    + assert (Hn : nth_error log k = Some w) by (rewrite E, <- L; apply nth_error_app_len).
      pose proof (write_hi w k j r Hn Hc). lia.
    + assert (S k <= cmt j); [|lia].
      apply (IH (pre ++ [w]) (S k)) with (b := b) (r := r); try assumption.
      * rewrite <- app_assoc. exact E.
      * rewrite app_length. cbn. lia.
Qed.

Lemma self_prec : forall a, precedes_ok h a a.
Proof.
  intros a j r Hc. destruct (wf_inv_before_comp h a j r Hwf Hc) as [i [o [Hf Hlt]]].
  unfold inv_pos. rewrite Hf. exact Hlt.
Qed.

Lemma reads_fop : forall k, ForallOrdPairs (precedes_ok h) (rds k).
Proof.
  intros k. destruct Hwf as [Hnd _].
  apply FOP_impl_In with (R := fun a b => inv_pos h a < inv_pos h b).
  - unfold rds, reads_at, completed_reads. apply FOP_filter. apply FOP_filter.
    apply inv_ids_sorted. exact Hnd.
  - intros a b _ _ Hlt j r Hc. pose proof (self_prec b j r Hc). lia.
Qed.

Lemma weave_fop : forall t pre k,
  log = pre ++ t -> length pre = k ->
  ForallOrdPairs (precedes_ok h) (weave_from rds k t).
Proof.
  induction t as [|w t IH]; intros pre k E L; cbn.
  - apply reads_fop.
  - assert (Hn : nth_error log k = Some w) by (rewrite E, <- L; apply nth_error_app_len).
    assert (E' : log = (pre ++ [w]) ++ t) by (rewrite <- app_assoc; exact E).
    assert (L' : length (pre ++ [w]) = S k) by (rewrite app_length; cbn; lia).
    apply FOP_app.
    + apply reads_fop.
    + constructor.
      * rewrite Forall_forall. intros b Hb. apply P_from_cmt with (k := k).
        -- apply H03. exact Hn.
        -- intros j r Hc. apply (weave_hi t (pre ++ [w]) (S k) E' L' b Hb j r Hc).
      * apply (IH (pre ++ [w]) (S k) E' L').
    + intros a b Ha Hb. apply P_from_cmt with (k := k).
      * apply read_lo. exact Ha.
      * intros j r Hc. destruct Hb as [<-|Hb].
        -- apply (write_hi w k j r Hn Hc).
        -- apply (weave_hi t (pre ++ [w]) (S k) E' L' b Hb j r Hc).
Qed.

Lemma weave_nodup : forall t pre k,
  log = pre ++ t -> length pre = k -> NoDup (weave_from rds k t).
Proof.
  assert (Hrk : forall k, NoDup (rds k)).
  { intros k. unfold rds, reads_at, completed_reads.
    apply NoDup_filter_keep. apply NoDup_filter_keep. apply Hwf. }
  destruct H05 as [Hnd Hw].
  induction t as [|w t IH]; intros pre k E L; cbn; [apply Hrk|].
  assert (E' : log = (pre ++ [w]) ++ t) by (rewrite <- app_assoc; exact E).
  assert (L' : length (pre ++ [w]) = S k) by (rewrite app_length; cbn; lia).
  assert (Hint : forall x, In x t -> In x log).
  { intros x Hx. rewrite E. apply in_or_app. right. right. exact Hx. }
  assert (Hwl : In w log) by (rewrite E; apply in_or_app; right; left; reflexivity).
  apply NoDup_app_intro.
  - apply Hrk.
  - constructor.
    + intros Hin. apply weave_In_inv in Hin. destruct Hin as [Hin|[k' [_ [_ Hin]]]].
      * rewrite E in Hnd. apply NoDup_remove_2 in Hnd. apply Hnd. apply in_or_app. right. exact Hin.
      * apply (read_not_write h w); [eapply rds_reads; exact Hin|apply Hw; exact Hwl].
    + apply (IH (pre ++ [w]) (S k) E' L').
  - intros a Ha [<-|Hin].
    + apply (read_not_write h w); [eapply rds_reads; exact Ha|apply Hw; exact Hwl].
    + apply weave_In_inv in Hin. destruct Hin as [Hin|[k' [Hk [_ Hin]]]].
      * apply (read_not_write h a); [eapply rds_reads; exact Ha|apply Hw; apply Hint; exact Hin].
      * apply rds_spec in Ha. apply rds_spec in Hin. lia.
Qed.

Lemma weave_linearizes : linearizes h (weave h log obs).
Proof.
  unfold weave. cbv zeta. change (reads_at (completed_reads h) obs) with rds.
  pose proof H02 as [_ [Hlen [Hwres Hrres]]].
  pose proof H12 as [Hap Hnref].
  pose proof H05 as [Hnd Hw].
  assert (Hcase : forall id j r, find_comp h id = Some (j, r) ->
            (is_write h id = true /\ In id log) \/
            (exists key, op_of h id = Some (OpRead key) /\ In id (rds (obs id)) /\ obs id <= length log)).
  { intros id j r Hc. destruct (wf_inv_before_comp h id j r Hwf Hc) as [i [o [Hf _]]].
    assert (Hop : op_of h id = Some o) by (unfold op_of; rewrite Hf; reflexivity).
    destruct o as [k v|k].
    - left. assert (Hiw : is_write h id = true) by (unfold is_write; rewrite Hop; reflexivity).
      split; [exact Hiw|]. destruct (Hap id j r Hc Hiw) as [idx [Hn _]]. eapply nth_error_In. exact Hn.
    - right. exists k. split; [exact Hop|].
      assert (Hir : is_read h id = true) by (unfold is_read; rewrite Hop; reflexivity).
      split.
      + apply rds_spec. split; [eapply find_inv_In_ids; exact Hf|]. split; [exact Hir|].
        split; [unfold is_completed; rewrite Hc; reflexivity|reflexivity].
      + destruct (H06 id j r Hc Hir) as [_ B]. specialize (Hlen j). lia. }
  split; [apply (weave_nodup log [] 0 eq_refl eq_refl)|].
  split.
  { intros id j r Hc. destruct (Hcase id j r Hc) as [[_ Hin]|[key [_ [Hin Hle]]]].
    - apply weave_In_log. exact Hin.
    - apply weave_In_read with (k' := obs id); [lia|lia|exact Hin]. }
  split.
  { intros id Hin. apply weave_In_inv in Hin. destruct Hin as [Hin|[k' [_ [_ Hin]]]].
    - apply Hnref. exact Hin.
    - destruct (rds_completed k' id Hin) as [j [r Hc]]. apply find_comp_resp in Hc.
      unfold refused. rewrite Hc. reflexivity. }
  split.
  { assert (Hp : prec_ok h 0 (weave_from rds 0 log) = true).
    { apply prec_ok_of_pairs.
      - intros a Hin. apply weave_In_inv in Hin. destruct Hin as [Hin|[k' [_ [_ Hin]]]].
        + destruct (is_write_op h a (Hw a Hin)) as [k [v Hop]].
          destruct (op_of_find h a _ Hop) as [i Hf]. exists i, (OpWrite k v). exact Hf.
        + destruct (is_read_op h a (rds_reads k' a Hin)) as [k Hop].
          destruct (op_of_find h a _ Hop) as [i Hf]. exists i, (OpRead k). exact Hf.
      - intros b j r _ Hc. destruct (wf_inv_before_comp h b j r Hwf Hc) as [i [o [_ Hlt]]]. lia.
      - intros a _. apply self_prec.
      - apply (weave_fop log [] 0 eq_refl eq_refl). }
    destruct (prec_ok_pts h _ 0 Hp) as [pt [[Hl [P1 [P2 P3]]] _]].
    exists pt. split; [exact Hl|]. split; [exact P1|]. split; [exact P2|exact P3]. }
  intros id j r Hc.
  destruct (weave_results h rds rds_reads log 0 kv_init) as [_ [W1 W2]].
  destruct (Hcase id j r Hc) as [[Hiw _]|[key [Hop [Hin Hle]]]].
  - apply W1. apply (Hwres id j r Hc Hiw).
  - rewrite (Hrres id j r key Hc Hop).
    specialize (W2 (obs id) id key (Nat.le_0_l _) Hle Hin Hop).
    rewrite Nat.sub_0_r in W2. exact W2.
Qed.

Lemma linearizable_from_log_proved : linearizable_hist h /\ linearizes h (weave h log obs).
Proof.
  split; [|exact weave_linearizes]. split; [exact Hwf|]. exists (weave h log obs). exact weave_linearizes.
Qed.

End FromLog.

(* completeness of the certificate checker's order test: any linearization order
   passes the greedy precedence check *)
Lemma linearizes_prec_ok : forall h lin, linearizes h lin -> prec_ok h 0 lin = true.
Proof.
  intros h lin [_ [_ [_ [[pt [Hl [P1 [P2 P3]]]] _]]]].
  apply pts_prec_ok with (pt := pt).
  - split; [exact Hl|]. split; [exact P1|]. split; [exact P2|exact P3].
  - intros x p Hp.
    assert (Hx : x < length lin) by (rewrite <- Hl; apply nth_error_Some; rewrite Hp; discriminate).
    destruct (nth_error lin x) as [id|] eqn:E; [|apply nth_error_None in E; lia].
    destruct (P1 x id p E Hp) as [i [o [_ Hlt]]]. lia.
Qed.

Lemma effect_points_iff_greedy_proved : forall h lin,
  (exists pt, pts_ok h lin pt) <-> prec_ok h 0 lin = true.
Proof.
  intros h lin. split.
  - intros [pt Hp]. apply pts_prec_ok with (pt := pt); [exact Hp|].
    destruct Hp as [Hl [P1 _]]. intros x p Hp.
    assert (Hx : x < length lin) by (rewrite <- Hl; apply nth_error_Some; rewrite Hp; discriminate).
    destruct (nth_error lin x) as [id|] eqn:E; [|apply nth_error_None in E; lia].
    destruct (P1 x id p E Hp) as [i [o [_ Hlt]]]. lia.
  - intros H. destruct (prec_ok_pts h lin 0 H) as [pt [Hp _]]. exists pt. exact Hp.
Qed.

(* ---- a concrete instance of the hypotheses of the composition theorem -------- *)

Lemma find_comp_in_resp_ids : forall h id j r, find_comp h id = Some (j, r) -> In id (resp_ids h).
Proof.
  intros h id j r H. apply find_comp_resp in H. revert id j H.
  induction h as [|e t IH]; cbn; intros id j H; [discriminate|].
  destruct e as [i0 o0|i0 oc0].
  - apply shift_Some in H. destruct H as [n' [_ H]]. eapply IH. exact H.
  - destruct (N.eqb i0 id) eqn:E.
    + apply N.eqb_eq in E. left. exact E.
    + apply shift_Some in H. destruct H as [n' [_ H]]. right. eapply IH. exact H.
Qed.

Definition ex_hist : history :=
  [ Inv 1 (OpWrite 7 10); Inv 2 (OpWrite 7 20); Resp 1 (Completed (0, 1)%N);
    Resp 2 Timeout; Inv 3 (OpRead 7); Inv 4 (OpWrite 7 30); Resp 4 Refused;
    Resp 3 (Completed (20, 2)%N) ]%N.
Definition ex_log : list opid := [1; 2]%N.
Definition ex_obs (id : opid) : nat := if N.eqb id 3 then 2 else 0.
Definition ex_cmt (p : nat) : nat := if Nat.leb p 1 then 0 else if Nat.leb p 3 then 1 else 2.

Ltac ex_leb := repeat match goal with
  | |- context [Nat.leb ?a ?b] => destruct (Nat.leb_spec a b)
  end; try lia.

Lemma ex_hyps :
  wf_hist ex_hist /\
  C05_at_most_once ex_hist ex_log /\
  C02_state_machine_safety ex_hist ex_log ex_obs ex_cmt /\
  C03_leader_completeness ex_hist ex_log ex_cmt /\
  C12_completed_after_local_apply ex_hist ex_log ex_cmt /\
  C06_read_index_not_stale ex_hist ex_obs ex_cmt.
Proof.
  assert (Hcomp : forall w j r, find_comp ex_hist w = Some (j, r) ->
            (w = 1%N /\ j = 2 /\ r = (0, 1)%N) \/ (w = 3%N /\ j = 7 /\ r = (20, 2)%N)).
  { intros w j r Hc. pose proof (find_comp_in_resp_ids _ _ _ _ Hc) as Hin. cbn in Hin.
    destruct Hin as [<-|[<-|[<-|[<-|[]]]]]; vm_compute in Hc; try discriminate; inversion Hc; subst; tauto. }
  split; [apply wf_histb_sound; vm_compute; reflexivity|].
  split.
  { split; [apply nodupb_NoDup; vm_compute; reflexivity|].
    intros w [<-|[<-|[]]]; vm_compute; reflexivity. }
  split.
  { split; [|split; [|split]].
    - intros p q Hpq. unfold ex_cmt. ex_leb.
    - intros p. unfold ex_cmt. cbn. ex_leb.
    - intros w j r Hc Hw. destruct (Hcomp w j r Hc) as [[-> [-> ->]]|[-> [-> ->]]].
      + vm_compute. left. reflexivity.
      + vm_compute in Hw. discriminate.
    - intros rd j r k Hc Hop. destruct (Hcomp rd j r Hc) as [[-> [-> ->]]|[-> [-> ->]]].
      + vm_compute in Hop. discriminate.
      + vm_compute in Hop. inversion Hop; subst. vm_compute. reflexivity. }
  split.
  { intros w idx Hn. destruct idx as [|[|idx]]; cbn in Hn.
    - inversion Hn; subst. vm_compute. lia.
    - inversion Hn; subst. vm_compute. lia.
    - destruct idx; discriminate. }
  split.
  { split.
    - intros w j r Hc Hw. destruct (Hcomp w j r Hc) as [[-> [-> ->]]|[-> [-> ->]]].
      + exists 0. split; [reflexivity|]. vm_compute. lia.
      + vm_compute in Hw. discriminate.
    - intros w [<-|[<-|[]]]; vm_compute; reflexivity. }
  intros rd j r Hc Hr. destruct (Hcomp rd j r Hc) as [[-> [-> ->]]|[-> [-> ->]]].
  - vm_compute in Hr. discriminate.
  - vm_compute. lia.
Qed.

(* ========================================================================== *)
(* Completeness of the certificate checker: every linearization order of a
   well-formed history is accepted.                                            *)
(* ========================================================================== *)

Lemma resp_after_inv_complete : forall h seen,
  (forall h1 id oc h2, h = h1 ++ Resp id oc :: h2 -> In id (inv_ids h1) \/ In id seen) ->
  resp_after_inv seen h = true.
Proof.
  induction h as [|e t IH]; intros seen H; [reflexivity|].
  destruct e as [i0 o0|i0 oc0]; cbn.
  - apply IH. intros h1 id oc h2 E.
    destruct (H (Inv i0 o0 :: h1) id oc h2) as [Hin|Hin]; [cbn; rewrite E; reflexivity| |].
    + cbn in Hin. destruct Hin as [Hin|Hin]; [right; left; exact Hin|left; exact Hin].
    + right. right. exact Hin.
  - apply andb_true_iff. split.
    + destruct (H [] i0 oc0 t eq_refl) as [[]|Hin]. apply memN_In. exact Hin.
    + apply IH. intros h1 id oc h2 E.
      destruct (H (Resp i0 oc0 :: h1) id oc h2) as [Hin|Hin]; [cbn; rewrite E; reflexivity| |].
      * left. exact Hin.
      * right. exact Hin.
Qed.

Lemma wf_histb_complete : forall h, wf_hist h -> wf_histb h = true.
Proof.
  intros h [H1 [H2 H3]]. unfold wf_histb.
  rewrite (proj2 (nodupb_NoDup _) H1), (proj2 (nodupb_NoDup _) H2). cbn.
  apply resp_after_inv_complete. intros h1 id oc h2 E. left. eapply H3. exact E.
Qed.

Lemma resp_ids_app : forall h1 h2, resp_ids (h1 ++ h2) = resp_ids h1 ++ resp_ids h2.
Proof.
  induction h1 as [|e t IH]; intros h2; [reflexivity|].
  destruct e; cbn; rewrite IH; reflexivity.
Qed.

Lemma find_resp_first : forall h1 id oc h2,
  ~ In id (resp_ids h1) -> find_resp (h1 ++ Resp id oc :: h2) id = Some (length h1, oc).
Proof.
  induction h1 as [|e t IH]; intros id oc h2 Hn; cbn.
  - rewrite N.eqb_refl. reflexivity.
  - destruct e as [i0 o0|i0 oc0]; cbn in Hn.
    + rewrite IH by exact Hn. reflexivity.
    + destruct (N.eqb i0 id) eqn:E.
      * apply N.eqb_eq in E. exfalso. apply Hn. left. exact E.
      * rewrite IH; [reflexivity|]. intros Hin. apply Hn. right. exact Hin.
Qed.

Lemma wf_completed_event : forall h id r,
  wf_hist h -> In (Resp id (Completed r)) h -> exists j, find_comp h id = Some (j, r).
Proof.
  intros h id r [_ [Hnd _]] Hin. apply in_split in Hin. destruct Hin as [h1 [h2 E]].
  subst h. rewrite resp_ids_app in Hnd. cbn in Hnd. apply NoDup_remove_2 in Hnd.
  exists (length h1). unfold find_comp. rewrite find_resp_first; [reflexivity|].
  intros Hin. apply Hnd. apply in_or_app. left. exact Hin.
Qed.

Lemma lin_results_ids : forall h lin s,
  map fst (lin_results h s lin) =
  filter (fun id => match op_of h id with Some _ => true | None => false end) lin.
Proof.
  intros h. induction lin as [|id t IH]; intros s; [reflexivity|].
  cbn. destruct (op_of h id) as [o|]; cbn; [rewrite IH; reflexivity|apply IH].
Qed.

Lemma assoc_res_NoDup : forall l id r,
  NoDup (map fst l) -> In (id, r) l -> assoc_res id l = Some r.
Proof.
  induction l as [|[i r'] t IH]; intros id r Hnd Hin; [destruct Hin|].
  cbn in Hnd. inversion Hnd as [|x l' Hni Hnd']; subst. cbn.
  destruct Hin as [E|Hin].
  - inversion E; subst. rewrite N.eqb_refl. reflexivity.
  - destruct (N.eqb i id) eqn:E.
    + apply N.eqb_eq in E. subst. exfalso. apply Hni.
      change id with (fst (id, r)). apply in_map. exact Hin.
    + apply IH; assumption.
Qed.

Lemma check_witness_complete_proved : forall h lin,
  wf_hist h -> linearizes h lin -> check_witness h lin = true.
Proof.
  intros h lin Hwf Hl. pose proof Hl as [Hnd [Hall [Href [Hpt Hres]]]].
  unfold check_witness.
  rewrite (wf_histb_complete h Hwf), (proj2 (nodupb_NoDup lin) Hnd). cbn.
  assert (E1 : forallb (fun id => negb (refused h id)) lin = true).
  { apply forallb_forall. intros id Hin. rewrite (Href id Hin). reflexivity. }
  rewrite E1. cbn.
  rewrite (proj1 (effect_points_iff_greedy_proved h lin) Hpt). cbn.
  unfold completed_ok. apply forallb_forall. intros e He.
  destruct e as [i o|id oc]; [reflexivity|]. destruct oc; try reflexivity.
  destruct (wf_completed_event h id r Hwf He) as [j Hc].
  apply andb_true_iff. split.
  - apply memN_In. eapply Hall. exact Hc.
  - rewrite (assoc_res_NoDup _ id r).
    + apply res_eqb_eq. reflexivity.
    + rewrite lin_results_ids. apply NoDup_filter_keep. exact Hnd.
    + eapply Hres. exact Hc.
Qed.

(* the checker decides "order is a linearization of h" *)
Lemma check_witness_iff_proved : forall h lin,
  check_witness h lin = true <-> wf_hist h /\ linearizes h lin.
Proof.
  intros h lin. split.
  - apply check_witness_linearizes.
  - intros [Hwf Hl]. apply check_witness_complete_proved; assumption.
Qed.

(* under the hypotheses of the composition theorem the checker accepts the log witness *)
Lemma log_witness_accepted_proved : forall h log obs cmt,
  wf_hist h ->
  C05_at_most_once h log ->
  C02_state_machine_safety h log obs cmt ->
  C03_leader_completeness h log cmt ->
  C12_completed_after_local_apply h log cmt ->
  C06_read_index_not_stale h obs cmt ->
  check_witness h (weave h log obs) = true.
Proof.
  intros h log obs cmt Hwf H05 H02 H03 H12 H06.
  apply check_witness_complete_proved; [exact Hwf|].
  eapply weave_linearizes; eassumption.
Qed.
