(* C10 — proofs about tan's record framing (Model/TanRecord.v).

   Proved here for logs whose records all fit into the first block without being split
   ([fits]: no chunk splitting, no block padding): the writer's output is the
   concatenation of full chunks, replay returns exactly the records, and a log cut anywhere
   inside its last record replays to the records before it with a verdict open() recovers
   from.  Records split into first/middle/last chunks and block padding are covered by the
   differential run only (the real writer/reader against the extracted model, block
   boundary cases generated on purpose). *)
From Coq Require Import List NArith Bool Lia.
From Coq Require Import ZifyN ZifyNat ZifyBool.
From DB Require Import Base.Bytes Proofs.Bytes Gen.GenC10 Model.TanRecord.
Import ListNotations.
Open Scope N_scope.

Lemma blk_val : blk = 32768. Proof. reflexivity. Qed.
Lemma hdr_val : hdr = 7. Proof. reflexivity. Qed.
Lemma rhdr_val : rhdr = 11. Proof. reflexivity. Qed.
Lemma ty_full_val : ty_full = 1. Proof. reflexivity. Qed.

Lemma takeN_app : forall {A} (a b : list A), takeN (nlen a) (a ++ b) = a.
Proof.
  intros. unfold takeN, nlen. rewrite Nnat.Nat2N.id.
  rewrite firstn_app, Nat.sub_diag, firstn_all. cbn. now rewrite app_nil_r.
Qed.
Lemma dropN_app : forall {A} (a b : list A), dropN (nlen a) (a ++ b) = b.
Proof.
  intros. unfold dropN, nlen. rewrite Nnat.Nat2N.id.
  rewrite skipn_app, Nat.sub_diag, skipn_all. reflexivity.
Qed.
Lemma nlen_app : forall {A} (a b : list A), nlen (a ++ b) = nlen a + nlen b.
Proof. intros. unfold nlen. rewrite app_length. lia. Qed.
Lemma nlen_takeN : forall {A} n (l : list A), n <= nlen l -> nlen (takeN n l) = n.
Proof. intros. unfold takeN, nlen in *. rewrite firstn_length. lia. Qed.
Lemma takeN_takeN : forall {A} a b (l : list A), a <= b -> takeN a (takeN b l) = takeN a l.
Proof.
  intros. unfold takeN. rewrite firstn_firstn. f_equal. lia.
Qed.
Lemma takeN_app_le : forall {A} n (a b : list A), n <= nlen a -> takeN n (a ++ b) = takeN n a.
Proof.
  intros. unfold takeN, nlen in *. rewrite firstn_app.
  replace (N.to_nat n - length a)%nat with 0%nat by lia. cbn. now rewrite app_nil_r.
Qed.

Section Tan.
Variable ck : bytes -> N.
Variable lognum : N.
Hypothesis ck_u32 : forall b, ck b < 2 ^ 32.

Definition header (ty : N) (p : bytes) : bytes := le 4 (ck (ty :: p)) ++ le 2 (nlen p) ++ [ty].

Lemma chunk_header : forall ty p, chunk ck ty p = header ty p ++ p.
Proof. intros. unfold chunk, header. now rewrite <- !app_assoc. Qed.

Lemma header_len : forall ty p, nlen (header ty p) = 7.
Proof. intros. unfold header, nlen. rewrite !app_length, !le_length. reflexivity. Qed.

(* the shape of a header: seven bytes that decode to checksum, length, type *)
Lemma header_shape : forall ty p, nlen p < 65536 ->
  exists a b c d e f,
    header ty p = [a; b; c; d; e; f; ty] /\
    le_dec [a; b; c; d] = ck (ty :: p) /\ le_dec [e; f] = nlen p.
Proof.
  intros ty p Hp. unfold header.
  pose proof (le_dec_le 4 (ck (ty :: p))) as H4. pose proof (le_dec_le 2 (nlen p)) as H2.
  assert (L4 : length (le 4 (ck (ty :: p))) = 4%nat) by apply le_length.
  assert (L2 : length (le 2 (nlen p)) = 2%nat) by apply le_length.
  destruct (le 4 (ck (ty :: p))) as [|a [|b [|c [|d [|]]]]]; try discriminate.
  destruct (le 2 (nlen p)) as [|e [|f [|]]]; try discriminate.
  exists a, b, c, d, e, f. split; [reflexivity|]. split.
  - apply H4. apply ck_u32.
  - apply H2. cbn. lia.
Qed.

(* reading one full chunk that lies inside the current block *)
Lemma next_chunk_full : forall fuel off p rest,
  off + hdr + nlen p <= blk ->
  next_chunk ck lognum (S fuel) true off (chunk ck ty_full p ++ rest)
  = ChOk p true ((off + hdr + nlen p) mod blk) rest.
Proof.
  intros fuel off p rest Hfit. rewrite blk_val, hdr_val in Hfit.
  assert (Hp : nlen p < 65536) by lia.
  destruct (header_shape ty_full p Hp) as (a & b & c & d & e & f & HS & HC & HL).
  rewrite chunk_header, HS. cbn [next_chunk].
  set (suf := ([a; b; c; d; e; f; ty_full] ++ p) ++ rest).
  assert (LS : nlen suf = 7 + nlen p + nlen rest).
  { unfold suf. rewrite !nlen_app. cbn. lia. }
  assert (R7 : hdr <=? N.min (blk - off) (nlen suf) = true).
  { rewrite blk_val, hdr_val. apply N.leb_le. lia. }
  rewrite R7.
  assert (T4 : takeN 4 suf = [a; b; c; d]) by reflexivity.
  assert (T2 : takeN 2 (dropN 4 suf) = [e; f]) by reflexivity.
  assert (T6 : nth 6 suf 0 = ty_full) by reflexivity.
  rewrite T4, T2, T6, HC, HL.
  replace (ty_full =? 0) with false by reflexivity. rewrite andb_false_r.
  replace ((c10_tan_recyclable_full_chunk <=? ty_full) && (ty_full <=? c10_tan_recyclable_last_chunk))
    with false by reflexivity.
  cbn [andb].
  assert (R : N.min (blk - off) (nlen suf) <? hdr + nlen p = false).
  { rewrite blk_val, hdr_val. apply N.ltb_ge. lia. }
  rewrite R.
  assert (TK : takeN (hdr + nlen p) suf = [a; b; c; d; e; f; ty_full] ++ p).
  { unfold suf. replace (hdr + nlen p) with (nlen ([a; b; c; d; e; f; ty_full] ++ p)).
    - apply takeN_app.
    - rewrite nlen_app. reflexivity. }
  rewrite TK.
  assert (D6 : dropN 6 ([a; b; c; d; e; f; ty_full] ++ p) = ty_full :: p) by reflexivity.
  rewrite D6, N.eqb_refl. cbn [negb].
  replace ((ty_full =? ty_full) || (ty_full =? ty_first)) with true by reflexivity.
  cbn [negb andb orb].
  assert (DK : dropN (hdr + nlen p) suf = rest).
  { unfold suf. replace (hdr + nlen p) with (nlen ([a; b; c; d; e; f; ty_full] ++ p)).
    - apply dropN_app.
    - rewrite nlen_app. reflexivity. }
  rewrite DK.
  assert (PK : takeN (nlen p) (dropN hdr suf) = p).
  { unfold suf. rewrite <- app_assoc. change (dropN hdr ([a; b; c; d; e; f; ty_full] ++ p ++ rest)) with (p ++ rest).
    apply takeN_app. }
  rewrite PK. reflexivity.
Qed.

(* ---- logs inside the first block, no splitting ---- *)

Fixpoint fits_from (pos : N) (rs : list bytes) : Prop :=
  match rs with
  | [] => pos <= blk
  | r :: t => pos + hdr + nlen r <= blk /\ fits_from (pos + hdr + nlen r) t
  end.
Definition fits (rs : list bytes) : Prop := fits_from 0 rs.

Lemma emit_full : forall fuel avail p, nlen p <= avail ->
  emit ck (S fuel) true avail p = chunk ck ty_full p.
Proof. intros. cbn [emit]. apply N.leb_le in H. now rewrite H. Qed.

Lemma write_record_fits : forall pos p, pos + hdr + nlen p <= blk ->
  write_record ck pos p = chunk ck ty_full p.
Proof.
  intros pos p H. rewrite blk_val, hdr_val in H. unfold write_record.
  assert (M : pos mod blk = pos) by (apply N.mod_small; rewrite blk_val; lia).
  rewrite M. unfold pad_len.
  assert (P : blk <? pos + hdr = false) by (apply N.ltb_ge; rewrite blk_val, hdr_val; lia).
  rewrite P. cbn [zeros N.to_nat repeat app]. rewrite N.add_0_r, M.
  apply emit_full. rewrite blk_val, hdr_val. lia.
Qed.

Lemma chunk_len : forall ty p, nlen (chunk ck ty p) = hdr + nlen p.
Proof. intros. rewrite chunk_header, nlen_app, header_len. reflexivity. Qed.

Fixpoint end_pos (pos : N) (rs : list bytes) : N :=
  match rs with [] => pos | r :: t => end_pos (pos + hdr + nlen r) t end.

Lemma frame_from_fits : forall rs pos, fits_from pos rs ->
  frame_from ck pos rs = concat (map (chunk ck ty_full) rs).
Proof.
  induction rs as [|r t IH]; intros pos H; cbn [frame_from map concat fits_from] in *; auto.
  destruct H as [H1 H2]. rewrite (write_record_fits pos r H1), chunk_len. f_equal.
  apply IH. now rewrite N.add_assoc.
Qed.

Lemma fits_from_le : forall rs pos, fits_from pos rs -> end_pos pos rs <= blk /\ pos <= end_pos pos rs.
Proof.
  induction rs as [|r t IH]; intros pos H; cbn [fits_from end_pos] in *.
  - split; lia.
  - destruct H as [H1 H2]. destruct (IH _ H2). split; auto. lia.
Qed.

Lemma read_record_full : forall off p rest,
  off + hdr + nlen p <= blk ->
  read_record ck lognum off (chunk ck ty_full p ++ rest)
  = RecOk p ((off + hdr + nlen p) mod blk) rest.
Proof.
  intros off p rest H. unfold read_record. rewrite (next_chunk_full _ off p rest H).
  reflexivity.
Qed.

Lemma replay_from_fits : forall rs k pos tail, fits_from pos rs -> pos < blk ->
  replay_from ck lognum (length rs + k) pos (concat (map (chunk ck ty_full) rs) ++ tail)
  = let (rs', v) := replay_from ck lognum k (end_pos pos rs mod blk) tail in (rs ++ rs', v).
Proof.
  induction rs as [|r t IH]; intros k pos tail H Hpos; cbn [fits_from end_pos map concat length] in *.
  - cbn [app plus]. rewrite N.mod_small by exact Hpos. destruct (replay_from ck lognum k pos tail); reflexivity.
  - destruct H as [H1 H2]. cbn [plus replay_from]. rewrite <- app_assoc.
    rewrite (read_record_full pos r _ H1).
    destruct (N.eq_dec (pos + hdr + nlen r) blk) as [E|NE].
    + (* the record ends exactly at the block end: nothing else fits *)
      destruct t as [|r2 t2].
      * cbn [map concat app length plus end_pos]. rewrite E.
        destruct (replay_from ck lognum k (blk mod blk) tail); reflexivity.
      * exfalso. cbn [fits_from] in H2. rewrite hdr_val in *. lia.
    + assert (L : pos + hdr + nlen r < blk) by lia.
      rewrite (N.mod_small _ _ L). rewrite (IH k _ tail H2 L).
      destruct (replay_from ck lognum k (end_pos (pos + hdr + nlen r) t mod blk) tail); reflexivity.
Qed.

Lemma replay_from_nil : forall k off, off < blk -> replay_from ck lognum (S k) off [] = ([], VEof).
Proof.
  intros k off H. cbn [replay_from]. unfold read_record. cbn [length next_chunk].
  replace (hdr <=? N.min (blk - off) (nlen (@nil N))) with false.
  2:{ symmetry. apply N.leb_gt. unfold nlen; cbn [length N.of_nat]. rewrite hdr_val. lia. }
  replace (blk - off <=? nlen (@nil N)) with false.
  2:{ symmetry. apply N.leb_gt. unfold nlen; cbn [length N.of_nat]. lia. }
  destruct (off =? 0); reflexivity.
Qed.

Lemma concat_chunks_len : forall rs, (length rs <= length (concat (map (chunk ck ty_full) rs)))%nat.
Proof.
  induction rs as [|r t IH]; cbn [map concat length]; [lia|].
  rewrite app_length. pose proof (chunk_len ty_full r) as L. unfold nlen in L. rewrite hdr_val in L. lia.
Qed.

(* replay (frame rs) = rs *)
Theorem tan_replay_roundtrip_fits : forall rs, fits rs ->
  replay ck lognum (frame ck rs) = (rs, VEof).
Proof.
  intros rs H. unfold replay, frame. rewrite (frame_from_fits rs 0 H).
  set (data := concat (map (chunk ck ty_full) rs)).
  pose proof (concat_chunks_len rs) as L. fold data in L.
  replace (S (length data)) with (length rs + S (length data - length rs))%nat by lia.
  rewrite <- (app_nil_r data) at 2. unfold data.
  rewrite (replay_from_fits rs _ 0 [] H) by (rewrite blk_val; lia).
  rewrite replay_from_nil.
  - now rewrite app_nil_r.
  - apply N.mod_lt. rewrite blk_val. lia.
Qed.

(* a log cut inside its last record: the records before it, and a verdict open() recovers from *)
Lemma read_record_torn : forall off p cut,
  off + hdr + nlen p <= blk -> cut < hdr + nlen p ->
  exists v, read_record ck lognum off (takeN cut (chunk ck ty_full p)) = RecStop v /\ recoverable v = true.
Proof.
  intros off p cut Hfit Hcut. rewrite blk_val, hdr_val in *.
  assert (Hp : nlen p < 65536) by lia.
  destruct (header_shape ty_full p Hp) as (a & b & c & d & e & f & HS & HC & HL).
  rewrite chunk_header, HS.
  set (full := [a; b; c; d; e; f; ty_full] ++ p).
  assert (LF : nlen full = 7 + nlen p) by (unfold full; rewrite nlen_app; reflexivity).
  assert (LT : nlen (takeN cut full) = cut) by (apply nlen_takeN; lia).
  unfold read_record.
  destruct (length (takeN cut full)) as [|fu] eqn:EL.
  - (* nothing of the record is there *)
    destruct (takeN cut full) as [|x l] eqn:ET; [|discriminate].
    exists VEof. split; [|reflexivity]. cbn [next_chunk].
    replace (hdr <=? N.min (blk - off) (nlen (@nil N))) with false.
    2:{ symmetry. apply N.leb_gt. unfold nlen; cbn [length N.of_nat]. rewrite blk_val, hdr_val. lia. }
    replace (blk - off <=? nlen (@nil N)) with false.
    2:{ symmetry. apply N.leb_gt. unfold nlen; cbn [length N.of_nat]. rewrite blk_val. lia. }
    destruct (off =? 0); reflexivity.
  - exists VInvalid. split; [|reflexivity]. cbn [next_chunk].
    destruct (N.lt_ge_cases cut 7) as [C|C].
    + (* the header is torn *)
      replace (hdr <=? N.min (blk - off) (nlen (takeN cut full))) with false.
      2:{ symmetry. apply N.leb_gt. rewrite LT, blk_val, hdr_val. lia. }
      replace (blk - off <=? nlen (takeN cut full)) with false.
      2:{ symmetry. apply N.leb_gt. rewrite LT, blk_val. lia. }
      destruct (takeN cut full) as [|x l]; [discriminate|reflexivity].
    + (* the header is complete, the payload is torn *)
      assert (TS : takeN cut full = [a; b; c; d; e; f; ty_full] ++ takeN (cut - 7) p).
      { unfold full, takeN. rewrite firstn_app. f_equal.
        - apply firstn_all2. cbn. lia.
        - f_equal. cbn [length]. lia. }
      replace (hdr <=? N.min (blk - off) (nlen (takeN cut full))) with true.
      2:{ symmetry. apply N.leb_le. rewrite LT, blk_val, hdr_val. lia. }
      rewrite TS.
      set (suf := [a; b; c; d; e; f; ty_full] ++ takeN (cut - 7) p).
      assert (T4 : takeN 4 suf = [a; b; c; d]) by reflexivity.
      assert (T2 : takeN 2 (dropN 4 suf) = [e; f]) by reflexivity.
      assert (T6 : nth 6 suf 0 = ty_full) by reflexivity.
      rewrite T4, T2, T6, HC, HL.
      replace (ty_full =? 0) with false by reflexivity. rewrite andb_false_r.
      replace ((c10_tan_recyclable_full_chunk <=? ty_full) && (ty_full <=? c10_tan_recyclable_last_chunk))
        with false by reflexivity.
      cbn [andb].
      replace (N.min (blk - off) (nlen suf) <? hdr + nlen p) with true; [reflexivity|].
      symmetry. apply N.ltb_lt. unfold suf. rewrite <- TS, LT, blk_val, hdr_val. lia.
Qed.

Theorem tan_replay_ignores_torn_tail_fits : forall rs r cut,
  fits (rs ++ [r]) -> cut < hdr + nlen r ->
  exists v, replay ck lognum (frame ck rs ++ takeN cut (chunk ck ty_full r)) = (rs, v) /\
            recoverable v = true.
Proof.
  intros rs r cut.
  assert (FS : forall pos, fits_from pos (rs ++ [r]) ->
                 fits_from pos rs /\ end_pos pos rs + hdr + nlen r <= blk).
  { induction rs as [|x t IH]; intros pos F; cbn [app fits_from end_pos] in *.
    - destruct F as [F1 F2]. split; [lia|exact F1].
    - destruct F as [F1 F2]. destruct (IH _ F2). auto. }
  intros H Hcut. destruct (FS 0 H) as [F1 F2].
  unfold replay, frame. rewrite (frame_from_fits rs 0 F1).
  set (data := concat (map (chunk ck ty_full) rs)).
  set (tail := takeN cut (chunk ck ty_full r)).
  pose proof (concat_chunks_len rs) as L. fold data in L.
  replace (S (length (data ++ tail))) with (length rs + S (length (data ++ tail) - length rs))%nat
    by (rewrite app_length; lia).
  unfold data. rewrite (replay_from_fits rs _ 0 tail F1) by (rewrite blk_val; lia).
  assert (EP : end_pos 0 rs mod blk = end_pos 0 rs).
  { apply N.mod_small. rewrite blk_val, hdr_val in *. lia. }
  rewrite EP. cbn [replay_from].
  destruct (read_record_torn (end_pos 0 rs) r cut F2 Hcut) as (v & E & R).
  unfold tail. rewrite E. exists v. split; auto. now rewrite app_nil_r.
Qed.

End Tan.

(* ---- fsync and error rules of tan's save path ---- *)
Lemma tan_batch_sync_any : forall needs, In true needs -> tan_batch_sync needs = true.
Proof.
  intros needs H. unfold tan_batch_sync.
  change c10_tanmux_batch_sync_accumulates with true. cbv iota.
  apply existsb_exists. exists true. split; auto.
Qed.

Lemma tan_seq_sync_each : forall needs, tan_seq_sync needs = needs.
Proof. intros. unfold tan_seq_sync. change c10_tan_seq_sync_each_update with true. reflexivity. Qed.

Lemma tan_rollover_error_fails : forall w, tan_write_result true w = false.
Proof.
  intros w. unfold tan_write_result. change c10_tan_rollover_error_propagates with true. reflexivity.
Qed.

(* ---- engine.go: a log store error stops the host (regenerated code shapes) ---- *)
Lemma engine_stops_on_store_error_proved :
  c10_process_steps_propagates_save_error = true /\
  c10_snapshotter_propagates_save_snapshots_error = true /\
  c10_engine_workers_panic_on_error = true.
Proof. repeat split; reflexivity. Qed.
