(* Lemmas about Model/Membership.v (C07, membership rules). *)
From Coq Require Import String.
From DB Require Import Base.Bytes Gen.GenC07 Model.Membership.
From Coq Require Import ZifyN ZifyNat ZifyBool.
Open Scope N_scope.

(* ------------------------------------------------------------------ *)
(* association lists                                                    *)

Lemma alookup_adelete k k' m :
  alookup k' (adelete k m) = if k =? k' then None else alookup k' m.
Proof.
  induction m as [|[k0 v] r IH]; cbn [adelete filter alookup fst].
  - destruct (k =? k'); reflexivity.
  - destruct (N.eqb_spec k0 k) as [->|Hne]; cbn [negb].
    + fold (adelete k r). rewrite IH. destruct (N.eqb_spec k k'); reflexivity.
    + cbn [alookup]. fold (adelete k r). rewrite IH.
      destruct (N.eqb_spec k0 k') as [->|]; [|reflexivity].
      destruct (N.eqb_spec k k'); [congruence|reflexivity].
Qed.

Lemma amem_adelete k k' m : amem k' (adelete k m) = negb (k =? k') && amem k' m.
Proof. unfold amem. rewrite alookup_adelete. destruct (k =? k'); reflexivity. Qed.

Lemma alookup_ainsert k v k' m :
  alookup k' (ainsert k v m) = if k =? k' then Some v else alookup k' m.
Proof.
  unfold ainsert. cbn [alookup]. destruct (N.eqb_spec k k'); [reflexivity|].
  rewrite alookup_adelete. destruct (N.eqb_spec k k'); [congruence|reflexivity].
Qed.

Lemma amem_ainsert k v k' m : amem k' (ainsert k v m) = (k =? k') || amem k' m.
Proof. unfold amem. rewrite alookup_ainsert. destruct (k =? k'); reflexivity. Qed.

Lemma rmem_radd k k' l : rmem k' (radd k l) = (k' =? k) || rmem k' l.
Proof.
  unfold radd. destruct (rmem k l) eqn:E.
  - destruct (N.eqb_spec k' k) as [->|]; [rewrite E|]; reflexivity.
  - reflexivity.
Qed.

Lemma In_adelete x k m : In x (adelete k m) <-> In x m /\ fst x <> k.
Proof.
  unfold adelete. rewrite filter_In. destruct (N.eqb_spec (fst x) k); cbn; intuition congruence.
Qed.

Lemma In_ainsert x k v m : In x (ainsert k v m) <-> x = (k, v) \/ (In x m /\ fst x <> k).
Proof. unfold ainsert. cbn [In]. rewrite In_adelete. intuition congruence. Qed.

Lemma alookup_In k v m : alookup k m = Some v -> In (k, v) m.
Proof.
  induction m as [|[k0 v0] r IH]; cbn; [discriminate|].
  destruct (N.eqb_spec k0 k) as [->|]; intros H; [inversion H; auto|auto].
Qed.

Lemma In_amem k v m : In (k, v) m -> amem k m = true.
Proof.
  unfold amem. induction m as [|[k0 v0] r IH]; cbn; [tauto|].
  intros [H|H].
  - inversion H; subst. rewrite N.eqb_refl. reflexivity.
  - destruct (k0 =? k); [reflexivity|auto].
Qed.

Lemma amem_false_notin k m : amem k m = false -> forall v, ~ In (k, v) m.
Proof. intros H v Hin. apply In_amem in Hin. congruence. Qed.

Lemma amem_false_adelete k m : amem k m = false -> adelete k m = m.
Proof.
  unfold amem. induction m as [|[k0 v0] r IH]; cbn; [reflexivity|].
  destruct (N.eqb_spec k0 k); cbn; [discriminate|]. intros H. f_equal. apply IH, H.
Qed.

Definition keys (m : amap) : list N := map fst m.
Definition nodup_keys (m : amap) : Prop := NoDup (keys m).

Lemma keys_adelete_In x k m : In x (keys (adelete k m)) <-> In x (keys m) /\ x <> k.
Proof.
  unfold keys. rewrite !in_map_iff. split.
  - intros ([a b] & <- & Hin). apply In_adelete in Hin. cbn in *. split; [|tauto].
    exists (a, b). tauto.
  - intros (([a b] & <- & Hin) & Hne). exists (a, b). split; [reflexivity|].
    apply In_adelete. tauto.
Qed.

Lemma nodup_keys_adelete k m : nodup_keys m -> nodup_keys (adelete k m).
Proof.
  unfold nodup_keys, keys. induction m as [|[k0 v0] r IH]; cbn; [auto|].
  intros H. inversion H as [|? ? Hnotin Hnd]; subst.
  destruct (N.eqb_spec k0 k); cbn; [auto|].
  constructor; [|auto].
  intros Hin. apply keys_adelete_In in Hin. tauto.
Qed.

Lemma nodup_keys_ainsert k v m : nodup_keys m -> nodup_keys (ainsert k v m).
Proof.
  intros H. unfold ainsert, nodup_keys, keys. cbn. constructor.
  - intros Hin. apply keys_adelete_In in Hin. tauto.
  - apply nodup_keys_adelete, H.
Qed.

Lemma amem_keys k m : amem k m = true <-> In k (keys m).
Proof.
  unfold amem, keys. induction m as [|[k0 v0] r IH]; cbn; [intuition discriminate|].
  destruct (N.eqb_spec k0 k); [intuition|]. rewrite IH. intuition.
Qed.

Lemma length_adelete_mem k m :
  nodup_keys m -> amem k m = true -> S (length (adelete k m)) = length m.
Proof.
  unfold nodup_keys, keys. induction m as [|[k0 v0] r IH]; cbn.
  - unfold amem; cbn; discriminate.
  - intros Hnd Hm. inversion Hnd as [|? ? Hnotin Hnd']; subst.
    destruct (N.eqb_spec k0 k) as [->|Hne]; cbn.
    + f_equal. fold (adelete k r). rewrite amem_false_adelete; [reflexivity|].
      destruct (amem k r) eqn:E; [|reflexivity]. apply amem_keys in E. tauto.
    + f_equal. apply IH; [exact Hnd'|].
      unfold amem in *. cbn in Hm. destruct (N.eqb_spec k0 k); [congruence|exact Hm].
Qed.

(* ------------------------------------------------------------------ *)
(* addresses                                                            *)

Lemma bytes_eqb_spec a b : bytes_eqb a b = true <-> a = b.
Proof.
  revert b. induction a as [|x a IH]; destruct b as [|y b]; cbn; try (intuition congruence).
  rewrite andb_true_iff, N.eqb_eq, IH. intuition congruence.
Qed.

Section WithNorm.
  Variable norm : addr -> addr.

  Lemma address_equal_spec a b : address_equal norm a b = true <-> norm a = norm b.
  Proof. unfold address_equal. apply bytes_eqb_spec. Qed.

  Lemma address_equal_refl a : address_equal norm a a = true.
  Proof. apply address_equal_spec. reflexivity. Qed.

  Lemma address_equal_sym a b : address_equal norm a b = address_equal norm b a.
  Proof.
    destruct (address_equal norm a b) eqn:E1, (address_equal norm b a) eqn:E2; try reflexivity.
    - apply address_equal_spec in E1. symmetry in E1. apply address_equal_spec in E1. congruence.
    - apply address_equal_spec in E2. symmetry in E2. apply address_equal_spec in E2. congruence.
  Qed.

  Lemma address_equal_trans a b c :
    address_equal norm a b = true -> address_equal norm b c = true -> address_equal norm a c = true.
  Proof. rewrite !address_equal_spec. congruence. Qed.

  Lemma address_equal_false_l a b c :
    address_equal norm a b = true -> address_equal norm a c = false -> address_equal norm b c = false.
  Proof.
    intros H1 H2. destruct (address_equal norm b c) eqn:E; [|reflexivity].
    rewrite (address_equal_trans _ _ _ H1 E) in H2. discriminate.
  Qed.

  Lemma addr_in_use_false a mp :
    addr_in_use norm a mp = false <-> forall k v, In (k, v) mp -> address_equal norm v a = false.
  Proof.
    unfold addr_in_use. induction mp as [|[k0 v0] r IH]; cbn.
    - intuition.
    - rewrite orb_false_iff, IH. split.
      + intros [H1 H2] k v [Heq|Hin]; [inversion Heq; subst; exact H1|eauto].
      + intros H. split; eauto.
  Qed.

  (* ---------------------------------------------------------------- *)
  (* config change types: the four values of the generated enum        *)

  Inductive cc_kind (t : Z) : Type :=
  | IsAddNode : t = cc_add_node -> cc_kind t
  | IsRemoveNode : t = cc_remove_node -> cc_kind t
  | IsAddNonVoting : t = cc_add_non_voting -> cc_kind t
  | IsAddWitness : t = cc_add_witness -> cc_kind t
  | IsUnknown : (t =? cc_add_node)%Z = false -> (t =? cc_remove_node)%Z = false ->
                (t =? cc_add_non_voting)%Z = false -> (t =? cc_add_witness)%Z = false -> cc_kind t.

  Lemma cc_kind_of t : cc_kind t.
  Proof.
    destruct (Z.eqb_spec t cc_add_node); [apply IsAddNode; assumption|].
    destruct (Z.eqb_spec t cc_remove_node); [apply IsRemoveNode; assumption|].
    destruct (Z.eqb_spec t cc_add_non_voting); [apply IsAddNonVoting; assumption|].
    destruct (Z.eqb_spec t cc_add_witness); [apply IsAddWitness; assumption|].
    apply IsUnknown; apply Z.eqb_neq; assumption.
  Qed.

  Lemma tests_add_node t : t = cc_add_node ->
    (t =? cc_add_node)%Z = true /\ (t =? cc_remove_node)%Z = false /\
    (t =? cc_add_non_voting)%Z = false /\ (t =? cc_add_witness)%Z = false.
  Proof. intros ->. vm_compute. auto. Qed.
  Lemma tests_remove_node t : t = cc_remove_node ->
    (t =? cc_add_node)%Z = false /\ (t =? cc_remove_node)%Z = true /\
    (t =? cc_add_non_voting)%Z = false /\ (t =? cc_add_witness)%Z = false.
  Proof. intros ->. vm_compute. auto. Qed.
  Lemma tests_add_non_voting t : t = cc_add_non_voting ->
    (t =? cc_add_node)%Z = false /\ (t =? cc_remove_node)%Z = false /\
    (t =? cc_add_non_voting)%Z = true /\ (t =? cc_add_witness)%Z = false.
  Proof. intros ->. vm_compute. auto. Qed.
  Lemma tests_add_witness t : t = cc_add_witness ->
    (t =? cc_add_node)%Z = false /\ (t =? cc_remove_node)%Z = false /\
    (t =? cc_add_non_voting)%Z = false /\ (t =? cc_add_witness)%Z = true.
  Proof. intros ->. vm_compute. auto. Qed.

  (* ---------------------------------------------------------------- *)
  (* what an accepted request looks like                               *)

  Definition fresh_id (m : membership) (id : N) : Prop :=
    amem id (m_addresses m) = false /\ amem id (m_nonvotings m) = false /\
    amem id (m_witnesses m) = false /\ rmem id (m_removed m) = false.
  Definition fresh_addr (m : membership) (a : addr) : Prop :=
    addr_in_use norm a (m_addresses m) = false /\ addr_in_use norm a (m_nonvotings m) = false /\
    addr_in_use norm a (m_witnesses m) = false.

  Inductive applied_shape (m : membership) (c : cc) (i : N) (m' : membership) : Prop :=
  | ShapeAddNode :
      cc_type c = cc_add_node -> fresh_id m (cc_replica c) -> fresh_addr m (cc_addr c) ->
      m' = mkM i (ainsert (cc_replica c) (cc_addr c) (m_addresses m)) (m_removed m)
               (m_nonvotings m) (m_witnesses m) ->
      applied_shape m c i m'
  | ShapePromote oa :
      cc_type c = cc_add_node ->
      amem (cc_replica c) (m_addresses m) = false ->
      alookup (cc_replica c) (m_nonvotings m) = Some oa ->
      address_equal norm oa (cc_addr c) = true ->
      amem (cc_replica c) (m_witnesses m) = false ->
      rmem (cc_replica c) (m_removed m) = false ->
      m' = mkM i (ainsert (cc_replica c) (cc_addr c) (m_addresses m)) (m_removed m)
               (adelete (cc_replica c) (m_nonvotings m)) (m_witnesses m) ->
      applied_shape m c i m'
  | ShapeAddNonVoting :
      cc_type c = cc_add_non_voting -> fresh_id m (cc_replica c) -> fresh_addr m (cc_addr c) ->
      m' = mkM i (m_addresses m) (m_removed m)
               (ainsert (cc_replica c) (cc_addr c) (m_nonvotings m)) (m_witnesses m) ->
      applied_shape m c i m'
  | ShapeAddWitness :
      cc_type c = cc_add_witness -> fresh_id m (cc_replica c) -> fresh_addr m (cc_addr c) ->
      m' = mkM i (m_addresses m) (m_removed m) (m_nonvotings m)
               (ainsert (cc_replica c) (cc_addr c) (m_witnesses m)) ->
      applied_shape m c i m'
  | ShapeRemove :
      cc_type c = cc_remove_node ->
      (alen (m_addresses m) = 1 -> amem (cc_replica c) (m_addresses m) = false) ->
      m' = mkM i (adelete (cc_replica c) (m_addresses m)) (radd (cc_replica c) (m_removed m))
               (adelete (cc_replica c) (m_nonvotings m)) (adelete (cc_replica c) (m_witnesses m)) ->
      applied_shape m c i m'.

  Lemma accepted_true ordered m c :
    accepted norm ordered m c = true ->
    is_up_to_date ordered m c = true /\
    is_add_removed_node m c = false /\
    is_add_existing_member norm m c = false /\
    is_add_node_as_non_voting m c = false /\
    is_add_node_as_witness m c = false /\
    is_add_witness_as_node m c = false /\
    is_add_witness_as_non_voting m c = false /\
    is_add_non_voting_as_witness m c = false /\
    is_delete_only_node m c = false /\
    is_invalid_non_voting_promotion norm m c = false.
  Proof.
    unfold accepted. rewrite !andb_true_iff, !negb_true_iff. tauto.
  Qed.

  Lemma amem_alookup_none k m : amem k m = false <-> alookup k m = None.
  Proof. unfold amem. destruct (alookup k m); intuition discriminate. Qed.

  Lemma handle_applied_inv ordered m c i m' :
    handle norm ordered m c i = Applied m' -> applied_shape m c i m'.
  Proof.
    unfold handle. destruct (accepted norm ordered m c) eqn:Hacc.
    2:{ destruct (reject_reason norm ordered m c); discriminate. }
    destruct (apply_cc m c i) as [m1|t] eqn:Happ; [|discriminate].
    intros H; inversion H; subst m1; clear H.
    apply accepted_true in Hacc.
    destruct Hacc as (_ & Hrem & Hex & Hnv & Hnw & Hwn & Hwnv & Hnvw & Hdel & Hinv).
    unfold is_add_removed_node, is_add_existing_member, is_promote_non_voting,
      is_add_node_as_non_voting, is_add_node_as_witness, is_add_witness_as_node,
      is_add_witness_as_non_voting, is_add_non_voting_as_witness, is_delete_only_node,
      is_invalid_non_voting_promotion, is_add_type in *.
    unfold apply_cc in Happ.
    destruct (cc_kind_of (cc_type c)) as [Ht|Ht|Ht|Ht|H1 H2 H3 H4].
    - (* AddNode *)
      destruct (tests_add_node _ Ht) as (E1 & E2 & E3 & E4).
      rewrite ?E1, ?E2, ?E3, ?E4 in *. cbn [andb orb negb] in *.
      destruct (amem (cc_replica c) (m_addresses m)) eqn:HA; [discriminate|].
      destruct (amem (cc_replica c) (m_witnesses m)) eqn:HW; [discriminate|].
      inversion Happ; subst m'; clear Happ.
      destruct (alookup (cc_replica c) (m_nonvotings m)) as [oa|] eqn:HN.
      + destruct (address_equal norm oa (cc_addr c)) eqn:HE; [|discriminate].
        eapply ShapePromote; eauto.
      + apply orb_false_iff in Hex. destruct Hex as [Hex Hex3].
        apply orb_false_iff in Hex. destruct Hex as [Hex1 Hex2].
        rewrite (amem_false_adelete (cc_replica c) (m_nonvotings m)) by (apply amem_alookup_none; exact HN).
        apply ShapeAddNode; auto.
        * repeat split; auto. apply amem_alookup_none; exact HN.
        * repeat split; auto.
    - (* RemoveNode *)
      destruct (tests_remove_node _ Ht) as (E1 & E2 & E3 & E4).
      rewrite ?E1, ?E2, ?E3, ?E4 in *. cbn [andb orb negb] in *.
      inversion Happ; subst m'; clear Happ.
      apply ShapeRemove; auto.
      intros Hlen. apply N.eqb_eq in Hlen. rewrite Hlen in Hdel. exact Hdel.
    - (* AddNonVoting *)
      destruct (tests_add_non_voting _ Ht) as (E1 & E2 & E3 & E4).
      rewrite ?E1, ?E2, ?E3, ?E4 in *. cbn [andb orb negb] in *.
      destruct (amem (cc_replica c) (m_addresses m)) eqn:HA; [discriminate|].
      inversion Happ; subst m'; clear Happ.
      destruct (amem (cc_replica c) (m_nonvotings m)) eqn:HN; [discriminate|].
      apply orb_false_iff in Hex. destruct Hex as [Hex Hex3].
      apply orb_false_iff in Hex. destruct Hex as [Hex1 Hex2].
      apply ShapeAddNonVoting; auto; repeat split; auto.
    - (* AddWitness *)
      destruct (tests_add_witness _ Ht) as (E1 & E2 & E3 & E4).
      rewrite ?E1, ?E2, ?E3, ?E4 in *. cbn [andb orb negb] in *.
      destruct (amem (cc_replica c) (m_addresses m)) eqn:HA; [discriminate|].
      destruct (amem (cc_replica c) (m_nonvotings m)) eqn:HN; [discriminate|].
      inversion Happ; subst m'; clear Happ.
      destruct (amem (cc_replica c) (m_witnesses m)) eqn:HW; [discriminate|].
      apply orb_false_iff in Hex. destruct Hex as [Hex Hex3].
      apply orb_false_iff in Hex. destruct Hex as [Hex1 Hex2].
      apply ShapeAddWitness; auto; repeat split; auto.
    - rewrite H1, H2, H3, H4 in Happ. discriminate.
  Qed.

  Lemma handle_applied_up_to_date ordered m c i m' :
    handle norm ordered m c i = Applied m' -> is_up_to_date ordered m c = true.
  Proof.
    unfold handle. destruct (accepted norm ordered m c) eqn:Hacc.
    - intros _. apply accepted_true in Hacc. tauto.
    - destruct (reject_reason norm ordered m c); discriminate.
  Qed.

  (* ---------------------------------------------------------------- *)
  (* step / run                                                         *)

  Lemma step_cases ordered m r :
    (exists m', step norm ordered m r = (m', VApplied) /\ handle norm ordered m (fst r) (snd r) = Applied m')
    \/ step norm ordered m r = (m, VRejected)
    \/ step norm ordered m r = (m, VPanic).
  Proof.
    unfold step. destruct (handle norm ordered m (fst r) (snd r)) eqn:H; eauto.
  Qed.

  Lemma run_invariant (P : membership -> Prop) ordered :
    (forall m r, P m -> P (fst (step norm ordered m r))) ->
    forall reqs m, P m -> P (fst (run norm ordered m reqs)).
  Proof.
    intros Hstep. induction reqs as [|r rest IH]; intros m Hm; cbn [run]; [exact Hm|].
    specialize (Hstep m r Hm).
    destruct (step norm ordered m r) as [m1 v] eqn:Hs. cbn [fst] in Hstep.
    destruct v.
    - specialize (IH m1 Hstep). destruct (run norm ordered m1 rest); exact IH.
    - specialize (IH m1 Hstep). destruct (run norm ordered m1 rest); exact IH.
    - exact Hstep.
  Qed.

  Lemma step_invariant (P : membership -> Prop) ordered :
    (forall m c i m', P m -> applied_shape m c i m' -> P m') ->
    forall m r, P m -> P (fst (step norm ordered m r)).
  Proof.
    intros Hshape m r Hm.
    destruct (step_cases ordered m r) as [(m' & Hs & Hh)|[Hs|Hs]]; rewrite Hs; cbn [fst]; auto.
    eapply Hshape; [exact Hm|]. eapply handle_applied_inv; exact Hh.
  Qed.

  Lemma shape_invariant_run (P : membership -> Prop) ordered :
    (forall m c i m', P m -> applied_shape m c i m' -> P m') ->
    forall reqs m, P m -> P (fst (run norm ordered m reqs)).
  Proof. intros H. apply run_invariant. apply step_invariant. exact H. Qed.

  (* ---------------------------------------------------------------- *)
  (* kinds are disjoint                                                 *)

  Definition kinds_disjoint_inv (m : membership) : Prop :=
    forall id,
      (amem id (m_addresses m) && amem id (m_nonvotings m) = false) /\
      (amem id (m_addresses m) && amem id (m_witnesses m) = false) /\
      (amem id (m_nonvotings m) && amem id (m_witnesses m) = false).

  Ltac unfresh H := destruct H as (?HfA & ?HfN & ?HfW & ?HfR).

  Ltac bool_crush :=
    repeat match goal with
           | |- context [?a =? ?b] => destruct (N.eqb_spec a b); subst
           end;
    cbn [andb orb negb] in *;
    repeat match goal with
           | H : ?x = _ |- context [?x] => rewrite H
           end;
    cbn [andb orb negb] in *;
    try reflexivity; try congruence;
    repeat match goal with
           | |- context [amem ?k ?m] => destruct (amem k m) eqn:?; cbn [andb orb negb] in *; try congruence
           | |- context [rmem ?k ?m] => destruct (rmem k m) eqn:?; cbn [andb orb negb] in *; try congruence
           end.

  Lemma kinds_disjoint_shape m c i m' :
    kinds_disjoint_inv m -> applied_shape m c i m' -> kinds_disjoint_inv m'.
  Proof.
    intros Hinv Hs id. specialize (Hinv id). destruct Hinv as (H1 & H2 & H3).
    destruct Hs as [Ht Hf Hfa ->|oa Ht HA HN HE HW HR ->|Ht Hf Hfa ->|Ht Hf Hfa ->|Ht Hd ->];
      cbn [m_addresses m_nonvotings m_witnesses];
      try unfresh Hf;
      rewrite ?amem_ainsert, ?amem_adelete.
    - repeat split; bool_crush.
    - assert (HN' : amem (cc_replica c) (m_nonvotings m) = true) by (unfold amem; rewrite HN; reflexivity).
      repeat split; bool_crush.
    - repeat split; bool_crush.
    - repeat split; bool_crush.
    - repeat split; bool_crush.
  Qed.

  Lemma kinds_disjoint_run ordered reqs m :
    kinds_disjoint_inv m -> kinds_disjoint_inv (fst (run norm ordered m reqs)).
  Proof. apply shape_invariant_run. exact kinds_disjoint_shape. Qed.
End WithNorm.
