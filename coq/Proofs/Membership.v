(* Lemmas about Model/Membership.v (C07, membership rules). *)
From DB Require Import Base.Bytes Gen.GenC07 Model.Membership.
From Coq Require Import ZifyN ZifyNat ZifyBool Permutation.
Open Scope N_scope.

(* ------------------------------------------------------------------ *)
(* association lists                                                    *)

Lemma alookup_adelete k k' m :
  alookup k' (adelete k m) = if k =? k' then None else alookup k' m.
Proof.
  induction m as [|[k0 v] r IH]; cbn [adelete filter alookup fst].
  - destruct (k =? k'); reflexivity.
  - destruct (N.eqb_spec k0 k) as [->|Hne]; cbn [negb].
    + fold (adelete k r). rewrite IH. destruct (N.eqb_spec k k'); reflexivity.
    + cbn [alookup]. fold (adelete k r). rewrite IH.
      destruct (N.eqb_spec k0 k') as [->|]; [|reflexivity].
      destruct (N.eqb_spec k k'); [congruence|reflexivity].
Qed.

Lemma amem_adelete k k' m : amem k' (adelete k m) = negb (k =? k') && amem k' m.
Proof. unfold amem. rewrite alookup_adelete. destruct (k =? k'); reflexivity. Qed.

Lemma alookup_ainsert k v k' m :
  alookup k' (ainsert k v m) = if k =? k' then Some v else alookup k' m.
Proof.
  unfold ainsert. cbn [alookup]. destruct (N.eqb_spec k k'); [reflexivity|].
  rewrite alookup_adelete. destruct (N.eqb_spec k k'); [congruence|reflexivity].
Qed.

Lemma amem_ainsert k v k' m : amem k' (ainsert k v m) = (k =? k') || amem k' m.
Proof. unfold amem. rewrite alookup_ainsert. destruct (k =? k'); reflexivity. Qed.

Lemma rmem_radd k k' l : rmem k' (radd k l) = (k' =? k) || rmem k' l.
Proof.
  unfold radd. destruct (rmem k l) eqn:E.
  - destruct (N.eqb_spec k' k) as [->|]; [rewrite E|]; reflexivity.
  - reflexivity.
Qed.

Lemma In_adelete x k m : In x (adelete k m) <-> In x m /\ fst x <> k.
Proof.
  unfold adelete. rewrite filter_In. destruct (N.eqb_spec (fst x) k); cbn; intuition congruence.
Qed.

Lemma In_ainsert x k v m : In x (ainsert k v m) <-> x = (k, v) \/ (In x m /\ fst x <> k).
Proof. unfold ainsert. cbn [In]. rewrite In_adelete. intuition congruence. Qed.

Lemma alookup_In k v m : alookup k m = Some v -> In (k, v) m.
Proof.
  induction m as [|[k0 v0] r IH]; cbn; [discriminate|].
  destruct (N.eqb_spec k0 k) as [->|]; intros H; [inversion H; auto|auto].
Qed.

Lemma In_amem k v m : In (k, v) m -> amem k m = true.
Proof.
  unfold amem. induction m as [|[k0 v0] r IH]; cbn; [tauto|].
  intros [H|H].
  - inversion H; subst. rewrite N.eqb_refl. reflexivity.
  - destruct (k0 =? k); [reflexivity|auto].
Qed.

Lemma amem_false_notin k m : amem k m = false -> forall v, ~ In (k, v) m.
Proof. intros H v Hin. apply In_amem in Hin. congruence. Qed.

Lemma amem_false_adelete k m : amem k m = false -> adelete k m = m.
Proof.
  unfold amem. induction m as [|[k0 v0] r IH]; cbn; [reflexivity|].
  destruct (N.eqb_spec k0 k); cbn; [discriminate|]. intros H. f_equal. apply IH, H.
Qed.

Definition keys (m : amap) : list N := map fst m.
Definition nodup_keys (m : amap) : Prop := NoDup (keys m).

Lemma keys_adelete_In x k m : In x (keys (adelete k m)) <-> In x (keys m) /\ x <> k.
Proof.
  unfold keys. rewrite !in_map_iff. split.
  - intros ([a b] & <- & Hin). apply In_adelete in Hin. cbn in *. split; [|tauto].
    exists (a, b). tauto.
  - intros (([a b] & <- & Hin) & Hne). exists (a, b). split; [reflexivity|].
    apply In_adelete. tauto.
Qed.

Lemma nodup_keys_adelete k m : nodup_keys m -> nodup_keys (adelete k m).
Proof.
  unfold nodup_keys, keys. induction m as [|[k0 v0] r IH]; cbn; [auto|].
  intros H. inversion H as [|? ? Hnotin Hnd]; subst.
  destruct (N.eqb_spec k0 k); cbn; [auto|].
  constructor; [|auto].
  intros Hin. apply keys_adelete_In in Hin. tauto.
Qed.

Lemma nodup_keys_ainsert k v m : nodup_keys m -> nodup_keys (ainsert k v m).
Proof.
  intros H. unfold ainsert, nodup_keys, keys. cbn. constructor.
  - intros Hin. apply keys_adelete_In in Hin. tauto.
  - apply nodup_keys_adelete, H.
Qed.

Lemma amem_keys k m : amem k m = true <-> In k (keys m).
Proof.
  unfold amem, keys. induction m as [|[k0 v0] r IH]; cbn; [intuition discriminate|].
  destruct (N.eqb_spec k0 k); [intuition|]. rewrite IH. intuition.
Qed.

Lemma length_adelete_mem k m :
  nodup_keys m -> amem k m = true -> S (length (adelete k m)) = length m.
Proof.
  unfold nodup_keys, keys. induction m as [|[k0 v0] r IH]; cbn.
  - unfold amem; cbn; discriminate.
  - intros Hnd Hm. inversion Hnd as [|? ? Hnotin Hnd']; subst.
    destruct (N.eqb_spec k0 k) as [->|Hne]; cbn.
    + f_equal. fold (adelete k r). rewrite amem_false_adelete; [reflexivity|].
      destruct (amem k r) eqn:E; [|reflexivity]. apply amem_keys in E. tauto.
    + f_equal. apply IH; [exact Hnd'|].
      unfold amem in *. cbn in Hm. destruct (N.eqb_spec k0 k); [congruence|exact Hm].
Qed.

(* ------------------------------------------------------------------ *)
(* addresses                                                            *)

Lemma bytes_eqb_spec a b : bytes_eqb a b = true <-> a = b.
Proof.
  revert b. induction a as [|x a IH]; destruct b as [|y b]; cbn; try (intuition congruence).
  rewrite andb_true_iff, N.eqb_eq, IH. intuition congruence.
Qed.

Section WithNorm.
  Variable norm : addr -> addr.

  Lemma address_equal_spec a b : address_equal norm a b = true <-> norm a = norm b.
  Proof. unfold address_equal. apply bytes_eqb_spec. Qed.

  Lemma address_equal_refl a : address_equal norm a a = true.
  Proof. apply address_equal_spec. reflexivity. Qed.

  Lemma address_equal_sym a b : address_equal norm a b = address_equal norm b a.
  Proof.
    destruct (address_equal norm a b) eqn:E1, (address_equal norm b a) eqn:E2; try reflexivity.
    - apply address_equal_spec in E1. symmetry in E1. apply address_equal_spec in E1. congruence.
    - apply address_equal_spec in E2. symmetry in E2. apply address_equal_spec in E2. congruence.
  Qed.

  Lemma address_equal_trans a b c :
    address_equal norm a b = true -> address_equal norm b c = true -> address_equal norm a c = true.
  Proof. rewrite !address_equal_spec. congruence. Qed.

  Lemma address_equal_false_l a b c :
    address_equal norm a b = true -> address_equal norm a c = false -> address_equal norm b c = false.
  Proof.
    intros H1 H2. destruct (address_equal norm b c) eqn:E; [|reflexivity].
    rewrite (address_equal_trans _ _ _ H1 E) in H2. discriminate.
  Qed.

  Lemma addr_in_use_false a mp :
    addr_in_use norm a mp = false <-> forall k v, In (k, v) mp -> address_equal norm v a = false.
  Proof.
    unfold addr_in_use. induction mp as [|[k0 v0] r IH]; cbn.
    - intuition.
    - rewrite orb_false_iff, IH. split.
      + intros [H1 H2] k v [Heq|Hin]; [inversion Heq; subst; exact H1|eauto].
      + intros H. split; eauto.
  Qed.

  (* ---------------------------------------------------------------- *)
  (* config change types: the four values of the generated enum        *)

  Inductive cc_kind (t : Z) : Type :=
  | IsAddNode : t = cc_add_node -> cc_kind t
  | IsRemoveNode : t = cc_remove_node -> cc_kind t
  | IsAddNonVoting : t = cc_add_non_voting -> cc_kind t
  | IsAddWitness : t = cc_add_witness -> cc_kind t
  | IsUnknown : (t =? cc_add_node)%Z = false -> (t =? cc_remove_node)%Z = false ->
                (t =? cc_add_non_voting)%Z = false -> (t =? cc_add_witness)%Z = false -> cc_kind t.

  Lemma cc_kind_of t : cc_kind t.
  Proof.
    destruct (Z.eqb_spec t cc_add_node); [apply IsAddNode; assumption|].
    destruct (Z.eqb_spec t cc_remove_node); [apply IsRemoveNode; assumption|].
    destruct (Z.eqb_spec t cc_add_non_voting); [apply IsAddNonVoting; assumption|].
    destruct (Z.eqb_spec t cc_add_witness); [apply IsAddWitness; assumption|].
    apply IsUnknown; apply Z.eqb_neq; assumption.
  Qed.

  Lemma tests_add_node t : t = cc_add_node ->
    (t =? cc_add_node)%Z = true /\ (t =? cc_remove_node)%Z = false /\
    (t =? cc_add_non_voting)%Z = false /\ (t =? cc_add_witness)%Z = false.
  Proof. intros ->. vm_compute. auto. Qed.
  Lemma tests_remove_node t : t = cc_remove_node ->
    (t =? cc_add_node)%Z = false /\ (t =? cc_remove_node)%Z = true /\
    (t =? cc_add_non_voting)%Z = false /\ (t =? cc_add_witness)%Z = false.
  Proof. intros ->. vm_compute. auto. Qed.
  Lemma tests_add_non_voting t : t = cc_add_non_voting ->
    (t =? cc_add_node)%Z = false /\ (t =? cc_remove_node)%Z = false /\
    (t =? cc_add_non_voting)%Z = true /\ (t =? cc_add_witness)%Z = false.
  Proof. intros ->. vm_compute. auto. Qed.
  Lemma tests_add_witness t : t = cc_add_witness ->
    (t =? cc_add_node)%Z = false /\ (t =? cc_remove_node)%Z = false /\
    (t =? cc_add_non_voting)%Z = false /\ (t =? cc_add_witness)%Z = true.
  Proof. intros ->. vm_compute. auto. Qed.

  (* ---------------------------------------------------------------- *)
  (* what an accepted request looks like                               *)

  Definition fresh_id (m : membership) (id : N) : Prop :=
    amem id (m_addresses m) = false /\ amem id (m_nonvotings m) = false /\
    amem id (m_witnesses m) = false /\ rmem id (m_removed m) = false.
  Definition fresh_addr (m : membership) (a : addr) : Prop :=
    addr_in_use norm a (m_addresses m) = false /\ addr_in_use norm a (m_nonvotings m) = false /\
    addr_in_use norm a (m_witnesses m) = false.

  Inductive applied_shape (m : membership) (c : cc) (i : N) (m' : membership) : Prop :=
  | ShapeAddNode :
      cc_type c = cc_add_node -> fresh_id m (cc_replica c) -> fresh_addr m (cc_addr c) ->
      m' = mkM i (ainsert (cc_replica c) (cc_addr c) (m_addresses m)) (m_removed m)
               (m_nonvotings m) (m_witnesses m) ->
      applied_shape m c i m'
  | ShapePromote oa :
      cc_type c = cc_add_node ->
      amem (cc_replica c) (m_addresses m) = false ->
      alookup (cc_replica c) (m_nonvotings m) = Some oa ->
      address_equal norm oa (cc_addr c) = true ->
      amem (cc_replica c) (m_witnesses m) = false ->
      rmem (cc_replica c) (m_removed m) = false ->
      m' = mkM i (ainsert (cc_replica c) (cc_addr c) (m_addresses m)) (m_removed m)
               (adelete (cc_replica c) (m_nonvotings m)) (m_witnesses m) ->
      applied_shape m c i m'
  | ShapeAddNonVoting :
      cc_type c = cc_add_non_voting -> fresh_id m (cc_replica c) -> fresh_addr m (cc_addr c) ->
      m' = mkM i (m_addresses m) (m_removed m)
               (ainsert (cc_replica c) (cc_addr c) (m_nonvotings m)) (m_witnesses m) ->
      applied_shape m c i m'
  | ShapeAddWitness :
      cc_type c = cc_add_witness -> fresh_id m (cc_replica c) -> fresh_addr m (cc_addr c) ->
      m' = mkM i (m_addresses m) (m_removed m) (m_nonvotings m)
               (ainsert (cc_replica c) (cc_addr c) (m_witnesses m)) ->
      applied_shape m c i m'
  | ShapeRemove :
      cc_type c = cc_remove_node ->
      (alen (m_addresses m) = 1 -> amem (cc_replica c) (m_addresses m) = false) ->
      m' = mkM i (adelete (cc_replica c) (m_addresses m)) (radd (cc_replica c) (m_removed m))
               (adelete (cc_replica c) (m_nonvotings m)) (adelete (cc_replica c) (m_witnesses m)) ->
      applied_shape m c i m'.

  Lemma accepted_true ordered m c :
    accepted norm ordered m c = true ->
    is_up_to_date ordered m c = true /\
    is_add_removed_node m c = false /\
    is_add_existing_member norm m c = false /\
    is_add_node_as_non_voting m c = false /\
    is_add_node_as_witness m c = false /\
    is_add_witness_as_node m c = false /\
    is_add_witness_as_non_voting m c = false /\
    is_add_non_voting_as_witness m c = false /\
    is_delete_only_node m c = false /\
    is_invalid_non_voting_promotion norm m c = false.
  Proof.
    unfold accepted. rewrite !andb_true_iff, !negb_true_iff. tauto.
  Qed.

  Lemma amem_alookup_none k m : amem k m = false <-> alookup k m = None.
  Proof. unfold amem. destruct (alookup k m); intuition discriminate. Qed.

  Lemma handle_applied_inv ordered m c i m' :
    handle norm ordered m c i = Applied m' -> applied_shape m c i m'.
  Proof.
    unfold handle. destruct (accepted norm ordered m c) eqn:Hacc.
    2:{ destruct (reject_reason norm ordered m c); discriminate. }
    destruct (apply_cc m c i) as [m1|t] eqn:Happ; [|discriminate].
    intros H; inversion H; subst m1; clear H.
    apply accepted_true in Hacc.
    destruct Hacc as (_ & Hrem & Hex & Hnv & Hnw & Hwn & Hwnv & Hnvw & Hdel & Hinv).
    unfold is_add_removed_node, is_add_existing_member, is_promote_non_voting,
      is_add_node_as_non_voting, is_add_node_as_witness, is_add_witness_as_node,
      is_add_witness_as_non_voting, is_add_non_voting_as_witness, is_delete_only_node,
      is_invalid_non_voting_promotion, is_add_type in *.
    unfold apply_cc in Happ.
    destruct (cc_kind_of (cc_type c)) as [Ht|Ht|Ht|Ht|H1 H2 H3 H4].
    - (* AddNode *)
      destruct (tests_add_node _ Ht) as (E1 & E2 & E3 & E4).
      rewrite ?E1, ?E2, ?E3, ?E4 in *. cbn [andb orb negb] in *.
      destruct (amem (cc_replica c) (m_addresses m)) eqn:HA; [discriminate|].
      destruct (amem (cc_replica c) (m_witnesses m)) eqn:HW; [discriminate|].
      inversion Happ; subst m'; clear Happ.
      destruct (alookup (cc_replica c) (m_nonvotings m)) as [oa|] eqn:HN.
      + destruct (address_equal norm oa (cc_addr c)) eqn:HE; [|discriminate].
        eapply ShapePromote; eauto.
      + apply orb_false_iff in Hex. destruct Hex as [Hex Hex3].
        apply orb_false_iff in Hex. destruct Hex as [Hex1 Hex2].
        rewrite (amem_false_adelete (cc_replica c) (m_nonvotings m)) by (apply amem_alookup_none; exact HN).
        apply ShapeAddNode; auto.
        * repeat split; auto. apply amem_alookup_none; exact HN.
        * repeat split; auto.
    - (* RemoveNode *)
      destruct (tests_remove_node _ Ht) as (E1 & E2 & E3 & E4).
      rewrite ?E1, ?E2, ?E3, ?E4 in *. cbn [andb orb negb] in *.
      inversion Happ; subst m'; clear Happ.
      apply ShapeRemove; auto.
      intros Hlen. apply N.eqb_eq in Hlen. rewrite Hlen in Hdel. exact Hdel.
    - (* AddNonVoting *)
      destruct (tests_add_non_voting _ Ht) as (E1 & E2 & E3 & E4).
      rewrite ?E1, ?E2, ?E3, ?E4 in *. cbn [andb orb negb] in *.
      destruct (amem (cc_replica c) (m_addresses m)) eqn:HA; [discriminate|].
      inversion Happ; subst m'; clear Happ.
      destruct (amem (cc_replica c) (m_nonvotings m)) eqn:HN; [discriminate|].
      apply orb_false_iff in Hex. destruct Hex as [Hex Hex3].
      apply orb_false_iff in Hex. destruct Hex as [Hex1 Hex2].
      apply ShapeAddNonVoting; auto; repeat split; auto.
    - (* AddWitness *)
      destruct (tests_add_witness _ Ht) as (E1 & E2 & E3 & E4).
      rewrite ?E1, ?E2, ?E3, ?E4 in *. cbn [andb orb negb] in *.
      destruct (amem (cc_replica c) (m_addresses m)) eqn:HA; [discriminate|].
      destruct (amem (cc_replica c) (m_nonvotings m)) eqn:HN; [discriminate|].
      inversion Happ; subst m'; clear Happ.
      destruct (amem (cc_replica c) (m_witnesses m)) eqn:HW; [discriminate|].
      apply orb_false_iff in Hex. destruct Hex as [Hex Hex3].
      apply orb_false_iff in Hex. destruct Hex as [Hex1 Hex2].
      apply ShapeAddWitness; auto; repeat split; auto.
    - rewrite H1, H2, H3, H4 in Happ. discriminate.
  Qed.

  Lemma handle_applied_up_to_date ordered m c i m' :
    handle norm ordered m c i = Applied m' -> is_up_to_date ordered m c = true.
  Proof.
    unfold handle. destruct (accepted norm ordered m c) eqn:Hacc.
    - intros _. apply accepted_true in Hacc. tauto.
    - destruct (reject_reason norm ordered m c); discriminate.
  Qed.

  (* ---------------------------------------------------------------- *)
  (* step / run                                                         *)

  Lemma step_cases ordered m r :
    (exists m', step norm ordered m r = (m', VApplied) /\ handle norm ordered m (fst r) (snd r) = Applied m')
    \/ step norm ordered m r = (m, VRejected)
    \/ step norm ordered m r = (m, VPanic).
  Proof.
    unfold step. destruct (handle norm ordered m (fst r) (snd r)) eqn:H; eauto.
  Qed.

  Lemma run_invariant (P : membership -> Prop) ordered :
    (forall m r, P m -> P (fst (step norm ordered m r))) ->
    forall reqs m, P m -> P (fst (run norm ordered m reqs)).
  Proof.
    intros Hstep. induction reqs as [|r rest IH]; intros m Hm; cbn [run]; [exact Hm|].
    specialize (Hstep m r Hm).
    destruct (step norm ordered m r) as [m1 v] eqn:Hs. cbn [fst] in Hstep.
    destruct v.
    - specialize (IH m1 Hstep). destruct (run norm ordered m1 rest); exact IH.
    - specialize (IH m1 Hstep). destruct (run norm ordered m1 rest); exact IH.
    - exact Hstep.
  Qed.

  Lemma step_invariant (P : membership -> Prop) ordered :
    (forall m c i m', P m -> applied_shape m c i m' -> P m') ->
    forall m r, P m -> P (fst (step norm ordered m r)).
  Proof.
    intros Hshape m r Hm.
    destruct (step_cases ordered m r) as [(m' & Hs & Hh)|[Hs|Hs]]; rewrite Hs; cbn [fst]; auto.
    eapply Hshape; [exact Hm|]. eapply handle_applied_inv; exact Hh.
  Qed.

  Lemma shape_invariant_run (P : membership -> Prop) ordered :
    (forall m c i m', P m -> applied_shape m c i m' -> P m') ->
    forall reqs m, P m -> P (fst (run norm ordered m reqs)).
  Proof. intros H. apply run_invariant. apply step_invariant. exact H. Qed.

  (* ---------------------------------------------------------------- *)
  (* kinds are disjoint                                                 *)

  Definition kinds_disjoint_inv (m : membership) : Prop :=
    forall id,
      (amem id (m_addresses m) && amem id (m_nonvotings m) = false) /\
      (amem id (m_addresses m) && amem id (m_witnesses m) = false) /\
      (amem id (m_nonvotings m) && amem id (m_witnesses m) = false).

  Ltac unfresh H := destruct H as (?HfA & ?HfN & ?HfW & ?HfR).

  Ltac bool_crush :=
    repeat match goal with
           | |- context [?a =? ?b] => destruct (N.eqb_spec a b); subst
           end;
    cbn [andb orb negb] in *;
    repeat match goal with
           | H : ?x = _ |- context [?x] => rewrite H
           end;
    cbn [andb orb negb] in *;
    try reflexivity; try congruence;
    repeat match goal with
           | |- context [amem ?k ?m] => destruct (amem k m) eqn:?; cbn [andb orb negb] in *; try congruence
           | |- context [rmem ?k ?m] => destruct (rmem k m) eqn:?; cbn [andb orb negb] in *; try congruence
           end.

  Lemma kinds_disjoint_shape m c i m' :
    kinds_disjoint_inv m -> applied_shape m c i m' -> kinds_disjoint_inv m'.
  Proof.
    intros Hinv Hs id. specialize (Hinv id). destruct Hinv as (H1 & H2 & H3).
    destruct Hs as [Ht Hf Hfa ->|oa Ht HA HN HE HW HR ->|Ht Hf Hfa ->|Ht Hf Hfa ->|Ht Hd ->];
      cbn [m_addresses m_nonvotings m_witnesses];
      try unfresh Hf;
      rewrite ?amem_ainsert, ?amem_adelete.
    - repeat split; bool_crush.
    - assert (HN' : amem (cc_replica c) (m_nonvotings m) = true) by (unfold amem; rewrite HN; reflexivity).
      repeat split; bool_crush.
    - repeat split; bool_crush.
    - repeat split; bool_crush.
    - repeat split; bool_crush.
  Qed.

  Lemma kinds_disjoint_run ordered reqs m :
    kinds_disjoint_inv m -> kinds_disjoint_inv (fst (run norm ordered m reqs)).
  Proof. apply shape_invariant_run. exact kinds_disjoint_shape. Qed.

  (* ---------------------------------------------------------------- *)
  (* removed ids                                                        *)

  Definition removed_disjoint_inv (m : membership) : Prop :=
    forall id, rmem id (m_removed m)
               && (amem id (m_addresses m) || amem id (m_nonvotings m) || amem id (m_witnesses m)) = false.

  Lemma removed_disjoint_shape m c i m' :
    removed_disjoint_inv m -> applied_shape m c i m' -> removed_disjoint_inv m'.
  Proof.
    intros Hinv Hs id. specialize (Hinv id).
    destruct Hs as [Ht Hf Hfa ->|oa Ht HA HN HE HW HR ->|Ht Hf Hfa ->|Ht Hf Hfa ->|Ht Hd ->];
      cbn [m_addresses m_nonvotings m_witnesses m_removed];
      try unfresh Hf;
      rewrite ?amem_ainsert, ?amem_adelete, ?rmem_radd.
    - bool_crush.
    - bool_crush.
    - bool_crush.
    - bool_crush.
    - revert Hinv. bool_crush.
  Qed.

  Lemma removed_monotone_shape m c i m' id :
    applied_shape m c i m' -> rmem id (m_removed m) = true -> rmem id (m_removed m') = true.
  Proof.
    intros Hs H.
    destruct Hs as [Ht Hf Hfa ->|oa Ht HA HN HE HW HR ->|Ht Hf Hfa ->|Ht Hf Hfa ->|Ht Hd ->];
      cbn [m_removed]; auto.
    rewrite rmem_radd, H. apply orb_true_r.
  Qed.

  Lemma kind_of_none m id :
    kind_of m id = None <->
    amem id (m_addresses m) = false /\ amem id (m_nonvotings m) = false /\ amem id (m_witnesses m) = false.
  Proof.
    unfold kind_of.
    destruct (amem id (m_addresses m)), (amem id (m_nonvotings m)), (amem id (m_witnesses m));
      intuition discriminate.
  Qed.

  Lemma removed_disjoint_kind m id :
    removed_disjoint_inv m -> rmem id (m_removed m) = true -> kind_of m id = None.
  Proof.
    intros Hinv H. specialize (Hinv id). rewrite H in Hinv. cbn in Hinv.
    apply kind_of_none. apply orb_false_iff in Hinv. destruct Hinv as [Hinv ?].
    apply orb_false_iff in Hinv. tauto.
  Qed.

  Lemma removed_disjoint_and_permanent_proved ordered reqs m :
    removed_disjoint_inv m ->
    removed_disjoint_inv (fst (run norm ordered m reqs)) /\
    forall id, rmem id (m_removed m) = true ->
               rmem id (m_removed (fst (run norm ordered m reqs))) = true /\
               kind_of (fst (run norm ordered m reqs)) id = None.
  Proof.
    intros Hinv.
    assert (Hfin : removed_disjoint_inv (fst (run norm ordered m reqs))).
    { revert m Hinv. apply shape_invariant_run. exact removed_disjoint_shape. }
    split; [exact Hfin|]. intros id Hid.
    assert (Hr : rmem id (m_removed (fst (run norm ordered m reqs))) = true).
    { clear Hinv Hfin. revert m Hid.
      apply (shape_invariant_run (fun m => rmem id (m_removed m) = true)).
      intros m0 c i m' H Hs. eapply removed_monotone_shape; eauto. }
    split; [exact Hr|]. apply removed_disjoint_kind; assumption.
  Qed.

  (* the reject branch always finds a reason *)
  Lemma reject_reason_some ordered m c :
    accepted norm ordered m c = false -> exists r, reject_reason norm ordered m c = Some r.
  Proof.
    unfold accepted, reject_reason.
    destruct (is_up_to_date ordered m c); cbn [negb andb]; [|eauto].
    destruct (is_add_removed_node m c); cbn [negb andb]; [eauto|].
    destruct (is_add_existing_member norm m c); cbn [negb andb]; [eauto|].
    destruct (is_add_node_as_non_voting m c); cbn [negb andb]; [eauto|].
    destruct (is_add_node_as_witness m c); cbn [negb andb]; [eauto|].
    destruct (is_add_witness_as_node m c); cbn [negb andb]; [eauto|].
    destruct (is_add_witness_as_non_voting m c); cbn [negb andb]; [eauto|].
    destruct (is_add_non_voting_as_witness m c); cbn [negb andb]; [eauto|].
    destruct (is_delete_only_node m c); cbn [negb andb]; [eauto|].
    destruct (is_invalid_non_voting_promotion norm m c); cbn [negb andb]; [eauto|].
    discriminate.
  Qed.

  Lemma not_accepted_rejected ordered m c i :
    accepted norm ordered m c = false -> step norm ordered m (c, i) = (m, VRejected).
  Proof.
    intros H. unfold step, handle. cbn [fst snd]. rewrite H.
    destruct (reject_reason_some _ _ _ H) as [r ->]. reflexivity.
  Qed.

  Lemma accepted_false_by ordered m c :
    is_up_to_date ordered m c = false \/ is_add_removed_node m c = true \/
    is_add_existing_member norm m c = true \/ is_add_node_as_non_voting m c = true \/
    is_add_node_as_witness m c = true \/ is_add_witness_as_node m c = true \/
    is_add_witness_as_non_voting m c = true \/ is_add_non_voting_as_witness m c = true \/
    is_delete_only_node m c = true \/ is_invalid_non_voting_promotion norm m c = true ->
    accepted norm ordered m c = false.
  Proof.
    intros H. destruct (accepted norm ordered m c) eqn:E; [|reflexivity].
    apply accepted_true in E.
    destruct E as (? & ? & ? & ? & ? & ? & ? & ? & ? & ?).
    repeat (destruct H as [H|H]; [congruence|]). congruence.
  Qed.

  Lemma removed_id_add_rejected_proved ordered m c i :
    rmem (cc_replica c) (m_removed m) = true -> is_add_type (cc_type c) = true ->
    step norm ordered m (c, i) = (m, VRejected).
  Proof.
    intros H Ht. apply not_accepted_rejected. apply accepted_false_by.
    right; left. unfold is_add_removed_node. rewrite Ht. exact H.
  Qed.

  (* ---------------------------------------------------------------- *)
  (* the last voting member                                             *)

  Definition voters_inv (m : membership) : Prop :=
    nodup_keys (m_addresses m) /\ m_addresses m <> [].

  Lemma voters_shape m c i m' : voters_inv m -> applied_shape m c i m' -> voters_inv m'.
  Proof.
    intros [Hnd Hne] Hs.
    destruct Hs as [Ht Hf Hfa ->|oa Ht HA HN HE HW HR ->|Ht Hf Hfa ->|Ht Hf Hfa ->|Ht Hd ->];
      unfold voters_inv; cbn [m_addresses].
    - split; [apply nodup_keys_ainsert, Hnd|unfold ainsert; discriminate].
    - split; [apply nodup_keys_ainsert, Hnd|unfold ainsert; discriminate].
    - auto.
    - auto.
    - split; [apply nodup_keys_adelete, Hnd|].
      destruct (amem (cc_replica c) (m_addresses m)) eqn:E.
      + pose proof (length_adelete_mem _ _ Hnd E) as Hlen.
        assert (Hl1 : alen (m_addresses m) <> 1) by (intros H1; specialize (Hd H1); congruence).
        unfold alen, nlen in Hl1.
        destruct (adelete (cc_replica c) (m_addresses m)); [|discriminate].
        cbn in Hlen. rewrite <- Hlen in Hl1. cbn in Hl1. congruence.
      + rewrite amem_false_adelete by exact E. exact Hne.
  Qed.

  Lemma last_voter_not_removable_proved ordered reqs m :
    voters_inv m -> voters_inv (fst (run norm ordered m reqs)).
  Proof. apply shape_invariant_run. exact voters_shape. Qed.

  Lemma remove_last_voter_rejected_proved ordered m c i :
    alen (m_addresses m) = 1 -> amem (cc_replica c) (m_addresses m) = true ->
    cc_type c = cc_remove_node ->
    step norm ordered m (c, i) = (m, VRejected).
  Proof.
    intros Hl Hm Ht. apply not_accepted_rejected. apply accepted_false_by.
    do 8 right. left. unfold is_delete_only_node.
    destruct (tests_remove_node _ Ht) as (_ & -> & _ & _).
    rewrite Hl. cbn. exact Hm.
  Qed.

  (* ---------------------------------------------------------------- *)
  (* nodup of all three maps (the Go maps have unique keys by construction) *)

  Definition nodup_inv (m : membership) : Prop :=
    nodup_keys (m_addresses m) /\ nodup_keys (m_nonvotings m) /\ nodup_keys (m_witnesses m).

  Lemma nodup_shape m c i m' : nodup_inv m -> applied_shape m c i m' -> nodup_inv m'.
  Proof.
    intros (HA & HN & HW) Hs.
    destruct Hs as [Ht Hf Hfa ->|oa Ht HA' HN' HE HW' HR ->|Ht Hf Hfa ->|Ht Hf Hfa ->|Ht Hd ->];
      unfold nodup_inv; cbn [m_addresses m_nonvotings m_witnesses];
      repeat split; auto using nodup_keys_ainsert, nodup_keys_adelete.
  Qed.

  Lemma nodup_run ordered reqs m : nodup_inv m -> nodup_inv (fst (run norm ordered m reqs)).
  Proof. apply shape_invariant_run. exact nodup_shape. Qed.

  (* ---------------------------------------------------------------- *)
  (* ConfigChangeId                                                     *)

  Lemma shape_ccid m c i m' : applied_shape m c i m' -> m_ccid m' = i.
  Proof. intros [? ? ? ->|? ? ? ? ? ? ? ->|? ? ? ->|? ? ? ->|? ? ->]; reflexivity. Qed.

  (* index of the last applied request, [d] when there is none *)
  Fixpoint last_applied (d : N) (reqs : list req) (vs : list verdict) : N :=
    match reqs, vs with
    | r :: reqs', v :: vs' =>
        last_applied (match v with VApplied => snd r | _ => d end) reqs' vs'
    | _, _ => d
    end.

  Lemma ccid_run ordered reqs : forall m,
    m_ccid (fst (run norm ordered m reqs)) =
    last_applied (m_ccid m) reqs (snd (run norm ordered m reqs)).
  Proof.
    induction reqs as [|r rest IH]; intros m; cbn [run]; [reflexivity|].
    destruct (step_cases ordered m r) as [(m' & Hs & Hh)|[Hs|Hs]]; rewrite Hs.
    - specialize (IH m'). destruct (run norm ordered m' rest) as [m2 vs]. cbn [fst snd last_applied] in *.
      rewrite IH. apply handle_applied_inv, shape_ccid in Hh. rewrite Hh. reflexivity.
    - specialize (IH m). destruct (run norm ordered m rest) as [m2 vs]. cbn [fst snd last_applied] in *.
      exact IH.
    - cbn. destruct rest; reflexivity.
  Qed.

  (* ---------------------------------------------------------------- *)
  (* ordered config change                                              *)

  Lemma ordered_stale_id_rejected_proved m c i :
    cc_init c = false -> cc_ccid c <> m_ccid m ->
    step norm true m (c, i) = (m, VRejected).
  Proof.
    intros Hi Hne. apply not_accepted_rejected. apply accepted_false_by. left.
    unfold is_up_to_date. rewrite Hi. cbn.
    destruct (N.eqb_spec (m_ccid m) (cc_ccid c)); congruence.
  Qed.

  (* ---------------------------------------------------------------- *)
  (* rejected requests change nothing; panics                           *)

  Lemma step_not_applied_same ordered m r m' v :
    step norm ordered m r = (m', v) -> v <> VApplied -> m' = m.
  Proof.
    intros Hs Hv. destruct (step_cases ordered m r) as [(m1 & Hs1 & _)|[Hs1|Hs1]];
      rewrite Hs1 in Hs; inversion Hs; subst; congruence.
  Qed.

  Lemma handle_panics_only_unknown_type ordered m c i t :
    handle norm ordered m c i = Panicked t ->
    t = panic_unknown_type /\ is_up_to_date ordered m c = true /\
    (cc_type c =? cc_add_node)%Z = false /\ (cc_type c =? cc_remove_node)%Z = false /\
    (cc_type c =? cc_add_non_voting)%Z = false /\ (cc_type c =? cc_add_witness)%Z = false.
  Proof.
    unfold handle. destruct (accepted norm ordered m c) eqn:Hacc.
    2:{ destruct (reject_reason_some _ _ _ Hacc) as [r ->]. discriminate. }
    destruct (apply_cc m c i) as [m1|t1] eqn:Happ; [discriminate|].
    intros H; inversion H; subst t1; clear H.
    apply accepted_true in Hacc.
    destruct Hacc as (Hup & Hrem & Hex & Hnv & Hnw & Hwn & Hwnv & Hnvw & Hdel & Hinv).
    unfold is_add_node_as_non_voting, is_add_node_as_witness, is_add_witness_as_node,
      is_add_witness_as_non_voting, is_add_non_voting_as_witness in *.
    unfold apply_cc in Happ.
    destruct (cc_kind_of (cc_type c)) as [Ht|Ht|Ht|Ht|H1 H2 H3 H4].
    - destruct (tests_add_node _ Ht) as (E1 & E2 & E3 & E4).
      rewrite ?E1, ?E2, ?E3, ?E4 in *. rewrite Hwn in Happ. discriminate.
    - destruct (tests_remove_node _ Ht) as (E1 & E2 & E3 & E4).
      rewrite ?E1, ?E2, ?E3, ?E4 in *. discriminate.
    - destruct (tests_add_non_voting _ Ht) as (E1 & E2 & E3 & E4).
      rewrite ?E1, ?E2, ?E3, ?E4 in *. rewrite Hnv in Happ. discriminate.
    - destruct (tests_add_witness _ Ht) as (E1 & E2 & E3 & E4).
      rewrite ?E1, ?E2, ?E3, ?E4 in *. rewrite Hnw, Hnvw in Happ. discriminate.
    - rewrite H1, H2, H3, H4 in Happ. inversion Happ. repeat split; assumption.
  Qed.

  Definition valid_type (t : Z) : Prop :=
    t = cc_add_node \/ t = cc_remove_node \/ t = cc_add_non_voting \/ t = cc_add_witness.

  Lemma run_no_panic ordered reqs : forall m,
    Forall (fun r : req => valid_type (cc_type (fst r))) reqs ->
    ~ In VPanic (snd (run norm ordered m reqs)) /\
    length (snd (run norm ordered m reqs)) = length reqs.
  Proof.
    induction reqs as [|r rest IH]; intros m Hv; cbn [run]; [cbn; auto|].
    inversion Hv as [|? ? Hr Hrest]; subst.
    destruct (step_cases ordered m r) as [(m' & Hs & Hh)|[Hs|Hs]]; rewrite Hs.
    - destruct (IH m' Hrest) as [IH1 IH2]. destruct (run norm ordered m' rest) as [m2 vs].
      cbn [snd In length] in *. split; [intros [H|H]; [discriminate|tauto]|congruence].
    - destruct (IH m Hrest) as [IH1 IH2]. destruct (run norm ordered m rest) as [m2 vs].
      cbn [snd In length] in *. split; [intros [H|H]; [discriminate|tauto]|congruence].
    - exfalso. unfold step in Hs.
      destruct (handle norm ordered m (fst r) (snd r)) eqn:Hh; try discriminate.
      apply handle_panics_only_unknown_type in Hh.
      destruct Hh as (_ & _ & H1 & H2 & H3 & H4).
      destruct Hr as [Hr|[Hr|[Hr|Hr]]]; rewrite Hr in *.
      + vm_compute in H1. discriminate.
      + vm_compute in H2. discriminate.
      + vm_compute in H3. discriminate.
      + vm_compute in H4. discriminate.
  Qed.

  (* ---------------------------------------------------------------- *)
  (* kinds only change by promotion                                     *)

  Lemma amem_of_lookup k v m : alookup k m = Some v -> amem k m = true.
  Proof. unfold amem. intros ->. reflexivity. Qed.

  Lemma kind_shape m c i m' id k k' :
    applied_shape m c i m' -> kind_of m id = Some k -> kind_of m' id = Some k' ->
    k = k' \/
    (k = NonVoting /\ k' = Voting /\ id = cc_replica c /\ cc_type c = cc_add_node /\
     exists oa, alookup id (m_nonvotings m) = Some oa /\ address_equal norm oa (cc_addr c) = true).
  Proof.
    intros Hs. unfold kind_of.
    destruct Hs as [Ht Hf Hfa ->|oa Ht HA HN HE HW HR ->|Ht Hf Hfa ->|Ht Hf Hfa ->|Ht Hd ->];
      cbn [m_addresses m_nonvotings m_witnesses];
      try unfresh Hf;
      rewrite ?amem_ainsert, ?amem_adelete;
      (destruct (N.eqb_spec (cc_replica c) id) as [<-|Hne]; cbn [orb andb negb];
       [|intros H1 H2; rewrite H1 in H2; inversion H2; auto]).
    - rewrite HfA, HfN, HfW. discriminate.
    - rewrite HA, (amem_of_lookup _ _ _ HN). intros H1 H2. inversion H1; inversion H2; subst.
      right. repeat split; auto. exists oa. auto.
    - rewrite HfA, HfN, HfW. discriminate.
    - rewrite HfA, HfN, HfW. discriminate.
    - discriminate.
  Qed.

  Lemma kind_left_shape m c i m' id k :
    applied_shape m c i m' -> kind_of m id = Some k -> kind_of m' id = None ->
    rmem id (m_removed m') = true.
  Proof.
    intros Hs. unfold kind_of.
    destruct Hs as [Ht Hf Hfa ->|oa Ht HA HN HE HW HR ->|Ht Hf Hfa ->|Ht Hf Hfa ->|Ht Hd ->];
      cbn [m_addresses m_nonvotings m_witnesses m_removed];
      try unfresh Hf;
      rewrite ?amem_ainsert, ?amem_adelete, ?rmem_radd;
      (destruct (N.eqb_spec (cc_replica c) id) as [<-|Hne]; cbn [orb andb negb];
       [|intros H1 H2; rewrite H1 in H2; discriminate]).
    - discriminate.
    - discriminate.
    - rewrite HfA, HfN, HfW. discriminate.
    - rewrite HfA, HfN, HfW. discriminate.
    - rewrite N.eqb_refl. reflexivity.
  Qed.

  Lemma run_cons_fst ordered m r rest :
    fst (run norm ordered m (r :: rest)) =
    match snd (step norm ordered m r) with
    | VPanic => fst (step norm ordered m r)
    | _ => fst (run norm ordered (fst (step norm ordered m r)) rest)
    end.
  Proof.
    cbn [run]. destruct (step norm ordered m r) as [m1 v]. cbn [fst snd].
    destruct v; try reflexivity; destruct (run norm ordered m1 rest); reflexivity.
  Qed.

  Lemma kind_run ordered reqs : forall m id k k',
    removed_disjoint_inv m ->
    kind_of m id = Some k -> kind_of (fst (run norm ordered m reqs)) id = Some k' ->
    k = k' \/ (k = NonVoting /\ k' = Voting).
  Proof.
    induction reqs as [|r rest IH]; intros m id k k' Hinv Hk Hk'.
    - cbn in Hk'. left. congruence.
    - rewrite run_cons_fst in Hk'.
      destruct (step_cases ordered m r) as [(m1 & Hs & Hh)|[Hs|Hs]]; rewrite Hs in Hk'; cbn [fst snd] in Hk'.
      + apply handle_applied_inv in Hh.
        assert (Hinv1 : removed_disjoint_inv m1) by (eapply removed_disjoint_shape; eauto).
        destruct (kind_of m1 id) as [k1|] eqn:Hk1.
        * destruct (kind_shape _ _ _ _ _ _ _ Hh Hk Hk1) as [->|(-> & -> & _)].
          -- eapply IH; eauto.
          -- destruct (IH m1 id Voting k' Hinv1 Hk1 Hk') as [<-|[? _]]; [right; auto|discriminate].
        * exfalso. pose proof (kind_left_shape _ _ _ _ _ _ Hh Hk Hk1) as Hr.
          destruct (removed_disjoint_and_permanent_proved ordered rest m1 Hinv1) as [_ Hp].
          destruct (Hp id Hr) as [_ Hnone]. congruence.
      + eapply IH; eauto.
      + left. congruence.
  Qed.

  Lemma kind_step ordered m c i m' v id k k' :
    step norm ordered m (c, i) = (m', v) ->
    kind_of m id = Some k -> kind_of m' id = Some k' -> k <> k' ->
    v = VApplied /\ k = NonVoting /\ k' = Voting /\ id = cc_replica c /\ cc_type c = cc_add_node /\
    exists oa, alookup id (m_nonvotings m) = Some oa /\ address_equal norm oa (cc_addr c) = true.
  Proof.
    intros Hs Hk Hk' Hne.
    destruct (step_cases ordered m (c, i)) as [(m1 & Hs1 & Hh)|[Hs1|Hs1]];
      rewrite Hs1 in Hs; inversion Hs; subst; try congruence.
    cbn [fst snd] in Hh. apply handle_applied_inv in Hh.
    destruct (kind_shape _ _ _ _ _ _ _ Hh Hk Hk') as [?|(? & ? & ? & ? & ?)]; [congruence|].
    repeat split; auto.
  Qed.

  (* ---------------------------------------------------------------- *)
  (* addresses are unique among distinct members                        *)

  Definition all_members (m : membership) : amap :=
    m_addresses m ++ m_nonvotings m ++ m_witnesses m.

  Definition address_unique_inv (m : membership) : Prop :=
    forall id1 a1 id2 a2,
      In (id1, a1) (all_members m) -> In (id2, a2) (all_members m) -> id1 <> id2 ->
      address_equal norm a1 a2 = false.

  Lemma fresh_addr_all m a :
    fresh_addr m a -> forall k v, In (k, v) (all_members m) -> address_equal norm a v = false.
  Proof.
    intros (H1 & H2 & H3) k v. unfold all_members. rewrite !in_app_iff.
    rewrite addr_in_use_false in H1, H2, H3. rewrite address_equal_sym.
    intros [H|[H|H]]; eauto.
  Qed.

  Lemma shape_members m c i m' x :
    address_unique_inv m -> applied_shape m c i m' -> In x (all_members m') ->
    In x (all_members m) \/
    (x = (cc_replica c, cc_addr c) /\
     forall id2 a2, In (id2, a2) (all_members m) -> id2 <> cc_replica c ->
                    address_equal norm (cc_addr c) a2 = false).
  Proof.
    intros Hinv Hs.
    destruct Hs as [Ht Hf Hfa ->|oa Ht HA HN HE HW HR ->|Ht Hf Hfa ->|Ht Hf Hfa ->|Ht Hd ->];
      unfold all_members; cbn [m_addresses m_nonvotings m_witnesses];
      rewrite !in_app_iff, ?In_ainsert, ?In_adelete.
    - intros [[->|[H _]]|[H|H]]; auto.
      right. split; [reflexivity|]. intros id2 a2 Hin _. eapply fresh_addr_all; eauto.
    - intros [[->|[H _]]|[[H _]|H]]; auto.
      right. split; [reflexivity|]. intros id2 a2 Hin Hne.
      eapply address_equal_false_l; [exact HE|].
      apply (Hinv (cc_replica c) oa id2 a2); auto.
      unfold all_members. rewrite !in_app_iff. right; left. apply alookup_In, HN.
    - intros [H|[[->|[H _]]|H]]; auto.
      right. split; [reflexivity|]. intros id2 a2 Hin _. eapply fresh_addr_all; eauto.
    - intros [H|[H|[->|[H _]]]]; auto.
      right. split; [reflexivity|]. intros id2 a2 Hin _. eapply fresh_addr_all; eauto.
    - intros [[H _]|[[H _]|[H _]]]; auto.
  Qed.

  Lemma address_unique_shape m c i m' :
    address_unique_inv m -> applied_shape m c i m' -> address_unique_inv m'.
  Proof.
    intros Hinv Hs id1 a1 id2 a2 H1 H2 Hne.
    destruct (shape_members _ _ _ _ _ Hinv Hs H1) as [O1|[E1 N1]];
      destruct (shape_members _ _ _ _ _ Hinv Hs H2) as [O2|[E2 N2]].
    - eapply Hinv; eauto.
    - inversion E2; subst. rewrite address_equal_sym. eapply N2; eauto.
    - inversion E1; subst. eapply N1; eauto.
    - inversion E1; inversion E2; subst. congruence.
  Qed.

  Lemma address_unique_run ordered reqs m :
    address_unique_inv m -> address_unique_inv (fst (run norm ordered m reqs)).
  Proof. apply shape_invariant_run. exact address_unique_shape. Qed.

  Lemma add_used_address_rejected_proved ordered m c i id2 a2 :
    is_add_type (cc_type c) = true ->
    In (id2, a2) (all_members m) -> id2 <> cc_replica c ->
    address_equal norm a2 (cc_addr c) = true ->
    address_unique_inv m ->
    step norm ordered m (c, i) = (m, VRejected).
  Proof.
    intros Ht Hin Hne He Hau.
    destruct (step_cases ordered m (c, i)) as [(m' & Hs & Hh)|[Hs|Hs]]; [|exact Hs|].
    - exfalso. cbn [fst snd] in Hh. apply handle_applied_inv in Hh.
      destruct Hh as [Ht' Hf Hfa _|oa Ht' HA HN HE HW HR _|Ht' Hf Hfa _|Ht' Hf Hfa _|Ht' Hd _].
      + pose proof (fresh_addr_all _ _ Hfa _ _ Hin) as H. rewrite address_equal_sym in H. congruence.
      + (* promotion: the address is the promoted replica's own, nobody else's *)
        assert (Hin' : In (cc_replica c, oa) (all_members m)).
        { unfold all_members. rewrite !in_app_iff. right; left. apply alookup_In, HN. }
        pose proof (Hau _ _ _ _ Hin Hin' Hne) as H.
        rewrite address_equal_sym in HE.
        rewrite (address_equal_trans _ _ _ He HE) in H. discriminate.
      + pose proof (fresh_addr_all _ _ Hfa _ _ Hin) as H. rewrite address_equal_sym in H. congruence.
      + pose proof (fresh_addr_all _ _ Hfa _ _ Hin) as H. rewrite address_equal_sym in H. congruence.
      + rewrite Ht' in Ht. vm_compute in Ht. discriminate.
    - exfalso. unfold step in Hs. cbn [fst snd] in Hs.
      destruct (handle norm ordered m c i) eqn:Hh; try discriminate.
      apply handle_panics_only_unknown_type in Hh.
      destruct Hh as (_ & _ & H1 & _ & H3 & H4).
      unfold is_add_type in Ht. rewrite H1, H3, H4 in Ht. discriminate.
  Qed.

  (* ---------------------------------------------------------------- *)
  (* a member keeps its (normalised) address for as long as it is a member *)

  Lemma alookup_none_of_amem k m : amem k m = false -> alookup k m = None.
  Proof. apply amem_alookup_none. Qed.

  Lemma addr_shape m c i m' id a a' :
    applied_shape m c i m' -> addr_of m id = Some a -> addr_of m' id = Some a' ->
    address_equal norm a a' = true.
  Proof.
    intros Hs. unfold addr_of.
    destruct Hs as [Ht Hf Hfa ->|oa Ht HA HN HE HW HR ->|Ht Hf Hfa ->|Ht Hf Hfa ->|Ht Hd ->];
      cbn [m_addresses m_nonvotings m_witnesses];
      try unfresh Hf;
      rewrite ?alookup_ainsert, ?alookup_adelete;
      (destruct (N.eqb_spec (cc_replica c) id) as [<-|Hne];
       [|intros H1 H2; rewrite H1 in H2; inversion H2; apply address_equal_refl]).
    - rewrite (alookup_none_of_amem _ _ HfA), (alookup_none_of_amem _ _ HfN), (alookup_none_of_amem _ _ HfW).
      discriminate.
    - rewrite (alookup_none_of_amem _ _ HA), HN. intros H1 H2. inversion H1; inversion H2; subst. exact HE.
    - rewrite (alookup_none_of_amem _ _ HfA), (alookup_none_of_amem _ _ HfN), (alookup_none_of_amem _ _ HfW).
      discriminate.
    - rewrite (alookup_none_of_amem _ _ HfA), (alookup_none_of_amem _ _ HfN), (alookup_none_of_amem _ _ HfW).
      discriminate.
    - discriminate.
  Qed.

  Lemma addr_of_kind m id : (exists a, addr_of m id = Some a) <-> (exists k, kind_of m id = Some k).
  Proof.
    unfold addr_of, kind_of, amem.
    destruct (alookup id (m_addresses m)); [split; eauto|].
    destruct (alookup id (m_nonvotings m)); [split; eauto|].
    destruct (alookup id (m_witnesses m)); [split; eauto|].
    split; intros [? ?]; discriminate.
  Qed.

  Lemma addr_run ordered reqs : forall m id a a',
    removed_disjoint_inv m ->
    addr_of m id = Some a -> addr_of (fst (run norm ordered m reqs)) id = Some a' ->
    address_equal norm a a' = true.
  Proof.
    induction reqs as [|r rest IH]; intros m id a a' Hinv Ha Ha'.
    - cbn in Ha'. rewrite Ha in Ha'. inversion Ha'. apply address_equal_refl.
    - rewrite run_cons_fst in Ha'.
      destruct (step_cases ordered m r) as [(m1 & Hs & Hh)|[Hs|Hs]]; rewrite Hs in Ha'; cbn [fst snd] in Ha'.
      + apply handle_applied_inv in Hh.
        assert (Hinv1 : removed_disjoint_inv m1) by (eapply removed_disjoint_shape; eauto).
        destruct (addr_of m1 id) as [a1|] eqn:Ha1.
        * eapply address_equal_trans; [eapply addr_shape; eauto|eapply IH; eauto].
        * exfalso.
          assert (Hk : exists k, kind_of m id = Some k) by (apply addr_of_kind; eauto).
          destruct Hk as [k Hk].
          assert (Hk1 : kind_of m1 id = None).
          { destruct (kind_of m1 id) eqn:E; [|reflexivity].
            assert (Hx : exists a, addr_of m1 id = Some a) by (apply addr_of_kind; eauto).
            destruct Hx as [? Hx]. congruence. }
          pose proof (kind_left_shape _ _ _ _ _ _ Hh Hk Hk1) as Hr.
          destruct (removed_disjoint_and_permanent_proved ordered rest m1 Hinv1) as [_ Hp].
          destruct (Hp id Hr) as [_ Hnone].
          assert (Hx : exists k, kind_of (fst (run norm ordered m1 rest)) id = Some k) by (apply addr_of_kind; eauto).
          destruct Hx as [? Hx]. congruence.
      + eapply IH; eauto.
      + rewrite Ha in Ha'. inversion Ha'. apply address_equal_refl.
  Qed.

  (* ---------------------------------------------------------------- *)
  (* cutting the log at a snapshot                                      *)

  Definition has_panic (vs : list verdict) : bool :=
    existsb (fun v => match v with VPanic => true | _ => false end) vs.

  Lemma run_app ordered l1 : forall l2 m,
    run norm ordered m (l1 ++ l2) =
    let '(m1, v1) := run norm ordered m l1 in
    if has_panic v1 then (m1, v1)
    else let '(m2, v2) := run norm ordered (m_set (m_get m1)) l2 in (m2, v1 ++ v2).
  Proof.
    induction l1 as [|r rest IH]; intros l2 m.
    - cbn. unfold m_set, m_get. destruct (run norm ordered m l2); reflexivity.
    - cbn [app run]. destruct (step norm ordered m r) as [m1 v].
      destruct v.
      + rewrite IH. destruct (run norm ordered m1 rest) as [m1' v1]. cbn [has_panic existsb orb].
        fold (has_panic v1). destruct (has_panic v1); [reflexivity|].
        destruct (run norm ordered (m_set (m_get m1')) l2); reflexivity.
      + rewrite IH. destruct (run norm ordered m1 rest) as [m1' v1]. cbn [has_panic existsb orb].
        fold (has_panic v1). destruct (has_panic v1); [reflexivity|].
        destruct (run norm ordered (m_set (m_get m1')) l2); reflexivity.
      + reflexivity.
  Qed.

  (* two replicas (whatever their shard / replica id: the rules do not depend on
     them) that start from the same membership and apply the same log *)
  Lemma outcome_deterministic ordered reqs m1 m2 :
    m1 = m2 -> run norm ordered m1 reqs = run norm ordered m2 reqs.
  Proof. intros ->. reflexivity. Qed.

  (* ---------------------------------------------------------------- *)
  (* ordered config change: concurrent requests built on the same membership
     view carry the same ConfigChangeID; at most one of them is applied     *)

  Fixpoint idx_increasing (lo : N) (reqs : list req) : Prop :=
    match reqs with
    | [] => True
    | r :: rest => lo < snd r /\ idx_increasing (snd r) rest
    end.

  (* ConfigChangeIDs carried by the applied requests that are not Initialize *)
  Fixpoint applied_ccids (reqs : list req) (vs : list verdict) : list N :=
    match reqs, vs with
    | r :: reqs', v :: vs' =>
        match v with
        | VApplied => if cc_init (fst r) then applied_ccids reqs' vs'
                      else cc_ccid (fst r) :: applied_ccids reqs' vs'
        | _ => applied_ccids reqs' vs'
        end
    | _, _ => []
    end.

  Lemma up_to_date_ordered m c :
    is_up_to_date true m c = true -> cc_init c = false -> m_ccid m = cc_ccid c.
  Proof.
    unfold is_up_to_date. intros H Hi. rewrite Hi in H. cbn in H.
    destruct (N.eqb_spec (m_ccid m) (cc_ccid c)); [assumption|discriminate].
  Qed.

  Lemma one_winner_aux reqs : forall m lo,
    m_ccid m <= lo -> idx_increasing lo reqs ->
    NoDup (applied_ccids reqs (snd (run norm true m reqs))) /\
    Forall (fun x => m_ccid m <= x) (applied_ccids reqs (snd (run norm true m reqs))).
  Proof.
    induction reqs as [|r rest IH]; intros m lo Hlo Hidx; cbn [run].
    - cbn. split; constructor.
    - destruct Hidx as [Hlt Hidx].
      destruct (step_cases true m r) as [(m1 & Hs & Hh)|[Hs|Hs]]; rewrite Hs.
      + pose proof (handle_applied_up_to_date _ _ _ _ _ Hh) as Hup.
        apply handle_applied_inv, shape_ccid in Hh.
        assert (Hlo1 : m_ccid m1 <= snd r) by lia.
        destruct (IH m1 (snd r) Hlo1 Hidx) as [IHnd IHall].
        destruct (run norm true m1 rest) as [m2 vs]. cbn [snd applied_ccids] in *.
        assert (Hall' : Forall (fun x => m_ccid m <= x) (applied_ccids rest vs)).
        { eapply Forall_impl; [|exact IHall]. cbn. intros x Hx. lia. }
        destruct (cc_init (fst r)) eqn:Hinit; [split; assumption|].
        pose proof (up_to_date_ordered _ _ Hup Hinit) as Heq.
        split.
        * constructor; [|exact IHnd]. intros Hin.
          rewrite Forall_forall in IHall. specialize (IHall _ Hin). lia.
        * constructor; [lia|exact Hall'].
      + assert (Hlo1 : m_ccid m <= snd r) by lia.
        destruct (IH m (snd r) Hlo1 Hidx) as [IHnd IHall].
        destruct (run norm true m rest) as [m2 vs]. cbn [snd applied_ccids] in *.
        split; assumption.
      + cbn. destruct rest; split; constructor.
  Qed.

  Lemma ordered_one_winner_per_ccid_proved reqs m lo :
    m_ccid m <= lo -> idx_increasing lo reqs ->
    NoDup (applied_ccids reqs (snd (run norm true m reqs))).
  Proof. intros H1 H2. apply (one_winner_aux reqs m lo H1 H2). Qed.


  (* ---------------------------------------------------------------- *)
  (* the outcome depends on the CONTENT of the maps only                *)
  (* Two replicas hold the same abstract membership in Go maps whose internal
     layout / iteration order differ (and differ from run to run); in the model:
     association lists with the same lookups but any order.                *)

  Definition amap_equiv (a b : amap) : Prop := forall k, alookup k a = alookup k b.
  Definition mequiv (m1 m2 : membership) : Prop :=
    m_ccid m1 = m_ccid m2 /\
    amap_equiv (m_addresses m1) (m_addresses m2) /\
    amap_equiv (m_nonvotings m1) (m_nonvotings m2) /\
    amap_equiv (m_witnesses m1) (m_witnesses m2) /\
    (forall k, rmem k (m_removed m1) = rmem k (m_removed m2)).

  Lemma mequiv_refl m : mequiv m m.
  Proof. repeat split. Qed.

  Lemma amem_equiv a b k : amap_equiv a b -> amem k a = amem k b.
  Proof. unfold amem. intros H. rewrite H. reflexivity. Qed.

  Lemma In_alookup_nodup k v m : nodup_keys m -> In (k, v) m -> alookup k m = Some v.
  Proof.
    unfold nodup_keys, keys. induction m as [|[k0 v0] r IH]; cbn; [tauto|].
    intros Hnd [H|H].
    - inversion H; subst. rewrite N.eqb_refl. reflexivity.
    - inversion Hnd as [|? ? Hnotin Hnd']; subst.
      destruct (N.eqb_spec k0 k) as [->|]; [|auto].
      exfalso. apply Hnotin. change k with (fst (k, v)). apply in_map. exact H.
  Qed.

  Lemma addr_in_use_equiv_imp a m1 m2 :
    nodup_keys m1 -> amap_equiv m1 m2 -> addr_in_use norm a m1 = true -> addr_in_use norm a m2 = true.
  Proof.
    intros Hnd He. unfold addr_in_use. rewrite !existsb_exists.
    intros ([k v] & Hin & Ha). exists (k, v). split; [|exact Ha].
    apply alookup_In. rewrite <- He. apply In_alookup_nodup; assumption.
  Qed.

  Lemma addr_in_use_equiv a m1 m2 :
    nodup_keys m1 -> nodup_keys m2 -> amap_equiv m1 m2 ->
    addr_in_use norm a m1 = addr_in_use norm a m2.
  Proof.
    intros H1 H2 He.
    destruct (addr_in_use norm a m1) eqn:E1, (addr_in_use norm a m2) eqn:E2; try reflexivity.
    - rewrite (addr_in_use_equiv_imp a m1 m2 H1 He E1) in E2. discriminate.
    - assert (He' : amap_equiv m2 m1) by (intros k; symmetry; apply He).
      rewrite (addr_in_use_equiv_imp a m2 m1 H2 He' E2) in E1. discriminate.
  Qed.

  Lemma alen_equiv m1 m2 :
    nodup_keys m1 -> nodup_keys m2 -> amap_equiv m1 m2 -> alen m1 = alen m2.
  Proof.
    intros H1 H2 He. unfold alen, nlen. f_equal.
    rewrite <- (map_length fst m1), <- (map_length fst m2).
    apply Permutation_length. apply NoDup_Permutation; [exact H1|exact H2|].
    intros x. fold (keys m1) (keys m2). rewrite <- !amem_keys, (amem_equiv _ _ x He). reflexivity.
  Qed.

  Lemma ainsert_equiv k v a b : amap_equiv a b -> amap_equiv (ainsert k v a) (ainsert k v b).
  Proof. intros H k'. rewrite !alookup_ainsert, H. reflexivity. Qed.
  Lemma adelete_equiv k a b : amap_equiv a b -> amap_equiv (adelete k a) (adelete k b).
  Proof. intros H k'. rewrite !alookup_adelete, H. reflexivity. Qed.

  Lemma accepted_equiv ordered m1 m2 c :
    nodup_inv m1 -> nodup_inv m2 -> mequiv m1 m2 ->
    accepted norm ordered m1 c = accepted norm ordered m2 c /\
    reject_reason norm ordered m1 c = reject_reason norm ordered m2 c.
  Proof.
    intros (NA1 & NN1 & NW1) (NA2 & NN2 & NW2) (Hc & HA & HN & HW & HR).
    assert (P1 : is_up_to_date ordered m1 c = is_up_to_date ordered m2 c)
      by (unfold is_up_to_date; rewrite Hc; reflexivity).
    assert (P2 : is_add_removed_node m1 c = is_add_removed_node m2 c)
      by (unfold is_add_removed_node; rewrite HR; reflexivity).
    assert (Pp : is_promote_non_voting norm m1 c = is_promote_non_voting norm m2 c)
      by (unfold is_promote_non_voting; rewrite HN; reflexivity).
    assert (P3 : is_add_existing_member norm m1 c = is_add_existing_member norm m2 c).
    { unfold is_add_existing_member.
      rewrite Pp, (amem_equiv _ _ _ HA), (amem_equiv _ _ _ HN), (amem_equiv _ _ _ HW),
        (addr_in_use_equiv _ _ _ NA1 NA2 HA), (addr_in_use_equiv _ _ _ NN1 NN2 HN),
        (addr_in_use_equiv _ _ _ NW1 NW2 HW). reflexivity. }
    assert (P4 : is_add_node_as_non_voting m1 c = is_add_node_as_non_voting m2 c)
      by (unfold is_add_node_as_non_voting; rewrite (amem_equiv _ _ _ HA); reflexivity).
    assert (P5 : is_add_node_as_witness m1 c = is_add_node_as_witness m2 c)
      by (unfold is_add_node_as_witness; rewrite (amem_equiv _ _ _ HA); reflexivity).
    assert (P6 : is_add_witness_as_node m1 c = is_add_witness_as_node m2 c)
      by (unfold is_add_witness_as_node; rewrite (amem_equiv _ _ _ HW); reflexivity).
    assert (P7 : is_add_witness_as_non_voting m1 c = is_add_witness_as_non_voting m2 c)
      by (unfold is_add_witness_as_non_voting; rewrite (amem_equiv _ _ _ HW); reflexivity).
    assert (P8 : is_add_non_voting_as_witness m1 c = is_add_non_voting_as_witness m2 c)
      by (unfold is_add_non_voting_as_witness; rewrite (amem_equiv _ _ _ HN); reflexivity).
    assert (P9 : is_delete_only_node m1 c = is_delete_only_node m2 c)
      by (unfold is_delete_only_node; rewrite (alen_equiv _ _ NA1 NA2 HA), (amem_equiv _ _ _ HA); reflexivity).
    assert (P10 : is_invalid_non_voting_promotion norm m1 c = is_invalid_non_voting_promotion norm m2 c)
      by (unfold is_invalid_non_voting_promotion; rewrite HN; reflexivity).
    unfold accepted, reject_reason.
    rewrite P1, P2, P3, P4, P5, P6, P7, P8, P9, P10. split; reflexivity.
  Qed.

  Definition apply_result_equiv (r1 r2 : apply_result) : Prop :=
    match r1, r2 with
    | AOk a, AOk b => mequiv a b
    | APanic t1, APanic t2 => t1 = t2
    | _, _ => False
    end.

  Lemma apply_equiv m1 m2 c i :
    mequiv m1 m2 -> apply_result_equiv (apply_cc m1 c i) (apply_cc m2 c i).
  Proof.
    intros (Hc & HA & HN & HW & HR). unfold apply_cc.
    rewrite !(amem_equiv _ _ _ HA), !(amem_equiv _ _ _ HN), !(amem_equiv _ _ _ HW).
    destruct (cc_type c =? cc_add_node)%Z.
    { destruct (amem (cc_replica c) (m_witnesses m2)); cbn; [reflexivity|].
      repeat split; cbn; auto using ainsert_equiv, adelete_equiv. }
    destruct (cc_type c =? cc_add_non_voting)%Z.
    { destruct (amem (cc_replica c) (m_addresses m2)); cbn; [reflexivity|].
      repeat split; cbn; auto using ainsert_equiv, adelete_equiv. }
    destruct (cc_type c =? cc_add_witness)%Z.
    { destruct (amem (cc_replica c) (m_addresses m2)); cbn; [reflexivity|].
      destruct (amem (cc_replica c) (m_nonvotings m2)); cbn; [reflexivity|].
      repeat split; cbn; auto using ainsert_equiv, adelete_equiv. }
    destruct (cc_type c =? cc_remove_node)%Z; cbn [apply_result_equiv]; [|reflexivity].
    unfold mequiv. cbn [m_ccid m_addresses m_nonvotings m_witnesses m_removed].
    split; [reflexivity|]. split; [apply adelete_equiv; exact HA|].
    split; [apply adelete_equiv; exact HN|]. split; [apply adelete_equiv; exact HW|].
    intros k. rewrite !rmem_radd, HR. reflexivity.
  Qed.

  Lemma step_equiv ordered m1 m2 r :
    nodup_inv m1 -> nodup_inv m2 -> mequiv m1 m2 ->
    snd (step norm ordered m1 r) = snd (step norm ordered m2 r) /\
    mequiv (fst (step norm ordered m1 r)) (fst (step norm ordered m2 r)).
  Proof.
    intros N1 N2 He. unfold step, handle.
    destruct (accepted_equiv ordered m1 m2 (fst r) N1 N2 He) as [-> ->].
    destruct (accepted norm ordered m2 (fst r)).
    - pose proof (apply_equiv m1 m2 (fst r) (snd r) He) as Ha.
      destruct (apply_cc m1 (fst r) (snd r)), (apply_cc m2 (fst r) (snd r)); cbn in *;
        try contradiction; auto.
    - destruct (reject_reason norm ordered m2 (fst r)); cbn; auto.
  Qed.

  Lemma run_equiv ordered reqs : forall m1 m2,
    nodup_inv m1 -> nodup_inv m2 -> mequiv m1 m2 ->
    snd (run norm ordered m1 reqs) = snd (run norm ordered m2 reqs) /\
    mequiv (fst (run norm ordered m1 reqs)) (fst (run norm ordered m2 reqs)).
  Proof.
    induction reqs as [|r rest IH]; intros m1 m2 N1 N2 He; cbn [run].
    - cbn. auto.
    - destruct (step_equiv ordered m1 m2 r N1 N2 He) as [Hv Hm].
      pose proof (step_invariant nodup_inv ordered nodup_shape m1 r N1) as N1'.
      pose proof (step_invariant nodup_inv ordered nodup_shape m2 r N2) as N2'.
      destruct (step norm ordered m1 r) as [m1' v1], (step norm ordered m2 r) as [m2' v2].
      cbn [fst snd] in *. subst v2.
      destruct v1.
      + destruct (IH m1' m2' N1' N2' Hm) as [IHv IHm].
        destruct (run norm ordered m1' rest) as [a1 w1], (run norm ordered m2' rest) as [a2 w2].
        cbn [fst snd] in *. split; [congruence|exact IHm].
      + destruct (IH m1' m2' N1' N2' Hm) as [IHv IHm].
        destruct (run norm ordered m1' rest) as [a1 w1], (run norm ordered m2' rest) as [a2 w2].
        cbn [fst snd] in *. split; [congruence|exact IHm].
      + cbn [fst snd]. split; [reflexivity|exact Hm].
  Qed.

  (* ---------------------------------------------------------------- *)
  (* restart of a replica with an on disk state machine                 *)
  (* The membership and the verdicts of a replica are those of [run] on the
     config change entries of its log, whatever the index its on disk state
     machine reported on Open (and whether it is an on disk one at all).     *)

  Lemma sm_run_is_run ordered on_disk odi es : forall r,
    r_members (fst (sm_run norm ordered on_disk odi r es)) =
      fst (run norm ordered (r_members r) (cc_reqs es)) /\
    snd (sm_run norm ordered on_disk odi r es) =
      snd (run norm ordered (r_members r) (cc_reqs es)).
  Proof.
    induction es as [|[e i] rest IH]; intros r; [cbn; auto|].
    destruct e as [c|].
    - cbn [sm_run sm_handle_entry cc_reqs run fst snd].
      destruct (step norm ordered (r_members r) (c, i)) as [m1 v] eqn:Hs.
      destruct v.
      + specialize (IH (mkR m1 i (r_updates r))). cbn [r_members] in IH.
        destruct (sm_run norm ordered on_disk odi (mkR m1 i (r_updates r)) rest) as [r2 vs].
        destruct (run norm ordered m1 (cc_reqs rest)) as [m2 ws]. cbn [fst snd] in *.
        destruct IH as [-> ->]. auto.
      + specialize (IH (mkR m1 i (r_updates r))). cbn [r_members] in IH.
        destruct (sm_run norm ordered on_disk odi (mkR m1 i (r_updates r)) rest) as [r2 vs].
        destruct (run norm ordered m1 (cc_reqs rest)) as [m2 ws]. cbn [fst snd] in *.
        destruct IH as [-> ->]. auto.
      + cbn. auto.
    - cbn [sm_run sm_handle_entry cc_reqs fst snd].
      destruct (entry_in_init_disk_sm on_disk odi i);
        match goal with |- context [sm_run _ _ _ _ ?r' rest] => apply (IH r') end.
  Qed.

  Lemma cc_reqs_app l1 l2 : cc_reqs (l1 ++ l2) = cc_reqs l1 ++ cc_reqs l2.
  Proof.
    induction l1 as [|[e i] rest IH]; [reflexivity|].
    destruct e; cbn; rewrite IH; reflexivity.
  Qed.

  Lemma on_disk_index_irrelevant_proved ordered od1 k1 od2 k2 r1 r2 es :
    r_members r1 = r_members r2 ->
    r_members (fst (sm_run norm ordered od1 k1 r1 es)) =
      r_members (fst (sm_run norm ordered od2 k2 r2 es)) /\
    snd (sm_run norm ordered od1 k1 r1 es) = snd (sm_run norm ordered od2 k2 r2 es).
  Proof.
    intros H.
    destruct (sm_run_is_run ordered od1 k1 es r1) as [-> ->].
    destruct (sm_run_is_run ordered od2 k2 es r2) as [-> ->].
    rewrite H. auto.
  Qed.

  (* replica A applies l1 ++ l2 without restarting. Replica B took a snapshot
     record after l1, restarted (its on disk state machine reports any index
     [k2] on Open), recovered membership and applied index from the record and
     replayed l2. Same membership, and B's verdicts on l2 are A's. *)
  Lemma restart_replay_same_membership_proved ordered od1 k1 od2 k2 r l1 l2 ss_index :
    let a := sm_run norm ordered od1 k1 r (l1 ++ l2) in
    let s := sm_run norm ordered od1 k1 r l1 in
    let b := sm_run norm ordered od2 k2 (sm_recover (m_get (r_members (fst s))) ss_index) l2 in
    has_panic (snd s) = false ->
    r_members (fst b) = r_members (fst a) /\ snd a = snd s ++ snd b.
  Proof.
    intros a s b Hp. subst a s b.
    destruct (sm_run_is_run ordered od1 k1 (l1 ++ l2) r) as [-> ->].
    destruct (sm_run_is_run ordered od1 k1 l1 r) as [E1 E2]. rewrite E1, E2 in *. clear E1 E2.
    destruct (sm_run_is_run ordered od2 k2 l2
                (sm_recover (m_get (fst (run norm ordered (r_members r) (cc_reqs l1)))) ss_index))
      as [-> ->].
    rewrite cc_reqs_app, run_app.
    unfold sm_recover. cbn [r_members].
    destruct (run norm ordered (r_members r) (cc_reqs l1)) as [m1 v1]. cbn [fst snd] in *.
    rewrite Hp.
    destruct (run norm ordered (m_set (m_get m1)) (cc_reqs l2)) as [m2 v2]. cbn. auto.
  Qed.
End WithNorm.

(* ------------------------------------------------------------------ *)
(* a concrete non-trivial state meeting every invariant (non-vacuity)   *)

Definition A (s : list N) : addr := s.
Definition sample_reqs : list req :=
  [ (mkCC 0 cc_add_node 1 [104; 49] true, 1);          (* bootstrap "h1" *)
    (mkCC 0 cc_add_node 2 [104; 50] true, 2);          (* bootstrap "h2" *)
    (mkCC 2 cc_add_non_voting 3 [72; 51; 32] false, 3);  (* non-voting "H3 " *)
    (mkCC 3 cc_add_witness 4 [104; 52] false, 4);      (* witness "h4" *)
    (mkCC 4 cc_remove_node 2 [] false, 5);             (* remove 2 *)
    (mkCC 5 cc_add_node 3 [32; 104; 51] false, 6);     (* promote 3 with " h3" *)
    (mkCC 5 cc_add_node 5 [104; 53] false, 7);         (* stale id: rejected when ordered *)
    (mkCC 6 cc_add_node 2 [104; 54] false, 8);         (* removed id: rejected *)
    (mkCC 6 cc_add_node 6 [72; 49] false, 9);          (* address "H1" in use: rejected *)
    (mkCC 6 cc_add_non_voting 1 [104; 55] false, 10);  (* voting -> non-voting: rejected *)
    (mkCC 6 cc_add_node 4 [104; 52] false, 11) ].      (* witness -> voting: rejected *)

Definition sample_state : membership := fst (run norm_ascii true empty_membership sample_reqs).

Lemma empty_invariants norm :
  kinds_disjoint_inv empty_membership /\ removed_disjoint_inv empty_membership /\
  address_unique_inv norm empty_membership /\ nodup_inv empty_membership.
Proof.
  repeat split; try (intros id; reflexivity); try constructor.
  intros id1 a1 id2 a2 H. inversion H.
Qed.

Lemma sample_state_invariants :
  kinds_disjoint_inv sample_state /\ removed_disjoint_inv sample_state /\
  address_unique_inv norm_ascii sample_state /\ nodup_inv sample_state /\ voters_inv sample_state.
Proof.
  destruct (empty_invariants norm_ascii) as (H1 & H2 & H3 & H4).
  unfold sample_state.
  split; [apply kinds_disjoint_run; exact H1|].
  split; [apply removed_disjoint_and_permanent_proved; exact H2|].
  split; [apply address_unique_run; exact H3|].
  split; [apply nodup_run; exact H4|].
  pose proof (nodup_run norm_ascii true sample_reqs empty_membership H4) as (Hn & _ & _).
  split; [exact Hn|]. vm_compute. discriminate.
Qed.

(* tie G: the [ordered] argument of the model is the replica's config flag
   OrderedConfigChange and nothing else (regenerated from rsm.NewStateMachine) *)
Lemma ordered_flag_is_config_flag : membership_ordered_is_config_ordered = true.
Proof. reflexivity. Qed.
