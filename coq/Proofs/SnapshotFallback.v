(* Proofs/SnapshotFallback.v — C08, the raft side of "a lagging follower whose
   needed entries were compacted is brought up to date by a snapshot rather than
   left with a gap": raft.sendReplicateMessage (Model/RaftCore.v [send_replicate],
   the L1 model tied to internal/raft by the raft simulator's differential check). *)
From DB Require Import Model.RaftCore.
From Coq Require Import ZifyN ZifyNat ZifyBool Lia.
Open Scope N_scope.

(* what [send] appends *)
Lemma send_msgs_app r m :
  exists new, r_msgs (send r m) = r_msgs r ++ new /\
    (new = [] \/ exists x, new = [x] /\ m_type x = m_type m /\ m_to x = m_to m /\
       m_logindex x = m_logindex m /\ m_entries x = m_entries m /\ m_snapshot x = m_snapshot m).
Proof.
  unfold send. destruct (finalize_term r (m <| m_from := r_id r |>)) as [m'|] eqn:E.
  - exists [m']. split; [reflexivity|]. right. exists m'. split; [reflexivity|].
    unfold finalize_term in E.
    destruct (_ && _); [discriminate|]. destruct (_ && _); [discriminate|].
    destruct (_ && _); inversion E; repeat split; reflexivity.
  - exists []. split; [cbn; now rewrite app_nil_r|]. left. reflexivity.
Qed.

Lemma set_peer_msgs r k id p : r_msgs (set_peer r k id p) = r_msgs r.
Proof. destruct k; reflexivity. Qed.

(* LogReader / inMemory: entries are handed out from [start] on, contiguous, or
   ErrCompacted *)
Lemma log_entries_from_some l start ents :
  log_entries_from l start = Some ents ->
  (log_last l < start /\ ents = []) \/
  (log_first l <= start <= log_last l /\ ents = skipn (N.to_nat (start - log_first l)) (l_ents l)).
Proof.
  unfold log_entries_from.
  destruct (log_last l <? start) eqn:A; [intros H; inversion H; left; split; [lia|reflexivity]|].
  destruct (_ && _); [discriminate|].
  destruct (start <? log_first l) eqn:B; [discriminate|].
  intros H; inversion H. right. split; [lia|reflexivity].
Qed.

Lemma log_entries_from_compacted l start :
  start < log_first l -> start <= log_last l -> log_entries_from l start = None.
Proof.
  intros A B. unfold log_entries_from.
  destruct (log_last l <? start) eqn:C; [lia|].
  destruct (_ && _); [reflexivity|].
  destruct (start <? log_first l) eqn:D; [reflexivity|lia].
Qed.

(* EVERY message sendReplicateMessage emits is either a Replicate whose entries
   are exactly the leader's log from the follower's next index on (previous index
   next-1: nothing is skipped), or — when those entries are no longer in the log —
   an InstallSnapshot carrying the leader's snapshot record; never a Replicate
   that starts above next. *)
Lemma replicate_or_snapshot_proved r to k rp :
  find_peer r to = Some (k, rp) ->
  exists new, r_msgs (send_replicate r to) = r_msgs r ++ new /\
    (new = [] \/ exists x, new = [x] /\ m_to x = to /\
      ((m_type x = mt_Replicate /\ m_logindex x = rm_next rp - 1 /\
        exists ents0, log_entries_from (r_log r) (rm_next rp) = Some ents0 /\
          m_entries x = match k with KWitness => make_metadata_entries ents0 | _ => ents0 end) \/
       (m_type x = mt_InstallSnapshot /\ log_entries_from (r_log r) (rm_next rp) = None /\
        ss_index (m_snapshot x) = ss_index (log_snapshot (r_log r)) /\ ss_index (m_snapshot x) <> 0))).
Proof.
  intros Hf. unfold send_replicate. rewrite Hf.
  destruct (rm_is_paused rp); [exists []; split; [now rewrite app_nil_r|left; reflexivity]|].
  destruct (log_entries_from (r_log r) (rm_next rp)) as [ents0|] eqn:E.
  - set (m := (msg0 mt_Replicate) <| m_to := to |> <| m_logindex := rm_next rp - 1 |>
                <| m_logterm := log_term (r_log r) (rm_next rp - 1) |>
                <| m_entries := match k with KWitness => make_metadata_entries ents0 | _ => ents0 end |>
                <| m_commit := l_committed (r_log r) |>).
    assert (G : forall r0, r_msgs r0 = r_msgs r ->
      exists new, r_msgs (send r0 m) = r_msgs r ++ new /\
        (new = [] \/ exists x, new = [x] /\ m_to x = to /\
          ((m_type x = mt_Replicate /\ m_logindex x = rm_next rp - 1 /\
            exists e0, Some ents0 = Some e0 /\
              m_entries x = match k with KWitness => make_metadata_entries e0 | _ => e0 end) \/
           (m_type x = mt_InstallSnapshot /\ Some ents0 = None /\
            ss_index (m_snapshot x) = ss_index (log_snapshot (r_log r)) /\ ss_index (m_snapshot x) <> 0)))).
    { intros r0 Hm. destruct (send_msgs_app r0 m) as (new & H1 & H2). exists new. rewrite H1, Hm.
      split; [reflexivity|]. destruct H2 as [H2|(x & -> & Ty & To & Li & En & _)]; [left; exact H2|right].
      exists x. split; [reflexivity|]. split; [exact To|]. left. split; [exact Ty|]. split; [exact Li|].
      exists ents0. split; [reflexivity|exact En]. }
    destruct ents0 as [|e0 es].
    + apply G. reflexivity.
    + destruct (rm_progress rp _) as [rp'|].
      * apply G. apply set_peer_msgs.
      * exists []. split; [cbn; now rewrite app_nil_r|left; reflexivity].
  - destruct (negb (rm_active rp)); [exists []; split; [now rewrite app_nil_r|left; reflexivity]|].
    destruct (is_empty_snapshot (log_snapshot (r_log r))) eqn:Z;
      [exists []; split; [cbn; now rewrite app_nil_r|left; reflexivity]|].
    set (ss' := match k with KWitness => make_witness_snapshot (log_snapshot (r_log r)) | _ => log_snapshot (r_log r) end).
    destruct (send_msgs_app (set_peer r k to (rm_become_snapshot rp (ss_index (log_snapshot (r_log r)))))
                ((msg0 mt_InstallSnapshot) <| m_to := to |> <| m_snapshot := ss' |>)) as (new & H1 & H2).
    exists new. rewrite H1, set_peer_msgs. split; [reflexivity|].
    destruct H2 as [H2|(x & -> & Ty & To & _ & _ & Sn)]; [left; exact H2|right].
    exists x. split; [reflexivity|]. split; [exact To|]. right. split; [exact Ty|]. split; [reflexivity|].
    assert (SI : ss_index ss' = ss_index (log_snapshot (r_log r))) by (subst ss'; destruct k; reflexivity).
    cbn [m_snapshot set] in Sn. rewrite Sn, SI. split; [reflexivity|].
    unfold is_empty_snapshot in Z. lia.
Qed.

(* A LAGGING FOLLOWER WHOSE ENTRIES WERE COMPACTED GETS A SNAPSHOT, NEVER A GAP:
   when the follower's next entry is below the leader's first available entry
   the only thing sendReplicateMessage can emit is an InstallSnapshot; and since
   the log is never compacted above a recorded snapshot (marker <= snapshot
   index: Props/C08.v compaction_below_recorded_snapshot) that snapshot reaches at
   least next-1 and at least the leader's marker: after installing it the follower
   needs only entries the leader still has. *)
Lemma compacted_follower_gets_snapshot_proved r to k rp :
  find_peer r to = Some (k, rp) ->
  rm_next rp < log_first (r_log r) -> rm_next rp <= log_last (r_log r) ->
  l_marker (r_log r) <= ss_index (log_snapshot (r_log r)) ->
  exists new, r_msgs (send_replicate r to) = r_msgs r ++ new /\
    (new = [] \/ exists x, new = [x] /\ m_to x = to /\ m_type x = mt_InstallSnapshot /\
       rm_next rp - 1 <= ss_index (m_snapshot x) /\
       log_first (r_log r) <= ss_index (m_snapshot x) + 1).
Proof.
  intros Hf A B W.
  destruct (replicate_or_snapshot_proved r to k rp Hf) as (new & H1 & H2).
  exists new. split; [exact H1|]. destruct H2 as [H2|(x & -> & To & [(_ & _ & e0 & E & _)|(Ty & _ & SI & _)])].
  - left. exact H2.
  - rewrite (log_entries_from_compacted _ _ A B) in E. discriminate.
  - right. exists x. split; [reflexivity|]. split; [exact To|]. split; [exact Ty|].
    rewrite SI. unfold log_first in *. lia.
Qed.
