(* Lemmas about the transport frame model (Model/Frame.v). *)
From DB Require Import Base.Bytes Base.CRC32 Model.Frame Proofs.Bytes Proofs.CRC32.
From Coq Require Import ZifyN ZifyNat ZifyBool.
Ltac Zify.zify_post_hook ::= Z.div_mod_to_equations.
Open Scope N_scope.

(* ---- lists ---- *)
Lemma firstn_app_len {A} (a b : list A) n : length a = n -> firstn n (a ++ b) = a.
Proof. intros <-. rewrite firstn_app, Nat.sub_diag, firstn_all, firstn_O, app_nil_r. reflexivity. Qed.

Lemma skipn_app_len {A} (a b : list A) n : length a = n -> skipn n (a ++ b) = b.
Proof. intros <-. rewrite skipn_app, Nat.sub_diag, skipn_all. reflexivity. Qed.

Lemma app_eq_len {A} (a a' b b' : list A) :
  length a = length a' -> a ++ b = a' ++ b' -> a = a' /\ b = b'.
Proof.
  revert a'; induction a as [|x a IH]; intros [|y a'] Hl H; simpl in *; try discriminate.
  - auto.
  - injection H as -> H. destruct (IH a' ltac:(lia) H) as [-> ->]. auto.
Qed.

Lemma bytes_eqb_eq a : forall b, bytes_eqb a b = true <-> a = b.
Proof.
  induction a as [|x a IH]; intros [|y b]; simpl; split; intros H; try discriminate; auto.
  - apply andb_true_iff in H as [H1 H2]. apply N.eqb_eq in H1. apply IH in H2. subst. reflexivity.
  - injection H as -> ->. rewrite N.eqb_refl. apply IH. reflexivity.
Qed.

Lemma bytes_eqb_refl a : bytes_eqb a a = true.
Proof. apply bytes_eqb_eq. reflexivity. Qed.

(* ---- header layout: 2 + 8 + 4 + 4 bytes at the generated offsets ---- *)
Lemma hdr_layout :
  (hdr_len, off_method, off_size, off_hcrc, off_crc) = (18, 0, 2, 10, 14)%nat.
Proof. vm_compute. reflexivity. Qed.

Lemma hdr_len_18 : hdr_len = 18%nat. Proof. vm_compute. reflexivity. Qed.

Ltac explode l :=
  repeat (destruct l as [|? l]; cbn [length] in *; try discriminate).

Lemma layout_slices (a b c d : bytes) :
  length a = 2%nat -> length b = 8%nat -> length c = 4%nat -> length d = 4%nat ->
  let hb := a ++ b ++ c ++ d in
  length hb = hdr_len /\
  slice off_method 2 hb = a /\ slice off_size 8 hb = b /\
  slice off_hcrc 4 hb = c /\ slice off_crc 4 hb = d /\
  zero_hcrc hb = a ++ b ++ [0; 0; 0; 0] ++ d.
Proof.
  intros Ha Hb Hc Hd.
  explode a. explode b. explode c. explode d.
  vm_compute. repeat split; reflexivity.
Qed.

Lemma split_header (hb : bytes) : length hb = hdr_len ->
  exists a b c d, hb = a ++ b ++ c ++ d /\
    length a = 2%nat /\ length b = 8%nat /\ length c = 4%nat /\ length d = 4%nat.
Proof.
  rewrite hdr_len_18. intros H.
  exists (firstn 2 hb), (firstn 8 (skipn 2 hb)), (firstn 4 (skipn 10 hb)), (skipn 14 hb).
  explode hb. simpl. repeat split; reflexivity.
Qed.

Lemma be4_0 : be 4 0 = [0; 0; 0; 0]. Proof. vm_compute. reflexivity. Qed.

Lemma header_bytes_wf m s v c : wf_bytes (header_bytes m s v c).
Proof.
  unfold header_bytes, wf_bytes. rewrite !Forall_app.
  repeat split; apply be_wf.
Qed.

Lemma encode_header_length h : length (encode_header h) = hdr_len.
Proof.
  unfold encode_header, header_bytes. rewrite !app_length, !be_length. rewrite hdr_len_18. reflexivity.
Qed.

Lemma encode_header_wf h : wf_bytes (encode_header h).
Proof. apply header_bytes_wf. Qed.

(* what decode_header accepts, as a predicate on the 18 bytes *)
Definition header_accepts (hb : bytes) (h : header) : Prop :=
  length hb = hdr_len /\
  be_dec (slice off_hcrc 4 hb) = crc32 (zero_hcrc hb) /\
  method_ok (be_dec (slice off_method 2 hb)) = true /\
  h = mkHeader (be_dec (slice off_method 2 hb)) (be_dec (slice off_size 8 hb))
               (be_dec (slice off_crc 4 hb)).

Lemma decode_header_iff hb h : length hb = hdr_len ->
  (decode_header hb = Some h <-> header_accepts hb h).
Proof.
  intros Hl. unfold decode_header, header_accepts.
  rewrite Hl, Nat.ltb_irrefl.
  assert (Fh : firstn hdr_len hb = hb) by (rewrite <- Hl; apply firstn_all).
  cbv zeta. rewrite !Fh.
  destruct (N.eqb_spec (be_dec (slice off_hcrc 4 hb)) (crc32 (zero_hcrc hb))) as [E|E]; cbn [negb].
  - destruct (method_ok (be_dec (slice off_method 2 hb))) eqn:M; cbn [negb].
    + split.
      * intros H. injection H as <-. auto.
      * intros (_ & _ & _ & ->). reflexivity.
    + split; [discriminate|]. intros (_ & _ & F & _). discriminate.
  - split; [discriminate|]. intros (_ & F & _). contradiction.
Qed.

Lemma encode_header_accepts h :
  wf_header h -> method_ok (h_method h) = true -> header_accepts (encode_header h) h.
Proof.
  intros (Hm & Hs & Hc) Hok.
  unfold header_accepts, encode_header.
  set (v := crc32 (header_bytes (h_method h) (h_size h) 0 (h_crc h))).
  assert (Hv : v < 2 ^ 32) by (apply crc32_lt, header_bytes_wf).
  unfold header_bytes.
  destruct (layout_slices (be 2 (h_method h)) (be 8 (h_size h)) (be 4 v) (be 4 (h_crc h)))
    as (L & S1 & S2 & S3 & S4 & Z); try apply be_length.
  cbv zeta in *. rewrite S1, S2, S3, S4, Z.
  rewrite !be_dec_be by (simpl; lia).
  repeat split; auto. destruct h; reflexivity.
Qed.

Lemma decode_encode_header h :
  wf_header h -> method_ok (h_method h) = true -> decode_header (encode_header h) = Some h.
Proof.
  intros Hw Hok. apply (decode_header_iff _ _ (encode_header_length h)).
  apply encode_header_accepts; assumption.
Qed.

Lemma decode_header_short hb : (length hb < hdr_len)%nat -> decode_header hb = None.
Proof. intros H. unfold decode_header. apply Nat.ltb_lt in H. rewrite H. reflexivity. Qed.

(* ---- the frame reader ---- *)

Definition frame_ok (enc : bool) (s : bytes) (h : header) (p rest : bytes) : Prop :=
  exists hb, s = magic ++ hb ++ p ++ rest /\ header_accepts hb h /\
    h_size h = nlen p /\ p <> [] /\ (enc = true \/ crc32 p = h_crc h).

Lemma magic_not_poison : bytes_eqb magic poison = false.
Proof. vm_compute. reflexivity. Qed.

Lemma magic_length : length magic = 2%nat. Proof. reflexivity. Qed.

Lemma read_message_iff enc s h p rest :
  read_message enc s = Delivered h p rest <->
  exists hb, s = hb ++ p ++ rest /\ header_accepts hb h /\
    h_size h = nlen p /\ p <> [] /\ (enc = true \/ crc32 p = h_crc h).
Proof.
  unfold read_message. split.
  - destruct (Nat.ltb_spec (length s) hdr_len) as [Hs|Hs]; [discriminate|].
    destruct (decode_header (firstn hdr_len s)) as [h0|] eqn:D; [|discriminate].
    assert (Hl : length (firstn hdr_len s) = hdr_len) by (rewrite firstn_length; lia).
    apply (decode_header_iff _ _ Hl) in D.
    destruct (N.eqb_spec (h_size h0) 0) as [Z|Z]; [discriminate|].
    remember (skipn hdr_len s) as body eqn:Eb.
    destruct (N.ltb_spec (nlen body) (h_size h0)) as [L|L]; [discriminate|].
    remember (N.to_nat (h_size h0)) as n eqn:En.
    destruct (negb enc && negb (crc32 (firstn n body) =? h_crc h0)) eqn:C; [discriminate|].
    intros H. injection H as <- <- <-.
    exists (firstn hdr_len s). split; [|split; [exact D|split; [|split]]].
    + rewrite (firstn_skipn n body). subst body. rewrite firstn_skipn. reflexivity.
    + unfold nlen in *. rewrite firstn_length. lia.
    + intros E. apply (f_equal (@length N)) in E. rewrite firstn_length in E.
      unfold nlen in L. simpl in E. lia.
    + apply andb_false_iff in C as [C|C].
      * left. destruct enc; [reflexivity|discriminate].
      * right. apply negb_false_iff, N.eqb_eq in C. exact C.
  - intros (hb & -> & D & Hsz & Hne & Hc).
    assert (Hl : length hb = hdr_len) by apply D.
    rewrite app_length. destruct (Nat.ltb_spec (length hb + length (p ++ rest)) hdr_len) as [F|_]; [lia|].
    rewrite (firstn_app_len _ _ _ Hl), (skipn_app_len _ _ _ Hl).
    apply (decode_header_iff _ _ Hl) in D. rewrite D.
    assert (Hp : nlen p <> 0).
    { unfold nlen. destruct p; [contradiction|simpl; lia]. }
    rewrite Hsz. destruct (N.eqb_spec (nlen p) 0) as [Z|_]; [contradiction|].
    unfold nlen at 1. rewrite app_length.
    destruct (N.ltb_spec (N.of_nat (length p + length rest)) (nlen p)) as [F|_]; [unfold nlen in F; lia|].
    assert (Hn : N.to_nat (nlen p) = length p) by (unfold nlen; lia).
    rewrite Hn, (firstn_app_len _ _ _ eq_refl), (skipn_app_len _ _ _ eq_refl).
    destruct Hc as [-> | Hc]; [reflexivity|].
    rewrite Hc, N.eqb_refl. cbn [negb]. rewrite andb_false_r. reflexivity.
Qed.

Lemma read_frame_iff enc s h p rest :
  read_frame enc s = Delivered h p rest <-> frame_ok enc s h p rest.
Proof.
  unfold read_frame, read_magic, frame_ok. split.
  - destruct (Nat.ltb_spec (length s) 2) as [Hs|Hs]; [discriminate|].
    destruct (bytes_eqb (firstn 2 s) poison) eqn:P; [discriminate|].
    destruct (bytes_eqb (firstn 2 s) magic) eqn:M; cbn [negb]; [|discriminate].
    apply bytes_eqb_eq in M.
    intros H. apply read_message_iff in H as (hb & E & H).
    exists hb. split; [|exact H].
    rewrite <- E, <- M. symmetry. apply firstn_skipn.
  - intros (hb & -> & H).
    rewrite app_length, magic_length. cbn [Nat.ltb Nat.leb plus].
    rewrite (firstn_app_len _ _ 2 magic_length), (skipn_app_len _ _ 2 magic_length).
    rewrite magic_not_poison, bytes_eqb_refl. cbn [negb].
    apply read_message_iff. exists hb. split; [reflexivity|exact H].
Qed.

(* the writer's output is delivered, with exactly the written payload, and the
   stream continues behind it *)
Lemma frame_roundtrip_proved h0 p enc rest :
  method_ok (h_method h0) = true -> h_crc h0 < 2 ^ 32 ->
  p <> [] -> wf_bytes p -> nlen p < 2 ^ 64 ->
  read_frame enc (write_message h0 p enc ++ rest) = Delivered (write_header h0 p enc) p rest.
Proof.
  intros Hm Hc Hne Hw Hl. apply read_frame_iff.
  exists (encode_header (write_header h0 p enc)).
  assert (Hwf : wf_header (write_header h0 p enc)).
  { unfold wf_header, write_header, method_ok in *. cbn.
    repeat split.
    - apply orb_true_iff in Hm as [Hm|Hm]; apply N.eqb_eq in Hm; rewrite Hm; vm_compute; reflexivity.
    - apply N.mod_lt. lia.
    - destruct enc; [exact Hc|apply crc32_lt, Hw]. }
  split; [|split; [apply encode_header_accepts; assumption|split; [|split]]].
  - unfold write_message. rewrite <- !app_assoc. reflexivity.
  - cbn. apply N.mod_small. exact Hl.
  - exact Hne.
  - destruct enc; [left; reflexivity|right; reflexivity].
Qed.

(* every proper prefix of a delivered frame is NOT delivered *)
Lemma frame_truncated_rejected_proved enc s h p rest k :
  read_frame enc s = Delivered h p rest ->
  (k < 2 + hdr_len + length p)%nat ->
  forall h' p' rest', read_frame enc (firstn k s) <> Delivered h' p' rest'.
Proof.
  intros H Hk h' p' rest' H'.
  apply read_frame_iff in H as (hb & Es & Hacc & Hsz & _).
  apply read_frame_iff in H' as (hb' & Es' & Hacc' & Hsz' & _).
  assert (Hl : length hb = hdr_len) by apply Hacc.
  assert (Hl' : length hb' = hdr_len) by apply Hacc'.
  pose proof (firstn_skipn k s) as Sp. rewrite Es' in Sp. rewrite Es in Sp at 2.
  rewrite <- !app_assoc in Sp.
  apply app_inv_head in Sp.
  apply app_eq_len in Sp as [Ehb Sp]; [|lia]. subst hb'.
  assert (h' = h).
  { destruct Hacc as (_ & _ & _ & ->). destruct Hacc' as (_ & _ & _ & ->). reflexivity. }
  subst h'.
  assert (Hlen : length p' = length p) by (unfold nlen in *; lia).
  apply (f_equal (@length N)) in Es'.
  rewrite firstn_length, !app_length, magic_length in Es'. lia.
Qed.

(* a corrupted payload of the same length is rejected when checksums are on *)
Lemma frame_payload_crc_rejected hb p p' rest h :
  read_frame false (magic ++ hb ++ p ++ rest) = Delivered h p rest ->
  length hb = hdr_len -> length p' = length p -> crc32 p' <> crc32 p ->
  read_frame false (magic ++ hb ++ p' ++ rest) = Bad.
Proof.
  intros H Hl Hlen Hcrc.
  apply read_frame_iff in H as (hb0 & Es & Hacc & Hsz & Hne & Hc).
  apply app_inv_head in Es. apply app_eq_len in Es as [<- _]; [|destruct Hacc; lia].
  destruct Hc as [F|Hc]; [discriminate|].
  unfold read_frame, read_magic.
  rewrite app_length, magic_length. cbn [Nat.ltb Nat.leb plus].
  rewrite (firstn_app_len _ _ 2 magic_length), (skipn_app_len _ _ 2 magic_length).
  rewrite magic_not_poison, bytes_eqb_refl. cbn [negb].
  unfold read_message.
  rewrite app_length. destruct (Nat.ltb_spec (length hb + length (p' ++ rest)) hdr_len) as [F|_]; [lia|].
  rewrite (firstn_app_len _ _ _ Hl), (skipn_app_len _ _ _ Hl).
  apply (decode_header_iff _ _ Hl) in Hacc. rewrite Hacc.
  assert (Hp : nlen p <> 0). { unfold nlen. destruct p; [contradiction|simpl; lia]. }
  rewrite Hsz. destruct (N.eqb_spec (nlen p) 0) as [Z|_]; [contradiction|].
  unfold nlen at 1. rewrite app_length.
  destruct (N.ltb_spec (N.of_nat (length p' + length rest)) (nlen p)) as [F|_]; [unfold nlen in F; lia|].
  assert (Hn : N.to_nat (nlen p) = length p') by (unfold nlen; lia).
  rewrite Hn, (firstn_app_len _ _ _ eq_refl).
  destruct (N.eqb_spec (crc32 p') (h_crc h)) as [E|_]; [congruence|]. reflexivity.
Qed.

(* ---- single-bit corruption of the payload (uses Proofs/CRC32.v) ---- *)
Lemma differ_one_bit_length l1 l2 : differ_one_bit l1 l2 -> length l2 = length l1.
Proof. intros (pre & post & b & k & -> & -> & _). rewrite !app_length. reflexivity. Qed.

Lemma frame_payload_bit_flip_rejected_proved hb p p' rest h :
  read_frame false (magic ++ hb ++ p ++ rest) = Delivered h p rest ->
  length hb = hdr_len -> wf_bytes p -> differ_one_bit p p' ->
  read_frame false (magic ++ hb ++ p' ++ rest) = Bad.
Proof.
  intros H Hl Hw Hd. eapply frame_payload_crc_rejected; eauto.
  - apply differ_one_bit_length. exact Hd.
  - intros E. symmetry in E. revert E. apply crc32_single_bit_detected; assumption.
Qed.

(* ---- configuration: only real (mutual) TLS switches the payload checksum off ---- *)
Lemma transport_encrypted_iff_proved c : transport_encrypted c = c_mutual_tls c.
Proof. unfold transport_encrypted. change encrypted_is_mutual_tls with true.
  change frame_calls_pass_encrypted with true. reflexivity. Qed.

Lemma frame_cfg_payload_bit_flip_rejected_proved c hb p p' rest h :
  c_mutual_tls c = false ->
  read_frame_cfg c (magic ++ hb ++ p ++ rest) = Delivered h p rest ->
  length hb = hdr_len -> wf_bytes p -> differ_one_bit p p' ->
  read_frame_cfg c (magic ++ hb ++ p' ++ rest) = Bad.
Proof.
  intros Hc. unfold read_frame_cfg, transport_encrypted.
  change encrypted_is_mutual_tls with true. change frame_calls_pass_encrypted with true.
  cbn [andb]. rewrite Hc.
  apply frame_payload_bit_flip_rejected_proved.
Qed.

(* ---- the connection loop ---- *)
Lemma read_frame_ex_fst enc s : fst (read_frame_ex enc s) = read_frame enc s.
Proof.
  unfold read_frame_ex, read_frame, read_magic, read_message.
  destruct (length s <? 2)%nat; [reflexivity|].
  destruct (bytes_eqb (firstn 2 s) poison); [reflexivity|].
  destruct (bytes_eqb (firstn 2 s) magic); cbn [negb]; [|reflexivity].
  destruct (length (skipn 2 s) <? hdr_len)%nat; [reflexivity|].
  destruct (decode_header (firstn hdr_len (skipn 2 s))) as [h|]; [|reflexivity].
  destruct (h_size h =? 0); [reflexivity|].
  destruct (nlen (skipn hdr_len (skipn 2 s)) <? h_size h); [reflexivity|].
  destruct (negb enc && negb (crc32 (firstn (N.to_nat (h_size h)) (skipn hdr_len (skipn 2 s))) =? h_crc h));
    reflexivity.
Qed.

Definition frame_in_ok (f : header * bytes) : Prop :=
  method_ok (h_method (fst f)) = true /\ h_crc (fst f) < 2 ^ 32 /\
  snd f <> [] /\ wf_bytes (snd f) /\ nlen (snd f) < 2 ^ 64.

(* good frames followed by anything the reader does not deliver: exactly the good
   frames are handed over, in order, once each, and nothing behind the bad frame *)
Lemma serve_delivers_exactly_prefix_proved enc handle frames : forall bad fuel,
  Forall (fun f => frame_in_ok f /\ handle (write_header (fst f) (snd f) enc) (snd f) = Accepted) frames ->
  (forall h p r, read_frame enc bad <> Delivered h p r) ->
  (length frames < fuel)%nat ->
  fst (fst (serve fuel enc handle (stream_of enc frames ++ bad))) =
  map (fun f => (write_header (fst f) (snd f) enc, snd f)) frames.
Proof.
  induction frames as [|f frames IH]; intros bad fuel Hok Hbad Hfuel.
  - destruct fuel as [|fuel]; [simpl in Hfuel; lia|].
    cbn [stream_of flat_map app serve map].
    pose proof (read_frame_ex_fst enc bad) as E.
    destruct (read_frame_ex enc bad) as [v u]. cbn [fst] in E. subst v.
    destruct (read_frame enc bad) as [h p r| | |] eqn:R; try reflexivity.
    exfalso. exact (Hbad h p r eq_refl).
  - inversion Hok as [|? ? [(Hm & Hc & Hne & Hw & Hl) Hacc] Hrest]; subst.
    destruct fuel as [|fuel]; [simpl in Hfuel; lia|].
    unfold stream_of. cbn [flat_map]. fold (stream_of enc frames).
    rewrite <- app_assoc. cbn [serve].
    pose proof (read_frame_ex_fst enc (write_message (fst f) (snd f) enc ++ stream_of enc frames ++ bad)) as E.
    rewrite (frame_roundtrip_proved _ _ _ _ Hm Hc Hne Hw Hl) in E.
    destruct (read_frame_ex enc (write_message (fst f) (snd f) enc ++ stream_of enc frames ++ bad)) as [v u].
    cbn [fst] in E. subst v. rewrite Hacc.
    specialize (IH bad fuel Hrest Hbad ltac:(simpl in Hfuel; lia)).
    destruct (serve fuel enc handle (stream_of enc frames ++ bad)) as [[d u'] a].
    cbn [fst] in *. cbn [map]. rewrite IH. reflexivity.
Qed.

(* a frame the reader does not deliver ends the loop at once *)
Lemma serve_stops_at_bad_proved enc handle s fuel :
  (forall h p r, read_frame enc s <> Delivered h p r) ->
  fst (fst (serve fuel enc handle s)) = [].
Proof.
  intros Hbad. destruct fuel as [|fuel]; [reflexivity|]. cbn [serve].
  pose proof (read_frame_ex_fst enc s) as E.
  destruct (read_frame_ex enc s) as [v u]. cbn [fst] in E. subst v.
  destruct (read_frame enc s) as [h p r| | |] eqn:R; try reflexivity.
  exfalso. exact (Hbad h p r eq_refl).
Qed.

Lemma serve_conn_then_close_proved : serve_conn_then_close = true.
Proof. reflexivity. Qed.
