(* C10 — tan record framing, multi-block: records of arbitrary size (first / middle / last
   chunks), block padding, records ending exactly at a block boundary, trailers smaller than
   a chunk header.  Builds on Proofs/TanRecord.v (single chunk lemmas). *)
From Coq Require Import List NArith Bool Lia.
From Coq Require Import ZifyN ZifyNat ZifyBool.
From DB Require Import Base.Bytes Proofs.Bytes Gen.GenC10 Model.TanRecord Proofs.TanRecord.
Import ListNotations.
Open Scope N_scope.
Ltac Zify.zify_post_hook ::= Z.div_mod_to_equations.

Lemma ty_vals : ty_full = 1 /\ ty_first = 2 /\ ty_middle = 3 /\ ty_last = 4.
Proof. repeat split; reflexivity. Qed.

Section TanMulti.
Variable ck : bytes -> N.
Variable lognum : N.
Hypothesis ck_u32 : forall b, ck b < 2 ^ 32.

Definition is_last_ty (ty : N) : bool := (ty =? ty_full) || (ty =? ty_last).
Definition is_first_ty (ty : N) : bool := (ty =? ty_full) || (ty =? ty_first).

(* reading one chunk of any of the four types that lies inside the current block *)
Lemma next_chunk_any : forall ty fuel wf off p rest,
  In ty [ty_full; ty_first; ty_middle; ty_last] ->
  (wf = true -> is_first_ty ty = true) ->
  off + hdr + nlen p <= blk ->
  next_chunk ck lognum (S fuel) wf off (chunk ck ty p ++ rest)
  = ChOk p (is_last_ty ty) ((off + hdr + nlen p) mod blk) rest.
Proof.
  intros ty fuel wf off p rest Hty Hwf Hfit. rewrite blk_val, hdr_val in Hfit.
  assert (Hp : nlen p < 65536) by lia.
  destruct (header_shape ck ck_u32 ty p Hp) as (a & b & c & d & e & f & HS & HC & HL).
  rewrite chunk_header, HS. cbn [next_chunk].
  set (suf := ([a; b; c; d; e; f; ty] ++ p) ++ rest).
  assert (LS : nlen suf = 7 + nlen p + nlen rest).
  { unfold suf. rewrite !nlen_app. cbn. lia. }
  assert (R7 : hdr <=? N.min (blk - off) (nlen suf) = true).
  { rewrite blk_val, hdr_val. apply N.leb_le. lia. }
  rewrite R7.
  assert (T4 : takeN 4 suf = [a; b; c; d]) by reflexivity.
  assert (T2 : takeN 2 (dropN 4 suf) = [e; f]) by reflexivity.
  assert (T6 : nth 6 suf 0 = ty) by reflexivity.
  rewrite T4, T2, T6, HC, HL.
  assert (Z : (ty =? 0) = false).
  { cbn [In] in Hty. destruct Hty as [<-|[<-|[<-|[<-|[]]]]]; reflexivity. }
  rewrite Z, andb_false_r.
  assert (RC : (c10_tan_recyclable_full_chunk <=? ty) && (ty <=? c10_tan_recyclable_last_chunk) = false).
  { cbn [In] in Hty. destruct Hty as [<-|[<-|[<-|[<-|[]]]]]; reflexivity. }
  rewrite RC. cbn [andb].
  assert (R : N.min (blk - off) (nlen suf) <? hdr + nlen p = false).
  { rewrite blk_val, hdr_val. apply N.ltb_ge. lia. }
  rewrite R.
  assert (TK : takeN (hdr + nlen p) suf = [a; b; c; d; e; f; ty] ++ p).
  { unfold suf. replace (hdr + nlen p) with (nlen ([a; b; c; d; e; f; ty] ++ p)).
    - apply takeN_app.
    - rewrite nlen_app. reflexivity. }
  rewrite TK.
  assert (D6 : dropN 6 ([a; b; c; d; e; f; ty] ++ p) = ty :: p) by reflexivity.
  rewrite D6, N.eqb_refl. cbn [negb].
  assert (DK : dropN (hdr + nlen p) suf = rest).
  { unfold suf. replace (hdr + nlen p) with (nlen ([a; b; c; d; e; f; ty] ++ p)).
    - apply dropN_app.
    - rewrite nlen_app. reflexivity. }
  rewrite DK.
  assert (PK : takeN (nlen p) (dropN hdr suf) = p).
  { unfold suf. rewrite <- app_assoc.
    change (dropN hdr ([a; b; c; d; e; f; ty] ++ p ++ rest)) with (p ++ rest). apply takeN_app. }
  rewrite PK.
  fold (is_first_ty ty). fold (is_last_ty ty).
  destruct wf.
  - rewrite (Hwf eq_refl). reflexivity.
  - reflexivity.
Qed.

(* the block has no room for a header: the reader moves to the next block, whatever the
   bytes left in this one are *)
Lemma next_chunk_jump : forall fuel wf off pad rest,
  off < blk -> blk < off + hdr -> nlen pad = blk - off -> rest <> [] ->
  next_chunk ck lognum (S fuel) wf off (pad ++ rest) = next_chunk ck lognum fuel wf 0 rest.
Proof.
  intros fuel wf off pad rest Ho Hp Hl Hr. rewrite blk_val, hdr_val in *. cbn [next_chunk].
  assert (L : nlen (pad ++ rest) = blk - off + nlen rest) by (rewrite nlen_app, Hl, blk_val; reflexivity).
  assert (R : hdr <=? N.min (blk - off) (nlen (pad ++ rest)) = false).
  { apply N.leb_gt. rewrite L, blk_val, hdr_val. lia. }
  rewrite R.
  assert (R2 : blk - off <=? nlen (pad ++ rest) = true).
  { apply N.leb_le. rewrite L. lia. }
  rewrite R2.
  assert (D : dropN (blk - off) (pad ++ rest) = rest).
  { rewrite blk_val, <- Hl. apply dropN_app. }
  rewrite D. destruct rest; [congruence|reflexivity].
Qed.

Lemma read_rest_last : forall fuel acc off suf,
  read_rest ck lognum fuel acc true off suf = RecOk acc off suf.
Proof. intros. destruct fuel; reflexivity. Qed.

Lemma takeN_dropN : forall {A} n (l : list A), takeN n l ++ dropN n l = l.
Proof. intros. apply firstn_skipn. Qed.

Lemma length_dropN : forall {A} n (l : list A), length (dropN n l) = (length l - N.to_nat n)%nat.
Proof. intros. unfold dropN. apply skipn_length. Qed.

Lemma add_blk_mod : forall x, (blk + x) mod blk = x mod blk.
Proof.
  intros. rewrite N.add_mod by (rewrite blk_val; lia). rewrite N.mod_same by (rewrite blk_val; lia).
  rewrite N.add_0_l. apply N.mod_mod. rewrite blk_val; lia.
Qed.

(* the chunks after the first one: they start at a block start *)
Lemma emit_rest_read : forall fe p acc fr rest,
  (length p < fe)%nat -> (length p < fr)%nat ->
  read_rest ck lognum fr acc false 0 (emit ck fe false (blk - hdr) p ++ rest)
  = RecOk (acc ++ p) (nlen (emit ck fe false (blk - hdr) p) mod blk) rest.
Proof.
  induction fe as [|f IH]; intros p acc fr rest Hfe Hfr; [lia|].
  destruct fr as [|fr']; [lia|].
  cbn [emit]. destruct (nlen p <=? blk - hdr) eqn:E.
  - apply N.leb_le in E. cbn [read_rest].
    rewrite (next_chunk_any ty_last _ false 0 p rest).
    + rewrite read_rest_last. rewrite chunk_len, N.add_0_l. reflexivity.
    + cbn; auto.
    + discriminate.
    + rewrite blk_val, hdr_val in *. lia.
  - apply N.leb_gt in E.
    assert (LT : nlen (takeN (blk - hdr) p) = blk - hdr) by (apply nlen_takeN; lia).
    rewrite <- app_assoc. cbn [read_rest].
    rewrite (next_chunk_any ty_middle _ false 0 (takeN (blk - hdr) p)).
    + rewrite LT. replace ((0 + hdr + (blk - hdr)) mod blk) with 0 by reflexivity.
      change (is_last_ty ty_middle) with false.
      rewrite IH.
      * rewrite <- app_assoc, takeN_dropN. f_equal.
        rewrite nlen_app, chunk_len, LT.
        replace (hdr + (blk - hdr)) with blk by reflexivity. now rewrite add_blk_mod.
      * rewrite length_dropN, blk_val, hdr_val. unfold nlen in E. rewrite blk_val, hdr_val in E. lia.
      * rewrite length_dropN, blk_val, hdr_val. unfold nlen in E. rewrite blk_val, hdr_val in E. lia.
    + cbn; auto.
    + discriminate.
    + rewrite LT, blk_val, hdr_val. lia.
Qed.

Lemma emit_S : forall f first avail p,
  emit ck (S f) first avail p =
  if nlen p <=? avail then chunk ck (if first then ty_full else ty_last) p
  else chunk ck (if first then ty_first else ty_middle) (takeN avail p)
       ++ emit ck f false (blk - hdr) (dropN avail p).
Proof. reflexivity. Qed.

Lemma chunk_length : forall ty p, length (chunk ck ty p) = (7 + length p)%nat.
Proof.
  intros. pose proof (chunk_len ck ty p) as L. unfold nlen in L. rewrite hdr_val in L. lia.
Qed.

Lemma emit_rest_len : forall fe p, (length p < fe)%nat ->
  (length p + 7 <= length (emit ck fe false (blk - hdr) p))%nat.
Proof.
  induction fe as [|f IH]; intros p H; [lia|]. cbn [emit].
  destruct (nlen p <=? blk - hdr) eqn:E.
  - rewrite chunk_length. lia.
  - apply N.leb_gt in E. rewrite app_length, chunk_length.
    assert (LT : nlen (takeN (blk - hdr) p) = blk - hdr) by (apply nlen_takeN; lia).
    assert (D : (length (dropN (blk - hdr) p) < f)%nat).
    { rewrite length_dropN, blk_val, hdr_val. unfold nlen in E. rewrite blk_val, hdr_val in E. lia. }
    specialize (IH _ D). rewrite length_dropN in IH. unfold nlen in LT. lia.
Qed.

Lemma emit_first_len : forall avail p,
  (length p + 7 <= length (emit ck (S (S (length p))) true avail p))%nat.
Proof.
  intros. rewrite emit_S. destruct (nlen p <=? avail) eqn:E.
  - rewrite chunk_length. lia.
  - apply N.leb_gt in E. rewrite app_length, chunk_length.
    assert (LT : nlen (takeN avail p) = avail) by (apply nlen_takeN; lia).
    assert (D : (length (dropN avail p) < S (length p))%nat) by (rewrite length_dropN; lia).
    pose proof (emit_rest_len _ _ D) as IH. rewrite length_dropN in IH. unfold nlen in LT, E. lia.
Qed.

(* the first chunk of a record written at block offset off (the header fits), then the rest *)
Lemma first_chunk_read : forall off p rest fn fr,
  off + hdr <= blk -> (length p < fr)%nat ->
  match next_chunk ck lognum (S fn) true off
          (emit ck (S (S (length p))) true (blk - (off + hdr)) p ++ rest) with
  | ChStop v => RecStop v
  | ChOk x l off' suf' => read_rest ck lognum fr x l off' suf'
  end
  = RecOk p ((off + nlen (emit ck (S (S (length p))) true (blk - (off + hdr)) p)) mod blk) rest.
Proof.
  intros off p rest fn fr Hoff Hfr. rewrite emit_S.
  destruct (nlen p <=? blk - (off + hdr)) eqn:E.
  - apply N.leb_le in E.
    rewrite (next_chunk_any ty_full fn true off p rest).
    + rewrite read_rest_last, chunk_len, !N.add_assoc. reflexivity.
    + cbn; auto.
    + reflexivity.
    + rewrite blk_val, hdr_val in *. lia.
  - apply N.leb_gt in E.
    assert (LT : nlen (takeN (blk - (off + hdr)) p) = blk - (off + hdr)) by (apply nlen_takeN; lia).
    rewrite <- app_assoc.
    rewrite (next_chunk_any ty_first fn true off (takeN (blk - (off + hdr)) p)).
    + rewrite LT. replace (off + hdr + (blk - (off + hdr))) with blk by lia.
      rewrite N.mod_same by (rewrite blk_val; lia).
      change (is_last_ty ty_first) with false.
      rewrite emit_rest_read.
      * rewrite takeN_dropN. f_equal.
        rewrite nlen_app, chunk_len, LT.
        replace (off + (hdr + (blk - (off + hdr)) + nlen (emit ck (S (length p)) false (blk - hdr) (dropN (blk - (off + hdr)) p))))
          with (blk + nlen (emit ck (S (length p)) false (blk - hdr) (dropN (blk - (off + hdr)) p))) by lia.
        now rewrite add_blk_mod.
      * rewrite length_dropN. lia.
      * rewrite length_dropN. lia.
    + cbn; auto.
    + reflexivity.
    + rewrite LT. lia.
Qed.

Lemma nlen_zeros : forall n, nlen (zeros n) = n.
Proof. intros. unfold nlen, zeros. rewrite repeat_length. lia. Qed.

(* reading back one record where the writer put it *)
Lemma read_record_written : forall pos p rest,
  read_record ck lognum (pos mod blk) (write_record ck pos p ++ rest)
  = RecOk p ((pos + nlen (write_record ck pos p)) mod blk) rest.
Proof.
  intros pos p rest. unfold write_record. cbv zeta.
  set (off := pos mod blk).
  assert (Ho : off < blk) by (apply N.mod_lt; rewrite blk_val; lia).
  unfold pad_len. destruct (blk <? off + hdr) eqn:EP.
  - (* padding, the record starts in the next block *)
    apply N.ltb_lt in EP.
    replace ((off + (blk - off)) mod blk) with 0.
    2:{ replace (off + (blk - off)) with blk by lia. symmetry. apply N.mod_same. rewrite blk_val; lia. }
    set (E := emit ck (S (S (length p))) true (blk - (0 + hdr)) p).
    pose proof (emit_first_len (blk - (0 + hdr)) p) as LE. fold E in LE.
    unfold read_record. rewrite <- app_assoc.
    destruct (length (zeros (blk - off) ++ E ++ rest)) as [|k] eqn:LS.
    { rewrite !app_length in LS. lia. }
    rewrite (next_chunk_jump (S k) true off (zeros (blk - off)) (E ++ rest)); auto.
    + unfold E. rewrite first_chunk_read.
      * f_equal. fold E. rewrite nlen_app, nlen_zeros.
        unfold off in *. rewrite blk_val, hdr_val in *. lia.
      * rewrite hdr_val, blk_val. lia.
      * rewrite !app_length in LS. lia.
    + apply nlen_zeros.
    + intro X. apply (f_equal (@length N)) in X. rewrite app_length in X.
      change (length (@nil N)) with 0%nat in X. lia.
  - (* the header fits into the current block *)
    apply N.ltb_ge in EP. cbn [zeros N.to_nat repeat app].
    rewrite N.add_0_r. replace (off mod blk) with off by (symmetry; apply N.mod_small; exact Ho).
    set (E := emit ck (S (S (length p))) true (blk - (off + hdr)) p).
    pose proof (emit_first_len (blk - (off + hdr)) p) as LE. fold E in LE.
    unfold read_record. unfold E. rewrite first_chunk_read.
    + f_equal. fold E. unfold off in *. rewrite blk_val, hdr_val in *. lia.
    + exact EP.
    + fold E. rewrite app_length. lia.
Qed.

Lemma replay_from_written : forall rs k pos tail,
  replay_from ck lognum (length rs + k) (pos mod blk) (frame_from ck pos rs ++ tail)
  = let (rs', v) := replay_from ck lognum k ((pos + nlen (frame_from ck pos rs)) mod blk) tail in
    (rs ++ rs', v).
Proof.
  induction rs as [|r t IH]; intros k pos tail; cbn [frame_from length plus app].
  - change (nlen (@nil N)) with 0. rewrite N.add_0_r.
    destruct (replay_from ck lognum k (pos mod blk) tail); reflexivity.
  - cbv zeta. cbn [replay_from]. rewrite <- app_assoc, read_record_written, IH.
    rewrite nlen_app, N.add_assoc.
    destruct (replay_from ck lognum k
                ((pos + nlen (write_record ck pos r) + nlen (frame_from ck (pos + nlen (write_record ck pos r)) t)) mod blk) tail).
    reflexivity.
Qed.

Lemma write_record_len : forall pos p, (length p + 7 <= length (write_record ck pos p))%nat.
Proof.
  intros. unfold write_record. cbv zeta. rewrite app_length.
  pose proof (emit_first_len (blk - ((pos mod blk + pad_len (pos mod blk)) mod blk + hdr)) p). lia.
Qed.

Lemma frame_from_len : forall rs pos, (length rs <= length (frame_from ck pos rs))%nat.
Proof.
  induction rs as [|r t IH]; intros pos; cbn [frame_from length]; [lia|].
  cbv zeta. rewrite app_length. pose proof (write_record_len pos r). specialize (IH (pos + nlen (write_record ck pos r))). lia.
Qed.

(* ROUNDTRIP: records of arbitrary sizes *)
Theorem tan_replay_roundtrip_proved : forall rs, replay ck lognum (frame ck rs) = (rs, VEof).
Proof.
  intros rs. unfold replay, frame.
  pose proof (frame_from_len rs 0) as L.
  replace (S (length (frame_from ck 0 rs))) with (length rs + S (length (frame_from ck 0 rs) - length rs))%nat by lia.
  pose proof (replay_from_written rs (S (length (frame_from ck 0 rs) - length rs)) 0 []) as RW.
  change (0 mod blk) with 0 in RW. rewrite app_nil_r in RW. rewrite RW, replay_from_nil.
  - now rewrite app_nil_r.
  - apply N.mod_lt. rewrite blk_val. lia.
Qed.

(* whatever follows the complete records: if the reader rejects its first record there (for
   any reason), replay returns exactly the complete records and that verdict *)
Theorem tan_replay_rejected_tail_proved : forall rs g v,
  read_record ck lognum (nlen (frame ck rs) mod blk) g = RecStop v ->
  replay ck lognum (frame ck rs ++ g) = (rs, v).
Proof.
  intros rs g v H. unfold replay, frame in *.
  pose proof (frame_from_len rs 0) as L.
  pose proof (replay_from_written rs (S (length (frame_from ck 0 rs ++ g) - length rs)) 0 g) as RW.
  change (0 mod blk) with 0 in RW. rewrite N.add_0_l in RW.
  replace (S (length (frame_from ck 0 rs ++ g))) with (length rs + S (length (frame_from ck 0 rs ++ g) - length rs))%nat
    by (rewrite app_length; lia).
  rewrite RW. cbn [replay_from]. rewrite H. now rewrite app_nil_r.
Qed.

(* ---------------- torn tails ---------------- *)

Lemma takeN_app_ge : forall {A} n (a b : list A), nlen a <= n -> takeN n (a ++ b) = a ++ takeN (n - nlen a) b.
Proof.
  intros A n a b H. unfold takeN, nlen in *. rewrite firstn_app. f_equal.
  - apply firstn_all2. lia.
  - f_equal. lia.
Qed.

Lemma takeN_all : forall {A} n (l : list A), nlen l <= n -> takeN n l = l.
Proof. intros A n l H. unfold takeN, nlen in *. apply firstn_all2. lia. Qed.

(* a chunk cut anywhere before its end: the reader stops, with a verdict open() recovers from *)
Lemma torn_chunk_any : forall ty fuel wf off p c,
  In ty [ty_full; ty_first; ty_middle; ty_last] ->
  off < blk -> off + hdr + nlen p <= blk -> c < hdr + nlen p ->
  exists v, next_chunk ck lognum (S fuel) wf off (takeN c (chunk ck ty p)) = ChStop v /\
            recoverable v = true.
Proof.
  intros ty fuel wf off p c Hty Ho Hfit Hcut. rewrite blk_val, hdr_val in *.
  assert (Hp : nlen p < 65536) by lia.
  destruct (header_shape ck ck_u32 ty p Hp) as (a & b & c0 & d & e & f & HS & HC & HL).
  rewrite chunk_header, HS.
  set (full := [a; b; c0; d; e; f; ty] ++ p).
  assert (LF : nlen full = 7 + nlen p) by (unfold full; rewrite nlen_app; reflexivity).
  assert (LT : nlen (takeN c full) = c) by (apply nlen_takeN; lia).
  cbn [next_chunk].
  destruct (N.lt_ge_cases c 7) as [C|C].
  - (* the header is torn (or absent) *)
    replace (hdr <=? N.min (blk - off) (nlen (takeN c full))) with false.
    2:{ symmetry. apply N.leb_gt. rewrite LT, blk_val, hdr_val. lia. }
    replace (blk - off <=? nlen (takeN c full)) with false.
    2:{ symmetry. apply N.leb_gt. rewrite LT, blk_val. lia. }
    destruct (takeN c full) as [|x l].
    + destruct (off =? 0), wf; eexists; split; reflexivity.
    + eexists; split; reflexivity.
  - (* the header is complete, the payload is torn *)
    assert (TS : takeN c full = [a; b; c0; d; e; f; ty] ++ takeN (c - 7) p).
    { unfold full. rewrite takeN_app_ge by (cbn; lia). reflexivity. }
    replace (hdr <=? N.min (blk - off) (nlen (takeN c full))) with true.
    2:{ symmetry. apply N.leb_le. rewrite LT, blk_val, hdr_val. lia. }
    rewrite TS.
    set (suf := [a; b; c0; d; e; f; ty] ++ takeN (c - 7) p).
    assert (T4 : takeN 4 suf = [a; b; c0; d]) by reflexivity.
    assert (T2 : takeN 2 (dropN 4 suf) = [e; f]) by reflexivity.
    assert (T6 : nth 6 suf 0 = ty) by reflexivity.
    rewrite T4, T2, T6, HC, HL.
    assert (Z : (ty =? 0) = false).
    { cbn [In] in Hty. destruct Hty as [<-|[<-|[<-|[<-|[]]]]]; reflexivity. }
    rewrite Z, andb_false_r.
    assert (RC : (c10_tan_recyclable_full_chunk <=? ty) && (ty <=? c10_tan_recyclable_last_chunk) = false).
    { cbn [In] in Hty. destruct Hty as [<-|[<-|[<-|[<-|[]]]]]; reflexivity. }
    rewrite RC. cbn [andb].
    replace (N.min (blk - off) (nlen suf) <? hdr + nlen p) with true.
    + eexists; split; reflexivity.
    + symmetry. apply N.ltb_lt. unfold suf. rewrite <- TS, LT, blk_val, hdr_val. lia.
Qed.

(* the chunks after the first one, cut anywhere *)
Lemma emit_rest_torn : forall fe p acc fr c,
  (length p < fe)%nat -> (N.to_nat c < fr)%nat ->
  c < nlen (emit ck fe false (blk - hdr) p) ->
  exists v, read_rest ck lognum fr acc false 0 (takeN c (emit ck fe false (blk - hdr) p)) = RecStop v /\
            recoverable v = true.
Proof.
  induction fe as [|f IH]; intros p acc fr c Hfe Hfr Hc; [lia|].
  destruct fr as [|fr']; [lia|].
  rewrite emit_S in *. destruct (nlen p <=? blk - hdr) eqn:E.
  - apply N.leb_le in E. rewrite chunk_len in Hc. cbn [read_rest].
    destruct (torn_chunk_any ty_last (length (takeN c (chunk ck ty_last p))) false 0 p c) as (v & EV & RV).
    + cbn; auto.
    + rewrite blk_val; lia.
    + rewrite blk_val, hdr_val in *. lia.
    + exact Hc.
    + rewrite EV. eauto.
  - apply N.leb_gt in E.
    assert (LT : nlen (takeN (blk - hdr) p) = blk - hdr) by (apply nlen_takeN; lia).
    set (X := takeN (blk - hdr) p) in *.
    assert (LC : nlen (chunk ck ty_middle X) = blk).
    { rewrite chunk_len, LT. reflexivity. }
    destruct (N.lt_ge_cases c blk) as [C|C].
    + (* inside the middle chunk *)
      rewrite takeN_app_le by lia. cbn [read_rest].
      destruct (torn_chunk_any ty_middle (length (takeN c (chunk ck ty_middle X))) false 0 X c) as (v & EV & RV).
      * cbn; auto.
      * rewrite blk_val; lia.
      * rewrite LT, blk_val, hdr_val. lia.
      * rewrite LT. replace (hdr + (blk - hdr)) with blk by reflexivity. exact C.
      * rewrite EV. eauto.
    + (* the middle chunk is complete *)
      rewrite takeN_app_ge by lia. rewrite LC. cbn [read_rest].
      rewrite (next_chunk_any ty_middle _ false 0 X).
      * rewrite LT. replace ((0 + hdr + (blk - hdr)) mod blk) with 0 by reflexivity.
        change (is_last_ty ty_middle) with false.
        apply IH.
        -- rewrite length_dropN, blk_val, hdr_val. unfold nlen in E. rewrite blk_val, hdr_val in E. lia.
        -- rewrite blk_val in *. lia.
        -- rewrite nlen_app, LC in Hc. lia.
      * cbn; auto.
      * discriminate.
      * rewrite LT, blk_val, hdr_val. lia.
Qed.

(* the chunks of a record whose header fits at offset off, cut anywhere *)
Lemma first_chunk_torn : forall off p c fn fr,
  off < blk -> off + hdr <= blk -> (N.to_nat c < fr)%nat ->
  c < nlen (emit ck (S (S (length p))) true (blk - (off + hdr)) p) ->
  exists v,
    match next_chunk ck lognum (S fn) true off
            (takeN c (emit ck (S (S (length p))) true (blk - (off + hdr)) p)) with
    | ChStop v => RecStop v
    | ChOk x l off' suf' => read_rest ck lognum fr x l off' suf'
    end = RecStop v /\ recoverable v = true.
Proof.
  intros off p c fn fr Ho Hoff Hfr Hc. rewrite emit_S in *.
  destruct (nlen p <=? blk - (off + hdr)) eqn:E.
  - apply N.leb_le in E. rewrite chunk_len in Hc.
    destruct (torn_chunk_any ty_full fn true off p c) as (v & EV & RV).
    + cbn; auto.
    + exact Ho.
    + rewrite blk_val, hdr_val in *. lia.
    + exact Hc.
    + rewrite EV. eauto.
  - apply N.leb_gt in E.
    assert (LT : nlen (takeN (blk - (off + hdr)) p) = blk - (off + hdr)) by (apply nlen_takeN; lia).
    set (X := takeN (blk - (off + hdr)) p) in *.
    assert (LC : nlen (chunk ck ty_first X) = blk - off).
    { rewrite chunk_len, LT. rewrite blk_val, hdr_val in *. lia. }
    destruct (N.lt_ge_cases c (blk - off)) as [C|C].
    + rewrite takeN_app_le by lia.
      destruct (torn_chunk_any ty_first fn true off X c) as (v & EV & RV).
      * cbn; auto.
      * exact Ho.
      * rewrite LT. lia.
      * rewrite LT. rewrite blk_val, hdr_val in *. lia.
      * rewrite EV. eauto.
    + rewrite takeN_app_ge by lia. rewrite LC.
      rewrite (next_chunk_any ty_first fn true off X).
      * rewrite LT. replace (off + hdr + (blk - (off + hdr))) with blk by lia.
        rewrite N.mod_same by (rewrite blk_val; lia).
        change (is_last_ty ty_first) with false.
        apply emit_rest_torn.
        -- rewrite length_dropN. lia.
        -- lia.
        -- rewrite nlen_app, LC in Hc. lia.
      * cbn; auto.
      * reflexivity.
      * rewrite LT. lia.
Qed.

(* a record cut anywhere before its end (padding included) *)
Lemma read_record_torn_written : forall pos p c,
  c < nlen (write_record ck pos p) ->
  exists v, read_record ck lognum (pos mod blk) (takeN c (write_record ck pos p)) = RecStop v /\
            recoverable v = true.
Proof.
  intros pos p c. unfold write_record. cbv zeta.
  set (off := pos mod blk).
  assert (Ho : off < blk) by (apply N.mod_lt; rewrite blk_val; lia).
  unfold pad_len. destruct (blk <? off + hdr) eqn:EP.
  - apply N.ltb_lt in EP.
    replace ((off + (blk - off)) mod blk) with 0.
    2:{ replace (off + (blk - off)) with blk by lia. symmetry. apply N.mod_same. rewrite blk_val; lia. }
    set (E := emit ck (S (S (length p))) true (blk - (0 + hdr)) p).
    intros Hc. rewrite nlen_app, nlen_zeros in Hc.
    destruct (N.lt_ge_cases c (blk - off)) as [C|C].
    + (* inside the padding *)
      rewrite takeN_app_le by (rewrite nlen_zeros; lia).
      assert (LT : nlen (takeN c (zeros (blk - off))) = c) by (apply nlen_takeN; rewrite nlen_zeros; lia).
      unfold read_record.
      destruct (length (takeN c (zeros (blk - off)))) as [|k] eqn:LK; cbn [next_chunk];
        (replace (hdr <=? N.min (blk - off) (nlen (takeN c (zeros (blk - off))))) with false
           by (symmetry; apply N.leb_gt; rewrite LT; rewrite blk_val, hdr_val in *; lia));
        (replace (blk - off <=? nlen (takeN c (zeros (blk - off)))) with false
           by (symmetry; apply N.leb_gt; rewrite LT; lia));
        destruct (takeN c (zeros (blk - off))); try (destruct (off =? 0)); eexists; split; reflexivity.
    + rewrite takeN_app_ge by (rewrite nlen_zeros; lia). rewrite nlen_zeros.
      unfold read_record.
      destruct (takeN (c - (blk - off)) E) as [|x l] eqn:ET.
      * (* exactly the padding *)
        rewrite app_nil_r. cbn [next_chunk].
        replace (hdr <=? N.min (blk - off) (nlen (zeros (blk - off)))) with false
          by (symmetry; apply N.leb_gt; rewrite nlen_zeros; rewrite blk_val, hdr_val in *; lia).
        replace (blk - off <=? nlen (zeros (blk - off))) with true
          by (symmetry; apply N.leb_le; rewrite nlen_zeros; lia).
        replace (dropN (blk - off) (zeros (blk - off))) with (@nil N).
        -- eexists; split; reflexivity.
        -- pose proof (dropN_app (zeros (blk - off)) (@nil N)) as DA.
           rewrite nlen_zeros, app_nil_r in DA. now rewrite DA.
      * rewrite <- ET.
        assert (LTK : nlen (takeN (c - (blk - off)) E) = c - (blk - off)) by (apply nlen_takeN; lia).
        destruct (length (zeros (blk - off) ++ takeN (c - (blk - off)) E)) as [|k] eqn:LS.
        { rewrite app_length, ET in LS. cbn in LS. lia. }
        rewrite (next_chunk_jump (S k) true off (zeros (blk - off))); auto.
        -- unfold E. apply first_chunk_torn.
           ++ rewrite blk_val; lia.
           ++ rewrite blk_val, hdr_val; lia.
           ++ rewrite app_length in LS. unfold nlen in LTK. lia.
           ++ fold E. lia.
        -- apply nlen_zeros.
        -- rewrite ET. discriminate.
  - apply N.ltb_ge in EP. cbn [zeros N.to_nat repeat app].
    rewrite N.add_0_r. replace (off mod blk) with off by (symmetry; apply N.mod_small; exact Ho).
    intros Hc. unfold read_record. apply first_chunk_torn; auto.
    assert (LTK : nlen (takeN c (emit ck (S (S (length p))) true (blk - (off + hdr)) p)) = c)
      by (apply nlen_takeN; lia).
    unfold nlen in LTK. lia.
Qed.

(* TORN TAIL: the log is cut anywhere inside the bytes of its last record *)
Theorem tan_replay_torn_record_proved : forall rs r c,
  c < nlen (write_record ck (nlen (frame ck rs)) r) ->
  exists v, replay ck lognum (frame ck rs ++ takeN c (write_record ck (nlen (frame ck rs)) r)) = (rs, v) /\
            recoverable v = true.
Proof.
  intros rs r c Hc.
  destruct (read_record_torn_written (nlen (frame ck rs)) r c Hc) as (v & E & R).
  exists v. split; auto. now apply tan_replay_rejected_tail_proved.
Qed.

Lemma frame_from_app : forall a b pos,
  frame_from ck pos (a ++ b) = frame_from ck pos a ++ frame_from ck (pos + nlen (frame_from ck pos a)) b.
Proof.
  induction a as [|r t IH]; intros b pos; cbn [app frame_from].
  - change (nlen (@nil N)) with 0. now rewrite N.add_0_r.
  - cbv zeta. rewrite IH, <- app_assoc, nlen_app, N.add_assoc. reflexivity.
Qed.

(* every cut of a frame falls inside the bytes of exactly one record *)
Lemma cut_decompose : forall rs pos cut, cut < nlen (frame_from ck pos rs) ->
  exists rs1 r rs2 c, rs = rs1 ++ r :: rs2 /\
    c < nlen (write_record ck (pos + nlen (frame_from ck pos rs1)) r) /\
    takeN cut (frame_from ck pos rs)
    = frame_from ck pos rs1 ++ takeN c (write_record ck (pos + nlen (frame_from ck pos rs1)) r).
Proof.
  induction rs as [|r t IH]; intros pos cut H; cbn [frame_from] in *.
  - change (nlen (@nil N)) with 0 in H. lia.
  - cbv zeta in *. rewrite nlen_app in H.
    destruct (N.lt_ge_cases cut (nlen (write_record ck pos r))) as [C|C].
    + exists [], r, t, cut. cbn [frame_from app]. change (nlen (@nil N)) with 0. rewrite N.add_0_r.
      split; [reflexivity|]. split; [exact C|]. apply takeN_app_le. lia.
    + destruct (IH (pos + nlen (write_record ck pos r)) (cut - nlen (write_record ck pos r)))
        as (rs1 & r' & rs2 & c & E & HC & HT); [lia|].
      exists (r :: rs1), r', rs2, c. cbn [frame_from app]. cbv zeta.
      rewrite nlen_app, N.add_assoc. split; [now rewrite E|]. split; [exact HC|].
      rewrite takeN_app_ge by lia. rewrite HT, <- app_assoc. reflexivity.
Qed.

(* EVERY CUT POINT of the written bytes: replay returns a prefix of the written records -
   exactly those that are completely inside the cut - never a fabricated or altered record,
   and it stops with a verdict open() recovers from *)
Theorem tan_replay_any_cut_proved : forall rs cut,
  exists k v, replay ck lognum (takeN cut (frame ck rs)) = (firstn k rs, v) /\
              recoverable v = true /\
              nlen (frame ck (firstn k rs)) <= cut /\
              ((k < length rs)%nat -> cut < nlen (frame ck (firstn (S k) rs))).
Proof.
  intros rs cut. destruct (N.lt_ge_cases cut (nlen (frame ck rs))) as [C|C].
  - unfold frame in *. destruct (cut_decompose rs 0 cut C) as (rs1 & r & rs2 & c & E & HC & HT).
    rewrite N.add_0_l in *.
    destruct (tan_replay_torn_record_proved rs1 r c HC) as (v & ER & RV).
    exists (length rs1), v. unfold frame in *. rewrite HT, ER.
    assert (F : firstn (length rs1) rs = rs1).
    { rewrite E, firstn_app, Nat.sub_diag, firstn_all. cbn. apply app_nil_r. }
    assert (F2 : firstn (S (length rs1)) rs = rs1 ++ [r]).
    { rewrite E, firstn_app, firstn_all2 by lia.
      replace (S (length rs1) - length rs1)%nat with 1%nat by lia. reflexivity. }
    rewrite F, F2. split; [reflexivity|]. split; [exact RV|].
    apply (f_equal (@nlen N)) in HT. rewrite nlen_takeN in HT by lia.
    rewrite nlen_app in HT. rewrite nlen_takeN in HT by lia.
    split; [lia|]. intros _.
    rewrite frame_from_app, nlen_app. cbn [frame_from]. cbv zeta. rewrite app_nil_r, N.add_0_l. lia.
  - exists (length rs), VEof. rewrite firstn_all, takeN_all by exact C.
    split; [apply tan_replay_roundtrip_proved|]. split; [reflexivity|]. split; [exact C|lia].
Qed.

End TanMulti.

(* a chunk-shaped tail with a wrong checksum ends replay with VCrc, which open() does not
   treat as a torn tail *)
Definition w_ck (b : bytes) : N := (7 + nlen b) mod 2 ^ 32.
Lemma tan_garbage_tail_recoverable_refuted_proved :
  exists ck lognum rs g, (forall b, ck b < 2 ^ 32) /\
    replay ck lognum (frame ck rs ++ g) = (rs, VCrc) /\ recoverable VCrc = false.
Proof.
  exists w_ck, 0, [[1; 2; 3]], [0; 0; 0; 0; 1; 0; 1; 5]. split.
  - intros b. unfold w_ck. apply N.mod_lt. discriminate.
  - split; vm_compute; reflexivity.
Qed.
