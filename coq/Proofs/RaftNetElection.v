(* L2, part 1: votes and elections.  Inductive invariant [inv1] and election safety. *)
From DB Require Import Model.RaftNet Proofs.RaftNetLists.

Lemma upd_eq f i x : upd f i x i = x.
Proof. unfold upd. now rewrite Nat.eqb_refl. Qed.

Lemma upd_neq f i x j : j <> i -> upd f i x j = f j.
Proof. unfold upd. intros H. apply Nat.eqb_neq in H. now rewrite H. Qed.

Lemma updg_eq {A} (f : nat -> A) t x : updg f t x t = x.
Proof. unfold updg. now rewrite Nat.eqb_refl. Qed.

Lemma updg_neq {A} (f : nat -> A) t x u : u <> t -> updg f t x u = f u.
Proof. unfold updg. intros H. apply Nat.eqb_neq in H. now rewrite H. Qed.

(* case split on whether node [j] is the node [i] that moved *)
Ltac upd_case j i :=
  let E := fresh "E" in
  destruct (Nat.eq_dec j i) as [E|E];
  [ try (rewrite E in * ); rewrite ?upd_eq in *
  | rewrite ?(upd_neq _ _ _ _ E) in * ].

Ltac updg_case u t :=
  let E := fresh "E" in
  destruct (Nat.eq_dec u t) as [E|E];
  [ try (rewrite E in * ); rewrite ?updg_eq in *
  | rewrite ?(updg_neq _ _ _ _ E) in * ].

(* invert a step; all let-bound names are unfolded *)
Ltac inv_step H :=
  inversion H; subst; clear H;
  repeat match goal with x := _ |- _ => subst x end;
  cbv zeta in *; cbn [nodes msgs lead llog0 llog] in *.

(* resolve every [upd f k x j]: j = k (substituted) or j <> k *)
Ltac simp_upd :=
  repeat match goal with
  | |- context [upd _ ?k _ ?k] => rewrite upd_eq
  | H : context [upd _ ?k _ ?k] |- _ => rewrite upd_eq in H
  | Hne : ?j <> ?k |- context [upd _ ?k _ ?j] => rewrite (upd_neq _ k _ j Hne)
  | Hne : ?j <> ?k, H : context [upd _ ?k _ ?j] |- _ => rewrite (upd_neq _ k _ j Hne) in H
  | |- context [upd _ ?k _ ?j] =>
    destruct (Nat.eq_dec j k); [first [subst j | subst k] | ]
  | H : context [upd _ ?k _ ?j] |- _ =>
    destruct (Nat.eq_dec j k); [first [subst j | subst k] | ]
  end;
  cbn [term voted role log commit hcommit] in *.

Ltac simp_updg :=
  repeat match goal with
  | |- context [updg _ ?k _ ?k] => rewrite updg_eq
  | H : context [updg _ ?k _ ?k] |- _ => rewrite updg_eq in H
  | Hne : ?j <> ?k |- context [updg _ ?k _ ?j] => rewrite (updg_neq _ k _ j Hne)
  | Hne : ?j <> ?k, H : context [updg _ ?k _ ?j] |- _ => rewrite (updg_neq _ k _ j Hne) in H
  | |- context [updg _ ?k _ ?j] =>
    let E := fresh "Eg" in
    destruct (Nat.eq_dec j k) as [E|E]; [first [subst j | rewrite E in *] | ]
  | H : context [updg _ ?k _ ?j] |- _ =>
    let E := fresh "Eg" in
    destruct (Nat.eq_dec j k) as [E|E]; [first [subst j | rewrite E in *] | ]
  end.

(* split membership in a soup that was extended by explicit messages *)
Ltac msg_cases H :=
  simpl in H;
  repeat (destruct H as [H|H];
          [ first [ discriminate H | (inversion H; subst; clear H) ] | ]).

Section Election.
  Variable V : list id.
  Hypothesis V_nodup : NoDup V.

  Definition voted_msg (n : net) t w c : Prop := exists vl, In (Vote t w c vl) (msgs n).

  Definition vote_quorum (n : net) t c : Prop :=
    exists Q, is_quorum V Q /\ forall w, In w Q -> voted_msg n t w c.

  Definition I_vote_le n := forall t w c vl,
    In (Vote t w c vl) (msgs n) -> t <= term (nodes n w).
  Definition I_vote_cur n := forall t w c vl,
    In (Vote t w c vl) (msgs n) -> term (nodes n w) = t -> voted (nodes n w) = Some c.
  Definition I_one_vote n := forall t w c1 c2 vl1 vl2,
    In (Vote t w c1 vl1) (msgs n) -> In (Vote t w c2 vl2) (msgs n) -> c1 = c2.
  Definition I_role_term n := forall i,
    role (nodes n i) <> Follower -> 1 <= term (nodes n i).
  Definition I_lead_le n := forall t c,
    lead n t = Some c -> 1 <= t <= term (nodes n c).
  Definition I_lead_quorum n := forall t c,
    lead n t = Some c -> vote_quorum n t c.
  Definition I_lead_cand n := forall t c,
    lead n t = Some c -> term (nodes n c) = t -> role (nodes n c) <> Candidate.
  Definition I_leader n := forall i,
    role (nodes n i) = Leader -> lead n (term (nodes n i)) = Some i.

  (* the part of the election invariant that does not speak about quorums; it is
     inductive for [step V'] with ANY voter set V' as long as no term gets a second
     leader ([fresh]) -- which is where quorums come in (stage 1: fresh_fixed below;
     stage 3: from the configuration argument) *)
  Record inv1 (n : net) : Prop := {
    i_vote_le : I_vote_le n;
    i_vote_cur : I_vote_cur n;
    i_one_vote : I_one_vote n;
    i_role_term : I_role_term n;
    i_lead_le : I_lead_le n;
    i_lead_cand : I_lead_cand n;
    i_leader : I_leader n
  }.

  (* a BecomeLeader step happens in a term that had no leader so far *)
  Definition fresh (n : net) (l : label) : Prop :=
    forall i, l = LBecomeLeader i -> lead n (term (nodes n i)) = None.

  (* ---- consequences in one state ---- *)

  Lemma vote_quorum_unique n t c1 c2 :
    I_one_vote n -> vote_quorum n t c1 -> vote_quorum n t c2 -> c1 = c2.
  Proof.
    intros H1 (Q1 & (I1 & N1 & L1) & HQ1) (Q2 & (I2 & N2 & L2) & HQ2).
    destruct (quorum_intersect V Q1 Q2 I1 I2 N1 N2 L1 L2) as (x & Hx1 & Hx2).
    destruct (HQ1 x Hx1) as (vl1 & Hv1). destruct (HQ2 x Hx2) as (vl2 & Hv2).
    eapply H1; eauto.
  Qed.

  Lemma is_vote_true t c v m :
    is_vote t c v m = true -> exists vl, m = Vote t v c vl.
  Proof.
    destruct m; simpl; try discriminate. intros H.
    apply andb_prop in H. destruct H as [H H3]. apply andb_prop in H. destruct H as [H1 H2].
    apply Nat.eqb_eq in H1, H2, H3. subst. eauto.
  Qed.

  Lemma count_vote_quorum n t c :
    quorum V <= vote_count V (msgs n) t c -> vote_quorum n t c.
  Proof.
    intros H. unfold vote_count in H.
    destruct (filter_quorum V _ V_nodup H) as (Q & HQ & Hf).
    exists Q. split; [exact HQ|]. intros w Hw. specialize (Hf w Hw).
    apply existsb_exists in Hf. destruct Hf as (m & Hm & Hv).
    apply is_vote_true in Hv. destruct Hv as (vl & ->). now exists vl.
  Qed.

  Lemma candidate_quorum_not_led n i :
    inv1 n -> I_lead_quorum n -> role (nodes n i) = Candidate ->
    quorum V <= vote_count V (msgs n) (term (nodes n i)) i ->
    lead n (term (nodes n i)) = None.
  Proof.
    intros Hinv Hq0 Hrole Hq. destruct (lead n (term (nodes n i))) as [c|] eqn:Hl; [|reflexivity].
    exfalso.
    assert (c = i).
    { eapply vote_quorum_unique; [apply Hinv | apply Hq0; eauto | now apply count_vote_quorum]. }
    subst c. eapply (i_lead_cand n Hinv); eauto.
  Qed.

  (* with a fixed voter set, BecomeLeader is always fresh *)
  Lemma fresh_fixed n l n' : inv1 n -> I_lead_quorum n -> step V n l n' -> fresh n l.
  Proof.
    intros Hinv Hq Hstep i ->. inversion Hstep; subst.
    now apply candidate_quorum_not_led.
  Qed.

  (* monotonicity of the soup-only predicates *)
  Lemma voted_msg_mono n n' t w c :
    incl (msgs n) (msgs n') -> voted_msg n t w c -> voted_msg n' t w c.
  Proof. intros Hi (vl & H). exists vl. auto. Qed.

  Lemma vote_quorum_mono n n' t c :
    incl (msgs n) (msgs n') -> vote_quorum n t c -> vote_quorum n' t c.
  Proof.
    intros Hi (Q & HQ & H). exists Q. split; [exact HQ|].
    intros w Hw. eapply voted_msg_mono; eauto.
  Qed.

  (* ---- generic facts about one step ---- *)

  Lemma step_msgs_incl n l n' : step V n l n' -> incl (msgs n) (msgs n').
  Proof.
    intros H. inv_step H; intros ? Hm; simpl; auto.
  Qed.

  Lemma step_term_mono n l n' i : step V n l n' -> term (nodes n i) <= term (nodes n' i).
  Proof.
    intros H. inv_step H; try lia;
      match goal with |- context [upd _ ?k _ _] => upd_case i k end; simpl; lia.
  Qed.

  Lemma step_lead_mono n l n' t c :
    fresh n l -> step V n l n' -> lead n t = Some c -> lead n' t = Some c.
  Proof.
    intros Hf H Hl. inv_step H; try assumption.
    updg_case t (term (nodes n i)); [|assumption].
    rewrite (Hf i eq_refl) in Hl. discriminate.
  Qed.

  (* ---- preservation ---- *)

  Lemma I_vote_le_step n l n' : inv1 n -> step V n l n' -> I_vote_le n'.
  Proof.
    intros Hinv Hstep t w c vl Hin.
    pose proof (i_vote_le n Hinv t w c vl) as Hle.
    inv_step Hstep; msg_cases Hin; simp_upd; try specialize (Hle Hin); lia.
  Qed.

  Lemma I_vote_cur_step n l n' : inv1 n -> step V n l n' -> I_vote_cur n'.
  Proof.
    intros Hinv Hstep t w c vl Hin.
    pose proof (i_vote_le n Hinv t w c vl) as Hle.
    pose proof (i_vote_cur n Hinv t w c vl) as Hcur.
    inv_step Hstep; msg_cases Hin; simp_upd; intros Ht;
      try specialize (Hle Hin); auto; try lia.
    (* HandleRV by w itself on an old vote *)
    specialize (Hcur Hin Ht).
    match goal with H : _ \/ _ |- _ => destruct H as [Hv|Hv] end; congruence.
  Qed.

  Lemma I_one_vote_step n l n' : inv1 n -> step V n l n' -> I_one_vote n'.
  Proof.
    intros Hinv Hstep t w c1 c2 vl1 vl2 H1 H2.
    pose proof (i_one_vote n Hinv t w c1 c2 vl1 vl2) as Hold.
    pose proof (i_vote_le n Hinv t w) as Hle.
    pose proof (i_vote_cur n Hinv t w) as Hcur.
    inv_step Hstep; msg_cases H1; msg_cases H2; auto;
      try (match goal with H : In (Vote _ _ _ _) _ |- _ => apply Hle in H; lia end).
    - (* new vote vs old vote, HandleRV *)
      specialize (Hcur _ _ H2 eq_refl).
      match goal with H : _ \/ _ |- _ => destruct H as [Hv|Hv] end; congruence.
    - specialize (Hcur _ _ H1 eq_refl).
      match goal with H : _ \/ _ |- _ => destruct H as [Hv|Hv] end; congruence.
  Qed.

  Lemma I_role_term_step n l n' : inv1 n -> step V n l n' -> I_role_term n'.
  Proof.
    intros Hinv Hstep i.
    pose proof (i_role_term n Hinv i) as Hold.
    inv_step Hstep; simp_upd; intros Hr; try (apply Hold; congruence); try lia; congruence.
  Qed.

  Lemma I_lead_le_step n l n' : inv1 n -> step V n l n' -> I_lead_le n'.
  Proof.
    intros Hinv Hstep t c.
    pose proof (i_lead_le n Hinv t c) as Hold.
    pose proof (step_term_mono n l n' c Hstep) as Hmono.
    inv_step Hstep; try (intros Hl; specialize (Hold Hl); lia).
    simp_updg; intros Hl.
    - injection Hl as <-. rewrite upd_eq. simpl.
      pose proof (i_role_term n Hinv i) as Hr. split; [apply Hr; congruence | lia].
    - specialize (Hold Hl); lia.
  Qed.

  Lemma I_lead_quorum_step n l n' : I_lead_quorum n -> step V n l n' -> I_lead_quorum n'.
  Proof.
    intros Hq Hstep t c Hl.
    pose proof (step_msgs_incl n l n' Hstep) as Hincl.
    apply (vote_quorum_mono n n' t c Hincl).
    pose proof (Hq t c) as Hold.
    inv_step Hstep; auto.
    simp_updg; auto. injection Hl as <-. now apply count_vote_quorum.
  Qed.

  Lemma I_lead_cand_step n l n' : inv1 n -> step V n l n' -> I_lead_cand n'.
  Proof.
    intros Hinv Hstep t c.
    pose proof (i_lead_cand n Hinv t c) as Hold.
    pose proof (i_lead_le n Hinv t c) as Hle.
    inv_step Hstep; simp_upd; simp_updg; intros Hl Ht; auto; try discriminate;
      try (specialize (Hle Hl); lia); try congruence.
  Qed.

  Lemma I_leader_step n l n' : inv1 n -> fresh n l -> step V n l n' -> I_leader n'.
  Proof.
    intros Hinv Hf Hstep i.
    pose proof (i_leader n Hinv i) as Hold.
    inv_step Hstep; simp_upd; intros Hr; auto; try discriminate.
    - (* BecomeLeader, the new leader *) now rewrite updg_eq.
    - (* BecomeLeader, another leader *)
      specialize (Hold Hr). simp_updg; auto.
      rewrite (Hf i0 eq_refl) in Hold. discriminate.
  Qed.

  Lemma inv1_step n l n' : inv1 n -> fresh n l -> step V n l n' -> inv1 n'.
  Proof.
    intros Hinv Hf Hstep. constructor.
    - eapply I_vote_le_step; eauto.
    - eapply I_vote_cur_step; eauto.
    - eapply I_one_vote_step; eauto.
    - eapply I_role_term_step; eauto.
    - eapply I_lead_le_step; eauto.
    - eapply I_lead_cand_step; eauto.
    - eapply I_leader_step; eauto.
  Qed.

  Lemma inv1_init : inv1 (init).
  Proof.
    constructor; red; simpl; intros; try contradiction; try discriminate; congruence.
  Qed.

  (* stage 1: inv1 together with the vote quorums of the fixed voter set *)
  Definition inv1q (n : net) : Prop := inv1 n /\ I_lead_quorum n.

  Lemma inv1q_step n l n' : inv1q n -> step V n l n' -> inv1q n'.
  Proof.
    intros (Hinv & Hq) Hstep. split.
    - eapply inv1_step; eauto. eapply fresh_fixed; eauto.
    - eapply I_lead_quorum_step; eauto.
  Qed.

  Lemma inv1q_init : inv1q (init).
  Proof. split; [apply inv1_init | intros t c H; discriminate]. Qed.

  Lemma inv1q_steps n ls n' : inv1q n -> steps V n ls n' -> inv1q n'.
  Proof.
    intros Hinv Hs. induction Hs; [assumption|]. apply IHHs. eapply inv1q_step; eauto.
  Qed.

  Lemma inv1q_reachable n : reachable V n -> inv1q n.
  Proof. intros (ls & Hs). eapply inv1q_steps; [apply inv1q_init | exact Hs]. Qed.

  (* ---- the theorems of part 1 ---- *)

  Theorem one_vote_per_term n t w c1 c2 vl1 vl2 :
    reachable V n ->
    In (Vote t w c1 vl1) (msgs n) -> In (Vote t w c2 vl2) (msgs n) -> c1 = c2.
  Proof. intros Hr. apply (i_one_vote n (proj1 (inv1q_reachable n Hr))). Qed.

  Theorem election_safety n i j :
    reachable V n ->
    role (nodes n i) = Leader -> role (nodes n j) = Leader ->
    term (nodes n i) = term (nodes n j) -> i = j.
  Proof.
    intros Hr Hi Hj Ht. destruct (inv1q_reachable n Hr) as (Hinv & _).
    pose proof (i_leader n Hinv i Hi) as H1. pose proof (i_leader n Hinv j Hj) as H2.
    rewrite Ht in H1. congruence.
  Qed.

  (* a granted vote is the voter's recorded vote as long as it stays in that term *)
  Theorem grant_reflects_vote n t w c vl :
    reachable V n -> In (Vote t w c vl) (msgs n) ->
    t < term (nodes n w) \/ (term (nodes n w) = t /\ voted (nodes n w) = Some c).
  Proof.
    intros Hr Hin. destruct (inv1q_reachable n Hr) as (Hinv & _).
    pose proof (i_vote_le n Hinv _ _ _ _ Hin) as Hle.
    destruct (Nat.eq_dec (term (nodes n w)) t) as [E|E]; [|left; lia].
    right. split; [exact E|]. eapply (i_vote_cur n Hinv); eauto.
  Qed.

  (* within a term a node never changes its vote *)
  Theorem vote_stable_in_term n l n' w c :
    step V n l n' -> voted (nodes n w) = Some c -> term (nodes n' w) = term (nodes n w) ->
    voted (nodes n' w) = Some c.
  Proof.
    intros Hstep Hv. inv_step Hstep; simp_upd; intros Ht; auto; try lia.
    match goal with H : _ \/ _ |- _ => destruct H as [Hn|Hs] end; congruence.
  Qed.

  (* a leader always owns a quorum of votes of its term *)
  Theorem leader_has_vote_quorum n i :
    reachable V n -> role (nodes n i) = Leader ->
    vote_quorum n (term (nodes n i)) i.
  Proof.
    intros Hr Hi. destruct (inv1q_reachable n Hr) as (Hinv & Hq).
    apply Hq. now apply (i_leader n Hinv).
  Qed.

End Election.
