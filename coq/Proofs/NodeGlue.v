(* R22: lemmas about Model/NodeGlue.v - the node level wake-up rules, the node level rate limit
   refusal / drain rules, and the outcome classes of requests at shard level. *)
From DB Require Import Model.RateQuiesce Model.NodeGlue Proofs.RateQuiesce Gen.GenR22.
From Coq Require Import Arith ZifyN ZifyNat ZifyBool Lia.
Open Scope N_scope.

(* ------------------------------------------------------------------ facts the theorems need *)
Definition glue_facts : bool :=
  read_index_records_quiesce && config_change_records_quiesce && proposals_record_quiesce &&
  record_before_handle && record_hint_as_read && negb snapshot_request_records_quiesce &&
  tick_uses_quiesced_tick && tick_expires_requests_when_quiesced &&
  proposals_paused_by_rate_limit && queue_refuses_when_paused && busy_when_not_added &&
  quiesce_message_tries_enter &&
  (quiesce_threshold_factor =? 10) && (0 <? node_quiesce_election_factor) &&
  forallb (fun t => negb (memN t node_handled_types)) [mt_heartbeat; mt_heartbeat_resp; mt_read_index; mt_propose; mt_replicate; mt_request_vote; mt_request_prevote] &&
  forallb (fun t => memN t node_handled_types) [mt_local_tick; mt_quiesce; mt_snapshot_status; mt_unreachable] &&
  forallb (fun t => memN t [mt_heartbeat; mt_heartbeat_resp]) quiesce_heartbeat_types &&
  forallb (fun t => memN t quiesce_heartbeat_types) [mt_heartbeat; mt_heartbeat_resp].

Lemma glue_facts_hold : glue_facts = true.
Proof. vm_compute. reflexivity. Qed.

(* ------------------------------------------------------------------ node level: quiesce *)
Lemma record_false_wakes q : q_quiesced (q_do q (QRecord false)) = false.
Proof. unfold q_do. apply activity_wakes_proved. Qed.

Lemma read_request_wakes_node_proved n : n_quiesced (node_do n EvRead) = false.
Proof. unfold node_do, n_quiesced. cbn [node_step fst set_q n_q]. apply record_false_wakes. Qed.

Lemma config_change_wakes_node_proved n : n_quiesced (node_do n EvConfigChange) = false.
Proof. unfold node_do, n_quiesced. cbn [node_step fst set_q n_q]. apply record_false_wakes. Qed.

(* handleProposals with something in the queue *)
Lemma proposal_wakes_node_proved n sz : n_quiesced (node_do (node_do n (EvApiPropose sz)) EvProposals) = false \/ n_paused n = true.
Proof.
  destruct (n_paused n) eqn:Hp; [right; reflexivity|left].
  unfold node_do at 2. cbn [node_step]. rewrite Hp. rewrite andb_false_r. cbn [fst].
  unfold node_do, n_quiesced. cbn [node_step n_rl n_queue n_q].
  destruct (rl_step (n_rl n) RLimited) as [rl1 a]. cbn [fst n_q].
  destruct (n_queue n ++ [sz]) eqn:E; [destruct (n_queue n); discriminate|].
  apply record_false_wakes.
Qed.

Lemma taken_proposals_wake_node_proved n : n_queue n <> [] -> n_quiesced (node_do n EvProposals) = false.
Proof.
  intros Hq. unfold node_do, n_quiesced. cbn [node_step].
  destruct (rl_step (n_rl n) RLimited) as [rl1 a]. cbn [fst n_q].
  destruct (n_queue n); [congruence|]. apply record_false_wakes.
Qed.

Lemma snapshot_request_keeps_quiesce_proved n : n_q (node_do n EvSnapshotReq) = n_q n.
Proof. reflexivity. Qed.

Lemma memN_spec x l : memN x l = true <-> In x l.
Proof.
  unfold memN. rewrite existsb_exists. split.
  - intros [y [Hy He]]. apply N.eqb_eq in He. subst. exact Hy.
  - intros H. exists x. split; [exact H|apply N.eqb_refl].
Qed.

Lemma non_heartbeat_message_wakes_node_proved n t hint :
  handled_by_node t = false -> is_heartbeat_type t = false ->
  n_quiesced (node_do n (EvMsg t hint)) = false.
Proof.
  intros Hh Hb. unfold node_do, n_quiesced. cbn [node_step]. rewrite Hh. cbn [fst set_q n_q].
  unfold recorded_type. rewrite Hb, andb_false_r. cbn [andb]. rewrite Hb.
  apply record_false_wakes.
Qed.

Lemma heartbeat_types_not_handled t : is_heartbeat_type t = true -> handled_by_node t = false.
Proof.
  unfold is_heartbeat_type, handled_by_node. intros H. apply memN_spec in H.
  cbn in H. destruct H as [<-|[<-|[]]]; reflexivity.
Qed.

Lemma read_index_not_heartbeat : is_heartbeat_type mt_read_index = false.
Proof. reflexivity. Qed.

(* a heartbeat that carries a ReadIndex confirmation counts as a read *)
Lemma hinted_heartbeat_wakes_node_proved n t hint :
  is_heartbeat_type t = true -> 0 < hint -> n_quiesced (node_do n (EvMsg t hint)) = false.
Proof.
  intros Hb Hh. unfold node_do, n_quiesced. cbn [node_step]. rewrite (heartbeat_types_not_handled t Hb). cbn [fst set_q n_q].
  unfold recorded_type. rewrite Hb. assert (E : (0 <? hint) = true) by (apply N.ltb_lt; exact Hh). rewrite E.
  cbn [andb]. change (record_hint_as_read) with true. cbn [andb]. rewrite read_index_not_heartbeat.
  apply record_false_wakes.
Qed.

Lemma plain_heartbeat_wakes_after_grace_proved n t :
  is_heartbeat_type t = true -> n_quiesced n = true -> q_new_to_quiesce (n_q n) = false ->
  n_quiesced (node_do n (EvMsg t 0)) = false.
Proof.
  intros Hb Hq Hn. unfold node_do, n_quiesced. cbn [node_step]. rewrite (heartbeat_types_not_handled t Hb). cbn [fst set_q n_q].
  unfold recorded_type. rewrite Hb. change (0 <? 0) with false. rewrite andb_false_r. rewrite Hb.
  unfold record_if. change record_before_handle with true. cbn iota. unfold q_do.
  apply heartbeat_wakes_after_grace_proved; assumption.
Qed.

(* ticks of a quiesced replica: it stays quiesced, its clock advances, the grace period ends *)
Definition q_wf (q : qstate) : Prop := q_since q <= q_now q.

Lemma quiesced_tick q :
  q_quiesced q = true ->
  fst (q_step q QTick) = mkQ (q_enabled q) (q_election q) (q_now q + 1) (q_since q) (q_idle q) (q_exit q) (q_flag q).
Proof.
  intros Hq. assert (He : q_enabled q = true) by (unfold q_quiesced in Hq; apply andb_true_iff in Hq; tauto).
  cbn [q_step]. rewrite He. cbn [negb]. cbv zeta.
  assert (Hq1 : q_quiesced (mkQ true (q_election q) (q_now q + 1) (q_since q) (q_idle q) (q_exit q) (q_flag q)) = true).
  { unfold q_quiesced in *. cbn [q_enabled q_since]. rewrite He in Hq. exact Hq. }
  rewrite Hq1. cbn [negb andb fst]. reflexivity.
Qed.

Lemma node_tick_eq n : node_do n EvTick = set_q n (fst (q_step (n_q n) QTick)).
Proof. unfold node_do. cbn [node_step]. destruct (q_step (n_q n) QTick). reflexivity. Qed.

Lemma quiesced_ticks k : forall n,
  n_quiesced n = true ->
  let q' := n_q (node_run n (repeat EvTick k)) in
  q_quiesced q' = true /\ q_now q' = q_now (n_q n) + N.of_nat k /\ q_since q' = q_since (n_q n) /\ q_election q' = q_election (n_q n).
Proof.
  induction k as [|k IH]; intros n Hq; cbv zeta.
  - cbn [repeat node_run fold_left]. rewrite N.add_0_r. auto.
  - cbn [repeat]. unfold node_run. cbn [fold_left]. rewrite node_tick_eq.
    rewrite (quiesced_tick (n_q n) Hq).
    set (q1 := mkQ (q_enabled (n_q n)) (q_election (n_q n)) (q_now (n_q n) + 1) (q_since (n_q n)) (q_idle (n_q n)) (q_exit (n_q n)) (q_flag (n_q n))).
    assert (Hq1 : n_quiesced (set_q n q1) = true) by (unfold n_quiesced, q_quiesced in *; exact Hq).
    specialize (IH (set_q n q1) Hq1). cbv zeta in IH. unfold node_run in IH.
    destruct IH as [A [B [C D]]]. rewrite A, B, C, D. cbn [set_q n_q q1 q_now q_since q_election].
    repeat split; lia.
Qed.

(* after one grace period of quiesced ticks the periodic heartbeat of an awake leader wakes the replica *)
Lemma heartbeat_after_grace_ticks_wakes_proved n k :
  n_quiesced n = true -> q_wf (n_q n) -> q_election (n_q n) <= N.of_nat k ->
  n_quiesced (node_do (node_run n (repeat EvTick k)) (EvMsg mt_heartbeat 0)) = false.
Proof.
  intros Hq Hw Hk.
  pose proof (quiesced_ticks k n Hq) as H. cbv zeta in H.
  destruct H as [A [B [C D]]].
  apply plain_heartbeat_wakes_after_grace_proved; [reflexivity|exact A|].
  unfold q_new_to_quiesce. unfold n_quiesced in A. rewrite A. cbn [andb]. rewrite B, C, D.
  unfold q_wf in Hw. apply N.ltb_ge. lia.
Qed.

(* ------------------------------------------------------------------ node level: rate limit *)
Lemma refused_iff_paused_proved n sz : snd (node_step n (EvApiPropose sz)) = Some (negb (n_paused n)).
Proof. cbn [node_step]. change queue_refuses_when_paused with true. cbn [andb]. destruct (n_paused n); reflexivity. Qed.

Lemma refused_leaves_no_trace_proved n sz : snd (node_step n (EvApiPropose sz)) = Some false -> node_do n (EvApiPropose sz) = n.
Proof.
  unfold node_do. cbn [node_step]. change queue_refuses_when_paused with true. cbn [andb].
  destruct (n_paused n); cbn [fst snd]; [reflexivity|discriminate].
Qed.

Lemma paused_is_last_poll_proved n :
  n_paused (node_do n EvProposals) = n_limited (node_do n EvProposals) /\
  snd (node_step n EvProposals) = Some (n_limited (node_do n EvProposals)) /\
  n_limited (node_do n EvProposals) = match snd (rl_step (n_rl n) RLimited) with Some true => true | _ => false end.
Proof.
  unfold node_do. cbn [node_step]. destruct (rl_step (n_rl n) RLimited) as [rl1 a]. cbn [fst snd n_paused n_limited].
  change proposals_paused_by_rate_limit with true. cbn [andb]. auto.
Qed.

(* invariant of the limiter: no time stamp lies in the future *)
Definition rl_inv2 (r : rlim) : Prop :=
  rl_tick_limited r <= rl_tick r /\ Forall (fun kv => fst (snd kv) <= rl_tick r) (rl_followers r).

Lemma Forall_filter {A} (P : A -> Prop) f l : Forall P l -> Forall P (filter f l).
Proof.
  induction 1 as [|a l Ha Hl IH]; cbn [filter]; [constructor|]. destruct (f a); [constructor; assumption|assumption].
Qed.

Lemma Forall_fs_remove P id l : Forall P l -> Forall P (fs_remove id l).
Proof.
  induction 1 as [|[k v] l Ha Hl IH]; cbn [fs_remove]; [constructor|]. destruct (k =? id); [assumption|constructor; assumption].
Qed.

Lemma rl_new_inv2 max : rl_inv2 (rl_new max).
Proof. split; cbn; [lia|constructor]. Qed.

Lemma rl_step_inv2 r o : rl_inv2 r -> rl_inv2 (fst (rl_step r o)).
Proof.
  intros [Ht Hf]. destruct o; cbn [rl_step fst]; unfold rl_inv2; cbn [rl_tick rl_tick_limited rl_followers].
  - split; [lia|]. eapply Forall_impl; [|exact Hf]. cbn. intros kv H. lia.
  - split; assumption.
  - split; assumption.
  - split; assumption.
  - split; [assumption|constructor].
  - split; [assumption|]. constructor; [cbn; lia|]. apply Forall_fs_remove. exact Hf.
  - unfold limited_by_size.
    assert (Hg : Forall (fun kv => fst (snd kv) <= rl_tick r) (rl_gc r)) by (apply Forall_filter; exact Hf).
    destruct (negb (rl_enabled r)); [|destruct (negb (rl_limited r))];
      match goal with |- context [Bool.eqb ?a ?b] => destruct (Bool.eqb a b) end; cbn [fst rl_tick rl_tick_limited rl_followers];
      try (split; assumption);
      match goal with |- context [if ?c then _ else _] => destruct c end; cbn [fst rl_tick rl_tick_limited rl_followers]; split; try assumption; lia.
Qed.

Lemma rl_step_max2 r o : rl_max (fst (rl_step r o)) = rl_max r.
Proof. apply rl_step_max. Qed.

Definition node_inv (n : nnode) : Prop := rl_inv2 (n_rl n).

Lemma fold_increase_inv2 l : forall r, rl_inv2 r -> rl_inv2 (fold_left (fun r sz => rl_do r (RIncrease sz)) l r).
Proof. induction l as [|a l IH]; intros r H; cbn [fold_left]; [exact H|]. apply IH. apply rl_step_inv2. exact H. Qed.

Lemma fold_increase_max l : forall r, rl_max (fold_left (fun r sz => rl_do r (RIncrease sz)) l r) = rl_max r.
Proof. induction l as [|a l IH]; intros r; cbn [fold_left]; [reflexivity|]. rewrite IH. apply rl_step_max. Qed.

Lemma node_step_inv n e : node_inv n -> node_inv (node_do n e).
Proof.
  unfold node_inv, node_do. intros H. destruct e; cbn [node_step]; try (cbn [fst set_q set_rl n_rl]; try exact H; apply rl_step_inv2; exact H).
  - destruct (q_step (n_q n) QTick). exact H.
  - destruct (handled_by_node t); [destruct ((t =? mt_quiesce) && quiesce_message_tries_enter)|]; exact H.
  - destruct (queue_refuses_when_paused && n_paused n); exact H.
  - pose proof (rl_step_inv2 (n_rl n) RLimited H) as H1. destruct (rl_step (n_rl n) RLimited) as [rl1 a]. cbn [fst n_rl] in *.
    apply fold_increase_inv2. exact H1.
Qed.

Lemma node_step_max n e : rl_max (n_rl (node_do n e)) = rl_max (n_rl n).
Proof.
  unfold node_do. destruct e; cbn [node_step]; try (cbn [fst set_q set_rl n_rl]; try reflexivity; apply rl_step_max).
  - destruct (q_step (n_q n) QTick). reflexivity.
  - destruct (handled_by_node t); [destruct ((t =? mt_quiesce) && quiesce_message_tries_enter)|]; reflexivity.
  - destruct (queue_refuses_when_paused && n_paused n); reflexivity.
  - pose proof (rl_step_max (n_rl n) RLimited) as H1. destruct (rl_step (n_rl n) RLimited) as [rl1 a]. cbn [fst n_rl] in *.
    rewrite fold_increase_max. exact H1.
Qed.

Lemma node_run_inv es : forall n, node_inv n -> node_inv (node_run n es).
Proof. induction es as [|e es IH]; intros n H; [exact H|]. unfold node_run. cbn [fold_left]. apply IH. apply node_step_inv. exact H. Qed.

Lemma node_new_inv q e m : node_inv (node_new q e m).
Proof. apply rl_new_inv2. Qed.

(* ticks of the limiter clock *)
Lemma node_rl_ticks k : forall n,
  node_run n (repeat EvRlTick k) =
  mkNode (n_q n) (mkRL (rl_size (n_rl n)) (rl_max (n_rl n)) (rl_followers (n_rl n)) (rl_tick (n_rl n) + N.of_nat k) (rl_tick_limited (n_rl n)) (rl_limited (n_rl n)))
         (n_limited n) (n_paused n) (n_queue n).
Proof.
  induction k as [|k IH]; intros n.
  - cbn [repeat node_run fold_left]. rewrite N.add_0_r. destruct n as [q [a b c d e f] l p u]; reflexivity.
  - cbn [repeat]. unfold node_run in *. cbn [fold_left]. rewrite IH. unfold node_do. cbn [node_step fst set_rl n_q n_rl n_limited n_paused n_queue rl_do rl_step
      rl_size rl_max rl_followers rl_tick rl_tick_limited rl_limited]. f_equal. f_equal. lia.
Qed.

Definition sane_max (m : N) : Prop := 2 <= m /\ m * 7 < w64.

Lemma stale_after_quiet r :
  Forall (fun kv => fst (snd kv) <= rl_tick r) (rl_followers r) ->
  forall d, gc_tick < d ->
  filter (fun kv => fresh (rl_tick r + d) (snd kv)) (rl_followers r) = [].
Proof.
  intros Hf d Hd. induction Hf as [|kv l Hk Hl IH]; [reflexivity|]. cbn [filter]. rewrite IH.
  unfold fresh. destruct (rl_tick r + d - fst (snd kv) <=? gc_tick) eqn:E; [|reflexivity].
  apply N.leb_le in E. unfold gc_tick in *. lia.
Qed.

Lemma rl_poll_size r : rl_size (fst (rl_step r RLimited)) = rl_size r.
Proof.
  cbn [rl_step]. destruct (limited_by_size r) as [lim fs]. destruct (Bool.eqb lim (rl_limited r)); [reflexivity|].
  destruct (_ || _); reflexivity.
Qed.

Lemma rl_poll_followers r : rl_enabled r = true -> rl_followers (fst (rl_step r RLimited)) = rl_gc r.
Proof.
  intros He. cbn [rl_step]. unfold limited_by_size. rewrite He. cbn [negb].
  destruct (negb (rl_limited r)); match goal with |- context [Bool.eqb ?a ?b] => destruct (Bool.eqb a b) end; try reflexivity;
    destruct (_ || _); reflexivity.
Qed.

Lemma rl_poll_answer r : snd (rl_step r RLimited) = Some (rl_limited (fst (rl_step r RLimited))).
Proof.
  cbn [rl_step]. destruct (limited_by_size r) as [lim fs]. destruct (Bool.eqb lim (rl_limited r)); [reflexivity|].
  destruct (_ || _); reflexivity.
Qed.

Lemma stay_unlimited r :
  rl_enabled r = true -> rl_limited r = false -> max_inmem r <= rl_max r -> snd (rl_step r RLimited) = Some false.
Proof.
  intros He Hl Hm. cbn [rl_step]. unfold limited_by_size. rewrite He, Hl. cbn [negb].
  destruct (rl_max r <? max_inmem r) eqn:E; [lia|]. cbn [Bool.eqb snd]. reflexivity.
Qed.

Definition drained (m : nnode) : Prop :=
  n_limited m = false /\ n_paused m = false /\ rl_size (n_rl m) = 0 /\ rl_followers (n_rl m) = [] /\
  rl_limited (n_rl m) = false /\ n_queue m = [].

Lemma sane_enabled r : sane_max (rl_max r) -> rl_enabled r = true.
Proof. intros [H2 Hw]. unfold rl_enabled. unfold w64 in *. lia. Qed.

Lemma quiet_answer r :
  rl_size r = 0 -> sane_max (rl_max r) -> rl_gc r = [] ->
  (rl_limited r = true -> change_tick_threshold < rl_tick r - rl_tick_limited r) ->
  snd (rl_step r RLimited) = Some false.
Proof.
  intros Hs Hsane Hg Hl. pose proof (sane_enabled r Hsane) as Hen. destruct Hsane as [H2 Hw].
  assert (Hmax : max_inmem r = 0).
  { unfold max_inmem. fold (rl_gc r). rewrite Hg, Hs. reflexivity. }
  destruct (rl_limited r) eqn:El.
  - apply unlimit_when_drained_proved; [exact Hen|exact El| |right; auto].
    rewrite Hmax. rewrite N.mod_small by exact Hw. apply N.div_str_pos. lia.
  - apply stay_unlimited; [exact Hen|exact El|lia].
Qed.

Lemma quiet_poll m :
  rl_size (n_rl m) = 0 -> sane_max (rl_max (n_rl m)) -> rl_gc (n_rl m) = [] -> n_queue m = [] ->
  (rl_limited (n_rl m) = true -> change_tick_threshold < rl_tick (n_rl m) - rl_tick_limited (n_rl m)) ->
  drained (node_do m EvProposals).
Proof.
  intros Hs Hsane Hg Hq Hl.
  pose proof (quiet_answer _ Hs Hsane Hg Hl) as Ha.
  pose proof (rl_poll_answer (n_rl m)) as Hb.
  pose proof (rl_poll_size (n_rl m)) as Hc. pose proof (rl_poll_followers (n_rl m) (sane_enabled _ Hsane)) as Hd.
  unfold node_do. cbn [node_step]. rewrite Hq.
  destruct (rl_step (n_rl m) RLimited) as [r1 a]. cbn [fst snd] in *. subst a.
  injection Hb as Hb.
  cbn [fold_left fst]. unfold drained. cbn [n_limited n_paused n_rl n_queue].
  rewrite andb_false_r. repeat split; try reflexivity; try congruence.
Qed.

Definition quiet_node (n : nnode) : nnode :=
  mkNode (n_q n) (mkRL 0 (rl_max (n_rl n)) (rl_followers (n_rl n)) (rl_tick (n_rl n) + N.of_nat rl_quiet_ticks) (rl_tick_limited (n_rl n)) (rl_limited (n_rl n)))
         (n_limited n) (n_paused n) (n_queue n).

Lemma node_run_cons n e es : node_run n (e :: es) = node_run (node_do n e) es.
Proof. reflexivity. Qed.
Lemma node_run_app n a b : node_run n (a ++ b) = node_run (node_run n a) b.
Proof. apply fold_left_app. Qed.
Lemma node_run_one n e : node_run n [e] = node_do n e.
Proof. reflexivity. Qed.
Lemma node_drained_eq n :
  node_do n EvDrained = mkNode (n_q n) (mkRL 0 (rl_max (n_rl n)) (rl_followers (n_rl n)) (rl_tick (n_rl n)) (rl_tick_limited (n_rl n)) (rl_limited (n_rl n)))
                               (n_limited n) (n_paused n) (n_queue n).
Proof. reflexivity. Qed.

Lemma drain_events_eq n : node_run n drain_events = node_do (quiet_node n) EvProposals.
Proof.
  unfold drain_events. rewrite node_run_cons, node_run_app, node_run_one, node_drained_eq, node_rl_ticks.
  reflexivity.
Qed.

Lemma drained_node_accepts_proved n :
  node_inv n -> sane_max (rl_max (n_rl n)) -> n_queue n = [] -> drained (node_run n drain_events).
Proof.
  intros [Ht Hf] Hs Hq. rewrite drain_events_eq. apply quiet_poll.
  - reflexivity.
  - exact Hs.
  - unfold rl_gc, quiet_node. cbn [n_rl rl_tick rl_followers].
    apply stale_after_quiet; [exact Hf|]. unfold gc_tick, rl_quiet_ticks. change (N.of_nat 12) with 12. lia.
  - exact Hq.
  - intros _. unfold quiet_node. cbn [n_rl rl_tick rl_tick_limited].
    unfold change_tick_threshold, rl_quiet_ticks. change (N.of_nat 12) with 12. lia.
Qed.

Lemma drained_accepts m sz : drained m -> snd (node_step m (EvApiPropose sz)) = Some true.
Proof. intros [_ [Hp _]]. rewrite refused_iff_paused_proved, Hp. reflexivity. Qed.

(* idle events: nothing is added to memory, no follower reports anything but 0 *)
Definition idle_event (e : nev) : bool :=
  match e with
  | EvTick | EvMsg _ _ | EvRead | EvSnapshotReq | EvProposals | EvDrained | EvRlTick => true
  | _ => false
  end.

Lemma drained_idle_step m e : sane_max (rl_max (n_rl m)) -> drained m -> idle_event e = true -> drained (node_do m e).
Proof.
  intros Hsane [A [B [C [D [E F]]]]] Hi. destruct e; try discriminate Hi.
  - rewrite node_tick_eq. unfold drained. cbn [set_q n_limited n_paused n_rl n_queue]. auto 10.
  - unfold node_do. cbn [node_step]. destruct (handled_by_node t); [destruct ((t =? mt_quiesce) && quiesce_message_tries_enter)|];
      unfold drained; cbn [fst set_q n_limited n_paused n_rl n_queue]; auto 10.
  - unfold node_do, drained. cbn [node_step fst set_q n_limited n_paused n_rl n_queue]. auto 10.
  - unfold node_do, drained. cbn [node_step fst set_q n_limited n_paused n_rl n_queue]. auto 10.
  - apply quiet_poll; auto. unfold rl_gc. rewrite D. reflexivity. intros H. congruence.
  - unfold node_do, drained. cbn [node_step fst set_rl rl_do rl_step n_limited n_paused n_rl n_queue rl_size rl_followers rl_limited]. auto 10.
  - unfold node_do, drained. cbn [node_step fst set_rl rl_do rl_step n_limited n_paused n_rl n_queue rl_size rl_followers rl_limited]. auto 10.
Qed.

Lemma drained_stays_while_idle_proved es : forall m,
  sane_max (rl_max (n_rl m)) -> drained m -> forallb idle_event es = true -> drained (node_run m es).
Proof.
  induction es as [|e es IH]; intros m Hs Hd Hi; [exact Hd|].
  cbn [forallb] in Hi. apply andb_true_iff in Hi. destruct Hi as [Hi1 Hi2].
  unfold node_run. cbn [fold_left]. apply IH; [rewrite node_step_max; exact Hs|apply drained_idle_step; assumption|exact Hi2].
Qed.

(* ------------------------------------------------------------------ shard level: the outcome rule *)
Lemma class_lossy s h k : sh_loss s = true -> request_class s h k = OT.
Proof. intros H. unfold request_class. rewrite H. reflexivity. Qed.

Lemma class_no_quorum s h k : sh_loss s = false -> quorum_at s h = false -> request_class s h k = OF.
Proof. intros H1 H2. unfold request_class. rewrite H1, H2. reflexivity. Qed.

Lemma class_quorum s h k :
  sh_loss s = false -> quorum_at s h = true -> progress_possible s h k = true -> request_class s h k = OC.
Proof. intros H1 H2 H3. unfold request_class. rewrite H1, H2, H3. reflexivity. Qed.

Lemma class_completed_needs_quorum s h k : request_class s h k = OC -> sh_loss s = false /\ quorum_at s h = true.
Proof.
  unfold request_class. destruct (sh_loss s); [discriminate|]. destruct (quorum_at s h); [auto|discriminate].
Qed.

(* the request itself wakes the replica of a voter's host, so it does not matter that everything sleeps *)
Lemma voter_request_progresses s h k : origin_is_voter s h = true -> progress_possible s h k = true.
Proof.
  intros H. unfold progress_possible. rewrite H.
  assert (E : wakes_origin k = true) by (destruct k; reflexivity). rewrite E. cbn [andb]. apply orb_true_r.
Qed.

(* ------------------------------------------------------------------ shard level: wake-up *)
Lemma node_run_snoc n es e : node_run n (es ++ [e]) = node_do (node_run n es) e.
Proof. rewrite node_run_app. reflexivity. Qed.

Lemma applied_keeps_q n sz : n_q (node_do n (EvApplied sz)) = n_q n.
Proof. reflexivity. Qed.

Lemma replicate_wakes n : n_quiesced (node_do n (EvMsg mt_replicate 0)) = false.
Proof. apply non_heartbeat_message_wakes_node_proved; reflexivity. Qed.

Definition unconditional_path (s : shard) (h : N) (k : rkind) (r : rep) : bool :=
  (rp_id r =? h) || match k with KR => (rp_id r =? sh_leader s) || is_voting r | _ => true end.

Lemma path_wakes s h k r n :
  unconditional_path s h k r = true -> n_quiesced (node_run n (path_events s h k r)) = false.
Proof.
  unfold unconditional_path, path_events. intros H.
  destruct (rp_id r =? h) eqn:Eo.
  - destruct k.
    + change [EvApiPropose 16; EvProposals; EvMsg mt_replicate 0; EvApplied 16] with ([EvApiPropose 16; EvProposals; EvMsg mt_replicate 0] ++ [EvApplied 16]).
      rewrite node_run_snoc. unfold n_quiesced. rewrite applied_keeps_q.
      change [EvApiPropose 16; EvProposals; EvMsg mt_replicate 0] with ([EvApiPropose 16; EvProposals] ++ [EvMsg mt_replicate 0]).
      rewrite node_run_snoc. apply replicate_wakes.
    + change [EvRead; EvMsg mt_heartbeat 1] with ([EvRead] ++ [EvMsg mt_heartbeat 1]). rewrite node_run_snoc.
      apply hinted_heartbeat_wakes_node_proved; [reflexivity|lia].
    + change [EvConfigChange; EvMsg mt_replicate 0] with ([EvConfigChange] ++ [EvMsg mt_replicate 0]). rewrite node_run_snoc.
      apply replicate_wakes.
  - cbn [orb] in H. destruct k.
    + destruct (rp_id r =? sh_leader s).
      * change [EvMsg mt_propose 0; EvMsg mt_replicate 0] with ([EvMsg mt_propose 0] ++ [EvMsg mt_replicate 0]). rewrite node_run_snoc. apply replicate_wakes.
      * rewrite node_run_one. apply replicate_wakes.
    + destruct (rp_id r =? sh_leader s).
      * change [EvMsg mt_read_index 0; EvMsg mt_heartbeat_resp 1] with ([EvMsg mt_read_index 0] ++ [EvMsg mt_heartbeat_resp 1]). rewrite node_run_snoc.
        apply hinted_heartbeat_wakes_node_proved; [reflexivity|lia].
      * cbn [orb] in H. rewrite H. rewrite node_run_one. apply hinted_heartbeat_wakes_node_proved; [reflexivity|lia].
    + destruct (rp_id r =? sh_leader s).
      * change [EvMsg mt_propose 0; EvMsg mt_replicate 0] with ([EvMsg mt_propose 0] ++ [EvMsg mt_replicate 0]). rewrite node_run_snoc. apply replicate_wakes.
      * rewrite node_run_one. apply replicate_wakes.
Qed.

Lemma complete_rep_node s h k l r :
  in_component s h r = true -> rp_node (complete_rep s h k l r) = node_run (rp_node r) (path_events s h k r).
Proof. intros H. unfold complete_rep. rewrite H. destruct (rp_gate r); reflexivity. Qed.

Lemma complete_request_reps s h k :
  sh_reps (complete_request s h k) = map (complete_rep s h k (next_log s k)) (sh_reps s).
Proof. unfold complete_request. destruct (leader_live s h); reflexivity. Qed.

(* every replica of the component on the path of a completed request is awake afterwards *)
Lemma completed_request_wakes_proved s h k r :
  in_component s h r = true -> unconditional_path s h k r = true ->
  n_quiesced (rp_node (complete_rep s h k (next_log s k) r)) = false.
Proof. intros Hc Hu. rewrite complete_rep_node by exact Hc. apply path_wakes. exact Hu. Qed.

(* a non-voting replica, which takes no part in the confirmation of a read, is woken by the
   periodic heartbeat of the woken leader once its grace period is over *)
Lemma read_wakes_nonvoting_after_grace_proved s h r :
  in_component s h r = true -> unconditional_path s h KR r = false ->
  n_quiesced (rp_node r) = true -> q_wf (n_q (rp_node r)) ->
  q_election (n_q (rp_node r)) <= N.of_nat (grace_ticks s) ->
  n_quiesced (rp_node (complete_rep s h KR (next_log s KR) r)) = false.
Proof.
  intros Hc Hu Hq Hw He. rewrite complete_rep_node by exact Hc.
  unfold unconditional_path in Hu. apply orb_false_iff in Hu. destruct Hu as [H1 H2]. apply orb_false_iff in H2. destruct H2 as [H2 H3].
  unfold path_events. rewrite H1, H2, H3. rewrite node_run_snoc.
  apply heartbeat_after_grace_ticks_wakes_proved; assumption.
Qed.

(* ------------------------------------------------------------------ quiesce off: nobody ever sleeps *)
Lemma record_if_en b q hb : q_enabled (record_if b q hb) = q_enabled q.
Proof. unfold record_if, q_do. destruct b; [apply q_step_enabled|reflexivity]. Qed.

Lemma node_step_en n e : q_enabled (n_q (node_do n e)) = q_enabled (n_q n).
Proof.
  destruct e; try reflexivity.
  - rewrite node_tick_eq. apply q_step_enabled.
  - unfold node_do. cbn [node_step]. destruct (handled_by_node t); [destruct ((t =? mt_quiesce) && quiesce_message_tries_enter)|];
      cbn [fst set_q n_q]; try reflexivity; [apply q_step_enabled|apply record_if_en].
  - unfold node_do. cbn [node_step fst set_q n_q]. apply record_if_en.
  - unfold node_do. cbn [node_step fst set_q n_q]. apply record_if_en.
  - unfold node_do. cbn [node_step]. destruct (queue_refuses_when_paused && n_paused n); reflexivity.
  - unfold node_do. cbn [node_step]. destruct (rl_step (n_rl n) RLimited). cbn [fst n_q].
    destruct (n_queue n); [reflexivity|apply record_if_en].
Qed.

Lemma node_run_en es : forall n, q_enabled (n_q (node_run n es)) = q_enabled (n_q n).
Proof.
  induction es as [|e es IH]; intros n; [reflexivity|]. rewrite node_run_cons, IH. apply node_step_en.
Qed.

Lemma burst_node_en fuel : forall n sz b, q_enabled (n_q (fst (burst_node fuel n sz b))) = q_enabled (n_q n).
Proof.
  induction fuel as [|f IH]; intros n sz b; [reflexivity|]. cbn [burst_node].
  pose proof (node_step_en n (EvApiPropose sz)) as H1. unfold node_do in H1.
  destruct (node_step n (EvApiPropose sz)) as [n1 a]. cbn [fst] in H1.
  rewrite IH, node_step_en. exact H1.
Qed.

Lemma follower_report_en n : q_enabled (n_q (fst (follower_report n))) = q_enabled (n_q n).
Proof. unfold follower_report. destruct (rl_step (n_rl n) RLimited). reflexivity. Qed.

Lemma burst_rounds_en fuel : forall l f fid sz b,
  q_enabled (n_q (fst (fst (burst_rounds fuel l f fid sz b)))) = q_enabled (n_q l) /\
  q_enabled (n_q (snd (fst (burst_rounds fuel l f fid sz b)))) = q_enabled (n_q f).
Proof.
  induction fuel as [|fu IH]; intros l f fid sz b; [split; reflexivity|]. cbn [burst_rounds].
  pose proof (burst_node_en 8 l sz false) as Hl. destruct (burst_node 8 l sz false) as [l1 b1]. cbn [fst] in Hl.
  match goal with |- context [follower_report ?x] => pose proof (follower_report_en x) as Hf; destruct (follower_report x) as [f2 hint] end.
  cbn [fst] in Hf. rewrite !node_step_en in Hf.
  match goal with |- context [burst_rounds fu ?a ?c fid sz ?d] => destruct (IH a c fid sz d) as [A B] end.
  rewrite A, B, !node_step_en. split; assumption.
Qed.

Definition rep_en (b : bool) (r : rep) : Prop := q_enabled (n_q (rp_node r)) = b.
Definition shard_en (s : shard) : Prop := Forall (rep_en (sh_quiesce s)) (sh_reps s).

Lemma fresh_node_en s : q_enabled (n_q (fresh_node s)) = sh_quiesce s.
Proof. reflexivity. Qed.

Lemma map_reps_en s f :
  (forall r, rep_en (sh_quiesce s) r -> rep_en (sh_quiesce s) (f r)) -> shard_en s -> shard_en (map_reps s f).
Proof.
  intros Hf Hs. unfold shard_en, map_reps in *. cbn [set_reps sh_reps sh_quiesce].
  apply Forall_forall. intros r Hr. apply in_map_iff in Hr. destruct Hr as [r0 [<- Hin]].
  apply Hf. rewrite Forall_forall in Hs. apply Hs. exact Hin.
Qed.

Ltac en_rep := intros ?r ?Hr; unfold rep_en in *;
  repeat (match goal with |- context [if ?c then _ else _] => destruct c end);
  cbn [rp_node set_node set_applied]; rewrite ?node_run_en, ?node_step_en; auto.

Lemma complete_request_en s h k : shard_en s -> shard_en (complete_request s h k) /\ sh_quiesce (complete_request s h k) = sh_quiesce s.
Proof.
  intros Hs. split; [|unfold complete_request; destruct (leader_live s h); reflexivity].
  unfold shard_en. rewrite complete_request_reps.
  assert (Eq : sh_quiesce (complete_request s h k) = sh_quiesce s) by (unfold complete_request; destruct (leader_live s h); reflexivity).
  rewrite Eq. apply (map_reps_en s (complete_rep s h k (next_log s k))); [|exact Hs].
  unfold complete_rep. en_rep.
Qed.

Lemma apply_request_en s h k : shard_en s -> shard_en (fst (apply_request s h k)) /\ sh_quiesce (fst (apply_request s h k)) = sh_quiesce s.
Proof.
  intros Hs. unfold apply_request. destruct (request_class s h k); cbn [fst]; try (split; [exact Hs|reflexivity]).
  apply complete_request_en. exact Hs.
Qed.

Lemma proposals_en fuel : forall s h, shard_en s ->
  shard_en (fst (fst (proposals fuel s h))) /\ sh_quiesce (fst (fst (proposals fuel s h))) = sh_quiesce s.
Proof.
  induction fuel as [|f IH]; intros s h Hs; [split; [exact Hs|reflexivity]|]. cbn [proposals].
  destruct (apply_request_en s h KP Hs) as [A B]. destruct (apply_request s h KP) as [s1 c]. cbn [fst] in *.
  destruct c; cbn [fst]; try (split; assumption).
  destruct (IH s1 h A) as [C D]. destruct (proposals f s1 h) as [[s2 c2] n]. cbn [fst] in *.
  destruct c2; cbn [fst]; split; try assumption; congruence.
Qed.

Lemma wake_component_en s h : shard_en s -> shard_en (wake_component s h).
Proof. intros Hs. unfold wake_component. apply map_reps_en; [|exact Hs]. en_rep. Qed.

Lemma set_leader_en s l : shard_en s -> shard_en (set_leader s l).
Proof. intros H. exact H. Qed.

Lemma add_rep_en s id kind : shard_en s -> shard_en (add_rep s id kind).
Proof.
  intros Hs. unfold add_rep. destruct (find_rep s id).
  - apply map_reps_en; [|exact Hs]. en_rep.
  - unfold shard_en in *. cbn [set_reps sh_reps sh_quiesce]. apply Forall_app. split; [exact Hs|].
    constructor; [|constructor]. unfold rep_en. reflexivity.
Qed.

Lemma del_rep_en s id : shard_en s -> shard_en (del_rep s id).
Proof. intros Hs. unfold del_rep. apply map_reps_en; [|exact Hs]. en_rep. Qed.

Lemma heal_en s : shard_en s -> shard_en (heal s).
Proof.
  intros Hs. unfold heal. change (shard_en (map_reps s (fun r => mkRep (rp_id r) (rp_kind r) (rp_up r) false (rp_gate r) (rp_applied r) (rp_node r)))).
  apply map_reps_en; [|exact Hs]. en_rep.
Qed.

Lemma fair_en s : shard_en s -> shard_en (fst (fair s)) /\ sh_quiesce (fst (fair s)) = sh_quiesce s.
Proof.
  intros Hs. unfold fair.
  set (s2 := map_reps (heal s) _).
  assert (H2 : shard_en s2 /\ sh_quiesce s2 = sh_quiesce s).
  { split; [|reflexivity]. unfold s2. apply map_reps_en; [|apply heal_en; exact Hs]. en_rep. }
  destruct H2 as [H2 Q2].
  destruct (proposals_en 1 s2 (first_voter s2) H2) as [A B].
  destruct (proposals 1 s2 (first_voter s2)) as [[s3 c] n]. cbn [fst] in *.
  destruct c; cbn [fst]; try (split; [exact A|congruence]).
  split; [|cbn [map_reps set_reps sh_quiesce]; congruence].
  apply map_reps_en; [|exact A]. en_rep.
Qed.

Lemma burst_en s at_ k sz : shard_en s -> shard_en (fst (burst s at_ k sz)) /\ sh_quiesce (fst (burst s at_ k sz)) = sh_quiesce s.
Proof.
  intros Hs. unfold burst. destruct (find_rep s at_) as [r0|] eqn:E0; [|split; [exact Hs|reflexivity]].
  assert (H0 : rep_en (sh_quiesce s) r0).
  { unfold find_rep in E0. apply find_some in E0. destruct E0 as [Hin _]. unfold shard_en in Hs. rewrite Forall_forall in Hs. apply Hs. exact Hin. }
  destruct (negb (rp_up r0)); [split; [exact Hs|reflexivity]|].
  destruct (rp_gate r0).
  - pose proof (burst_node_en k (rp_node r0) sz false) as Hb. destruct (burst_node k (rp_node r0) sz false) as [n1 busy]. cbn [fst] in *.
    split; [|reflexivity]. apply map_reps_en; [|exact Hs]. intros r Hr. unfold rep_en in *.
    destruct (rp_id r =? at_); cbn [rp_node set_node]; congruence.
  - destruct (sh_leader s =? at_); [|split; [exact Hs|reflexivity]].
    destruct (gated_follower s at_) as [g|] eqn:Eg; [|split; [exact Hs|reflexivity]].
    assert (Hg : rep_en (sh_quiesce s) g).
    { unfold gated_follower in Eg. apply find_some in Eg. destruct Eg as [Hin _]. unfold shard_en in Hs. rewrite Forall_forall in Hs. apply Hs. exact Hin. }
    destruct (burst_rounds_en (Nat.div k 8) (rp_node r0) (rp_node g) (rp_id g) sz false) as [A B].
    destruct (burst_rounds (Nat.div k 8) (rp_node r0) (rp_node g) (rp_id g) sz false) as [[l1 f1] busy]. cbn [fst snd] in *.
    split; [|reflexivity]. apply map_reps_en; [|exact Hs]. intros r Hr. unfold rep_en in *.
    destruct (rp_id r =? at_); [|destruct (rp_id r =? rp_id g)]; cbn [rp_node set_node]; congruence.
Qed.

Lemma drain_en s : shard_en s -> shard_en (drain s).
Proof. intros Hs. unfold drain. apply map_reps_en; [|exact Hs]. en_rep. Qed.

Lemma shard_step_en s o : shard_en s -> shard_en (fst (shard_step s o)) /\ sh_quiesce (fst (shard_step s o)) = sh_quiesce s.
Proof.
  intros Hs. destruct o; cbn [shard_step].
  - destruct (proposals_en k s h Hs) as [A B]. destruct (proposals k s h) as [[s1 c] n]. cbn [fst] in *. split; assumption.
  - destruct (apply_request_en s h KR Hs) as [A B]. destruct (apply_request s h KR) as [s1 c]. cbn [fst] in *. split; assumption.
  - destruct (apply_request_en s via KCC Hs) as [A B]. destruct (apply_request s via KCC) as [s1 c]. cbn [fst] in *.
    destruct c; cbn [fst]; try (split; assumption). split; [apply add_rep_en; exact A|].
    unfold add_rep. destruct (find_rep s1 who); cbn [map_reps set_reps sh_quiesce]; exact B.
  - set (s0 := if (sh_leader s =? who) && clean_quorum s via then set_leader (wake_component s via) 0 else s).
    assert (H0 : shard_en s0 /\ sh_quiesce s0 = sh_quiesce s).
    { unfold s0. destruct ((sh_leader s =? who) && clean_quorum s via); [|split; [exact Hs|reflexivity]].
      split; [apply set_leader_en, wake_component_en; exact Hs|reflexivity]. }
    destruct H0 as [H0 Q0].
    destruct (apply_request_en s0 via KCC H0) as [A B]. destruct (apply_request s0 via KCC) as [s1 c]. cbn [fst] in *.
    destruct c; cbn [fst]; try (split; [assumption|congruence]). split; [apply del_rep_en; exact A|].
    cbn [del_rep map_reps set_reps sh_quiesce]. congruence.
  - destruct (find_rep s h) as [r|]; [|split; [exact Hs|reflexivity]]. destruct (rp_up r); [|split; [exact Hs|reflexivity]].
    cbn [fst]. split; [|reflexivity]. apply map_reps_en; [|exact Hs]. en_rep.
  - destruct (clean_quorum s h && origin_is_voter s h); cbn [fst]; [|split; [exact Hs|reflexivity]].
    destruct (sh_leader s =? h); [split; [exact Hs|reflexivity]|]. split; [apply set_leader_en, wake_component_en; exact Hs|reflexivity].
  - cbn [fst]. split; [apply set_leader_en, wake_component_en; exact Hs|reflexivity].
  - cbn [fst]. destruct (request_class s h KP); try (split; [exact Hs|reflexivity]). apply complete_request_en. exact Hs.
  - cbn [fst]. split; [|reflexivity]. apply map_reps_en; [|exact Hs]. en_rep.
  - cbn [fst]. split; [apply heal_en; exact Hs|reflexivity].
  - cbn [fst]. split; [exact Hs|reflexivity].
  - cbn [fst]. split; [|reflexivity]. apply map_reps_en; [|exact Hs]. en_rep.
  - cbn [fst]. split; [|reflexivity]. apply map_reps_en; [|exact Hs]. en_rep.
  - split; [exact Hs|reflexivity].
  - cbn [fst]. split; [|reflexivity]. apply map_reps_en; [|exact Hs]. en_rep.
  - destruct (burst_en s h k sz Hs) as [A B]. destruct (burst s h k sz) as [s1 busy]. cbn [fst] in *. split; assumption.
  - cbn [fst]. split; [apply drain_en; exact Hs|reflexivity].
  - cbn [fst]. split; [|reflexivity]. apply map_reps_en; [|exact Hs]. en_rep.
  - split; [exact Hs|reflexivity].
  - destruct (fair_en s Hs) as [A B]. destruct (fair s) as [s1 c]. cbn [fst] in *. split; assumption.
  - unfold lag. destruct (find_rep s h) as [r|]; [|split; [exact Hs|reflexivity]].
    destruct (reachable_member r && (rp_applied r <? sh_log s)); [|split; [exact Hs|reflexivity]].
    destruct (is_full r || negb (others_quiesced s h)); [|split; [exact Hs|reflexivity]].
    cbn [fst]. destruct (is_full r).
    + split; [|reflexivity]. apply (map_reps_en (wake_component s h)); [|apply wake_component_en; exact Hs]. en_rep.
    + split; [|reflexivity]. apply map_reps_en; [|exact Hs]. en_rep.
Qed.

Lemma shard_run_en ops : forall s, shard_en s -> shard_en (shard_state s ops) /\ sh_quiesce (shard_state s ops) = sh_quiesce s.
Proof.
  induction ops as [|o ops IH]; intros s Hs; [split; [exact Hs|reflexivity]|].
  unfold shard_state. cbn [shard_run].
  destruct (shard_step_en s o Hs) as [A B]. destruct (shard_step s o) as [s1 l]. cbn [fst] in *.
  destruct (IH s1 A) as [C D]. unfold shard_state in C, D. destruct (shard_run s1 ops) as [s2 ls]. cbn [fst] in *.
  split; [exact C|congruence].
Qed.

Lemma shard_init_en q e m n : shard_en (shard_init q e m n).
Proof.
  unfold shard_en, shard_init. cbn [sh_reps sh_quiesce]. apply Forall_forall. intros r Hr.
  apply in_map_iff in Hr. destruct Hr as [i [<- _]]. reflexivity.
Qed.

(* with Quiesce off every request made on a host that is connected to a quorum, while no
   messages are being lost, completes - in every state any script can reach *)
Lemma countb_pos_exists {A} (f : A -> bool) l : 0 < countb f l -> existsb f l = true.
Proof.
  unfold countb. induction l as [|a l IH]; cbn [filter length existsb]; [lia|].
  destruct (f a) eqn:E; [reflexivity|]. cbn [orb]. exact IH.
Qed.

Lemma awake_shard_progresses_proved ops e m n h k :
  let s := shard_state (shard_init false e m n) ops in
  sh_loss s = false -> quorum_at s h = true -> request_class s h k = OC.
Proof.
  cbv zeta. intros Hl Hq.
  destruct (shard_run_en ops _ (shard_init_en false e m n)) as [Hen Hqs].
  set (s := shard_state (shard_init false e m n) ops) in *.
  apply class_quorum; [exact Hl|exact Hq|].
  unfold progress_possible. assert (Hs : some_awake_voter s h = true).
  { unfold quorum_at in Hq. destruct (find_rep s h) as [r0|]; [|discriminate].
    apply andb_true_iff in Hq. destruct Hq as [_ Hq]. apply N.ltb_lt in Hq. apply countb_pos_exists in Hq.
    unfold some_awake_voter. apply existsb_exists in Hq. destruct Hq as [r [Hin Hr]]. apply existsb_exists. exists r. split; [exact Hin|].
    rewrite Hr. cbn [andb]. unfold shard_en in Hen. rewrite Forall_forall in Hen. specialize (Hen r Hin).
    unfold rep_en in Hen. rewrite Hqs in Hen. cbn [shard_init sh_quiesce] in Hen.
    unfold n_quiesced, q_quiesced. rewrite Hen. reflexivity. }
  rewrite Hs. rewrite orb_true_r. reflexivity.
Qed.

(* ------------------------------------------------------------------ the fault-free period *)
Lemma fair_period_converges_proved s : snd (fair s) = OC -> same_state (fst (fair s)) = true.
Proof.
  unfold fair. set (s2 := map_reps (heal s) _).
  destruct (proposals 1 s2 (first_voter s2)) as [[s3 c] n]. cbn [fst snd]. intros ->.
  unfold same_state. cbn [map_reps set_reps sh_reps sh_log]. apply forallb_forall. intros r Hr.
  apply in_map_iff in Hr. destruct Hr as [r0 [<- Hin]].
  destruct (is_member r0) eqn:Em.
  - cbn [set_applied rp_applied]. rewrite N.eqb_refl. apply orb_true_r.
  - rewrite Em. rewrite andb_false_r. reflexivity.
Qed.

(* a request made on a voter's host completes whenever its host is connected to a quorum and no
   messages are being lost - whatever the quiesce states are and whether or not the pinned
   leader is still there (the request wakes the origin, which campaigns) *)
Lemma voter_request_completes_proved s h k :
  sh_loss s = false -> quorum_at s h = true -> origin_is_voter s h = true -> request_class s h k = OC.
Proof. intros Hl Hq Ho. apply class_quorum; [exact Hl|exact Hq|apply voter_request_progresses; exact Ho]. Qed.

(* ------------------------------------------------------------------ the limiter engages *)
Lemma fold_max_ge l : forall a, a <= fold_left N.max l a.
Proof.
  induction l as [|x l IH]; intros a; cbn [fold_left]; [lia|].
  specialize (IH (N.max a x)). pose proof (N.le_max_l a x). lia.
Qed.

Lemma over_limit_refuses_proved n sz :
  rl_enabled (n_rl n) = true -> rl_limited (n_rl n) = false ->
  (rl_tick_limited (n_rl n) = 0 \/ change_tick_threshold < rl_tick (n_rl n) - rl_tick_limited (n_rl n)) ->
  rl_max (n_rl n) < rl_size (n_rl n) ->
  n_paused (node_do n EvProposals) = true /\ snd (node_step (node_do n EvProposals) (EvApiPropose sz)) = Some false.
Proof.
  intros He Hl Ht Hm.
  assert (Hans : snd (rl_step (n_rl n) RLimited) = Some true).
  { apply limit_when_over_proved; [exact He|exact Hl| |exact Ht].
    unfold max_inmem. pose proof (fold_max_ge (map (fun kv => snd (snd kv)) (filter (fun kv => fresh (rl_tick (n_rl n)) (snd kv)) (rl_followers (n_rl n)))) (rl_size (n_rl n))). lia. }
  destruct (paused_is_last_poll_proved n) as [A [B C]]. rewrite Hans in C.
  split; [congruence|]. rewrite refused_iff_paused_proved. rewrite A, C. reflexivity.
Qed.
