(* Lemmas about Model/Chunks.v (C15). *)
From Coq Require Import List NArith Bool Lia.
From DB Require Import Base.Bytes Model.Chunks.
Import ListNotations.
Open Scope N_scope.

(* ---------- boolean equalities ---------- *)
Lemma bytes_eqb_eq : forall a b, bytes_eqb a b = true <-> a = b.
Proof.
  induction a as [|x a IH]; destruct b as [|y b]; simpl; split; intro H; try congruence; try discriminate.
  - apply andb_true_iff in H as [H1 H2]. apply N.eqb_eq in H1. apply IH in H2. congruence.
  - inversion H; subst. rewrite N.eqb_refl. simpl. apply IH. reflexivity.
Qed.
Lemma bytes_eqb_refl : forall a, bytes_eqb a a = true.
Proof. intro a. apply bytes_eqb_eq. reflexivity. Qed.
Lemma bytes_eqb_neq : forall a b, bytes_eqb a b = false <-> a <> b.
Proof.
  intros a b. split.
  - intros H E. apply bytes_eqb_eq in E. congruence.
  - intro H. destruct (bytes_eqb a b) eqn:E; auto. apply bytes_eqb_eq in E. contradiction.
Qed.

Lemma key_eqb_eq : forall a b, key_eqb a b = true <-> a = b.
Proof.
  intros [[a1 a2] a3] [[b1 b2] b3]. unfold key_eqb. rewrite !andb_true_iff, !N.eqb_eq.
  split; [intros [[? ?] ?]; congruence | intro H; inversion H; auto].
Qed.
Lemma key_eqb_refl : forall a, key_eqb a a = true.
Proof. intro. apply key_eqb_eq. reflexivity. Qed.
Lemma key_eqb_neq : forall a b, key_eqb a b = false <-> a <> b.
Proof.
  intros a b. split.
  - intros H E. apply key_eqb_eq in E. congruence.
  - intro H. destruct (key_eqb a b) eqn:E; auto. apply key_eqb_eq in E. contradiction.
Qed.
Lemma tkey_eqb_eq : forall a b, tkey_eqb a b = true <-> a = b.
Proof.
  intros [[[a1 a2] a3] a4] [[[b1 b2] b3] b4]. unfold tkey_eqb. rewrite !andb_true_iff, !N.eqb_eq.
  split; [intros [[[? ?] ?] ?]; congruence | intro H; inversion H; auto].
Qed.
Lemma tkey_eqb_refl : forall a, tkey_eqb a a = true.
Proof. intro. apply tkey_eqb_eq. reflexivity. Qed.
Lemma tkey_eqb_neq : forall a b, tkey_eqb a b = false <-> a <> b.
Proof.
  intros a b. split.
  - intros H E. apply tkey_eqb_eq in E. congruence.
  - intro H. destruct (tkey_eqb a b) eqn:E; auto. apply tkey_eqb_eq in E. contradiction.
Qed.

(* ---------- association lists ---------- *)
Section AssocLemmas.
  Context {K A : Type} (eqb : K -> K -> bool).
  Hypothesis eqb_eq : forall a b, eqb a b = true <-> a = b.

  Lemma eqb_refl' : forall a, eqb a a = true.
  Proof. intro. apply eqb_eq. reflexivity. Qed.
  Lemma eqb_false : forall a b, a <> b -> eqb a b = false.
  Proof. intros a b H. destruct (eqb a b) eqn:E; auto. apply eqb_eq in E. contradiction. Qed.

  Lemma alookup_aset_same : forall k (a : A) l, alookup eqb k (aset eqb k a l) = Some a.
  Proof.
    induction l as [|[k' a'] l IH]; simpl.
    - rewrite eqb_refl'. reflexivity.
    - destruct (eqb k k') eqn:E; simpl.
      + rewrite eqb_refl'. reflexivity.
      + rewrite E. exact IH.
  Qed.
  Lemma alookup_aset_other : forall k k' (a : A) l, k' <> k -> alookup eqb k' (aset eqb k a l) = alookup eqb k' l.
  Proof.
    induction l as [|[k2 a2] l IH]; simpl; intro H.
    - rewrite (eqb_false _ _ H). reflexivity.
    - destruct (eqb k k2) eqn:E; simpl.
      + apply eqb_eq in E. subst k2. rewrite (eqb_false _ _ H). reflexivity.
      + destruct (eqb k' k2); auto.
  Qed.
  Lemma alookup_adel_same : forall k (l : list (K * A)), alookup eqb k (adel eqb k l) = None.
  Proof.
    induction l as [|[k' a'] l IH]; simpl; auto.
    destruct (eqb k k') eqn:E; simpl; auto. rewrite E. exact IH.
  Qed.
  Lemma alookup_adel_other : forall k k' (l : list (K * A)), k' <> k -> alookup eqb k' (adel eqb k l) = alookup eqb k' l.
  Proof.
    induction l as [|[k2 a2] l IH]; simpl; intro H; auto.
    destruct (eqb k k2) eqn:E; simpl.
    - apply eqb_eq in E. subst k2. rewrite (eqb_false _ _ H). auto.
    - destruct (eqb k' k2); auto.
  Qed.
  Lemma alookup_In : forall k (a : A) l, alookup eqb k l = Some a -> In (k, a) l.
  Proof.
    induction l as [|[k' a'] l IH]; simpl; intro H; try discriminate.
    destruct (eqb k k') eqn:E.
    - apply eqb_eq in E. inversion H; subst. auto.
    - auto.
  Qed.
  Lemma In_aset : forall k (a : A) l x, In x (aset eqb k a l) -> x = (k, a) \/ In x l.
  Proof.
    induction l as [|[k' a'] l IH]; simpl; intros x H.
    - destruct H; auto.
    - destruct (eqb k k'); simpl in H.
      + destruct H; auto.
      + destruct H; auto. apply IH in H. destruct H; auto.
  Qed.
  Lemma In_adel : forall k (l : list (K * A)) x, In x (adel eqb k l) -> In x l.
  Proof.
    induction l as [|[k' a'] l IH]; simpl; intros x H; auto.
    destruct (eqb k k'); simpl in H; auto. destruct H; auto.
  Qed.
  Lemma In_alookup_some : forall k (a : A) l, In (k, a) l -> exists a', alookup eqb k l = Some a'.
  Proof.
    induction l as [|[k' a'] l IH]; simpl; intro H; [contradiction|].
    destruct (eqb k k') eqn:E; eauto. destruct H as [H|H]; auto.
    inversion H; subst. rewrite eqb_refl' in E. discriminate.
  Qed.
End AssocLemmas.

(* ---------- path.Base ---------- *)
Definition plain_child (n : bytes) : Prop :=
  n <> [] /\ ~ In slash n /\ n <> [dot] /\ n <> [dot; dot].

Lemma take_elem_no_slash : forall l, ~ In slash (take_elem l).
Proof.
  induction l as [|c l IH]; simpl; auto.
  destruct (c =? slash) eqn:E; simpl; auto.
  intros [H|H]; auto. apply N.eqb_neq in E. congruence.
Qed.

Lemma path_base_confined_proved :
  forall p, bad_name (path_base p) = true \/ plain_child (path_base p).
Proof.
  intro p. destruct (bad_name (path_base p)) eqn:B; auto. right.
  unfold bad_name in B. apply orb_false_iff in B as [B B3]. apply orb_false_iff in B as [B1 B2].
  apply bytes_eqb_neq in B1, B2, B3.
  unfold path_base in *. destruct p as [|c p]; [congruence|].
  remember (rev (take_elem (drop_slashes (rev (c :: p))))) as e eqn:He.
  destruct e as [|x e]; [congruence|].
  repeat split; auto; try discriminate.
  rewrite He. intro H. apply in_rev in H. eapply take_elem_no_slash; eauto.
Qed.

(* ---------- the receiver ---------- *)
Arguments s_tick {D V}. Arguments s_tracked {D V}. Arguments s_temps {D V}. Arguments s_finals {D V}.
Arguments s_removed {D V}. Arguments s_out {D V}. Arguments mkState {D V}.
Arguments t_first {V}. Arguments t_v {V}. Arguments t_files {V}. Arguments t_tick {V}. Arguments t_next {V}.
Arguments mkTracked {V}. Arguments fd_files {D}. Arguments fd_flag {D}. Arguments mkFDir {D}.
Arguments Done {D V}. Arguments Panic {D V}. Arguments RIgnore {D V}. Arguments RTracked {D V}. Arguments RPanic {D V}.
Arguments VOk {V}. Arguments VBad {V}. Arguments VPanic {V}.
Arguments is_removed {D V}. Arguments full {D V}. Arguments remove_temp {D V}. Arguments untrack {D V}.
Arguments track {D V}. Arguments set_temps {D V}. Arguments set_tracked {D V}. Arguments init {D V}.
Arguments OAdd {D}. Arguments OTick {D}. Arguments ORemoved {D}. Arguments OClose {D}.
Arguments mark_removed {D V}. Arguments close {D V}. Arguments set_v {V}. Arguments fset {D}.

Ltac dmatch :=
  repeat match goal with
         | H : context [match ?x with _ => _ end] |- _ => destruct x eqn:?; try discriminate
         | H : context [if ?x then _ else _] |- _ => destruct x eqn:?; try discriminate
         end.

Section Receiver.
  Variable D : Type.
  Variable dapp : D -> D -> D.
  Variable V : Type.
  Variable vinit : V.
  Variable vadd : V -> D -> N -> vres V.
  Variable vfinal : V -> bool.
  Variables fix_mid fix_first : bool.
  Variables my_did gc_tick timeout max_slots : N.

  Notation state := (state D V).
  Notation chunk := (chunk D).
  Notation recordM := (record D V vinit vadd fix_first max_slots).
  Notation addM := (add D dapp V vinit vadd vfinal fix_mid fix_first my_did max_slots).
  Notation add_lockedM := (add_locked D dapp V vinit vadd vfinal fix_mid fix_first max_slots).
  Notation tickM := (tick D V gc_tick timeout).
  Notation stepM := (step D dapp V vinit vadd vfinal fix_mid fix_first my_did gc_tick timeout max_slots).
  Notation runM := (run D dapp V vinit vadd vfinal fix_mid fix_first my_did gc_tick timeout max_slots).

  Definition good (m : cmeta) : Prop := c_did m = my_did /\ c_binver m = transport_bin_version.

  (* the chunk is the next expected chunk of a tracked stream, from the sender that started it *)
  Definition expected (st : state) (m : cmeta) : Prop :=
    exists td, alookup key_eqb (key_of m) (s_tracked st) = Some td /\
               t_next td = c_id m /\ c_from (t_first td) = c_from m.

  Lemma foreign_rejected_proved :
    forall (st : state) (c : chunk),
      c_did (fst c) <> my_did \/ c_binver (fst c) <> transport_bin_version ->
      addM st c = Done st false.
  Proof.
    intros st c H. unfold add.
    destruct H as [H|H]; apply N.eqb_neq in H; rewrite H; simpl; auto.
    rewrite orb_true_r. reflexivity.
  Qed.

  Lemma add_good : forall (st : state) c st' b, addM st c = Done st' b -> b = true -> good (fst c).
  Proof.
    intros st c st' b H Hb. subst b. unfold add in H.
    destruct (c_did (fst c) =? my_did) eqn:E1; simpl in H; [|inversion H].
    destruct (c_binver (fst c) =? transport_bin_version) eqn:E2; simpl in H; [|inversion H].
    split; apply N.eqb_eq; auto.
  Qed.

  Lemma record_removed : forall (st : state) c st1 td,
      recordM st c = RTracked st1 td -> s_removed st1 = s_removed st.
  Proof.
    intros st [m d] st1 td H. unfold record in H.
    dmatch; inversion H; subst; simpl; auto;
      repeat match goal with |- context [match ?x with _ => _ end] => destruct x end; reflexivity.
  Qed.

  Lemma record_tracked_expected : forall (st : state) c st1 td,
      recordM st c = RTracked st1 td -> c_id (fst c) = 0 \/ expected st (fst c).
  Proof.
    intros st [m d] st1 td H. unfold record in H. simpl.
    destruct (c_id m =? 0) eqn:E0; [left; apply N.eqb_eq; auto|right].
    destruct (alookup key_eqb (key_of m) (s_tracked st)) as [td0|] eqn:L; [|discriminate].
    destruct (t_next td0 =? c_id m) eqn:E1; simpl in H; [|discriminate].
    destruct (c_from (t_first td0) =? c_from m) eqn:E2; simpl in H; [|discriminate].
    exists td0. repeat split; auto; apply N.eqb_eq; auto.
  Qed.

  Lemma accepted_only_next_proved :
    forall (st : state) (c : chunk) st',
      addM st c = Done st' true ->
      good (fst c) /\ is_removed st (node_of (fst c)) = false /\
      (c_id (fst c) = 0 \/ expected st (fst c)).
  Proof.
    intros st c st' H. split; [eapply add_good; eauto|].
    unfold add in H. destruct (_ || _); [inversion H|].
    destruct c as [m d]. unfold add_locked in H.
    destruct (recordM st (m, d)) as [s|st1 td|] eqn:R; try discriminate.
    pose proof (record_removed _ _ _ _ R) as HR.
    pose proof (record_tracked_expected _ _ _ _ R) as HE.
    destruct (is_removed st1 (node_of m)) eqn:RM; [inversion H|].
    split; auto. unfold is_removed in *. rewrite <- HR. exact RM.
  Qed.

  (* chunks that are ignored without any effect *)
  Definition ignorable (st : state) (c : chunk) : Prop :=
    let m := fst c in
    (c_did m <> my_did \/ c_binver m <> transport_bin_version) \/
    (c_id m <> 0 /\ ~ expected st m) \/
    (c_id m = 0 /\ c_hasfi m = false /\ exists v, vadd vinit (snd c) 0 = VBad v) \/
    (c_id m = 0 /\ alookup key_eqb (key_of m) (s_tracked st) = None /\ full max_slots st = true /\
     (c_hasfi m = true \/ exists v, vadd vinit (snd c) 0 = VOk v)).

  Lemma ignorable_no_effect_proved :
    fix_first = true ->
    forall (st : state) (c : chunk), ignorable st c -> addM st c = Done st false.
  Proof.
    intros FF st c [H|H]; [apply foreign_rejected_proved; auto|].
    unfold add. destruct (_ || _); auto.
    destruct c as [m d]. simpl in H. unfold add_locked.
    assert (R : recordM st (m, d) = RIgnore st).
    { unfold record. rewrite FF. destruct H as [[Hid Hne]|[[Hid [Hfi [v Hv]]]|[Hid [Hl [Hf Hv]]]]].
      - apply N.eqb_neq in Hid. rewrite Hid.
        destruct (alookup key_eqb (key_of m) (s_tracked st)) as [td|] eqn:L; auto.
        destruct (t_next td =? c_id m) eqn:E1; simpl; auto.
        destruct (c_from (t_first td) =? c_from m) eqn:E2; simpl; auto.
        exfalso. apply Hne. exists td. repeat split; auto; apply N.eqb_eq; auto.
      - rewrite Hid. simpl. rewrite Hfi. simpl in Hv. rewrite Hv. reflexivity.
      - rewrite Hid. simpl. rewrite Hl. rewrite Hf.
        destruct (c_hasfi m); auto. destruct Hv as [Hv|[v Hv]]; [discriminate|].
        simpl in Hv. rewrite Hv. reflexivity. }
    rewrite R. reflexivity.
  Qed.
End Receiver.

(* ---------- the statements of Props/C15.v: the model with the regenerated repair flags ---------- *)
Notation fixm := drop_stream_on_invalid_chunk.
Notation fixf := first_chunk_validated_before_discard.

Lemma foreign_did_binver_rejected_gen :
  forall D dapp V vinit vadd vfinal my_did max_slots (st : state D V) (c : chunk D),
    c_did (fst c) <> my_did \/ c_binver (fst c) <> transport_bin_version ->
    add D dapp V vinit vadd vfinal fixm fixf my_did max_slots st c = Done st false.
Proof. intros. apply foreign_rejected_proved. assumption. Qed.

Lemma only_next_chunk_accepted_gen :
  forall D dapp V vinit vadd vfinal my_did max_slots (st st' : state D V) (c : chunk D),
    add D dapp V vinit vadd vfinal fixm fixf my_did max_slots st c = Done st' true ->
    good my_did (fst c) /\ is_removed st (node_of (fst c)) = false /\
    (c_id (fst c) = 0 \/ expected D V st (fst c)).
Proof. intros until c. apply accepted_only_next_proved. Qed.

Lemma rejected_chunk_has_no_effect_gen :
  forall D dapp V vinit vadd vfinal my_did max_slots (st : state D V) (c : chunk D),
    ignorable D V vinit vadd my_did max_slots st c ->
    add D dapp V vinit vadd vfinal fixm fixf my_did max_slots st c = Done st false.
Proof. intros until c. apply ignorable_no_effect_proved. reflexivity. Qed.
