(* Lemmas about Model/Chunks.v (C15). *)
From Coq Require Import List NArith Bool Lia.
From DB Require Import Base.Bytes Model.Chunks.
Import ListNotations.
Open Scope N_scope.

(* ---------- boolean equalities ---------- *)
Lemma bytes_eqb_eq : forall a b, bytes_eqb a b = true <-> a = b.
Proof.
  induction a as [|x a IH]; destruct b as [|y b]; simpl; split; intro H; try congruence; try discriminate.
  - apply andb_true_iff in H as [H1 H2]. apply N.eqb_eq in H1. apply IH in H2. congruence.
  - inversion H; subst. rewrite N.eqb_refl. simpl. apply IH. reflexivity.
Qed.
Lemma bytes_eqb_refl : forall a, bytes_eqb a a = true.
Proof. intro a. apply bytes_eqb_eq. reflexivity. Qed.
Lemma bytes_eqb_neq : forall a b, bytes_eqb a b = false <-> a <> b.
Proof.
  intros a b. split.
  - intros H E. apply bytes_eqb_eq in E. congruence.
  - intro H. destruct (bytes_eqb a b) eqn:E; auto. apply bytes_eqb_eq in E. contradiction.
Qed.

Lemma key_eqb_eq : forall a b, key_eqb a b = true <-> a = b.
Proof.
  intros [[a1 a2] a3] [[b1 b2] b3]. unfold key_eqb. rewrite !andb_true_iff, !N.eqb_eq.
  split; [intros [[? ?] ?]; congruence | intro H; inversion H; auto].
Qed.
Lemma key_eqb_refl : forall a, key_eqb a a = true.
Proof. intro. apply key_eqb_eq. reflexivity. Qed.
Lemma key_eqb_neq : forall a b, key_eqb a b = false <-> a <> b.
Proof.
  intros a b. split.
  - intros H E. apply key_eqb_eq in E. congruence.
  - intro H. destruct (key_eqb a b) eqn:E; auto. apply key_eqb_eq in E. contradiction.
Qed.
Lemma tkey_eqb_eq : forall a b, tkey_eqb a b = true <-> a = b.
Proof.
  intros [[[a1 a2] a3] a4] [[[b1 b2] b3] b4]. unfold tkey_eqb. rewrite !andb_true_iff, !N.eqb_eq.
  split; [intros [[[? ?] ?] ?]; congruence | intro H; inversion H; auto].
Qed.
Lemma tkey_eqb_refl : forall a, tkey_eqb a a = true.
Proof. intro. apply tkey_eqb_eq. reflexivity. Qed.
Lemma tkey_eqb_neq : forall a b, tkey_eqb a b = false <-> a <> b.
Proof.
  intros a b. split.
  - intros H E. apply tkey_eqb_eq in E. congruence.
  - intro H. destruct (tkey_eqb a b) eqn:E; auto. apply tkey_eqb_eq in E. contradiction.
Qed.

(* ---------- association lists ---------- *)
Section AssocLemmas.
  Context {K A : Type} (eqb : K -> K -> bool).
  Hypothesis eqb_eq : forall a b, eqb a b = true <-> a = b.

  Lemma eqb_refl' : forall a, eqb a a = true.
  Proof. intro. apply eqb_eq. reflexivity. Qed.
  Lemma eqb_false : forall a b, a <> b -> eqb a b = false.
  Proof. intros a b H. destruct (eqb a b) eqn:E; auto. apply eqb_eq in E. contradiction. Qed.

  Lemma alookup_aset_same : forall k (a : A) l, alookup eqb k (aset eqb k a l) = Some a.
  Proof.
    induction l as [|[k' a'] l IH]; simpl.
    - rewrite eqb_refl'. reflexivity.
    - destruct (eqb k k') eqn:E; simpl.
      + rewrite eqb_refl'. reflexivity.
      + rewrite E. exact IH.
  Qed.
  Lemma alookup_aset_other : forall k k' (a : A) l, k' <> k -> alookup eqb k' (aset eqb k a l) = alookup eqb k' l.
  Proof.
    induction l as [|[k2 a2] l IH]; simpl; intro H.
    - rewrite (eqb_false _ _ H). reflexivity.
    - destruct (eqb k k2) eqn:E; simpl.
      + apply eqb_eq in E. subst k2. rewrite (eqb_false _ _ H). reflexivity.
      + destruct (eqb k' k2); auto.
  Qed.
  Lemma alookup_adel_same : forall k (l : list (K * A)), alookup eqb k (adel eqb k l) = None.
  Proof.
    induction l as [|[k' a'] l IH]; simpl; auto.
    destruct (eqb k k') eqn:E; simpl; auto. rewrite E. exact IH.
  Qed.
  Lemma alookup_adel_other : forall k k' (l : list (K * A)), k' <> k -> alookup eqb k' (adel eqb k l) = alookup eqb k' l.
  Proof.
    induction l as [|[k2 a2] l IH]; simpl; intro H; auto.
    destruct (eqb k k2) eqn:E; simpl.
    - apply eqb_eq in E. subst k2. rewrite (eqb_false _ _ H). auto.
    - destruct (eqb k' k2); auto.
  Qed.
  Lemma alookup_In : forall k (a : A) l, alookup eqb k l = Some a -> In (k, a) l.
  Proof.
    induction l as [|[k' a'] l IH]; simpl; intro H; try discriminate.
    destruct (eqb k k') eqn:E.
    - apply eqb_eq in E. inversion H; subst. auto.
    - auto.
  Qed.
  Lemma In_aset : forall k (a : A) l x, In x (aset eqb k a l) -> x = (k, a) \/ In x l.
  Proof.
    induction l as [|[k' a'] l IH]; simpl; intros x H.
    - destruct H; auto.
    - destruct (eqb k k'); simpl in H.
      + destruct H; auto.
      + destruct H; auto. apply IH in H. destruct H; auto.
  Qed.
  Lemma In_adel : forall k (l : list (K * A)) x, In x (adel eqb k l) -> In x l.
  Proof.
    induction l as [|[k' a'] l IH]; simpl; intros x H; auto.
    destruct (eqb k k'); simpl in H; auto. destruct H; auto.
  Qed.
  Lemma In_alookup_some : forall k (a : A) l, In (k, a) l -> exists a', alookup eqb k l = Some a'.
  Proof.
    induction l as [|[k' a'] l IH]; simpl; intro H; [contradiction|].
    destruct (eqb k k') eqn:E; eauto. destruct H as [H|H]; auto.
    inversion H; subst. rewrite eqb_refl' in E. discriminate.
  Qed.
End AssocLemmas.

(* ---------- path.Base ---------- *)
Definition plain_child (n : bytes) : Prop :=
  n <> [] /\ ~ In slash n /\ n <> [dot] /\ n <> [dot; dot].

Lemma take_elem_no_slash : forall l, ~ In slash (take_elem l).
Proof.
  induction l as [|c l IH]; simpl; auto.
  destruct (c =? slash) eqn:E; simpl; auto.
  intros [H|H]; auto. apply N.eqb_neq in E. congruence.
Qed.

Lemma path_base_confined_proved :
  forall p, bad_name (path_base p) = true \/ plain_child (path_base p).
Proof.
  intro p. destruct (bad_name (path_base p)) eqn:B; auto. right.
  unfold bad_name in B. apply orb_false_iff in B as [B B3]. apply orb_false_iff in B as [B1 B2].
  apply bytes_eqb_neq in B1, B2, B3.
  unfold path_base in *. destruct p as [|c p]; [congruence|].
  remember (rev (take_elem (drop_slashes (rev (c :: p))))) as e eqn:He.
  destruct e as [|x e]; [congruence|].
  repeat split; auto; try discriminate.
  rewrite He. intro H. apply in_rev in H. eapply take_elem_no_slash; eauto.
Qed.

(* ---------- the receiver ---------- *)
Arguments s_tick {D V}. Arguments s_tracked {D V}. Arguments s_temps {D V}. Arguments s_finals {D V}.
Arguments s_removed {D V}. Arguments s_out {D V}. Arguments mkState {D V}.
Arguments t_first {V}. Arguments t_v {V}. Arguments t_files {V}. Arguments t_tick {V}. Arguments t_next {V}.
Arguments mkTracked {V}. Arguments fd_files {D}. Arguments fd_flag {D}. Arguments mkFDir {D}.
Arguments Done {D V}. Arguments Panic {D V}. Arguments RIgnore {D V}. Arguments RTracked {D V}. Arguments RPanic {D V}.
Arguments VOk {V}. Arguments VBad {V}. Arguments VPanic {V}.
Arguments is_removed {D V}. Arguments full {D V}. Arguments remove_temp {D V}. Arguments untrack {D V}.
Arguments track {D V}. Arguments set_temps {D V}. Arguments set_tracked {D V}. Arguments init {D V}.
Arguments OAdd {D}. Arguments OTick {D}. Arguments ORemoved {D}. Arguments OClose {D}.
Arguments mark_removed {D V}. Arguments close {D V}. Arguments set_v {V}. Arguments fset {D}.

Ltac dmatch :=
  repeat match goal with
         | H : context [match ?x with _ => _ end] |- _ => destruct x eqn:?; try discriminate
         | H : context [if ?x then _ else _] |- _ => destruct x eqn:?; try discriminate
         end.

Section Receiver.
  Variable D : Type.
  Variable dapp : D -> D -> D.
  Variable V : Type.
  Variable vinit : V.
  Variable vadd : V -> D -> N -> vres V.
  Variable vfinal : V -> bool.
  Variables fix_mid fix_first : bool.
  Variables my_did gc_tick timeout max_slots : N.

  Notation state := (state D V).
  Notation chunk := (chunk D).
  Notation recordM := (record D V vinit vadd fix_first max_slots).
  Notation addM := (add D dapp V vinit vadd vfinal fix_mid fix_first my_did max_slots).
  Notation add_lockedM := (add_locked D dapp V vinit vadd vfinal fix_mid fix_first max_slots).
  Notation tickM := (tick D V gc_tick timeout).
  Notation stepM := (step D dapp V vinit vadd vfinal fix_mid fix_first my_did gc_tick timeout max_slots).
  Notation runM := (run D dapp V vinit vadd vfinal fix_mid fix_first my_did gc_tick timeout max_slots).

  Definition good (m : cmeta) : Prop := c_did m = my_did /\ c_binver m = transport_bin_version.

  (* the chunk is the next expected chunk of a tracked stream, from the sender that started it *)
  Definition expected (st : state) (m : cmeta) : Prop :=
    exists td, alookup key_eqb (key_of m) (s_tracked st) = Some td /\
               t_next td = c_id m /\ c_from (t_first td) = c_from m.

  Lemma foreign_rejected_proved :
    forall (st : state) (c : chunk),
      c_did (fst c) <> my_did \/ c_binver (fst c) <> transport_bin_version ->
      addM st c = Done st false.
  Proof.
    intros st c H. unfold add.
    destruct H as [H|H]; apply N.eqb_neq in H; rewrite H; simpl; auto.
    rewrite orb_true_r. reflexivity.
  Qed.

  Lemma add_good : forall (st : state) c st' b, addM st c = Done st' b -> b = true -> good (fst c).
  Proof.
    intros st c st' b H Hb. subst b. unfold add in H.
    destruct (c_did (fst c) =? my_did) eqn:E1; simpl in H; [|inversion H].
    destruct (c_binver (fst c) =? transport_bin_version) eqn:E2; simpl in H; [|inversion H].
    split; apply N.eqb_eq; auto.
  Qed.

  Lemma record_removed : forall (st : state) c st1 td,
      recordM st c = RTracked st1 td -> s_removed st1 = s_removed st.
  Proof.
    intros st [m d] st1 td H. unfold record in H.
    dmatch; inversion H; subst; simpl; auto;
      repeat match goal with |- context [match ?x with _ => _ end] => destruct x end; reflexivity.
  Qed.

  Lemma record_tracked_expected : forall (st : state) c st1 td,
      recordM st c = RTracked st1 td -> c_id (fst c) = 0 \/ expected st (fst c).
  Proof.
    intros st [m d] st1 td H. unfold record in H. simpl.
    destruct (c_id m =? 0) eqn:E0; [left; apply N.eqb_eq; auto|right].
    destruct (alookup key_eqb (key_of m) (s_tracked st)) as [td0|] eqn:L; [|discriminate].
    destruct (t_next td0 =? c_id m) eqn:E1; simpl in H; [|discriminate].
    destruct (c_from (t_first td0) =? c_from m) eqn:E2; simpl in H; [|discriminate].
    exists td0. repeat split; auto; apply N.eqb_eq; auto.
  Qed.

  Lemma accepted_only_next_proved :
    forall (st : state) (c : chunk) st',
      addM st c = Done st' true ->
      good (fst c) /\ is_removed st (node_of (fst c)) = false /\
      (c_id (fst c) = 0 \/ expected st (fst c)).
  Proof.
    intros st c st' H. split; [eapply add_good; eauto|].
    unfold add in H. destruct (_ || _); [inversion H|].
    destruct c as [m d]. unfold add_locked in H.
    destruct (recordM st (m, d)) as [s|st1 td|] eqn:R; try discriminate.
    pose proof (record_removed _ _ _ _ R) as HR.
    pose proof (record_tracked_expected _ _ _ _ R) as HE.
    destruct (is_removed st1 (node_of m)) eqn:RM; [inversion H|].
    split; auto. unfold is_removed in *. rewrite <- HR. exact RM.
  Qed.

  (* chunks that are ignored without any effect *)
  Definition ignorable (st : state) (c : chunk) : Prop :=
    let m := fst c in
    (c_did m <> my_did \/ c_binver m <> transport_bin_version) \/
    (c_id m <> 0 /\ ~ expected st m) \/
    (c_id m = 0 /\ c_hasfi m = false /\ exists v, vadd vinit (snd c) 0 = VBad v) \/
    (c_id m = 0 /\ alookup key_eqb (key_of m) (s_tracked st) = None /\ full max_slots st = true /\
     (c_hasfi m = true \/ exists v, vadd vinit (snd c) 0 = VOk v)).

  Lemma ignorable_no_effect_proved :
    fix_first = true ->
    forall (st : state) (c : chunk), ignorable st c -> addM st c = Done st false.
  Proof.
    intros FF st c [H|H]; [apply foreign_rejected_proved; auto|].
    unfold add. destruct (_ || _); auto.
    destruct c as [m d]. simpl in H. unfold add_locked.
    assert (R : recordM st (m, d) = RIgnore st).
    { unfold record. rewrite FF. destruct H as [[Hid Hne]|[[Hid [Hfi [v Hv]]]|[Hid [Hl [Hf Hv]]]]].
      - apply N.eqb_neq in Hid. rewrite Hid.
        destruct (alookup key_eqb (key_of m) (s_tracked st)) as [td|] eqn:L; auto.
        destruct (t_next td =? c_id m) eqn:E1; simpl; auto.
        destruct (c_from (t_first td) =? c_from m) eqn:E2; simpl; auto.
        exfalso. apply Hne. exists td. repeat split; auto; apply N.eqb_eq; auto.
      - rewrite Hid. simpl. rewrite Hfi. simpl in Hv. rewrite Hv. reflexivity.
      - rewrite Hid. simpl. rewrite Hl. rewrite Hf.
        destruct (c_hasfi m); auto. destruct Hv as [Hv|[v Hv]]; [discriminate|].
        simpl in Hv. rewrite Hv. reflexivity. }
    rewrite R. reflexivity.
  Qed.
End Receiver.

(* ---------- the statements of Props/C15.v: the model with the regenerated repair flags ---------- *)
Notation fixm := drop_stream_on_invalid_chunk.
Notation fixf := first_chunk_validated_before_discard.

Lemma foreign_did_binver_rejected_gen :
  forall D dapp V vinit vadd vfinal my_did max_slots (st : state D V) (c : chunk D),
    c_did (fst c) <> my_did \/ c_binver (fst c) <> transport_bin_version ->
    add D dapp V vinit vadd vfinal fixm fixf my_did max_slots st c = Done st false.
Proof. intros. apply foreign_rejected_proved. assumption. Qed.

Lemma only_next_chunk_accepted_gen :
  forall D dapp V vinit vadd vfinal my_did max_slots (st st' : state D V) (c : chunk D),
    add D dapp V vinit vadd vfinal fixm fixf my_did max_slots st c = Done st' true ->
    good my_did (fst c) /\ is_removed st (node_of (fst c)) = false /\
    (c_id (fst c) = 0 \/ expected D V st (fst c)).
Proof. intros until c. apply accepted_only_next_proved. Qed.

Lemma rejected_chunk_has_no_effect_gen :
  forall D dapp V vinit vadd vfinal my_did max_slots (st : state D V) (c : chunk D),
    ignorable D V vinit vadd my_did max_slots st c ->
    add D dapp V vinit vadd vfinal fixm fixf my_did max_slots st c = Done st false.
Proof. intros until c. apply ignorable_no_effect_proved. reflexivity. Qed.

(* ---------- in-order delivery of one stream ---------- *)
Section InOrder.
  Variable D : Type.
  Variable dapp : D -> D -> D.
  Variable V : Type.
  Variable vinit : V.
  Variable vadd : V -> D -> N -> vres V.
  Variable vfinal : V -> bool.
  Variables fix_mid fix_first : bool.
  Variables my_did gc_tick timeout max_slots : N.

  Notation state := (state D V).
  Notation chunk := (chunk D).
  Notation addM := (add D dapp V vinit vadd vfinal fix_mid fix_first my_did max_slots).

  (* what the accepted chunks of a stream write into the temp dir *)
  Fixpoint replay (files : dir D) (l : list chunk) : option (dir D) :=
    match l with
    | [] => Some files
    | (m, d) :: r =>
      let fn := path_base (c_path m) in
      if bad_name fn then None
      else if c_fcid m =? 0 then replay (fset fn d files) r
      else match alookup bytes_eqb fn files with
           | None => None
           | Some old => replay (fset fn (dapp old d) files) r
           end
    end.

  (* the validator fed with the chunks of the main file (those without file info) *)
  Fixpoint vfold (v : V) (l : list chunk) : option V :=
    match l with
    | [] => Some v
    | (m, d) :: r =>
      if c_hasfi m then vfold v r
      else match vadd v d (c_id m) with
           | VOk v' => vfold v' r
           | _ => None
           end
    end.

  Fixpoint fileinfos (acc : list sfile) (l : list chunk) : list sfile :=
    match l with
    | [] => acc
    | (m, _) :: r => fileinfos (add_fileinfo m acc) r
    end.

  (* a complete stream of one sender for one snapshot, in order *)
  Fixpoint ids_from (i : N) (l : list chunk) : Prop :=
    match l with
    | [] => True
    | (m, _) :: r => c_id m = i /\ ids_from (i + 1) r
    end.
  Definition same_stream (m0 : cmeta) (l : list chunk) : Prop :=
    Forall (fun c : chunk => key_of (fst c) = key_of m0 /\ c_from (fst c) = c_from m0 /\
                             c_did (fst c) = my_did /\ c_binver (fst c) = transport_bin_version) l.
  Fixpoint last_only (l : list chunk) : Prop :=
    match l with
    | [] => False
    | [(m, _)] => is_last m = true
    | (m, _) :: r => is_last m = false /\ last_only r
    end.

  Lemma tkey_of_same : forall m m0, key_of m = key_of m0 -> c_from m = c_from m0 -> tkey_of m = tkey_of m0.
  Proof. intros m m0 H1 H2. unfold key_of, tkey_of in *. inversion H1. congruence. Qed.
  Lemma node_of_same : forall m m0, key_of m = key_of m0 -> node_of m = node_of m0.
  Proof. intros m m0 H1. unfold key_of, node_of in *. inversion H1. congruence. Qed.

  (* the receiver in the middle of stream [m0]: [n] chunks accepted *)
  Definition mid (st : state) (m0 : cmeta) (v : V) (fi : list sfile) (files : dir D) (n : N) : Prop :=
    (exists tk, alookup key_eqb (key_of m0) (s_tracked st) = Some (mkTracked m0 v fi tk n)) /\
    alookup tkey_eqb (tkey_of m0) (s_temps st) = Some files /\
    alookup key_eqb (key_of m0) (s_finals st) = None /\
    is_removed st (node_of m0) = false.

  Definition done_with (st : state) (m0 : cmeta) (fi : list sfile) (files : dir D) (out : list notif) : Prop :=
    alookup key_eqb (key_of m0) (s_tracked st) = None /\
    alookup tkey_eqb (tkey_of m0) (s_temps st) = None /\
    alookup key_eqb (key_of m0) (s_finals st) =
      Some (mkFDir (adel bytes_eqb snapshot_flag_filename files) (to_message m0 fi)) /\
    s_out st = to_message m0 fi :: out.

  Fixpoint adds (st : state) (l : list chunk) : option state :=
    match l with
    | [] => Some st
    | c :: r => match addM st c with
                | Done st' true => adds st' r
                | _ => None
                end
    end.

  Lemma mid_rest :
    forall (l : list chunk) (st : state) m0 v fi files n,
      n <> 0 ->
      mid st m0 v fi files n ->
      same_stream m0 l -> ids_from n l -> last_only l ->
      forall v' files', vfold v l = Some v' -> vfinal v' = true -> replay files l = Some files' ->
      exists st', adds st l = Some st' /\
                  done_with st' m0 (fileinfos fi l) files' (s_out st).
  Proof.
    induction l as [|[m d] r IH]; intros st m0 v fi files n Hn Hmid Hs Hid Hl v' files' Hv Hf Hr;
      [destruct Hl|].
    destruct Hmid as [[tk Ht] [Htmp [Hfin Hrm]]].
    inversion Hs as [|? ? [Hk [Hfrom [Hdid Hbv]]] Hs']; subst. simpl in Hk, Hfrom, Hdid, Hbv.
    destruct Hid as [Hidm Hid'].
    pose proof (tkey_of_same _ _ Hk Hfrom) as Htk.
    pose proof (node_of_same _ _ Hk) as Hnode.
    simpl in Hv, Hr.
    destruct (bad_name (path_base (c_path m))) eqn:Bad; [discriminate|].
    (* the validator step of this chunk *)
    assert (Hval : exists v1, (if negb (c_hasfi m) && true then vadd v d n else VOk v) = VOk v1
                              /\ vfold v1 r = Some v').
    { destruct (c_hasfi m); simpl.
      - eauto.
      - rewrite Hidm in Hv. destruct (vadd v d n) as [v1|v1|]; try discriminate. eauto. }
    destruct Hval as [v1 [Hv1 Hv1r]].
    (* the file write of this chunk *)
    set (fn := path_base (c_path m)) in *.
    assert (Hsave : exists files1,
               (if c_fcid m =? 0 then Some (fset fn d files)
                else match alookup bytes_eqb fn files with
                     | None => None | Some old => Some (fset fn (dapp old d) files) end) = Some files1
               /\ replay files1 r = Some files').
    { destruct (c_fcid m =? 0); [eauto|].
      destruct (alookup bytes_eqb fn files); [eauto|discriminate]. }
    destruct Hsave as [files1 [Hs1 Hr1]].
    (* run add on this chunk *)
    assert (Hadd_unf : addM st (m, d) =
       let td' := mkTracked m0 v1 (add_fileinfo m fi) (s_tick st) (n + 1) in
       let st2 := track (key_of m0) td' (track (key_of m0) (mkTracked m0 v (add_fileinfo m fi) (s_tick st) (n + 1)) st) in
       let st3 := set_temps st2 (aset tkey_eqb (tkey_of m0) files1 (s_temps st2)) in
       if is_last m then finish D V vfinal st3 m td' else Done st3 true).
    { unfold add. simpl fst. rewrite Hdid, Hbv, !N.eqb_refl. simpl.
      unfold add_locked, record.
      apply N.eqb_neq in Hn. rewrite Hidm, Hn. rewrite Hk, Ht. simpl t_next. rewrite N.eqb_refl. simpl.
      rewrite Hfrom, N.eqb_refl. simpl.
      replace (is_removed (track (key_of m0) _ st) (node_of m)) with false
        by (rewrite Hnode; symmetry; exact Hrm).
      simpl t_v. rewrite Hv1.
      rewrite Htk, Htmp. fold fn. rewrite Bad.
      destruct (c_fcid m =? 0).
      - inversion Hs1; subst. unfold set_v. simpl. reflexivity.
      - destruct (alookup bytes_eqb fn files); [|discriminate]. inversion Hs1; subst.
        unfold set_v. simpl. reflexivity. }
    destruct r as [|c2 r].
    - (* the last chunk *)
      simpl in Hl. simpl in Hv1r, Hr1. inversion Hv1r; inversion Hr1; subst v1 files1.
      simpl adds. rewrite Hadd_unf. cbv zeta. rewrite Hl.
      unfold finish. simpl t_v. rewrite Hf. simpl.
      rewrite Hk, Htk.
      rewrite alookup_aset_same by exact tkey_eqb_eq.
      rewrite Hfin.
      eexists. split; [reflexivity|].
      unfold done_with. simpl.
      rewrite alookup_adel_same by exact key_eqb_eq.
      rewrite alookup_adel_same by exact tkey_eqb_eq.
      rewrite alookup_aset_same by exact key_eqb_eq.
      repeat split; reflexivity.
    - destruct Hl as [Hnl Hl].
      assert (Hnext : exists st3, addM st (m, d) = Done st3 true /\
                                  mid st3 m0 v1 (add_fileinfo m fi) files1 (n + 1) /\ s_out st3 = s_out st).
      { rewrite Hadd_unf. cbv zeta. rewrite Hnl. eexists. split; [reflexivity|]. split; [|reflexivity].
        unfold mid. simpl.
        rewrite alookup_aset_same by exact key_eqb_eq.
        rewrite alookup_aset_same by exact tkey_eqb_eq.
        repeat split; eauto. }
      destruct Hnext as [st3 [Ha [Hm3 Ho3]]].
      assert (Hn1 : n + 1 <> 0) by lia.
      destruct (IH st3 m0 v1 (add_fileinfo m fi) files1 (n + 1) Hn1 Hm3 Hs' Hid' Hl v' files' Hv1r Hf Hr1)
        as [st' [Hadds Hdone]].
      exists st'. split.
      + change (adds st ((m, d) :: c2 :: r)) with
            (match addM st (m, d) with Done st'0 true => adds st'0 (c2 :: r) | _ => None end).
        rewrite Ha. exact Hadds.
      + rewrite <- Ho3. exact Hdone.
  Qed.

  (* nothing of stream [m0] is present and a slot is free *)
  Definition clean (st : state) (m0 : cmeta) : Prop :=
    alookup key_eqb (key_of m0) (s_tracked st) = None /\
    full max_slots st = false /\
    alookup tkey_eqb (tkey_of m0) (s_temps st) = None /\
    alookup key_eqb (key_of m0) (s_finals st) = None /\
    is_removed st (node_of m0) = false.

  Lemma in_order_proved :
    forall (st : state) m0 d0 (r : list chunk),
      clean st m0 ->
      same_stream m0 ((m0, d0) :: r) -> ids_from 0 ((m0, d0) :: r) -> last_only ((m0, d0) :: r) ->
      forall v' files', vfold vinit ((m0, d0) :: r) = Some v' -> vfinal v' = true ->
                        replay [] ((m0, d0) :: r) = Some files' ->
      exists st', adds st ((m0, d0) :: r) = Some st' /\
                  done_with st' m0 (fileinfos [] ((m0, d0) :: r)) files' (s_out st).
  Proof.
    intros st m0 d0 r [Ht [Hfull [Htmp [Hfin Hrm]]]] Hs Hid Hl v' files' Hv Hf Hr.
    inversion Hs as [|? ? [_ [_ [Hdid Hbv]]] Hs']; subst. simpl in Hdid, Hbv.
    destruct Hid as [Hid0 Hid'].
    simpl in Hv, Hr.
    destruct (bad_name (path_base (c_path m0))) eqn:Bad; [discriminate|].
    set (fn := path_base (c_path m0)) in *.
    assert (Hval : exists v0, (if c_hasfi m0 then VOk vinit else vadd vinit d0 0) = VOk v0 /\ vfold v0 r = Some v').
    { destruct (c_hasfi m0); [eauto|]. rewrite Hid0 in Hv.
      destruct (vadd vinit d0 0) as [v1|v1|]; try discriminate. eauto. }
    destruct Hval as [v0 [Hv0 Hv0r]].
    assert (Hfc : c_fcid m0 =? 0 = true).
    { destruct (c_fcid m0 =? 0); auto. simpl in Hr. discriminate. }
    rewrite Hfc in Hr.
    set (td := mkTracked m0 v0 (add_fileinfo m0 []) (s_tick st) 1).
    set (st2 := track (key_of m0) (set_v td v0) (track (key_of m0) td st)).
    set (st3 := set_temps st2 (aset tkey_eqb (tkey_of m0) (fset fn d0 [])
                                    (aset tkey_eqb (tkey_of m0) [] (s_temps st2)))).
    assert (Hadd_unf : addM st (m0, d0) =
                       if is_last m0 then finish D V vfinal st3 m0 (set_v td v0) else Done st3 true).
    { unfold add. simpl fst. rewrite Hdid, Hbv, !N.eqb_refl. simpl.
      unfold add_locked, record. rewrite Hid0. simpl. rewrite Ht, Hfull.
      assert (Hrec : forall (s : state), is_removed (track (key_of m0) td s) (node_of m0) = is_removed s (node_of m0))
        by reflexivity.
      destruct fix_first; destruct (c_hasfi m0) eqn:Hfi; simpl in Hv0;
        try (inversion Hv0; subst v0); try rewrite Hv0; fold td; rewrite Hrec, Hrm; simpl.
      all: rewrite Htmp; simpl; rewrite alookup_aset_same by exact tkey_eqb_eq; fold fn; rewrite Bad, Hfc; reflexivity. }
    destruct r as [|c2 r].
    - simpl in Hl. simpl in Hv0r, Hr. inversion Hv0r; inversion Hr; subst v' files'.
      simpl adds. rewrite Hadd_unf, Hl. unfold finish. simpl t_v. rewrite Hf. simpl.
      rewrite alookup_aset_same by exact tkey_eqb_eq. rewrite Hfin.
      eexists. split; [reflexivity|]. unfold done_with. simpl.
      rewrite alookup_adel_same by exact key_eqb_eq.
      rewrite alookup_adel_same by exact tkey_eqb_eq.
      rewrite alookup_aset_same by exact key_eqb_eq.
      repeat split; reflexivity.
    - destruct Hl as [Hnl Hl].
      assert (Hm3 : mid st3 m0 v0 (add_fileinfo m0 []) (fset fn d0 []) 1).
      { unfold mid, st3, st2. simpl.
        rewrite alookup_aset_same by exact key_eqb_eq.
        rewrite alookup_aset_same by exact tkey_eqb_eq.
        split; [eexists; reflexivity|]. split; [reflexivity|]. split; [exact Hfin|exact Hrm]. }
      assert (H1 : (1 : N) <> 0) by lia.
      simpl in Hid'.
      destruct (mid_rest (c2 :: r) st3 m0 v0 (add_fileinfo m0 []) (fset fn d0 []) 1 H1 Hm3 Hs' Hid' Hl v' files' Hv0r Hf Hr)
        as [st' [Hadds Hdone]].
      exists st'. split.
      + change (adds st ((m0, d0) :: c2 :: r)) with
            (match addM st (m0, d0) with Done st'0 true => adds st'0 (c2 :: r) | _ => None end).
        rewrite Hadd_unf, Hnl. exact Hadds.
      + exact Hdone.
  Qed.
End InOrder.

(* ---------- F5: the unrepaired receiver (both flags false) finalises a truncated snapshot ---------- *)
Definition toy_vadd (v : N) (d : bytes) (id : N) : vres N :=
  match d with
  | [0] => VBad (v + 1)          (* a chunk the validator refuses *)
  | _ => VOk (v + 1)
  end.
Definition toy_meta (id cnt : N) : cmeta :=
  mkCMeta 1 1 5 id 1 cnt 100 3 [115] 3 7 id cnt false sfile0 transport_bin_version 0 false.
Definition f5_ops : list (op bytes) :=
  [OAdd (toy_meta 0 3, [10]); OAdd (toy_meta 1 3, [0]); OAdd (toy_meta 2 3, [30])].
Definition toy_run (fm ff : bool) :=
  run bytes (@app N) N 0 toy_vadd (fun _ => true) fm ff 7 30 900 128 init f5_ops.

Lemma chunk_finalize_refuted_proved :
  exists (ops : list (op bytes)) (st : state bytes N),
    (* chunk 1 is refused by the validator, chunk 2 is then accepted and the snapshot
       is finalised from chunks 0 and 2 only *)
    run bytes (@app N) N 0 toy_vadd (fun _ => true) false false 7 30 900 128 init ops = Some st /\
    map (fun kf => fd_files (snd kf)) (s_finals st) = [[([115], [10; 30])]] /\
    length (s_out st) = 1%nat /\
    (* the repaired receiver drops the stream at chunk 1 and finalises nothing *)
    exists st', run bytes (@app N) N 0 toy_vadd (fun _ => true) true true 7 30 900 128 init ops = Some st' /\
                s_finals st' = [] /\ s_out st' = [] /\ s_tracked st' = [] /\ s_temps st' = [].
Proof.
  exists f5_ops. eexists. split; [vm_compute; reflexivity|].
  split; [vm_compute; reflexivity|]. split; [reflexivity|].
  eexists. split; [vm_compute; reflexivity|]. repeat split; reflexivity.
Qed.

(* ---------- one step: when does a finalised snapshot appear ---------- *)
Section FinalStep.
  Variable D : Type.
  Variable dapp : D -> D -> D.
  Variable V : Type.
  Variable vinit : V.
  Variable vadd : V -> D -> N -> vres V.
  Variable vfinal : V -> bool.
  Variables fix_mid fix_first : bool.
  Variables my_did gc_tick timeout max_slots : N.
  Notation state := (state D V).
  Notation chunk := (chunk D).
  Notation addM := (add D dapp V vinit vadd vfinal fix_mid fix_first my_did max_slots).
  Notation stepM := (step D dapp V vinit vadd vfinal fix_mid fix_first my_did gc_tick timeout max_slots).

  Lemma finish_finals : forall (st : state) m td st' b,
      finish D V vfinal st m td = Done st' b ->
      (b = false /\ s_finals st' = s_finals st /\ s_out st' = s_out st) \/
      (b = true /\ vfinal (t_v td) = true /\
       alookup key_eqb (key_of m) (s_finals st) = None /\
       exists files, alookup tkey_eqb (tkey_of m) (s_temps st) = Some files /\
         s_finals st' = aset key_eqb (key_of m)
                             (mkFDir (adel bytes_eqb snapshot_flag_filename files)
                                     (to_message (t_first td) (t_files td))) (s_finals st) /\
         s_out st' = to_message (t_first td) (t_files td) :: s_out st).
  Proof.
    intros st m td st' b H. unfold finish in H.
    destruct (vfinal (t_v td)) eqn:Hf; simpl in H.
    - destruct (alookup tkey_eqb (tkey_of m) (s_temps st)) as [files|] eqn:Ht; [|discriminate].
      destruct (alookup key_eqb (key_of m) (s_finals st)) eqn:Hfin;
        injection H as H1 H2; subst st' b; simpl.
      + left. auto.
      + right. repeat split; auto. exists files. repeat split; auto.
    - injection H as H1 H2; subst st' b. left. auto.
  Qed.

  Lemma record_finals : forall (st : state) c,
      match record D V vinit vadd fix_first max_slots st c with
      | RIgnore st1 => s_finals st1 = s_finals st /\ s_out st1 = s_out st
      | RTracked st1 _ => s_finals st1 = s_finals st /\ s_out st1 = s_out st
      | RPanic => True
      end.
  Proof.
    intros st [m d]. unfold record.
    repeat match goal with
           | |- context [match ?x with _ => _ end] =>
             lazymatch x with
             | context [match _ with _ => _ end] => fail
             | _ => destruct x
             end
           end; simpl; try (split; reflexivity); auto.
  Qed.

  Lemma save_finals : forall (st : state) c st', save D dapp V st c = Some st' ->
      s_finals st' = s_finals st /\ s_out st' = s_out st.
  Proof.
    intros st [m d] st' H. unfold save in H.
    repeat match type of H with context [match ?x with _ => _ end] => destruct x end;
      try discriminate; inversion H; subst; simpl; auto.
  Qed.

  (* a final directory / a notification appears only when a chunk is accepted that is the
     last chunk of its stream and the stream's validator accepts the whole; the final files
     are the temp dir's files (minus the flag file name) *)
  Lemma add_finals : forall (st : state) (c : chunk) st' b,
      addM st c = Done st' b ->
      (s_finals st' = s_finals st /\ s_out st' = s_out st) \/
      (b = true /\ is_last (fst c) = true /\
       alookup key_eqb (key_of (fst c)) (s_finals st) = None /\
       exists fd n, s_finals st' = aset key_eqb (key_of (fst c)) fd (s_finals st) /\
                    s_out st' = n :: s_out st /\ fd_flag fd = n).
  Proof.
    intros st [m d] st' b H. unfold add in H. simpl fst in *.
    destruct (_ || _); [inversion H; auto|].
    unfold add_locked in H.
    pose proof (record_finals st (m, d)) as HR.
    destruct (record D V vinit vadd fix_first max_slots st (m, d)) as [s1|s1 td|]; try discriminate.
    - inversion H; subst. left. exact HR.
    - destruct HR as [HR1 HR2].
      destruct (is_removed s1 (node_of m)); [inversion H; subst; left; simpl; auto|].
      destruct (if negb (c_hasfi m) && negb (c_id m =? 0) then vadd (t_v td) d (c_id m) else VOk (t_v td)) as [v1|v1|];
        try discriminate.
      + destruct (save D dapp V (track (key_of m) (set_v td v1) s1) (m, d)) as [s3|] eqn:Hs; [|discriminate].
        apply save_finals in Hs. destruct Hs as [Hs1 Hs2]. simpl in Hs1, Hs2.
        destruct (is_last m) eqn:Hl.
        * apply finish_finals in H. destruct H as [[Hb [Hf Ho]]|[Hb [Hv [Hn [files [Ht [Hf Ho]]]]]]].
          -- left. split; congruence.
          -- right. split; [auto|]. split; [auto|]. split; [congruence|].
             eexists. eexists. split; [|split].
             ++ rewrite Hf. rewrite Hs1, HR1. reflexivity.
             ++ rewrite Ho. rewrite Hs2, HR2. reflexivity.
             ++ reflexivity.
        * inversion H; subst. left. split; congruence.
      + destruct fix_mid; inversion H; subst; left; simpl; auto.
  Qed.

  Lemma step_finals : forall (st : state) o st' b,
      stepM st o = Done st' b ->
      (s_finals st' = s_finals st /\ s_out st' = s_out st) \/
      (exists c, o = OAdd c /\ b = true /\ is_last (fst c) = true /\
       alookup key_eqb (key_of (fst c)) (s_finals st) = None /\
       exists fd n, s_finals st' = aset key_eqb (key_of (fst c)) fd (s_finals st) /\
                    s_out st' = n :: s_out st /\ fd_flag fd = n).
  Proof.
    intros st o st' b H. destruct o as [c| |s r|]; simpl in H.
    - apply add_finals in H. destruct H as [H|H]; [left; auto|right; exists c; intuition].
    - inversion H; subst. left. unfold tick.
      assert (G : forall l (s : state), s_finals (gc_list D V timeout l s) = s_finals s /\
                                       s_out (gc_list D V timeout l s) = s_out s).
      { induction l as [|[k td] l IH]; intro s; simpl; auto.
        destruct (timeout <=? s_tick s - t_tick td); rewrite (proj1 (IH _)), (proj2 (IH _)); auto. }
      destruct (_ =? 0); simpl; auto. unfold gc. rewrite (proj1 (G _ _)), (proj2 (G _ _)). auto.
    - inversion H; subst. left. auto.
    - inversion H; subst. left. unfold close.
      assert (G : forall l (s : state), s_finals (close_list D V l s) = s_finals s /\
                                       s_out (close_list D V l s) = s_out s).
      { induction l as [|[k td] l IH]; intro s; simpl; auto.
        rewrite (proj1 (IH _)), (proj2 (IH _)); auto. }
      apply G.
  Qed.

  (* over any run: every notification corresponds to exactly one final directory whose flag
     file is that notification, final directories never change, keys are distinct *)
  Definition finals_match (st : state) : Prop :=
    map (fun kf => fd_flag (snd kf)) (s_finals st) = rev (s_out st) /\
    NoDup (map fst (s_finals st)).

  Lemma aset_fresh : forall (k : key) (a : fdir D) l,
      alookup key_eqb k l = None -> aset key_eqb k a l = l ++ [(k, a)].
  Proof.
    induction l as [|[k' a'] l IH]; simpl; intro H; auto.
    destruct (key_eqb k k'); [discriminate|]. rewrite IH; auto.
  Qed.
  Lemma alookup_none_notin : forall (k : key) (l : list (key * fdir D)),
      alookup key_eqb k l = None -> ~ In k (map fst l).
  Proof.
    induction l as [|[k' a'] l IH]; simpl; intro H; auto.
    destruct (key_eqb k k') eqn:E; [discriminate|].
    intros [H1|H1]; [subst; rewrite key_eqb_refl in E; discriminate|]. apply IH; auto.
  Qed.

  Lemma NoDup_snoc : forall (A : Type) (l : list A) a, NoDup l -> ~ In a l -> NoDup (l ++ [a]).
  Proof.
    induction l as [|x l IH]; intros a Hn Hi; simpl.
    - constructor; auto.
    - inversion Hn; subst. constructor.
      + intro H. apply in_app_or in H. destruct H as [H|[H|[]]]; auto. subst. apply Hi. left. reflexivity.
      + apply IH; auto. intro H. apply Hi. right. exact H.
  Qed.

  Lemma one_notification_per_final_proved :
    forall ops (st st' : state),
      finals_match st ->
      run D dapp V vinit vadd vfinal fix_mid fix_first my_did gc_tick timeout max_slots st ops = Some st' ->
      finals_match st' /\ exists l, s_finals st' = s_finals st ++ l.
  Proof.
    induction ops as [|o ops IH]; intros st st' Hm H; simpl in H.
    - inversion H; subst. split; auto. exists []. rewrite app_nil_r. reflexivity.
    - destruct (stepM st o) as [s1 b|] eqn:Hs; [|discriminate].
      apply step_finals in Hs.
      assert (Hm1 : finals_match s1 /\ exists l, s_finals s1 = s_finals st ++ l).
      { destruct Hs as [[Hf Ho]|[c [_ [_ [_ [Hn [fd [n [Hf [Ho Hfl]]]]]]]]]].
        - unfold finals_match. rewrite Hf, Ho. split; auto. exists []. rewrite app_nil_r. reflexivity.
        - rewrite (aset_fresh _ _ _ Hn) in Hf. destruct Hm as [Hm1 Hm2]. split.
          + unfold finals_match. rewrite Hf, Ho. rewrite !map_app. simpl. rewrite Hm1, Hfl. split; auto.
            apply NoDup_snoc; auto. apply alookup_none_notin. exact Hn.
          + eauto. }
      destruct Hm1 as [Hm1 [l1 Hl1]].
      destruct (IH s1 st' Hm1 H) as [Hm' [l2 Hl2]].
      split; auto. exists (l1 ++ l2). rewrite Hl2, Hl1, app_assoc. reflexivity.
  Qed.
End FinalStep.

Lemma in_order_delivery_gen :
  forall D dapp V vinit vadd vfinal my_did max_slots (st : state D V) m0 d0 (r : list (chunk D)),
    clean D V max_slots st m0 ->
    same_stream D my_did m0 ((m0, d0) :: r) -> ids_from D 0 ((m0, d0) :: r) -> last_only D ((m0, d0) :: r) ->
    forall v' files',
      vfold D V vadd vinit ((m0, d0) :: r) = Some v' -> vfinal v' = true ->
      replay D dapp [] ((m0, d0) :: r) = Some files' ->
      exists st', adds D dapp V vinit vadd vfinal fixm fixf my_did max_slots st ((m0, d0) :: r) = Some st' /\
                  done_with D V st' m0 (fileinfos D [] ((m0, d0) :: r)) files' (s_out st).
Proof. intros. eapply in_order_proved; eauto. Qed.

Lemma finalize_step_gen :
  forall D dapp V vinit vadd vfinal my_did gc_tick timeout max_slots (st : state D V) o st' b,
    step D dapp V vinit vadd vfinal fixm fixf my_did gc_tick timeout max_slots st o = Done st' b ->
    (s_finals st' = s_finals st /\ s_out st' = s_out st) \/
    (exists c, o = OAdd c /\ b = true /\ is_last (fst c) = true /\
     alookup key_eqb (key_of (fst c)) (s_finals st) = None /\
     exists fd n, s_finals st' = aset key_eqb (key_of (fst c)) fd (s_finals st) /\
                  s_out st' = n :: s_out st /\ fd_flag fd = n).
Proof. intros until b. apply step_finals. Qed.

Lemma one_notification_per_final_gen :
  forall D dapp V vinit vadd vfinal my_did gc_tick timeout max_slots ops (st' : state D V),
    run D dapp V vinit vadd vfinal fixm fixf my_did gc_tick timeout max_slots init ops = Some st' ->
    map (fun kf => fd_flag (snd kf)) (s_finals st') = rev (s_out st') /\
    NoDup (map fst (s_finals st')).
Proof.
  intros until st'. intro H.
  eapply one_notification_per_final_proved in H; [destruct H as [H _]; exact H|].
  split; simpl; constructor.
Qed.
