(* Lemmas for C16 (snapshot directories are crash-atomic). *)
From Coq Require Import List NArith Bool Lia.
From DB Require Import Model.FS Model.SnapshotDir.
Import ListNotations.
Open Scope N_scope.

(* ---- the order of "record" and "remove flag" (tie G: Gen.GenC16) ---- *)

Lemma commit_tail_order : forall i,
  commit_tail i = [ORecord i; OFs (FRemove (DFinal i) FFlag)].
Proof. intros i. unfold commit_tail. vm_compute (commit_pos_record <? commit_pos_rmflag). reflexivity. Qed.

Lemma apply_ops_order : forall i,
  apply_ops i = [ORecord i; OFs (FRemove (DFinal i) FFlag)].
Proof. intros i. unfold apply_ops. vm_compute (engine_pos_save_raft_state <? engine_pos_on_snapshot_saved). reflexivity. Qed.
