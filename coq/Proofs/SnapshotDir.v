(* Lemmas for C16 (snapshot directories are crash-atomic). *)
From Coq Require Import List NArith Bool Lia Permutation.
From DB Require Import Model.FS Model.SnapshotDir.
Import ListNotations.
Open Scope N_scope.

(* ---- the order of "record" and "remove flag" (tie G: Gen.GenC16) ---- *)

Lemma commit_tail_order : forall i,
  commit_tail i = [ORecord i; OFs (FRemove (DFinal i) FFlag)].
Proof. intros i. unfold commit_tail. vm_compute (commit_pos_record <? commit_pos_rmflag). reflexivity. Qed.

Lemma apply_ops_order : forall i,
  apply_ops i = [ORecord i; OFs (FRemove (DFinal i) FFlag)].
Proof. intros i. unfold apply_ops. vm_compute (engine_pos_save_raft_state <? engine_pos_on_snapshot_saved). reflexivity. Qed.

(* ---------------------------------------------------------------------- *)
(* names *)

Lemma dname_eqb_eq : forall a b, dname_eqb a b = true <-> a = b.
Proof.
  destruct a, b; simpl; split; intro H; try discriminate; try (apply N.eqb_eq in H; subst; reflexivity);
    try (inversion H; subst; apply N.eqb_refl).
Qed.

Lemma fname_eqb_eq : forall a b, fname_eqb a b = true <-> a = b.
Proof.
  destruct a, b; simpl; split; intro H; try discriminate; try reflexivity;
    try (apply N.eqb_eq in H; subst; reflexivity);
    try (inversion H; subst; apply N.eqb_refl).
Qed.

Lemma d_is_eq : forall o n, d_is o n = true <-> o = Some n.
Proof.
  destruct o as [m|]; simpl; intros n.
  - rewrite dname_eqb_eq. split; intro H; [subst; reflexivity | inversion H; reflexivity].
  - split; discriminate.
Qed.

Lemma f_is_eq : forall o n, f_is o n = true <-> o = Some n.
Proof.
  destruct o as [m|]; simpl; intros n.
  - rewrite fname_eqb_eq. split; intro H; [subst; reflexivity | inversion H; reflexivity].
  - split; discriminate.
Qed.

Lemma d_is_neq : forall o n, d_is o n = false <-> o <> Some n.
Proof.
  intros o n. destruct (d_is o n) eqn:E.
  - apply d_is_eq in E. split; [discriminate | intro H; contradiction].
  - split; [intros _ H; apply d_is_eq in H; congruence | reflexivity].
Qed.

Lemma f_is_neq : forall o n, f_is o n = false <-> o <> Some n.
Proof.
  intros o n. destruct (f_is o n) eqn:E.
  - apply f_is_eq in E. split; [discriminate | intro H; contradiction].
  - split; [intros _ H; apply f_is_eq in H; congruence | reflexivity].
Qed.

(* ---------------------------------------------------------------------- *)
(* the invariant, for a notion [Vok] of "complete snapshot file content":
   instantiated below with [valid_snap] (any complete file, shrunk ones included)
   and with [full_snap] (complete and carrying the state machine's image) *)
Section Validity.
Variable Vok : data -> bool.
Hypothesis HV1 : forall d, Vok d = true -> valid_snap d = true.
Hypothesis HV2 : forall n, Vok (T_HDR :: repeat T_BODY n ++ [T_TAIL]) = true.

(* a shrunk / a metadata-only file counts as complete content (not for [full_snap]) *)
Definition shrunk_ok : Prop := Vok (T_HDR :: [T_EMPTY] ++ [T_TAIL]) = true.
Definition dummy_ok : Prop := Vok (T_HDR :: [T_DUMMY] ++ [T_TAIL]) = true.

(* a durable file name is the volatile one, or the node is unbound, or the
   node is a shrunk file that was renamed over the snapshot file *)
Definition fK (f : fobj) : Prop :=
  forall n, f_dn f = Some n ->
    f_vn f = None \/ f_vn f = Some n \/ exists i, n = FShrunk i /\ f_vn f = Some (FSnap i).

Definition tmp_of (n : dname) (i : N) : Prop := n = DGen i \/ n = DRecv i.

Definition dK (o : dobj) : Prop :=
  forall n, d_dn o = Some n ->
    d_vn o = None \/ d_vn o = Some n \/ exists i, tmp_of n i /\ d_vn o = Some (DFinal i).

(* the files of a (volatile or durable) final directory of index i *)
Definition fgood (i : N) (l : list fobj) : Prop :=
  Exists (fun f => f_dn f = Some (FSnap i)) l /\
  Exists (fun f => f_vn f = Some (FSnap i)) l /\
  Forall (fun f => ((f_vn f = Some (FSnap i) \/ f_dn f = Some (FSnap i)) -> Vok (f_dd f) = true) /\
                   (f_vn f = Some (FSnap i) -> f_vd f = f_dd f)) l /\
  Forall (fun f => ((f_vn f = Some FFlag \/ f_dn f = Some FFlag) -> f_dd f = flag_data i) /\
                   (f_vn f = Some FFlag -> f_vd f = flag_data i)) l.

Definition dinv (o : dobj) : Prop :=
  dK o /\ Forall fK (d_files o) /\
  forall i, (d_vn o = Some (DFinal i) \/ d_dn o = Some (DFinal i)) -> fgood i (d_files o).

Definition recorded_dir (s : state) : Prop :=
  st_rec s <> 0 ->
  Exists (fun o => d_vn o = Some (DFinal (st_rec s)) /\ d_dn o = Some (DFinal (st_rec s))) (st_fs s).

Definition Inv (s : state) : Prop := Forall dinv (st_fs s) /\ recorded_dir s.

(* what the programs respect (proved for the programs below): *)
Definition file_ok (d : dname) (f : fname) : Prop :=
  match d with DFinal i => f = FShrunk i | _ => True end.

Definition allowed (s : state) (o : op) : Prop :=
  match o with
  | OFs (FMkdir d) => is_tmp d = true
  | OFs FSyncRoot => True
  | OFs (FCreate d f) => file_ok d f
  | OFs (FWrite d f _) => file_ok d f
  | OFs (FWriteAt d f _ _) => file_ok d f
  | OFs (FSyncFile d f) => file_ok d f
  | OFs (FSyncDir d) => True
  | OFs (FRenameDir a b) =>
      exists i, i <> 0 /\ tmp_of a i /\ b = DFinal i /\ has_dir b (st_fs s) = false /\
                Forall (fun o => d_vn o = Some a -> fgood i (d_files o)) (st_fs s)
  | OFs (FRenameFile d a b) =>
      exists i, d = DFinal i /\ a = FShrunk i /\ b = FSnap i /\
        Forall (fun o => d_vn o = Some d ->
                  Exists (fun f => f_vn f = Some a) (d_files o) /\
                  Forall (fun f => f_vn f = Some a -> Vok (f_dd f) = true /\ f_vd f = f_dd f) (d_files o)) (st_fs s)
  | OFs (FRemove d f) => match d with DFinal _ => f = FFlag | _ => True end
  | OFs (FRemoveAll d) => match d with DFinal j => j <> st_rec s | _ => True end
  | ORecord i =>
      i <> 0 /\ Exists (fun o => d_vn o = Some (DFinal i) /\ d_dn o = Some (DFinal i)) (st_fs s)
  | OCrash => True
  end.

(* ---------------------------------------------------------------------- *)
(* list helpers *)

Lemma Forall_map_iff : forall {A B} (P : B -> Prop) (g : A -> B) l,
  Forall P (map g l) <-> Forall (fun x => P (g x)) l.
Proof. intros. rewrite !Forall_forall. split; intros H x Hx.
  - apply H. apply in_map. exact Hx.
  - apply in_map_iff in Hx. destruct Hx as [y [<- Hy]]. apply H. exact Hy. Qed.

Lemma Forall_filter_w : forall {A} (P : A -> Prop) p l, Forall P l -> Forall P (filter p l).
Proof. intros. rewrite Forall_forall in *. intros x Hx. apply filter_In in Hx. apply H. tauto. Qed.

Lemma Exists_map_iff : forall {A B} (P : B -> Prop) (g : A -> B) l,
  Exists P (map g l) <-> Exists (fun x => P (g x)) l.
Proof. intros. rewrite !Exists_exists. split.
  - intros [y [Hy Py]]. apply in_map_iff in Hy. destruct Hy as [x [<- Hx]]. eauto.
  - intros [x [Hx Px]]. exists (g x). split; [apply in_map; exact Hx | exact Px]. Qed.

Lemma Exists_filter_s : forall {A} (P : A -> Prop) p l,
  Exists (fun x => P x /\ p x = true) l -> Exists P (filter p l).
Proof. intros. rewrite Exists_exists in *. destruct H as [x [Hx [Px Hp]]]. exists x. split; [apply filter_In; tauto | exact Px]. Qed.

Lemma Forall_impl_in : forall {A} (P Q : A -> Prop) l,
  Forall P l -> (forall x, In x l -> P x -> Q x) -> Forall Q l.
Proof. intros. rewrite Forall_forall in *. auto. Qed.

(* ---------------------------------------------------------------------- *)
(* inside one directory *)

Definition cF (i : N) (f : fobj) : Prop :=
  ((f_vn f = Some (FSnap i) \/ f_dn f = Some (FSnap i)) -> Vok (f_dd f) = true) /\
  (f_vn f = Some (FSnap i) -> f_vd f = f_dd f).
Definition cG (i : N) (f : fobj) : Prop :=
  ((f_vn f = Some FFlag \/ f_dn f = Some FFlag) -> f_dd f = flag_data i) /\
  (f_vn f = Some FFlag -> f_vd f = flag_data i).

Lemma fgood_unfold : forall i l, fgood i l <->
  Exists (fun f => f_dn f = Some (FSnap i)) l /\ Exists (fun f => f_vn f = Some (FSnap i)) l /\
  Forall (cF i) l /\ Forall (cG i) l.
Proof. reflexivity. Qed.

Lemma fgood_map : forall i h l,
  fgood i l ->
  (forall f, In f l -> f_dn f = Some (FSnap i) -> f_dn (h f) = Some (FSnap i)) ->
  (forall f, In f l -> f_vn f = Some (FSnap i) -> f_vn (h f) = Some (FSnap i)) ->
  (forall f, In f l -> cF i f -> cF i (h f)) ->
  (forall f, In f l -> cG i f -> cG i (h f)) ->
  fgood i (map h l).
Proof.
  intros i h l (Ed & Ev & F & G) H1 H2 H3 H4. rewrite fgood_unfold.
  rewrite !Exists_map_iff, !Forall_map_iff. repeat split.
  - rewrite Exists_exists in *. destruct Ed as [f [Hf P]]. exists f. auto.
  - rewrite Exists_exists in *. destruct Ev as [f [Hf P]]. exists f. auto.
  - eapply Forall_impl_in; [exact F | auto].
  - eapply Forall_impl_in; [exact G | auto].
Qed.

Lemma fgood_filter_alive : forall i l, fgood i l -> fgood i (filter f_alive l).
Proof.
  intros i l (Ed & Ev & F & G). rewrite fgood_unfold. repeat split.
  - apply Exists_filter_s. rewrite Exists_exists in *. destruct Ed as [f [Hf P]]. exists f. repeat split; auto.
    unfold f_alive. rewrite P. simpl. apply orb_true_r.
  - apply Exists_filter_s. rewrite Exists_exists in *. destruct Ev as [f [Hf P]]. exists f. repeat split; auto.
    unfold f_alive. rewrite P. reflexivity.
  - apply Forall_filter_w; exact F.
  - apply Forall_filter_w; exact G.
Qed.

Lemma fgood_cons : forall i f l, fgood i l -> cF i f -> cG i f -> fgood i (f :: l).
Proof.
  intros i f l (Ed & Ev & F & G) HF HG. rewrite fgood_unfold. repeat split.
  - apply Exists_cons_tl; exact Ed.
  - apply Exists_cons_tl; exact Ev.
  - constructor; assumption.
  - constructor; assumption.
Qed.

Lemma fK_map : forall h l, Forall fK l -> (forall f, In f l -> fK f -> fK (h f)) -> Forall fK (map h l).
Proof. intros. rewrite Forall_map_iff. eapply Forall_impl_in; eauto. Qed.

Lemma fK_unbind : forall n f, fK f -> fK (f_unbind n f).
Proof.
  intros n f H. unfold f_unbind. destruct (f_is (f_vn f) n); [|exact H].
  intros m Hm. left. reflexivity.
Qed.

(* -- unbind -- *)
Lemma unbind_other_vn : forall n f m, m <> n -> f_vn f = Some m -> f_vn (f_unbind n f) = Some m.
Proof.
  intros n f m Hne Hv. unfold f_unbind. destruct (f_is (f_vn f) n) eqn:E; [|exact Hv].
  apply f_is_eq in E. congruence.
Qed.

Lemma unbind_dn : forall n f, f_dn (f_unbind n f) = f_dn f.
Proof. intros. unfold f_unbind. destruct (f_is (f_vn f) n); reflexivity. Qed.

Lemma unbind_dd : forall n f, f_dd (f_unbind n f) = f_dd f.
Proof. intros. unfold f_unbind. destruct (f_is (f_vn f) n); reflexivity. Qed.

Lemma unbind_vn_cases : forall n f, f_vn (f_unbind n f) = None \/ f_vn (f_unbind n f) = f_vn f.
Proof. intros. unfold f_unbind. destruct (f_is (f_vn f) n); simpl; auto. Qed.

Lemma unbind_vd : forall n f, f_vd (f_unbind n f) = f_vd f.
Proof. intros. unfold f_unbind. destruct (f_is (f_vn f) n); reflexivity. Qed.

Lemma cF_unbind : forall i n f, cF i f -> cF i (f_unbind n f).
Proof.
  intros i n f [H1 H2]. unfold cF in *. rewrite unbind_dn, unbind_dd, unbind_vd.
  destruct (unbind_vn_cases n f) as [E|E]; rewrite E; split.
  - intros [A|A]; try discriminate; auto.
  - discriminate.
  - auto.
  - auto.
Qed.

Lemma cG_unbind : forall i n f, cG i f -> cG i (f_unbind n f).
Proof.
  intros i n f [H1 H2]. unfold cG in *. rewrite unbind_dn, unbind_dd, unbind_vd.
  destruct (unbind_vn_cases n f) as [E|E]; rewrite E; split.
  - intros [A|A]; try discriminate; auto.
  - discriminate.
  - auto.
  - auto.
Qed.

Lemma fgood_unbind : forall i n l, n <> FSnap i -> fgood i l -> fgood i (filter f_alive (map (f_unbind n) l)).
Proof.
  intros i n l Hn H. apply fgood_filter_alive. apply fgood_map; auto.
  - intros f _ E. rewrite unbind_dn. exact E.
  - intros f _ E. apply unbind_other_vn; auto.
  - intros f _. apply cF_unbind.
  - intros f _. apply cG_unbind.
Qed.

(* -- create -- *)
Lemma fK_create : forall n l, Forall fK l -> Forall fK (fl_create n l).
Proof.
  intros n l H. unfold fl_create. constructor.
  - intros m Hm. simpl in Hm. discriminate.
  - apply Forall_filter_w. apply fK_map; auto. intros f _. apply fK_unbind.
Qed.

Lemma fgood_create : forall i j l, fgood i l -> fgood i (fl_create (FShrunk j) l).
Proof.
  intros i j l H. unfold fl_create. apply fgood_cons.
  - apply fgood_unbind; [discriminate | exact H].
  - split; [intros [A|A]; simpl in A; discriminate | simpl; discriminate].
  - split; [intros [A|A]; simpl in A; discriminate | simpl; discriminate].
Qed.

(* -- write / writeat: only the volatile data changes -- *)
Lemma fgood_vd : forall i j (w : data -> data) l,
  fgood i l ->
  fgood i (map (fun o => if f_is (f_vn o) (FShrunk j) then mkF (f_vn o) (f_dn o) (w (f_vd o)) (f_dd o) else o) l).
Proof.
  intros i j w l H. apply fgood_map; auto; intros f _; destruct (f_is (f_vn f) (FShrunk j)) eqn:E; simpl; auto;
  apply f_is_eq in E; intros [C1 C2]; split; simpl; auto; intros X; congruence.
Qed.

Lemma fK_vd : forall (p : fobj -> bool) (w : data -> data) l,
  Forall fK l -> Forall fK (map (fun o => if p o then mkF (f_vn o) (f_dn o) (w (f_vd o)) (f_dd o) else o) l).
Proof. intros. apply fK_map; auto. intros f _ Hf. destruct (p f); auto. Qed.

(* -- syncfile on a shrunk file -- *)
Lemma fgood_syncfile : forall i j l, Forall fK l -> fgood i l -> fgood i (fl_syncfile (FShrunk j) l).
Proof.
  intros i j l K H. unfold fl_syncfile. apply fgood_map; auto.
  - intros f _ E. destruct (f_is (f_vn f) (FShrunk j)); simpl; auto.
  - intros f _ E. destruct (f_is (f_vn f) (FShrunk j)); simpl; auto.
  - intros f Hf C. destruct (f_is (f_vn f) (FShrunk j)) eqn:E; auto.
    apply f_is_eq in E. unfold cF. simpl. split; [|intros X; congruence]. intros [A|A]; [congruence|].
    rewrite Forall_forall in K. destruct (K f Hf _ A) as [B|[B|[k [B _]]]]; congruence.
  - intros f Hf C. destruct (f_is (f_vn f) (FShrunk j)) eqn:E; auto.
    apply f_is_eq in E. unfold cG. simpl. split; [|intros X; congruence]. intros [A|A]; [congruence|].
    rewrite Forall_forall in K. destruct (K f Hf _ A) as [B|[B|[k [B _]]]]; congruence.
Qed.

Lemma fK_syncfile : forall n l, Forall fK l -> Forall fK (fl_syncfile n l).
Proof. intros. apply fK_map; auto. intros f _ Hf. destruct (f_is (f_vn f) n); auto. Qed.

(* -- syncdir -- *)
Lemma fK_syncdir : forall l, Forall fK (fl_syncdir l).
Proof.
  intros l. unfold fl_syncdir. apply Forall_filter_w. rewrite Forall_map_iff. rewrite Forall_forall.
  intros f _ n Hn. simpl in *. destruct (f_vn f); auto.
Qed.

Lemma fgood_syncdir : forall i l, fgood i l -> fgood i (fl_syncdir l).
Proof.
  intros i l (Ed & Ev & F & G). unfold fl_syncdir. apply fgood_filter_alive. rewrite fgood_unfold.
  rewrite !Exists_map_iff, !Forall_map_iff. simpl. repeat split; auto.
  - eapply Forall_impl_in; [exact F|]. intros f _ [C1 C2]. unfold cF in *. simpl. split; auto. intros [A|A]; auto.
  - eapply Forall_impl_in; [exact G|]. intros f _ [C1 C2]. unfold cG in *. simpl. split; auto. intros [A|A]; auto.
Qed.

(* -- remove flag -- *)
Lemma fK_remove : forall n l, Forall fK l -> Forall fK (fl_remove n l).
Proof. intros. unfold fl_remove. apply Forall_filter_w. apply fK_map; auto. intros f _. apply fK_unbind. Qed.

Lemma fgood_remove_flag : forall i l, fgood i l -> fgood i (fl_remove FFlag l).
Proof. intros. unfold fl_remove. apply fgood_unbind; [discriminate | assumption]. Qed.

(* -- rename shrunk -> snap -- *)
Lemma fK_rename : forall i l, Forall fK l -> Forall fK (fl_rename (FShrunk i) (FSnap i) l).
Proof.
  intros i l H. unfold fl_rename. apply Forall_filter_w. apply fK_map; auto.
  intros f _ Hf. destruct (f_is (f_vn f) (FShrunk i)) eqn:E.
  - apply f_is_eq in E. intros n Hn. simpl in *. destruct (Hf n Hn) as [B|[B|[k [_ B]]]]; try congruence.
    right. right. exists i. split; [congruence | reflexivity].
  - apply fK_unbind. exact Hf.
Qed.

Lemma fgood_rename : forall i l,
  Forall fK l -> fgood i l ->
  Exists (fun f => f_vn f = Some (FShrunk i)) l ->
  Forall (fun f => f_vn f = Some (FShrunk i) -> Vok (f_dd f) = true /\ f_vd f = f_dd f) l ->
  fgood i (fl_rename (FShrunk i) (FSnap i) l).
Proof.
  intros i l K (Ed & Ev & F & G) Ex Va. unfold fl_rename. apply fgood_filter_alive. rewrite fgood_unfold.
  rewrite !Exists_map_iff, !Forall_map_iff. repeat split.
  - rewrite Exists_exists in *. destruct Ed as [f [Hf P]]. exists f. split; auto.
    destruct (f_is (f_vn f) (FShrunk i)); simpl; auto. rewrite unbind_dn. exact P.
  - rewrite Exists_exists in *. destruct Ex as [f [Hf P]]. exists f. split; auto.
    apply f_is_eq in P. rewrite P. reflexivity.
  - rewrite Forall_forall in *. intros f Hf. destruct (f_is (f_vn f) (FShrunk i)) eqn:E.
    + apply f_is_eq in E. unfold cF. simpl. split; intros _; apply Va; auto.
    + apply cF_unbind. exact (F f Hf).
  - rewrite Forall_forall in *. intros f Hf. destruct (f_is (f_vn f) (FShrunk i)) eqn:E.
    + apply f_is_eq in E. unfold cG. simpl. split; [|discriminate]. intros [A|A]; [discriminate|].
      destruct (K f Hf _ A) as [B|[B|[k [B _]]]]; congruence.
    + apply cG_unbind. exact (G f Hf).
Qed.

(* -- crash -- *)
Lemma fK_crash : forall l, Forall fK (fl_crash l).
Proof.
  intros l. unfold fl_crash. rewrite Forall_map_iff. rewrite Forall_forall. intros f _ n Hn. simpl in *. auto.
Qed.

Lemma fgood_crash : forall i l, fgood i l -> fgood i (fl_crash l).
Proof.
  intros i l (Ed & Ev & F & G). unfold fl_crash. rewrite fgood_unfold.
  rewrite !Exists_map_iff, !Forall_map_iff. simpl.
  assert (E : Exists (fun x => f_dn x = Some (FSnap i)) (filter (fun o => is_some (f_dn o)) l)).
  { apply Exists_filter_s. rewrite Exists_exists in *. destruct Ed as [f [Hf P]]. exists f. rewrite P. auto. }
  repeat split; auto.
  - apply Forall_filter_w. eapply Forall_impl_in; [exact F|]. intros f _ [C1 C2]. unfold cF in *. simpl. split; auto. intros [A|A]; auto.
  - apply Forall_filter_w. eapply Forall_impl_in; [exact G|]. intros f _ [C1 C2]. unfold cG in *. simpl. split; auto. intros [A|A]; auto.
Qed.

(* ---------------------------------------------------------------------- *)
(* the root directory *)

Lemma dinv_final_index : forall o d i,
  dK o -> d_vn o = Some d -> (d_vn o = Some (DFinal i) \/ d_dn o = Some (DFinal i)) -> d = DFinal i.
Proof.
  intros o d i K V [A|A]; [congruence|].
  destruct (K _ A) as [B|[B|[k [[T|T] _]]]]; try congruence; discriminate.
Qed.

Lemma dinv_in_dir : forall d g o,
  dinv o -> d_vn o = Some d ->
  (Forall fK (d_files o) -> Forall fK (g (d_files o))) ->
  (forall i, d = DFinal i -> Forall fK (d_files o) -> fgood i (d_files o) -> fgood i (g (d_files o))) ->
  dinv (mkD (d_vn o) (d_dn o) (g (d_files o))).
Proof.
  intros d g o (K & FK & GD) V H1 H2. split; [exact K|]. split; [simpl; auto|].
  simpl. intros i Hi. apply H2; auto. eapply dinv_final_index; eauto.
Qed.

Lemma Forall_dinv_in_dir : forall d g l,
  Forall dinv l ->
  (forall fl, Forall fK fl -> Forall fK (g fl)) ->
  (forall i fl, d = DFinal i -> Forall fK fl -> fgood i fl -> fgood i (g fl)) ->
  Forall dinv (in_dir d g l).
Proof.
  intros d g l H H1 H2. unfold in_dir. rewrite Forall_map_iff. eapply Forall_impl_in; [exact H|].
  intros o _ Ho. destruct (d_is (d_vn o) d) eqn:E; [|exact Ho].
  apply d_is_eq in E. eapply dinv_in_dir; eauto.
Qed.

Definition is_rec (r : N) (o : dobj) : Prop := d_vn o = Some (DFinal r) /\ d_dn o = Some (DFinal r).

Lemma is_rec_in_dir : forall r d g l, Exists (is_rec r) l -> Exists (is_rec r) (in_dir d g l).
Proof.
  intros r d g l H. unfold in_dir. rewrite Exists_map_iff. rewrite Exists_exists in *.
  destruct H as [o [Ho P]]. exists o. split; auto. destruct (d_is (d_vn o) d); auto.
Qed.

Lemma dinv_unbind : forall n o, dinv o -> dinv (d_unbind n o).
Proof.
  intros n o H. unfold d_unbind. destruct (d_is (d_vn o) n); [|exact H].
  destruct H as (K & FK & GD). split; [|split]; simpl; auto.
  - intros m Hm. left. reflexivity.
  - intros i [A|A]; [discriminate|]. apply GD. auto.
Qed.

Lemma is_rec_unbind : forall r n l,
  n <> DFinal r -> Exists (is_rec r) l -> Exists (is_rec r) (filter d_alive (map (d_unbind n) l)).
Proof.
  intros r n l Hn H. apply Exists_filter_s. rewrite Exists_map_iff. rewrite Exists_exists in *.
  destruct H as [o [Ho [V D]]]. exists o. split; auto.
  unfold d_unbind. destruct (d_is (d_vn o) n) eqn:E.
  - apply d_is_eq in E. congruence.
  - split; [split; assumption|]. unfold d_alive. rewrite V. reflexivity.
Qed.

Lemma has_dir_false : forall n l, has_dir n l = false -> Forall (fun o => d_vn o <> Some n) l.
Proof.
  intros n l H. unfold has_dir in H. rewrite Forall_forall. intros o Ho E.
  assert (X : existsb (fun o => d_is (d_vn o) n) l = true).
  { apply existsb_exists. exists o. split; auto. apply d_is_eq. exact E. }
  congruence.
Qed.

Lemma crash_inv_fs : forall l, Forall dinv l -> Forall dinv (fs_crash l).
Proof.
  intros l H. unfold fs_crash. rewrite Forall_map_iff. apply Forall_filter_w.
  eapply Forall_impl_in; [exact H|]. intros o _ (K & FK & GD). split; [|split]; simpl.
  - intros n Hn. right. left. exact Hn.
  - apply fK_crash.
  - intros i Hi. apply fgood_crash. apply GD. right. destruct Hi; assumption.
Qed.

(* every allowed operation preserves the invariant *)
Lemma step_inv : forall s o t, Inv s -> allowed s o -> step s o = Some t -> Inv t.
Proof.
  intros [l r] o t [HI HR] A S. unfold recorded_dir in HR. simpl in HR.
  destruct o as [f | i | ]; simpl in S.
  - destruct (fs_step l f) as [l'|] eqn:FS; [|discriminate]. inversion S; subst t; clear S.
    unfold Inv, recorded_dir; simpl. fold (is_rec r).
    destruct f; simpl in FS, A.
    + (* mkdir *) inversion FS; subst l'; clear FS. unfold fs_mkdir. destruct (has_dir d l); [split; assumption|].
      split.
      * constructor; [|exact HI]. split; [|split]; simpl.
        -- intros n Hn. discriminate.
        -- constructor.
        -- intros i [X|X]; [|discriminate]. inversion X; subst d. discriminate.
      * intros Hr. apply Exists_cons_tl. auto.
    + (* syncroot *) inversion FS; subst l'; clear FS. unfold fs_syncroot. split.
      * apply Forall_filter_w. rewrite Forall_map_iff. eapply Forall_impl_in; [exact HI|].
        intros o _ (K & FK & GD). split; [|split]; simpl; auto.
        -- intros n Hn. right. left. exact Hn.
        -- intros i Hi. apply GD. left. destruct Hi; assumption.
      * intros Hr. apply Exists_filter_s. rewrite Exists_map_iff. specialize (HR Hr).
        rewrite Exists_exists in *. destruct HR as [o [Ho [V D]]]. exists o. split; auto.
        simpl. split; [split; assumption|]. unfold d_alive. simpl. rewrite V. reflexivity.
    + (* create *) destruct (has_dir d l); [|discriminate]. inversion FS; subst l'; clear FS. split.
      * apply Forall_dinv_in_dir; auto.
        -- intros. apply fK_create; auto.
        -- intros i fl -> _ G. unfold file_ok in A. subst f. apply fgood_create; auto.
      * intros Hr. apply is_rec_in_dir; auto.
    + (* write *) inversion FS; subst l'; clear FS. split.
      * apply Forall_dinv_in_dir; auto.
        -- intros. unfold fl_write. apply fK_vd with (p := fun o => f_is (f_vn o) f) (w := fun v => v ++ x); auto.
        -- intros i fl -> _ G. unfold fl_write. unfold file_ok in A. subst f. apply fgood_vd with (w := fun v => v ++ x); auto.
      * intros Hr. apply is_rec_in_dir; auto.
    + (* writeat *) inversion FS; subst l'; clear FS. split.
      * apply Forall_dinv_in_dir; auto.
        -- intros. unfold fl_writeat. apply fK_vd with (p := fun o => f_is (f_vn o) f) (w := overwrite off x); auto.
        -- intros i fl -> _ G. unfold fl_writeat. unfold file_ok in A. subst f. apply fgood_vd with (w := overwrite off x); auto.
      * intros Hr. apply is_rec_in_dir; auto.
    + (* syncfile *) inversion FS; subst l'; clear FS. split.
      * apply Forall_dinv_in_dir; auto.
        -- intros. apply fK_syncfile; auto.
        -- intros i fl -> K G. unfold file_ok in A. subst f. apply fgood_syncfile; auto.
      * intros Hr. apply is_rec_in_dir; auto.
    + (* syncdir *) destruct (has_dir d l); [|discriminate]. inversion FS; subst l'; clear FS. split.
      * apply Forall_dinv_in_dir; auto.
        -- intros. apply fK_syncdir.
        -- intros i fl _ _ G. apply fgood_syncdir; auto.
      * intros Hr. apply is_rec_in_dir; auto.
    + (* renamedir *) destruct (has_dir a l); [|discriminate]. inversion FS; subst l'; clear FS.
      destruct A as [i [NZ [T [-> [NB GA]]]]]. split.
      * unfold fs_renamedir. apply Forall_filter_w. rewrite Forall_map_iff.
        rewrite Forall_forall in *. intros o Ho. specialize (HI o Ho). specialize (GA o Ho).
        destruct (d_is (d_vn o) a) eqn:E.
        -- apply d_is_eq in E. destruct HI as (K & FK & GD). split; [|split]; simpl; auto.
           ++ intros n Hn. right. right. exists i. split; [|reflexivity].
              destruct (K _ Hn) as [B|[B|[k [[T1|T1] B]]]]; try congruence.
              ** destruct T as [T|T]; rewrite T in E; rewrite E in B; discriminate.
              ** destruct T as [T|T]; rewrite T in E; rewrite E in B; discriminate.
           ++ intros j [X|X].
              ** inversion X; subst j. auto.
              ** destruct (K _ X) as [B|[B|[k [[T1|T1] B]]]]; try congruence; try discriminate.
                 destruct T as [T|T]; rewrite T in E; rewrite E in B; discriminate.
        -- apply dinv_unbind. exact HI.
      * intros Hr. specialize (HR Hr). unfold fs_renamedir. apply Exists_filter_s. rewrite Exists_map_iff.
        rewrite Exists_exists in *. destruct HR as [o [Ho [V D]]]. exists o. split; auto.
        pose proof (has_dir_false _ _ NB) as NBF. rewrite Forall_forall in NBF. specialize (NBF o Ho).
        destruct (d_is (d_vn o) a) eqn:E.
        -- apply d_is_eq in E. destruct T as [T|T]; rewrite T in E; congruence.
        -- unfold d_unbind. destruct (d_is (d_vn o) (DFinal i)) eqn:E2.
           ++ apply d_is_eq in E2. contradiction.
           ++ split; [split; assumption|]. unfold d_alive. rewrite V. reflexivity.
    + (* renamefile *) destruct (has_file d a l); [|discriminate]. inversion FS; subst l'; clear FS.
      destruct A as [i [-> [-> [-> GA]]]]. split.
      * unfold in_dir. rewrite Forall_map_iff. rewrite Forall_forall in *. intros o Ho.
        specialize (HI o Ho). specialize (GA o Ho).
        destruct (d_is (d_vn o) (DFinal i)) eqn:E; [|exact HI].
        apply d_is_eq in E. destruct (GA E) as [EX VA].
        eapply dinv_in_dir; eauto.
        -- intros. apply fK_rename; auto.
        -- intros j Hj K G. inversion Hj; subst j. apply fgood_rename; auto.
      * intros Hr. apply is_rec_in_dir; auto.
    + (* remove *) destruct (has_file d f l); [|discriminate]. inversion FS; subst l'; clear FS. split.
      * apply Forall_dinv_in_dir; auto.
        -- intros. apply fK_remove; auto.
        -- intros i fl -> _ G. subst f. apply fgood_remove_flag; auto.
      * intros Hr. apply is_rec_in_dir; auto.
    + (* removeall *) inversion FS; subst l'; clear FS. unfold fs_removeall. split.
      * apply Forall_filter_w. rewrite Forall_map_iff. eapply Forall_impl_in; [exact HI|].
        intros o _. apply dinv_unbind.
      * intros Hr. apply is_rec_unbind; auto. destruct d; try discriminate. intro X. inversion X. congruence.
  - (* record *) inversion S; subst t; clear S. destruct A as [Hi EX]. split; simpl; [exact HI|].
    unfold recorded_dir; simpl. intros Hm.
    destruct (N.max_spec r i) as [[_ M]|[_ M]]; rewrite M in *; auto.
  - (* crash *) inversion S; subst t; clear S. split; simpl.
    + apply crash_inv_fs; auto.
    + unfold recorded_dir; simpl. intros Hr. specialize (HR Hr). unfold fs_crash.
      rewrite Exists_map_iff. apply Exists_filter_s. rewrite Exists_exists in *.
      destruct HR as [o [Ho [V D]]]. exists o. split; auto. simpl. rewrite D. auto.
Qed.

(* ---------------------------------------------------------------------- *)
(* no directory is ever named for index 0 (an "empty" snapshot) *)

Definition nz (o : dobj) : Prop := d_vn o <> Some (DFinal 0) /\ d_dn o <> Some (DFinal 0).
Definition NoZero (s : state) : Prop := Forall nz (st_fs s).

Lemma step_nozero : forall s o t, NoZero s -> allowed s o -> step s o = Some t -> NoZero t.
Proof.
  intros [l r] o t HZ A S. unfold NoZero in *. simpl in *.
  assert (IND : forall d g, Forall nz (in_dir d g l)).
  { intros d g. unfold in_dir. rewrite Forall_map_iff. eapply Forall_impl_in; [exact HZ|].
    intros o' _ Ho. destruct (d_is (d_vn o') d); auto. }
  assert (UNB : forall n, Forall nz (filter d_alive (map (d_unbind n) l))).
  { intros n. apply Forall_filter_w. rewrite Forall_map_iff. eapply Forall_impl_in; [exact HZ|].
    intros o' _ [H1 H2]. unfold d_unbind. destruct (d_is (d_vn o') n); split; simpl; auto. discriminate. }
  destruct o as [f | i | ]; simpl in S.
  - destruct (fs_step l f) as [l'|] eqn:FS; [|discriminate]. inversion S; subst t; clear S. simpl.
    destruct f; simpl in FS, A.
    + injection FS as <-. unfold fs_mkdir. destruct (has_dir d l); auto. constructor; auto. split; simpl; [|discriminate].
      intro X. inversion X; subst d. discriminate.
    + injection FS as <-. unfold fs_syncroot. apply Forall_filter_w. rewrite Forall_map_iff. eapply Forall_impl_in; [exact HZ|].
      intros o' _ [H1 H2]. split; simpl; auto.
    + destruct (has_dir d l); [|discriminate]. injection FS as <-. apply IND.
    + injection FS as <-. apply IND.
    + injection FS as <-. apply IND.
    + injection FS as <-. apply IND.
    + destruct (has_dir d l); [|discriminate]. injection FS as <-. apply IND.
    + destruct (has_dir a l); [|discriminate]. injection FS as <-.
      destruct A as [i [NZ [T [-> _]]]]. unfold fs_renamedir. apply Forall_filter_w. rewrite Forall_map_iff.
      eapply Forall_impl_in; [exact HZ|]. intros o' _ [H1 H2]. destruct (d_is (d_vn o') a).
      * split; simpl; auto. intro X. inversion X. congruence.
      * unfold d_unbind. destruct (d_is (d_vn o') (DFinal i)); split; simpl; auto. discriminate.
    + destruct (has_file d a l); [|discriminate]. injection FS as <-. apply IND.
    + destruct (has_file d f l); [|discriminate]. injection FS as <-. apply IND.
    + injection FS as <-. apply UNB.
  - inversion S; subst t; auto.
  - inversion S; subst t; simpl. unfold fs_crash. rewrite Forall_map_iff. apply Forall_filter_w.
    eapply Forall_impl_in; [exact HZ|]. intros o' _ [H1 H2]. split; simpl; auto.
Qed.

(* ---------------------------------------------------------------------- *)
(* runs *)

Fixpoint allowed_run (s : state) (ops : list op) : Prop :=
  match ops with
  | [] => True
  | o :: r => match step s o with
              | Some t => allowed s o /\ allowed_run t r
              | None => allowed_run s r
              end
  end.

Definition Good (s : state) : Prop := Inv s /\ NoZero s.

Lemma run_cons : forall s o r, run s (o :: r) = run (step' s o) r.
Proof. reflexivity. Qed.

Lemma run_app : forall a s b, run s (a ++ b) = run (run s a) b.
Proof. intros. unfold run. apply fold_left_app. Qed.

Lemma run_good : forall ops s, Good s -> allowed_run s ops -> Good (run s ops).
Proof.
  induction ops as [|o r IH]; intros s G A; [exact G|].
  rewrite run_cons. unfold step'. simpl in A. destruct (step s o) as [t|] eqn:E.
  - destruct A as [A1 A2]. apply IH; auto. destruct G as [G1 G2]. split.
    + eapply step_inv; eauto.
    + eapply step_nozero; eauto.
  - apply IH; auto.
Qed.

Lemma allowed_run_app : forall a s b, allowed_run s (a ++ b) <-> allowed_run s a /\ allowed_run (run s a) b.
Proof.
  induction a as [|o r IH]; intros s b.
  - simpl. tauto.
  - cbn [allowed_run app]. rewrite run_cons. unfold step'. destruct (step s o) as [t|].
    + rewrite IH. tauto.
    + apply IH.
Qed.

Lemma allowed_run_app_i : forall a s b, allowed_run s a -> allowed_run (run s a) b -> allowed_run s (a ++ b).
Proof. intros. apply allowed_run_app. auto. Qed.

Lemma allowed_run_firstn : forall k ops s, allowed_run s ops -> allowed_run s (firstn k ops).
Proof.
  intros k ops s H. rewrite <- (firstn_skipn k ops) in H. apply allowed_run_app in H. tauto.
Qed.

Lemma good_init : Good init.
Proof. split; [split|]; simpl; try constructor. unfold recorded_dir. simpl. intros H; contradiction. Qed.

(* ---------------------------------------------------------------------- *)
(* processOrphans *)

Definition dsynced (o : dobj) : Prop := d_dn o = d_vn o /\ d_vn o <> None.
Definition DSynced (s : state) : Prop := Forall dsynced (st_fs s).

Definition kept (r : N) (o : dobj) : Prop :=
  d_dn o = d_vn o /\
  match d_vn o with
  | Some (DOther _) => True
  | Some (DFinal i) => i = r /\ r <> 0 /\ fl_has FFlag (d_files o) = false
  | _ => False
  end.

Lemma has_dir_in : forall n l, has_dir n l = true <-> exists o, In o l /\ d_vn o = Some n.
Proof.
  intros. unfold has_dir. rewrite existsb_exists. split; intros [o [Ho E]]; exists o; split; auto; apply d_is_eq; auto.
Qed.

Lemma has_file_in : forall n f l, has_file n f l = true <->
  exists o, In o l /\ d_vn o = Some n /\ fl_has f (d_files o) = true.
Proof.
  intros. unfold has_file. rewrite existsb_exists. split; intros [o [Ho E]]; exists o; split; auto.
  - apply andb_true_iff in E. destruct E as [E1 E2]. apply d_is_eq in E1. auto.
  - destruct E as [E1 E2]. apply andb_true_iff. split; auto. apply d_is_eq. auto.
Qed.

Lemma has_file_false : forall n f l o, has_file n f l = false -> In o l -> d_vn o = Some n -> fl_has f (d_files o) = false.
Proof.
  intros n f l o H Ho V. destruct (fl_has f (d_files o)) eqn:E; auto.
  assert (X : has_file n f l = true) by (apply has_file_in; eauto). congruence.
Qed.

Lemma fl_has_remove : forall f l, fl_has f (fl_remove f l) = false.
Proof.
  intros f l. unfold fl_has, fl_remove. destruct (existsb _ _) eqn:E; auto.
  apply existsb_exists in E. destruct E as [x [Hx P]]. apply filter_In in Hx. destruct Hx as [Hx _].
  apply in_map_iff in Hx. destruct Hx as [y [<- _]]. unfold f_unbind in P.
  destruct (f_is (f_vn y) f) eqn:E2; simpl in P; congruence.
Qed.

Lemma d_eta : forall o, d_dn o = d_vn o -> mkD (d_vn o) (d_vn o) (d_files o) = o.
Proof. intros [v d fl] H. simpl in *. subst. reflexivity. Qed.

Lemma rm_sync_in : forall n l o', Forall dsynced l ->
  (In o' (fs_syncroot (fs_removeall n l)) <-> In o' l /\ d_vn o' <> Some n).
Proof.
  intros n l o' HS. unfold fs_syncroot, fs_removeall. rewrite Forall_forall in HS. split.
  - intros H. apply filter_In in H. destruct H as [H AL]. apply in_map_iff in H. destruct H as [x [<- Hx]].
    apply filter_In in Hx. destruct Hx as [Hx _]. apply in_map_iff in Hx. destruct Hx as [o [<- Ho]].
    destruct (HS o Ho) as [SD SV]. unfold d_unbind in *. destruct (d_is (d_vn o) n) eqn:E.
    + simpl in AL. discriminate.
    + rewrite d_eta; auto. split; auto. apply d_is_neq. exact E.
  - intros [Ho NE]. destruct (HS o' Ho) as [SD SV]. apply filter_In. split.
    + apply in_map_iff. exists o'. split; [apply d_eta; auto|]. apply filter_In. split.
      * apply in_map_iff. exists o'. split; auto. unfold d_unbind. apply d_is_neq in NE. rewrite NE. reflexivity.
      * unfold d_alive. destruct (d_vn o'); [reflexivity|contradiction].
    + unfold d_alive. destruct (d_vn o'); [reflexivity|contradiction].
Qed.

Lemma head_all : forall {A} (c : A) l, l <> [] -> Forall (fun x => x = c) l -> hd_error l = Some c.
Proof. intros A c [|x r] H F; [contradiction|]. inversion F; subst. reflexivity. Qed.

Lemma read_file_hd : forall d f s, read_file d f s =
  hd_error (flat_map (fun o => if d_is (d_vn o) d
                           then flat_map (fun x => if f_is (f_vn x) f then [f_vd x] else []) (d_files o)
                           else []) s).
Proof. intros. unfold read_file. destruct (flat_map _ s); reflexivity. Qed.

Lemma read_flag : forall i l, Forall dinv l -> has_file (DFinal i) FFlag l = true ->
  read_file (DFinal i) FFlag l = Some (flag_data i).
Proof.
  intros i l HI HF. rewrite read_file_hd. apply head_all.
  - apply has_file_in in HF. destruct HF as [o [Ho [V FH]]]. unfold fl_has in FH. apply existsb_exists in FH.
    destruct FH as [x [Hx P]]. intro E.
    assert (X : In (f_vd x) (flat_map (fun o => if d_is (d_vn o) (DFinal i)
                           then flat_map (fun x => if f_is (f_vn x) FFlag then [f_vd x] else []) (d_files o)
                           else []) l)).
    { apply in_flat_map. exists o. split; auto. apply d_is_eq in V. rewrite V. apply in_flat_map. exists x.
      split; auto. rewrite P. left. reflexivity. }
    rewrite E in X. contradiction.
  - rewrite Forall_forall. intros v Hv. apply in_flat_map in Hv. destruct Hv as [o [Ho Hv]].
    destruct (d_is (d_vn o) (DFinal i)) eqn:E; [|contradiction]. apply d_is_eq in E.
    apply in_flat_map in Hv. destruct Hv as [x [Hx Hv]]. destruct (f_is (f_vn x) FFlag) eqn:E2; [|contradiction].
    apply f_is_eq in E2. destruct Hv as [<-|[]].
    rewrite Forall_forall in HI. destruct (HI o Ho) as (_ & _ & GD). destruct (GD i (or_introl E)) as (_ & _ & _ & G).
    rewrite Forall_forall in G. destruct (G x Hx) as [_ G2]. auto.
Qed.

Lemma flag_index_data : forall i, i <> 0 -> flag_index (flag_data i) = Some i.
Proof.
  intros i H. unfold flag_index, flag_data. rewrite N.eqb_refl. apply N.eqb_neq in H. rewrite H. reflexivity.
Qed.

Definition names_cover (names : list dname) (r : N) (l : fs) : Prop :=
  Forall (fun o => (exists n, d_vn o = Some n /\ In n names) \/ kept r o) l.

Lemma exec_rmdir : forall s n,
  exec s (rmdir_ops n) = (mkS (fs_syncroot (fs_removeall n (st_fs s))) (st_rec s), rmdir_ops n, true).
Proof. intros [l r] n. reflexivity. Qed.

Lemma allowed_rmdir : forall s n,
  (match n with DFinal j => j <> st_rec s | _ => True end) -> allowed_run s (rmdir_ops n).
Proof. intros [l r] n H. simpl. auto. Qed.

Lemma run_rmdir : forall s n, run s (rmdir_ops n) = mkS (fs_syncroot (fs_removeall n (st_fs s))) (st_rec s).
Proof. intros [l r] n. reflexivity. Qed.

(* one iteration that removes directory n *)
Lemma po_remove_step : forall n R s,
  DSynced s -> ~ In n R ->
  Forall (fun m => has_dir m (st_fs s) = true) R ->
  names_cover (n :: R) (st_rec s) (st_fs s) ->
  let t := mkS (fs_syncroot (fs_removeall n (st_fs s))) (st_rec s) in
  DSynced t /\ Forall (fun m => has_dir m (st_fs t) = true) R /\ names_cover R (st_rec t) (st_fs t).
Proof.
  intros n R [l r] HS NI HD HC t. unfold DSynced, names_cover in *. simpl in *.
  pose proof (fun o' => rm_sync_in n l o' HS) as IN. split; [|split].
  - rewrite Forall_forall in *. intros o Ho. apply IN in Ho. apply HS. tauto.
  - rewrite Forall_forall in *. intros m Hm. specialize (HD m Hm). apply has_dir_in in HD. destruct HD as [o [Ho V]].
    apply has_dir_in. exists o. split; auto. apply IN. split; auto. rewrite V. intro X. inversion X. subst. contradiction.
  - rewrite Forall_forall in *. intros o Ho. apply IN in Ho. destruct Ho as [Ho NE].
    destruct (HC o Ho) as [[m [V [E|I]]]|K]; auto.
    + subst m. contradiction.
    + left. exists m. auto.
Qed.

Lemma po_loop_cons_ok : forall n R s ops t u tr2,
  po_one n s = Some ops -> exec s ops = (t, ops, true) -> po_loop R t = (u, tr2, true) ->
  po_loop (n :: R) s = (u, ops ++ tr2, true).
Proof. intros n R s ops t u tr2 H1 H2 H3. simpl. rewrite H1, H2, H3. reflexivity. Qed.

Lemma kept_of_other : forall r o k, dsynced o -> d_vn o = Some (DOther k) -> kept r o.
Proof. intros r o k [D _] V. split; auto. rewrite V. exact I. Qed.

Lemma po_loop_ok : forall names s,
  Good s -> DSynced s -> NoDup names ->
  Forall (fun n => has_dir n (st_fs s) = true) names ->
  names_cover names (st_rec s) (st_fs s) ->
  exists u tr, po_loop names s = (u, tr, true) /\ allowed_run s tr /\ u = run s tr /\
               st_rec u = st_rec s /\ DSynced u /\ Forall (kept (st_rec s)) (st_fs u).
Proof.
  induction names as [|n R IH]; intros s G HS ND HD HC.
  - exists s, []. simpl. repeat split; auto. unfold names_cover in HC.
    eapply Forall_impl_in; [exact HC|]. intros o _ [[m [_ []]]|K]; auto.
  - inversion ND as [|? ? NI ND']; subst. inversion HD as [|? ? HDn HDR]; subst.
    (* the iteration that removes n *)
    assert (REMOVE : (match n with DFinal j => j <> st_rec s | _ => True end) ->
                     po_one n s = Some (rmdir_ops n) ->
                     exists u tr, po_loop (n :: R) s = (u, tr, true) /\ allowed_run s tr /\ u = run s tr /\
                       st_rec u = st_rec s /\ DSynced u /\ Forall (kept (st_rec s)) (st_fs u)).
    { intros AL PO. pose proof (po_remove_step n R s HS NI HDR HC) as (S1 & S2 & S3).
      set (t := mkS (fs_syncroot (fs_removeall n (st_fs s))) (st_rec s)) in *.
      assert (A : allowed_run s (rmdir_ops n)) by (apply allowed_rmdir; auto).
      assert (Gt : Good t). { unfold t. rewrite <- run_rmdir. apply run_good; auto. }
      destruct (IH t Gt S1 ND' S2 S3) as [u [tr2 (P1 & P2 & P3 & P4 & P5 & P6)]].
      exists u, (rmdir_ops n ++ tr2). split; [|split; [|split; [|split; [|split]]]].
      - eapply po_loop_cons_ok; eauto; try apply exec_rmdir.
      - apply allowed_run_app. split; auto; try (rewrite run_rmdir; exact P2).
      - rewrite run_app, run_rmdir. exact P3.
      - exact P4.
      - exact P5.
      - exact P6. }
    (* the iteration that leaves the objects named n, all of them kept *)
    assert (KEEP : forall ops t, po_one n s = Some ops -> exec s ops = (t, ops, true) -> allowed_run s ops ->
                     t = run s ops -> st_rec t = st_rec s -> DSynced t ->
                     Forall (fun m => has_dir m (st_fs t) = true) R ->
                     names_cover R (st_rec s) (st_fs t) ->
                     exists u tr, po_loop (n :: R) s = (u, tr, true) /\ allowed_run s tr /\ u = run s tr /\
                       st_rec u = st_rec s /\ DSynced u /\ Forall (kept (st_rec s)) (st_fs u)).
    { intros ops t PO EX A RT RR S1 S2 S3.
      assert (Gt : Good t) by (rewrite RT; apply run_good; auto).
      rewrite <- RR in S3.
      destruct (IH t Gt S1 ND' S2 S3) as [u [tr2 (P1 & P2 & P3 & P4 & P5 & P6)]].
      exists u, (ops ++ tr2). split; [|split; [|split; [|split; [|split]]]].
      - eapply po_loop_cons_ok; eauto.
      - apply allowed_run_app. split; auto. rewrite <- RT. exact P2.
      - rewrite run_app, <- RT. exact P3.
      - congruence.
      - exact P5.
      - rewrite <- RR. exact P6. }
    (* no operation at all *)
    assert (NOOP : po_one n s = Some [] ->
                   (forall o, In o (st_fs s) -> d_vn o = Some n -> kept (st_rec s) o) ->
                     exists u tr, po_loop (n :: R) s = (u, tr, true) /\ allowed_run s tr /\ u = run s tr /\
                       st_rec u = st_rec s /\ DSynced u /\ Forall (kept (st_rec s)) (st_fs u)).
    { intros PO KP. apply (KEEP [] s); auto; try reflexivity. simpl; auto.
      unfold names_cover in *. rewrite Forall_forall in *. intros o Ho.
      destruct (HC o Ho) as [[m [V [E|I]]]|K]; auto.
      - subst m. right. apply KP; auto.
      - left. exists m. auto. }
    destruct n as [i | i | i | k].
    + (* a snapshot directory *)
      assert (NZi : i <> 0).
      { apply has_dir_in in HDn. destruct HDn as [o [Ho V]]. destruct G as [_ GZ]. unfold NoZero in GZ.
        rewrite Forall_forall in GZ. destruct (GZ o Ho) as [Z _]. intro X. subst i. contradiction. }
      destruct (has_file (DFinal i) FFlag (st_fs s)) eqn:HF.
      * (* orphan: flag file present *)
        assert (RF : read_file (DFinal i) FFlag (st_fs s) = Some (flag_data i)) by (apply read_flag; auto; apply G).
        destruct ((st_rec s =? 0) || negb (st_rec s =? i)) eqn:RM.
        -- apply REMOVE.
           ++ apply orb_true_iff in RM. destruct RM as [RM|RM].
              ** apply N.eqb_eq in RM. congruence.
              ** apply negb_true_iff in RM. apply N.eqb_neq in RM. congruence.
           ++ unfold po_one. rewrite HDn. simpl negb. cbv iota. rewrite HF, RF, flag_index_data by auto. rewrite RM. reflexivity.
        -- apply orb_false_iff in RM. destruct RM as [RM1 RM2]. apply N.eqb_neq in RM1.
           apply negb_false_iff in RM2. apply N.eqb_eq in RM2.
           set (t := mkS (in_dir (DFinal i) (fl_remove FFlag) (st_fs s)) (st_rec s)).
           assert (EX : exec s [OFs (FRemove (DFinal i) FFlag)] = (t, [OFs (FRemove (DFinal i) FFlag)], true)).
           { destruct s as [l r]. simpl in *. rewrite HF. reflexivity. }
           assert (ST : step s (OFs (FRemove (DFinal i) FFlag)) = Some t).
           { destruct s as [l r]. simpl in *. rewrite HF. reflexivity. }
           apply (KEEP [OFs (FRemove (DFinal i) FFlag)] t); auto.
           ++ unfold po_one. rewrite HDn. simpl negb. cbv iota. rewrite HF, RF, flag_index_data by auto.
              rewrite RM2. rewrite N.eqb_refl. apply N.eqb_neq in NZi. rewrite NZi. reflexivity.
           ++ cbn [allowed_run]. rewrite ST. simpl. auto.
           ++ unfold run. cbn [fold_left]. unfold step'. rewrite ST. reflexivity.
           ++ unfold DSynced in *. simpl. unfold in_dir. rewrite Forall_map_iff. eapply Forall_impl_in; [exact HS|].
              intros o _ D. destruct (d_is (d_vn o) (DFinal i)); auto.
           ++ rewrite Forall_forall in *. intros m Hm. specialize (HDR m Hm). apply has_dir_in in HDR.
              destruct HDR as [o [Ho V]]. apply has_dir_in. simpl.
              exists (if d_is (d_vn o) (DFinal i) then mkD (d_vn o) (d_dn o) (fl_remove FFlag (d_files o)) else o).
              split; [unfold in_dir; apply in_map_iff; exists o; auto|]. destruct (d_is (d_vn o) (DFinal i)); auto.
           ++ unfold names_cover in *. simpl. unfold in_dir. rewrite Forall_map_iff. rewrite Forall_forall in *.
              intros o Ho. unfold DSynced in HS. rewrite Forall_forall in HS. destruct (HS o Ho) as [SD SV].
              destruct (d_is (d_vn o) (DFinal i)) eqn:E.
              ** apply d_is_eq in E. right. split; simpl; auto. rewrite E. repeat split; auto. apply fl_has_remove.
              ** destruct (HC o Ho) as [[m [V [X|I]]]|K]; auto.
                 --- subst m. apply d_is_neq in E. contradiction.
                 --- left. exists m. auto.
      * (* snapshot without flag *)
        destruct ((st_rec s =? 0) || negb (i =? st_rec s)) eqn:RM.
        -- apply REMOVE.
           ++ apply orb_true_iff in RM. destruct RM as [RM|RM].
              ** apply N.eqb_eq in RM. congruence.
              ** apply negb_true_iff in RM. apply N.eqb_neq in RM. congruence.
           ++ unfold po_one. rewrite HDn. simpl negb. cbv iota. rewrite HF, RM. reflexivity.
        -- apply orb_false_iff in RM. destruct RM as [RM1 RM2]. apply N.eqb_neq in RM1.
           apply negb_false_iff in RM2. apply N.eqb_eq in RM2. apply NOOP.
           ++ unfold po_one. rewrite HDn. simpl negb. cbv iota. rewrite HF.
              rewrite RM2. rewrite N.eqb_refl. apply N.eqb_neq in RM1. rewrite RM1. reflexivity.
           ++ intros o Ho V. unfold DSynced in HS. rewrite Forall_forall in HS. destruct (HS o Ho) as [SD SV].
              split; auto. rewrite V. repeat split; auto. eapply has_file_false; eauto.
    + apply REMOVE; auto.
    + apply REMOVE; auto.
    + apply NOOP; auto. intros o Ho V. unfold DSynced in HS. rewrite Forall_forall in HS.
      eapply kept_of_other; eauto.
Qed.

(* ---- listing ---- *)

Lemma vnames_in : forall n l, In n (vnames l) <-> exists o, In o l /\ d_vn o = Some n.
Proof.
  intros n l. unfold vnames. rewrite in_flat_map. split.
  - intros [o [Ho H]]. exists o. split; auto. destruct (d_vn o); [|contradiction]. destruct H as [->|[]]. reflexivity.
  - intros [o [Ho V]]. exists o. split; auto. rewrite V. left. reflexivity.
Qed.

Lemma dedup_in : forall l x, In x (dedup l) <-> In x l.
Proof.
  induction l as [|y r IH]; intros x; simpl; [tauto|].
  rewrite filter_In, IH. split.
  - intros [H|[H _]]; auto.
  - intros [H|H]; auto. destruct (dname_eqb y x) eqn:E.
    + apply dname_eqb_eq in E. auto.
    + right. split; auto.
Qed.

Lemma dedup_nodup : forall l, NoDup (dedup l).
Proof.
  induction l as [|y r IH]; simpl; constructor.
  - intro H. apply filter_In in H. destruct H as [_ H].
    assert (E : dname_eqb y y = true) by (apply dname_eqb_eq; reflexivity). rewrite E in H. discriminate.
  - apply NoDup_filter. exact IH.
Qed.

Definition ord_ok (ord : list dname -> list dname) : Prop := forall l, Permutation l (ord l).

Lemma process_orphans_ok : forall ord s,
  ord_ok ord -> Good s -> DSynced s ->
  exists u tr, process_orphans ord s = (u, tr, true) /\ allowed_run s tr /\ u = run s tr /\
               st_rec u = st_rec s /\ DSynced u /\ Forall (kept (st_rec s)) (st_fs u).
Proof.
  intros ord s HO G HS. unfold process_orphans. apply po_loop_ok; auto.
  - eapply Permutation_NoDup; [apply HO | apply dedup_nodup].
  - rewrite Forall_forall. intros n Hn. eapply Permutation_in in Hn; [|apply Permutation_sym; apply HO].
    apply -> dedup_in in Hn. apply -> vnames_in in Hn. apply has_dir_in. exact Hn.
  - unfold names_cover. rewrite Forall_forall. intros o Ho. unfold DSynced in HS. rewrite Forall_forall in HS.
    destruct (HS o Ho) as [_ SV]. destruct (d_vn o) as [n|] eqn:V; [|contradiction].
    left. exists n. split; auto. eapply Permutation_in; [apply HO|]. apply dedup_in. apply vnames_in. eauto.
Qed.

Lemma crash_dsynced : forall s, DSynced (mkS (fs_crash (st_fs s)) (st_rec s)).
Proof.
  intros s. unfold DSynced, fs_crash. simpl. rewrite Forall_map_iff. rewrite Forall_forall.
  intros o Ho. apply filter_In in Ho. destruct Ho as [_ D]. split; simpl; auto.
  destruct (d_dn o); [discriminate | discriminate].
Qed.

Lemma run_crash : forall s, run s [OCrash] = mkS (fs_crash (st_fs s)) (st_rec s).
Proof. reflexivity. Qed.

Lemma fgood_goodb : forall i l, fgood i l -> files_goodb i l = true.
Proof.
  intros i l (Ed & Ev & F & _). unfold files_goodb. rewrite !andb_true_iff. repeat split.
  - apply existsb_exists. rewrite Exists_exists in Ed. destruct Ed as [f [Hf P]]. exists f. split; auto. apply f_is_eq; auto.
  - apply existsb_exists. rewrite Exists_exists in Ev. destruct Ev as [f [Hf P]]. exists f. split; auto. apply f_is_eq; auto.
  - apply forallb_forall. intros f Hf. rewrite Forall_forall in F. specialize (F f Hf).
    destruct (f_is (f_vn f) (FSnap i)) eqn:E1; destruct (f_is (f_dn f) (FSnap i)) eqn:E2; simpl; auto;
      apply HV1; apply F; try (left; apply f_is_eq; assumption); right; apply f_is_eq; assumption.
Qed.

Lemma kept_clean : forall s, Good s -> Forall (kept (st_rec s)) (st_fs s) -> cleanb s = true.
Proof.
  intros [l r] [[HI HR] _] HK. unfold cleanb. simpl in *. apply andb_true_iff. split.
  - apply forallb_forall. intros o Ho. rewrite Forall_forall in HK, HI. destruct (HK o Ho) as [D K].
    destruct (HI o Ho) as (_ & _ & GD).
    destruct (d_vn o) as [[i|i|i|k]|] eqn:V; auto; try contradiction.
    destruct K as (-> & NZ & NF). rewrite !andb_true_iff. repeat split.
    + apply negb_true_iff. apply N.eqb_neq. exact NZ.
    + apply N.eqb_refl.
    + apply fgood_goodb. apply GD. auto.
    + rewrite NF. reflexivity.
  - destruct (r =? 0) eqn:E; auto. apply N.eqb_neq in E. simpl. unfold recorded_dir in HR. simpl in HR.
    specialize (HR E). apply existsb_exists. rewrite Exists_exists in HR. destruct HR as [o [Ho [V D]]].
    exists o. split; auto. apply andb_true_iff. split; apply d_is_eq; auto.
Qed.

(* the start-up cleanup after a crash of any allowed run *)
Lemma cleanup_after_crash : forall ord s,
  ord_ok ord -> Good s ->
  exists u tr, process_orphans ord (run s [OCrash]) = (u, tr, true) /\ cleanb u = true /\
               Good u /\ st_rec u = st_rec s.
Proof.
  intros ord s HO G.
  assert (GC : Good (run s [OCrash])) by (apply run_good; simpl; auto).
  pose proof (crash_dsynced s) as DS. rewrite <- run_crash in DS.
  destruct (process_orphans_ok ord _ HO GC DS) as [u [tr (P1 & P2 & P3 & P4 & P5 & P6)]].
  exists u, tr. assert (GU : Good u) by (rewrite P3; apply run_good; auto).
  repeat split; auto; try apply GU.
  apply kept_clean; auto. rewrite P4. exact P6.
Qed.

(* ---------------------------------------------------------------------- *)
(* the recorded snapshot is durable and complete *)

Definition durable_complete (s : state) (i : N) : Prop :=
  exists o, In o (st_fs s) /\ d_vn o = Some (DFinal i) /\ d_dn o = Some (DFinal i) /\
    exists f, In f (d_files o) /\ f_dn f = Some (FSnap i) /\ valid_snap (f_dd f) = true.

Lemma good_recorded_complete : forall s, Good s -> st_rec s <> 0 -> durable_complete s (st_rec s).
Proof.
  intros s [[HI HR] _] NZ. specialize (HR NZ). rewrite Exists_exists in HR. destruct HR as [o [Ho [V D]]].
  exists o. repeat split; auto. rewrite Forall_forall in HI. destruct (HI o Ho) as (_ & _ & GD).
  destruct (GD _ (or_introl V)) as (Ed & _ & F & _). rewrite Exists_exists in Ed. destruct Ed as [f [Hf P]].
  exists f. repeat split; auto. rewrite Forall_forall in F. apply HV1. apply (F f Hf). auto.
Qed.

Lemma guarded_recorded_implies_complete : forall ops k,
  allowed_run init ops ->
  let s := run init (firstn k ops) in st_rec s <> 0 -> durable_complete s (st_rec s).
Proof.
  intros ops k A s NZ. apply good_recorded_complete; auto. apply run_good; [apply good_init|].
  apply allowed_run_firstn. exact A.
Qed.

Lemma guarded_cleanup : forall ord ops k,
  ord_ok ord -> allowed_run init ops ->
  exists u tr, process_orphans ord (run (run init (firstn k ops)) [OCrash]) = (u, tr, true) /\
               cleanb u = true /\ st_rec u = st_rec (run init (firstn k ops)).
Proof.
  intros ord ops k HO A.
  assert (G : Good (run init (firstn k ops))).
  { apply run_good; [apply good_init|]. apply allowed_run_firstn. exact A. }
  destruct (cleanup_after_crash ord _ HO G) as [u [tr (P1 & P2 & _ & P4)]]. exists u, tr. auto.
Qed.

(* ---------------------------------------------------------------------- *)
(* the programs only issue allowed operations *)

Definition gen_ok (i : N) (l : list fobj) : Prop :=
  Exists (fun f => f_dn f = Some (FSnap i)) l /\ Exists (fun f => f_vn f = Some (FSnap i)) l /\ Forall (cF i) l.

Lemma fgood_split : forall i l, fgood i l <-> gen_ok i l /\ Forall (cG i) l.
Proof. intros. rewrite fgood_unfold. unfold gen_ok. tauto. Qed.

Definition GenGood (s : state) : Prop :=
  Forall (fun o => forall i, d_vn o = Some (DGen i) -> gen_ok i (d_files o)) (st_fs s).

Definition J (s : state) : Prop := Good s /\ DSynced s /\ GenGood s.

Definition static_ok (o : op) : Prop := forall s, allowed s o.

Lemma allowed_run_static : forall ops s, Forall static_ok ops -> allowed_run s ops.
Proof.
  induction ops as [|o r IH]; intros s H; simpl; auto. inversion H; subst.
  destruct (step s o); auto.
Qed.

(* exec, run and success *)
Lemma exec_run : forall ops s u tr ok, exec s ops = (u, tr, ok) -> u = run s tr.
Proof.
  induction ops as [|o r IH]; intros s u tr ok H; simpl in H.
  - inversion H; subst. reflexivity.
  - destruct (step s o) as [t|] eqn:E.
    + destruct (exec t r) as [[u' tr'] ok'] eqn:E2. inversion H; subst. rewrite run_cons. unfold step'. rewrite E.
      eapply IH; eauto.
    + inversion H; subst. reflexivity.
Qed.

Lemma exec_prefix : forall ops s u tr ok, exec s ops = (u, tr, ok) -> exists rest, ops = tr ++ rest.
Proof.
  induction ops as [|o r IH]; intros s u tr ok H; simpl in H.
  - inversion H; subst. exists []. reflexivity.
  - destruct (step s o) as [t|] eqn:E.
    + destruct (exec t r) as [[u' tr'] ok'] eqn:E2. inversion H; subst. destruct (IH _ _ _ _ E2) as [rest ->].
      exists rest. reflexivity.
    + inversion H; subst. exists (o :: r). reflexivity.
Qed.

Lemma exec_allowed_static : forall ops s u tr ok,
  Forall static_ok ops -> exec s ops = (u, tr, ok) -> allowed_run s tr.
Proof.
  intros ops s u tr ok H E. destruct (exec_prefix _ _ _ _ _ E) as [rest ->].
  apply allowed_run_static. apply Forall_app in H. tauto.
Qed.

(* DSynced is re-established by SyncRoot and kept by operations inside a directory *)
Lemma syncroot_dsynced : forall l, Forall dsynced (fs_syncroot l).
Proof.
  intros l. unfold fs_syncroot. rewrite Forall_forall. intros o Ho. apply filter_In in Ho. destruct Ho as [Ho AL].
  apply in_map_iff in Ho. destruct Ho as [x [<- _]]. unfold d_alive in AL. simpl in *. split; auto.
  destruct (d_vn x); [discriminate|discriminate].
Qed.

Lemma in_dir_dsynced : forall d g l, Forall dsynced l -> Forall dsynced (in_dir d g l).
Proof.
  intros. unfold in_dir. rewrite Forall_map_iff. eapply Forall_impl_in; eauto. intros o _ D.
  destruct (d_is (d_vn o) d); auto.
Qed.

Definition gen_files (l : fs) : Prop := Forall (fun o => forall i, d_vn o = Some (DGen i) -> gen_ok i (d_files o)) l.

Lemma in_dir_gen_other : forall d g l, (forall i, d <> DGen i) -> gen_files l -> gen_files (in_dir d g l).
Proof.
  intros d g l ND H. unfold gen_files, in_dir in *. rewrite Forall_map_iff. eapply Forall_impl_in; eauto.
  intros o _ P. destruct (d_is (d_vn o) d) eqn:E; auto. apply d_is_eq in E. simpl. intros i V. exfalso. apply (ND i). congruence.
Qed.

Lemma syncroot_gen : forall l, gen_files l -> gen_files (fs_syncroot l).
Proof.
  intros l H. unfold gen_files, fs_syncroot in *. apply Forall_filter_w. rewrite Forall_map_iff.
  eapply Forall_impl_in; eauto.
Qed.

Lemma unbind_gen : forall n l, gen_files l -> gen_files (filter d_alive (map (d_unbind n) l)).
Proof.
  intros n l H. unfold gen_files in *. apply Forall_filter_w. rewrite Forall_map_iff.
  eapply Forall_impl_in; eauto. intros o _ P. unfold d_unbind. destruct (d_is (d_vn o) n); auto.
  simpl. intros i X. discriminate.
Qed.

Lemma kept_gen : forall r l, Forall (kept r) l -> gen_files l.
Proof.
  intros r l H. unfold gen_files. eapply Forall_impl_in; eauto. intros o _ [_ K] i V. rewrite V in K. contradiction.
Qed.

(* ---- Compact ---- *)
Lemma cmd_compact : forall s i t tr oc, J s ->
  (if st_rec s <=? i then (s, [], Panicked) else fin (exec s (rmdir_ops (DFinal i)))) = (t, tr, oc) ->
  allowed_run s tr /\ t = run s tr /\ J t.
Proof.
  intros s i t tr oc (G & HS & HG) H. destruct (st_rec s <=? i) eqn:E.
  - inversion H; subst. simpl. repeat split; auto; apply G.
  - apply N.leb_gt in E. rewrite exec_rmdir in H. simpl in H. inversion H; subst; clear H.
    assert (A : allowed_run s (rmdir_ops (DFinal i))) by (apply allowed_rmdir; lia).
    split; auto. split; [rewrite run_rmdir; reflexivity|]. split; [|split].
    + rewrite <- run_rmdir. apply run_good; auto.
    + unfold DSynced. simpl. apply syncroot_dsynced.
    + unfold GenGood. simpl. apply syncroot_gen. apply unbind_gen. exact HG.
Qed.

(* ---- Apply (engine) ---- *)
Lemma cmd_apply : forall s i t tr oc, J s ->
  (if has_file (DFinal i) FFlag (st_fs s) then fin (exec s (apply_ops i)) else (s, [], Skipped)) = (t, tr, oc) ->
  allowed_run s tr /\ t = run s tr /\ J t.
Proof.
  intros s i t tr oc (G & HS & HG) H. destruct (has_file (DFinal i) FFlag (st_fs s)) eqn:HF.
  - rewrite apply_ops_order in H. destruct s as [l r]. simpl in *. rewrite HF in H. simpl in H.
    inversion H; subst; clear H.
    apply has_file_in in HF. destruct HF as [o [Ho [V FH]]].
    unfold DSynced in HS. simpl in HS. rewrite Forall_forall in HS. destruct (HS o Ho) as [SD _].
    assert (NZ : i <> 0).
    { destruct G as [_ GZ]. unfold NoZero in GZ. simpl in GZ. rewrite Forall_forall in GZ. destruct (GZ o Ho) as [Z _].
      intro X. subst i. contradiction. }
    assert (HF2 : has_file (DFinal i) FFlag l = true) by (apply has_file_in; eauto).
    assert (A : allowed_run (mkS l r) [ORecord i; OFs (FRemove (DFinal i) FFlag)]).
    { simpl. rewrite HF2. simpl. repeat split; auto. rewrite Exists_exists. exists o. repeat split; auto. congruence. }
    assert (R : run (mkS l r) [ORecord i; OFs (FRemove (DFinal i) FFlag)] = mkS (in_dir (DFinal i) (fl_remove FFlag) l) (N.max r i)).
    { unfold run. simpl. unfold step'. simpl. rewrite HF2. reflexivity. }
    split; auto. split; [rewrite R; reflexivity|]. split; [|split].
    + rewrite <- R. apply run_good; auto.
    + unfold DSynced. simpl. apply in_dir_dsynced. rewrite Forall_forall. exact HS.
    + unfold GenGood. simpl. apply in_dir_gen_other; auto. discriminate.
  - inversion H; subst. simpl. repeat split; auto; apply G.
Qed.

(* ---- Record alone (SaveRaftState before onSnapshotSaved) ---- *)
Lemma cmd_record : forall s i t tr oc, J s ->
  (if has_file (DFinal i) FFlag (st_fs s) then fin (exec s [ORecord i]) else (s, [], Skipped)) = (t, tr, oc) ->
  allowed_run s tr /\ t = run s tr /\ J t.
Proof.
  intros s i t tr oc (G & HS & HG) H. destruct (has_file (DFinal i) FFlag (st_fs s)) eqn:HF.
  - destruct s as [l r]. simpl in *. inversion H; subst; clear H.
    apply has_file_in in HF. destruct HF as [o [Ho [V FH]]].
    unfold DSynced in HS. simpl in HS. rewrite Forall_forall in HS. destruct (HS o Ho) as [SD _].
    assert (NZ : i <> 0).
    { destruct G as [_ GZ]. unfold NoZero in GZ. simpl in GZ. rewrite Forall_forall in GZ. destruct (GZ o Ho) as [Z _].
      intro X. subst i. contradiction. }
    assert (A : allowed_run (mkS l r) [ORecord i]).
    { simpl. repeat split; auto. rewrite Exists_exists. exists o. repeat split; auto. congruence. }
    split; auto. split; [reflexivity|]. split; [|split].
    + change (mkS l (N.max r i)) with (run (mkS l r) [ORecord i]). apply run_good; auto.
    + unfold DSynced. simpl. rewrite Forall_forall. exact HS.
    + exact HG.
  - inversion H; subst. simpl. repeat split; auto; apply G.
Qed.

(* ---- Restart / Crash ---- *)
Lemma cmd_restart : forall ord s t tr oc, ord_ok ord -> J s ->
  fin (process_orphans ord s) = (t, tr, oc) -> allowed_run s tr /\ t = run s tr /\ J t.
Proof.
  intros ord s t tr oc HO (G & HS & HG) H.
  destruct (process_orphans_ok ord s HO G HS) as [u [tr' (P1 & P2 & P3 & P4 & P5 & P6)]].
  rewrite P1 in H. simpl in H. inversion H; subst t tr oc; clear H. split; auto. split; auto.
  split; [|split]; auto.
  - rewrite P3. apply run_good; auto.
  - unfold GenGood. eapply kept_gen; eauto.
Qed.

Lemma cmd_crash : forall ord s t tr oc, ord_ok ord -> J s ->
  seq (exec s [OCrash]) (fun s1 => fin (process_orphans ord s1)) = (t, tr, oc) ->
  allowed_run s tr /\ t = run s tr /\ J t.
Proof.
  intros ord s t tr oc HO (G & HS & HG) H.
  assert (E : exec s [OCrash] = (run s [OCrash], [OCrash], true)) by reflexivity.
  rewrite E in H. unfold seq in H.
  assert (GC : Good (run s [OCrash])) by (apply run_good; simpl; auto).
  pose proof (crash_dsynced s) as DS. rewrite <- run_crash in DS.
  destruct (process_orphans_ok ord _ HO GC DS) as [u [tr' (P1 & P2 & P3 & P4 & P5 & P6)]].
  rewrite P1 in H. simpl in H. inversion H; subst t tr oc; clear H.
  split; [|split; [|split; [|split]]].
  - change (allowed_run s ([OCrash] ++ tr')). apply allowed_run_app. split; simpl; auto.
  - change (u = run s ([OCrash] ++ tr')). rewrite run_app. exact P3.
  - rewrite P3. apply run_good; auto.
  - exact P5.
  - unfold GenGood. eapply kept_gen; eauto.
Qed.

(* ---- operations local to one directory ---- *)
Definition local_fn (o : fsop) : list fobj -> list fobj :=
  match o with
  | FCreate _ f => fl_create f
  | FWrite _ f x => fl_write f x
  | FWriteAt _ f off x => fl_writeat f off x
  | FSyncFile _ f => fl_syncfile f
  | FSyncDir _ => fl_syncdir
  | _ => fun l => l
  end.

Definition local_to (d : dname) (o : fsop) : Prop :=
  match o with
  | FCreate d' _ | FWrite d' _ _ | FWriteAt d' _ _ _ | FSyncFile d' _ | FSyncDir d' => d' = d
  | _ => False
  end.

Definition apply_local (ops : list fsop) (fl : list fobj) : list fobj :=
  fold_left (fun acc o => local_fn o acc) ops fl.

Lemma in_dir_ext : forall d g g' l, (forall x, g x = g' x) -> in_dir d g l = in_dir d g' l.
Proof. intros. unfold in_dir. apply map_ext. intros o. rewrite H. reflexivity. Qed.

Lemma in_dir_id : forall d l, in_dir d (fun x => x) l = l.
Proof.
  intros. unfold in_dir. rewrite <- (map_id l) at 2. apply map_ext. intros [v dn fl]. simpl.
  destruct (d_is v d); reflexivity.
Qed.

Lemma in_dir_in_dir : forall d g1 g2 l, in_dir d g2 (in_dir d g1 l) = in_dir d (fun x => g2 (g1 x)) l.
Proof.
  intros. unfold in_dir. rewrite map_map. apply map_ext. intros o. destruct (d_is (d_vn o) d) eqn:E; simpl; rewrite E; reflexivity.
Qed.

Lemma has_dir_in_dir : forall n d g l, has_dir n (in_dir d g l) = has_dir n l.
Proof.
  intros n d g l. unfold has_dir, in_dir. induction l as [|o r IH]; simpl; auto. rewrite IH. f_equal.
  destruct (d_is (d_vn o) d); reflexivity.
Qed.

Lemma exec_local : forall ops l r d,
  has_dir d l = true -> Forall (local_to d) ops ->
  exec (mkS l r) (map OFs ops) = (mkS (in_dir d (apply_local ops) l) r, map OFs ops, true).
Proof.
  induction ops as [|o ops IH]; intros l r d HD HL.
  - cbn [map exec]. change (apply_local []) with (fun x : list fobj => x). rewrite in_dir_id. reflexivity.
  - inversion HL as [|? ? L1 L2]; subst.
    assert (ST : step (mkS l r) (OFs o) = Some (mkS (in_dir d (local_fn o) l) r)).
    { destruct o; simpl in L1; try contradiction; subst; simpl; try rewrite HD; reflexivity. }
    cbn [map exec]. rewrite ST. rewrite (IH _ r d); auto; [|rewrite has_dir_in_dir; exact HD].
    rewrite in_dir_in_dir. reflexivity.
Qed.

(* ---- tracking one file through local operations ---- *)
Definition Tr (f : fname) (v w : data) (fl : list fobj) : Prop :=
  Exists (fun x => f_vn x = Some f) fl /\
  Forall (fun x => f_vn x = Some f -> f_vd x = v /\ f_dd x = w) fl.

(* the durable name f belongs to the live node only, and it has it *)
Definition Db (f : fname) (fl : list fobj) : Prop :=
  Exists (fun x => f_vn x = Some f /\ f_dn x = Some f) fl /\
  Forall (fun x => f_dn x = Some f -> f_vn x = Some f) fl.

Lemma Tr_create : forall f fl, Tr f [] [] (fl_create f fl).
Proof.
  intros f fl. unfold fl_create. split.
  - apply Exists_cons_hd. reflexivity.
  - constructor; [simpl; auto|]. apply Forall_filter_w. rewrite Forall_map_iff. rewrite Forall_forall.
    intros x _ V. unfold f_unbind in V. destruct (f_is (f_vn x) f) eqn:E; simpl in V; [discriminate|].
    apply f_is_neq in E. contradiction.
Qed.

Lemma Tr_vd : forall f v w (g : data -> data) fl,
  Tr f v w fl ->
  Tr f (g v) w (map (fun o => if f_is (f_vn o) f then mkF (f_vn o) (f_dn o) (g (f_vd o)) (f_dd o) else o) fl).
Proof.
  intros f v w g fl [E F]. split.
  - rewrite Exists_map_iff. rewrite Exists_exists in *. destruct E as [x [Hx V]]. exists x. split; auto.
    destruct (f_is (f_vn x) f); auto.
  - rewrite Forall_map_iff. eapply Forall_impl_in; [exact F|]. intros x _ P.
    destruct (f_is (f_vn x) f) eqn:E1; simpl.
    + intros V. destruct (P V) as [-> ->]. auto.
    + intros V. apply f_is_neq in E1. contradiction.
Qed.

Lemma Tr_syncfile : forall f v w fl, Tr f v w fl -> Tr f v v (fl_syncfile f fl).
Proof.
  intros f v w fl [E F]. unfold fl_syncfile. split.
  - rewrite Exists_map_iff. rewrite Exists_exists in *. destruct E as [x [Hx V]]. exists x. split; auto.
    destruct (f_is (f_vn x) f); auto.
  - rewrite Forall_map_iff. eapply Forall_impl_in; [exact F|]. intros x _ P.
    destruct (f_is (f_vn x) f) eqn:E1; simpl.
    + intros V. destruct (P V) as [-> _]. auto.
    + intros V. apply f_is_neq in E1. contradiction.
Qed.

Lemma Tr_syncdir : forall f v w fl, Tr f v w fl -> Tr f v w (fl_syncdir fl) /\ Db f (fl_syncdir fl).
Proof.
  intros f v w fl [E F]. unfold fl_syncdir. split; [split|split].
  - apply Exists_filter_s. rewrite Exists_map_iff. rewrite Exists_exists in *. destruct E as [x [Hx V]].
    exists x. split; auto. simpl. split; auto. unfold f_alive. simpl. rewrite V. reflexivity.
  - apply Forall_filter_w. rewrite Forall_map_iff. eapply Forall_impl_in; [exact F|]. intros x _ P. simpl. exact P.
  - apply Exists_filter_s. rewrite Exists_map_iff. rewrite Exists_exists in *. destruct E as [x [Hx V]].
    exists x. split; auto. simpl. split; auto. unfold f_alive. simpl. rewrite V. reflexivity.
  - apply Forall_filter_w. rewrite Forall_map_iff. rewrite Forall_forall. intros x _. simpl. auto.
Qed.

(* maps that keep both names keep Db *)
Lemma Db_names : forall f (h : fobj -> fobj) fl,
  (forall x, f_vn (h x) = f_vn x /\ f_dn (h x) = f_dn x) -> Db f fl -> Db f (map h fl).
Proof.
  intros f h fl H [E F]. split.
  - rewrite Exists_map_iff. rewrite Exists_exists in *. destruct E as [x [Hx [V D]]]. exists x.
    destruct (H x) as [-> ->]. auto.
  - rewrite Forall_map_iff. eapply Forall_impl_in; [exact F|]. intros x _ P. destruct (H x) as [-> ->]. exact P.
Qed.

Lemma Db_vd : forall f (p : fobj -> bool) (g : data -> data) fl,
  Db f fl -> Db f (map (fun o => if p o then mkF (f_vn o) (f_dn o) (g (f_vd o)) (f_dd o) else o) fl).
Proof. intros. apply Db_names; auto. intros x. destruct (p x); auto. Qed.

Lemma Db_syncfile : forall f n fl, Db f fl -> Db f (fl_syncfile n fl).
Proof. intros. unfold fl_syncfile. apply Db_names; auto. intros x. destruct (f_is (f_vn x) n); auto. Qed.

Lemma gen_ok_of_Tr : forall i v fl,
  Tr (FSnap i) v v fl -> Db (FSnap i) fl -> Vok v = true -> gen_ok i fl.
Proof.
  intros i v fl [E F] [DE DF] VS. split; [|split].
  - rewrite Exists_exists in *. destruct DE as [x [Hx [_ D]]]. eauto.
  - exact E.
  - rewrite Forall_forall in *. intros x Hx. split.
    + intros [A|A].
      * destruct (F x Hx A) as [_ ->]. exact VS.
      * destruct (F x Hx (DF x Hx A)) as [_ ->]. exact VS.
    + intros A. destruct (F x Hx A) as [-> ->]. reflexivity.
Qed.

Lemma cG_of_Tr : forall i fl,
  Tr FFlag (flag_data i) (flag_data i) fl -> Db FFlag fl -> Forall (cG i) fl.
Proof.
  intros i fl [E F] [DE DF]. rewrite Forall_forall in *. intros x Hx. split.
  - intros [A|A]; [apply (F x Hx A) | apply (F x Hx (DF x Hx A))].
  - intros A. apply (F x Hx A).
Qed.

(* ---- frame: operations on another name keep gen_ok ---- *)
Lemma gen_ok_map : forall i h l,
  gen_ok i l ->
  (forall f, In f l -> f_dn f = Some (FSnap i) -> f_dn (h f) = Some (FSnap i)) ->
  (forall f, In f l -> f_vn f = Some (FSnap i) -> f_vn (h f) = Some (FSnap i)) ->
  (forall f, In f l -> cF i f -> cF i (h f)) ->
  gen_ok i (map h l).
Proof.
  intros i h l (Ed & Ev & F) H1 H2 H3. unfold gen_ok.
  rewrite !Exists_map_iff, !Forall_map_iff. repeat split.
  - rewrite Exists_exists in *. destruct Ed as [f [Hf P]]. exists f. auto.
  - rewrite Exists_exists in *. destruct Ev as [f [Hf P]]. exists f. auto.
  - eapply Forall_impl_in; [exact F | auto].
Qed.

Lemma gen_ok_filter_alive : forall i l, gen_ok i l -> gen_ok i (filter f_alive l).
Proof.
  intros i l (Ed & Ev & F). repeat split.
  - apply Exists_filter_s. rewrite Exists_exists in *. destruct Ed as [f [Hf P]]. exists f. repeat split; auto.
    unfold f_alive. rewrite P. simpl. apply orb_true_r.
  - apply Exists_filter_s. rewrite Exists_exists in *. destruct Ev as [f [Hf P]]. exists f. repeat split; auto.
    unfold f_alive. rewrite P. reflexivity.
  - apply Forall_filter_w; exact F.
Qed.

Lemma gen_ok_create : forall i n l, n <> FSnap i -> gen_ok i l -> gen_ok i (fl_create n l).
Proof.
  intros i n l NE H. unfold fl_create.
  assert (G : gen_ok i (filter f_alive (map (f_unbind n) l))).
  { apply gen_ok_filter_alive. apply gen_ok_map; auto.
    - intros f _ E. rewrite unbind_dn. exact E.
    - intros f _ E. apply unbind_other_vn; auto.
    - intros f _. apply cF_unbind. }
  destruct G as (Ed & Ev & F). repeat split.
  - apply Exists_cons_tl; exact Ed.
  - apply Exists_cons_tl; exact Ev.
  - constructor; auto. split; [intros [A|A]; simpl in A; [congruence|discriminate] | simpl; intros A; congruence].
Qed.

Lemma gen_ok_vd : forall i n (w : data -> data) l, n <> FSnap i ->
  gen_ok i l -> gen_ok i (map (fun o => if f_is (f_vn o) n then mkF (f_vn o) (f_dn o) (w (f_vd o)) (f_dd o) else o) l).
Proof.
  intros i n w l NE H. apply gen_ok_map; auto; intros f _; destruct (f_is (f_vn f) n) eqn:E; simpl; auto.
  apply f_is_eq in E. intros [C1 C2]. split; simpl; auto. intros X. congruence.
Qed.

Lemma gen_ok_syncfile : forall i n l, n <> FSnap i -> Forall fK l -> gen_ok i l -> gen_ok i (fl_syncfile n l).
Proof.
  intros i n l NE K H. unfold fl_syncfile. apply gen_ok_map; auto.
  - intros f _ E. destruct (f_is (f_vn f) n); simpl; auto.
  - intros f _ E. destruct (f_is (f_vn f) n); simpl; auto.
  - intros f Hf C. destruct (f_is (f_vn f) n) eqn:E; auto.
    apply f_is_eq in E. unfold cF. simpl. split; [|intros X; congruence]. intros [A|A]; [congruence|].
    rewrite Forall_forall in K. destruct (K f Hf _ A) as [B|[B|[k [B _]]]]; congruence.
Qed.

Lemma gen_ok_syncdir : forall i l, gen_ok i l -> gen_ok i (fl_syncdir l).
Proof.
  intros i l (Ed & Ev & F). unfold fl_syncdir. apply gen_ok_filter_alive. unfold gen_ok.
  rewrite !Exists_map_iff, !Forall_map_iff. simpl. repeat split; auto.
  eapply Forall_impl_in; [exact F|]. intros f _ [C1 C2]. unfold cF in *. simpl. split; auto. intros [A|A]; auto.
Qed.

Lemma fK_write : forall n d l, Forall fK l -> Forall fK (fl_write n d l).
Proof. intros. unfold fl_write. apply (fK_vd (fun o => f_is (f_vn o) n) (fun v => v ++ d)). auto. Qed.
Lemma fK_writeat : forall n off d l, Forall fK l -> Forall fK (fl_writeat n off d l).
Proof. intros. unfold fl_writeat. apply (fK_vd (fun o => f_is (f_vn o) n) (overwrite off d)). auto. Qed.
Lemma gen_ok_write : forall i n d l, n <> FSnap i -> gen_ok i l -> gen_ok i (fl_write n d l).
Proof. intros. unfold fl_write. apply (gen_ok_vd i n (fun v => v ++ d)); auto. Qed.
Lemma gen_ok_writeat : forall i n off d l, n <> FSnap i -> gen_ok i l -> gen_ok i (fl_writeat n off d l).
Proof. intros. unfold fl_writeat. apply (gen_ok_vd i n (overwrite off d)); auto. Qed.
Lemma Tr_write : forall f v w d fl, Tr f v w fl -> Tr f (v ++ d) w (fl_write f d fl).
Proof. intros. unfold fl_write. apply (Tr_vd f v w (fun x => x ++ d)). auto. Qed.
Lemma Tr_writeat : forall f v w off d fl, Tr f v w fl -> Tr f (overwrite off d v) w (fl_writeat f off d fl).
Proof. intros. unfold fl_writeat. apply (Tr_vd f v w (overwrite off d)). auto. Qed.
Lemma Db_write : forall f n d fl, Db f fl -> Db f (fl_write n d fl).
Proof. intros. unfold fl_write. apply (Db_vd f (fun o => f_is (f_vn o) n) (fun v => v ++ d)). auto. Qed.
Lemma Db_writeat : forall f n off d fl, Db f fl -> Db f (fl_writeat n off d fl).
Proof. intros. unfold fl_writeat. apply (Db_vd f (fun o => f_is (f_vn o) n) (overwrite off d)). auto. Qed.

(* CreateFlagFile(dir, n, i) on a directory that holds a complete snapshot file *)
Definition flag_fn (n : fname) (i : N) (fl : list fobj) : list fobj :=
  fl_syncdir (fl_syncfile n (fl_write n [i] (fl_write n [T_HASH] (fl_create n fl)))).

Lemma flag_fn_gen_ok : forall n i j fl, n <> FSnap j -> Forall fK fl -> gen_ok j fl -> gen_ok j (flag_fn n i fl).
Proof.
  intros n i j fl NE K H. unfold flag_fn. apply gen_ok_syncdir. apply gen_ok_syncfile; auto.
  - apply fK_write. apply fK_write. apply fK_create. exact K.
  - apply gen_ok_write; auto. apply gen_ok_write; auto. apply gen_ok_create; auto.
Qed.

Lemma flag_fn_fK : forall n i fl, Forall fK (flag_fn n i fl).
Proof. intros. apply fK_syncdir. Qed.

Lemma flag_fn_cG : forall i fl, Forall (cG i) (flag_fn FFlag i fl).
Proof.
  intros i fl. unfold flag_fn.
  assert (T : Tr FFlag (flag_data i) (flag_data i) (fl_syncfile FFlag (fl_write FFlag [i] (fl_write FFlag [T_HASH] (fl_create FFlag fl))))).
  { apply Tr_syncfile with (w := []).
    apply (Tr_write FFlag [T_HASH] [] [i]).
    apply (Tr_write FFlag [] [] [T_HASH]). apply Tr_create. }
  destruct (Tr_syncdir _ _ _ _ T) as [T2 D]. apply cG_of_Tr; auto.
Qed.

Lemma apply_local_flag : forall d n i fl, apply_local
  [FCreate d n; FWrite d n [T_HASH]; FWrite d n [i]; FSyncFile d n; FSyncDir d] fl = flag_fn n i fl.
Proof. reflexivity. Qed.

Lemma exec_app : forall a b s,
  exec s (a ++ b) =
  let '(s1, tr1, ok1) := exec s a in
  if ok1 then let '(u, tr2, ok2) := exec s1 b in (u, tr1 ++ tr2, ok2) else (s1, tr1, false).
Proof.
  induction a as [|o r IH]; intros b s.
  - simpl. destruct (exec s b) as [[u tr] ok]. reflexivity.
  - cbn [app exec]. destruct (step s o) as [t|]; [|reflexivity]. rewrite IH.
    destruct (exec t r) as [[s1 tr1] ok1]. destruct ok1; [|reflexivity].
    destruct (exec s1 b) as [[u tr2] ok2]. reflexivity.
Qed.

Lemma mkdir_sync_in : forall d l o,
  In o (fs_syncroot (fs_mkdir d l)) ->
  d_vn o = Some d \/ exists o0, In o0 l /\ o = mkD (d_vn o0) (d_vn o0) (d_files o0).
Proof.
  intros d l o H. unfold fs_syncroot in H. apply filter_In in H. destruct H as [H _].
  apply in_map_iff in H. destruct H as [x [<- Hx]]. unfold fs_mkdir in Hx. destruct (has_dir d l).
  - right. exists x. auto.
  - destruct Hx as [<-|Hx]; [left; reflexivity|]. right. exists x. auto.
Qed.

Lemma has_dir_mkdir_sync : forall d l, has_dir d (fs_syncroot (fs_mkdir d l)) = true.
Proof.
  intros d l. apply has_dir_in. unfold fs_mkdir. destruct (has_dir d l) eqn:E.
  - apply has_dir_in in E. destruct E as [o [Ho V]]. exists (mkD (d_vn o) (d_vn o) (d_files o)). split; auto.
    unfold fs_syncroot. apply filter_In. split; [apply in_map_iff; exists o; auto|]. unfold d_alive. simpl. rewrite V. reflexivity.
  - exists (mkD (Some d) (Some d) []). split; auto. unfold fs_syncroot. apply filter_In. split; [|reflexivity].
    apply in_map_iff. exists (mkD (Some d) None []). split; auto. left. reflexivity.
Qed.

Definition writer_fs (d : dname) (f : fname) (body : data) : list fsop :=
  [FCreate d f; FWrite d f [T_HDR0]; FWrite d f body; FWrite d f [T_TAIL]; FWriteAt d f 0 [T_HDR];
   FSyncFile d f; FSyncDir d].

Lemma writer_Tr : forall d f body fl,
  let v := T_HDR :: body ++ [T_TAIL] in
  Tr f v v (apply_local (writer_fs d f body) fl) /\ Db f (apply_local (writer_fs d f body) fl).
Proof.
  intros d f body fl v. unfold writer_fs, apply_local. cbn [fold_left local_fn].
  assert (T : Tr f v v (fl_syncfile f (fl_writeat f 0 [T_HDR] (fl_write f [T_TAIL] (fl_write f body (fl_write f [T_HDR0] (fl_create f fl))))))).
  { apply Tr_syncfile with (w := []).
    replace v with (overwrite 0 [T_HDR] ((([] ++ [T_HDR0]) ++ body) ++ [T_TAIL])) by reflexivity.
    apply Tr_writeat. apply Tr_write. apply Tr_write. apply Tr_write. apply Tr_create. }
  apply Tr_syncdir. exact T.
Qed.

Lemma valid_writer : forall body, valid_snap (T_HDR :: body ++ [T_TAIL]) = true.
Proof. intros. unfold valid_snap. rewrite last_last. reflexivity. Qed.

Lemma writer_gen_ok : forall d i body fl,
  Vok (T_HDR :: body ++ [T_TAIL]) = true -> gen_ok i (apply_local (writer_fs d (FSnap i) body) fl).
Proof.
  intros d i body fl HB. destruct (writer_Tr d (FSnap i) body fl) as [T D]. eapply gen_ok_of_Tr; eauto.
Qed.

Lemma static_local_tmp : forall d ops, is_tmp d = true -> Forall (local_to d) ops -> Forall static_ok (map OFs ops).
Proof.
  intros d ops T H. rewrite Forall_map_iff. eapply Forall_impl_in; [exact H|]. intros o _ L s.
  destruct o; simpl in L; try contradiction; subst; simpl; auto; destruct d; simpl; auto; discriminate.
Qed.

Lemma static_mktemp : forall d, is_tmp d = true -> Forall static_ok (mktemp_ops d).
Proof. intros d T. unfold mktemp_ops. repeat constructor; intros s; simpl; auto. Qed.

Lemma static_rmdir_tmp : forall d, is_tmp d = true -> Forall static_ok (rmdir_ops d).
Proof. intros d T. unfold rmdir_ops. repeat constructor; intros s; simpl; auto. destruct d; auto; discriminate. Qed.

(* ---- Save ---- *)
Lemma cmd_save_body : forall s i body t tr oc, Vok (T_HDR :: body ++ [T_TAIL]) = true -> J s ->
  fin (exec s (save_ops_body i body)) = (t, tr, oc) -> allowed_run s tr /\ t = run s tr /\ J t.
Proof.
  intros [l r] i body t tr oc HB (G & HS & HG) H.
  set (d := DGen i) in *.
  set (l1 := fs_syncroot (fs_mkdir d l)).
  assert (E : exec (mkS l r) (save_ops_body i body) =
              (mkS (in_dir d (apply_local (writer_fs d (FSnap i) body)) l1) r, save_ops_body i body, true)).
  { unfold save_ops_body. rewrite exec_app. fold d.
    assert (E1 : exec (mkS l r) (mktemp_ops d) = (mkS l1 r, mktemp_ops d, true)) by reflexivity.
    rewrite E1. change (writer_ops d (FSnap i) body) with (map OFs (writer_fs d (FSnap i) body)).
    rewrite (exec_local _ l1 r d).
    - reflexivity.
    - apply has_dir_mkdir_sync.
    - repeat constructor. }
  rewrite E in H. simpl in H. inversion H; subst t tr oc; clear H.
  assert (A : allowed_run (mkS l r) (save_ops_body i body)).
  { apply allowed_run_static. unfold save_ops_body. apply Forall_app. split.
    - apply static_mktemp. reflexivity.
    - change (writer_ops (DGen i) (FSnap i) body) with (map OFs (writer_fs d (FSnap i) body)).
      apply static_local_tmp with (d := d); [reflexivity | repeat constructor]. }
  pose proof (exec_run _ _ _ _ _ E) as R.
  split; auto. split; auto. split; [|split].
  - rewrite R. apply run_good; auto.
  - unfold DSynced. simpl. apply in_dir_dsynced. apply syncroot_dsynced.
  - unfold GenGood. simpl. unfold in_dir. rewrite Forall_map_iff. rewrite Forall_forall. intros o Ho.
    destruct (d_is (d_vn o) d) eqn:E2.
    + apply d_is_eq in E2. simpl. intros j V. rewrite E2 in V. inversion V; subst j. apply (writer_gen_ok d). exact HB.
    + apply d_is_neq in E2. apply mkdir_sync_in in Ho. destruct Ho as [V|[o0 [Ho0 ->]]]; [contradiction|].
      simpl. unfold GenGood in HG. simpl in HG. rewrite Forall_forall in HG. apply HG. exact Ho0.
Qed.

Lemma cmd_save : forall s i n t tr oc, J s ->
  fin (exec s (save_ops i n)) = (t, tr, oc) -> allowed_run s tr /\ t = run s tr /\ J t.
Proof. intros s i n t tr oc. unfold save_ops. apply cmd_save_body. apply HV2. Qed.

Lemma triple_eq : forall {A B C} (a a' : A) (b b' : B) (c c' : C),
  (a, b, c) = (a', b', c') -> a = a' /\ b = b' /\ c = c'.
Proof. intros. inversion H. auto. Qed.

(* ---- FinalizeSnapshot ---- *)
Lemma renamedir_gen : forall a i l, gen_files l -> gen_files (fs_renamedir a (DFinal i) l).
Proof.
  intros a i l H. unfold gen_files, fs_renamedir in *. apply Forall_filter_w. rewrite Forall_map_iff.
  eapply Forall_impl_in; eauto. intros o _ P. destruct (d_is (d_vn o) a).
  - simpl. intros j X. discriminate.
  - unfold d_unbind. destruct (d_is (d_vn o) (DFinal i)); auto. simpl. intros j X. discriminate.
Qed.

Lemma rename_sync_witness : forall a b l o,
  In o l -> d_vn o = Some a ->
  In (mkD (Some b) (Some b) (d_files o)) (fs_syncroot (fs_renamedir a b l)).
Proof.
  intros a b l o Ho V. unfold fs_syncroot, fs_renamedir. apply filter_In. split; [|reflexivity].
  apply in_map_iff. exists (mkD (Some b) (d_dn o) (d_files o)). split; [reflexivity|].
  apply filter_In. split; [|reflexivity]. apply in_map_iff. exists o. split; auto.
  apply d_is_eq in V. rewrite V. reflexivity.
Qed.

Lemma flag_fn_has_flag : forall i fl, fl_has FFlag (flag_fn FFlag i fl) = true.
Proof.
  intros i fl. unfold flag_fn.
  assert (T : Tr FFlag (flag_data i) (flag_data i) (fl_syncfile FFlag (fl_write FFlag [i] (fl_write FFlag [T_HASH] (fl_create FFlag fl))))).
  { apply Tr_syncfile with (w := []). apply (Tr_write FFlag [T_HASH] [] [i]).
    apply (Tr_write FFlag [] [] [T_HASH]). apply Tr_create. }
  destruct (Tr_syncdir _ _ _ _ T) as [[E _] _]. unfold fl_has. apply existsb_exists. rewrite Exists_exists in E.
  destruct E as [x [Hx V]]. exists x. split; auto. apply f_is_eq. exact V.
Qed.

Lemma finalize_ok : forall tmp i tail s t tr oc,
  i <> 0 -> tmp_of tmp i ->
  (tail = [] \/ tail = [ORecord i; OFs (FRemove (DFinal i) FFlag)]) ->
  J s -> Forall (fun o => d_vn o = Some tmp -> gen_ok i (d_files o)) (st_fs s) ->
  finalize tmp i tail s = (t, tr, oc) -> allowed_run s tr /\ t = run s tr /\ J t.
Proof.
  intros tmp i tail [l r] t tr oc NZ TM TL (G & HS & HG) PRE H.
  assert (TMP : is_tmp tmp = true) by (destruct TM as [->| ->]; reflexivity).
  unfold finalize, finalize_pre in H.
  destruct (has_dir tmp l) eqn:HD.
  2:{ (* no temporary directory: the first Create fails *)
    assert (E : exec (mkS l r) (flagfile_ops tmp FFlag i) = (mkS l r, [], false)).
    { unfold flagfile_ops. cbn [exec step fs_step st_fs]. rewrite HD. reflexivity. }
    rewrite E in H. simpl in H. inversion H; subst. simpl. repeat split; auto; apply G. }
  set (g := flag_fn FFlag i). set (l1 := in_dir tmp g l).
  assert (E : exec (mkS l r) (flagfile_ops tmp FFlag i) = (mkS l1 r, flagfile_ops tmp FFlag i, true)).
  { change (flagfile_ops tmp FFlag i) with (map OFs [FCreate tmp FFlag; FWrite tmp FFlag [T_HASH]; FWrite tmp FFlag [i]; FSyncFile tmp FFlag; FSyncDir tmp]).
    rewrite (exec_local _ l r tmp); auto. repeat constructor. }
  rewrite E in H. unfold seq in H. cbn [st_fs] in H.
  assert (A1 : allowed_run (mkS l r) (flagfile_ops tmp FFlag i)).
  { apply allowed_run_static.
    change (flagfile_ops tmp FFlag i) with (map OFs [FCreate tmp FFlag; FWrite tmp FFlag [T_HASH]; FWrite tmp FFlag [i]; FSyncFile tmp FFlag; FSyncDir tmp]).
    apply static_local_tmp with (d := tmp); auto. repeat constructor. }
  pose proof (exec_run _ _ _ _ _ E) as R1.
  assert (G1 : Good (mkS l1 r)) by (rewrite R1; apply run_good; auto).
  assert (S1 : Forall dsynced l1) by (apply in_dir_dsynced; exact HS).
  destruct G as [[HI HR] HZ].
  (* the files of the temporary directory are now those of a complete snapshot directory *)
  assert (FG : Forall (fun o => d_vn o = Some tmp -> fgood i (d_files o)) l1).
  { unfold l1, in_dir. rewrite Forall_map_iff. rewrite Forall_forall in *. intros o Ho.
    destruct (d_is (d_vn o) tmp) eqn:E2; simpl.
    - intros _. apply d_is_eq in E2. apply fgood_split. split.
      + apply flag_fn_gen_ok; [discriminate | apply (HI o Ho) | apply PRE; auto].
      + apply flag_fn_cG.
    - intros V. apply d_is_neq in E2. contradiction. }
  assert (GF1 : gen_files l1).
  { unfold l1, in_dir, gen_files. rewrite Forall_map_iff. unfold GenGood in HG. simpl in HG. rewrite Forall_forall in *.
    intros o Ho. destruct (d_is (d_vn o) tmp) eqn:E2; [|apply HG; auto]. apply d_is_eq in E2. simpl. intros j V.
    assert (j = i) by (destruct TM as [T|T]; rewrite T in E2; congruence). subst j.
    apply flag_fn_gen_ok; [discriminate | apply (HI o Ho) | apply PRE; auto]. }
  assert (HD1 : has_dir tmp l1 = true) by (unfold l1; rewrite has_dir_in_dir; exact HD).
  destruct (has_dir (DFinal i) l1) eqn:HF.
  - (* out of date: the temporary directory is removed *)
    rewrite exec_rmdir in H. cbv beta iota zeta in H. apply triple_eq in H. destruct H as (<- & <- & <-).
    assert (A2 : allowed_run (mkS l1 r) (rmdir_ops tmp)) by (apply allowed_run_static; apply static_rmdir_tmp; auto).
    split; [apply allowed_run_app_i; auto; rewrite <- R1; exact A2|].
    split; [rewrite run_app, <- R1, run_rmdir; reflexivity|].
    split; [|split].
    + rewrite <- (run_rmdir (mkS l1 r)). apply run_good; auto.
    + unfold DSynced. simpl. apply syncroot_dsynced.
    + unfold GenGood. simpl. apply syncroot_gen. apply unbind_gen. exact GF1.
  - (* rename to the final directory *)
    set (l3 := fs_syncroot (fs_renamedir tmp (DFinal i) l1)).
    apply has_dir_in in HD1. destruct HD1 as [w [Hw Vw]].
    pose proof (rename_sync_witness tmp (DFinal i) l1 w Hw Vw) as WIT. fold l3 in WIT.
    assert (WF : fl_has FFlag (d_files w) = true).
    { unfold l1, in_dir in Hw. apply in_map_iff in Hw. destruct Hw as [w0 [<- Hw0]].
      destruct (d_is (d_vn w0) tmp) eqn:E2; simpl.
      - first [reflexivity | unfold g; apply flag_fn_has_flag].
      - simpl in Vw. apply d_is_neq in E2. contradiction. }
    assert (AR : allowed (mkS l1 r) (OFs (FRenameDir tmp (DFinal i)))).
    { simpl. exists i. repeat split; auto. }
    assert (HDt : has_dir tmp l1 = true) by (apply has_dir_in; eauto).
    assert (E3 : exec (mkS l1 r) (finalize_rename tmp i) = (mkS l3 r, finalize_rename tmp i, true)).
    { unfold finalize_rename. cbn [exec step fs_step st_fs st_rec]. rewrite HDt. reflexivity. }
    assert (A3 : allowed_run (mkS l1 r) (finalize_rename tmp i)).
    { unfold finalize_rename. cbn [allowed_run step fs_step st_fs st_rec]. rewrite HDt. split; auto. simpl. auto. }
    pose proof (exec_run _ _ _ _ _ E3) as R3.
    assert (G3 : Good (mkS l3 r)) by (rewrite R3; apply run_good; auto).
    assert (GF3 : gen_files l3) by (apply syncroot_gen; apply renamedir_gen; exact GF1).
    rewrite exec_app, E3 in H.
    destruct TL as [-> | ->].
    + cbn [exec] in H. cbv beta iota zeta in H. apply triple_eq in H. destruct H as (<- & <- & <-). rewrite app_nil_r.
      split; [apply allowed_run_app_i; auto; rewrite <- R1; exact A3|].
      split; [rewrite run_app, <- R1; exact R3|].
      split; [exact G3|]. split; [unfold DSynced; simpl; apply syncroot_dsynced | exact GF3].
    + assert (HF3 : has_file (DFinal i) FFlag l3 = true).
      { apply has_file_in. eexists. split; [exact WIT|]. simpl. auto. }
      set (tl := [ORecord i; OFs (FRemove (DFinal i) FFlag)]) in *.
      set (l4 := in_dir (DFinal i) (fl_remove FFlag) l3).
      assert (E4 : exec (mkS l3 r) tl = (mkS l4 (N.max r i), tl, true)).
      { unfold tl. cbn [exec step fs_step st_fs st_rec]. rewrite HF3. reflexivity. }
      assert (A4 : allowed_run (mkS l3 r) tl).
      { unfold tl. cbn [allowed_run step fs_step st_fs st_rec]. rewrite HF3. simpl. repeat split; auto.
        rewrite Exists_exists. eexists. split; [exact WIT|]. simpl. auto. }
      pose proof (exec_run _ _ _ _ _ E4) as R4.
      rewrite E4 in H. cbv beta iota zeta in H. apply triple_eq in H. destruct H as (<- & <- & <-).
      assert (AA : allowed_run (mkS l1 r) (finalize_rename tmp i ++ tl)).
      { apply allowed_run_app_i; auto. rewrite <- R3. exact A4. }
      assert (RR : mkS l4 (N.max r i) = run (mkS l1 r) (finalize_rename tmp i ++ tl)).
      { rewrite run_app, <- R3. exact R4. }
      split; [apply allowed_run_app_i; auto; rewrite <- R1; exact AA|].
      split; [rewrite run_app, <- R1; exact RR|].
      split; [|split].
      * rewrite RR. apply run_good; auto.
      * unfold DSynced. simpl. apply in_dir_dsynced. apply syncroot_dsynced.
      * unfold GenGood. simpl. apply in_dir_gen_other; auto. discriminate.
Qed.

Lemma seq_ok : forall s1 tr1 k t tr oc,
  seq (s1, tr1, true) k = (t, tr, oc) -> exists tr2, k s1 = (t, tr2, oc) /\ tr = tr1 ++ tr2.
Proof.
  intros s1 tr1 k t tr oc H. unfold seq in H. destruct (k s1) as [[u tr2] oc2].
  apply triple_eq in H. destruct H as (<- & <- & <-). exists tr2. auto.
Qed.

Lemma compose_ok : forall s s1 tr1 t tr2,
  allowed_run s tr1 -> s1 = run s tr1 -> allowed_run s1 tr2 /\ t = run s1 tr2 /\ J t ->
  allowed_run s (tr1 ++ tr2) /\ t = run s (tr1 ++ tr2) /\ J t.
Proof.
  intros s s1 tr1 t tr2 A R (A2 & R2 & JT). subst s1. split; [apply allowed_run_app_i; auto|].
  split; auto. rewrite run_app. exact R2.
Qed.

(* ---- Commit ---- *)
Lemma cmd_commit : forall s i t tr oc, i <> 0 -> J s ->
  seq (exec s (flagfile_ops (DGen i) FMeta i)) (finalize (DGen i) i (commit_tail i)) = (t, tr, oc) ->
  allowed_run s tr /\ t = run s tr /\ J t.
Proof.
  intros [l r] i t tr oc NZ (G & HS & HG) H. set (d := DGen i) in *.
  destruct (has_dir d l) eqn:HD.
  2:{ assert (E : exec (mkS l r) (flagfile_ops d FMeta i) = (mkS l r, [], false)).
      { unfold flagfile_ops. cbn [exec step fs_step st_fs]. rewrite HD. reflexivity. }
      rewrite E in H. simpl in H. inversion H; subst. simpl. repeat split; auto; apply G. }
  set (l1 := in_dir d (flag_fn FMeta i) l).
  assert (LO : flagfile_ops d FMeta i = map OFs [FCreate d FMeta; FWrite d FMeta [T_HASH]; FWrite d FMeta [i]; FSyncFile d FMeta; FSyncDir d]) by reflexivity.
  assert (E : exec (mkS l r) (flagfile_ops d FMeta i) = (mkS l1 r, flagfile_ops d FMeta i, true)).
  { rewrite LO. rewrite (exec_local _ l r d); auto. repeat constructor. }
  assert (A1 : allowed_run (mkS l r) (flagfile_ops d FMeta i)).
  { apply allowed_run_static. rewrite LO. apply static_local_tmp with (d := d); [reflexivity | repeat constructor]. }
  pose proof (exec_run _ _ _ _ _ E) as R1.
  rewrite E in H. apply seq_ok in H. destruct H as [tr2 [H ->]].
  apply compose_ok with (s1 := mkS l1 r); auto.
  destruct G as [[HI HR] HZ].
  assert (GF1 : gen_files l1).
  { unfold l1, in_dir, gen_files. rewrite Forall_map_iff. unfold GenGood in HG. simpl in HG. rewrite Forall_forall in *.
    intros o Ho. destruct (d_is (d_vn o) d) eqn:E2; [|apply HG; auto]. apply d_is_eq in E2. simpl. intros j V.
    assert (j = i) by (unfold d in E2; congruence). subst j.
    apply flag_fn_gen_ok; [discriminate | apply (HI o Ho) | apply (HG o Ho); auto]. }
  eapply finalize_ok; [exact NZ | left; reflexivity | right; apply commit_tail_order | | | exact H].
  - split; [|split]; auto.
    + rewrite R1. apply run_good; auto. split; [split|]; auto.
    + unfold DSynced. simpl. apply in_dir_dsynced. exact HS.
  - simpl. unfold gen_files in GF1. eapply Forall_impl_in; [exact GF1|]. intros o _ P V. apply P. exact V.
Qed.

(* ---- Receive ---- *)
Definition recv_fs (i n : N) : list fsop :=
  let d := DRecv i in let f := FSnap i in
  if n <=? 1 then [FCreate d f; FWrite d f [T_HDR; T_TAIL]; FSyncFile d f; FSyncDir d]
  else [FCreate d f; FWrite d f [T_HDR]; FSyncDir d;
        FWrite d f (repeat T_BODY (N.to_nat (n - 2))); FWrite d f [T_TAIL]; FSyncFile d f].

Lemma recv_ops_fs : forall i n, recv_data_ops i n = map OFs (recv_fs i n).
Proof. intros. unfold recv_data_ops, recv_fs. destruct (n <=? 1); reflexivity. Qed.

Lemma recv_local : forall i n, Forall (local_to (DRecv i)) (recv_fs i n).
Proof. intros. unfold recv_fs. destruct (n <=? 1); repeat constructor. Qed.

Lemma recv_gen_ok : forall i n fl, gen_ok i (apply_local (recv_fs i n) fl).
Proof.
  intros i n fl. unfold recv_fs. destruct (n <=? 1); unfold apply_local; cbn [fold_left local_fn].
  - set (f := FSnap i).
    assert (T : Tr f [T_HDR; T_TAIL] [T_HDR; T_TAIL] (fl_syncfile f (fl_write f [T_HDR; T_TAIL] (fl_create f fl)))).
    { apply Tr_syncfile with (w := []). apply (Tr_write f [] [] [T_HDR; T_TAIL]). apply Tr_create. }
    destruct (Tr_syncdir _ _ _ _ T) as [T2 D]. eapply gen_ok_of_Tr; eauto. apply (HV2 0%nat).
  - set (f := FSnap i). set (body := repeat T_BODY (N.to_nat (n - 2))).
    assert (T : Tr f [T_HDR] [] (fl_write f [T_HDR] (fl_create f fl))).
    { apply (Tr_write f [] [] [T_HDR]). apply Tr_create. }
    destruct (Tr_syncdir _ _ _ _ T) as [T2 D].
    eapply gen_ok_of_Tr with (v := T_HDR :: body ++ [T_TAIL]).
    + apply Tr_syncfile with (w := []).
      apply (Tr_write f (T_HDR :: body) [] [T_TAIL]). apply (Tr_write f [T_HDR] [] body). exact T2.
    + apply Db_syncfile. apply Db_write. apply Db_write. exact D.
    + apply HV2.
Qed.

Lemma cmd_recv : forall s i n t tr oc, i <> 0 -> J s ->
  seq (exec s (mktemp_ops (DRecv i) ++ recv_data_ops i n)) (finalize (DRecv i) i []) = (t, tr, oc) ->
  allowed_run s tr /\ t = run s tr /\ J t.
Proof.
  intros [l r] i n t tr oc NZ (G & HS & HG) H. set (d := DRecv i) in *.
  set (l1 := fs_syncroot (fs_mkdir d l)). set (l2 := in_dir d (apply_local (recv_fs i n)) l1).
  set (ops := mktemp_ops d ++ recv_data_ops i n) in *.
  assert (E : exec (mkS l r) ops = (mkS l2 r, ops, true)).
  { unfold ops. rewrite exec_app.
    assert (E1 : exec (mkS l r) (mktemp_ops d) = (mkS l1 r, mktemp_ops d, true)) by reflexivity.
    rewrite E1. rewrite recv_ops_fs. rewrite (exec_local _ l1 r d).
    - reflexivity.
    - apply has_dir_mkdir_sync.
    - apply recv_local. }
  assert (A1 : allowed_run (mkS l r) ops).
  { apply allowed_run_static. unfold ops. apply Forall_app. split.
    - apply static_mktemp. reflexivity.
    - rewrite recv_ops_fs. apply static_local_tmp with (d := d); [reflexivity | apply recv_local]. }
  pose proof (exec_run _ _ _ _ _ E) as R1.
  rewrite E in H. apply seq_ok in H. destruct H as [tr2 [H ->]].
  apply compose_ok with (s1 := mkS l2 r); auto.
  assert (GF1 : gen_files l1).
  { unfold gen_files. rewrite Forall_forall. intros o Ho. apply mkdir_sync_in in Ho.
    destruct Ho as [V|[o0 [Ho0 ->]]].
    - intros j X. unfold d in V. congruence.
    - simpl. unfold GenGood in HG. simpl in HG. rewrite Forall_forall in HG. apply HG. exact Ho0. }
  eapply finalize_ok; [exact NZ | right; reflexivity | left; reflexivity | | | exact H].
  - split; [|split].
    + rewrite R1. apply run_good; auto.
    + unfold DSynced. simpl. apply in_dir_dsynced. apply syncroot_dsynced.
    + unfold GenGood. simpl. apply in_dir_gen_other; auto. intros j. discriminate.
  - simpl. unfold l2, in_dir. rewrite Forall_map_iff. rewrite Forall_forall. intros o Ho.
    destruct (d_is (d_vn o) d) eqn:E2; simpl.
    + intros _. apply recv_gen_ok.
    + intros V. apply d_is_neq in E2. contradiction.
Qed.

(* ---- Shrink ---- *)
Lemma read_file_has_dir : forall d f l x, read_file d f l = Some x -> has_dir d l = true.
Proof.
  intros d f l x H. rewrite read_file_hd in H. destruct (flat_map _ l) as [|y ys] eqn:E; [discriminate|].
  assert (I : In y (y :: ys)) by (left; reflexivity). rewrite <- E in I. apply in_flat_map in I.
  destruct I as [o [Ho I]]. destruct (d_is (d_vn o) d) eqn:E2; [|contradiction].
  apply has_dir_in. exists o. split; auto. apply d_is_eq. exact E2.
Qed.

Lemma shrink_ops_split : forall i, shrink_ops i =
  map OFs (writer_fs (DFinal i) (FShrunk i) [T_EMPTY]) ++
  [OFs (FRenameFile (DFinal i) (FShrunk i) (FSnap i)); OFs (FSyncDir (DFinal i))].
Proof. reflexivity. Qed.

Lemma cmd_shrink : forall s i t tr oc, shrunk_ok -> J s ->
  (if st_rec s <? i then (s, [], Done)
   else match read_file (DFinal i) (FSnap i) (st_fs s) with
        | Some d => if valid_snap d then fin (exec s (shrink_ops i)) else (s, [], Panicked)
        | None => (s, [], Failed)
        end) = (t, tr, oc) ->
  allowed_run s tr /\ t = run s tr /\ J t.
Proof.
  intros [l r] i t tr oc SOK (G & HS & HG) H.
  assert (TRIV : forall oc', (mkS l r, @nil op, oc') = (t, tr, oc) -> allowed_run (mkS l r) tr /\ t = run (mkS l r) tr /\ J t).
  { intros oc' X. inversion X; subst. simpl. repeat split; auto; apply G. }
  cbn [st_rec st_fs] in H. destruct (r <? i); [eapply TRIV; eauto|].
  destruct (read_file (DFinal i) (FSnap i) l) as [x|] eqn:RF; [|eapply TRIV; eauto].
  destruct (valid_snap x); [|eapply TRIV; eauto].
  set (d := DFinal i) in *. set (sh := FShrunk i) in *.
  pose proof (read_file_has_dir _ _ _ _ RF) as HD.
  set (wf := writer_fs d sh [T_EMPTY]). set (l1 := in_dir d (apply_local wf) l).
  assert (LOC : Forall (local_to d) wf) by (repeat constructor).
  assert (E1 : exec (mkS l r) (map OFs wf) = (mkS l1 r, map OFs wf, true)) by (apply exec_local; auto).
  assert (A1 : allowed_run (mkS l r) (map OFs wf)).
  { apply allowed_run_static. rewrite Forall_map_iff. repeat constructor; intros s; simpl; auto. }
  pose proof (exec_run _ _ _ _ _ E1) as R1.
  assert (HD1 : has_dir d l1 = true) by (unfold l1; rewrite has_dir_in_dir; exact HD).
  (* every directory named d now holds a complete, durable shrunk file *)
  assert (TRK : Forall (fun o => d_vn o = Some d ->
                  Exists (fun f => f_vn f = Some sh) (d_files o) /\
                  Forall (fun f => f_vn f = Some sh -> Vok (f_dd f) = true /\ f_vd f = f_dd f) (d_files o)) l1).
  { unfold l1, in_dir. rewrite Forall_map_iff. rewrite Forall_forall. intros o Ho.
    destruct (d_is (d_vn o) d) eqn:E2; simpl.
    - intros _. destruct (writer_Tr d sh [T_EMPTY] (d_files o)) as [[EX FA] _]. split; auto.
      eapply Forall_impl_in; [exact FA|]. intros f _ P V. destruct (P V) as [-> ->]. split; [exact SOK | reflexivity].
    - intros V. apply d_is_neq in E2. contradiction. }
  assert (HF1 : has_file d sh l1 = true).
  { apply has_dir_in in HD1. destruct HD1 as [o [Ho V]]. apply has_file_in. exists o. repeat split; auto.
    rewrite Forall_forall in TRK. destruct (TRK o Ho V) as [EX _]. unfold fl_has. apply existsb_exists.
    rewrite Exists_exists in EX. destruct EX as [f [Hf P]]. exists f. split; auto. apply f_is_eq. exact P. }
  set (tl := [OFs (FRenameFile d sh (FSnap i)); OFs (FSyncDir d)]).
  set (l2 := in_dir d fl_syncdir (in_dir d (fl_rename sh (FSnap i)) l1)).
  assert (HD2 : has_dir d (in_dir d (fl_rename sh (FSnap i)) l1) = true) by (rewrite has_dir_in_dir; exact HD1).
  assert (E2 : exec (mkS l1 r) tl = (mkS l2 r, tl, true)).
  { unfold tl. cbn [exec step fs_step st_fs st_rec]. rewrite HF1. cbn [st_fs st_rec]. rewrite HD2. reflexivity. }
  assert (A2 : allowed_run (mkS l1 r) tl).
  { unfold tl. cbn [allowed_run step fs_step st_fs st_rec]. rewrite HF1. cbn [st_fs st_rec]. rewrite HD2.
    split; [|simpl; auto]. simpl. exists i. repeat split; auto. }
  pose proof (exec_run _ _ _ _ _ E2) as R2.
  rewrite shrink_ops_split in H. fold d sh wf in H. rewrite exec_app, E1 in H. fold tl in H. rewrite E2 in H.
  cbv beta iota zeta in H. unfold fin in H. apply triple_eq in H. destruct H as (<- & <- & <-).
  apply compose_ok with (s1 := mkS l1 r); auto. split; auto. split; auto. split; [|split].
  - rewrite R2. apply run_good; auto. rewrite R1. apply run_good; auto.
  - unfold DSynced. simpl. unfold l2, l1. repeat apply in_dir_dsynced. exact HS.
  - unfold GenGood. simpl. unfold l2, l1. repeat (apply in_dir_gen_other; [discriminate|]). exact HG.
Qed.

(* ---- a received image with an external file ---- *)
Lemma chunk_sync_fact : chunk_save_syncs_each_file = true.
Proof. reflexivity. Qed.

Lemma apply_local_app : forall a b fl, apply_local (a ++ b) fl = apply_local b (apply_local a fl).
Proof. intros. unfold apply_local. apply fold_left_app. Qed.

(* operations on the file named f' (or a directory sync) *)
Definition about (f' : fname) (o : fsop) : Prop :=
  match o with
  | FCreate _ n | FWrite _ n _ | FWriteAt _ n _ _ | FSyncFile _ n => n = f'
  | FSyncDir _ => True
  | _ => False
  end.

Lemma Tr_map_other : forall f v w (h : fobj -> fobj) fl,
  (forall x, f_vn x = Some f -> h x = x) -> (forall x, f_vn (h x) = Some f -> f_vn x = Some f) ->
  Tr f v w fl -> Tr f v w (map h fl).
Proof.
  intros f v w h fl H1 H2 [E F]. split.
  - rewrite Exists_map_iff. rewrite Exists_exists in *. destruct E as [x [Hx V]]. exists x. split; auto. rewrite H1; auto.
  - rewrite Forall_map_iff. eapply Forall_impl_in; [exact F|]. intros x _ P V.
    pose proof (H2 x V) as V0. rewrite (H1 x V0). auto.
Qed.

Lemma Tr_create_other : forall f f' v w fl, f <> f' -> Tr f v w fl -> Tr f v w (fl_create f' fl).
Proof.
  intros f f' v w fl NE [E F]. unfold fl_create. split.
  - apply Exists_cons_tl. apply Exists_filter_s. rewrite Exists_map_iff. rewrite Exists_exists in *.
    destruct E as [x [Hx V]]. exists x. split; auto.
    assert (U : f_unbind f' x = x).
    { unfold f_unbind. destruct (f_is (f_vn x) f') eqn:E2; auto. apply f_is_eq in E2. congruence. }
    rewrite U. split; auto. unfold f_alive. rewrite V. reflexivity.
  - constructor; [simpl; intros X; congruence|]. apply Forall_filter_w. rewrite Forall_map_iff.
    eapply Forall_impl_in; [exact F|]. intros x _ P V. rewrite unbind_vd, unbind_dd.
    destruct (unbind_vn_cases f' x) as [U|U]; rewrite U in V; [discriminate|auto].
Qed.

Lemma Db_create_other : forall f f' fl, f <> f' -> Db f fl -> Db f (fl_create f' fl).
Proof.
  intros f f' fl NE [E F]. unfold fl_create. split.
  - apply Exists_cons_tl. apply Exists_filter_s. rewrite Exists_map_iff. rewrite Exists_exists in *.
    destruct E as [x [Hx [V D]]]. exists x. split; auto.
    assert (U : f_unbind f' x = x).
    { unfold f_unbind. destruct (f_is (f_vn x) f') eqn:E2; auto. apply f_is_eq in E2. congruence. }
    rewrite U. repeat split; auto. unfold f_alive. rewrite V. reflexivity.
  - constructor; [simpl; discriminate|]. apply Forall_filter_w. rewrite Forall_map_iff.
    eapply Forall_impl_in; [exact F|]. intros x _ P D. rewrite unbind_dn in D. specialize (P D).
    apply unbind_other_vn; auto.
Qed.

Lemma Db_syncdir : forall f fl, Exists (fun x => f_vn x = Some f) fl -> Db f (fl_syncdir fl).
Proof.
  intros f fl E. unfold fl_syncdir. split.
  - apply Exists_filter_s. rewrite Exists_map_iff. rewrite Exists_exists in *. destruct E as [x [Hx V]].
    exists x. split; auto. simpl. split; auto. unfold f_alive. simpl. rewrite V. reflexivity.
  - apply Forall_filter_w. rewrite Forall_map_iff. rewrite Forall_forall. intros x _. simpl. auto.
Qed.

Lemma local_frame : forall f f' o v w fl,
  f <> f' -> about f' o -> Tr f v w fl /\ Db f fl -> Tr f v w (local_fn o fl) /\ Db f (local_fn o fl).
Proof.
  intros f f' o v w fl NE AB [T D]. destruct o; simpl in AB; try contradiction; subst; simpl.
  - split; [apply Tr_create_other | apply Db_create_other]; auto.
  - split; [|apply Db_write; auto]. unfold fl_write. apply Tr_map_other; auto.
    + intros y V. destruct (f_is (f_vn y) f') eqn:E; auto. apply f_is_eq in E. congruence.
    + intros y. destruct (f_is (f_vn y) f'); simpl; auto.
  - split; [|apply Db_writeat; auto]. unfold fl_writeat. apply Tr_map_other; auto.
    + intros y V. destruct (f_is (f_vn y) f') eqn:E; auto. apply f_is_eq in E. congruence.
    + intros y. destruct (f_is (f_vn y) f'); simpl; auto.
  - split; [|apply Db_syncfile; auto]. unfold fl_syncfile. apply Tr_map_other; auto.
    + intros y V. destruct (f_is (f_vn y) f') eqn:E; auto. apply f_is_eq in E. congruence.
    + intros y. destruct (f_is (f_vn y) f'); simpl; auto.
  - destruct (Tr_syncdir _ _ _ _ T) as [T2 D2]. auto.
Qed.

Lemma local_frame_list : forall f f' ops v w fl,
  f <> f' -> Forall (about f') ops -> Tr f v w fl /\ Db f fl ->
  Tr f v w (apply_local ops fl) /\ Db f (apply_local ops fl).
Proof.
  intros f f' ops. induction ops as [|o r IH]; intros v w fl NE AB H; [exact H|].
  inversion AB; subst. change (apply_local (o :: r) fl) with (apply_local r (local_fn o fl)).
  apply IH; auto. eapply local_frame; eauto.
Qed.

Lemma recv_file_about : forall d f nch b, Forall (about f) (recv_file_fs d f nch b).
Proof. intros. unfold recv_file_fs. destruct (nch <=? 1); destruct b; simpl; repeat constructor. Qed.

Lemma recv_file_local : forall d f nch b, Forall (local_to d) (recv_file_fs d f nch b).
Proof. intros. unfold recv_file_fs. destruct (nch <=? 1); destruct b; simpl; repeat constructor. Qed.

(* one file received in nch chunks and fsynced at its last chunk: durable, full *)
Lemma recv_file_done : forall d f nch fl,
  exists v, Vok v = true /\
    Tr f v v (apply_local (recv_file_fs d f nch true) fl) /\ Db f (apply_local (recv_file_fs d f nch true) fl).
Proof.
  intros d f nch fl. unfold recv_file_fs. destruct (nch <=? 1); unfold apply_local; cbn [app fold_left local_fn].
  - exists [T_HDR; T_TAIL]. split; [apply (HV2 0%nat)|].
    assert (T : Tr f [T_HDR; T_TAIL] [T_HDR; T_TAIL] (fl_syncfile f (fl_write f [T_HDR; T_TAIL] (fl_create f fl)))).
    { apply Tr_syncfile with (w := []). apply (Tr_write f [] [] [T_HDR; T_TAIL]). apply Tr_create. }
    apply Tr_syncdir. exact T.
  - set (body := repeat T_BODY (N.to_nat (nch - 2))). exists (T_HDR :: body ++ [T_TAIL]).
    split; [apply HV2|].
    assert (T : Tr f [T_HDR] [] (fl_write f [T_HDR] (fl_create f fl))).
    { apply (Tr_write f [] [] [T_HDR]). apply Tr_create. }
    destruct (Tr_syncdir _ _ _ _ T) as [T2 D]. split.
    + apply Tr_syncfile with (w := []).
      apply (Tr_write f (T_HDR :: body) [] [T_TAIL]). apply (Tr_write f [T_HDR] [] body). exact T2.
    + apply Db_syncfile. apply Db_write. apply Db_write. exact D.
Qed.

(* every file of the image is durable and has its full content when the last
   chunk has been saved, i.e. before FinalizeSnapshot hands the image over *)
Definition durable_full (f : fname) (fl : list fobj) : Prop :=
  exists v, valid_snap v = true /\
    Exists (fun x => f_vn x = Some f /\ f_dn x = Some f) fl /\
    Forall (fun x => (f_vn x = Some f \/ f_dn x = Some f) -> f_dd x = v) fl.

Lemma durable_full_of : forall f v fl, valid_snap v = true -> Tr f v v fl -> Db f fl -> durable_full f fl.
Proof.
  intros f v fl VS [E F] [DE DF]. exists v. split; auto. split; auto.
  rewrite Forall_forall in *. intros x Hx [A|A]; [apply (F x Hx A) | apply (F x Hx (DF x Hx A))].
Qed.

Lemma received_files_durable_proved : forall i n m fl,
  let fl' := apply_local (recvx_fs i n m) fl in
  durable_full (FSnap i) fl' /\ durable_full (FOther 1) fl'.
Proof.
  intros i n m fl. unfold recvx_fs. rewrite chunk_sync_fact. cbv zeta. rewrite apply_local_app.
  set (fl1 := apply_local (recv_file_fs (DRecv i) (FSnap i) n true) fl).
  destruct (recv_file_done (DRecv i) (FSnap i) n fl) as [v (VS & T & D)]. fold fl1 in T, D.
  destruct (recv_file_done (DRecv i) (FOther 1) m fl1) as [w (WS & T2 & D2)].
  split.
  - destruct (local_frame_list (FSnap i) (FOther 1) (recv_file_fs (DRecv i) (FOther 1) m true) v v fl1) as [T' D'];
      [discriminate | apply recv_file_about | auto |]. apply (durable_full_of _ v); auto.
  - apply (durable_full_of _ w); auto.
Qed.

Lemma recvx_gen_ok : forall i n m fl, gen_ok i (apply_local (recvx_fs i n m) fl).
Proof.
  intros i n m fl. unfold recvx_fs. rewrite chunk_sync_fact. rewrite apply_local_app.
  set (fl1 := apply_local (recv_file_fs (DRecv i) (FSnap i) n true) fl).
  destruct (recv_file_done (DRecv i) (FSnap i) n fl) as [v (VS & T & D)]. fold fl1 in T, D.
  destruct (local_frame_list (FSnap i) (FOther 1) (recv_file_fs (DRecv i) (FOther 1) m true) v v fl1) as [T' D'];
    [discriminate | apply recv_file_about | auto |]. apply (gen_ok_of_Tr i v); auto.
Qed.

Lemma recvx_local : forall i n m, Forall (local_to (DRecv i)) (recvx_fs i n m).
Proof. intros. unfold recvx_fs. apply Forall_app. split; apply recv_file_local. Qed.

Lemma cmd_recvx : forall s i n m t tr oc, i <> 0 -> J s ->
  seq (exec s (mktemp_ops (DRecv i) ++ map OFs (recvx_fs i n m))) (finalize (DRecv i) i []) = (t, tr, oc) ->
  allowed_run s tr /\ t = run s tr /\ J t.
Proof.
  intros [l r] i n m t tr oc NZ (G & HS & HG) H. set (d := DRecv i) in *.
  set (l1 := fs_syncroot (fs_mkdir d l)). set (l2 := in_dir d (apply_local (recvx_fs i n m)) l1).
  set (ops := mktemp_ops d ++ map OFs (recvx_fs i n m)) in *.
  assert (E : exec (mkS l r) ops = (mkS l2 r, ops, true)).
  { unfold ops. rewrite exec_app.
    assert (E1 : exec (mkS l r) (mktemp_ops d) = (mkS l1 r, mktemp_ops d, true)) by reflexivity.
    rewrite E1. rewrite (exec_local _ l1 r d).
    - reflexivity.
    - apply has_dir_mkdir_sync.
    - apply recvx_local. }
  assert (A1 : allowed_run (mkS l r) ops).
  { apply allowed_run_static. unfold ops. apply Forall_app. split.
    - apply static_mktemp. reflexivity.
    - apply static_local_tmp with (d := d); [reflexivity | apply recvx_local]. }
  pose proof (exec_run _ _ _ _ _ E) as R1.
  rewrite E in H. apply seq_ok in H. destruct H as [tr2 [H ->]].
  apply compose_ok with (s1 := mkS l2 r); auto.
  assert (GF1 : gen_files l1).
  { unfold gen_files. rewrite Forall_forall. intros o Ho. apply mkdir_sync_in in Ho.
    destruct Ho as [V|[o0 [Ho0 ->]]].
    - intros j X. unfold d in V. congruence.
    - simpl. unfold GenGood in HG. simpl in HG. rewrite Forall_forall in HG. apply HG. exact Ho0. }
  eapply finalize_ok; [exact NZ | right; reflexivity | left; reflexivity | | | exact H].
  - split; [|split].
    + rewrite R1. apply run_good; auto.
    + unfold DSynced. simpl. apply in_dir_dsynced. apply syncroot_dsynced.
    + unfold GenGood. simpl. apply in_dir_gen_other; auto. intros j. discriminate.
  - simpl. unfold l2, in_dir. rewrite Forall_map_iff. rewrite Forall_forall. intros o Ho.
    destruct (d_is (d_vn o) d) eqn:E2; simpl.
    + intros _. apply recvx_gen_ok.
    + intros V. apply d_is_neq in E2. contradiction.
Qed.

(* ---- every command ---- *)
Lemma startup_fact : startup_cleans = true.
Proof. reflexivity. Qed.

Definition is_shrink (c : cmd) : Prop := match c with CShrink _ => True | _ => False end.

Lemma cmd_ok : forall ord s c t tr oc, ord_ok ord -> (is_shrink c -> shrunk_ok) -> J s ->
  do_cmd ord s c = (t, tr, oc) -> allowed_run s tr /\ t = run s tr /\ J t.
Proof.
  intros ord s c t tr oc HO HSK HJ H.
  assert (TRIV : forall oc', (s, @nil op, oc') = (t, tr, oc) -> allowed_run s tr /\ t = run s tr /\ J t).
  { intros oc' X. inversion X; subst. simpl. auto. }
  destruct c as [i n | i | i n | i n m | i | i | i | i | | ]; cbn [do_cmd] in H.
  - destruct (i =? 0) eqn:E; [eapply TRIV; eauto|]. eapply cmd_save; eauto.
  - destruct (i =? 0) eqn:E; [eapply TRIV; eauto|]. apply N.eqb_neq in E. eapply cmd_commit; eauto.
  - destruct (i =? 0) eqn:E; [eapply TRIV; eauto|]. apply N.eqb_neq in E. eapply cmd_recv; eauto.
  - destruct (i =? 0) eqn:E; [eapply TRIV; eauto|]. apply N.eqb_neq in E. eapply cmd_recvx; eauto.
  - eapply cmd_apply; eauto.
  - eapply cmd_record; eauto.
  - eapply cmd_shrink; eauto. apply HSK. exact I.
  - eapply cmd_compact; eauto.
  - rewrite startup_fact in H. eapply cmd_restart; eauto.
  - rewrite startup_fact in H. eapply cmd_crash; eauto.
Qed.

Lemma J_init : J init.
Proof. split; [apply good_init|]. split; constructor. Qed.

Lemma cmds_ok : forall ord cs s t tr, ord_ok ord -> (Exists is_shrink cs -> shrunk_ok) -> J s ->
  do_cmds ord s cs = (t, tr) -> allowed_run s tr /\ t = run s tr /\ J t.
Proof.
  intros ord cs. induction cs as [|c r IH]; intros s t tr HO HSK HJ H; simpl in H.
  - inversion H; subst. simpl. auto.
  - destruct (do_cmd ord s c) as [[s1 tr1] oc] eqn:E1. destruct (do_cmds ord s1 r) as [u tr2] eqn:E2.
    inversion H; subst t tr; clear H.
    assert (K1 : is_shrink c -> shrunk_ok) by (intros X; apply HSK; apply Exists_cons_hd; exact X).
    assert (K2 : Exists is_shrink r -> shrunk_ok) by (intros X; apply HSK; apply Exists_cons_tl; exact X).
    destruct (cmd_ok _ _ _ _ _ _ HO K1 HJ E1) as (A1 & R1 & J1).
    destruct (IH _ _ _ HO K2 J1 E2) as (A2 & R2 & J2).
    split; [apply allowed_run_app_i; auto; rewrite <- R1; exact A2|].
    split; auto. rewrite run_app, <- R1. exact R2.
Qed.

(* ---------------------------------------------------------------------- *)
(* the property, over every command sequence and every crash point *)

Lemma trace_allowed : forall ord cs, ord_ok ord -> (Exists is_shrink cs -> shrunk_ok) ->
  allowed_run init (snd (do_cmds ord init cs)).
Proof.
  intros ord cs HO HSK. destruct (do_cmds ord init cs) as [t tr] eqn:E. simpl.
  destruct (cmds_ok ord cs init t tr HO HSK J_init E) as (A & _ & _). exact A.
Qed.

Lemma recorded_implies_complete_proved : forall ord cs k,
  ord_ok ord -> (Exists is_shrink cs -> shrunk_ok) ->
  let s := run init (firstn k (snd (do_cmds ord init cs))) in
  st_rec s <> 0 -> durable_complete s (st_rec s).
Proof. intros ord cs k HO HSK. apply guarded_recorded_implies_complete. apply trace_allowed; auto. Qed.

Lemma cleanup_yields_only_complete_proved : forall ord cs k,
  ord_ok ord -> (Exists is_shrink cs -> shrunk_ok) ->
  let s := run init (firstn k (snd (do_cmds ord init cs))) in
  exists u tr, process_orphans ord (run s [OCrash]) = (u, tr, true) /\ cleanb u = true /\ st_rec u = st_rec s.
Proof. intros ord cs k HO HSK. apply guarded_cleanup; auto. apply trace_allowed; auto. Qed.

(* ---------------------------------------------------------------------- *)
(* flag removal and the record *)

Lemma po_flag_removal_recorded : forall n s ops j,
  po_one n s = Some ops -> In (OFs (FRemove (DFinal j) FFlag)) ops -> st_rec s = j /\ j <> 0.
Proof.
  intros n s ops j H I. destruct n as [i|i|i|k]; simpl in H.
  - destruct (negb (has_dir (DFinal i) (st_fs s))); [discriminate|].
    destruct (has_file (DFinal i) FFlag (st_fs s)).
    + destruct (read_file (DFinal i) FFlag (st_fs s)) as [d|]; [|discriminate].
      destruct (flag_index d) as [j'|] eqn:FI; [|discriminate].
      destruct ((st_rec s =? 0) || negb (st_rec s =? j')) eqn:RM.
      * inversion H; subst ops. simpl in I. destruct I as [X|[X|[]]]; discriminate.
      * inversion H; subst ops. destruct I as [X|[]]. inversion X; subst j'.
        apply orb_false_iff in RM. destruct RM as [R1 R2]. apply N.eqb_neq in R1.
        apply negb_false_iff in R2. apply N.eqb_eq in R2. split; congruence.
    + destruct ((st_rec s =? 0) || negb (i =? st_rec s)); inversion H; subst ops; simpl in I.
      * destruct I as [X|[X|[]]]; discriminate.
      * contradiction.
  - inversion H; subst ops. simpl in I. destruct I as [X|[X|[]]]; discriminate.
  - inversion H; subst ops. simpl in I. destruct I as [X|[X|[]]]; discriminate.
  - inversion H; subst ops. contradiction.
Qed.

Lemma flag_removed_only_after_record_proved :
  (forall i, commit_tail i = [ORecord i; OFs (FRemove (DFinal i) FFlag)]) /\
  (forall i, apply_ops i = [ORecord i; OFs (FRemove (DFinal i) FFlag)]) /\
  (forall n s ops j, po_one n s = Some ops -> In (OFs (FRemove (DFinal j) FFlag)) ops -> st_rec s = j /\ j <> 0).
Proof. split; [exact commit_tail_order|]. split; [exact apply_ops_order | exact po_flag_removal_recorded]. Qed.

(* ---------------------------------------------------------------------- *)
(* a local save and an incoming snapshot of the same index: the second one
   to finalize gets ErrSnapshotOutOfDate, removes its own temporary directory
   and touches nothing else *)

Lemma has_dir_rm_sync : forall d l, has_dir d (fs_syncroot (fs_removeall d l)) = false.
Proof.
  intros d l. destruct (has_dir d _) eqn:E; auto. apply has_dir_in in E. destruct E as [o [Ho V]].
  unfold fs_syncroot, fs_removeall in Ho. apply filter_In in Ho. destruct Ho as [Ho AL].
  apply in_map_iff in Ho. destruct Ho as [x [<- Hx]]. apply filter_In in Hx. destruct Hx as [Hx _].
  apply in_map_iff in Hx. destruct Hx as [y [<- _]]. simpl in V. unfold d_unbind in V.
  destruct (d_is (d_vn y) d) eqn:E2; simpl in V; [discriminate|]. apply d_is_neq in E2. contradiction.
Qed.

Lemma finalize_loser : forall tmp i tail s,
  has_dir tmp (st_fs s) = true -> has_dir (DFinal i) (st_fs s) = true ->
  exists t, finalize tmp i tail s = (t, flagfile_ops tmp FFlag i ++ rmdir_ops tmp, OutOfDate) /\
            has_dir tmp (st_fs t) = false /\ st_rec t = st_rec s.
Proof.
  intros tmp i tail [l r] HT HF. simpl in *. unfold finalize, finalize_pre.
  set (l1 := in_dir tmp (flag_fn FFlag i) l).
  assert (E : exec (mkS l r) (flagfile_ops tmp FFlag i) = (mkS l1 r, flagfile_ops tmp FFlag i, true)).
  { change (flagfile_ops tmp FFlag i) with (map OFs [FCreate tmp FFlag; FWrite tmp FFlag [T_HASH]; FWrite tmp FFlag [i]; FSyncFile tmp FFlag; FSyncDir tmp]).
    rewrite (exec_local _ l r tmp); auto. repeat constructor. }
  rewrite E. unfold seq. cbn [st_fs]. unfold l1 at 1. rewrite has_dir_in_dir, HF. rewrite exec_rmdir.
  eexists. split; [reflexivity|]. simpl. split; auto. apply has_dir_rm_sync.
Qed.

Lemma finalize_winner : forall tmp i tail s t tr oc,
  has_dir tmp (st_fs s) = true -> has_dir (DFinal i) (st_fs s) = false ->
  finalize tmp i tail s = (t, tr, oc) ->
  exists rest, tr = flagfile_ops tmp FFlag i ++ OFs (FRenameDir tmp (DFinal i)) :: OFs FSyncRoot :: rest /\
               oc <> OutOfDate.
Proof.
  intros tmp i tail [l r] t tr oc HT HF H. simpl in *. unfold finalize, finalize_pre in H.
  set (l1 := in_dir tmp (flag_fn FFlag i) l) in *.
  assert (E : exec (mkS l r) (flagfile_ops tmp FFlag i) = (mkS l1 r, flagfile_ops tmp FFlag i, true)).
  { change (flagfile_ops tmp FFlag i) with (map OFs [FCreate tmp FFlag; FWrite tmp FFlag [T_HASH]; FWrite tmp FFlag [i]; FSyncFile tmp FFlag; FSyncDir tmp]).
    rewrite (exec_local _ l r tmp); auto. repeat constructor. }
  rewrite E in H. unfold seq in H. cbn [st_fs] in H. unfold l1 in H at 1. rewrite has_dir_in_dir, HF in H.
  fold l1 in H. unfold finalize_rename in H. cbn [app exec step fs_step st_fs st_rec] in H.
  assert (HD1 : has_dir tmp l1 = true) by (unfold l1; rewrite has_dir_in_dir; exact HT).
  rewrite HD1 in H. cbn [st_fs st_rec] in H.
  destruct (exec _ tail) as [[u tr2] ok2]. cbv beta iota zeta in H. unfold fin in H.
  apply triple_eq in H. destruct H as (<- & <- & <-). exists tr2. split; auto. destruct ok2; discriminate.
Qed.

(* ---------------------------------------------------------------------- *)
(* on-disk state machines: node.recover is restartable at every crash cut *)

Lemma recover_tail_order : forall tr, recover_tail tr = DSmSync :: map DBase tr.
Proof. intros. unfold recover_tail. vm_compute (recover_pos_sync <? recover_pos_shrink). reflexivity. Qed.

(* every snapshot file of index i, in either view, holds the full image *)
Definition FullAt (i : N) (s : state) : Prop :=
  Forall (fun o => d_dn o = Some (DFinal i) ->
            Forall (fun f => f_dn f = Some (FSnap i) -> is_partial (f_dd f) = false) (d_files o)) (st_fs s).

Lemma drun_app : forall a s b, drun s (a ++ b) = drun (drun s a) b.
Proof. intros. unfold drun. apply fold_left_app. Qed.

Lemma drun_base : forall tr s,
  ~ In OCrash tr ->
  drun s (map DBase tr) = mkDS (run (ds_st s) tr) (ds_smv s) (ds_smd s).
Proof.
  induction tr as [|o r IH]; intros [st v d] NC.
  - reflexivity.
  - cbn [map]. unfold drun in *. cbn [fold_left]. rewrite IH.
    + destruct o; simpl; try reflexivity. exfalso. apply NC. left. reflexivity.
    + intro X. apply NC. right. exact X.
Qed.

(* reading the recorded snapshot file after a crash *)
Lemma read_after_crash : forall s i,
  Good s -> st_rec s = i -> i <> 0 ->
  exists d, read_file (DFinal i) (FSnap i) (fs_crash (st_fs s)) = Some d /\ Vok d = true /\
            (FullAt i s -> is_partial d = false).
Proof.
  intros [l r] i [[HI HR] _] RE NZ. simpl in *. subst r.
  set (cands := flat_map (fun o => if d_is (d_vn o) (DFinal i)
                  then flat_map (fun x => if f_is (f_vn x) (FSnap i) then [f_vd x] else []) (d_files o)
                  else []) (fs_crash l)).
  assert (ALL : Forall (fun d => Vok d = true /\ (FullAt i (mkS l i) -> is_partial d = false)) cands).
  { rewrite Forall_forall. intros v Hv. unfold cands in Hv. apply in_flat_map in Hv. destruct Hv as [o' [Ho' Hv]].
    unfold fs_crash in Ho'. apply in_map_iff in Ho'. destruct Ho' as [o [<- Ho]]. apply filter_In in Ho. destruct Ho as [Ho _].
    simpl in Hv. destruct (d_is (d_dn o) (DFinal i)) eqn:E; [|contradiction]. apply d_is_eq in E.
    apply in_flat_map in Hv. destruct Hv as [f' [Hf' Hv]]. unfold fl_crash in Hf'. apply in_map_iff in Hf'.
    destruct Hf' as [f [<- Hf]]. apply filter_In in Hf. destruct Hf as [Hf _]. simpl in Hv.
    destruct (f_is (f_dn f) (FSnap i)) eqn:E2; [|contradiction]. apply f_is_eq in E2. destruct Hv as [<-|[]].
    rewrite Forall_forall in HI. destruct (HI o Ho) as (_ & _ & GD). destruct (GD i (or_intror E)) as (_ & _ & F & _).
    rewrite Forall_forall in F. split; [apply (F f Hf); auto|].
    intros FA. unfold FullAt in FA. simpl in FA. rewrite Forall_forall in FA. specialize (FA o Ho E).
    rewrite Forall_forall in FA. apply FA; auto. }
  assert (NE : cands <> []).
  { unfold recorded_dir in HR. simpl in HR. specialize (HR NZ). rewrite Exists_exists in HR. destruct HR as [o [Ho [V D]]].
    rewrite Forall_forall in HI. destruct (HI o Ho) as (_ & _ & GD). destruct (GD i (or_introl V)) as (Ed & _).
    rewrite Exists_exists in Ed. destruct Ed as [f [Hf P]]. intro X.
    assert (I : In (f_dd f) cands).
    { unfold cands. apply in_flat_map. exists (mkD (d_dn o) (d_dn o) (fl_crash (d_files o))). split.
      - unfold fs_crash. apply in_map_iff. exists o. split; auto. apply filter_In. split; auto. rewrite D. reflexivity.
      - simpl. apply d_is_eq in D. rewrite D. apply in_flat_map. exists (mkF (f_dn f) (f_dn f) (f_dd f) (f_dd f)). split.
        + unfold fl_crash. apply in_map_iff. exists f. split; auto. apply filter_In. split; auto. rewrite P. reflexivity.
        + simpl. apply f_is_eq in P. rewrite P. left. reflexivity. }
    rewrite X in I. contradiction. }
  rewrite read_file_hd. fold cands. destruct cands as [|d ds]; [contradiction|]. exists d. simpl.
  inversion ALL; subst. tauto.
Qed.

Lemma crash_full_or_synced : forall st v d i,
  Good st -> st_rec st = i -> i <> 0 -> (FullAt i st \/ i <= d) ->
  restart_okb (dstep (mkDS st v d) (DBase OCrash)) = true.
Proof.
  intros st v d i G RE NZ H. unfold restart_okb, recorded_file. simpl.
  destruct st as [l r]. simpl in *. subst r.
  destruct (read_after_crash (mkS l i) i G eq_refl NZ) as [x (RF & VS & FU)]. simpl in RF. apply HV1 in VS.
  apply N.eqb_neq in NZ. rewrite NZ. simpl. rewrite RF, VS. simpl.
  destruct H as [H|H].
  - rewrite (FU H). reflexivity.
  - apply N.leb_le in H. rewrite H. apply orb_true_r.
Qed.

Lemma In_firstn : forall {A} k (l : list A) x, In x (firstn k l) -> In x l.
Proof.
  induction k as [|k IH]; intros l x H; simpl in H; [contradiction|].
  destruct l as [|y r]; [contradiction|]. destruct H as [<-|H]; [left; reflexivity|right; auto].
Qed.

Lemma run_fs_rec : forall ops t, (forall o, In o ops -> exists f, o = OFs f) -> st_rec (run t ops) = st_rec t.
Proof.
  induction ops as [|o r IH]; intros t M; [reflexivity|]. rewrite run_cons.
  destruct (M o (or_introl eq_refl)) as [f ->]. rewrite IH; [|intros; apply M; right; auto].
  unfold step'. simpl. destruct (fs_step (st_fs t) f); reflexivity.
Qed.

Lemma shrink_trace : forall s i t tr oc,
  shrunk_ok -> J s -> do_cmd (fun l => l) s (CShrink i) = (t, tr, oc) ->
  allowed_run s tr /\ ~ In OCrash tr /\ (forall k, st_rec (run s (firstn k tr)) = st_rec s).
Proof.
  intros s i t tr oc SOK HJ H.
  assert (OK : ord_ok (fun l : list dname => l)) by (intros l; apply Permutation_refl).
  destruct (cmd_ok _ _ _ _ _ _ OK (fun _ => SOK) HJ H) as (A & _ & _). split; auto.
  cbn [do_cmd] in H.
  assert (SUB : forall o, In o tr -> In o (shrink_ops i)).
  { destruct (st_rec s <? i); [inversion H; subst; intros o []|].
    destruct (read_file (DFinal i) (FSnap i) (st_fs s)); [|inversion H; subst; intros o []].
    destruct (valid_snap d); [|inversion H; subst; intros o []].
    destruct (exec s (shrink_ops i)) as [[u tr'] ok] eqn:E. unfold fin in H. apply triple_eq in H. destruct H as (_ & <- & _).
    destruct (exec_prefix _ _ _ _ _ E) as [rest EQ]. intros o Ho. rewrite EQ. apply in_or_app. left. exact Ho. }
  assert (MEM : forall o, In o tr -> exists f, o = OFs f).
  { intros o Ho. apply SUB in Ho. unfold shrink_ops in Ho. simpl in Ho.
    repeat (destruct Ho as [<-|Ho]; [eexists; reflexivity|]). contradiction. }
  split.
  - intro X. destruct (MEM _ X) as [f E]. discriminate.
  - intros k. apply run_fs_rec. intros o Ho. apply MEM. eapply In_firstn; eauto.
Qed.

Lemma firstn_map_c : forall {A B} (g : A -> B) k l, firstn k (map g l) = map g (firstn k l).
Proof. induction k as [|k IH]; intros [|x r]; simpl; auto. rewrite IH. reflexivity. Qed.

Lemma ondisk_recover_restartable_proved : forall s i load k,
  shrunk_ok -> J (ds_st s) -> st_rec (ds_st s) = i -> i <> 0 ->
  (FullAt i (ds_st s) \/ i <= ds_smd s) ->
  (load = false -> i <= ds_smv s) ->
  let '(_, tr, _) := recover_prog s i load in
  restart_okb (dstep (drun s (firstn k tr)) (DBase OCrash)) = true.
Proof.
  intros [st v d] i load k SOK HJ RE NZ H3 HV. simpl in *. unfold recover_prog. cbn [ds_st].
  destruct (do_cmd (fun l => l) st (CShrink i)) as [[t shr] oc] eqn:E.
  destruct (shrink_trace _ _ _ _ _ SOK HJ E) as (A & NC & RR).
  rewrite recover_tail_order.
  set (pre := if load then [DSmRecover i] else []).
  set (s1 := drun (mkDS st v d) pre).
  assert (S1 : ds_st s1 = st /\ ds_smd s1 = d /\ i <= ds_smv s1).
  { unfold s1, pre. destruct load; simpl; repeat split; auto. lia. }
  destruct S1 as (S1a & S1b & S1c).
  destruct HJ as (G & _ & _).
  rewrite firstn_app. rewrite drun_app.
  destruct (k - length pre)%nat as [|k2] eqn:K.
  - (* the crash precedes Sync *)
    cbn [firstn]. unfold drun at 1. cbn [fold_left].
    assert (X : exists v', drun (mkDS st v d) (firstn k pre) = mkDS st v' d).
    { unfold pre. destruct load; destruct k; simpl; eauto. destruct k; simpl; eauto. }
    destruct X as [v' ->]. apply crash_full_or_synced with (i := i); auto.
  - (* Sync is durable: whatever Shrink has done, the state machine is at i *)
    assert (FP : firstn k pre = pre).
    { apply firstn_all2. lia. }
    rewrite FP. fold s1. cbn [firstn]. rewrite firstn_map_c.
    change (drun s1 (DSmSync :: map DBase (firstn k2 shr))) with (drun (dstep s1 DSmSync) (map DBase (firstn k2 shr))).
    rewrite drun_base; [|intro X; apply NC; eapply In_firstn; eauto].
    destruct s1 as [st1 v1 d1]. cbn [ds_st ds_smd ds_smv dstep] in *. subst st1.
    change (restart_okb (dstep (mkDS (run st (firstn k2 shr)) v1 v1) (DBase OCrash)) = true).
    apply crash_full_or_synced with (i := i).
    + apply run_good; auto. apply allowed_run_firstn. exact A.
    + change (st_rec (run st (firstn k2 shr)) = i). rewrite RR. exact RE.
    + exact NZ.
    + right. exact S1c.
Qed.

(* ---------------------------------------------------------------------- *)
(* on-disk state machines: the replica's own (metadata only) snapshot *)

Lemma ondisk_save_syncs_fact : ondisk_save_syncs = true.
Proof. vm_compute. reflexivity. Qed.

Definition opb (b : N) (o : op) : bool :=
  match o with OCrash => false | ORecord j => j =? b | OFs _ => true end.

Lemma exec_sub : forall ops s u tr ok o, exec s ops = (u, tr, ok) -> In o tr -> In o ops.
Proof.
  intros ops s u tr ok o E I. destruct (exec_prefix _ _ _ _ _ E) as [rest ->]. apply in_or_app. auto.
Qed.

Lemma opb_run_rec : forall b ops s, forallb (opb b) ops = true -> st_rec s <= b -> st_rec (run s ops) <= b.
Proof.
  intros b ops. induction ops as [|o r IH]; intros s F L; [exact L|].
  simpl in F. apply andb_true_iff in F. destruct F as [F1 F2]. rewrite run_cons. apply IH; auto.
  unfold step'. destruct o as [f|j|]; simpl in *.
  - destruct (fs_step (st_fs s) f); simpl; auto.
  - apply N.eqb_eq in F1. subst j. lia.
  - discriminate.
Qed.

Lemma opb_no_crash : forall b ops, forallb (opb b) ops = true -> ~ In OCrash ops.
Proof.
  intros b ops F I. rewrite forallb_forall in F. specialize (F _ I). discriminate.
Qed.

Lemma forallb_sub : forall {A} (p : A -> bool) l l',
  (forall x, In x l -> In x l') -> forallb p l' = true -> forallb p l = true.
Proof. intros A p l l' S F. rewrite forallb_forall in *. auto. Qed.

Lemma forallb_firstn : forall {A} (p : A -> bool) k l, forallb p l = true -> forallb p (firstn k l) = true.
Proof. intros A p k l F. eapply forallb_sub; [|exact F]. intros x. apply In_firstn. Qed.

Definition commit_all_ops (i : N) : list op :=
  flagfile_ops (DGen i) FMeta i ++ flagfile_ops (DGen i) FFlag i ++ rmdir_ops (DGen i) ++
  finalize_rename (DGen i) i ++ commit_tail i.

Lemma commit_trace_sub : forall ord s i t tr oc,
  do_cmd ord s (CCommit i) = (t, tr, oc) -> forall o, In o tr -> In o (commit_all_ops i).
Proof.
  intros ord s i t tr oc H o I. cbn [do_cmd] in H. unfold commit_all_ops.
  destruct (i =? 0); [inversion H; subst; contradiction|].
  destruct (exec s (flagfile_ops (DGen i) FMeta i)) as [[s1 tr1] ok1] eqn:E1. unfold seq in H.
  destruct ok1.
  2:{ apply triple_eq in H. destruct H as (_ & <- & _). apply in_or_app. left. eapply exec_sub; eauto. }
  unfold finalize, finalize_pre, seq in H.
  destruct (exec s1 (flagfile_ops (DGen i) FFlag i)) as [[s2 tr2] ok2] eqn:E2.
  destruct ok2.
  2:{ apply triple_eq in H. destruct H as (_ & <- & _). apply in_app_or in I. destruct I as [I|I].
      - apply in_or_app. left. eapply exec_sub; eauto.
      - apply in_or_app. right. apply in_or_app. left. eapply exec_sub; eauto. }
  destruct (has_dir (DFinal i) (st_fs s2)).
  - destruct (exec s2 (rmdir_ops (DGen i))) as [[s3 tr3] ok3] eqn:E3.
    apply triple_eq in H. destruct H as (_ & <- & _).
    apply in_app_or in I. destruct I as [I|I]; [apply in_or_app; left; eapply exec_sub; eauto|].
    apply in_app_or in I. apply in_or_app. right. destruct I as [I|I].
    + apply in_or_app. left. eapply exec_sub; eauto.
    + apply in_or_app. right. apply in_or_app. left. eapply exec_sub; eauto.
  - destruct (exec s2 (finalize_rename (DGen i) i ++ commit_tail i)) as [[s3 tr3] ok3] eqn:E3. unfold fin in H.
    apply triple_eq in H. destruct H as (_ & <- & _).
    apply in_app_or in I. destruct I as [I|I]; [apply in_or_app; left; eapply exec_sub; eauto|].
    apply in_app_or in I. apply in_or_app. right. destruct I as [I|I].
    + apply in_or_app. left. eapply exec_sub; eauto.
    + apply in_or_app. right. apply in_or_app. right. eapply exec_sub; eauto.
Qed.

Lemma commit_all_opb : forall i, forallb (opb i) (commit_all_ops i) = true.
Proof.
  intros i. unfold commit_all_ops. rewrite commit_tail_order. simpl. rewrite N.eqb_refl. reflexivity.
Qed.

Lemma compact_trace_sub : forall ord s j t tr oc,
  do_cmd ord s (CCompact j) = (t, tr, oc) -> forall o, In o tr -> In o (rmdir_ops (DFinal j)).
Proof.
  intros ord s j t tr oc H o I. cbn [do_cmd] in H. destruct (st_rec s <=? j); [inversion H; subst; contradiction|].
  destruct (exec s (rmdir_ops (DFinal j))) as [[u tr'] ok] eqn:E. unfold fin in H.
  apply triple_eq in H. destruct H as (_ & <- & _). eapply exec_sub; eauto.
Qed.

Lemma restart_ok_norec : forall s, st_rec (ds_st s) = 0 -> restart_okb (dstep s (DBase OCrash)) = true.
Proof. intros [[l r] v d] H. simpl in *. subst r. reflexivity. Qed.

Lemma ondisk_save_restartable_proved : forall s lr ap k,
  dummy_ok -> J (ds_st s) ->
  (st_rec (ds_st s) = 0 \/ FullAt (st_rec (ds_st s)) (ds_st s) \/ st_rec (ds_st s) <= ds_smd s) ->
  let '(_, tr, _) := cmd_save_ondisk s lr ap in
  restart_okb (dstep (drun s (firstn k tr)) (DBase OCrash)) = true.
Proof.
  intros [st v d] lr ap k DOK HJ H0. cbn [ds_st ds_smd ds_smv] in *.
  assert (BASE : restart_okb (dstep (mkDS st v d) (DBase OCrash)) = true).
  { destruct H0 as [Z|H0]; [apply restart_ok_norec; exact Z|].
    destruct (N.eq_dec (st_rec st) 0) as [Z|NZ]; [apply restart_ok_norec; exact Z|].
    apply crash_full_or_synced with (i := st_rec st); auto. apply HJ. }
  unfold cmd_save_ondisk. cbn [ds_st ds_smd ds_smv].
  destruct (negb (ap =? 0) && (st_rec st <? ap) && (ap =? v)) eqn:PRE.
  2:{ destruct k; exact BASE. }
  apply andb_true_iff in PRE. destruct PRE as [PRE P3]. apply andb_true_iff in PRE. destruct PRE as [P1 P2].
  apply N.eqb_eq in P3. subst v. apply N.ltb_lt in P2.
  destruct (exec st (save_ops_body ap [T_DUMMY])) as [[st1 tr1] ok1] eqn:E1.
  assert (S1 : allowed_run st tr1 /\ st1 = run st tr1 /\ J st1).
  { apply (cmd_save_body st ap [T_DUMMY] st1 tr1 (if ok1 then Done else Failed)); auto; try exact DOK. rewrite E1. reflexivity. }
  destruct S1 as (A1 & R1 & J1).
  assert (OK : ord_ok (fun l : list dname => l)) by (intros l; apply Permutation_refl).
  set (c2 := if ok1 then do_cmd (fun l => l) st1 (CCommit ap) else (st1, [], Failed)).
  assert (S2 : exists st2 tr2 oc2, c2 = (st2, tr2, oc2) /\ allowed_run st1 tr2 /\ st2 = run st1 tr2 /\ J st2 /\
               (forall o, In o tr2 -> In o (commit_all_ops ap))).
  { unfold c2. destruct ok1.
    - destruct (do_cmd (fun l => l) st1 (CCommit ap)) as [[st2 tr2] oc2] eqn:E2. exists st2, tr2, oc2.
      destruct (cmd_ok _ _ _ _ _ _ OK (fun X : is_shrink (CCommit ap) => match X with end) J1 E2) as (A & R & JJ).
      split; [reflexivity|]. split; [exact A|]. split; [exact R|]. split; [exact JJ|].
      eapply commit_trace_sub; eauto.
    - exists st1, [], Failed.
      split; [reflexivity|]. split; [exact I|]. split; [reflexivity|]. split; [exact J1|]. intros o []. }
  destruct S2 as [st2 [tr2 [oc2 (E2 & A2 & R2 & J2 & SUB2)]]]. rewrite E2.
  set (c3 := match oc2 with
             | Done => if negb (lr =? 0) && (lr <? ap) then do_cmd (fun l => l) st2 (CCompact lr) else (st2, [], Done)
             | _ => (st2, [], Done) end).
  assert (S3 : exists st3 tr3 oc3, c3 = (st3, tr3, oc3) /\ allowed_run st2 tr3 /\
               (forall o, In o tr3 -> In o (rmdir_ops (DFinal lr)))).
  { assert (NONE : exists st3 tr3 oc3, (st2, @nil op, Done) = (st3, tr3, oc3) /\ allowed_run st2 tr3 /\
               (forall o, In o tr3 -> In o (rmdir_ops (DFinal lr)))).
    { exists st2, [], Done. split; [reflexivity|]. split; [exact I|]. intros o []. }
    unfold c3. destruct oc2; auto. destruct (negb (lr =? 0) && (lr <? ap)); auto.
    destruct (do_cmd (fun l => l) st2 (CCompact lr)) as [[st3 tr3] oc3] eqn:E3. exists st3, tr3, oc3.
    destruct (cmd_ok _ _ _ _ _ _ OK (fun X : is_shrink (CCompact lr) => match X with end) J2 E3) as (A & _ & _).
    split; [reflexivity|]. split; [exact A|]. eapply compact_trace_sub; eauto. }
  destruct S3 as [st3 [tr3 [oc3 (E3 & A3 & SUB3)]]]. rewrite E3.
  rewrite ondisk_save_syncs_fact. cbn [app].
  set (btr := tr1 ++ tr2 ++ tr3).
  assert (AB : allowed_run st btr).
  { unfold btr. apply allowed_run_app_i; auto. rewrite <- R1. apply allowed_run_app_i; auto. rewrite <- R2. exact A3. }
  assert (OB : forallb (opb ap) btr = true).
  { unfold btr. rewrite !forallb_app. rewrite !andb_true_iff. repeat split.
    - eapply forallb_sub; [intros x Hx; eapply exec_sub; eauto|]. reflexivity.
    - eapply forallb_sub; [exact SUB2|]. apply commit_all_opb.
    - eapply forallb_sub; [exact SUB3|]. reflexivity. }
  destruct k as [|k]; [exact BASE|].
  cbn [firstn]. rewrite firstn_map_c.
  change (drun (mkDS st ap d) (DSmSync :: map DBase (firstn k btr)))
    with (drun (mkDS st ap ap) (map DBase (firstn k btr))).
  rewrite drun_base; [|apply (opb_no_crash ap); apply forallb_firstn; exact OB].
  cbn [ds_st ds_smv ds_smd].
  set (st' := run st (firstn k btr)).
  assert (G' : Good st') by (apply run_good; [apply HJ | apply allowed_run_firstn; exact AB]).
  assert (L' : st_rec st' <= ap) by (apply opb_run_rec; [apply forallb_firstn; exact OB | lia]).
  destruct (N.eq_dec (st_rec st') 0) as [Z|NZ].
  - apply (restart_ok_norec (mkDS st' ap ap)). exact Z.
  - apply crash_full_or_synced with (i := st_rec st'); auto.
Qed.

(* ---------------------------------------------------------------------- *)
(* the name codec: every name the code can write is recognised *)

Lemma ndigits_ge1 : forall fuel base n, (1 <= ndigits fuel base n)%nat.
Proof. destruct fuel; intros; simpl; [lia|]. destruct (n <? base); lia. Qed.

Lemma ndigits_le : forall fuel base k n,
  2 <= base -> (1 <= k)%nat -> n < base ^ N.of_nat k -> (ndigits fuel base n <= k)%nat.
Proof.
  induction fuel as [|f IH]; intros base k n HB HK HN; simpl; [lia|].
  destruct (n <? base) eqn:E; [lia|]. apply N.ltb_ge in E.
  destruct k as [|k]; [lia|]. destruct k as [|k].
  - change (N.of_nat 1) with 1 in HN. rewrite N.pow_1_r in HN. lia.
  - apply le_n_S. apply IH; auto; [lia|].
    replace (N.of_nat (S (S k))) with (N.succ (N.of_nat (S k))) in HN by lia.
    rewrite N.pow_succ_r' in HN. apply N.div_lt_upper_bound; lia.
Qed.

Lemma printed_len_dec : forall n, n < 2 ^ 64 -> 1 <= printed_len 10 0 n <= 20.
Proof.
  intros n H. unfold printed_len. pose proof (ndigits_ge1 64 10 n).
  assert (ndigits 64 10 n <= 20)%nat.
  { apply ndigits_le; [lia | lia |]. eapply N.lt_trans; [exact H|]. reflexivity. }
  lia.
Qed.

Lemma printed_len_hex16 : forall n, n < 2 ^ 64 -> printed_len 16 16 n = 16.
Proof.
  intros n H. unfold printed_len.
  assert (ndigits 64 16 n <= 16)%nat.
  { apply ndigits_le; [lia | lia |]. eapply N.lt_le_trans; [exact H|]. vm_compute. discriminate. }
  lia.
Qed.

Lemma temp_names_recognised_proved : forall idx id,
  idx < 2 ^ 64 -> id < 2 ^ 64 ->
  final_name_recognised idx = true /\ gen_name_recognised idx id = true /\ recv_name_recognised idx id = true.
Proof.
  intros idx id HI HD.
  pose proof (printed_len_dec id HD) as [D1 D2]. pose proof (printed_len_hex16 idx HI) as X.
  unfold final_name_recognised, gen_name_recognised, recv_name_recognised, part_ok.
  change name_index_width with 16. change tmp_id_base with 10. rewrite X.
  unfold final_re_idx_min, final_re_idx_max, final2_re_idx_min, final2_re_idx_max,
    gen_re_idx_min, gen_re_idx_max, gen_re_id_min, gen_re_id_max,
    recv_re_idx_min, recv_re_idx_max, recv_re_id_min, recv_re_id_max.
  assert (L1 : 1 <=? printed_len 10 0 id = true) by (apply N.leb_le; lia).
  assert (L2 : printed_len 10 0 id <=? 18446744073709551616 = true) by (apply N.leb_le; lia).
  rewrite L1, L2. repeat split; reflexivity.
Qed.

(* ---------------------------------------------------------------------- *)
(* what a restart reads: the recorded snapshot file as the process sees it *)

Lemma read_recorded : forall s,
  Good s -> st_rec s <> 0 ->
  exists d, read_file (DFinal (st_rec s)) (FSnap (st_rec s)) (st_fs s) = Some d /\ Vok d = true.
Proof.
  intros [l i] [[HI HR] _] NZ. simpl in *.
  set (cands := flat_map (fun o => if d_is (d_vn o) (DFinal i)
                  then flat_map (fun x => if f_is (f_vn x) (FSnap i) then [f_vd x] else []) (d_files o)
                  else []) l).
  assert (ALL : Forall (fun d => Vok d = true) cands).
  { rewrite Forall_forall. intros v Hv. unfold cands in Hv. apply in_flat_map in Hv. destruct Hv as [o [Ho Hv]].
    destruct (d_is (d_vn o) (DFinal i)) eqn:E; [|contradiction]. apply d_is_eq in E.
    apply in_flat_map in Hv. destruct Hv as [f [Hf Hv]].
    destruct (f_is (f_vn f) (FSnap i)) eqn:E2; [|contradiction]. apply f_is_eq in E2. destruct Hv as [<-|[]].
    rewrite Forall_forall in HI. destruct (HI o Ho) as (_ & _ & GD). destruct (GD i (or_introl E)) as (_ & _ & F & _).
    rewrite Forall_forall in F. destruct (F f Hf) as [F1 F2]. rewrite (F2 E2). apply F1. auto. }
  assert (NE : cands <> []).
  { unfold recorded_dir in HR. simpl in HR. specialize (HR NZ). rewrite Exists_exists in HR. destruct HR as [o [Ho [V D]]].
    rewrite Forall_forall in HI. destruct (HI o Ho) as (_ & _ & GD). destruct (GD i (or_introl V)) as (_ & Ev & _).
    rewrite Exists_exists in Ev. destruct Ev as [f [Hf P]]. intro X.
    assert (I : In (f_vd f) cands).
    { unfold cands. apply in_flat_map. exists o. split; auto. apply d_is_eq in V. rewrite V.
      apply in_flat_map. exists f. split; auto. apply f_is_eq in P. rewrite P. left. reflexivity. }
    rewrite X in I. contradiction. }
  rewrite read_file_hd. fold cands. destruct cands as [|d ds]; [contradiction|]. exists d. simpl.
  inversion ALL; subst. auto.
Qed.

(* after any crash cut of any command sequence and the start-up cleanup, the
   recorded snapshot file read by the restarting replica is complete *)
Lemma restart_reads_recorded : forall ord cs k,
  ord_ok ord -> (Exists is_shrink cs -> shrunk_ok) ->
  let s := run init (firstn k (snd (do_cmds ord init cs))) in
  exists u tr, process_orphans ord (run s [OCrash]) = (u, tr, true) /\ st_rec u = st_rec s /\
    (st_rec s <> 0 ->
     exists d, read_file (DFinal (st_rec u)) (FSnap (st_rec u)) (st_fs u) = Some d /\ Vok d = true).
Proof.
  intros ord cs k HO HSK s.
  assert (G : Good s).
  { apply run_good; [apply good_init|]. apply allowed_run_firstn. apply trace_allowed; auto. }
  destruct (cleanup_after_crash ord s HO G) as [u [tr (P1 & _ & GU & P4)]].
  exists u, tr. split; auto. split; auto. intros NZ. apply read_recorded; auto. congruence.
Qed.

End Validity.

(* ---------------------------------------------------------------------- *)
(* instance 1: any complete file (shrunk and metadata-only ones included) *)

Lemma vs_hv1 : forall d, valid_snap d = true -> valid_snap d = true.
Proof. auto. Qed.
Lemma vs_hv2 : forall n, valid_snap (T_HDR :: repeat T_BODY n ++ [T_TAIL]) = true.
Proof. intros. apply valid_writer. Qed.
Lemma vs_shrunk : shrunk_ok valid_snap.
Proof. reflexivity. Qed.
Lemma vs_dummy : dummy_ok valid_snap.
Proof. reflexivity. Qed.

(* instance 2: complete files that carry the state machine's image *)
Lemma fs_hv1 : forall d, full_snap d = true -> valid_snap d = true.
Proof. intros d H. unfold full_snap in H. apply andb_true_iff in H. tauto. Qed.

Lemma fs_hv2 : forall n, full_snap (T_HDR :: repeat T_BODY n ++ [T_TAIL]) = true.
Proof.
  intros n. unfold full_snap. rewrite valid_writer. simpl.
  destruct n as [|[|[|n]]]; reflexivity.
Qed.

(* a regular state machine comes back at the recorded (= acknowledged) snapshot *)
Lemma restart_state_ge_recorded_proved : forall ord cs k sv sd,
  ord_ok ord -> ~ Exists is_shrink cs ->
  let s := run init (firstn k (snd (do_cmds ord init cs))) in
  exists u tr, process_orphans ord (run s [OCrash]) = (u, tr, true) /\ st_rec u = st_rec s /\
    exists t ops, init_recover_reg (mkDS u sv sd) = (t, ops, Done) /\
                  ds_st t = u /\ (st_rec s <> 0 -> ds_smv t = st_rec s).
Proof.
  intros ord cs k sv sd HO NS s.
  destruct (restart_reads_recorded full_snap fs_hv1 fs_hv2 ord cs k HO (fun X => match NS X with end))
    as [u [tr (P1 & P2 & P3)]]. fold s in P1, P2, P3.
  exists u, tr. split; auto. split; auto. unfold init_recover_reg, recorded_file. cbn [ds_st].
  destruct (st_rec u =? 0) eqn:Z.
  - apply N.eqb_eq in Z. exists (mkDS u sv sd), []. repeat split; auto. intros NZ. congruence.
  - apply N.eqb_neq in Z. assert (NZ : st_rec s <> 0) by congruence.
    destruct (P3 NZ) as [d [RF FU]]. rewrite RF, FU.
    eexists. eexists. split; [reflexivity|]. split; [reflexivity|]. intros _. simpl. exact P2.
Qed.

(* ---------------------------------------------------------------------- *)
(* the statements of Props/C16.v, for the two instances *)

Local Hint Resolve vs_hv1 vs_hv2 vs_shrunk vs_dummy fs_hv1 fs_hv2 : c16.

Lemma recorded_implies_complete_vs : forall ord cs k,
  ord_ok ord ->
  let s := run init (firstn k (snd (do_cmds ord init cs))) in
  st_rec s <> 0 -> durable_complete s (st_rec s).
Proof. intros ord cs k HO. apply (recorded_implies_complete_proved valid_snap); auto with c16. Qed.

Lemma cleanup_yields_only_complete_vs : forall ord cs k,
  ord_ok ord ->
  let s := run init (firstn k (snd (do_cmds ord init cs))) in
  exists u tr, process_orphans ord (run s [OCrash]) = (u, tr, true) /\ cleanb u = true /\ st_rec u = st_rec s.
Proof. intros ord cs k HO. apply (cleanup_yields_only_complete_proved valid_snap); auto with c16. Qed.

Lemma guarded_recorded_implies_complete_vs : forall ops k,
  allowed_run valid_snap init ops ->
  let s := run init (firstn k ops) in st_rec s <> 0 -> durable_complete s (st_rec s).
Proof. intros ops k. apply (guarded_recorded_implies_complete valid_snap); auto with c16. Qed.

Lemma trace_allowed_vs : forall ord cs, ord_ok ord -> allowed_run valid_snap init (snd (do_cmds ord init cs)).
Proof. intros ord cs HO. apply (trace_allowed valid_snap); auto with c16. Qed.

Lemma step_inv_vs : forall s o t, Inv valid_snap s -> allowed valid_snap s o -> step s o = Some t -> Inv valid_snap t.
Proof. apply step_inv. Qed.

Lemma ondisk_recover_restartable_vs : forall s i load k,
  J valid_snap (ds_st s) -> st_rec (ds_st s) = i -> i <> 0 ->
  (FullAt i (ds_st s) \/ i <= ds_smd s) ->
  (load = false -> i <= ds_smv s) ->
  let '(_, tr, _) := recover_prog s i load in
  restart_okb (dstep (drun s (firstn k tr)) (DBase OCrash)) = true.
Proof. intros s i load k. apply (ondisk_recover_restartable_proved valid_snap); auto with c16. Qed.

Lemma received_files_durable_vs : forall i n m fl,
  let fl' := apply_local (recvx_fs i n m) fl in
  durable_full (FSnap i) fl' /\ durable_full (FOther 1) fl'.
Proof. intros i n m fl. apply (received_files_durable_proved valid_snap); auto with c16. Qed.

Lemma ondisk_save_restartable_vs : forall s lr ap k,
  J valid_snap (ds_st s) ->
  (st_rec (ds_st s) = 0 \/ FullAt (st_rec (ds_st s)) (ds_st s) \/ st_rec (ds_st s) <= ds_smd s) ->
  let '(_, tr, _) := cmd_save_ondisk s lr ap in
  restart_okb (dstep (drun s (firstn k tr)) (DBase OCrash)) = true.
Proof. intros s lr ap k. apply (ondisk_save_restartable_proved valid_snap); auto with c16. Qed.

Lemma cmds_ok_vs : forall ord cs s t tr,
  ord_ok ord -> J valid_snap s -> do_cmds ord s cs = (t, tr) ->
  allowed_run valid_snap s tr /\ t = run s tr /\ J valid_snap t.
Proof. intros ord cs s t tr HO. apply (cmds_ok valid_snap); auto with c16. Qed.

(* for command sequences without Shrink every recorded snapshot file carries the image *)
Lemma cmds_ok_fs : forall ord cs s t tr,
  ord_ok ord -> ~ Exists is_shrink cs -> J full_snap s -> do_cmds ord s cs = (t, tr) ->
  allowed_run full_snap s tr /\ t = run s tr /\ J full_snap t.
Proof. intros ord cs s t tr HO NS. apply (cmds_ok full_snap); auto with c16. intros X. destruct (NS X). Qed.
