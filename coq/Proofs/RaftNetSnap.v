(* L2, stage 2: every run of the model with compaction and InstallSnapshot
   (Model/RaftNetSnap.v) is simulated by a run of the stage-1 model whose soup holds, for
   every snapshot message, the Replicate messages the snapshot stands for.  The stage-1
   theorems therefore hold for the logical logs of stage 2. *)
From DB Require Import Model.RaftNet Model.RaftNetSnap Proofs.RaftNetLists Proofs.RaftNetElection
  Proofs.RaftNetLog Proofs.RaftNetCommitDefs Proofs.RaftNetCommit Proofs.RaftNetSafety.

Definition with_msgs (n : net) (ms : list msg) : net :=
  mkNet (nodes n) ms (lead n) (llog0 n) (llog n).

Lemma filter_length_mono {A} (f g : A -> bool) (l : list A) :
  (forall x, f x = true -> g x = true) -> length (filter f l) <= length (filter g l).
Proof.
  intros H. induction l as [|a l IH]; simpl; [lia|].
  destruct (f a) eqn:E.
  - rewrite (H a E). simpl. lia.
  - destruct (g a); simpl; lia.
Qed.

Lemma existsb_incl {A} (f : A -> bool) (l l' : list A) :
  incl l l' -> existsb f l = true -> existsb f l' = true.
Proof.
  intros Hi H. apply existsb_exists in H. destruct H as (x & Hx & Hf).
  apply existsb_exists. exists x. split; [now apply Hi | exact Hf].
Qed.

Lemma updn_eq f i x : updn f i x i = x.
Proof. unfold updn. now rewrite Nat.eqb_refl. Qed.

Lemma updn_neq f i x j : j <> i -> updn f i x j = f j.
Proof. unfold updn. intros H. apply Nat.eqb_neq in H. now rewrite H. Qed.

Section SnapSim.
  Variable V : list id.
  Hypothesis V_nodup : NoDup V.

  Notation step := (step V).
  Notation steps := (steps V).
  Notation reachable := (reachable V).
  Notation step2 := (step2 V).
  Notation steps2 := (steps2 V).
  Notation reachable2 := (reachable2 V).

  Lemma vote_count_mono ms ms' t c :
    incl ms ms' -> vote_count V ms t c <= vote_count V ms' t c.
  Proof. intros Hi. apply filter_length_mono. intros v. now apply existsb_incl. Qed.

  Lemma ack_count_mono ms ms' t k :
    incl ms ms' -> ack_count V ms t k <= ack_count V ms' t k.
  Proof. intros Hi. apply filter_length_mono. intros v. now apply existsb_incl. Qed.

  Definition same_acks (ms ms0 : list msg) : Prop :=
    forall t i l k, In (Ack t i l k) ms -> In (Ack t i l k) ms0.

  Lemma acks_le_mono ms ms0 i m :
    same_acks ms ms0 -> acks_le ms0 i m = true -> acks_le ms i m = true.
  Proof.
    unfold acks_le. intros Hs H. rewrite forallb_forall in *. intros x Hx.
    destruct x; auto. apply (H _ (Hs _ _ _ _ Hx)).
  Qed.

  (* a step stays possible, with the same effect, in a bigger soup that has no other
     acknowledgements *)
  Lemma step_soup_mono n l n' ms :
    step n l n' -> incl (msgs n) ms -> same_acks ms (msgs n) ->
    exists new, msgs n' = new ++ msgs n /\
                step (with_msgs n ms) l (with_msgs n' (new ++ ms)).
  Proof.
    intros Hstep Hi Hacks.
    inversion Hstep; subst; repeat match goal with x := _ |- _ => subst x end;
      unfold with_msgs; cbn [nodes msgs lead llog0 llog].
    - eexists [_; _]. split; [reflexivity|]. apply (SATimeout V (mkNet _ ms _ _ _)).
    - exists []. split; [reflexivity|]. now apply (SAHigherTerm V (mkNet _ ms _ _ _)).
    - exists []. split; [reflexivity|]. apply (SAStepDown V (mkNet _ ms _ _ _)).
    - eexists [_]. split; [reflexivity|].
      apply (SAHandleRV V (mkNet _ ms _ _ _)); cbn [nodes msgs]; auto.
    - exists []. split; [reflexivity|].
      apply (SABecomeLeader V (mkNet _ ms _ _ _)); cbn [nodes msgs]; auto.
      pose proof (vote_count_mono (msgs n) ms (term (nodes n i)) i Hi). lia.
    - exists []. split; [reflexivity|].
      apply (SAPropose V (mkNet _ ms _ _ _)); cbn [nodes msgs]; auto.
    - eexists [_]. split; [reflexivity|].
      apply (SASendAE V (mkNet _ ms _ _ _)); cbn [nodes msgs]; auto.
    - eexists [_]. split; [reflexivity|].
      apply (SAHandleAEStale V (mkNet _ ms _ _ _)); cbn [nodes msgs]; auto.
    - eexists [_]. split; [reflexivity|].
      apply (SAHandleAE V (mkNet _ ms _ _ _)); cbn [nodes msgs]; auto.
    - exists []. split; [reflexivity|].
      apply (SAAdvanceCommit V (mkNet _ ms _ _ _)); cbn [nodes msgs]; auto.
      pose proof (ack_count_mono (msgs n) ms (term (nodes n i)) k Hi). lia.
    - eexists [_]. split; [reflexivity|].
      apply (SASendHB V (mkNet _ ms _ _ _)); cbn [nodes msgs]; auto.
      match goal with H : _ \/ _ |- _ => destruct H as [H|H]; [now left | right] end.
      eapply existsb_incl; eauto.
    - exists []. split; [reflexivity|].
      apply (SAHandleHB V (mkNet _ ms _ _ _)); cbn [nodes msgs]; auto.
    - eexists [_]. split; [reflexivity|].
      apply (SASelfAck V (mkNet _ ms _ _ _)); cbn [nodes msgs]; auto.
    - exists []. split; [reflexivity|].
      apply (SARestart V (mkNet _ ms _ _ _)); cbn [nodes msgs]; auto.
      eapply acks_le_mono; eauto.
  Qed.

  Lemma steps_app n ls m ls' p : steps n ls m -> steps m ls' p -> steps n (ls ++ ls') p.
  Proof. intros H1 H2. induction H1; simpl; [assumption|]. econstructor; eauto. Qed.

  (* ---- the simulation relation ---- *)

  (* the Replicate messages a snapshot (t, ldr, sidx) stands for: one per prev p <= sidx *)
  Definition is_covered (g : nat -> list entry) (ms : list msg) (m : snapmsg) : Prop :=
    match m with
    | IS t ldr sidx sterm =>
      let L := firstn sidx (g t) in
      1 <= sidx <= length (g t) /\ sterm = term_at L sidx /\
      forall p, p <= sidx -> In (AE t ldr p (term_at L p) (skipn p L) sidx) ms
    end.

  Definition R (s : net2) (ms : list msg) : Prop :=
    incl (msgs (base s)) ms /\
    (forall m, In m (snaps s) -> is_covered (llog (base s)) ms m) /\
    same_acks ms (msgs (base s)).

  Definition wf2 (s : net2) : Prop :=
    forall i, first s i <= commit (nodes (base s) i).

  Lemma is_covered_mono g g' ms ms' m :
    (forall t, exists e, g' t = g t ++ e) -> incl ms ms' ->
    is_covered g ms m -> is_covered g' ms' m.
  Proof.
    intros Hg Hi. destruct m as [t ldr sidx sterm]. cbn [is_covered].
    intros (Hs & Ht & Hp). destruct (Hg t) as (e & ->).
    assert (E : firstn sidx (g t ++ e) = firstn sidx (g t)) by (apply agree_app_l; lia).
    rewrite E. split; [rewrite app_length; lia|]. split; [exact Ht|].
    intros p Hple. apply Hi. now apply Hp.
  Qed.

  (* ---- first <= commit ---- *)

  Lemma step_commit_mono n l n' i :
    step n l n' ->
    commit (nodes n i) <= commit (nodes n' i) \/
    exists c m, l = LRestart i c m /\ commit (nodes n' i) = c.
  Proof.
    intros Hstep. inv_step Hstep; simp_upd; try (left; lia).
    right. eauto.
  Qed.

  Lemma wf2_step s l s' : wf2 s -> step2 s l s' -> wf2 s'.
  Proof.
    intros Hwf Hstep i. specialize (Hwf i).
    inversion Hstep; subst; repeat match goal with x := _ |- _ => subst x end;
      cbn [base first nodes].
    - destruct (step_commit_mono _ _ _ i H0) as [Hle|(c & m & -> & Hc)]; [lia|].
      simpl in H. lia.
    - destruct (Nat.eq_dec i i0) as [->|Hne]; [rewrite updn_eq; lia | now rewrite updn_neq].
    - assumption.
    - simp_upd; lia.
    - simp_upd; lia.
    - destruct (Nat.eq_dec i j) as [->|Hne].
      + rewrite updn_eq, upd_eq. simpl. lia.
      + rewrite updn_neq, upd_neq by assumption. lia.
  Qed.

  Lemma wf2_init : wf2 init2.
  Proof. intros i. simpl. lia. Qed.

  (* ---- result of handling the Replicate a snapshot stands for ---- *)

  Lemma handle_ae_result n t ldr prev pt ents lc l cmt l' :
    inv2 n -> In (AE t ldr prev pt ents lc) (msgs n) ->
    log_ok (llog n) l -> term_at l prev = pt ->
    try_append l cmt prev ents = Some l' ->
    (agree (prev + length ents) l (llog n t) -> l' = l) /\
    (~ agree (prev + length ents) l (llog n t) -> l' = firstn (prev + length ents) (llog n t)).
  Proof.
    intros H2 Hin Hok Hpt Hta.
    destruct (ae_view n t ldr prev pt ents lc l H2 Hin Hok Hpt) as (Hprev & Hview & Hents).
    assert (Hpos : forall e, In e ents -> 1 <= eterm e) by (intros e He; apply Hents; exact He).
    assert (LM : lmatch l (firstn prev l ++ ents)).
    { rewrite Hview. eapply log_ok_lmatch; [exact Hok|].
      apply log_ok_firstn. apply (i_llog_ok n H2). }
    destruct (try_append_spec l cmt prev ents l' Hprev Hpos LM Hta)
      as [[-> Hag]|(ci & Hci & Hc & -> & Hag & Hne)].
    - split; [reflexivity|]. intros Hn. exfalso. apply Hn. rewrite Hview in Hag.
      eapply agree_trans; [exact Hag|]. apply agree_firstn. lia.
    - split; [|intros _; exact Hview]. intros Hag2. exfalso. apply Hne.
      rewrite Hview. rewrite (agree_term_at _ ci _ _ Hag2) by lia.
      symmetry. apply term_at_firstn. lia.
  Qed.

  (* sending all the Replicate messages a snapshot at sidx stands for *)
  Lemma send_covering b ms i sidx :
    role (nodes b i) = Leader -> sidx <= commit (nodes b i) ->
    sidx <= length (log (nodes b i)) ->
    forall k, k <= S sidx ->
    exists ls new,
      steps (with_msgs b ms) ls (with_msgs b (new ++ ms)) /\
      (forall t v l0 k0, ~ In (Ack t v l0 k0) new) /\
      forall p, p < k ->
        In (AE (term (nodes b i)) i p (term_at (log (nodes b i)) p)
               (firstn (sidx - p) (skipn p (log (nodes b i)))) sidx) (new ++ ms).
  Proof.
    intros Hrole Hc Hl. induction k as [|k IH]; intros Hk.
    - exists [], []. split; [constructor|]. split; [intros ? ? ? ? []|]. intros p Hp. lia.
    - destruct (IH ltac:(lia)) as (ls & new & Hs & Hna & Hp).
      exists (ls ++ [LSendAE i k (sidx - k) sidx]),
             (AE (term (nodes b i)) i k (term_at (log (nodes b i)) k)
                 (firstn (sidx - k) (skipn k (log (nodes b i)))) sidx :: new).
      split; [|split].
      + assert (Hlast : step (with_msgs b (new ++ ms)) (LSendAE i k (sidx - k) sidx)
                             (with_msgs b ((AE (term (nodes b i)) i k (term_at (log (nodes b i)) k)
                                               (firstn (sidx - k) (skipn k (log (nodes b i)))) sidx
                                               :: new) ++ ms))).
        { unfold with_msgs. simpl.
          apply (SASendAE V (mkNet (nodes b) (new ++ ms) (lead b) (llog0 b) (llog b)));
            cbn [nodes]; auto; lia. }
        eapply steps_app; [exact Hs|]. econstructor; [exact Hlast | constructor].
      + intros t v l0 k0 [Heq|Hin]; [discriminate | eapply Hna; eauto].
      + intros p Hplt. destruct (Nat.eq_dec p k) as [->|Hne].
        * now left.
        * right. apply Hp. lia.
  Qed.

  (* ---- the simulation ---- *)

  Theorem sim_step s l s' ms :
    reachable (with_msgs (base s) ms) -> R s ms -> step2 s l s' ->
    exists ls ms', steps (with_msgs (base s) ms) ls (with_msgs (base s') ms') /\ R s' ms'.
  Proof.
    intros Hreach (Hincl & Hcov & Hsa) Hstep.
    pose proof (inv_reachable V V_nodup _ Hreach) as [H1 Hq H2 H3a H3b].
    inversion Hstep; subst; repeat match goal with x := _ |- _ => subst x end;
      cbn [base first snaps]; set (a := with_msgs (base s) ms) in *.
    - (* a stage-1 step *)
      destruct (step_soup_mono _ _ _ ms H0 Hincl Hsa) as (new & Hnew & Hst).
      exists [l0], (new ++ ms). split; [econstructor; [exact Hst | constructor]|].
      pose proof (step_gext V _ _ _ H1 H2 (fresh_fixed V V_nodup _ _ _ H1 Hq Hst) Hst) as (_ & _ & Hg & _).
      unfold R; cbn [base snaps]. split; [|split].
      + rewrite Hnew. intros m Hm. apply in_app_or in Hm. apply in_or_app.
        destruct Hm; [now left | right; now apply Hincl].
      + intros m Hm. eapply is_covered_mono; [exact Hg | | apply Hcov; exact Hm].
        intros x Hx. apply in_or_app. now right.
      + rewrite Hnew. intros t i l1 k Hm. apply in_app_or in Hm. apply in_or_app.
        destruct Hm; [now left | right; now apply Hsa].
    - (* compaction: invisible at stage 1 *)
      exists [], ms. split; [constructor|]. repeat split; assumption.
    - (* sending a snapshot: send the Replicate messages it stands for *)
      pose proof (commit_in_range V V_nodup a i Hreach) as Hcr. cbn [a with_msgs nodes] in Hcr.
      destruct (send_covering (base s) ms i sidx H ltac:(lia) ltac:(lia) (S sidx) (le_n _))
        as (ls & new & Hs & Hna & Hp).
      exists ls, (new ++ ms). split; [exact Hs|]. unfold R; cbn [base snaps]. split; [|split].
      + intros m Hm. apply in_or_app. right. now apply Hincl.
      + intros m [<-|Hm].
        * cbn [is_covered].
          pose proof (i_leader_log a H2 i H) as Hll. cbn [a with_msgs nodes llog] in Hll.
          rewrite Hll. split; [lia|]. split; [now rewrite term_at_firstn by lia|].
          intros p Hple. rewrite term_at_firstn by lia. rewrite skipn_firstn_comm.
          apply Hp. lia.
        * eapply is_covered_mono; [ | | apply Hcov; exact Hm].
          -- intros t. exists []. now rewrite app_nil_r.
          -- intros x Hx. apply in_or_app. now right.
      + intros t v l1 k Hm. apply in_app_or in Hm.
        destruct Hm as [Hm|Hm]; [exfalso; eapply Hna; eauto | now apply Hsa].
    - (* snapshot at or below committed: the Replicate with prev = 0 is stale *)
      destruct (Hcov _ H) as (Hs & Ht & Hp). cbn [base] in *.
      pose proof (Hp 0 ltac:(lia)) as Hae.
      match type of Hae with In (AE _ _ _ ?pt ?ents _) _ =>
        exists [LHandleAE j (term (nodes (base s) j)) ldr 0 pt ents sidx],
               (Ack (term (nodes (base s) j)) j ldr (commit (nodes (base s) j)) :: ms) end.
      split.
      + econstructor; [|constructor].
        apply (SAHandleAEStale V a j _ ldr 0 _ _ sidx); cbn [a with_msgs nodes msgs]; auto. lia.
      + unfold R; cbn [base snaps msgs llog]. split; [|split].
        * intros m [<-|Hm]; [now left | right; now apply Hincl].
        * intros m Hm. eapply is_covered_mono; [ | | apply Hcov; exact Hm].
          -- intros t. exists []. now rewrite app_nil_r.
          -- intros x Hx. now right.
        * intros t0 v l1 k0 [Heq|Hm]; [now left | right; now apply Hsa].
    - (* snapshot matches the log: the Replicate with prev = commit appends nothing *)
      destruct (Hcov _ H) as (Hs & Ht & Hp). cbn [base] in *.
      set (x := nodes (base s) j) in *. set (t := term x) in *.
      set (L := firstn sidx (llog (base s) t)) in *.
      pose proof (Hp (commit x) ltac:(lia)) as Hae.
      assert (HlenL : length L = sidx) by (unfold L; rewrite firstn_length; lia).
      assert (Hlen : commit x + length (skipn (commit x) L) = sidx)
        by (rewrite skipn_length; lia).
      destruct (i_ae a H2 _ _ _ _ _ _ Hae) as (Hlead & _).
      destruct (agl_fixed V a H2 H3a H3b j t eq_refl Hlead) as (Hhc & _).
      cbn [a with_msgs nodes llog] in Hhc. fold x in Hhc.
      destruct (i_commit_bounds a H3a j) as (Hcb & _). cbn [a with_msgs nodes] in Hcb. fold x in Hcb.
      assert (Hpt : term_at (log x) (commit x) = term_at L (commit x)).
      { unfold L. rewrite term_at_firstn by lia. apply (agree_term_at _ _ _ _ Hhc). lia. }
      pose proof (append_never_conflicts_with_committed V V_nodup a j t ldr (commit x) _ _ sidx
                    Hreach Hae eq_refl Hpt) as Hsome.
      cbn [a with_msgs nodes] in Hsome. fold x in Hsome.
      destruct (try_append (log x) (commit x) (commit x) (skipn (commit x) L)) as [l'|] eqn:Hta;
        [|congruence].
      destruct (handle_ae_result a t ldr (commit x) _ _ sidx (log x) (commit x) l' H2 Hae
                  (i_log_ok a H2 j) Hpt Hta) as (Hsame & _).
      assert (Hagree : agree sidx (log x) (llog (base s) t)).
      { assert (Hst : 1 <= term_at L sidx).
        { destruct (term_at_In L sidx ltac:(lia)) as (e & He & ->).
          apply In_firstn in He. apply (i_llog_terms a H2 t e He). }
        assert (Hr : 1 <= sidx <= length (log x)) by (apply term_at_in_range; lia).
        apply (log_ok_matching a (log x) (llog a t) sidx (i_log_ok a H2 j) (i_llog_ok a H2 t));
          try lia; unfold a; cbn [with_msgs llog]; [lia|].
        rewrite Ht. unfold L. apply term_at_firstn. lia. }
      rewrite Hlen in Hsame. specialize (Hsame Hagree). subst l'.
      exists [LHandleAE j t ldr (commit x) (term_at L (commit x)) (skipn (commit x) L) sidx],
             (Ack t j ldr sidx :: ms).
      split.
      + econstructor; [|constructor].
        pose proof (SAHandleAE V a j t ldr (commit x) _ _ sidx (log x) Hae eq_refl (le_n _) Hpt Hta)
          as Hst.
        cbn [a with_msgs nodes msgs lead llog0 llog] in Hst. fold x in Hst.
        rewrite Hlen in Hst.
        replace (Nat.max (commit x) (Nat.min sidx sidx)) with sidx in Hst by lia.
        exact Hst.
      + unfold R; cbn [base snaps msgs llog]. split; [|split].
        * intros m [<-|Hm]; [now left | right; now apply Hincl].
        * intros m Hm. eapply is_covered_mono; [ | | apply Hcov; exact Hm].
          -- intros t0. exists []. now rewrite app_nil_r.
          -- intros y Hy. now right.
        * intros t0 v l1 k0 [Heq|Hm]; [now left | right; now apply Hsa].
    - (* snapshot does not match: the Replicate with prev = commit replaces the log *)
      destruct (Hcov _ H) as (Hs & Ht & Hp). cbn [base] in *.
      set (x := nodes (base s) j) in *. set (t := term x) in *.
      set (L := firstn sidx (llog (base s) t)) in *.
      pose proof (Hp (commit x) ltac:(lia)) as Hae.
      assert (HlenL : length L = sidx) by (unfold L; rewrite firstn_length; lia).
      assert (Hlen : commit x + length (skipn (commit x) L) = sidx)
        by (rewrite skipn_length; lia).
      destruct (i_ae a H2 _ _ _ _ _ _ Hae) as (Hlead & _).
      destruct (agl_fixed V a H2 H3a H3b j t eq_refl Hlead) as (Hhc & _).
      cbn [a with_msgs nodes llog] in Hhc. fold x in Hhc.
      destruct (i_commit_bounds a H3a j) as (Hcb & _). cbn [a with_msgs nodes] in Hcb. fold x in Hcb.
      assert (Hpt : term_at (log x) (commit x) = term_at L (commit x)).
      { unfold L. rewrite term_at_firstn by lia. apply (agree_term_at _ _ _ _ Hhc). lia. }
      pose proof (append_never_conflicts_with_committed V V_nodup a j t ldr (commit x) _ _ sidx
                    Hreach Hae eq_refl Hpt) as Hsome.
      cbn [a with_msgs nodes] in Hsome. fold x in Hsome.
      destruct (try_append (log x) (commit x) (commit x) (skipn (commit x) L)) as [l'|] eqn:Hta;
        [|congruence].
      destruct (handle_ae_result a t ldr (commit x) _ _ sidx (log x) (commit x) l' H2 Hae
                  (i_log_ok a H2 j) Hpt Hta) as (_ & Hrepl).
      assert (Hnag : ~ agree sidx (log x) (llog (base s) t)).
      { intros Hag. match goal with Hn : term_at _ _ <> _ |- _ => apply Hn end. rewrite Ht. unfold L. rewrite term_at_firstn by lia.
        apply (agree_term_at _ _ _ _ Hag). lia. }
      rewrite Hlen in Hrepl. specialize (Hrepl Hnag). subst l'.
      exists [LHandleAE j t ldr (commit x) (term_at L (commit x)) (skipn (commit x) L) sidx],
             (Ack t j ldr sidx :: ms).
      split.
      + econstructor; [|constructor].
        pose proof (SAHandleAE V a j t ldr (commit x) _ _ sidx _ Hae eq_refl (le_n _) Hpt Hta)
          as Hst.
        cbn [a with_msgs nodes msgs lead llog0 llog] in Hst. fold x in Hst.
        rewrite Hlen in Hst.
        replace (Nat.max (commit x) (Nat.min sidx sidx)) with sidx in Hst by lia.
        exact Hst.
      + unfold R; cbn [base snaps msgs llog]. split; [|split].
        * intros m [<-|Hm]; [now left | right; now apply Hincl].
        * intros m Hm. eapply is_covered_mono; [ | | apply Hcov; exact Hm].
          -- intros t0. exists []. now rewrite app_nil_r.
          -- intros y Hy. now right.
        * intros t0 v l1 k0 [Heq|Hm]; [now left | right; now apply Hsa].
  Qed.

  (* a stage-1 step of stage 2 is the same single step at stage 1 *)
  Lemma sim_base s l b' ms :
    reachable (with_msgs (base s) ms) -> R s ms -> step (base s) l b' ->
    exists ms', step (with_msgs (base s) ms) l (with_msgs b' ms') /\
                R (mkNet2 b' (first s) (snaps s)) ms'.
  Proof.
    intros Hreach (Hincl & Hcov & Hsa) H0.
    pose proof (inv_reachable V V_nodup _ Hreach) as [H1 Hq H2 H3a H3b].
    destruct (step_soup_mono _ _ _ ms H0 Hincl Hsa) as (new & Hnew & Hst).
    exists (new ++ ms). split; [exact Hst|].
    pose proof (step_gext V _ _ _ H1 H2 (fresh_fixed V V_nodup _ _ _ H1 Hq Hst) Hst) as (_ & _ & Hg & _).
    unfold R; cbn [base snaps]. split; [|split].
    - rewrite Hnew. intros m Hm. apply in_app_or in Hm. apply in_or_app.
      destruct Hm; [now left | right; now apply Hincl].
    - intros m Hm. eapply is_covered_mono; [exact Hg | | apply Hcov; exact Hm].
      intros x Hx. apply in_or_app. now right.
    - rewrite Hnew. intros t i l1 k Hm. apply in_app_or in Hm. apply in_or_app.
      destruct Hm; [now left | right; now apply Hsa].
  Qed.

  Lemma sim_steps s ls s' : steps2 s ls s' -> forall ms,
    reachable (with_msgs (base s) ms) -> R s ms ->
    exists ls1 ms', steps (with_msgs (base s) ms) ls1 (with_msgs (base s') ms') /\ R s' ms'.
  Proof.
    induction 1 as [s|s l s1 ls s2 Hst Hsts IH]; intros ms Hreach HR.
    - exists [], ms. split; [constructor | exact HR].
    - destruct (sim_step s l s1 ms Hreach HR Hst) as (la & ms1 & Ha & HR1).
      destruct (IH ms1 (steps_reachable V _ _ _ Hreach Ha) HR1) as (lb & ms2 & Hb & HR2).
      exists (la ++ lb), ms2. split; [eapply steps_app; eauto | exact HR2].
  Qed.

  (* every reachable stage-2 state is a reachable stage-1 state with a bigger soup *)
  Theorem stage2_refines_stage1 s :
    reachable2 s -> exists ms, reachable (with_msgs (base s) ms) /\ R s ms.
  Proof.
    intros (ls & Hs).
    assert (H0 : reachable (with_msgs (base (init2)) [])) by (exists []; constructor).
    assert (HR0 : R init2 []) by (split; [intros m [] | split; [intros m [] | intros ? ? ? ? []]]).
    destruct (sim_steps _ _ _ Hs [] H0 HR0) as (ls1 & ms & Hst & HR).
    exists ms. split; [|exact HR]. eapply steps_reachable; eauto.
  Qed.

  Lemma wf2_steps s ls s' : wf2 s -> steps2 s ls s' -> wf2 s'.
  Proof. intros Hw Hs. induction Hs; [assumption|]. apply IHHs. eapply wf2_step; eauto. Qed.

  Lemma steps2_reachable s ls s' : reachable2 s -> steps2 s ls s' -> reachable2 s'.
  Proof.
    intros (l0 & H0) Hs. exists (l0 ++ ls).
    induction H0; simpl; [assumption|]. econstructor; eauto.
  Qed.

  (* ---- stage-2 theorems ---- *)

  (* a snapshot only ever covers committed entries *)
  Theorem snapshot_is_committed s i :
    reachable2 s -> first s i <= commit (nodes (base s) i).
  Proof. intros (ls & Hs). eapply wf2_steps; [apply wf2_init | exact Hs]. Qed.

  Theorem election_safety2 s i j :
    reachable2 s ->
    role (nodes (base s) i) = Leader -> role (nodes (base s) j) = Leader ->
    term (nodes (base s) i) = term (nodes (base s) j) -> i = j.
  Proof.
    intros Hr. destruct (stage2_refines_stage1 s Hr) as (ms & Hreach & _).
    apply (election_safety V V_nodup _ i j Hreach).
  Qed.

  Theorem log_matching2 s i j k :
    reachable2 s ->
    1 <= k -> k <= length (log (nodes (base s) i)) -> k <= length (log (nodes (base s) j)) ->
    term_at (log (nodes (base s) i)) k = term_at (log (nodes (base s) j)) k ->
    firstn k (log (nodes (base s) i)) = firstn k (log (nodes (base s) j)).
  Proof.
    intros Hr. destruct (stage2_refines_stage1 s Hr) as (ms & Hreach & _).
    apply (log_matching V V_nodup (with_msgs (base s) ms) _ _ k Hreach
                        (KNode _ i) (KNode _ j)).
  Qed.

  Theorem state_machine_safety2 s a b k :
    reachable2 s -> k <= commit (nodes (base s) a) -> k <= commit (nodes (base s) b) ->
    firstn k (log (nodes (base s) a)) = firstn k (log (nodes (base s) b)).
  Proof.
    intros Hr. destruct (stage2_refines_stage1 s Hr) as (ms & Hreach & _).
    apply (state_machine_safety V V_nodup _ a b k Hreach).
  Qed.

  Lemma nth_error_skipn {A} f : forall (l : list A) m, nth_error (skipn f l) m = nth_error l (f + m).
  Proof.
    induction f as [|f IH]; intros l m; [reflexivity|].
    destruct l; simpl; [now destruct m | apply IH].
  Qed.

  (* the same for what the nodes really store: entry j (first < j <= k) read from the
     stored suffixes of two nodes that both committed k *)
  Theorem state_machine_safety2_stored s a b k j :
    reachable2 s -> k <= commit (nodes (base s) a) -> k <= commit (nodes (base s) b) ->
    first s a < j -> first s b < j -> j <= k ->
    nth_error (snd (stored s a)) (j - 1 - first s a)
    = nth_error (snd (stored s b)) (j - 1 - first s b).
  Proof.
    intros Hr Ha Hb Hfa Hfb Hj. unfold stored. cbn [snd].
    rewrite !nth_error_skipn.
    replace (first s a + (j - 1 - first s a)) with (j - 1) by lia.
    replace (first s b + (j - 1 - first s b)) with (j - 1) by lia.
    apply (agree_nth k); [now apply state_machine_safety2 | lia].
  Qed.

  Theorem committed_never_replaced2 s ls s' i k :
    reachable2 s -> steps2 s ls s' -> k <= commit (nodes (base s) i) ->
    firstn k (log (nodes (base s') i)) = firstn k (log (nodes (base s) i)).
  Proof.
    intros Hr Hs Hk. destruct (stage2_refines_stage1 s Hr) as (ms & Hreach & HR).
    destruct (sim_steps s ls s' Hs ms Hreach HR) as (ls1 & ms' & Hst & _).
    apply (committed_never_replaced V V_nodup _ _ _ i k Hreach Hst Hk).
  Qed.

  (* an entry committed by AdvanceCommit is in the log of every later leader, also when
     logs are compacted and replaced by snapshots in between *)
  Theorem leader_completeness2_trace s i k s1 ls s2 j :
    reachable2 s -> step2 s (L2Base (LAdvanceCommit i k)) s1 -> steps2 s1 ls s2 ->
    role (nodes (base s2) j) = Leader ->
    term (nodes (base s) i) < term (nodes (base s2) j) ->
    firstn k (log (nodes (base s2) j)) = firstn k (log (nodes (base s) i)).
  Proof.
    intros Hr Hstep Hs Hrole Hlt.
    destruct (stage2_refines_stage1 s Hr) as (ms & Hreach & HR).
    inversion Hstep; subst.
    match goal with Hb : RaftNet.step V (base s) _ b' |- _ =>
      destruct (sim_base s _ b' ms Hreach HR Hb) as (ms1 & Hst1 & HR1) end.
    assert (Hreach1 : reachable (with_msgs b' ms1)).
    { eapply steps_reachable; [exact Hreach|]. econstructor; [exact Hst1 | constructor]. }
    destruct (sim_steps _ ls s2 Hs ms1 Hreach1 HR1) as (ls1 & ms2 & Hst2 & _).
    apply (leader_completeness_trace V V_nodup _ i k _ ls1 _ j Hreach Hst1 Hst2 Hrole Hlt).
  Qed.

  (* the content of every snapshot message is committed: it agrees with the log of every
     node as far as that node has committed *)
  Theorem snapshot_content_committed s t ldr sidx sterm i k :
    reachable2 s -> In (IS t ldr sidx sterm) (snaps s) ->
    k <= sidx -> k <= commit (nodes (base s) i) ->
    firstn k (log (nodes (base s) i)) = firstn k (llog (base s) t) /\
    sterm = term_at (llog (base s) t) sidx.
  Proof.
    intros Hr Hin Hk Hc. destruct (stage2_refines_stage1 s Hr) as (ms & Hreach & (_ & Hcov & _)).
    destruct (Hcov _ Hin) as (Hs & Ht & Hp).
    pose proof (inv_reachable V V_nodup _ Hreach) as [H1 Hq H2 H3a H3b].
    split; [|rewrite Ht; apply term_at_firstn; lia].
    pose proof (i_ae_commit V _ H3b _ _ _ _ _ _ (Hp 0 ltac:(lia))) as Hcp.
    destruct (i_commit_bounds _ H3a i) as (Hcb & _).
    apply (cprefix_agree2 V _ _ _ _ _ _ _ k H2 H3b (i_hcommit V _ H3b i) Hcp);
      cbn [with_msgs nodes] in *; lia.
  Qed.

  (* restore() leaves exactly (snapshot index, snapshot term, no entries), committed =
     snapshot index: the ghost prefix the model writes is invisible *)
  Theorem restore_stored s j t ldr sidx sterm s' :
    reachable2 s -> step2 s (L2HandleIS j t ldr sidx sterm) s' ->
    commit (nodes (base s) j) < sidx -> term_at (log (nodes (base s) j)) sidx <> sterm ->
    stored s' j = (sidx, sterm, []) /\ commit (nodes (base s') j) = sidx.
  Proof.
    intros Hr Hstep Hc Hne.
    inversion Hstep; subst; repeat match goal with x := _ |- _ => subst x end; try lia;
      try contradiction.
    match goal with Hin : In (IS _ _ _ _) _ |- _ => rename Hin into HinIS end.
    destruct (snapshot_content_committed s _ ldr sidx sterm j 0 Hr HinIS ltac:(lia) ltac:(lia))
      as (_ & Hst).
    destruct (stage2_refines_stage1 s Hr) as (ms & _ & (_ & Hcov & _)).
    destruct (Hcov _ HinIS) as (Hs & _ & _).
    unfold stored. cbn [base first nodes]. rewrite updn_eq, upd_eq. cbn [log commit].
    split; [|reflexivity]. f_equal; [f_equal|].
    - rewrite term_at_firstn by lia. now rewrite Hst.
    - apply skipn_all2. rewrite firstn_length. lia.
  Qed.

  (* ---- executable side ---- *)

  Lemma visible_b_spec s l : visible_b s l = true -> visible s l.
  Proof. destruct l; simpl; auto; intros H; now apply Nat.leb_le in H. Qed.

  Theorem step_fn2_sound s l s' : step_fn2 V s l = Some s' -> step2 s l s'.
  Proof.
    destruct l; cbn [step_fn2]; intros H.
    - destruct (visible_b s l) eqn:Hv; [|discriminate].
      destruct (step_fn V (base s) l) as [b'|] eqn:Hs; [|discriminate].
      injection H as <-. apply S2Base; [now apply visible_b_spec | now apply step_fn_sound].
    - match type of H with (if ?c then _ else _) = _ => destruct c eqn:Hc; [|discriminate] end.
      injection H as <-. apply andb_prop in Hc. destruct Hc as [Ha Hb].
      apply Nat.leb_le in Ha, Hb. now apply S2Compact.
    - match type of H with (if ?c then _ else _) = _ => destruct c eqn:Hc; [|discriminate] end.
      injection H as <-. apply andb_prop in Hc. destruct Hc as [Hc Hb].
      apply andb_prop in Hc. destruct Hc as [Hr Ha]. apply Nat.leb_le in Ha, Hb.
      apply S2SendIS; auto. now apply role_eqb_eq.
    - match type of H with (if ?c then _ else _) = _ => destruct c eqn:Hc; [|discriminate] end.
      apply andb_prop in Hc. destruct Hc as [Hin Ht]. apply Nat.eqb_eq in Ht.
      assert (HinP : In (IS t ldr sidx sterm) (snaps s)).
      { apply existsb_exists in Hin. destruct Hin as ([t' i' x' y'] & Hx & He). simpl in He.
        repeat (apply andb_prop in He; destruct He as [He ?]).
        repeat match goal with E : (_ =? _) = true |- _ => apply Nat.eqb_eq in E end.
        now subst. }
      destruct (Nat.leb_spec sidx (commit (nodes (base s) j))).
      + injection H as <-. now apply S2HandleISStale.
      + destruct (Nat.eqb_spec (term_at (log (nodes (base s) j)) sidx) sterm).
        * injection H as <-. now apply S2HandleISMatch.
        * injection H as <-. now apply S2HandleISRestore.
  Qed.

  Theorem run2_sound ls : forall s s', run2 V s ls = Some s' -> steps2 s ls s'.
  Proof.
    induction ls as [|l ls IH]; simpl; intros s s' H.
    - injection H as <-. constructor.
    - destruct (step_fn2 V s l) as [s1|] eqn:E; [|discriminate].
      econstructor; [apply step_fn2_sound; exact E | apply IH; exact H].
  Qed.

End SnapSim.
