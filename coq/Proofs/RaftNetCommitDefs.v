(* L2, part 3a: acknowledgements, commitment, the invariant [inv3] and the facts that
   follow from inv1..inv3 in one state (leader completeness). *)
From DB Require Import Model.RaftNet Proofs.RaftNetLists Proofs.RaftNetElection Proofs.RaftNetLog.

Section CommitDefs.
  Variable V : list id.
  Hypothesis V_nodup : NoDup V.

  Definition acked (n : net) t w k : Prop :=
    exists ldr m, k <= m /\ In (Ack t w ldr m) (msgs n).

  Definition ack_quorum (n : net) t k : Prop :=
    exists Q, is_quorum V Q /\ forall w, In w Q -> acked n t w k.

  (* entry k of the leader of term t is committed: it has the leader's own term and a
     quorum acknowledged a prefix >= k of that leader's log in term t *)
  Definition committed (n : net) t k : Prop :=
    1 <= k <= length (llog n t) /\ term_at (llog n t) k = t /\ ack_quorum n t k.

  (* the first c entries of l are covered by a commitment made in a term <= tmax *)
  Definition cprefix (n : net) tmax c (l : list entry) : Prop :=
    c = 0 \/ exists t' k', t' <= tmax /\ c <= k' /\ committed n t' k' /\ agree c l (llog n t').

  (* some leader of a term in (t, T] started without the first k entries of llog t *)
  Definition blamed (n : net) t k T : Prop :=
    exists T', t < T' <= T /\ lead n T' <> None /\ ~ agree k (llog0 n T') (llog n t).

  Definition I_commit_bounds n := forall i,
    commit (nodes n i) <= hcommit (nodes n i) /\ hcommit (nodes n i) <= length (log (nodes n i)).
  Definition I_hcommit n := forall i,
    cprefix n (term (nodes n i)) (hcommit (nodes n i)) (log (nodes n i)).
  Definition I_ae_commit n := forall t ldr prev pt ents lc,
    In (AE t ldr prev pt ents lc) (msgs n) -> cprefix n t lc (llog n t).
  Definition I_hb n := forall t ldr to c,
    In (HB t ldr to c) (msgs n) -> c = 0 \/ (acked n t to c /\ cprefix n t c (llog n t)).
  Definition I_ack_le n := forall t w ldr m,
    In (Ack t w ldr m) (msgs n) -> t <= term (nodes n w) /\ m <= length (llog n t).
  Definition I_ack_node n := forall t w k,
    acked n t w k ->
    agree k (log (nodes n w)) (llog n t) \/ blamed n t k (term (nodes n w)).
  Definition I_vote_pair n := forall T w c vl t k,
    In (Vote T w c vl) (msgs n) -> acked n t w k -> t < T ->
    agree k vl (llog n t) \/ blamed n t k T.
  Definition I_vote_utd n := forall T w c vl,
    In (Vote T w c vl) (msgs n) ->
    exists li lt, In (RV T c li lt) (msgs n) /\ up_to_date li lt vl = true.
  Definition I_rv n := forall T c li lt,
    In (RV T c li lt) (msgs n) ->
    T <= term (nodes n c) /\
    (term (nodes n c) = T -> role (nodes n c) = Candidate ->
     li = length (log (nodes n c)) /\ lt = last_term (log (nodes n c))).
  Definition I_elected n := forall T c,
    lead n T = Some c ->
    exists Q, is_quorum V Q /\ forall w, In w Q ->
      voted_msg n T w c /\
      forall t k, t < T -> 1 <= k -> acked n t w k -> term_at (llog n t) k = t ->
                  agree k (llog0 n T) (llog n t) \/ blamed n t k (T - 1).

  (* the part that does not speak about quorums: inductive for [step V'] with any V',
     given [fresh] and [agl] (the committed prefix of a node agrees with the log of the
     leader of its term) *)
  Record inv3a (n : net) : Prop := {
    i_commit_bounds : I_commit_bounds n;
    i_ack_le : I_ack_le n;
    i_ack_node : I_ack_node n;
    i_vote_pair : I_vote_pair n;
    i_vote_utd : I_vote_utd n;
    i_rv : I_rv n
  }.

  (* the part that does *)
  Record inv3b (n : net) : Prop := {
    i_hcommit : I_hcommit n;
    i_ae_commit : I_ae_commit n;
    i_hb : I_hb n;
    i_elected : I_elected n
  }.

  Definition agl (n : net) : Prop := forall w T,
    term (nodes n w) = T -> lead n T <> None ->
    agree (hcommit (nodes n w)) (log (nodes n w)) (llog n T) /\
    hcommit (nodes n w) <= length (llog n T).

  (* ---- small facts ---- *)

  Lemma acked_le n t w k k' : acked n t w k -> k' <= k -> acked n t w k'.
  Proof. intros (ldr & m & Hm & Hin) Hk. exists ldr, m. split; [lia | exact Hin]. Qed.

  Lemma acked_len n t w k : I_ack_le n -> acked n t w k -> k <= length (llog n t).
  Proof. intros Hle (ldr & m & Hm & Hin). destruct (Hle _ _ _ _ Hin). lia. Qed.

  Lemma acked_term n t w k : I_ack_le n -> acked n t w k -> t <= term (nodes n w).
  Proof. intros Hle (ldr & m & Hm & Hin). destruct (Hle _ _ _ _ Hin). lia. Qed.

  Lemma cprefix_le n tmax c c' l : cprefix n tmax c l -> c' <= c -> cprefix n tmax c' l.
  Proof.
    intros [->|(t' & k' & Ht & Hc & Hcm & Hag)] Hle.
    - left. lia.
    - right. exists t', k'. repeat split; try lia; try apply Hcm.
      eapply agree_le; eauto.
  Qed.

  Lemma cprefix_tmax n tmax tmax' c l : cprefix n tmax c l -> tmax <= tmax' -> cprefix n tmax' c l.
  Proof.
    intros [->|(t' & k' & Ht & Hc & Hcm & Hag)] Hle; [now left|].
    right. exists t', k'. repeat split; try lia; try apply Hcm. exact Hag.
  Qed.

  Lemma cprefix_agree n tmax c l l' : cprefix n tmax c l -> agree c l' l -> cprefix n tmax c l'.
  Proof.
    intros [->|(t' & k' & Ht & Hc & Hcm & Hag)] Hl; [now left|].
    right. exists t', k'. repeat split; try lia; try apply Hcm.
    eapply agree_trans; eauto.
  Qed.

  Lemma blamed_mono n t k T T' : blamed n t k T -> T <= T' -> blamed n t k T'.
  Proof. intros (U & HU & Hl & Hna) Hle. exists U. repeat split; try lia; assumption. Qed.

  Lemma is_ack_true t k v m :
    is_ack t k v m = true -> exists ldr mi, m = Ack t v ldr mi /\ k <= mi.
  Proof.
    destruct m; simpl; try discriminate. intros H.
    apply andb_prop in H. destruct H as [H H3]. apply andb_prop in H. destruct H as [H1 H2].
    apply Nat.eqb_eq in H1, H2. apply Nat.leb_le in H3. subst. eauto.
  Qed.

  Lemma existsb_acked n t k v :
    existsb (is_ack t k v) (msgs n) = true -> acked n t v k.
  Proof.
    intros H. apply existsb_exists in H. destruct H as (m & Hm & Ha).
    apply is_ack_true in Ha. destruct Ha as (ldr & mi & -> & Hk). now exists ldr, mi.
  Qed.

  Lemma count_ack_quorum n t k :
    quorum V <= ack_count V (msgs n) t k -> ack_quorum n t k.
  Proof.
    intros H. unfold ack_count in H.
    destruct (filter_quorum V _ V_nodup H) as (Q & HQ & Hf).
    exists Q. split; [exact HQ|]. intros w Hw. apply existsb_acked. now apply Hf.
  Qed.

  (* ---- stability under ghost extension ---- *)

  Lemma acked_mono n n' t w k : incl (msgs n) (msgs n') -> acked n t w k -> acked n' t w k.
  Proof. intros Hi (ldr & m & Hm & Hin). exists ldr, m. auto. Qed.

  Lemma ack_quorum_mono n n' t k :
    incl (msgs n) (msgs n') -> ack_quorum n t k -> ack_quorum n' t k.
  Proof.
    intros Hi (Q & HQ & H). exists Q. split; [exact HQ|].
    intros w Hw. eapply acked_mono; eauto.
  Qed.

  Lemma agree_gext_r n n' k a t :
    gext n n' -> k <= length (llog n t) -> agree k a (llog n t) -> agree k a (llog n' t).
  Proof.
    intros (_ & _ & He & _) Hk Hag. destruct (He t) as (e & ->). now apply agree_ext_r.
  Qed.

  Lemma agree_gext_r_inv n n' k a t :
    gext n n' -> k <= length (llog n t) -> agree k a (llog n' t) -> agree k a (llog n t).
  Proof.
    intros (_ & _ & He & _) Hk Hag. destruct (He t) as (e & Heq). rewrite Heq in Hag.
    eapply agree_trans; [exact Hag|]. now apply agree_app_l.
  Qed.

  Lemma agree_gext_l n n' k b t :
    gext n n' -> k <= length (llog n t) -> agree k (llog n t) b -> agree k (llog n' t) b.
  Proof. intros Hg Hk Hag. apply agree_sym. eapply agree_gext_r; eauto. now apply agree_sym. Qed.

  Lemma llog_len_gext n n' t : gext n n' -> length (llog n t) <= length (llog n' t).
  Proof. intros (_ & _ & He & _). destruct (He t) as (e & ->). rewrite app_length. lia. Qed.

  Lemma term_at_gext n n' t k :
    gext n n' -> k <= length (llog n t) -> term_at (llog n' t) k = term_at (llog n t) k.
  Proof. intros (_ & _ & He & _) Hk. destruct (He t) as (e & ->). now apply term_at_app_l. Qed.

  Lemma lead_gext n n' t : gext n n' -> lead n t <> None -> lead n' t <> None.
  Proof.
    intros (_ & Hl & _) H. destruct (lead n t) eqn:E; [|congruence]. rewrite (Hl _ _ E). discriminate.
  Qed.

  Lemma committed_gext n n' t k : gext n n' -> committed n t k -> committed n' t k.
  Proof.
    intros Hg (Hr & Ht & Hq). pose proof (llog_len_gext n n' t Hg).
    split; [lia|]. split.
    - rewrite (term_at_gext n n' t k Hg); [exact Ht | lia].
    - eapply ack_quorum_mono; [apply Hg | exact Hq].
  Qed.

  Lemma cprefix_gext n n' tmax c l : gext n n' -> cprefix n tmax c l -> cprefix n' tmax c l.
  Proof.
    intros Hg [->|(t' & k' & Ht & Hc & Hcm & Hag)]; [now left|].
    right. exists t', k'. repeat split; try lia.
    - destruct (committed_gext n n' _ _ Hg Hcm) as (H & _); lia.
    - destruct (committed_gext n n' _ _ Hg Hcm) as (H & _); lia.
    - apply (committed_gext n n' _ _ Hg Hcm).
    - apply (committed_gext n n' _ _ Hg Hcm).
    - eapply agree_gext_r; eauto. destruct Hcm as (Hr & _). lia.
  Qed.

  (* cprefix of the leader log itself, which also grows *)
  Lemma cprefix_gext_llog n n' t c : gext n n' -> cprefix n t c (llog n t) -> cprefix n' t c (llog n' t).
  Proof.
    intros Hg Hc. pose proof (cprefix_gext n n' _ _ _ Hg Hc) as Hc'.
    destruct Hc as [->|(t' & k' & Ht & Hck & Hcm & Hag)]; [now left|].
    eapply cprefix_agree; [exact Hc'|].
    apply (agree_gext_l n n' c (llog n t) t Hg); [|apply agree_refl].
    destruct Hcm as (Hr & _). apply agree_sym in Hag. eapply agree_len; [exact Hag | lia].
  Qed.

  Lemma blamed_gext n n' t k T :
    gext n n' -> k <= length (llog n t) -> blamed n t k T -> blamed n' t k T.
  Proof.
    intros Hg Hk (U & HU & Hl & Hna). exists U. split; [exact HU|]. split.
    - now apply (lead_gext n n').
    - pose proof Hg as (Hg1 & Hg2 & Hg3 & Hg4). rewrite (Hg4 U Hl).
      intros Hag. apply Hna. apply (agree_gext_r_inv n n' k _ t Hg Hk Hag).
  Qed.

  (* ---- leader completeness, in one state ---- *)

  Lemma leader_completeness0 n :
    inv2 n -> inv3b n ->
    forall T t k c, committed n t k -> t < T -> lead n T = Some c ->
                    agree k (llog0 n T) (llog n t).
  Proof.
    intros H2 H3 T. induction T as [T IH] using lt_wf_ind.
    intros t k c Hcm Hlt Hl.
    destruct (i_elected n H3 T c Hl) as (Q & (I1 & N1 & L1) & HQ).
    destruct Hcm as (Hr & Hterm & (Qa & (I2 & N2 & L2) & HQa)).
    destruct (quorum_intersect V Q Qa I1 I2 N1 N2 L1 L2) as (w & Hw1 & Hw2).
    destruct (HQ w Hw1) as (_ & Hpair).
    destruct (Hpair t k Hlt ltac:(lia) (HQa w Hw2) Hterm) as [Hag|(U & HU & HlU & Hna)].
    - exact Hag.
    - exfalso. apply Hna. destruct (lead n U) as [c'|] eqn:E; [|congruence].
      apply (IH U ltac:(lia) t k c'); try lia; try assumption.
      split; [exact Hr|]. split; [exact Hterm|]. exists Qa. repeat split; assumption.
  Qed.

  Lemma leader_completeness1 n :
    inv2 n -> inv3b n ->
    forall T t k, committed n t k -> t < T -> lead n T <> None ->
                  agree k (llog n T) (llog n t).
  Proof.
    intros H2 H3 T t k Hcm Hlt Hl.
    destruct (lead n T) as [c|] eqn:E; [|congruence].
    pose proof (leader_completeness0 n H2 H3 T t k c Hcm Hlt E) as Hag.
    destruct (i_llog0 n H2 T) as (ext & ->).
    apply agree_ext_l; [exact Hag|].
    destruct Hcm as (Hr & _). apply agree_sym in Hag. eapply agree_len; [exact Hag | lia].
  Qed.

  (* a prefix committed up to term T agrees with the log of T's leader *)
  Lemma cprefix_llog n T c l :
    inv2 n -> inv3b n ->
    cprefix n T c l -> lead n T <> None -> agree c l (llog n T).
  Proof.
    intros H2 H3 [->|(t' & k' & Ht & Hc & Hcm & Hag)] Hl; [apply agree_0|].
    destruct (Nat.eq_dec t' T) as [->|Hne]; [exact Hag|].
    eapply agree_trans; [exact Hag|]. apply agree_sym.
    eapply agree_le; [|exact Hc].
    apply (leader_completeness1 n H2 H3); [exact Hcm | lia | exact Hl].
  Qed.

  (* two committed prefixes agree *)
  Lemma cprefix_agree2 n T1 T2 c1 c2 l1 l2 k :
    inv2 n -> inv3b n ->
    cprefix n T1 c1 l1 -> cprefix n T2 c2 l2 -> k <= c1 -> k <= c2 -> agree k l1 l2.
  Proof.
    intros H2 H3 [->|(t1 & k1 & Ht1 & Hc1 & Hcm1 & Hag1)] P2 Hk1 Hk2.
    { replace k with 0 by lia. apply agree_0. }
    destruct P2 as [->|(t2 & k2 & Ht2 & Hc2 & Hcm2 & Hag2)].
    { replace k with 0 by lia. apply agree_0. }
    assert (Hl1 : lead n t1 <> None).
    { intros E. destruct (i_lead_none n H2 t1 E) as (El & _).
      destruct Hcm1 as (Hr & _). rewrite El in Hr. simpl in Hr. lia. }
    assert (Hl2 : lead n t2 <> None).
    { intros E. destruct (i_lead_none n H2 t2 E) as (El & _).
      destruct Hcm2 as (Hr & _). rewrite El in Hr. simpl in Hr. lia. }
    apply (agree_le _ k) in Hag1; [|lia].
    apply (agree_le _ k) in Hag2; [|lia].
    eapply agree_trans; [exact Hag1|]. eapply agree_trans; [|apply agree_sym; exact Hag2].
    destruct (Nat.lt_trichotomy t1 t2) as [Hlt|[->|Hlt]].
    - apply agree_sym. eapply agree_le; [apply (leader_completeness1 n H2 H3 t2 t1 k1)|]; auto. lia.
    - apply agree_refl.
    - eapply agree_le; [apply (leader_completeness1 n H2 H3 t1 t2 k2)|]; auto. lia.
  Qed.

  (* with a fixed voter set: the committed prefix of a node agrees with its leader's log *)
  Lemma agl_fixed n : inv2 n -> inv3a n -> inv3b n -> agl n.
  Proof.
    intros H2 H3a H3b w T HT Hl.
    pose proof (i_hcommit n H3b w) as Hc. rewrite HT in Hc.
    pose proof (cprefix_llog n T _ _ H2 H3b Hc Hl) as Hag.
    split; [exact Hag|]. eapply agree_len; [exact Hag|]. apply (i_commit_bounds n H3a w).
  Qed.

End CommitDefs.
