(* Lemmas about Model/Requests.v (property C12). *)
From Coq Require Import String.
From Coq Require Import NArith List Bool Lia.
From DB Require Import Gen.GenC12 Model.Requests.
Import ListNotations.
Open Scope N_scope.

(* ------------------------------------------------------------------ *)
(* G ties: facts of the source the model's step granularity rests on  *)

(* the repaired code: these three flags select the branches of the model *)
Lemma fix_read_add : read_add_terminates_when_stopped = true.
Proof. reflexivity. Qed.
Lemma fix_logquery_add : logquery_add_refuses_when_stopped = true.
Proof. reflexivity. Qed.
Lemma fix_logquery_returned : logquery_returned_ignored_when_stopped = true.
Proof. reflexivity. Qed.
(* proposalShard.committed notifies with the shard mutex held, so CommitP is one step
   (CommitBorrow / CommitFire are then no-ops of the model) *)
Lemma fix_committed_under_lock : proposal_committed_under_lock = true.
Proof. reflexivity. Qed.

(* pendingReadIndex.add keeps a copy of the slice it is handed: the model's batches own their
   request lists ([taken] is moved into the batch), they never alias the read queue's two
   reusable buffers that later client reads overwrite *)
Lemma read_add_copies : read_add_copies_its_argument = true.
Proof. reflexivity. Qed.

(* node.tick ticks every request table on every path (quiesced or not, no early return):
   the model's [Tick t] step - all table clocks set to t - is what a tick of the node does,
   and the clock the deadline / gc theorems speak about cannot freeze while the node is ticked *)
Lemma node_tick_ticks_tables : node_tick_advances_all_tables = true.
Proof. reflexivity. Qed.

(* proposalShard.propose: pending[key] = req (ProposeA) comes before proposals.add(entry)
   (ProposeB), and both refusal branches delete pending[key] again.  The invariant
   accepted_without_result_is_referenced rests on this order: a proposal is referenced before the
   queue can accept it, so a close() of the shard in between terminates it *)
Lemma propose_order : propose_registers_before_enqueue = true.
Proof. reflexivity. Qed.

(* node.close() closes all five tables, in the order of [close_ops] (CloseR ; CloseP .. ; CloseC ;
   CloseS ; CloseL); node.gc() covers the three tables whose gc is not part of applied() *)
Lemma node_close_order : node_close_tables =
  ["pendingReadIndexes"; "pendingProposals"; "pendingConfigChange"; "pendingSnapshot"; "pendingRaftLogQuery"]%string.
Proof. reflexivity. Qed.
Lemma node_gc_order : node_gc_tables = ["pendingProposals"; "pendingConfigChange"; "pendingSnapshot"]%string.
Proof. reflexivity. Qed.

(* a read index ctx is drawn from the process wide random source (fresh_ctx: the model's AddReads takes
   the ctx as an argument and panics on a repeated one), and node.processReadyToRead hands applied()
   the applied index of the state machine, ud.LastApplied, nothing else
   (read_completed_only_when_applied speaks about that argument) *)
Lemma read_ctx_random : read_ctx_low_is_random = true.
Proof. reflexivity. Qed.
Lemma ready_to_read_applied : ready_to_read_uses_last_applied = true.
Proof. reflexivity. Qed.

(* x_request / ReqLQ refuse whenever the slot is occupied ([x_outcome]: Some _ => busy), whatever the
   occupant's deadline: accepted_without_result_is_referenced needs it (an overwritten occupant is
   referenced by nothing); fresh_key rests on key generators seeded per incarnation *)
Lemma single_slot_busy : single_slot_busy_unconditional = true.
Proof. reflexivity. Qed.
Lemma key_seed_per_incarnation : proposal_key_seed_per_incarnation = true.
Proof. reflexivity. Qed.

(* every table method the model treats as ONE step is one critical section
   (Lock; defer Unlock at the top) in the source *)
Definition modelled_atomic : list string :=
  [ "proposalShard.takeProposal"; "proposalShard.gcAt"; "proposalShard.close";
    "pendingReadIndex.add"; "pendingReadIndex.addReady"; "pendingReadIndex.applied";
    "pendingReadIndex.dropped"; "pendingReadIndex.close";
    "pendingConfigChange.request"; "pendingConfigChange.gc"; "pendingConfigChange.committed";
    "pendingConfigChange.dropped"; "pendingConfigChange.apply"; "pendingConfigChange.close";
    "pendingSnapshot.request"; "pendingSnapshot.gc"; "pendingSnapshot.apply"; "pendingSnapshot.close";
    "pendingRaftLogQuery.add"; "pendingRaftLogQuery.returned"; "pendingRaftLogQuery.close";
    "readIndexQueue.add"; "readIndexQueue.get"; "readIndexQueue.close";
    "entryQueue.add"; "entryQueue.get"; "entryQueue.close" ]%string.
Lemma atomic_methods_are_locked :
  forallb (fun m => existsb (String.eqb m) locked_methods) modelled_atomic = true.
Proof. vm_compute. reflexivity. Qed.
(* Completed for a proposal is produced by proposalShard.applied only; who calls it *)
Lemma applied_called_from_apply_path : proposals_applied_callers = ["node.ApplyUpdate"%string].
Proof. reflexivity. Qed.

(* ------------------------------------------------------------------ *)
Definition hgot (h : heap) (r : N) : list ev := r_got (h_reqs h r).
Definition got (s : st) (r : N) : list ev := hgot (H s) r.

Definition is_committed (e : ev) : bool := rc (e_res e) =? cCommitted.
Definition is_term (e : ev) : bool := negb (is_committed e).
Definition nterm (l : list ev) : nat := length (filter is_term l).
Definition ncomm (l : list ev) : nat := length (filter is_committed l).

(* ---- every delivered result is what its code path says ---- *)
Definition ev_ok (e : ev) : Prop :=
  match e_src e with
  | SApplied cid sid key v rej => e_res e = mkRes (if rej then cRejected else cCompleted) v 0
  | SReadApplied a idx now dl =>
      0 < idx /\ idx <= a /\ e_res e = (if now <? dl then mkRes cCompleted 0 0 else mkRes cTimeout 0 0)
  | SGc now dl => dl < now /\ e_res e = mkRes cTimeout 0 0
  | SClose => e_res e = terminated
  | SDrop => e_res e = mkRes cDropped 0 0
  | SCommit => e_res e = mkRes cCommitted 0 0
  | SOther => rc (e_res e) = cCompleted \/ rc (e_res e) = cRejected \/ rc (e_res e) = cAborted
              \/ rc (e_res e) = cOutOfRange
  end.
Definition evs_ok (h : heap) : Prop := forall r, Forall ev_ok (hgot h r).

Lemma hgot_updR : forall h r f x, hgot (updR h r f) x = if x =? r then r_got (f (h_reqs h r)) else hgot h x.
Proof. intros. unfold hgot, updR. cbn. destruct (x =? r); reflexivity. Qed.

Lemma evs_ok_updR_same : forall h r f, (forall q, r_got (f q) = r_got q) -> evs_ok h -> evs_ok (updR h r f).
Proof.
  intros h r f Hf Hok x. rewrite hgot_updR. destruct (x =? r) eqn:E.
  - rewrite Hf. apply Hok.
  - apply Hok.
Qed.
Lemma evs_ok_updR_add : forall h r e, ev_ok e -> evs_ok h -> evs_ok (updR h r (fun q => r_add_got q e)).
Proof.
  intros h r e He Hok x. rewrite hgot_updR. destruct (x =? r) eqn:E.
  - cbn. apply Forall_app. split; [apply Hok | constructor; [exact He | constructor]].
  - apply Hok.
Qed.
Lemma evs_ok_same_reqs : forall h h', h_reqs h' = h_reqs h -> evs_ok h -> evs_ok h'.
Proof. intros h h' E Hok x. unfold hgot. rewrite E. apply Hok. Qed.

Lemma evs_ok_add_req : forall h q, r_got q = [] -> evs_ok h -> evs_ok (add_req h q).
Proof.
  intros h q Hq Hok x. unfold add_req, hgot. cbn. destruct (x =? h_nreq h).
  - rewrite Hq. constructor.
  - apply Hok.
Qed.

(* objects after one notification: untouched or o_notified *)
Lemma objs_notifyf : forall sc f h sl o,
  h_objs (notifyf sc f h sl) o = h_objs h o \/ exists r, h_objs (notifyf sc f h sl) o = o_notified (h_objs h o) r.
Proof.
  intros. unfold notifyf. destruct (negb (h_err h =? 0)); [left; reflexivity|].
  destruct (o_comp (h_objs h (so sl))); [|left; reflexivity].
  cbn. destruct (o =? so sl) eqn:E; [|left; reflexivity].
  apply N.eqb_eq in E. subst. right. eexists. reflexivity.
Qed.

Lemma evs_ok_notifyf : forall sc f h sl,
  ev_ok (mkEv (f (h_objs h (so sl))) (sr sl) (sc (h_objs h (so sl)))) -> evs_ok h -> evs_ok (notifyf sc f h sl).
Proof.
  intros sc f h sl He Hok. unfold notifyf. destruct (negb (h_err h =? 0)); [exact Hok|].
  destruct (o_comp (h_objs h (so sl))).
  - apply evs_ok_updR_add; [exact He|]. eapply evs_ok_same_reqs; [|exact Hok]. reflexivity.
  - eapply evs_ok_same_reqs; [|exact Hok]. reflexivity.
Qed.

Lemma evs_ok_notifyf_all : forall sc f (Q : obj -> slot -> Prop),
  (forall o r sl, Q o sl -> Q (o_notified o r) sl) ->
  (forall o sl, Q o sl -> ev_ok (mkEv (f o) (sr sl) (sc o))) ->
  forall xs h, evs_ok h -> Forall (fun sl => Q (h_objs h (so sl)) sl) xs -> evs_ok (notifyf_all sc f h xs).
Proof.
  intros sc f Q Hst Hev xs. induction xs as [|x xs IH]; intros h Hok Hq; [exact Hok|].
  cbn. inversion Hq; subst. apply IH.
  - apply evs_ok_notifyf; [apply Hev; assumption | exact Hok].
  - eapply Forall_impl; [|exact H2]. intros sl Hsl. cbn in Hsl.
    destruct (objs_notifyf sc f h x (so sl)) as [E|[r E]]; rewrite E; [exact Hsl | apply Hst; exact Hsl].
Qed.

Lemma evs_ok_notify_all : forall sc r xs h,
  ev_ok (mkEv r 0 sc) -> evs_ok h -> evs_ok (notify_all sc r h xs).
Proof.
  intros sc r xs h He Hok. unfold notify_all, notify.
  change (evs_ok (notifyf_all (fun _ => sc) (fun _ => r) h xs)).
  apply (evs_ok_notifyf_all (fun _ => sc) (fun _ => r) (fun _ _ => True)).
  - auto.
  - intros o sl _. exact He.
  - exact Hok.
  - apply Forall_forall. auto.
Qed.
Lemma evs_ok_notify : forall sc r h sl, ev_ok (mkEv r 0 sc) -> evs_ok h -> evs_ok (notify sc r h sl).
Proof. intros. unfold notify. apply evs_ok_notifyf; assumption. Qed.

Lemma evs_ok_notify_commit : forall h sl, evs_ok h -> evs_ok (notify_commit h sl).
Proof.
  intros h sl Hok. unfold notify_commit.
  destruct (negb (h_err h =? 0)); [exact Hok|].
  destruct (negb (o_nc (h_objs h (so sl)))); [eapply evs_ok_same_reqs; [|exact Hok]; reflexivity|].
  destruct (negb (o_hascomm (h_objs h (so sl)))); [eapply evs_ok_same_reqs; [|exact Hok]; reflexivity|].
  destruct (o_comm (h_objs h (so sl))); [|eapply evs_ok_same_reqs; [|exact Hok]; reflexivity].
  apply evs_ok_updR_add; [reflexivity|].
  destruct (has_committed _); eapply evs_ok_same_reqs; try exact Hok; reflexivity.
Qed.

Lemma evs_ok_get_obj : forall pick ncf rid key cid sid dl h,
  evs_ok h -> evs_ok (fst (get_obj pick ncf rid key cid sid dl h)).
Proof.
  intros. unfold get_obj. destruct (nth_error (h_pool h) (N.to_nat pick)); cbn.
  - eapply evs_ok_same_reqs with (h := updR h _ _); [reflexivity|].
    apply evs_ok_updR_same; [reflexivity | assumption].
  - eapply evs_ok_same_reqs; [|eassumption]. reflexivity.
Qed.
Lemma evs_ok_new_obj : forall ncf rid key dl h, evs_ok h -> evs_ok (fst (new_obj ncf rid key dl h)).
Proof. intros. eapply evs_ok_same_reqs; [|eassumption]. reflexivity. Qed.

Ltac same_reqs := match goal with Hk : evs_ok ?h |- evs_ok _ => eapply evs_ok_same_reqs; [|exact Hk]; reflexivity end.

Lemma evs_ok_x_gc : forall h x, evs_ok h -> evs_ok (fst (x_gc h x)).
Proof.
  intros h x Hok. unfold x_gc. destruct (x_pend x); [|exact Hok].
  destruct (sub64 _ _ <? gc_tick); [exact Hok|].
  destruct (o_dl (h_objs h (so s)) <? h_clock h) eqn:E; [|exact Hok].
  cbn. apply evs_ok_notifyf; [|exact Hok]. cbn. split; [apply N.ltb_lt; exact E | reflexivity].
Qed.
Lemma evs_ok_x_close : forall h x, evs_ok h -> evs_ok (fst (x_close h x)).
Proof.
  intros h x Hok. unfold x_close. destruct (x_pend x); [|exact Hok].
  cbn. apply evs_ok_notify; [reflexivity | exact Hok].
Qed.
Lemma evs_ok_x_request : forall ncf kind h x key to, evs_ok h -> evs_ok (fst (x_request ncf kind h x key to)).
Proof.
  intros. unfold x_request. destruct (x_outcome x to =? 0); [|assumption].
  cbn. apply evs_ok_add_req; [reflexivity|]. same_reqs.
Qed.

Lemma evs_ok_gc_at : forall s k now, evs_ok (H s) -> evs_ok (H (gc_at s k now)).
Proof.
  intros s k now Hok. unfold gc_at. destruct (p_stop (P s) k); [exact Hok|].
  destruct (sub64 now _ <? gc_tick); [exact Hok|]. cbn.
  apply (evs_ok_notifyf_all _ _ (fun o _ => o_dl o <? now = true)); auto.
  - intros o sl E. cbn. split; [apply N.ltb_lt; exact E | reflexivity].
  - apply Forall_forall. intros sl Hin. apply in_map_iff in Hin. destruct Hin as [kv [<- Hin]].
    apply filter_In in Hin. destruct Hin as [_ Hin]. apply andb_true_iff in Hin. apply Hin.
Qed.

Lemma evs_ok_reads_gc : forall h bs now, evs_ok h -> evs_ok (fst (reads_gc h bs now)).
Proof.
  intros h bs now Hok. unfold reads_gc. cbn.
  apply (evs_ok_notifyf_all _ _ (fun o _ => o_dl o <? now = true)); auto.
  - intros o sl E. cbn. split; [apply N.ltb_lt; exact E | reflexivity].
  - apply Forall_forall. intros sl Hin. apply filter_In in Hin. apply Hin.
Qed.

Lemma evs_ok_reads_applied : forall s a, evs_ok (H s) -> evs_ok (H (reads_applied s a)).
Proof.
  intros s a Hok. unfold reads_applied.
  destruct (rd_stop (R s) || _); [exact Hok|].
  set (now := h_clock (H s)).
  set (ready := fun b : N * N * (N * list slot) => (0 <? fst (snd b)) && (fst (snd b) <=? a)).
  assert (Hfold : forall bs h, Forall (fun b => ready b = true) bs -> evs_ok h ->
     evs_ok (fold_left (fun h b =>
              notifyf_all (fun o => SReadApplied a (fst (snd b)) now (o_dl o))
                          (fun o => if now <? o_dl o then mkRes cCompleted 0 0 else mkRes cTimeout 0 0)
                          h (snd (snd b))) bs h)).
  { induction bs as [|b bs IH]; intros h Hr Hh; [exact Hh|]. cbn. inversion Hr; subst. apply IH; [assumption|].
    apply (evs_ok_notifyf_all _ _ (fun _ _ => True)); auto.
    - intros o sl _. cbn. unfold ready in H1. apply andb_true_iff in H1. destruct H1 as [A B].
      apply N.ltb_lt in A. apply N.leb_le in B. auto.
    - apply Forall_forall. auto. }
  assert (Hh1 := Hfold (filter ready (batches (R s))) (H s)
            ltac:(apply Forall_forall; intros b Hb; apply filter_In in Hb; apply Hb) Hok).
  destruct (sub64 now (rd_lastgc (R s)) <? gc_tick); [exact Hh1|].
  match goal with |- context[reads_gc ?h ?bs ?n] =>
    pose proof (evs_ok_reads_gc h bs n Hh1) as Hg; destruct (reads_gc h bs n) as [h2 bs2] end.
  exact Hg.
Qed.

Lemma step0_evs_ok : forall s o, evs_ok (H s) -> evs_ok (H (step0 s o)).
Proof.
  intros s o Hok. destruct o; cbn [step0].
  - (* ProposeA *)
    destruct (to =? 0); [exact Hok|].
    pose proof (evs_ok_get_obj pick (cnc s) (h_nreq (H s)) key cid sid (add64 (h_clock (H s)) to) (H s) Hok) as Hg.
    destruct (get_obj _ _ _ _ _ _ _ _) as [h1 ob]. cbn in Hg. cbn.
    assert (evs_ok (add_req h1 (mkReq 0 ob key cid sid (add64 (h_clock (H s)) to) (cnc s) 0 false [] [] []))) as Ha
      by (apply evs_ok_add_req; [reflexivity | exact Hg]).
    destruct (find_key key (pend (P s))); [same_reqs|]. destruct (key_in_flight (H s) key); [same_reqs | exact Ha].
  - (* ProposeB *)
    destruct (_ && _); [|exact Hok].
    destruct (proposeB_outcome s =? 0); cbn; apply evs_ok_updR_same; auto.
  - (* Read *)
    destruct (to =? 0); [exact Hok|].
    pose proof (evs_ok_get_obj pick false (h_nreq (H s)) 0 0 0 (add64 (h_clock (H s)) to) (H s) Hok) as Hg.
    destruct (get_obj _ _ _ _ _ _ _ _) as [h1 ob]. cbn in Hg.
    destruct (read_outcome s to =? 0); cbn; apply evs_ok_add_req; auto.
  - pose proof (evs_ok_x_request (cnc s) 2 (H s) (C s) key to Hok) as Hg.
    destruct (x_request _ _ _ _ _ _). exact Hg.
  - pose proof (evs_ok_x_request false 3 (H s) (S s) key to Hok) as Hg.
    destruct (x_request _ _ _ _ _ _). exact Hg.
  - (* ReqLQ *)
    destruct (lq_outcome s =? 0); [|exact Hok]. cbn. apply evs_ok_add_req; [reflexivity|]. same_reqs.
  - (* Drain *)
    destruct (_ && _); [|exact Hok]. destruct (_ =? i); cbn; [same_reqs|].
    apply evs_ok_updR_same; auto.
  - (* Release *)
    destruct (_ && _); [|exact Hok]. cbn.
    eapply evs_ok_same_reqs with (h := updR (updO (H s) (r_obj (h_reqs (H s) i)) o_released) i r_set_rel); [reflexivity|].
    apply evs_ok_updR_same; [reflexivity|]. same_reqs.
  - exact Hok.
  - destruct (taken (R s)); exact Hok.
  - (* AddReads *)
    destruct (taken (R s)) eqn:Et; [exact Hok|].
    destruct (rd_stop (R s)).
    + destruct read_add_terminates_when_stopped; unfold setHR; cbn [H]; [|exact Hok].
      apply evs_ok_notify_all; [reflexivity | exact Hok].
    + destruct (existsb _ _); cbn; [same_reqs | exact Hok].
  - exact Hok.
  - apply evs_ok_reads_applied. exact Hok.
  - destruct (rd_stop (R s)); [exact Hok|]. cbn. apply evs_ok_notify_all; [reflexivity | exact Hok].
  - cbn. same_reqs.
  - apply evs_ok_gc_at. exact Hok.
  - pose proof (evs_ok_x_gc (H s) (C s) Hok) as Hg. destruct (x_gc _ _). exact Hg.
  - pose proof (evs_ok_x_gc (H s) (S s) Hok) as Hg. destruct (x_gc _ _). exact Hg.
  - destruct (take s cid sid key _); [|exact Hok]. cbn. apply evs_ok_notify; [reflexivity | exact Hok].
  - destruct (x_match _ _ _); [|exact Hok]. cbn. apply evs_ok_notify; [reflexivity | exact Hok].
  - exact Hok.
  - exact Hok.
  - (* LQReturned *)
    destruct (lq_pend s).
    + cbn. apply evs_ok_notify; [|exact Hok]. cbn. destruct oor; auto.
    + destruct (_ && _); [exact Hok | cbn; same_reqs].
  - (* AppliedTake *)
    destruct (take s cid sid key _); [|exact Hok]. cbn. apply evs_ok_notify; [reflexivity | exact Hok].
  - (* AppliedGc *)
    destruct (ap_now (P s)) as [[k now]|]; [|exact Hok].
    destruct (now =? _); [exact Hok|]. cbn.
    apply (evs_ok_gc_at (setHP s (H s) (p_set_ap (P s) None)) k now). exact Hok.
  - destruct (x_match _ _ _); [|exact Hok]. cbn. apply evs_ok_notify; [|exact Hok]. cbn. destruct rej; auto.
  - destruct (ign && abo); [cbn; same_reqs|].
    destruct (x_match _ _ _); [|exact Hok]. cbn. apply evs_ok_notify; [|exact Hok]. cbn.
    destruct ign; [auto|]. destruct abo; auto.
  - destruct (take s cid sid key _); [|exact Hok]. cbn. apply evs_ok_notify_commit. exact Hok.
  - destruct proposal_committed_under_lock; exact Hok.
  - destruct proposal_committed_under_lock; [exact Hok|].
    destruct (cm_b (P s)); [|exact Hok]. cbn. apply evs_ok_notify_commit. exact Hok.
  - destruct (x_match _ _ _); [|exact Hok]. cbn. apply evs_ok_notify_commit. exact Hok.
  - (* CloseR *)
    cbn. apply evs_ok_notify_all; [reflexivity|]. apply evs_ok_notify_all; [reflexivity|].
    destruct (rd_stop (R s)); [same_reqs | exact Hok].
  - cbn. apply evs_ok_notify_all; [reflexivity|]. destruct (p_stop (P s) _); [same_reqs | exact Hok].
  - destruct (x_open (C s)); [|exact Hok].
    pose proof (evs_ok_x_close (H s) (C s) Hok) as Hg. destruct (x_close _ _). exact Hg.
  - pose proof (evs_ok_x_close (H s) (S s) Hok) as Hg. destruct (x_close _ _). exact Hg.
  - destruct (lq_pend s); cbn; [|exact Hok]. apply evs_ok_notify; [reflexivity | exact Hok].
Qed.

Lemma step_evs_ok : forall s o, evs_ok (H s) -> evs_ok (H (step s o)).
Proof.
  intros s o Hok. unfold step. destruct (negb _); [exact Hok|].
  destruct (h_err (H (step0 s o)) =? 0); [apply step0_evs_ok; exact Hok | cbn; same_reqs].
Qed.

Lemma run_evs_ok : forall ops s, evs_ok (H s) -> evs_ok (H (run ops s)).
Proof.
  induction ops as [|o ops IH]; intros s Hok; [exact Hok|]. cbn. apply IH. apply step_evs_ok. exact Hok.
Qed.

Lemma init_evs_ok : forall ps nc a b, evs_ok (H (init ps nc a b)).
Proof. intros ps nc a b r. cbn. constructor. Qed.

Lemma reachable_evs_ok : forall ps nc a b ops r e,
  In e (got (run ops (init ps nc a b)) r) -> ev_ok e.
Proof.
  intros ps nc a b ops r e H0. pose proof (run_evs_ok ops _ (init_evs_ok ps nc a b) r) as Hf.
  rewrite Forall_forall in Hf. apply Hf. exact H0.
Qed.

Lemma read_applied_source_proved : forall ps nc a b ops r e ap idx now dl,
  In e (got (run ops (init ps nc a b)) r) -> e_src e = SReadApplied ap idx now dl ->
  0 < idx /\ idx <= ap /\ (rc (e_res e) = cCompleted -> now < dl).
Proof.
  intros ps nc a b ops r e ap idx now dl Hin Hs. apply reachable_evs_ok in Hin.
  unfold ev_ok in Hin. rewrite Hs in Hin. destruct Hin as [A [B C]]. repeat split; auto.
  intros Hc. rewrite C in Hc. destruct (now <? dl) eqn:E; [apply N.ltb_lt; exact E | discriminate Hc].
Qed.

