(* C15: sender-side splitting (snapshot.go splitBySnapshotFile / getChunks). *)
From Coq Require Import List NArith Bool Lia.
From Coq Require Import ZifyN ZifyNat ZifyBool.
From DB Require Import Base.Bytes Model.Chunks.
Import ListNotations.
Open Scope N_scope.
Definition nsum (l : list N) : N := fold_right N.add 0 l.

Lemma nseq_succ : forall n, nseq (n + 1) = nseq n ++ [n].
Proof.
  intro n. unfold nseq. replace (N.to_nat (n + 1)) with (S (N.to_nat n)) by lia.
  rewrite seq_S, map_app. simpl. rewrite N2Nat.id. reflexivity.
Qed.
Lemma In_nseq : forall n i, In i (nseq n) -> i < n.
Proof.
  intros n i H. unfold nseq in H. apply in_map_iff in H. destruct H as [x [Hx Hi]].
  apply in_seq in Hi. subst i.
  remember (N.to_nat n) as k eqn:Hk.
  assert (E : n = N.of_nat k) by (subst k; symmetry; apply N2Nat.id).
  rewrite E. unfold N.lt. rewrite <- Nat2N.inj_compare. apply Nat.compare_lt_iff. lia.
Qed.
Lemma nlen_nseq : forall n, nlen (nseq n) = n.
Proof. intro n. unfold nlen, nseq. rewrite map_length, seq_length. apply N2Nat.id. Qed.
Lemma nsum_app : forall a b, nsum (a ++ b) = nsum a + nsum b.
Proof. unfold nsum. induction a as [|x a IH]; intro b; simpl; auto. rewrite IH. apply N.add_assoc. Qed.
Lemma nsum_const : forall (f : N -> N) c l, (forall i, In i l -> f i = c) -> nsum (map f l) = nlen l * c.
Proof.
  induction l as [|x l IH]; intro H; [reflexivity|].
  change (nsum (map f (x :: l))) with (f x + nsum (map f l)).
  rewrite H by (left; reflexivity). rewrite IH by (intros; apply H; right; assumption).
  change (nlen (x :: l)) with (N.of_nat (S (length l))).
  rewrite Nat2N.inj_succ, N.mul_succ_l. unfold nlen. apply N.add_comm.
Qed.

Ltac Zify.zify_post_hook ::= Z.div_mod_to_equations.

Section Split.
  Variable cs : N.
  Hypothesis cs_pos : 0 < cs.

  (* one file: the chunk sizes add up to the file size, every chunk has between 1 and
     cs bytes, file chunk ids are 0..cc-1, chunk ids continue from [start], and every
     chunk carries the file's size, chunk count, path and file info flag *)
  Lemma split_file_covers :
    forall msg path fsize start sf, 0 < fsize ->
      let l := split_file cs msg path fsize start sf in
      let cc := chunk_count cs fsize in
      nsum (map c_size l) = fsize /\
      map c_fcid l = nseq cc /\
      map c_id l = map (N.add start) (nseq cc) /\
      nlen l = cc /\
      Forall (fun m => 1 <= c_size m <= cs /\ c_fccount m = cc /\ c_fsize m = fsize /\
                       c_path m = path /\ c_size m = (if c_fcid m =? cc - 1 then fsize - (cc - 1) * cs else cs) /\
                       c_hasfi m = (match sf with Some _ => true | None => false end)) l.
  Proof.
    intros msg path fsize start sf Hf l cc.
    set (q := (fsize - 1) / cs).
    assert (Hcc : cc = q + 1) by reflexivity.
    assert (Hq : q * cs <= fsize - 1 /\ fsize - 1 < (q + 1) * cs) by (unfold q; nia).
    unfold l, split_file. fold cc. rewrite !map_map. simpl.
    repeat split.
    - rewrite Hcc, nseq_succ, map_app, nsum_app. simpl.
      rewrite (nsum_const _ cs).
      + rewrite nlen_nseq. replace (q + 1 - 1) with q by lia. rewrite N.eqb_refl. unfold nsum. simpl. lia.
      + intros i Hi. apply In_nseq in Hi. replace (q + 1 - 1) with q by lia.
        destruct (i =? q) eqn:E; auto. apply N.eqb_eq in E. lia.
    - rewrite map_id. reflexivity.
    - unfold nlen. rewrite map_length. fold (nlen (nseq cc)). apply nlen_nseq.
    - apply Forall_forall. intros m Hm. apply in_map_iff in Hm. destruct Hm as [i [Hm Hi]]. subst m. simpl.
      apply In_nseq in Hi. rewrite Hcc in *. replace (q + 1 - 1) with q by lia.
      destruct (i =? q) eqn:E; [apply N.eqb_eq in E|apply N.eqb_neq in E];
        repeat split; try lia; destruct sf; reflexivity.
  Qed.

  (* getChunks stamps every chunk with the total number of chunks *)
  Lemma get_chunks_count : forall msg l, get_chunks cs msg = Some l ->
      Forall (fun m => c_count m = nlen l) l /\
      (0 < m_fsize msg /\ Forall (fun f => 0 < sf_size f) (m_files msg)).
  Proof.
    intros msg l H. unfold get_chunks in H.
    destruct (_ || _) eqn:E; [discriminate|]. injection H as H. subst l.
    apply orb_false_iff in E as [E1 E2]. split.
    - unfold nlen. rewrite map_length. apply Forall_forall. intros m Hm.
      apply in_map_iff in Hm. destruct Hm as [x [Hx _]]. subst m. reflexivity.
    - split; [apply N.eqb_neq in E1; lia|].
      apply Forall_forall. intros f Hf.
      assert (X : existsb (fun f0 => sf_size f0 =? 0) (m_files msg) = false) by exact E2.
      destruct (sf_size f =? 0) eqn:E; [|apply N.eqb_neq in E; lia].
      exfalso. assert (existsb (fun f0 => sf_size f0 =? 0) (m_files msg) = true)
        by (apply existsb_exists; exists f; auto). congruence.
  Qed.
End Split.
